/-
Delta bit-packing codec (Model/DeltaPack.lean): int32 deltas with wrap-around, a common
bit width, zig-zagged minimum delta.
-/
import LinVerif.Lemmas.C14BitsW
import LinVerif.Lemmas.C14BitsR
import LinVerif.Lemmas.C14Xor
import LinVerif.Lemmas.C14Varint
import LinVerif.Model.DeltaPack

namespace LinVerif.DeltaPack
open LinVerif.Bits LinVerif.Varint LinVerif.Xor

/-! ### the writer only ever appends to its buffer -/

theorem writeBit_out (w : Writer) (b : Bool) : ∃ t, (w.writeBit b).out = w.out ++ t := by
  unfold Writer.writeBit
  dsimp only
  split
  · exact ⟨_, rfl⟩
  · exact ⟨[], by simp⟩

theorem writeByte_out (w : Writer) (b : Nat) : ∃ t, (w.writeByte b).out = w.out ++ t := ⟨_, rfl⟩

theorem writeTopBits_out : ∀ (k : Nat) (w : Writer) (u : Nat), ∃ t, (w.writeTopBits u k).out = w.out ++ t := by
  intro k
  induction k with
  | zero => intro w u; exact ⟨[], by simp [Writer.writeTopBits]⟩
  | succ k ih =>
    intro w u
    obtain ⟨t1, h1⟩ := writeBit_out w ((u >>> 63) == 1)
    obtain ⟨t2, h2⟩ := ih (w.writeBit ((u >>> 63) == 1)) ((u <<< 1) % two64)
    exact ⟨t1 ++ t2, by simp only [Writer.writeTopBits]; rw [h2, h1, List.append_assoc]⟩

theorem writeTopBytes_out : ∀ (k : Nat) (w : Writer) (u : Nat), ∃ t, (w.writeTopBytes u k).1.out = w.out ++ t := by
  intro k
  induction k with
  | zero => intro w u; exact ⟨[], by simp [Writer.writeTopBytes]⟩
  | succ k ih =>
    intro w u
    obtain ⟨t1, h1⟩ := writeByte_out w (u >>> 56)
    obtain ⟨t2, h2⟩ := ih (w.writeByte (u >>> 56)) ((u <<< 8) % two64)
    exact ⟨t1 ++ t2, by simp only [Writer.writeTopBytes]; rw [h2, h1, List.append_assoc]⟩

theorem writeBits_out (w : Writer) (u n : Nat) : ∃ t, (w.writeBits u n).out = w.out ++ t := by
  unfold Writer.writeBits
  dsimp only
  obtain ⟨t1, h1⟩ := writeTopBytes_out (n / 8) w (if n > 64 then 0 else (u % two64) <<< (64 - n) % two64)
  generalize w.writeTopBytes (if n > 64 then 0 else (u % two64) <<< (64 - n) % two64) (n / 8) = p at h1
  obtain ⟨w1, u1⟩ := p
  obtain ⟨t2, h2⟩ := writeTopBits_out (n % 8) w1 u1
  exact ⟨t1 ++ t2, by simp only at h1 ⊢; rw [h2, h1, List.append_assoc]⟩

theorem flush_out (w : Writer) : ∃ t, w.flush.out = w.out ++ t := by
  unfold Writer.flush
  split
  · exact ⟨_, rfl⟩
  · exact ⟨[], by simp⟩

theorem packAll_out : ∀ (ds : List Int) (w : Writer) (m : Int) (width : Nat),
    ∃ t, (packAll w m width ds).out = w.out ++ t := by
  intro ds
  induction ds with
  | nil => intro w m width; exact ⟨[], by simp [packAll]⟩
  | cons d ds ih =>
    intro w m width
    obtain ⟨t1, h1⟩ := writeBits_out w (toU64 (toI32 (d - m))) width
    obtain ⟨t2, h2⟩ := ih (w.writeBits (toU64 (toI32 (d - m))) width) m width
    exact ⟨t1 ++ t2, by simp only [packAll]; rw [h2, h1, List.append_assoc]⟩

/-! ### int32 arithmetic -/

def I32 (x : Int) : Prop := -2147483648 ≤ x ∧ x < 2147483648

theorem toI32_range (x : Int) : I32 (toI32 x) := by
  unfold I32 toI32; simp only [two31, two32]; omega

theorem toI32_id (x : Int) (h : I32 x) : toI32 x = x := by
  unfold I32 at h; unfold toI32; simp only [two31, two32]; omega

/-- the decoder's `previous - (int32(x) + minDelta)` undoes the encoder's `previous - v` -/
theorem next_value (p v m : Int) (hp : I32 p) (hv : I32 v) (hm : I32 m) :
    toI32 (p - toI32 (toI32 ((toU32 (toI32 (p - v) - m) : Nat) : Int) + m)) = v := by
  unfold I32 at hp hv hm
  unfold toI32 toU32
  simp only [two31, two32]
  omega

/-- what `WriteBits(uint64(deltaDelta), width)` stores is `uint32(delta - minDelta)` when that
fits in `width ≤ 32` bits -/
theorem packed_value (d m : Int) (width : Nat) (hw : width ≤ 32) (hfit : toU32 (d - m) < 2 ^ width) :
    toU64 (toI32 (d - m)) % 2 ^ width = toU32 (d - m) := by
  have h32 : toU64 (toI32 (d - m)) % 2 ^ 32 = toU32 (d - m) := by
    unfold toU64 toI32 toU32
    simp only [two31, two32, two64]
    omega
  have hdvd : 2 ^ width ∣ 2 ^ 32 := Nat.pow_dvd_pow 2 hw
  rw [← Nat.mod_mod_of_dvd _ hdvd, h32]
  exact Nat.mod_eq_of_lt hfit

theorem lt_pow_widthOf (m : Nat) (h : m < 4294967296) : m < 2 ^ widthOf m ∧ widthOf m ≤ 32 := by
  unfold widthOf clz32
  have h1 := bitLenAux_le 32 m
  have h2 := lt_two_pow_bitLenAux 32 m (by simpa using h)
  have e : 32 - (32 - bitLenAux 32 m) = bitLenAux 32 m := by omega
  rw [e]; exact ⟨h2, h1⟩

theorem toU32_lt (x : Int) : toU32 x < 4294967296 := by
  unfold toU32; simp only [two32]; omega

/-- one step of the `max` loop in `Bytes()` -/
def ddMax (m : Int) (mx : Nat) (v : Int) : Nat := let dd := toU32 (v - m); if mx < dd then dd else mx

theorem maxDD_eq (m : Int) (ds : List Int) : maxDD m ds = ds.foldl (ddMax m) 0 := rfl

theorem maxDD_spec (m : Int) (ds : List Int) : ∀ (a : Nat), a < 4294967296 →
    a ≤ ds.foldl (ddMax m) a ∧ ds.foldl (ddMax m) a < 4294967296 ∧ ∀ d ∈ ds, toU32 (d - m) ≤ ds.foldl (ddMax m) a := by
  induction ds with
  | nil => intro a ha; simp [ha]
  | cons d ds ih =>
    intro a ha
    rw [List.foldl_cons]
    have hd := toU32_lt (d - m)
    by_cases hc : a < toU32 (d - m)
    · have e : ddMax m a d = toU32 (d - m) := by simp [ddMax, hc]
      rw [e]
      obtain ⟨h1, h2, h3⟩ := ih (toU32 (d - m)) hd
      refine ⟨by omega, h2, ?_⟩
      intro x hx
      simp only [List.mem_cons] at hx
      rcases hx with rfl | hx
      · exact h1
      · exact h3 x hx
    · have e : ddMax m a d = a := by simp [ddMax, hc]
      rw [e]
      obtain ⟨h1, h2, h3⟩ := ih a ha
      refine ⟨h1, h2, ?_⟩
      intro x hx
      simp only [List.mem_cons] at hx
      rcases hx with rfl | hx
      · omega
      · exact h3 x hx

/-! ### encoder -/

/-- the deltas `Add` records: `previous - v` in int32 -/
def diffs : Int → List Int → List Int
  | _, [] => []
  | p, v :: rest => toI32 (p - v) :: diffs v rest

def minFold (m : Int) (ds : List Int) : Int := ds.foldl (fun m d => if d < m then d else m) m

def lastOr (p : Int) : List Int → Int
  | [] => p
  | v :: rest => lastOr v rest

def Enc.addAll (e : Enc) (vs : List Int) : Enc := vs.foldl Enc.add e

theorem addAll_rest : ∀ (rest : List Int) (e : Enc), e.hasFirst = true →
    e.addAll rest = { e with deltas := e.deltas ++ diffs e.previous rest,
                             minDelta := minFold e.minDelta (diffs e.previous rest),
                             previous := lastOr e.previous rest } := by
  intro rest
  induction rest with
  | nil => intro e _; simp [Enc.addAll, diffs, minFold, lastOr]
  | cons v rest ih =>
    intro e hf
    have hadd : e.add v =
        { e with deltas := e.deltas ++ [toI32 (e.previous - v)],
                 minDelta := (if toI32 (e.previous - v) < e.minDelta then toI32 (e.previous - v) else e.minDelta),
                 previous := v } := by
      simp [Enc.add, hf]
    have := ih (e.add v) (by rw [hadd]; exact hf)
    simp only [Enc.addAll, List.foldl_cons] at this ⊢
    rw [this, hadd]
    simp [diffs, minFold, lastOr, List.append_assoc]

theorem addAll_cons (e : Enc) (v0 : Int) (rest : List Int) (hf : e.hasFirst = false) (hd : e.deltas = []) :
    e.addAll (v0 :: rest) = { e with hasFirst := true, first := v0, deltas := diffs v0 rest,
                                      minDelta := minFold e.minDelta (diffs v0 rest),
                                      previous := lastOr v0 rest } := by
  have hadd : e.add v0 = { e with hasFirst := true, first := v0, previous := v0 } := by
    simp [Enc.add, hf]
  have := addAll_rest rest (e.add v0) (by rw [hadd])
  simp only [Enc.addAll, List.foldl_cons] at this ⊢
  rw [this, hadd]
  simp [hd]

theorem diffs_range : ∀ (rest : List Int) (p : Int), ∀ d ∈ diffs p rest, I32 d := by
  intro rest
  induction rest with
  | nil => intro p d hd; simp [diffs] at hd
  | cons v rest ih =>
    intro p d hd
    simp only [diffs, List.mem_cons] at hd
    rcases hd with rfl | hd
    · exact toI32_range _
    · exact ih v d hd

theorem minFold_range (ds : List Int) : ∀ m, I32 m → (∀ d ∈ ds, I32 d) → I32 (minFold m ds) := by
  induction ds with
  | nil => intro m hm _; simpa [minFold] using hm
  | cons d ds ih =>
    intro m hm hds
    simp only [minFold, List.foldl_cons]
    apply ih
    · split
      · exact hds d (by simp)
      · exact hm
    · intro x hx; exact hds x (by simp [hx])

theorem diffs_length (rest : List Int) : ∀ p, (diffs p rest).length = rest.length := by
  induction rest with
  | nil => intro p; rfl
  | cons v rest ih => intro p; simp [diffs, ih]

/-- bits of the packed deltas -/
def packedBits (m : Int) (width : Nat) (ds : List Int) : List Bool :=
  ds.flatMap (fun d => natBits width (toU64 (toI32 (d - m))))

theorem packAll_spec : ∀ (ds : List Int) (w : Writer) (m : Int) (width : Nat), w.Ok → width ≤ 64 →
    (packAll w m width ds).Ok ∧ (packAll w m width ds).bits = w.bits ++ packedBits m width ds := by
  intro ds
  induction ds with
  | nil => intro w m width h _; simp [packAll, packedBits, h]
  | cons d ds ih =>
    intro w m width h hw
    have h1 := w.writeBits_spec h (toU64 (toI32 (d - m))) width hw
    obtain ⟨i1, i2⟩ := ih _ m width h1.1 hw
    refine ⟨i1, ?_⟩
    simp only [packAll]
    rw [i2, h1.2]
    simp [packedBits, List.append_assoc]

/-! ### decoder -/

def Dec.nextN : Nat → Dec → List Int × Dec
  | 0, d => ([], d)
  | n + 1, d =>
    let (v, d1) := d.next
    let (vs, d2) := Dec.nextN n d1
    (v :: vs, d2)

theorem nextN_rest : ∀ (rest : List Int) (p : Int) (d : Dec) (t : List Bool),
    d.r.Ok → d.width ≤ 32 → I32 d.minDelta → I32 p → (∀ v ∈ rest, I32 v) →
    (∀ x ∈ diffs p rest, toU32 (x - d.minDelta) < 2 ^ d.width) →
    d.r.rest = packedBits d.minDelta d.width (diffs p rest) ++ t →
    d.previous = p → d.pos = rest.length → (rest.length : Int) < d.count → d.count < 2147483648 →
    ∃ d', Dec.nextN rest.length d = (rest, d') ∧ d'.pos = 0 ∧ d'.count = d.count := by
  intro rest
  induction rest with
  | nil =>
    intro p d t _ _ _ _ _ _ _ _ hpos _ _
    exact ⟨d, rfl, by simpa using hpos, rfl⟩
  | cons v rest ih =>
    intro p d t hr hw hm hp hvs hfit hrest hprev hpos hcnt hc31
    have hv : I32 v := hvs v (by simp)
    simp only [diffs, packedBits, List.flatMap_cons, List.append_assoc] at hrest
    obtain ⟨r1, hrd, ok1, hrest1, _⟩ := d.r.readBits_spec hr d.width _ _ (by omega) (by simp) hrest
    have hx : bitsVal (natBits d.width (toU64 (toI32 (toI32 (p - v) - d.minDelta))))
        = toU32 (toI32 (p - v) - d.minDelta) := by
      rw [bitsVal_natBits]
      exact packed_value (toI32 (p - v)) d.minDelta d.width hw (hfit _ (by simp [diffs]))
    have hne : ¬ d.pos = d.count := by
      simp only [List.length_cons] at hpos hcnt
      omega
    have hnext : d.next = (v, { d with r := r1, pos := rest.length, previous := v }) := by
      unfold Dec.next
      rw [if_neg hne]
      simp only [hrd, Option.getD_some]
      have hval := next_value p v d.minDelta hp hv hm
      rw [hx, hprev, hval]
      have hp1 : toI32 (d.pos - 1) = (rest.length : Int) := by
        simp only [List.length_cons] at hpos
        rw [hpos]
        have : ((rest.length + 1 : Nat) : Int) - 1 = (rest.length : Int) := by omega
        rw [this]
        apply toI32_id
        simp only [List.length_cons] at hcnt
        unfold I32; omega
      rw [hp1]
    obtain ⟨d', hn, hp0, hc⟩ := ih v { d with r := r1, pos := rest.length, previous := v } t ok1 hw hm hv
      (fun x hx => hvs x (by simp [hx]))
      (fun x hx => hfit x (by simp [diffs, hx]))
      (by simpa [packedBits] using hrest1) rfl rfl
      (by simp only [List.length_cons] at hcnt; simp only; omega) hc31
    refine ⟨d', ?_, hp0, by simpa using hc⟩
    simp only [List.length_cons, Dec.nextN, hnext, hn]


/-! ### whole round trip -/

/-- an encoder ready for a new sequence: what `NewDeltaBitPackingEncoder()` returns (`minDelta = 0`)
and what `Reset()` leaves (`minDelta = MaxInt32`) both qualify -/
structure Enc.Clean (e : Enc) : Prop where
  noFirst : e.hasFirst = false
  noDeltas : e.deltas = []
  minRange : I32 e.minDelta
  cur : e.bw.cur = 0
  count : e.bw.count = 8

theorem Enc.fresh_clean : Enc.fresh.Clean := ⟨rfl, rfl, by simp [Enc.fresh, I32], rfl, rfl⟩
theorem Enc.reset_clean (e : Enc) : e.reset.Clean := ⟨rfl, rfl, by simp [Enc.reset, I32, maxInt32], rfl, rfl⟩

theorem putVarint_lt (x : Int) : ∀ b ∈ putVarint x, b < 256 := putUvarintAux_lt 9 _

theorem toI64_range (x : Int) : -(two63 : Int) ≤ toI64 x ∧ toI64 x < (two63 : Int) := by
  unfold toI64; simp only [two63, two64]; omega

theorem toU64_toI64 (z : Nat) (h : z < two64) : toU64 (toI64 (z : Int)) = z := by
  unfold toU64 toI64; simp only [two63, two64] at *; omega

theorem I32_in_I64 (x : Int) (h : I32 x) : -(two63 : Int) ≤ x ∧ x < (two63 : Int) := by
  unfold I32 at h; simp only [two63]; omega

/-- the header `Bytes()` writes through the stream writer -/
def mkHeader (n width : Nat) (m v0 : Int) : List Nat :=
  putVarint (toI32 (n : Int)) ++ [width % 256] ++ putVarint (toI64 (zigzagEnc m : Nat)) ++ putVarint v0

theorem mkHeader_lt (n width : Nat) (m v0 : Int) : ∀ b ∈ mkHeader n width m v0, b < 256 := by
  intro b hb
  simp only [mkHeader, List.mem_append, List.mem_singleton] at hb
  rcases hb with ((hb | hb) | hb) | hb
  · exact putVarint_lt _ b hb
  · omega
  · exact putVarint_lt _ b hb
  · exact putVarint_lt _ b hb

/-- `Bytes()` of an encoder whose bit writer is clean: header, then the packed deltas,
zero-padded to a byte boundary -/
theorem bytes_layout (bw : Writer) (ds : List Int) (m v0 prev : Int) (width : Nat)
    (hcur : bw.cur = 0) (hcnt : bw.count = 8) (hwd : widthOf (maxDD m ds) = width) (hw : width ≤ 64) :
    ∃ tail pad, ((⟨bw, ds, v0, prev, m, true⟩ : Enc).bytes).1 = mkHeader ds.length width m v0 ++ tail ∧
      (∀ b ∈ tail, b < 256) ∧ bytesBits tail = packedBits m width ds ++ List.replicate pad false := by
  have hdata : ((⟨bw, ds, v0, prev, m, true⟩ : Enc).bytes).1
      = (packAll ⟨mkHeader ds.length width m v0, bw.cur, bw.count⟩ m width ds).flush.out := by
    rw [← hwd]; rfl
  have hlt := mkHeader_lt ds.length width m v0
  generalize mkHeader ds.length width m v0 = header at hdata hlt ⊢
  have hw0 : (⟨header, bw.cur, bw.count⟩ : Writer).Ok :=
    ⟨by simp [hcnt], by simp [hcnt], by simp [hcur], by intro i _; simp [hcur], hlt⟩
  have hw0bits : (⟨header, bw.cur, bw.count⟩ : Writer).bits = bytesBits header := by
    simp [Writer.bits, Writer.pending, hcnt, natBits]
  obtain ⟨ok1, hbits1⟩ := packAll_spec ds ⟨header, bw.cur, bw.count⟩ m width hw0 hw
  obtain ⟨t1, ht1⟩ := packAll_out ds ⟨header, bw.cur, bw.count⟩ m width
  obtain ⟨t2, ht2⟩ := flush_out (packAll ⟨header, bw.cur, bw.count⟩ m width ds)
  have hfl := Writer.flush_bits _ ok1
  have hfll := Writer.flush_out_lt _ ok1
  have hout : (packAll ⟨header, bw.cur, bw.count⟩ m width ds).flush.out = header ++ (t1 ++ t2) := by
    rw [ht2, ht1, List.append_assoc]
  refine ⟨t1 ++ t2, (packAll ⟨header, bw.cur, bw.count⟩ m width ds).pad, by rw [hdata, hout], ?_, ?_⟩
  · intro b hb
    apply hfll
    rw [hout]; simp only [List.mem_append] at hb ⊢; exact Or.inr hb
  · have : bytesBits (header ++ (t1 ++ t2)) = bytesBits header ++ (packedBits m width ds
        ++ List.replicate (packAll ⟨header, bw.cur, bw.count⟩ m width ds).pad false) := by
      rw [← hout, hfl, hbits1, hw0bits, List.append_assoc]
    rw [bytesBits_append] at this
    exact List.append_cancel_left this

theorem header_assoc (a c d tail : List Nat) (b : Nat) :
    (a ++ [b] ++ c ++ d) ++ tail = a ++ (b :: (c ++ (d ++ tail))) := by
  simp only [List.append_assoc, List.cons_append, List.nil_append]

/-- `Reset(buf)` in terms of its four header reads -/
theorem reset_eq (d0 : Dec) (buf r1 r2 r3 r4 : List Nat) (x mn p : Int) (w : Nat) (e1 e2 e3 : RErr)
    (h1 : readVarint buf = (x, r1, e1)) (h2 : srReadByte r1 = (w, r2))
    (h3 : readVarint r2 = (mn, r3, e2)) (h4 : readVarint r3 = (p, r4, e3)) :
    d0.reset buf = ⟨⟨r4, 0, 0, 0, false⟩, toI32 (toI32 x + 1), toI32 (toI32 x + 1), w, toI32 p,
      toI32 (zigzagDec (toU64 mn))⟩ := by
  unfold Dec.reset
  simp only [h1, h2, h3, h4]
  simp [Reader.setBuf, Reader.reset]

/-- `Reset(buf)` of ANY decoder object on a header followed by `tail` -/
theorem reset_header (d0 : Dec) (n width : Nat) (m v0 : Int) (tail : List Nat)
    (hn : n < 2147483647) (hw : width ≤ 32) (hm : I32 m) (hv0 : I32 v0) :
    d0.reset (mkHeader n width m v0 ++ tail)
      = ⟨⟨tail, 0, 0, 0, false⟩, ((n + 1 : Nat) : Int), ((n + 1 : Nat) : Int), width, v0, m⟩ := by
  have hnI : I32 (n : Int) := by unfold I32; omega
  have hwidth256 : width % 256 = width := by omega
  have hz := zigzagEnc_lt m
  have r1 := readVarint_put (toI32 (n : Int))
    ((width % 256) :: (putVarint (toI64 (zigzagEnc m : Nat)) ++ (putVarint v0 ++ tail)))
    (I32_in_I64 _ (toI32_range _)).1 (I32_in_I64 _ (toI32_range _)).2
  have r2 := readVarint_put (toI64 (zigzagEnc m : Nat)) (putVarint v0 ++ tail)
    (toI64_range _).1 (toI64_range _).2
  have r3 := readVarint_put v0 tail (I32_in_I64 _ hv0).1 (I32_in_I64 _ hv0).2
  have hbuf : mkHeader n width m v0 ++ tail = putVarint (toI32 (n : Int)) ++
      ((width % 256) :: (putVarint (toI64 (zigzagEnc m : Nat)) ++ (putVarint v0 ++ tail))) :=
    header_assoc _ _ _ _ _
  rw [hbuf, reset_eq d0 _ _ _ _ _ _ _ _ _ _ _ _ r1 rfl r2 r3]
  have e1 : toI32 (toI32 (toI32 (n : Int)) + 1) = ((n + 1 : Nat) : Int) := by
    rw [toI32_id _ (toI32_range _), toI32_id _ hnI]
    rw [toI32_id]
    · omega
    · unfold I32; omega
  have e2 : toI32 (zigzagDec (toU64 (toI64 (zigzagEnc m : Nat)))) = m := by
    rw [toU64_toI64 _ hz, zigzagDec_zigzagEnc m (I32_in_I64 _ hm).1 (I32_in_I64 _ hm).2, toI32_id _ hm]
  rw [e1, e2, toI32_id _ hv0, hwidth256]

theorem delta_roundtrip_core (e0 : Enc) (d0 : Dec) (v0 : Int) (rest : List Int)
    (hc : e0.Clean) (hv0 : I32 v0) (hrest : ∀ v ∈ rest, I32 v) (hlen : rest.length < 2147483647) :
    (d0.reset ((e0.addAll (v0 :: rest)).bytes).1).count = ((rest.length + 1 : Nat) : Int) ∧
    ∃ d', Dec.nextN (rest.length + 1) (d0.reset ((e0.addAll (v0 :: rest)).bytes).1) = (v0 :: rest, d') ∧
      d'.hasNext = false := by
  obtain ⟨hnf, hnd, hmr, hcur, hcnt⟩ := hc
  rw [addAll_cons e0 v0 rest hnf hnd]
  have hdsr := diffs_range rest v0
  have hmI := minFold_range (diffs v0 rest) e0.minDelta hmr hdsr
  have hdl := diffs_length rest v0
  obtain ⟨_, hmaxlt, hmaxge⟩ := maxDD_spec (minFold e0.minDelta (diffs v0 rest)) (diffs v0 rest) 0 (by omega)
  rw [← maxDD_eq] at hmaxlt hmaxge
  obtain ⟨hwfit, hw32⟩ := lt_pow_widthOf _ hmaxlt
  generalize hm : minFold e0.minDelta (diffs v0 rest) = m at *
  generalize hwd : widthOf (maxDD m (diffs v0 rest)) = width at *
  obtain ⟨tail, pad, hbytes, htail_lt, htail_bits⟩ :=
    bytes_layout e0.bw (diffs v0 rest) m v0 (lastOr v0 rest) width hcur hcnt hwd (by omega)
  have hb' : ((⟨e0.bw, diffs v0 rest, v0, lastOr v0 rest, m, true⟩ : Enc).bytes).1
      = mkHeader (diffs v0 rest).length width m v0 ++ tail := hbytes
  show (d0.reset ((⟨e0.bw, diffs v0 rest, v0, lastOr v0 rest, m, true⟩ : Enc).bytes).1).count = _ ∧
    ∃ d', Dec.nextN (rest.length + 1) (d0.reset ((⟨e0.bw, diffs v0 rest, v0, lastOr v0 rest, m, true⟩ : Enc).bytes).1)
      = (v0 :: rest, d') ∧ d'.hasNext = false
  rw [hb', hdl, reset_header d0 rest.length width m v0 tail hlen hw32 hmI hv0]
  refine ⟨rfl, ?_⟩
  have hnI : I32 (rest.length : Int) := by unfold I32; omega
  have hp : toI32 (((rest.length + 1 : Nat) : Int) - 1) = (rest.length : Int) := by
    have : ((rest.length + 1 : Nat) : Int) - 1 = (rest.length : Int) := by omega
    rw [this]; exact toI32_id _ hnI
  have hfirst : (⟨⟨tail, 0, 0, 0, false⟩, ((rest.length + 1 : Nat) : Int), ((rest.length + 1 : Nat) : Int),
      width, v0, m⟩ : Dec).next
      = (v0, ⟨⟨tail, 0, 0, 0, false⟩, ((rest.length + 1 : Nat) : Int), (rest.length : Int), width, v0, m⟩) := by
    unfold Dec.next
    simp only [if_true, hp]
  have hfit : ∀ x ∈ diffs v0 rest, toU32 (x - m) < 2 ^ width :=
    fun x hx => Nat.lt_of_le_of_lt (hmaxge x hx) hwfit
  obtain ⟨d', hn, hp0, _⟩ := nextN_rest rest v0
    ⟨⟨tail, 0, 0, 0, false⟩, ((rest.length + 1 : Nat) : Int), (rest.length : Int), width, v0, m⟩
    (List.replicate pad false)
    (Reader.ok_of_aligned _ 0 htail_lt) hw32 hmI hv0 hrest hfit
    (by rw [Reader.rest_of_aligned, List.drop_zero, htail_bits])
    rfl rfl (by simp only; omega) (by simp only; omega)
  refine ⟨d', ?_, ?_⟩
  · simp only [Dec.nextN, hfirst, hn]
  · simp [Dec.hasNext, hp0]

end LinVerif.DeltaPack
