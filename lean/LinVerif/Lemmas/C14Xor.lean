/-
XOR codec (Model/Xor.lean): what `Write` appends to the abstract bit stream (`encBits`) and
that `Next` reads exactly that back, for every 64-bit pattern and every window state.
-/
import LinVerif.Lemmas.C14BitsW
import LinVerif.Lemmas.C14BitsR
import LinVerif.Model.Xor

namespace LinVerif.Xor
open LinVerif.Bits
open LinVerif.Varint (two64 two63)

/-! ### leading / trailing zero counts -/

theorem bitLenAux_le (fuel x : Nat) : bitLenAux fuel x ≤ fuel := by
  induction fuel generalizing x with
  | zero => simp [bitLenAux]
  | succ f ih =>
    unfold bitLenAux
    split
    · omega
    · have := ih (x / 2); omega

theorem lt_two_pow_bitLenAux (fuel x : Nat) (h : x < 2 ^ fuel) : x < 2 ^ bitLenAux fuel x := by
  induction fuel generalizing x with
  | zero => simp [bitLenAux] at *; omega
  | succ f ih =>
    unfold bitLenAux
    split
    · omega
    · have h2 : x / 2 < 2 ^ f := by
        rw [Nat.pow_succ] at h; omega
      have := ih (x / 2) h2
      rw [Nat.add_comm 1, Nat.pow_succ]
      omega

theorem bitLenAux_pos (fuel x : Nat) (h : x ≠ 0) : 1 ≤ bitLenAux (fuel + 1) x := by
  unfold bitLenAux
  simp [h]

theorem clz64_le (x : Nat) (h : x ≠ 0) : clz64 x ≤ 63 := by
  unfold clz64
  have h1 : 1 ≤ bitLenAux 64 x := bitLenAux_pos 63 x h
  omega

theorem lt_two_pow_clz64 (x : Nat) (h : x < two64) : x < 2 ^ (64 - clz64 x) := by
  unfold clz64
  have h1 := bitLenAux_le 64 x
  have h2 := lt_two_pow_bitLenAux 64 x (by simpa [two64] using h)
  have e : 64 - (64 - bitLenAux 64 x) = bitLenAux 64 x := by omega
  rw [e]; exact h2

theorem ctzAux_low (fuel x : Nat) : ∀ i, i < ctzAux fuel x → x.testBit i = false := by
  induction fuel generalizing x with
  | zero => intro i hi; simp [ctzAux] at hi
  | succ f ih =>
    intro i hi
    unfold ctzAux at hi
    split at hi
    · omega
    · cases i with
      | zero => rw [Nat.testBit_zero]; simp; omega
      | succ j => rw [Nat.testBit_add_one]; exact ih (x / 2) j (by omega)

theorem ctz64_low (x : Nat) (h : x ≠ 0) : ∀ i, i < ctz64 x → x.testBit i = false := by
  unfold ctz64
  rw [if_neg h]
  exact ctzAux_low 64 x

theorem testBit_false_of_lt {x n i : Nat} (h : x < 2 ^ n) (hi : n ≤ i) : x.testBit i = false := by
  apply Nat.testBit_lt_two_pow
  exact Nat.lt_of_lt_of_le h (Nat.pow_le_pow_right (by omega) hi)

theorem clz_add_ctz_le (x : Nat) (h0 : x ≠ 0) (h : x < two64) : clz64 x + ctz64 x ≤ 63 := by
  obtain ⟨j, hj⟩ := Nat.exists_testBit_of_ne_zero h0
  have h1 : ctz64 x ≤ j := by
    apply Classical.byContradiction
    intro hn
    have := ctz64_low x h0 j (by omega)
    rw [this] at hj; exact absurd hj (by simp)
  have h2 : j < 64 - clz64 x := by
    apply Classical.byContradiction
    intro hn
    have := testBit_false_of_lt (lt_two_pow_clz64 x h) (Nat.le_of_not_lt hn)
    rw [this] at hj; exact absurd hj (by simp)
  omega

/-! ### the block of meaningful bits -/

/-- a word whose set bits all lie in `[T, 64-L)` is recovered from its `64-L-T` middle bits -/
theorem block_roundtrip (delta L T : Nat) (hlt : delta < 2 ^ (64 - L)) (hlow : ∀ i, i < T → delta.testBit i = false)
    (hLT : L + T ≤ 63) :
    shl64 (bitsVal (natBits (64 - L - T) (delta >>> T))) T = delta := by
  have hT : ¬ T ≥ 64 := by omega
  unfold shl64
  rw [if_neg hT, bitsVal_natBits]
  apply Nat.eq_of_testBit_eq
  intro i
  have e : two64 = 2 ^ 64 := by decide
  simp only [e, Nat.testBit_mod_two_pow, Nat.testBit_shiftLeft, Nat.testBit_shiftRight]
  by_cases h1 : i < T
  · have h2 : ¬ (i ≥ T) := by omega
    simp [h2, hlow i h1]
  · have h2 : i ≥ T := by omega
    have e2 : T + (i - T) = i := by omega
    simp only [h2, decide_true, Bool.true_and, e2]
    by_cases h3 : i < 64 - L
    · have h4 : i < 64 := by omega
      have h5 : i - T < 64 - L - T := by omega
      simp [h4, h5]
    · have := testBit_false_of_lt hlt (Nat.le_of_not_lt h3)
      simp [this]

theorem xor_cancel (v p : Nat) : p ^^^ (v ^^^ p) = v := by
  rw [Nat.xor_comm v p, ← Nat.xor_assoc, Nat.xor_self, Nat.zero_xor]

theorem eq_of_xor_eq_zero {v p : Nat} (h : v ^^^ p = 0) : p = v := by
  have := xor_cancel v p
  rw [h, Nat.xor_zero] at this
  exact this

theorem sub64_small (a b : Nat) (h : a + b ≤ 64) : sub64 a b = 64 - a - b := by
  unfold sub64
  simp only [two64]
  omega

/-! ### encoder -/

structure Enc.Inv (e : Enc) : Prop where
  prev_lt : e.prev < two64
  win : e.leading + e.trailing ≤ 63

theorem Enc.fresh_inv : Enc.fresh.Inv := ⟨by simp [Enc.fresh, two64], by simp [Enc.fresh]⟩
theorem Enc.reset_inv (e : Enc) : e.reset.Inv := ⟨by simp [Enc.reset, two64], by simp [Enc.reset]⟩

/-- the encoder state after `Write(v)` -/
def Enc.step (e : Enc) (v : Nat) : Enc :=
  if e.first then { e with first := false, prev := v }
  else
    let delta := v ^^^ e.prev
    if delta = 0 then { e with prev := v }
    else if clz64 delta ≥ e.leading ∧ ctz64 delta ≥ e.trailing then { e with prev := v }
    else { e with prev := v, leading := clz64 delta, trailing := ctz64 delta }

/-- the bits `Write(v)` appends -/
def encBits (e : Enc) (v : Nat) : List Bool :=
  if e.first then natBits 64 v
  else
    let delta := v ^^^ e.prev
    if delta = 0 then [false]
    else if clz64 delta ≥ e.leading ∧ ctz64 delta ≥ e.trailing then
      true :: true :: natBits (64 - e.leading - e.trailing) (delta >>> e.trailing)
    else
      true :: false :: (natBits 6 (clz64 delta) ++ natBits 6 (64 - clz64 delta - ctz64 delta - 1)
        ++ natBits (64 - clz64 delta - ctz64 delta) (delta >>> ctz64 delta))

theorem Enc.step_inv (e : Enc) (v : Nat) (he : e.Inv) (hv : v < two64) : (e.step v).Inv := by
  obtain ⟨hp, hw⟩ := he
  unfold Enc.step
  split
  · exact ⟨hv, hw⟩
  · dsimp only
    split
    · exact ⟨hv, hw⟩
    · rename_i hd
      split
      · exact ⟨hv, hw⟩
      · refine ⟨hv, ?_⟩
        have hdl : v ^^^ e.prev < two64 := by
          have := Nat.xor_lt_two_pow (n := 64) (by simpa [two64] using hv) (by simpa [two64] using hp)
          simpa [two64] using this
        exact clz_add_ctz_le _ hd hdl

theorem Enc.step_first (e : Enc) (v : Nat) : (e.step v).first = false := by
  unfold Enc.step
  split
  · rfl
  · rename_i h
    dsimp only
    split
    · simpa using h
    · split <;> simpa using h

theorem Enc.step_prev (e : Enc) (v : Nat) : (e.step v).prev = v := by
  unfold Enc.step
  split
  · rfl
  · dsimp only
    split
    · rfl
    · split <;> rfl

theorem Enc.write_spec (e : Enc) (w : Writer) (v : Nat) (he : e.Inv) (hw : w.Ok) (hv : v < two64) :
    (e.write w v).1 = e.step v ∧ (e.write w v).2.Ok ∧ (e.write w v).2.bits = w.bits ++ encBits e v := by
  obtain ⟨hp, hwin⟩ := he
  unfold Enc.write Enc.step encBits
  by_cases hf : e.first
  · simp only [hf, if_true]
    have h := w.writeBits_spec hw v 64 (by omega)
    exact ⟨by first | rfl | trivial, h.1, by simpa [firstValueLen] using h.2⟩
  · simp only [hf, Bool.false_eq_true, if_false]
    by_cases hd : v ^^^ e.prev = 0
    · simp only [hd, if_true]
      have h := w.writeBit_spec hw false
      exact ⟨by first | rfl | trivial, h.1, h.2⟩
    · simp only [hd, if_false]
      have hdl : v ^^^ e.prev < two64 := by
        have := Nat.xor_lt_two_pow (n := 64) (by simpa [two64] using hv) (by simpa [two64] using hp)
        simpa [two64] using this
      have h1 := w.writeBit_spec hw true
      by_cases hwn : clz64 (v ^^^ e.prev) ≥ e.leading ∧ ctz64 (v ^^^ e.prev) ≥ e.trailing
      · simp only [hwn, and_self, if_true]
        have h2 := (w.writeBit true).writeBit_spec h1.1 true
        have h3 := ((w.writeBit true).writeBit true).writeBits_spec h2.1
          ((v ^^^ e.prev) >>> e.trailing) (64 - e.leading - e.trailing) (by omega)
        refine ⟨by first | rfl | trivial, h3.1, ?_⟩
        rw [h3.2, h2.2, h1.2]; simp
      · simp only [hwn, if_false]
        have h2 := (w.writeBit true).writeBit_spec h1.1 false
        have h3 := ((w.writeBit true).writeBit false).writeBits_spec h2.1 (clz64 (v ^^^ e.prev)) 6 (by omega)
        have h4 := (((w.writeBit true).writeBit false).writeBits (clz64 (v ^^^ e.prev)) 6).writeBits_spec h3.1
          (64 - clz64 (v ^^^ e.prev) - ctz64 (v ^^^ e.prev) - blockSizeAdjustment) 6 (by omega)
        have h5 := ((((w.writeBit true).writeBit false).writeBits (clz64 (v ^^^ e.prev)) 6).writeBits
          (64 - clz64 (v ^^^ e.prev) - ctz64 (v ^^^ e.prev) - blockSizeAdjustment) 6).writeBits_spec h4.1
          ((v ^^^ e.prev) >>> ctz64 (v ^^^ e.prev)) (64 - clz64 (v ^^^ e.prev) - ctz64 (v ^^^ e.prev)) (by omega)
        refine ⟨by first | rfl | trivial, h5.1, ?_⟩
        rw [h5.2, h4.2, h3.2, h2.2, h1.2]; simp [blockSizeAdjustment]

/-! ### decoder -/

/-- the decoder state that corresponds to an encoder state -/
structure Sim (e : Enc) (d : Dec) : Prop where
  noerr : d.err = false
  first : d.first = e.first
  val : e.first = false → d.val = e.prev
  leading : d.leading = e.leading
  trailing : d.trailing = e.trailing

theorem sim_fresh : Sim Enc.fresh Dec.fresh := ⟨rfl, rfl, by intro h; simp [Enc.fresh] at h, rfl, rfl⟩
theorem sim_reset (e : Enc) (d : Dec) : Sim e.reset d.reset := ⟨rfl, rfl, by intro h; simp [Enc.reset] at h, rfl, rfl⟩

theorem Dec.finish_spec (d : Dec) (r : Reader) (hr : r.Ok) (delta L T : Nat) (t : List Bool)
    (hlt : delta < 2 ^ (64 - L)) (hlow : ∀ i, i < T → delta.testBit i = false) (hLT : L + T ≤ 63)
    (hT : d.trailing = T)
    (hrest : r.rest = natBits (64 - L - T) (delta >>> T) ++ t) :
    ∃ r', d.finish (64 - L - T) r = (true, { d with val := d.val ^^^ delta }, r') ∧ r'.Ok ∧ r'.rest = t ∧ r'.buf = r.buf := by
  obtain ⟨r', hrd, ok', hrest', hbuf'⟩ := r.readBits_spec hr (64 - L - T) _ t (by omega) (by simp) hrest
  refine ⟨r', ?_, ok', hrest', hbuf'⟩
  unfold Dec.finish readBitsInt
  have hb : ¬ (64 - L - T ≥ two63) := by simp only [two63]; omega
  rw [if_neg hb, hrd]
  simp only [hT, block_roundtrip delta L T hlt hlow hLT]

theorem Dec.next_spec (e : Enc) (d : Dec) (r : Reader) (v : Nat) (t : List Bool)
    (he : e.Inv) (hs : Sim e d) (hr : r.Ok) (hv : v < two64) (hrest : r.rest = encBits e v ++ t) :
    ∃ d' r', d.next r = (true, d', r') ∧ d'.value = v ∧ Sim (e.step v) d' ∧ r'.Ok ∧ r'.rest = t ∧ r'.buf = r.buf := by
  obtain ⟨hp, hwin⟩ := he
  obtain ⟨hne, hfirst, hval, hL, hT⟩ := hs
  obtain ⟨derr, dval, dl, dt, dfirst⟩ := d
  simp only at hne hfirst hval hL hT
  subst hne hL hT hfirst
  unfold encBits at hrest
  unfold Dec.next
  simp only [Bool.false_eq_true, if_false]
  by_cases hf : e.first
  · -- first value: 64 raw bits
    simp only [hf, if_true] at hrest
    simp only [hf, if_true]
    obtain ⟨r', hrd, ok', hrest', hbuf'⟩ := r.readBits_spec hr 64 _ t (by omega) (by simp) hrest
    have hvv : bitsVal (natBits 64 v) = v := by
      rw [bitsVal_natBits]; exact Nat.mod_eq_of_lt (by simpa [two64] using hv)
    refine ⟨{ err := false, val := v, leading := e.leading, trailing := e.trailing, first := false }, r',
      ?_, rfl, ?_, ok', hrest', hbuf'⟩
    · simp [firstValueLen, hrd, hvv]
    · unfold Enc.step
      simp only [hf, if_true]
      exact ⟨rfl, rfl, fun _ => rfl, rfl, rfl⟩
  · have hef : e.first = false := by simpa using hf
    have hdv : dval = e.prev := hval hef
    subst hdv
    simp only [hef, Bool.false_eq_true, if_false] at hrest
    simp only [hef, Bool.false_eq_true, if_false]
    by_cases hd : v ^^^ e.prev = 0
    · -- same value: a single 0 bit
      simp only [hd, if_true] at hrest
      obtain ⟨r1, hrd1, ok1, hrest1, hbuf1⟩ := r.readBit_spec hr false t (by simpa using hrest)
      have hpv : e.prev = v := eq_of_xor_eq_zero hd
      refine ⟨{ err := false, val := e.prev, leading := e.leading, trailing := e.trailing, first := false }, r1,
        ?_, ?_, ?_, ok1, hrest1, hbuf1⟩
      · simp [hrd1, hef]
      · simp [Dec.value, hpv]
      · unfold Enc.step
        simp only [hef, Bool.false_eq_true, if_false, hd, if_true]
        exact ⟨rfl, by simp [hef], fun _ => by simp [hpv], rfl, rfl⟩
    · simp only [hd, if_false] at hrest
      have hdl : v ^^^ e.prev < two64 := by
        have := Nat.xor_lt_two_pow (n := 64) (by simpa [two64] using hv) (by simpa [two64] using hp)
        simpa [two64] using this
      have hclz := lt_two_pow_clz64 _ hdl
      have hctz := ctz64_low _ hd
      have hcc := clz_add_ctz_le _ hd hdl
      by_cases hwn : clz64 (v ^^^ e.prev) ≥ e.leading ∧ ctz64 (v ^^^ e.prev) ≥ e.trailing
      · -- the block fits the previous window
        simp only [hwn, and_self, if_true] at hrest
        obtain ⟨r1, hrd1, ok1, hrest1, hbuf1⟩ := r.readBit_spec hr true _ (by simpa using hrest)
        obtain ⟨r2, hrd2, ok2, hrest2, hbuf2⟩ := r1.readBit_spec ok1 true _ hrest1
        have hbs : sub64 e.leading e.trailing = 64 - e.leading - e.trailing := sub64_small _ _ (by omega)
        have hlt' : v ^^^ e.prev < 2 ^ (64 - e.leading) :=
          Nat.lt_of_lt_of_le hclz (Nat.pow_le_pow_right (by omega) (by omega))
        have hlow' : ∀ i, i < e.trailing → (v ^^^ e.prev).testBit i = false :=
          fun i hi => hctz i (by omega)
        obtain ⟨r3, hrd3, ok3, hrest3, hbuf3⟩ :=
          Dec.finish_spec { err := false, val := e.prev, leading := e.leading, trailing := e.trailing, first := false }
            r2 ok2 (v ^^^ e.prev) e.leading e.trailing t hlt' hlow' hwin rfl hrest2
        refine ⟨{ err := false, val := e.prev ^^^ (v ^^^ e.prev), leading := e.leading, trailing := e.trailing,
                  first := false }, r3, ?_, ?_, ?_, ok3, hrest3, by rw [hbuf3, hbuf2, hbuf1]⟩
        · simp [hrd1, hrd2, hbs, hrd3, hef]
        · simp [Dec.value, xor_cancel]
        · unfold Enc.step
          simp only [hef, Bool.false_eq_true, if_false, hd, hwn, and_self, if_true]
          exact ⟨rfl, by simp [hef], fun _ => by simp [xor_cancel], rfl, rfl⟩
      · -- a new window is announced: 6 bits leading, 6 bits block size - 1
        simp only [hwn, if_false] at hrest
        obtain ⟨r1, hrd1, ok1, hrest1, hbuf1⟩ := r.readBit_spec hr true _ (by simpa using hrest)
        obtain ⟨r2, hrd2, ok2, hrest2, hbuf2⟩ := r1.readBit_spec ok1 false _ hrest1
        obtain ⟨r3, hrd3, ok3, hrest3, hbuf3⟩ := r2.readBits_spec ok2 6 _ _ (by omega) (by simp) hrest2
        obtain ⟨r4, hrd4, ok4, hrest4, hbuf4⟩ := r3.readBits_spec ok3 6 _ _ (by omega) (by simp) hrest3
        have hclz63 := clz64_le _ hd
        have hv1 : bitsVal (natBits 6 (clz64 (v ^^^ e.prev))) = clz64 (v ^^^ e.prev) := by
          rw [bitsVal_natBits]; exact Nat.mod_eq_of_lt (by omega)
        have hv2 : bitsVal (natBits 6 (64 - clz64 (v ^^^ e.prev) - ctz64 (v ^^^ e.prev) - 1))
            = 64 - clz64 (v ^^^ e.prev) - ctz64 (v ^^^ e.prev) - 1 := by
          rw [bitsVal_natBits]; exact Nat.mod_eq_of_lt (by omega)
        have hbs : 64 - clz64 (v ^^^ e.prev) - ctz64 (v ^^^ e.prev) - 1 + blockSizeAdjustment
            = 64 - clz64 (v ^^^ e.prev) - ctz64 (v ^^^ e.prev) := by
          simp only [blockSizeAdjustment]; omega
        have htr : sub64 (clz64 (v ^^^ e.prev)) (64 - clz64 (v ^^^ e.prev) - ctz64 (v ^^^ e.prev))
            = ctz64 (v ^^^ e.prev) := by
          rw [sub64_small _ _ (by omega)]; omega
        obtain ⟨r5, hrd5, ok5, hrest5, hbuf5⟩ :=
          Dec.finish_spec { err := false, val := e.prev, leading := clz64 (v ^^^ e.prev),
                            trailing := ctz64 (v ^^^ e.prev), first := false }
            r4 ok4 (v ^^^ e.prev) (clz64 (v ^^^ e.prev)) (ctz64 (v ^^^ e.prev)) t hclz hctz hcc rfl hrest4
        refine ⟨{ err := false, val := e.prev ^^^ (v ^^^ e.prev), leading := clz64 (v ^^^ e.prev),
                  trailing := ctz64 (v ^^^ e.prev), first := false }, r5, ?_, ?_, ?_, ok5, hrest5,
                by rw [hbuf5, hbuf4, hbuf3, hbuf2, hbuf1]⟩
        · simp [hrd1, hrd2, hrd3, hrd4, hv1, hv2, hbs, htr, hrd5, hef]
        · simp [Dec.value, xor_cancel]
        · unfold Enc.step
          simp only [hef, Bool.false_eq_true, if_false, hd, hwn]
          exact ⟨rfl, by simp [hef], fun _ => by simp [xor_cancel], rfl, rfl⟩

/-! ### whole sequences -/

/-- all bits the encoder appends for a list of values -/
def encAll : Enc → List Nat → List Bool
  | _, [] => []
  | e, v :: vs => encBits e v ++ encAll (e.step v) vs

def Enc.writeAll : Enc → Writer → List Nat → Enc × Writer
  | e, w, [] => (e, w)
  | e, w, v :: vs => let (e', w') := e.write w v; Enc.writeAll e' w' vs

/-- `n` calls of `Next()`, collecting `(result, Value())` -/
def Dec.nextN : Nat → Dec → Reader → List (Bool × Nat) × Dec × Reader
  | 0, d, r => ([], d, r)
  | n + 1, d, r =>
    let (ok, d1, r1) := d.next r
    let (rest, d2, r2) := Dec.nextN n d1 r1
    ((ok, d1.value) :: rest, d2, r2)

theorem Enc.writeAll_spec : ∀ (vs : List Nat) (e : Enc) (w : Writer), e.Inv → w.Ok → (∀ v ∈ vs, v < two64) →
    (e.writeAll w vs).2.Ok ∧ (e.writeAll w vs).2.bits = w.bits ++ encAll e vs ∧ (e.writeAll w vs).1.Inv := by
  intro vs
  induction vs with
  | nil => intro e w he hw _; simp [Enc.writeAll, encAll, he, hw]
  | cons v vs ih =>
    intro e w he hw hvs
    have hv : v < two64 := hvs v (by simp)
    obtain ⟨h1, h2, h3⟩ := e.write_spec w v he hw hv
    simp only [Enc.writeAll]
    generalize hq : e.write w v = q at h1 h2 h3
    obtain ⟨e', w'⟩ := q
    simp only at h1 h2 h3 ⊢
    have he' : e'.Inv := by rw [h1]; exact e.step_inv v he hv
    obtain ⟨i1, i2, i3⟩ := ih e' w' he' h2 (fun x hx => hvs x (by simp [hx]))
    refine ⟨i1, ?_, i3⟩
    rw [i2, h3, h1, List.append_assoc]
    rfl

theorem Dec.nextN_spec : ∀ (vs : List Nat) (e : Enc) (d : Dec) (r : Reader) (t : List Bool),
    e.Inv → Sim e d → r.Ok → (∀ v ∈ vs, v < two64) → r.rest = encAll e vs ++ t →
    (Dec.nextN vs.length d r).1 = vs.map (fun v => (true, v)) := by
  intro vs
  induction vs with
  | nil => intro e d r t _ _ _ _ _; rfl
  | cons v vs ih =>
    intro e d r t he hs hr hvs hrest
    have hv : v < two64 := hvs v (by simp)
    have hrest' : r.rest = encBits e v ++ (encAll (e.step v) vs ++ t) := by
      rw [hrest]; simp [encAll, List.append_assoc]
    obtain ⟨d', r', hn, hval, hs', ok', hr', _⟩ := d.next_spec e r v _ he hs hr hv hrest'
    simp only [List.length_cons, Dec.nextN, hn, List.map_cons]
    have := ih (e.step v) d' r' t (e.step_inv v he hv) hs' ok' (fun x hx => hvs x (by simp [hx])) hr'
    rw [this, hval]

end LinVerif.Xor
