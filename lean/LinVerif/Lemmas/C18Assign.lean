/-
Helper lemmas for C18, part 1: the arithmetic of `replicaIndex`, the replica list of one
shard, the `AddReplica` fold and the assignment loop (coordinator/master/shard_assign.go).
-/
import LinVerif.Model.Assign

namespace LinVerif.Lemmas.C18
open LinVerif LinVerif.Assign

/-! ### modular arithmetic -/

theorem mod_lt_two {x n : Nat} (h : x < 2 * n) : x % n = if x < n then x else x - n := by
  split
  · exact Nat.mod_eq_of_lt ‹_›
  · rw [Nat.mod_eq_sub_mod (by omega)]; exact Nat.mod_eq_of_lt (by omega)

theorem mod_inj_window {a b m : Nat} (h : a % m = b % m) (hab : a ≤ b) (hlt : b - a < m) :
    a = b := by
  have h1 : (b - a) % m = 0 := Nat.sub_mod_eq_zero_of_mod_eq h.symm
  rw [Nat.mod_eq_of_lt hlt] at h1
  omega

theorem replicaIndex_lt {first shift j n : Nat} (hn : 0 < n) : replicaIndex first shift j n < n :=
  Nat.mod_lt _ hn

/-- a shifted replica never lands on the first replica's node -/
theorem replicaIndex_ne_first {first shift j n : Nat} (hn : 2 ≤ n) (hf : first < n) :
    replicaIndex first shift j n ≠ first := by
  have hd : (shift + j) % (n - 1) < n - 1 := Nat.mod_lt _ (by omega)
  unfold replicaIndex
  have := mod_lt_two (x := first + (1 + (shift + j) % (n - 1))) (n := n) (by omega)
  rw [this]
  split <;> omega

/-- the shifts `1 + (shift+j) % (n-1)` for `j < n-1` are pairwise distinct and in `[1, n-1]`,
so the shifted replicas are pairwise distinct nodes -/
theorem replicaIndex_inj {first shift j j' n : Nat} (hn : 2 ≤ n) (hf : first < n)
    (hj : j < n - 1) (hj' : j' < n - 1)
    (h : replicaIndex first shift j n = replicaIndex first shift j' n) : j = j' := by
  have hd : (shift + j) % (n - 1) < n - 1 := Nat.mod_lt _ (by omega)
  have hd' : (shift + j') % (n - 1) < n - 1 := Nat.mod_lt _ (by omega)
  unfold replicaIndex at h
  have h1 := mod_lt_two (x := first + (1 + (shift + j) % (n - 1))) (n := n) (by omega)
  have h2 := mod_lt_two (x := first + (1 + (shift + j') % (n - 1))) (n := n) (by omega)
  rw [h1, h2] at h
  have he : (shift + j) % (n - 1) = (shift + j') % (n - 1) := by
    split at h <;> split at h <;> omega
  rcases Nat.le_total j j' with hle | hle
  · have := mod_inj_window he (by omega) (by omega); omega
  · have := mod_inj_window he.symm (by omega) (by omega); omega

/-! ### lists -/

theorem nodup_map_of_injOn {α β : Type} (f : α → β) :
    ∀ (l : List α), (∀ x ∈ l, ∀ y ∈ l, f x = f y → x = y) → l.Nodup → (l.map f).Nodup
  | [], _, _ => by simp
  | a :: t, hinj, hnd => by
    rw [List.nodup_cons] at hnd
    rw [List.map_cons, List.nodup_cons]
    refine ⟨?_, nodup_map_of_injOn f t (fun x hx y hy => hinj x (List.mem_cons_of_mem _ hx) y
      (List.mem_cons_of_mem _ hy)) hnd.2⟩
    intro hmem
    rw [List.mem_map] at hmem
    obtain ⟨x, hx, hfx⟩ := hmem
    have := hinj x (List.mem_cons_of_mem _ hx) a List.mem_cons_self hfx
    exact hnd.1 (this ▸ hx)

theorem getD_eq_getElem' (l : List Nat) (i : Nat) (h : i < l.length) : l.getD i 0 = l[i] := by
  simp [List.getD, h]

theorem getD_mem (l : List Nat) (i : Nat) (h : i < l.length) : l.getD i 0 ∈ l := by
  rw [getD_eq_getElem' l i h]; exact List.getElem_mem h

theorem getD_inj_of_nodup {l : List Nat} (hnd : l.Nodup) {i j : Nat} (hi : i < l.length)
    (hj : j < l.length) (h : l.getD i 0 = l.getD j 0) : i = j := by
  rw [getD_eq_getElem' l i hi, getD_eq_getElem' l j hj] at h
  have hp := List.pairwise_iff_getElem.mp hnd
  rcases Nat.lt_trichotomy i j with hlt | heq | hgt
  · exact absurd h (hp i j hi hj hlt)
  · exact heq
  · exact absurd h.symm (hp j i hj hi hgt)

/-! ### the replica list of one shard -/

theorem replicaIdxs_length {n rf start shift cur : Nat} (hrf : 1 ≤ rf) :
    (replicaIdxs n rf start shift cur).length = rf := by
  simp [replicaIdxs]; omega

theorem replicaIdxs_lt {n rf start shift cur : Nat} (hn : 0 < n) :
    ∀ i ∈ replicaIdxs n rf start shift cur, i < n := by
  intro i hi
  simp only [replicaIdxs, List.mem_cons, List.mem_map] at hi
  rcases hi with rfl | ⟨j, _, rfl⟩
  · exact Nat.mod_lt _ hn
  · exact replicaIndex_lt hn

theorem replicaIdxs_nodup {n rf start shift cur : Nat} (hrf : 1 ≤ rf) (hle : rf ≤ n) :
    (replicaIdxs n rf start shift cur).Nodup := by
  have hn : 0 < n := by omega
  have hf : (cur + start) % n < n := Nat.mod_lt _ hn
  simp only [replicaIdxs]
  rw [List.nodup_cons]
  constructor
  · intro hmem
    rw [List.mem_map] at hmem
    obtain ⟨j, hj, hji⟩ := hmem
    have hj' : j < rf - 1 := List.mem_range.mp hj
    exact replicaIndex_ne_first (by omega) hf hji
  · apply nodup_map_of_injOn _ _ _ List.nodup_range
    intro x hx y hy hxy
    have hx' : x < rf - 1 := List.mem_range.mp hx
    have hy' : y < rf - 1 := List.mem_range.mp hy
    exact replicaIndex_inj (by omega) hf (by omega) (by omega) hxy

theorem shardNodes_length {nodes : List Nat} {rf start shift cur : Nat} (hrf : 1 ≤ rf) :
    (shardNodes nodes rf start shift cur).length = rf := by
  simp [shardNodes, replicaIdxs_length hrf]

theorem shardNodes_subset {nodes : List Nat} {rf start shift cur : Nat} (hn : 0 < nodes.length) :
    ∀ r ∈ shardNodes nodes rf start shift cur, r ∈ nodes := by
  intro r hr
  simp only [shardNodes, List.mem_map] at hr
  obtain ⟨i, hi, rfl⟩ := hr
  exact getD_mem nodes i (replicaIdxs_lt hn i hi)

theorem shardNodes_nodup {nodes : List Nat} (hnd : nodes.Nodup) {rf start shift cur : Nat}
    (hrf : 1 ≤ rf) (hle : rf ≤ nodes.length) : (shardNodes nodes rf start shift cur).Nodup := by
  have hn : 0 < nodes.length := by omega
  apply nodup_map_of_injOn _ _ _ (replicaIdxs_nodup hrf hle)
  intro x hx y hy hxy
  exact getD_inj_of_nodup hnd (replicaIdxs_lt hn x hx) (replicaIdxs_lt hn y hy) hxy

theorem shardNodes_head {nodes : List Nat} {rf start shift cur : Nat} :
    (shardNodes nodes rf start shift cur).head? = some (nodes.getD ((cur + start) % nodes.length) 0) := by
  simp [shardNodes, replicaIdxs]

/-! ### `AddReplica` folds -/

theorem foldl_addReplica_nodup : ∀ (l pre : List Nat), (pre ++ l).Nodup →
    l.foldl addReplica pre = pre ++ l
  | [], pre, _ => by simp
  | r :: t, pre, h => by
    have hr : r ∉ pre := by
      intro hmem
      have := (List.nodup_append.mp h).2.2 r hmem r List.mem_cons_self
      exact this rfl
    have h1 : addReplica pre r = pre ++ [r] := by
      simp [addReplica, hr]
    rw [List.foldl_cons, h1, foldl_addReplica_nodup t (pre ++ [r]) (by simpa using h)]
    simp

theorem foldl_addReplicaTo_lookup_ne (cur s : Nat) (hne : cur ≠ s) :
    ∀ (l : List Nat) (a : Assignment),
      Map.lookup (l.foldl (fun acc r => addReplicaTo acc cur r) a) s = Map.lookup a s
  | [], _ => rfl
  | r :: t, a => by
    rw [List.foldl_cons, foldl_addReplicaTo_lookup_ne cur s hne t]
    exact Map.lookup_upsert_ne a cur s _ hne

theorem foldl_addReplicaTo_lookup_some (cur : Nat) :
    ∀ (l : List Nat) (a : Assignment) (v : List Nat), Map.lookup a cur = some v →
      Map.lookup (l.foldl (fun acc r => addReplicaTo acc cur r) a) cur = some (l.foldl addReplica v)
  | [], _, _, h => h
  | r :: t, a, v, h => by
    rw [List.foldl_cons, List.foldl_cons]
    apply foldl_addReplicaTo_lookup_some cur t
    simp [addReplicaTo, Map.lookup_upsert_self, h]

theorem foldl_addReplicaTo_lookup_self (cur : Nat) (l : List Nat) (hl : l ≠ []) (a : Assignment) :
    Map.lookup (l.foldl (fun acc r => addReplicaTo acc cur r) a) cur
      = some (l.foldl addReplica ((Map.lookup a cur).getD [])) := by
  cases l with
  | nil => exact absurd rfl hl
  | cons r t =>
    rw [List.foldl_cons, List.foldl_cons]
    apply foldl_addReplicaTo_lookup_some cur t
    simp [addReplicaTo, Map.lookup_upsert_self]

/-- a fresh shard receives exactly the chosen nodes, in `AddReplica` call order -/
theorem foldl_addReplicaTo_fresh (cur : Nat) (l : List Nat) (hl : l ≠ []) (hnd : l.Nodup)
    (a : Assignment) (hnone : Map.lookup a cur = none) :
    Map.lookup (l.foldl (fun acc r => addReplicaTo acc cur r) a) cur = some l := by
  rw [foldl_addReplicaTo_lookup_self cur l hl a, hnone]
  simp only [Option.getD_none]
  rw [foldl_addReplica_nodup l [] (by simpa using hnd)]
  simp

/-! ### the assignment loop -/

/-- the value of `nextReplicaShift` used for the `i`-th shard of a call that starts at shard `cur`
with shift `shift` -/
def shiftAt (n : Nat) : Nat → Nat → Nat → Nat
  | shift, cur, 0 => bump n shift cur
  | shift, cur, i + 1 => shiftAt n (bump n shift cur) (cur + 1) i

/-- shards outside `[cur, cur+k)` are not touched -/
theorem assignLoop_lookup_out (nodes : List Nat) (rf start : Nat) :
    ∀ (k shift cur : Nat) (a : Assignment) (s : Nat), (s < cur ∨ cur + k ≤ s) →
      Map.lookup (assignLoop nodes rf start k shift cur a) s = Map.lookup a s
  | 0, _, _, _, _, _ => rfl
  | k + 1, shift, cur, a, s, h => by
    rw [assignLoop]
    rw [assignLoop_lookup_out nodes rf start k _ (cur + 1) _ s (by omega)]
    exact foldl_addReplicaTo_lookup_ne cur s (by omega) _ a

/-- the `i`-th fresh shard of a call gets `shardNodes` for its shift -/
theorem assignLoop_lookup_in (nodes : List Nat) (hnd : nodes.Nodup) (rf start : Nat)
    (hrf : 1 ≤ rf) (hle : rf ≤ nodes.length) :
    ∀ (k shift cur : Nat) (a : Assignment),
      (∀ s, cur ≤ s → s < cur + k → Map.lookup a s = none) →
      ∀ i, i < k → Map.lookup (assignLoop nodes rf start k shift cur a) (cur + i)
        = some (shardNodes nodes rf start (shiftAt nodes.length shift cur i) (cur + i))
  | 0, _, _, _, _, i, hi => by omega
  | k + 1, shift, cur, a, hfresh, i, hi => by
    rw [assignLoop]
    have hlen : (shardNodes nodes rf start (bump nodes.length shift cur) cur).length = rf :=
      shardNodes_length hrf
    have hne : shardNodes nodes rf start (bump nodes.length shift cur) cur ≠ [] := by
      intro h; rw [h] at hlen; simp at hlen; omega
    cases i with
    | zero =>
      show Map.lookup _ cur = some (shardNodes nodes rf start _ cur)
      rw [assignLoop_lookup_out nodes rf start k _ (cur + 1) _ cur (by omega)]
      simp only [shiftAt]
      exact foldl_addReplicaTo_fresh cur _ hne (shardNodes_nodup hnd hrf hle) a
        (hfresh cur (by omega) (by omega))
    | succ i =>
      have := assignLoop_lookup_in nodes hnd rf start hrf hle k (bump nodes.length shift cur) (cur + 1)
        ((shardNodes nodes rf start (bump nodes.length shift cur) cur).foldl
          (fun acc r => addReplicaTo acc cur r) a)
        (by
          intro s hs1 hs2
          rw [foldl_addReplicaTo_lookup_ne cur s (by omega)]
          exact hfresh s (by omega) (by omega))
        i (by omega)
      rw [show cur + (i + 1) = cur + 1 + i by omega]
      simpa [shiftAt] using this

/-! ### counting residues in a window (round-robin) -/

/-- how many `x ∈ [c, c+k)` have `x % n = r` -/
def cntRes (n r c k : Nat) : Nat := (List.range' c k).countP (fun x => x % n = r)

theorem cntRes_add (n r c k1 k2 : Nat) :
    cntRes n r c (k1 + k2) = cntRes n r c k1 + cntRes n r (c + k1) k2 := by
  unfold cntRes
  rw [← List.range'_append_1, List.countP_append]

theorem cntRes_le_one (n r : Nat) : ∀ (k c : Nat), k ≤ n → cntRes n r c k ≤ 1
  | 0, _, _ => by simp [cntRes]
  | k + 1, c, hk => by
    have ih := cntRes_le_one n r k (c + 1) (by omega)
    unfold cntRes at ih ⊢
    rw [List.range'_succ, List.countP_cons]
    by_cases hc : c % n = r
    · have hz : List.countP (fun x => decide (x % n = r)) (List.range' (c + 1) k) = 0 := by
        rw [List.countP_eq_zero]
        intro x hx
        rw [List.mem_range'_1] at hx
        simp only [decide_eq_true_eq]
        intro hxr
        have := mod_inj_window (hc.trans hxr.symm) (by omega) (by omega)
        omega
      rw [hz]; simp [hc]
    · simp [hc]; exact ih

theorem exists_residue_in_window {n r : Nat} (hr : r < n) (c : Nat) :
    ∃ x, c ≤ x ∧ x < c + n ∧ x % n = r := by
  have hc0 : c % n < n := Nat.mod_lt _ (by omega)
  have hdm := Nat.div_add_mod c n
  by_cases h : c % n ≤ r
  · refine ⟨n * (c / n) + r, by omega, by omega, ?_⟩
    rw [Nat.mul_add_mod, Nat.mod_eq_of_lt hr]
  · refine ⟨n * (c / n + 1) + r, ?_, ?_, ?_⟩
    · rw [Nat.mul_add, Nat.mul_one]; omega
    · rw [Nat.mul_add, Nat.mul_one]; omega
    · rw [Nat.mul_add_mod, Nat.mod_eq_of_lt hr]

theorem cntRes_full {n r : Nat} (hr : r < n) (c : Nat) : cntRes n r c n = 1 := by
  have hle := cntRes_le_one n r n c (Nat.le_refl _)
  have hpos : 0 < cntRes n r c n := by
    unfold cntRes
    rw [List.countP_pos_iff]
    obtain ⟨x, h1, h2, h3⟩ := exists_residue_in_window hr c
    exact ⟨x, List.mem_range'_1.mpr ⟨h1, h2⟩, by simpa using h3⟩
  omega

/-- every residue occurs `k / n` or `k / n + 1` times in any window of length `k` -/
theorem cntRes_div {n r : Nat} (hr : r < n) : ∀ (k c : Nat), ∃ e, e ≤ 1 ∧ cntRes n r c k = k / n + e := by
  intro k
  induction k using Nat.strongRecOn with
  | _ k ih =>
    intro c
    by_cases hk : k < n
    · exact ⟨cntRes n r c k, cntRes_le_one n r k c (by omega), by rw [Nat.div_eq_of_lt hk]; omega⟩
    · obtain ⟨e, he, hc⟩ := ih (k - n) (by omega) (c + n)
      refine ⟨e, he, ?_⟩
      have hkk : k = n + (k - n) := by omega
      have hdiv : k / n = (k - n) / n + 1 := by
        have := Nat.add_div_right (k - n) (z := n) (by omega)
        rw [show k - n + n = k by omega] at this
        exact this
      rw [hkk, cntRes_add, cntRes_full hr, hc, ← hkk, hdiv]
      omega

theorem cntRes_balanced {n r r' : Nat} (hr : r < n) (hr' : r' < n) (c k : Nat) :
    cntRes n r c k ≤ cntRes n r' c k + 1 := by
  obtain ⟨e, he, h⟩ := cntRes_div hr k c
  obtain ⟨e', he', h'⟩ := cntRes_div hr' k c
  omega

theorem countP_shift (n r start : Nat) : ∀ (k c : Nat),
    (List.range' c k).countP (fun x => (x + start) % n = r) = cntRes n r (c + start) k
  | 0, _ => by simp [cntRes]
  | k + 1, c => by
    unfold cntRes
    rw [List.range'_succ, List.range'_succ, List.countP_cons, List.countP_cons]
    have := countP_shift n r start k (c + 1)
    unfold cntRes at this
    rw [this, show c + 1 + start = c + start + 1 by omega]

end LinVerif.Lemmas.C18
