/-
C13 — lemmas about the query planner pieces (FindMatchSmallestInterval, Truncate,
CalIntervalRatio, calcTimeRangeAndInterval).
-/
import LinVerif.Model.Interval
import Mathlib.Tactic.SplitIfs

namespace LinVerif.Lemmas.C13
open LinVerif.Interval

theorem mem_insertDesc {x a : Int} {l : List Int} : x ∈ insertDesc a l ↔ x = a ∨ x ∈ l := by
  induction l with
  | nil => simp [insertDesc]
  | cons y r ih =>
    simp only [insertDesc]
    split_ifs
    · simp
    · simp only [List.mem_cons, ih]
      constructor
      · rintro (h | h | h) <;> simp [h]
      · rintro (h | h | h) <;> simp [h]

theorem mem_sortDesc {x : Int} {l : List Int} : x ∈ sortDesc l ↔ x ∈ l := by
  induction l with
  | nil => simp [sortDesc]
  | cons y r ih =>
    have : sortDesc (y :: r) = insertDesc y (sortDesc r) := rfl
    rw [this, mem_insertDesc, ih]; simp

theorem pairwise_insertDesc {a : Int} {l : List Int} (h : l.Pairwise (· ≥ ·)) :
    (insertDesc a l).Pairwise (· ≥ ·) := by
  induction l with
  | nil => simp [insertDesc]
  | cons y r ih =>
    simp only [insertDesc]
    rw [List.pairwise_cons] at h
    split_ifs with hc
    · refine List.pairwise_cons.2 ⟨?_, List.pairwise_cons.2 h⟩
      intro b hb
      rcases List.mem_cons.1 hb with rfl | hb
      · exact hc
      · have := h.1 b hb; omega
    · refine List.pairwise_cons.2 ⟨?_, ih h.2⟩
      intro b hb
      rcases mem_insertDesc.1 hb with rfl | hb
      · omega
      · exact h.1 b hb

theorem pairwise_sortDesc (l : List Int) : (sortDesc l).Pairwise (· ≥ ·) := by
  induction l with
  | nil => simp [sortDesc]
  | cons y r ih => exact pairwise_insertDesc ih

theorem firstLE_some {q s : Int} {l : List Int} (h : firstLE q l = some s) : s ∈ l ∧ s ≤ q := by
  induction l with
  | nil => simp [firstLE] at h
  | cons y r ih =>
    simp only [firstLE] at h
    split_ifs at h with hc
    · cases h; exact ⟨by simp, hc⟩
    · have := ih h; exact ⟨by simp [this.1], this.2⟩

theorem firstLE_none {q : Int} {l : List Int} (h : firstLE q l = none) : ∀ x ∈ l, q < x := by
  induction l with
  | nil => simp
  | cons y r ih =>
    simp only [firstLE] at h
    split_ifs at h with hc
    intro x hx
    rcases List.mem_cons.1 hx with rfl | hx
    · omega
    · exact ih h x hx

theorem firstLE_max {q s : Int} {l : List Int} (hp : l.Pairwise (· ≥ ·)) (h : firstLE q l = some s) :
    ∀ x ∈ l, x ≤ q → x ≤ s := by
  induction l with
  | nil => simp [firstLE] at h
  | cons y r ih =>
    simp only [firstLE] at h
    rw [List.pairwise_cons] at hp
    split_ifs at h with hc
    · cases h
      intro x hx _
      rcases List.mem_cons.1 hx with rfl | hx
      · omega
      · exact hp.1 x hx
    · intro x hx hq
      rcases List.mem_cons.1 hx with rfl | hx
      · omega
      · exact ih hp.2 h x hx hq

/-- `FindMatchSmallestInterval` returns one of the option's intervals: the largest one that is
`≤ interval`, and the first of the option when none is -/
theorem findMatch_spec {ivs : List Int} {q s : Int} (h : findMatchSmallestInterval ivs q = some s) :
    s ∈ ivs ∧ ((s ≤ q ∧ ∀ x ∈ ivs, x ≤ q → x ≤ s) ∨ ((∀ x ∈ ivs, q < x) ∧ ivs.head? = some s)) := by
  cases ivs with
  | nil => simp [findMatchSmallestInterval] at h
  | cons i0 r =>
    simp only [findMatchSmallestInterval] at h
    cases hf : firstLE q (sortDesc (i0 :: r)) with
    | some s' =>
      rw [hf] at h; cases h
      have m := firstLE_some hf
      refine ⟨mem_sortDesc.1 m.1, Or.inl ⟨m.2, ?_⟩⟩
      intro x hx hq
      exact firstLE_max (pairwise_sortDesc _) hf x (mem_sortDesc.2 hx) hq
    | none =>
      rw [hf] at h; cases h
      refine ⟨by simp, Or.inr ⟨?_, rfl⟩⟩
      intro x hx
      exact firstLE_none hf x (mem_sortDesc.2 hx)

theorem findMatch_total {ivs : List Int} (h : ivs ≠ []) (q : Int) :
    ∃ s, findMatchSmallestInterval ivs q = some s := by
  cases ivs with
  | nil => exact absurd rfl h
  | cons i0 r =>
    simp only [findMatchSmallestInterval]
    cases firstLE q (sortDesc (i0 :: r)) <;> simp

/-- `Truncate` for a non-negative timestamp and a positive interval -/
theorem truncate_spec {t i : Int} (ht : 0 ≤ t) (hi : 0 < i) :
    ∃ r, truncate t i = some r ∧ i ∣ r ∧ r ≤ t ∧ t < r + i ∧ 0 ≤ r := by
  refine ⟨t / i * i, ?_, Int.dvd_mul_left _ _, Int.ediv_mul_le t (by omega), ?_, ?_⟩
  · have : i ≠ 0 := by omega
    simp only [truncate, this, if_false]
    rw [Int.tdiv_eq_ediv_of_nonneg ht]
  · have := Int.lt_ediv_add_one_mul_self t hi
    have e : (t / i + 1) * i = t / i * i + i := by rw [Int.add_mul]; omega
    omega
  · exact Int.mul_nonneg (Int.ediv_nonneg ht (by omega)) (by omega)

theorem truncate_mono {a b i : Int} (hab : a ≤ b) (hi : 0 < i) :
    a / i * i ≤ b / i * i :=
  Int.mul_le_mul_of_nonneg_right (Int.ediv_le_ediv hi hab) (by omega)

theorem ratio_spec {q s : Int} (hs : 0 < s) :
    1 ≤ calIntervalRatio q s ∧ (s ≤ q → calIntervalRatio q s = q / s) := by
  simp only [calIntervalRatio]
  split_ifs with hc
  · refine ⟨by omega, ?_⟩
    intro h; rcases hc with hc | hc <;> omega
  · have hq : s ≤ q := by omega
    have h0 : 0 ≤ q := by omega
    rw [Int.tdiv_eq_ediv_of_nonneg h0]
    refine ⟨?_, fun _ => rfl⟩
    have := Int.ediv_le_ediv hs hq
    rw [Int.ediv_self (by omega)] at this
    exact this

end LinVerif.Lemmas.C13
