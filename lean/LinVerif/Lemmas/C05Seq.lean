/-
C05 helper lemmas, part 3: the sequential model. `Inv` = the core invariant with no thread
in flight + the facts that only hold between complete Puts (cursor = end of the last
sequence's item; data page ids monotone in the sequence). Preservation by put / ack / gc /
reopen / crash after any store prefix; reopen is the identity on states satisfying `Inv`.
-/
import LinVerif.Lemmas.C05Inv

namespace LinVerif.Queue

def idle : Nat → Th := fun _ => .idle

/-- the volatile cursor is what NewQueue would compute from the last sequence's item -/
structure Synced (st : St) : Prop where
  cur0 : st.q.appended = -1 → st.q.dataPageIndex = 0 ∧ st.q.messageOffset = 0
  cur : ∀ n : Nat, (n : Int) = st.q.appended →
    st.q.dataPageIndex = (entry st.mem n).pg ∧
    st.q.messageOffset = (entry st.mem n).off + (entry st.mem n).len
  ipi : st.q.indexPageIndex = st.q.appended.toNat / indexItemsPerPage

/-- `mono`: data page ids are monotone from the acknowledged sequence on. `base`: the item of
the last sequence points at or below the cursor's page and inside a page (after a reset it
may be stale or all zero). `lastTop`: every readable item ends at or below the end of the last
sequence's item (the position NewQueue restores the cursor to). -/
structure Quiesc (st : St) : Prop where
  mono : ∀ n n' : Nat, st.q.acked ≤ (n : Int) → n ≤ n' → (n' : Int) ≤ st.q.appended →
    (entry st.mem n).pg ≤ (entry st.mem n').pg
  base : ∀ n : Nat, (n : Int) = st.q.appended →
    (entry st.mem n).pg ≤ st.q.dataPageIndex ∧ (entry st.mem n).off + (entry st.mem n).len ≤ dataPageSize
  lastTop : ∀ n l : Nat, Readable st.q n → (l : Int) = st.q.appended →
    TopOf (entry st.mem l) (entry st.mem n)

structure Inv (st : St) : Prop where
  core : InvC st.mem st.q idle
  qs : Quiesc st

/-- what a step may do to the readable messages: positions only move up, and every
sequence readable before and after has the same bytes -/
def Pres (st st' : St) : Prop :=
  st.q.acked ≤ st'.q.acked ∧ st.q.appended ≤ st'.q.appended ∧
  ∀ n, Readable st.q n → Readable st'.q n → content st'.mem n = content st.mem n

theorem Pres.refl (st : St) : Pres st st := ⟨Int.le_refl _, Int.le_refl _, fun _ _ _ => rfl⟩

theorem Pres.trans {a b c : St} (h1 : Pres a b) (h2 : Pres b c) : Pres a c := by
  obtain ⟨a1, a2, a3⟩ := h1
  obtain ⟨b1, b2, b3⟩ := h2
  refine ⟨by omega, by omega, ?_⟩
  intro n hn hn'
  have hb : Readable b.q n := by unfold Readable at *; omega
  rw [b3 n hb hn', a3 n hn hb]

theorem mkInvC_idle {mem : Mem} {q : Q}
    (ackLo : -1 ≤ q.acked) (ackHi : q.acked ≤ q.appended)
    (metaApp : mem.metaW queueAppendedSeqOffset = q.appended)
    (metaAck : mem.metaW queueAcknowledgedSeqOffset = q.acked)
    (hasMeta : mem.hasMeta = true) (curBound : q.messageOffset ≤ dataPageSize)
    (curLive : q.dataPageIndex ∈ mem.dataLive)
    (idxLive : q.indexPageIndex ∈ mem.indexLive ∨ q.indexPageIndex < nextSeq q / indexItemsPerPage)
    (ent : ∀ n, Readable q n → GoodRegion mem q (entry mem n) ∧ n / indexItemsPerPage ∈ mem.indexLive) :
    InvC mem q idle :=
  ⟨ackLo, ackHi, metaApp, metaAck, hasMeta, curBound, curLive, idxLive, ent,
   fun _ _ h => by simp [idle, Th.region] at h,
   fun _ _ _ _ h => by simp [idle] at h,
   fun _ _ _ _ h => by simp [idle, Th.region] at h,
   fun _ _ _ _ _ h => by simp [idle, Th.region] at h⟩

/-! ### NewQueue on an empty directory -/

theorem init_inv : Inv St.init := by
  have hm : St.init.mem.metaW queueAppendedSeqOffset = -1 ∧ St.init.mem.metaW queueAcknowledgedSeqOffset = -1 ∧
      St.init.mem.hasMeta = true ∧ St.init.mem.dataLive = [0] ∧ St.init.mem.indexLive = [0] ∧
      St.init.q = ⟨-1, -1, 0, 0, 0⟩ := by
    simp [St.init, openQ, Mem.empty, initDataPageIndex, setMeta, acquireData, acquireIndex]
  obtain ⟨h1, h2, h3, h4, h5, h6⟩ := hm
  constructor
  · apply mkInvC_idle <;> simp only [h6, h1, h2, h3, h4, h5] <;> try simp
    all_goals (intro n hn; unfold Readable at hn; dsimp only at hn; omega)
  · refine ⟨?_, ?_, ?_⟩ <;> simp only [h6]
    · intros; omega
    · intros; omega
    · intro n l hn; unfold Readable at hn; dsimp only at hn; omega


/-! ### Put run to completion -/

theorem putStores_full (a : Alloc) (m : Msg) :
    putStores a m (m.len + 4) =
      persistStores (writeData a.mem a.pg a.off m m.len) a.q a.pg a.off m.len 4 := by
  unfold putStores
  rw [if_neg (by omega)]
  congr 1; omega

theorem persistStores_ge4 (mem : Mem) (q : Q) (pg off len j : Nat) (h : 4 ≤ j) :
    persistStores mem q pg off len j = persistStores mem q pg off len 4 := by
  unfold persistStores
  simp [show 1 ≤ j by omega, show 2 ≤ j by omega, show 3 ≤ j by omega, h]

theorem put_eq (st : St) (m : Msg) (hl : m.len ≤ dataPageSize) :
    put st m =
      (⟨persistStores (writeData (alloc st.mem st.q m.len).mem (alloc st.mem st.q m.len).pg
          (alloc st.mem st.q m.len).off m m.len) (alloc st.mem st.q m.len).q
          (alloc st.mem st.q m.len).pg (alloc st.mem st.q m.len).off m.len 4,
        publish (alloc st.mem st.q m.len).q⟩, .ok (st.q.appended + 1)) := by
  unfold put
  rw [if_neg (by omega)]
  simp only [putStores_full, alloc_appended]

theorem idle_triple (t : Nat) (x y : Th) : setTh (setTh (setTh idle t x) t y) t .idle = idle := by
  funext t'; simp only [setTh, idle]; split <;> rfl

theorem put_inv {st : St} (I : Inv st) (m : Msg) (hl : m.len ≤ dataPageSize) :
    Inv (put st m).1 ∧ (put st m).2 = .ok (st.q.appended + 1) ∧
    (put st m).1.q.appended = st.q.appended + 1 ∧ (put st m).1.q.acked = st.q.acked ∧
    (∀ n, Readable st.q n → content (put st m).1.mem n = content st.mem n) ∧
    content (put st m).1.mem (nextSeq st.q) = m.bytes := by
  rw [put_eq st m hl]
  have I1 := alloc_inv I.core 0 m rfl hl
  obtain ⟨I2, c2⟩ := write_inv I1 0 m _ _ (setTh_same _ _ _)
  obtain ⟨I3, c3, c3n, e3⟩ := persist_inv I2 0 m _ _ (setTh_same _ _ _)
  rw [idle_triple] at I3
  have hap : -1 ≤ st.q.appended := Int.le_trans I.core.ackLo I.core.ackHi
  have hns := nextSeq_cast hap
  simp only [alloc_nextSeq] at c3n e3
  have hR1 : ∀ n, Readable st.q n → Readable (alloc st.mem st.q m.len).q n := by
    intro n hn; simpa [Readable] using hn
  have hent : ∀ n, n ≠ nextSeq st.q →
      entry (persistStores (writeData (alloc st.mem st.q m.len).mem (alloc st.mem st.q m.len).pg
          (alloc st.mem st.q m.len).off m m.len) (alloc st.mem st.q m.len).q
          (alloc st.mem st.q m.len).pg (alloc st.mem st.q m.len).off m.len 4) n = entry st.mem n := by
    intro n hn
    rw [entry_persistStores_ne _ _ _ _ _ _ (by simpa using hn), entry_writeData, alloc_entry]
  refine ⟨⟨I3, ?_⟩, rfl, by simp [publish], by simp [publish], ?_, c3n⟩
  · obtain ⟨hpg, hmo⟩ := alloc_end st.mem st.q m.len
    have hcb := alloc_cursor st.mem st.q m.len I.core.curBound hl
    refine ⟨?_, ?_, ?_⟩
    · intro n n' h1 h2 h3
      simp only [publish, alloc_appended, alloc_acked] at h1 h3
      by_cases e' : n' = nextSeq st.q
      · subst e'
        by_cases e : n = nextSeq st.q
        · subst e; exact Nat.le_refl _
        · dsimp only
          rw [e3, hent n e]
          dsimp only
          have hge := alloc_pg_ge st.mem st.q m.len
          have hah := I.core.ackHi
          have hb := I.qs.base st.q.appended.toNat (by omega)
          have hm := I.qs.mono n st.q.appended.toNat h1 (by omega) (by omega)
          omega
      · dsimp only
        rw [hent n (by omega), hent n' e']
        exact I.qs.mono n n' h1 h2 (by omega)
    · intro n hn
      simp only [publish, alloc_appended] at hn
      have : n = nextSeq st.q := by omega
      subst this
      dsimp only [publish]
      rw [e3]
      dsimp only
      omega
    · intro n l hn hl'
      simp only [publish, alloc_appended] at hl'
      have : l = nextSeq st.q := by omega
      subst this
      dsimp only
      rw [e3]
      by_cases e : n = nextSeq st.q
      · subst e; rw [e3]; unfold TopOf; omega
      · rw [hent n e]
        have hr : Readable st.q n := by
          unfold Readable publish at *; simp only [alloc_appended, alloc_acked] at hn; omega
        exact alloc_above _ _ _ (I.core.ent n hr).1.1
  · intro n hn
    dsimp only
    rw [c3 n (hR1 n hn), c2 n (hR1 n hn)]
    unfold content; rw [alloc_entry]
    apply readBytes_congr; intro i _; simp


/-! ### frame: memory changes that keep `Inv` for the same queue object -/

theorem frame_inv {st : St} (I : Inv st) (mem' : Mem) (db ib : Nat)
    (hmeta : mem'.metaW = st.mem.metaW) (hhas : mem'.hasMeta = st.mem.hasMeta)
    (hent : ∀ n : Nat, st.q.acked ≤ (n : Int) → (n : Int) ≤ st.q.appended → entry mem' n = entry st.mem n)
    (hdl : ∀ p, p ∈ st.mem.dataLive → db ≤ p → p ∈ mem'.dataLive)
    (hil : ∀ p, p ∈ st.mem.indexLive → ib ≤ p → p ∈ mem'.indexLive)
    (hdb : ∀ n : Nat, Readable st.q n → db ≤ (entry st.mem n).pg) (hdc : db ≤ st.q.dataPageIndex)
    (hib : ∀ n : Nat, Readable st.q n → ib ≤ n / indexItemsPerPage)
    (hic : ib ≤ st.q.indexPageIndex ∨ st.q.indexPageIndex < nextSeq st.q / indexItemsPerPage) :
    Inv ⟨mem', st.q⟩ := by
  have C := I.core
  constructor
  · apply mkInvC_idle C.ackLo C.ackHi
    · show mem'.metaW _ = _; rw [hmeta]; exact C.metaApp
    · show mem'.metaW _ = _; rw [hmeta]; exact C.metaAck
    · show mem'.hasMeta = true; rw [hhas]; exact C.hasMeta
    · exact C.curBound
    · exact hdl _ C.curLive hdc
    · rcases C.idxLive with hl | hr
      · rcases hic with h1 | h2
        · exact Or.inl (hil _ hl h1)
        · exact Or.inr h2
      · exact Or.inr hr
    · intro n hn
      have hn' : Readable st.q n := hn
      obtain ⟨⟨g1, g2, g3⟩, g4⟩ := C.ent n hn'
      have he : entry mem' n = entry st.mem n := hent n (by unfold Readable at hn'; omega) hn'.2
      dsimp only
      rw [he]
      exact ⟨⟨g1, g2, hdl _ g3 (hdb n hn')⟩, hil _ g4 (hib n hn')⟩
  · refine ⟨?_, ?_, ?_⟩
    · intro n n' h1 h2 h3
      have h1' : st.q.acked ≤ (n : Int) := h1
      have h3' : (n' : Int) ≤ st.q.appended := h3
      dsimp only
      rw [hent n h1' (by omega), hent n' (by omega) h3']
      exact I.qs.mono n n' h1' h2 h3'
    · intro n hn
      have hn' : (n : Int) = st.q.appended := hn
      dsimp only
      rw [hent n (by have := C.ackHi; omega) (by omega)]
      exact I.qs.base n hn'
    · intro n l hn hl'
      have hn' : Readable st.q n := hn
      have hl'' : (l : Int) = st.q.appended := hl'
      dsimp only
      rw [hent n (by unfold Readable at hn'; omega) hn'.2, hent l (by have := C.ackHi; omega) (by omega)]
      exact I.qs.lastTop n l hn' hl''

/-! ### reopen -/

/-- NewQueue on the directory of a state satisfying `Inv`: sequences are read back from the
meta page, the cursor is recomputed from the last sequence's item — the same cursor whenever
something is readable — and only page files may be added. -/
theorem reopen_inv {st : St} (I : Inv st) :
    Inv (openQ st.mem) ∧ Pres st (openQ st.mem) ∧
    (openQ st.mem).q.appended = st.q.appended ∧ (openQ st.mem).q.acked = st.q.acked := by
  have C := I.core
  have hap : -1 ≤ st.q.appended := Int.le_trans C.ackLo C.ackHi
  unfold openQ
  rw [if_pos C.hasMeta, C.metaApp, C.metaAck]
  unfold initDataPageIndex
  split
  · rename_i h
    have hak : st.q.acked = -1 := by have := C.ackLo; have := C.ackHi; omega
    refine ⟨⟨?_, ?_⟩, ⟨by dsimp only; omega, by dsimp only; omega, ?_⟩, rfl, rfl⟩
    · apply mkInvC_idle <;> dsimp only
      · omega
      · omega
      · simpa using C.metaApp
      · simpa using C.metaAck
      · simpa using C.hasMeta
      · qomega
      · simp [acquireData_live]
      · left; simp [acquireIndex_live]
      · intro n hn; unfold Readable at hn; dsimp only at hn; omega
    · refine ⟨?_, ?_, ?_⟩ <;> dsimp only
      · intro n n' h1 h2 h3; omega
      · intro n hn; omega
      · intro n l hn; unfold Readable at hn; dsimp only at hn; omega
    · intro n hn _; unfold Readable at hn; omega
  · rename_i h
    have hn0 : ((st.q.appended.toNat : Nat) : Int) = st.q.appended := by omega
    obtain ⟨b1, b2⟩ := I.qs.base st.q.appended.toNat hn0
    simp only [entry_acquireIndex]
    have hmod : ((entry st.mem st.q.appended.toNat).off + (entry st.mem st.q.appended.toNat).len) % u32 =
        (entry st.mem st.q.appended.toNat).off + (entry st.mem st.q.appended.toNat).len :=
      Nat.mod_eq_of_lt (by qomega)
    rw [hmod]
    refine ⟨⟨?_, ?_⟩, ⟨by dsimp only; omega, by dsimp only; omega, ?_⟩, by simp, by simp⟩
    · apply mkInvC_idle <;> dsimp only
      · exact C.ackLo
      · exact C.ackHi
      · simpa using C.metaApp
      · simpa using C.metaAck
      · simpa using C.hasMeta
      · exact b2
      · simp [acquireData_live]
      · left; simp [acquireData, acquireIndex_live]
        split <;> simp [acquireIndex_live]
      · intro n hn
        have hn' : Readable st.q n := hn
        have ht := I.qs.lastTop n st.q.appended.toNat hn' hn0
        obtain ⟨⟨g1, g2, g3⟩, g4⟩ := C.ent n hn'
        simp only [entry_acquireData, entry_acquireIndex]
        refine ⟨⟨?_, g2, ?_⟩, ?_⟩
        · unfold Below TopOf at *; dsimp only; omega
        · rw [acquireData_live]; right; simpa using g3
        · simp only [acquireData_indexLive, acquireIndex_live]; right; exact g4
    · refine ⟨?_, ?_, ?_⟩ <;> dsimp only
      · intro n n' h1 h2 h3
        simp only [entry_acquireData, entry_acquireIndex]
        exact I.qs.mono n n' h1 h2 h3
      · intro n hn
        have : n = st.q.appended.toNat := by omega
        subst this
        simp only [entry_acquireData, entry_acquireIndex]
        exact ⟨Nat.le_refl _, b2⟩
      · intro n l hn hl'
        simp only [entry_acquireData, entry_acquireIndex]
        exact I.qs.lastTop n l hn hl'
    · intro n hn _
      dsimp only
      unfold content
      simp only [entry_acquireData, entry_acquireIndex]
      apply readBytes_congr; intro i _; simp

/-! ### crash after a store prefix of an in-flight Put -/

theorem putStores_data_out (a : Alloc) (m : Msg) (k p o : Nat)
    (h : p ≠ a.pg ∨ o < a.off ∨ a.off + m.len ≤ o) : (putStores a m k).data p o = a.mem.data p o := by
  unfold putStores; split
  · exact writeData_data_out _ _ _ _ _ _ _ h
  · rw [persistStores_data]; exact writeData_data_out _ _ _ _ _ _ _ h

theorem putStores_dataLive (a : Alloc) (m : Msg) (k : Nat) : (putStores a m k).dataLive = a.mem.dataLive := by
  unfold putStores; split
  · rfl
  · rw [persistStores_dataLive]; rfl

theorem putStores_hasMeta (a : Alloc) (m : Msg) (k : Nat) : (putStores a m k).hasMeta = a.mem.hasMeta := by
  unfold putStores; split
  · rfl
  · rw [persistStores_hasMeta]; rfl

theorem putStores_metaW (a : Alloc) (m : Msg) (k : Nat) (hk : k < m.len + 4) :
    (putStores a m k).metaW = a.mem.metaW := by
  unfold putStores; split
  · rfl
  · funext o; rw [persistStores_metaW, if_neg (by omega)]; rfl

theorem putStores_entry_ne (a : Alloc) (m : Msg) (k n : Nat) (h : n ≠ nextSeq a.q) :
    entry (putStores a m k) n = entry a.mem n := by
  unfold putStores; split
  · exact entry_writeData _ _ _ _ _ _
  · rw [entry_persistStores_ne _ _ _ _ _ _ h]; exact entry_writeData _ _ _ _ _ _

theorem putStores_indexLive_mono (a : Alloc) (m : Msg) (k p : Nat) (h : p ∈ a.mem.indexLive) :
    p ∈ (putStores a m k).indexLive := by
  unfold putStores; split
  · exact h
  · exact (persistStores_indexLive _ _ _ _ _ _ _).2 (Or.inl h)

theorem putStores_frame {st : St} (I : Inv st) (m : Msg) (k : Nat) (hk : k < m.len + 4) :
    Inv ⟨putStores (alloc st.mem st.q m.len) m k, st.q⟩ ∧
    ∀ n, Readable st.q n → content (putStores (alloc st.mem st.q m.len) m k) n = content st.mem n := by
  have C := I.core
  have hap : -1 ≤ st.q.appended := Int.le_trans C.ackLo C.ackHi
  have hns := nextSeq_cast hap
  have hent : ∀ n : Nat, (n : Int) ≤ st.q.appended →
      entry (putStores (alloc st.mem st.q m.len) m k) n = entry st.mem n := by
    intro n hn
    rw [putStores_entry_ne _ _ _ _ (by rw [alloc_nextSeq]; omega), alloc_entry]
  constructor
  · apply frame_inv I _ 0 0
    · rw [putStores_metaW _ _ _ hk, alloc_metaW]
    · rw [putStores_hasMeta, alloc_hasMeta]
    · intro n _ h2; exact hent n h2
    · intro p hp _; rw [putStores_dataLive]; exact alloc_dataLive_mono _ _ _ hp
    · intro p hp _; apply putStores_indexLive_mono; rw [alloc_indexLive]; exact hp
    · intro _ _; exact Nat.zero_le _
    · exact Nat.zero_le _
    · intro _ _; exact Nat.zero_le _
    · exact Or.inl (Nat.zero_le _)
  · intro n hn
    unfold content
    rw [hent n hn.2]
    apply readBytes_congr
    intro i hi
    have hd := alloc_disj st.mem st.q m.len (C.ent n hn).1.1
    rw [putStores_data_out, alloc_data]
    unfold Disj at hd; dsimp only at hd; omega

theorem crashPut_inv {st : St} (I : Inv st) (m : Msg) (k : Nat) :
    Inv (crashPut st m k) ∧ Pres st (crashPut st m k) := by
  unfold crashPut
  split
  · obtain ⟨I', p, _⟩ := reopen_inv I
    exact ⟨I', p⟩
  · rename_i hl
    have hl : m.len ≤ dataPageSize := by omega
    by_cases hk : k < m.len + 4
    · obtain ⟨I', c⟩ := putStores_frame I m k hk
      obtain ⟨I'', p, _⟩ := reopen_inv I'
      have p0 : Pres st ⟨putStores (alloc st.mem st.q m.len) m k, st.q⟩ :=
        ⟨Int.le_refl _, Int.le_refl _, fun n hn _ => c n hn⟩
      exact ⟨I'', p0.trans p⟩
    · have he : putStores (alloc st.mem st.q m.len) m k = (put st m).1.mem := by
        rw [put_eq st m hl]
        unfold putStores
        rw [if_neg (by omega), persistStores_ge4 _ _ _ _ _ _ (by omega)]
      obtain ⟨I', _, h2, h3, c, _⟩ := put_inv I m hl
      obtain ⟨I'', p, _⟩ := reopen_inv I'
      rw [he]
      have p0 : Pres st (put st m).1 := ⟨by omega, by omega, fun n hn _ => c n hn⟩
      exact ⟨I'', p0.trans p⟩

/-! ### GC -/

theorem gc_inv {st : St} (I : Inv st) : Inv (gc st) ∧ Pres st (gc st) := by
  have C := I.core
  unfold gc
  split
  · exact ⟨I, Pres.refl _⟩
  · rename_i hack
    dsimp only
    split
    · exact ⟨I, Pres.refl _⟩
    · have hna : ((st.q.acked.toNat : Nat) : Int) = st.q.acked := by omega
      have hap0 : 0 ≤ st.q.appended := by have := C.ackHi; omega
      have hdb : ∀ n : Nat, st.q.acked ≤ (n : Int) → (n : Int) ≤ st.q.appended →
          (entry st.mem st.q.acked.toNat).pg ≤ (entry st.mem n).pg := by
        intro n h1 h2
        exact I.qs.mono _ n (by omega) (by omega) h2
      have hbase := I.qs.base st.q.appended.toNat (by omega)
      have hent : ∀ n : Nat, st.q.acked ≤ (n : Int) →
          entry (truncateIndex (truncateData st.mem (entry st.mem st.q.acked.toNat).pg)
            (st.q.acked.toNat / indexItemsPerPage)) n = entry st.mem n := by
        intro n hn
        have : ¬ (n / indexItemsPerPage < st.q.acked.toNat / indexItemsPerPage) := by qomega
        simp only [entry, truncateIndex, truncateData, if_neg this]
      have hI : Inv ⟨truncateIndex (truncateData st.mem (entry st.mem st.q.acked.toNat).pg)
            (st.q.acked.toNat / indexItemsPerPage), st.q⟩ := by
        apply frame_inv I _ (entry st.mem st.q.acked.toNat).pg (st.q.acked.toNat / indexItemsPerPage)
        · rfl
        · rfl
        · intro n h1 _; exact hent n h1
        · intro p hp hb
          simp only [truncateIndex, truncateData, List.mem_filter, decide_eq_true_eq]
          exact ⟨hp, hb⟩
        · intro p hp hb
          simp only [truncateIndex, truncateData, List.mem_filter, decide_eq_true_eq]
          exact ⟨hp, hb⟩
        · intro n hn; exact hdb n (by unfold Readable at hn; omega) hn.2
        · have := hdb st.q.appended.toNat (by have := C.ackHi; omega) (by omega)
          omega
        · intro n hn; unfold Readable at hn; qomega
        · have := C.ackHi
          have hap := nextSeq_cast (Int.le_trans C.ackLo C.ackHi)
          by_cases hc : st.q.acked.toNat / indexItemsPerPage ≤ st.q.indexPageIndex
          · exact Or.inl hc
          · right; qomega
      refine ⟨hI, Int.le_refl _, Int.le_refl _, ?_⟩
      intro n hn _
      dsimp only
      unfold content
      rw [hent n (by unfold Readable at hn; omega)]
      apply readBytes_congr
      intro i _
      have := hdb n (by unfold Readable at hn; omega) hn.2
      simp only [truncateIndex, truncateData]
      rw [if_neg (by omega)]

/-! ### every operation -/

theorem step_inv_put {st : St} (I : Inv st) (m : Msg) : Inv (put st m).1 ∧ Pres st (put st m).1 := by
  by_cases hl : m.len ≤ dataPageSize
  · obtain ⟨I', _, h2, h3, c, _⟩ := put_inv I m hl
    exact ⟨I', by show _ ≤ (put st m).1.q.acked; omega, by show _ ≤ (put st m).1.q.appended; omega,
      fun n hn _ => c n hn⟩
  · have : (put st m).1 = st := by
      unfold put; rw [if_pos (by omega)]
    rw [this]; exact ⟨I, Pres.refl _⟩

/-- a Put during which AcquirePage fails either changes nothing (rejected, or the roll-over
failed) or is an ordinary Put (no roll-over was needed) -/
theorem putF_eq (st : St) (m : Msg) :
    (putF st m).1 =
      if m.len > dataPageSize ∨ st.q.messageOffset + m.len > dataPageSize then st else (put st m).1 := by
  unfold putF allocF
  by_cases h1 : m.len > dataPageSize
  · simp [h1]
  · by_cases h2 : st.q.messageOffset + m.len > dataPageSize
    · simp [h1, h2]
    · simp [h1, h2]

/-- a Put whose index-page switch fails: nothing readable changes, nothing is published, the
cursor has moved past the abandoned space -/
theorem putFI_inv {st : St} (I : Inv st) (m : Msg) : Inv (putFI st m).1 ∧ Pres st (putFI st m).1 := by
  unfold putFI
  split
  · exact ⟨I, Pres.refl _⟩
  · rename_i hl
    have hl : m.len ≤ dataPageSize := by omega
    dsimp only
    split
    · have I1 := alloc_inv I.core 0 m rfl hl
      obtain ⟨I2, c2⟩ := write_inv I1 0 m _ _ (setTh_same _ _ _)
      have hge : st.q.dataPageIndex ≤ (alloc st.mem st.q m.len).q.dataPageIndex := by
        rw [(alloc_end st.mem st.q m.len).1]; exact alloc_pg_ge _ _ _
      have hR : ∀ n, Readable (alloc st.mem st.q m.len).q n ↔ Readable st.q n := by
        intro n; simp [Readable]
      refine ⟨⟨?_, ?_⟩, ?_⟩
      · exact mkInvC_idle I2.ackLo I2.ackHi I2.metaApp I2.metaAck I2.hasMeta I2.curBound I2.curLive
          I2.idxLive I2.ent
      · refine ⟨?_, ?_, ?_⟩ <;> dsimp only
        · intro n n' h1 h2 h3
          simp only [alloc_appended, alloc_acked] at h1 h3
          rw [entry_writeData, entry_writeData, alloc_entry, alloc_entry]
          exact I.qs.mono n n' h1 h2 h3
        · intro n hn
          simp only [alloc_appended] at hn
          rw [entry_writeData, alloc_entry]
          have := I.qs.base n hn
          omega
        · intro n l hn hl'
          simp only [alloc_appended] at hl'
          rw [entry_writeData, entry_writeData, alloc_entry, alloc_entry]
          exact I.qs.lastTop n l ((hR n).1 hn) hl'
      · refine ⟨by dsimp only; simp, by dsimp only; simp, ?_⟩
        intro n hn _
        dsimp only
        rw [c2 n ((hR n).2 hn)]
        unfold content; rw [alloc_entry]
        apply readBytes_congr; intro i _; simp
    · exact step_inv_put I m

/-- operations other than the explicit reset -/
def Op.noReset : Op → Prop
  | .setAppended _ => False
  | _ => True

theorem step_inv {st : St} (I : Inv st) (op : Op) (hnr : op.noReset) :
    Inv (step st op) ∧ Pres st (step st op) := by
  cases op with
  | put m => exact step_inv_put I m
  | putFail m =>
    show Inv (putF st m).1 ∧ Pres st (putF st m).1
    rw [putF_eq]
    split
    · exact ⟨I, Pres.refl _⟩
    · exact step_inv_put I m
  | setAppended s => exact absurd hnr (by simp [Op.noReset])
  | putFailIdx m => exact putFI_inv I m
  | get s => exact ⟨I, Pres.refl _⟩
  | ack s =>
    show Inv (ack st s) ∧ Pres st (ack st s)
    obtain ⟨I', c, _, h4, h5⟩ := ack_inv I.core s
    refine ⟨⟨I', ?_⟩, h5, by show _ ≤ (ack st s).q.appended; omega, fun n _ _ => c n⟩
    have hq : (ack st s).q.appended = st.q.appended ∧ (ack st s).q.dataPageIndex = st.q.dataPageIndex ∧
        (ack st s).q.messageOffset = st.q.messageOffset ∧ (ack st s).q.indexPageIndex = st.q.indexPageIndex ∧
        st.q.acked ≤ (ack st s).q.acked ∧ (∀ n, entry (ack st s).mem n = entry st.mem n) := by
      unfold ack; split
      · rename_i h; exact ⟨rfl, rfl, rfl, rfl, by dsimp only; omega, fun n => rfl⟩
      · exact ⟨rfl, rfl, rfl, rfl, Int.le_refl _, fun n => rfl⟩
    obtain ⟨q1, q2, q3, q4, q5, q6⟩ := hq
    refine ⟨?_, ?_, ?_⟩
    · intro n n' h1 h2 h3; rw [q6, q6]; exact I.qs.mono n n' (by omega) h2 (by omega)
    · intro n hn; rw [q2, q6]; exact I.qs.base n (by omega)
    · intro n l hn hl'
      rw [q6, q6]
      exact I.qs.lastTop n l (by unfold Readable at *; omega) (by omega)
  | gc => exact gc_inv I
  | reopen =>
    obtain ⟨I', p, _⟩ := reopen_inv I
    exact ⟨I', p⟩
  | crashPut m k => exact crashPut_inv I m k

theorem run_inv {st : St} (I : Inv st) (ops : List Op) (hnr : ∀ op ∈ ops, op.noReset) :
    Inv (run st ops) ∧ Pres st (run st ops) := by
  induction ops generalizing st with
  | nil => exact ⟨I, Pres.refl _⟩
  | cons op ops ih =>
    obtain ⟨I1, p1⟩ := step_inv I op (hnr op (by simp))
    obtain ⟨I2, p2⟩ := ih I1 (fun o ho => hnr o (by simp [ho]))
    exact ⟨I2, p1.trans p2⟩

/-! ### the explicit reset -/

/-- what `SetAppendedSeq(s)` needs of the state it is called in, for the queue to stay
consistent afterwards: `s ≥ -1`; the index item at `s` (stale, or zero when never written)
points at or below the cursor's page and inside a page; the index page the queue object
holds was not truncated away, or the next append switches pages anyway. It holds for every
forward reset onto never-written sequences and for every backward reset onto a sequence
appended since the cursor last moved backwards. -/
def ResetOK (st : St) (s : Int) : Prop :=
  -1 ≤ s ∧
  (∀ n : Nat, (n : Int) = s →
    (entry st.mem n).pg ≤ st.q.dataPageIndex ∧ (entry st.mem n).off + (entry st.mem n).len ≤ dataPageSize) ∧
  (st.q.indexPageIndex ∈ st.mem.indexLive ∨ st.q.indexPageIndex < (s + 1).toNat / indexItemsPerPage)

theorem setAppended_inv {st : St} (I : Inv st) (s : Int) (h : ResetOK st s) :
    Inv (setAppended st s) ∧ (setAppended st s).q.appended = s ∧ (setAppended st s).q.acked = s := by
  obtain ⟨h1, h2, h3⟩ := h
  have C := I.core
  refine ⟨⟨?_, ?_⟩, rfl, rfl⟩
  · apply mkInvC_idle <;> simp only [setAppended]
    · exact h1
    · exact Int.le_refl _
    · simp [setMeta]
    · simp [setMeta]
    · exact C.hasMeta
    · exact C.curBound
    · exact C.curLive
    · exact h3
    · intro n hn; unfold Readable at hn; dsimp only at hn; omega
  · refine ⟨?_, ?_, ?_⟩ <;> simp only [setAppended]
    · intro n n' a1 a2 a3
      have : n = n' := by omega
      subst this; exact Nat.le_refl _
    · intro n hn; simp only [entry_setMeta]; exact h2 n hn
    · intro n l hn; unfold Readable at hn; dsimp only at hn; omega

/-- which operations are covered: everything, resets only when `ResetOK` -/
def OpOK (st : St) : Op → Prop
  | .setAppended s => ResetOK st s
  | _ => True

def OpsOK (st : St) : List Op → Prop
  | [] => True
  | op :: ops => OpOK st op ∧ OpsOK (step st op) ops

/-- sequence `n` is readable in every state along the history -/
def Stays (st : St) (n : Nat) : List Op → Prop
  | [] => Readable st.q n
  | op :: ops => Readable st.q n ∧ Stays (step st op) n ops

theorem step_inv_ok {st : St} (I : Inv st) (op : Op) (h : OpOK st op) : Inv (step st op) := by
  cases op with
  | setAppended s => exact (setAppended_inv I s h).1
  | put m => exact (step_inv I (.put m) trivial).1
  | putFail m => exact (step_inv I (.putFail m) trivial).1
  | putFailIdx m => exact (step_inv I (.putFailIdx m) trivial).1
  | get s => exact (step_inv I (.get s) trivial).1
  | ack s => exact (step_inv I (.ack s) trivial).1
  | gc => exact (step_inv I .gc trivial).1
  | reopen => exact (step_inv I .reopen trivial).1
  | crashPut m k => exact (step_inv I (.crashPut m k) trivial).1

theorem run_inv_ok {st : St} (I : Inv st) (ops : List Op) (h : OpsOK st ops) : Inv (run st ops) := by
  induction ops generalizing st with
  | nil => exact I
  | cons op ops ih => exact ih (step_inv_ok I op h.1) h.2

/-- along any covered history (resets included) a sequence that stays readable keeps its bytes -/
theorem run_content {st : St} (I : Inv st) (ops : List Op) (n : Nat) (h : OpsOK st ops)
    (hs : Stays st n ops) :
    Readable (run st ops).q n ∧ content (run st ops).mem n = content st.mem n := by
  induction ops generalizing st with
  | nil => exact ⟨hs, rfl⟩
  | cons op ops ih =>
    obtain ⟨hr, hs'⟩ := hs
    have I1 := step_inv_ok I op h.1
    have hr1 : Readable (step st op).q n := by
      cases ops with
      | nil => exact hs'
      | cons _ _ => exact hs'.1
    obtain ⟨r2, c2⟩ := ih I1 h.2 hs'
    refine ⟨r2, ?_⟩
    show content (run (step st op) ops).mem n = _
    rw [c2]
    cases op with
    | setAppended s =>
      exfalso
      have : (setAppended st s).q.acked = (setAppended st s).q.appended := rfl
      have hr1' : Readable (setAppended st s).q n := hr1
      unfold Readable at hr1'; omega
    | put m => exact (step_inv I (.put m) trivial).2.2.2 n hr hr1
    | putFail m => exact (step_inv I (.putFail m) trivial).2.2.2 n hr hr1
    | putFailIdx m => exact (step_inv I (.putFailIdx m) trivial).2.2.2 n hr hr1
    | get s => exact (step_inv I (.get s) trivial).2.2.2 n hr hr1
    | ack s => exact (step_inv I (.ack s) trivial).2.2.2 n hr hr1
    | gc => exact (step_inv I .gc trivial).2.2.2 n hr hr1
    | reopen => exact (step_inv I .reopen trivial).2.2.2 n hr hr1
    | crashPut m k => exact (step_inv I (.crashPut m k) trivial).2.2.2 n hr hr1

/-! ### the cursor NewQueue computes; histories along which the volatile cursor equals it -/

theorem openQ_entry {st : St} (I : Inv st) (n : Nat) : entry (openQ st.mem).mem n = entry st.mem n := by
  unfold openQ
  rw [if_pos I.core.hasMeta]
  unfold initDataPageIndex
  split <;> simp

/-- NewQueue recomputes the write cursor from the LAST sequence's index item — (page, offset +
length) — whether or not that sequence is acknowledged; only an empty queue starts at (0,0). -/
theorem reopen_cursor {st : St} (I : Inv st) : Synced (openQ st.mem) := by
  have C := I.core
  have hap : -1 ≤ st.q.appended := Int.le_trans C.ackLo C.ackHi
  have hq : (openQ st.mem).q.appended = st.q.appended := (reopen_inv I).2.2.1
  refine ⟨?_, ?_, ?_⟩
  · intro h
    rw [hq] at h
    unfold openQ
    rw [if_pos C.hasMeta, C.metaApp, C.metaAck]
    unfold initDataPageIndex
    rw [if_pos h]
    exact ⟨rfl, rfl⟩
  · intro n hn
    rw [hq] at hn
    rw [openQ_entry I]
    have hn0 : n = st.q.appended.toNat := by omega
    subst hn0
    obtain ⟨_, b2⟩ := I.qs.base st.q.appended.toNat hn
    unfold openQ
    rw [if_pos C.hasMeta, C.metaApp, C.metaAck]
    unfold initDataPageIndex
    rw [if_neg (by omega)]
    simp only [entry_acquireIndex]
    exact ⟨trivial, Nat.mod_eq_of_lt (by qomega)⟩
  · rw [hq]
    unfold openQ
    rw [if_pos C.hasMeta, C.metaApp, C.metaAck]
    unfold initDataPageIndex
    split
    · rename_i h; rw [h]; rfl
    · rfl

theorem put_synced {st : St} (I : Inv st) (m : Msg) (hl : m.len ≤ dataPageSize) : Synced (put st m).1 := by
  obtain ⟨_, _, r3, _⟩ := put_inv I m hl
  have hap : -1 ≤ st.q.appended := Int.le_trans I.core.ackLo I.core.ackHi
  have hns := nextSeq_cast hap
  rw [put_eq st m hl] at r3 ⊢
  have I1 := alloc_inv I.core 0 m rfl hl
  obtain ⟨I2, _⟩ := write_inv I1 0 m _ _ (setTh_same _ _ _)
  obtain ⟨_, _, _, e3⟩ := persist_inv I2 0 m _ _ (setTh_same _ _ _)
  simp only [alloc_nextSeq] at e3
  obtain ⟨hpg, hmo⟩ := alloc_end st.mem st.q m.len
  refine ⟨?_, ?_, ?_⟩
  · intro h; simp [publish] at h; omega
  · intro n hn
    simp only [publish, alloc_appended] at hn
    have : n = nextSeq st.q := by omega
    subst this
    dsimp only [publish]
    rw [e3]; exact ⟨hpg, hmo⟩
  · simp only [publish, alloc_appended, alloc_nextSeq]; rfl

theorem gc_q (st : St) : (gc st).q = st.q := by
  unfold gc; split
  · rfl
  · dsimp only; split <;> rfl

theorem gc_entry {st : St} (I : Inv st) (n : Nat) (hn : st.q.acked ≤ (n : Int)) :
    entry (gc st).mem n = entry st.mem n := by
  unfold gc
  split
  · rfl
  · dsimp only
    split
    · rfl
    · have : ¬ (n / indexItemsPerPage < st.q.acked.toNat / indexItemsPerPage) := by qomega
      simp only [entry, truncateIndex, truncateData, if_neg this]

/-- operations after which the volatile cursor still is what NewQueue would compute: all but
the explicit reset and a Put whose index-page switch failed -/
def Op.plain : Op → Prop
  | .setAppended _ | .putFailIdx _ => False
  | _ => True

theorem Op.plain_noReset {op : Op} (h : op.plain) : op.noReset := by
  cases op <;> simp_all [Op.plain, Op.noReset]

theorem step_synced {st : St} (I : Inv st) (S : Synced st) (op : Op) (hp : op.plain) :
    Synced (step st op) := by
  have hput : ∀ m, Synced (put st m).1 := by
    intro m
    by_cases hl : m.len ≤ dataPageSize
    · exact put_synced I m hl
    · have : (put st m).1 = st := by unfold put; rw [if_pos (by omega)]
      rw [this]; exact S
  cases op with
  | setAppended s => exact absurd hp (by simp [Op.plain])
  | putFailIdx m => exact absurd hp (by simp [Op.plain])
  | put m => exact hput m
  | putFail m =>
    show Synced (putF st m).1
    rw [putF_eq]; split
    · exact S
    · exact hput m
  | get s => exact S
  | ack s =>
    show Synced (ack st s)
    have hq : (ack st s).q.appended = st.q.appended ∧ (ack st s).q.dataPageIndex = st.q.dataPageIndex ∧
        (ack st s).q.messageOffset = st.q.messageOffset ∧ (ack st s).q.indexPageIndex = st.q.indexPageIndex ∧
        (∀ n, entry (ack st s).mem n = entry st.mem n) := by
      unfold ack; split
      · exact ⟨rfl, rfl, rfl, rfl, fun n => rfl⟩
      · exact ⟨rfl, rfl, rfl, rfl, fun n => rfl⟩
    obtain ⟨q1, q2, q3, q4, q6⟩ := hq
    refine ⟨?_, ?_, ?_⟩
    · rw [q1, q2, q3]; exact S.cur0
    · intro n hn; rw [q2, q3, q6]; exact S.cur n (by omega)
    · rw [q4, q1]; exact S.ipi
  | gc =>
    show Synced (gc st)
    have hq := gc_q st
    refine ⟨?_, ?_, ?_⟩
    · rw [hq]; exact S.cur0
    · intro n hn
      rw [hq] at hn ⊢
      rw [gc_entry I n (by have := I.core.ackHi; omega)]
      exact S.cur n hn
    · rw [hq]; exact S.ipi
  | reopen => exact reopen_cursor I
  | crashPut m k =>
    show Synced (crashPut st m k)
    unfold crashPut
    split
    · exact reopen_cursor I
    · rename_i hl
      have hl : m.len ≤ dataPageSize := by omega
      by_cases hk : k < m.len + 4
      · exact reopen_cursor (putStores_frame I m k hk).1
      · have he : putStores (alloc st.mem st.q m.len) m k = (put st m).1.mem := by
          rw [put_eq st m hl]
          unfold putStores
          rw [if_neg (by omega), persistStores_ge4 _ _ _ _ _ _ (by omega)]
        rw [he]
        exact reopen_cursor (put_inv I m hl).1

theorem init_synced : Synced St.init := by
  have h6 : St.init.q = ⟨-1, -1, 0, 0, 0⟩ := by
    simp [St.init, openQ, Mem.empty, initDataPageIndex]
  refine ⟨?_, ?_, ?_⟩ <;> simp only [h6]
  · simp
  · intro n hn; omega
  · rfl

theorem run_synced {st : St} (I : Inv st) (S : Synced st) (ops : List Op) (hp : ∀ op ∈ ops, op.plain) :
    Synced (run st ops) := by
  induction ops generalizing st with
  | nil => exact S
  | cons op ops ih =>
    have h1 := hp op (by simp)
    exact ih (step_inv I op (Op.plain_noReset h1)).1 (step_synced I S op h1) (fun o ho => hp o (by simp [ho]))

end LinVerif.Queue
