/-
C13 — range lookup (`GetDataFamilies`), slot ranges, broker row grouping and the rollup relation:
lemmas on top of the bucketing lemmas of `C13Interval`.
-/
import LinVerif.Lemmas.C13Interval

namespace LinVerif.Lemmas.C13
open LinVerif.Calendar LinVerif.Interval

/-! ### monotonicity -/

/-- family starts are monotone in the timestamp (from containment + idempotence alone) -/
theorem familyTime_mono (c : Calc) {t1 t2 : Int} (h1 : 0 ≤ t1) (h12 : t1 ≤ t2) :
    calcFamilyTime c t1 ≤ calcFamilyTime c t2 := by
  have h2 : 0 ≤ t2 := by omega
  by_cases hc : calcFamilyTime c t1 ≤ calcFamilyTime c t2
  · exact hc
  · exfalso
    have c1 := family_contains c h1
    have c2 := family_contains c h2
    have := family_idempotent c (t := t2) (t' := t1) h2 (by omega) (by omega)
    omega

theorem familyTime_fix (c : Calc) {t : Int} (h : 0 ≤ t) :
    calcFamilyTime c (calcFamilyTime c t) = calcFamilyTime c t := by
  have c1 := family_contains c h
  exact family_idempotent c h (Int.le_refl _) (by omega)

/-- month index `12·year + (month − 1)` of a day number -/
def monthIndex (z : Int) : Int := 12 * (civilFromDays z).1 + ((civilFromDays z).2.1 - 1)

theorem monthStartDay_index (z : Int) : monthStartDay z = monthStartK (monthIndex z) := by
  obtain ⟨a1, a2, _, _, _⟩ := civil_spec z
  simp only [monthStartDay, monthIndex]
  exact (monthStartK_of _ _ a1 a2).symm

theorem nextMonthStartDay_index (z : Int) : nextMonthStartDay z = monthStartK (monthIndex z + 1) := by
  obtain ⟨a1, a2, _, _, _⟩ := civil_spec z
  have h := nextMonth_index (monthIndex z)
  have h1 : monthIndex z / 12 = (civilFromDays z).1 := by simp only [monthIndex]; omega
  have h2 : monthIndex z % 12 + 1 = (civilFromDays z).2.1 := by simp only [monthIndex]; omega
  rw [h1, h2] at h
  simp only [nextMonthStartDay, h]; rfl

theorem yearStartDay_index (z : Int) : yearStartDay z = monthStartK (12 * (monthIndex z / 12)) := by
  obtain ⟨a1, a2, _, _, _⟩ := civil_spec z
  have h1 : monthIndex z / 12 = (civilFromDays z).1 := by simp only [monthIndex]; omega
  have := monthStartK_of (civilFromDays z).1 1 (by omega) (by omega)
  have e : 12 * (civilFromDays z).1 + (1 - 1) = 12 * (civilFromDays z).1 := by omega
  rw [e] at this
  simp only [yearStartDay, h1, this]

theorem monthStartK_le {k1 k2 : Int} (h : k1 ≤ k2) : monthStartK k1 ≤ monthStartK k2 := by
  have h' := monthStartK_add k1 (k2 - k1).toNat
  have e : k1 + ((k2 - k1).toNat : Int) = k2 := by omega
  rw [e] at h'
  omega

theorem monthIndex_mono {z1 z2 : Int} (h : z1 ≤ z2) : monthIndex z1 ≤ monthIndex z2 := by
  by_cases hc : monthIndex z1 ≤ monthIndex z2
  · exact hc
  · exfalso
    have m := monthStartK_mono (k1 := monthIndex z2) (k2 := monthIndex z1) (by omega)
    have l1 := monthStartDay_le z1
    have l2 := monthStartDay_le z2
    rw [monthStartDay_index] at l1
    rw [nextMonthStartDay_index] at l2
    omega

/-- segment base times are monotone in the timestamp -/
theorem segment_mono (c : Calc) {t1 t2 : Int} (h1 : 0 ≤ t1) (h12 : t1 ≤ t2) :
    calcSegmentTime c t1 ≤ calcSegmentTime c t2 := by
  have h2 : 0 ≤ t2 := by omega
  have hz : t1 / 86400000 ≤ t2 / 86400000 := Int.ediv_le_ediv (by decide) h12
  cases c
  · rw [day_segment h1, day_segment h2]; omega
  · rw [month_segment h1, month_segment h2, monthStartDay_index, monthStartDay_index]
    have := monthStartK_le (monthIndex_mono hz); omega
  · rw [year_segment h1, year_segment h2, yearStartDay_index, yearStartDay_index]
    have hk := monthIndex_mono hz
    have := monthStartK_le (k1 := 12 * (monthIndex (t1 / 86400000) / 12))
      (k2 := 12 * (monthIndex (t2 / 86400000) / 12)) (by omega)
    omega

/-! ### `GetDataFamilies` (current code: `LookupVariant.ownSegment`) -/

theorem contains_iff (r : TimeRange) (t : Int) : r.contains t = true ↔ r.start ≤ t ∧ t ≤ r.stop := by
  simp [TimeRange.contains]

theorem mem_takeWhile_imp {p : Int → Bool} : ∀ {l : List Int} {x : Int}, x ∈ l.takeWhile p → p x = true
  | [], _, h => by simp at h
  | a :: l, x, h => by
    simp only [List.takeWhile_cons] at h
    split at h
    · rcases List.mem_cons.1 h with rfl | h'
      · assumption
      · exact mem_takeWhile_imp h'
    · simp at h

theorem timeRangeOfTimestamp_eq (c : Calc) (t : Int) :
    timeRangeOfTimestamp c t =
      { start := calcFamilyTime c t, stop := calcFamilyEndTime c (calcFamilyTime c t) } := rfl

/-- the selection predicate of `getDataFamilies` is "the family's range intersects the query range" -/
theorem lookup_pred (c : Calc) (q : TimeRange) {t : Int} (hq0 : 0 ≤ q.start) (hq : q.start ≤ q.stop)
    (ht : 0 ≤ t) :
    (((TimeRange.mk (calcSegmentTime c q.start) q.stop).contains (calcSegmentTime c t) &&
      (familyQueryTimeRange .ownSegment c (calcSegmentTime c t)
        ((TimeRange.mk (calcSegmentTime c q.start) q.stop).intersect q)).overlap
          (timeRangeOfTimestamp c t)) = true) ↔
    (calcFamilyTime c t ≤ q.stop ∧ q.start ≤ calcFamilyEndTime c (calcFamilyTime c t)) := by
  have hqe : 0 ≤ q.stop := by omega
  have cs := family_contains c ht
  have ca := family_contains c hq0
  have cb := family_contains c hqe
  have hs0 := familyTime_nonneg c ht
  have sa := segment_le_family c hq0
  have sb := segment_le_family c ht
  -- the range handed to the segment is the query range itself
  have hi : (TimeRange.mk (calcSegmentTime c q.start) q.stop).intersect q = q := by
    cases q with
    | mk qs qe =>
      simp only [TimeRange.intersect] at *
      congr 1
      · split <;> omega
      · split <;> omega
  rw [hi]
  simp only [familyQueryTimeRange, timeRangeOfTimestamp_eq, TimeRange.overlap,
    Bool.and_eq_true, Bool.or_eq_true, contains_iff]
  -- instances of monotonicity / tiling / idempotence used below
  have m1 : q.start ≤ calcFamilyEndTime c (calcFamilyTime c t) →
      calcFamilyTime c q.start ≤ calcFamilyTime c t := by
    intro h
    have := familyTime_mono c hq0 h
    rw [family_idempotent c ht (by omega) (Int.le_refl _)] at this
    exact this
  have m2 : calcFamilyTime c t ≤ q.stop → calcFamilyTime c t ≤ calcFamilyTime c q.stop := by
    intro h
    have := familyTime_mono c hs0 h
    rw [familyTime_fix c ht] at this
    exact this
  have m3 : calcFamilyEndTime c (calcFamilyTime c t) + 1 ≤ q.start →
      calcFamilyEndTime c (calcFamilyTime c t) + 1 ≤ calcFamilyTime c q.start := by
    intro h
    have := familyTime_mono c (t1 := calcFamilyEndTime c (calcFamilyTime c t) + 1) (by omega) h
    rw [families_tile c ht] at this
    exact this
  have m4 : calcFamilyTime c t ≤ calcFamilyTime c q.start →
      calcFamilyTime c q.start ≤ calcFamilyEndTime c (calcFamilyTime c t) →
      calcFamilyTime c q.start = calcFamilyTime c t := by
    intro h1 h2
    have := family_idempotent c ht h1 h2
    rw [familyTime_fix c hq0] at this
    exact this
  have m5 : q.start ≤ calcFamilyEndTime c (calcFamilyTime c t) →
      calcSegmentTime c q.start ≤ calcSegmentTime c t := by
    intro h
    have := segment_mono c hq0 h
    rw [segment_const_on_family c ht (by omega) (Int.le_refl _)] at this
    exact this
  constructor
  · rintro ⟨_, h | h⟩
    · refine ⟨by omega, ?_⟩
      by_cases hc : q.start ≤ calcFamilyEndTime c (calcFamilyTime c t)
      · exact hc
      · have := m3 (by omega); omega
    · have := m4 h.1 h.2
      exact ⟨by omega, by omega⟩
  · rintro ⟨h1, h2⟩
    have := m1 h2
    have := m2 h1
    have := m5 h2
    exact ⟨⟨by omega, by omega⟩, Or.inl ⟨by omega, by omega⟩⟩

theorem getDataFamilies_mem (c : Calc) (q : TimeRange) (ts : List Int) (hq0 : 0 ≤ q.start)
    (hq : q.start ≤ q.stop) (hts : ∀ t ∈ ts, 0 ≤ t) (x : Int) :
    x ∈ getDataFamilies .ownSegment c q ts ↔
      ∃ t ∈ ts, x = calcFamilyTime c t ∧ calcFamilyTime c t ≤ q.stop ∧
        q.start ≤ calcFamilyEndTime c (calcFamilyTime c t) := by
  simp only [getDataFamilies, List.mem_map, List.mem_filter]
  constructor
  · rintro ⟨t, ⟨hm, hp⟩, rfl⟩
    exact ⟨t, hm, rfl, (lookup_pred c q hq0 hq (hts t hm)).1 hp⟩
  · rintro ⟨t, hm, rfl, hp⟩
    exact ⟨t, ⟨hm, (lookup_pred c q hq0 hq (hts t hm)).2 hp⟩, rfl⟩

/-! ### slot range of a family ∩ query range -/

theorem slotRange_spec (i t : Int) (q : TimeRange) (h : 0 ≤ t) (hi : 0 < i)
    (hne : (q.intersect ⟨calcFamilyTime (intervalType i) t,
        calcFamilyEndTime (intervalType i) (calcFamilyTime (intervalType i) t)⟩).start ≤
      (q.intersect ⟨calcFamilyTime (intervalType i) t,
        calcFamilyEndTime (intervalType i) (calcFamilyTime (intervalType i) t)⟩).stop) :
    ∃ a b, calcSlotRange i (calcFamilyTime (intervalType i) t) q = some (a % 65536, b % 65536) ∧
      0 ≤ a ∧ a ≤ b ∧
      calcFamilyTime (intervalType i) t + a * i ≤
        (q.intersect ⟨calcFamilyTime (intervalType i) t,
          calcFamilyEndTime (intervalType i) (calcFamilyTime (intervalType i) t)⟩).start ∧
      (q.intersect ⟨calcFamilyTime (intervalType i) t,
          calcFamilyEndTime (intervalType i) (calcFamilyTime (intervalType i) t)⟩).start <
        calcFamilyTime (intervalType i) t + (a + 1) * i ∧
      calcFamilyTime (intervalType i) t + b * i ≤
        (q.intersect ⟨calcFamilyTime (intervalType i) t,
          calcFamilyEndTime (intervalType i) (calcFamilyTime (intervalType i) t)⟩).stop ∧
      (q.intersect ⟨calcFamilyTime (intervalType i) t,
          calcFamilyEndTime (intervalType i) (calcFamilyTime (intervalType i) t)⟩).stop <
        calcFamilyTime (intervalType i) t + (b + 1) * i := by
  generalize hc : intervalType i = c at *
  generalize hf : calcFamilyTime c t = f at *
  generalize he : calcFamilyEndTime c f = e at *
  have hf0 : 0 ≤ f := by rw [← hf]; exact familyTime_nonneg c h
  have hfe : f ≤ e := by have := family_contains c h; rw [hf, he] at this; omega
  generalize hrs : q.intersect ⟨f, e⟩ = rs at *
  have hlo : f ≤ rs.start ∧ rs.stop ≤ e := by
    rw [← hrs]; simp only [TimeRange.intersect]
    constructor
    · split <;> omega
    · split <;> omega
  have i1 : calcFamilyTime c rs.start = f := by
    have := family_idempotent c (t := t) (t' := rs.start) h (by rw [hf]; omega) (by rw [hf, he]; omega)
    rw [hf] at this; exact this
  have i2 : calcFamilyTime c rs.stop = f := by
    have := family_idempotent c (t := t) (t' := rs.stop) h (by rw [hf]; omega) (by rw [hf, he]; omega)
    rw [hf] at this; exact this
  obtain ⟨a, ea, a0, la, ua⟩ := slot_bound c (t := rs.start) (i := i) (by omega) hi
  obtain ⟨b, eb, _, lb, ub⟩ := slot_bound c (t := rs.stop) (i := i) (by omega) hi
  rw [i1] at ea la ua
  rw [i2] at eb lb ub
  refine ⟨a, b, ?_, a0, ?_, la, ua, lb, ub⟩
  · simp only [calcSlotRange, hc, he, hrs, ea, eb]
  · -- a ≤ b: f + a*i ≤ rs.start ≤ rs.stop < f + (b+1)*i
    by_cases hab : a ≤ b
    · exact hab
    · exfalso
      have h1 : b + 1 ≤ a := by omega
      have h2 : (b + 1) * i ≤ a * i := Int.mul_le_mul_of_nonneg_right h1 (by omega)
      omega

/-- family starts are multiples of the calculator's family unit, so an interval dividing one hour
(day type) resp. one day (month / year type) divides every family start -/
theorem interval_dvd_familyTime (c : Calc) {t i : Int} (h : 0 ≤ t)
    (hg : match c with | .day => i ∣ 3600000 | _ => i ∣ 86400000) : i ∣ calcFamilyTime c t := by
  cases c
  · rw [day_familyTime h]; exact Int.dvd_trans hg (Int.dvd_mul_left _ _)
  · rw [month_familyTime h]; exact Int.dvd_trans hg (Int.dvd_mul_left _ _)
  · rw [year_familyTime h]; exact Int.dvd_trans hg (Int.dvd_mul_left _ _)

/-- the slot a point is written to lies inside the slot range read for any query range that
contains the point's (epoch-aligned) storage slot start — when the storage interval divides the
family start, i.e. the family's slot grid and `Truncate`'s grid coincide -/
theorem covered_slot (i t : Int) (q : TimeRange) (h : 0 ≤ t) (hi : 0 < i)
    (hdiv : i ∣ calcFamilyTime (intervalType i) t)
    (hT1 : q.start ≤ t / i * i) (hT2 : t / i * i ≤ q.stop) :
    ∃ s a b, calcSlot (intervalType i) t (calcFamilyTime (intervalType i) t) i = some s ∧
      calcSlotRange i (calcFamilyTime (intervalType i) t) q = some (a % 65536, b % 65536) ∧
      a ≤ s ∧ s ≤ b := by
  have hc := family_contains (intervalType i) h
  obtain ⟨k, hk⟩ := hdiv
  have hTt : t / i * i ≤ t := Int.ediv_mul_le t (by omega)
  have hkT : ∀ m : Int, m * i ≤ t → m * i ≤ t / i * i := fun m hm =>
    Int.mul_le_mul_of_nonneg_right (Int.le_ediv_of_mul_le hi hm) (by omega)
  have hfT : calcFamilyTime (intervalType i) t ≤ t / i * i := by
    have := hkT k (by rw [Int.mul_comm, ← hk]; omega)
    rw [Int.mul_comm, ← hk] at this; exact this
  have hne : (q.intersect ⟨calcFamilyTime (intervalType i) t,
        calcFamilyEndTime (intervalType i) (calcFamilyTime (intervalType i) t)⟩).start ≤ t / i * i ∧
      t / i * i ≤ (q.intersect ⟨calcFamilyTime (intervalType i) t,
        calcFamilyEndTime (intervalType i) (calcFamilyTime (intervalType i) t)⟩).stop := by
    simp only [TimeRange.intersect]
    constructor
    · split <;> omega
    · split <;> omega
  obtain ⟨a, b, e, _, _, la, _, _, ub⟩ := slotRange_spec i t q h hi (by omega)
  obtain ⟨s, es, s0, ls, us⟩ := slot_bound (intervalType i) (t := t) (i := i) h hi
  refine ⟨s, a, b, es, e, ?_, ?_⟩
  · -- f + a·i ≤ rs.start ≤ T ≤ t < f + (s+1)·i
    have : a * i < (s + 1) * i := by omega
    have := Int.lt_of_mul_lt_mul_right this (by omega)
    omega
  · -- f + s·i ≤ T ≤ rs.stop < f + (b+1)·i
    have h1 : (s + k) * i ≤ t := by rw [Int.add_mul, Int.mul_comm k i, ← hk]; omega
    have h2 := hkT _ h1
    rw [Int.add_mul, Int.mul_comm k i, ← hk] at h2
    have : s * i < (b + 1) * i := by omega
    have := Int.lt_of_mul_lt_mul_right this (by omega)
    omega

/-! ### broker row grouping -/

theorem mem_insertAsc {x a : Int} {l : List Int} : x ∈ insertAsc a l ↔ x = a ∨ x ∈ l := by
  induction l with
  | nil => simp [insertAsc]
  | cons y r ih =>
    simp only [insertAsc]
    split
    · simp
    · simp only [List.mem_cons, ih]
      constructor
      · rintro (h | h | h) <;> simp [h]
      · rintro (h | h | h) <;> simp [h]

theorem insertAsc_perm (a : Int) (l : List Int) : (insertAsc a l).Perm (a :: l) := by
  induction l with
  | nil => simp [insertAsc]
  | cons y r ih =>
    simp only [insertAsc]
    split
    · exact List.Perm.refl _
    · exact ((List.Perm.cons y ih).trans (List.Perm.swap a y r))

theorem sortAsc_perm (l : List Int) : (sortAsc l).Perm l := by
  induction l with
  | nil => simp [sortAsc]
  | cons y r ih =>
    have : sortAsc (y :: r) = insertAsc y (sortAsc r) := rfl
    rw [this]
    exact (insertAsc_perm y (sortAsc r)).trans (List.Perm.cons y ih)

/-- a timestamp is inside the broker's family range of itself -/
theorem range_contains_self (c : Calc) {t : Int} (h : 0 ≤ t) :
    (timeRangeOfTimestamp c t).contains t = true := by
  have := family_contains c h
  rw [contains_iff]; simp only [timeRangeOfTimestamp_eq]
  omega

theorem range_contains_family (c : Calc) {t t' : Int} (h : 0 ≤ t)
    (hc : (timeRangeOfTimestamp c t).contains t' = true) : calcFamilyTime c t' = calcFamilyTime c t := by
  rw [contains_iff] at hc; simp only [timeRangeOfTimestamp_eq] at hc
  exact family_idempotent c h hc.1 hc.2

theorem groupSorted_sound (c : Calc) : ∀ (fuel : Nat) (l : List Int), (∀ t ∈ l, 0 ≤ t) →
    ∀ g ∈ groupSorted c fuel l, ∀ t ∈ g.2, calcFamilyTime c t = g.1 ∧ t ∈ l := by
  intro fuel
  induction fuel with
  | zero => intro l _ g hg; simp [groupSorted] at hg
  | succ n ih =>
    intro l hl g hg
    cases l with
    | nil => simp [groupSorted] at hg
    | cons t rest =>
      simp only [groupSorted] at hg
      split at hg
      · simp at hg
      · rcases List.mem_cons.1 hg with rfl | hg
        · intro x hx
          have hx' := mem_takeWhile_imp hx
          exact ⟨range_contains_family c (hl t (by simp)) hx', (List.takeWhile_sublist _).subset hx⟩
        · intro x hx
          have hd : ∀ y ∈ List.dropWhile (timeRangeOfTimestamp c t).contains (t :: rest), y ∈ t :: rest :=
            fun y hy => (List.dropWhile_sublist _).subset hy
          have := ih _ (fun y hy => hl y (hd y hy)) g hg x hx
          exact ⟨this.1, hd x this.2⟩

theorem groupSorted_perm (c : Calc) : ∀ (fuel : Nat) (l : List Int), (∀ t ∈ l, 0 ≤ t) →
    l.length ≤ fuel → ((groupSorted c fuel l).flatMap (·.2)).Perm l := by
  intro fuel
  induction fuel with
  | zero =>
    intro l _ hlen
    have : l = [] := List.eq_nil_of_length_eq_zero (by omega)
    subst this; simp [groupSorted]
  | succ n ih =>
    intro l hl hlen
    cases l with
    | nil => simp [groupSorted]
    | cons t rest =>
      have hself := range_contains_self c (hl t (by simp))
      have htw : List.takeWhile (timeRangeOfTimestamp c t).contains (t :: rest)
          = t :: List.takeWhile (timeRangeOfTimestamp c t).contains rest := by
        simp [hself]
      have hdw : List.dropWhile (timeRangeOfTimestamp c t).contains (t :: rest)
          = List.dropWhile (timeRangeOfTimestamp c t).contains rest := by
        simp [hself]
      simp only [groupSorted, htw, hdw, List.isEmpty_cons, Bool.false_eq_true, if_false,
        List.flatMap_cons]
      have hsub : ∀ y ∈ List.dropWhile (timeRangeOfTimestamp c t).contains rest, y ∈ t :: rest :=
        fun y hy => List.mem_cons_of_mem _ ((List.dropWhile_sublist _).subset hy)
      have hl2 : (List.dropWhile (timeRangeOfTimestamp c t).contains rest).length ≤ n := by
        have := (List.dropWhile_sublist (timeRangeOfTimestamp c t).contains (l := rest)).length_le
        simp only [List.length_cons] at hlen; omega
      have p := ih _ (fun y hy => hl y (hsub y hy)) hl2
      have e : t :: rest = (t :: List.takeWhile (timeRangeOfTimestamp c t).contains rest) ++
          List.dropWhile (timeRangeOfTimestamp c t).contains rest := by
        simp [List.takeWhile_append_dropWhile]
      rw [e]
      exact List.Perm.append_left _ p

/-! ### nested families and the rollup relation -/

/-- `c₁` is not coarser than `c₂`: hour families ⊆ day families ⊆ month families -/
def finerEq : Calc → Calc → Bool
  | .day, _ => true
  | .month, .day => false
  | .month, _ => true
  | .year, .year => true
  | .year, _ => false

/-- a family of a finer calculator lies inside one family of a coarser one -/
theorem family_nested (c1 c2 : Calc) (hc : finerEq c1 c2 = true) {t t' : Int} (h : 0 ≤ t)
    (h1 : calcFamilyTime c1 t ≤ t') (h2 : t' ≤ calcFamilyEndTime c1 (calcFamilyTime c1 t)) :
    calcFamilyTime c2 t' = calcFamilyTime c2 t := by
  have h' : 0 ≤ t' := Int.le_trans (familyTime_nonneg c1 h) h1
  cases c1 <;> cases c2 <;> simp [finerEq] at hc
  · exact family_idempotent _ h h1 h2
  · rw [day_familyTime h] at h1 h2; simp only [calcFamilyEndTime, oneHour_val] at h2
    rw [month_familyTime h, month_familyTime h']; omega
  · rw [day_familyTime h] at h1 h2; simp only [calcFamilyEndTime, oneHour_val] at h2
    rw [year_familyTime h, year_familyTime h']
    have e : t' / 86400000 = t / 86400000 := by omega
    rw [e]
  · exact family_idempotent _ h h1 h2
  · rw [month_familyTime h] at h1 h2; rw [month_familyEnd] at h2
    rw [year_familyTime h, year_familyTime h']
    have e : t' / 86400000 = t / 86400000 := by omega
    rw [e]
  · exact family_idempotent _ h h1 h2

end LinVerif.Lemmas.C13
