/-
C13 (round 12) — a zone given by TWO daylight-saving transitions (the transition-list zone model
`Zone.ofTransitions off0 [(a₁,o₁),(a₂,o₂)]` that the harness's DST pass diffs against Go's `time`
package on the tz database, one year = two transitions) satisfies the local-midnight contract `ZoneOK`,
provided each transition happens strictly inside one local day on both clocks (not at local midnight)
and the two transitions are not in the same or neighbouring local days.  With whole-hour offset
changes the zone is `HourAligned` as well.  Instances: America/New_York 2024 and 1987 (tz database
values as they appear in the diffed `zallt` ops).
-/
import LinVerif.Lemmas.C13ZoneContract
import LinVerif.Model.C13DstZones

namespace LinVerif.Lemmas.C13
open LinVerif.Calendar LinVerif.Interval

/-- the two-transition zone of the DST pass -/
abbrev zone2 (off0 a1 o1 a2 o2 : Int) : Zone := Zone.ofTransitions off0 [(a1, o1), (a2, o2)]

/-- offset in force at a UTC second -/
def offAt2 (off0 a1 o1 a2 o2 s : Int) : Int := if a2 ≤ s then o2 else if a1 ≤ s then o1 else off0

theorem zone2_offUTC (off0 a1 o1 a2 o2 s : Int) :
    (zone2 off0 a1 o1 a2 o2).offUTC s = offAt2 off0 a1 o1 a2 o2 s := rfl

/-- `time.Date`'s two-step resolution, in closed form, when `a₁ < a₂` -/
theorem zone2_offLocal (off0 a1 o1 a2 o2 : Int) (h12 : a1 < a2) (w : Int) :
    (zone2 off0 a1 o1 a2 o2).offLocal w =
      (let o := offAt2 off0 a1 o1 a2 o2 w
       let u := w - o
       if (a1 ≤ u ↔ a1 ≤ w) ∧ (a2 ≤ u ↔ a2 ≤ w) then o
       else offAt2 off0 a1 o1 a2 o2 u) := by
  show (let o1' := offAt2 off0 a1 o1 a2 o2 w
        let u := w - o1'
        if ([(a1, o1), (a2, o2)].filter (fun p => decide (p.1 ≤ u))).length
            = ([(a1, o1), (a2, o2)].filter (fun p => decide (p.1 ≤ w))).length then o1'
        else offAt2 off0 a1 o1 a2 o2 u) = _
  simp only [List.filter]
  by_cases h1 : a1 ≤ w - offAt2 off0 a1 o1 a2 o2 w <;> by_cases h2 : a2 ≤ w - offAt2 off0 a1 o1 a2 o2 w <;>
    by_cases h3 : a1 ≤ w <;> by_cases h4 : a2 ≤ w <;> simp [h1, h2, h3, h4] <;> omega

/-- margins of a two-transition zone: offsets below one day, each transition strictly inside one local
day (`d₁`, `d₂`) on the clock before and on the clock after it, in local days that are not neighbours -/
structure Dst2Margins (off0 a1 o1 a2 o2 d1 d2 : Int) : Prop where
  b0 : -86400 < off0 ∧ off0 < 86400
  b1 : -86400 < o1 ∧ o1 < 86400
  b2 : -86400 < o2 ∧ o2 < 86400
  m1 : d1 * 86400 < a1 + off0 ∧ d1 * 86400 < a1 + o1 ∧ a1 + off0 < (d1 + 1) * 86400 ∧ a1 + o1 < (d1 + 1) * 86400
  m2 : d2 * 86400 < a2 + o1 ∧ d2 * 86400 < a2 + o2 ∧ a2 + o1 < (d2 + 1) * 86400 ∧ a2 + o2 < (d2 + 1) * 86400
  days : d1 + 1 < d2

/-- the offset `time.Date` resolves for the local midnight of wall-clock day `n`: the one in force on
that local day's morning -/
theorem zone2_midnight_offset {off0 a1 o1 a2 o2 d1 d2 : Int} (h : Dst2Margins off0 a1 o1 a2 o2 d1 d2)
    (n : Int) :
    (zone2 off0 a1 o1 a2 o2).offLocal (n * 86400) = if n ≤ d1 then off0 else if n ≤ d2 then o1 else o2 := by
  obtain ⟨b0, b1, b2, m1, m2, hd⟩ := h
  have h12 : a1 < a2 := by omega
  rw [zone2_offLocal off0 a1 o1 a2 o2 h12]
  simp only [offAt2]
  split_ifs <;> omega

theorem zone2_ok {off0 a1 o1 a2 o2 d1 d2 : Int} (h : Dst2Margins off0 a1 o1 a2 o2 d1 d2) :
    ZoneOK (zone2 off0 a1 o1 a2 o2) := by
  have L := zone2_midnight_offset h
  obtain ⟨b0, b1, b2, m1, m2, hd⟩ := h
  refine ⟨?_, ?_, ?_⟩
  · intro n
    simp only [midnightOf, L]
    split_ifs <;> omega
  · intro t h0
    simp only [midnightOf, localDay, L, zone2_offUTC, offAt2]
    rw [Int.tdiv_eq_ediv_of_nonneg h0]
    split_ifs <;> omega
  · intro n
    simp only [midnightOf, localDay, L, zone2_offUTC, offAt2]
    rw [Int.mul_tdiv_cancel _ (by decide)]
    split_ifs <;> omega

theorem zone2_hour_aligned {off0 a1 o1 a2 o2 d1 d2 : Int} (h : Dst2Margins off0 a1 o1 a2 o2 d1 d2)
    (h1 : (o1 - off0) % 3600 = 0) (h2 : (o2 - o1) % 3600 = 0) :
    HourAligned (zone2 off0 a1 o1 a2 o2) := by
  intro n
  simp only [midnightOf, zone2_midnight_offset h]
  split_ifs <;> omega

theorem margins_of_check (p : Dst2) (h : p.marginsOk = true) :
    Dst2Margins p.off0 p.a1 p.o1 p.a2 p.o2 p.d1 p.d2 := by
  simp only [Dst2.marginsOk, Bool.and_eq_true, decide_eq_true_eq] at h
  obtain ⟨⟨⟨⟨⟨b0, b1⟩, b2⟩, m1⟩, m2⟩, hd⟩ := h
  exact ⟨b0, b1, b2, m1, m2, hd⟩

theorem dst2_zone_ok (p : Dst2) (h : p.marginsOk = true) : ZoneOK p.zone :=
  zone2_ok (margins_of_check p h)

theorem dst2_zone_hour_aligned (p : Dst2) (h : p.marginsOk = true) (hw : p.wholeHours = true) :
    HourAligned p.zone := by
  simp only [Dst2.wholeHours, Bool.and_eq_true, decide_eq_true_eq] at hw
  exact zone2_hour_aligned (margins_of_check p h) hw.1 hw.2

end LinVerif.Lemmas.C13
