import LinVerif.Model.C11Iter

/-! Lemmas for `Model/C11Iter.lean` (round 12): `Grouping()`'s table and the loop of
`IterateLowSeriesIDs`. -/
namespace LinVerif.Lemmas.C11Iter
open LinVerif.Model.C11Iter

theorem fillTable_length (min : Nat) : ∀ (q t : List Nat), (fillTable min q t).length = t.length
  | [], t => rfl
  | id :: rest, t => by
    simp only [fillTable]
    rw [fillTable_length min rest]; simp

/-- after the loop of `Grouping()` cell `i` holds `min + i` when the container holds it, and is
untouched otherwise. -/
theorem fillTable_get (min : Nat) : ∀ (q t : List Nat) (i : Nat), (∀ id ∈ q, min ≤ id) → i < t.length →
    (fillTable min q t)[i]? = if min + i ∈ q then some (min + i) else t[i]?
  | [], t, i, _, _ => by simp [fillTable]
  | id :: rest, t, i, hq, hi => by
    have hrest : ∀ x ∈ rest, min ≤ x := fun x hx => hq x (List.mem_cons_of_mem _ hx)
    have hid : min ≤ id := hq id (List.mem_cons_self ..)
    simp only [fillTable]
    rw [fillTable_get min rest (t.set (id - min) id) i hrest (by simpa using hi)]
    by_cases h1 : min + i ∈ rest
    · simp [h1]
    · simp only [h1, if_false, List.mem_cons, or_false]
      rw [List.getElem?_set]
      by_cases h2 : id - min = i
      · have : min + i = id := by omega
        simp [h2, this, hi]
      · have : ¬ (min + i = id) := by omega
        simp [h2, this]

theorem selectedAt_none (q : List Nat) (min : Nat) :
    ∀ (st : List Nat) (idx : Nat), (∀ s ∈ st, s ∉ q) → selectedAt q min st idx = []
  | [], _, _ => rfl
  | s :: rest, idx, h => by
    have hs : s ∉ q := h s (List.mem_cons_self ..)
    simp only [selectedAt, hs, if_false]
    exact selectedAt_none q min rest (idx + 1) (fun x hx => h x (List.mem_cons_of_mem _ hx))

/-- the loop against the reference, for any context that answers membership on `[min, max]`. -/
theorem iterLoop_eq_selectedAt (c : QCtx) (q : List Nat)
    (hb : ∀ s ∈ q, c.min ≤ s ∧ s ≤ c.max)
    (ht : ∀ s, c.min ≤ s → s ≤ c.max → (c.table[s - c.min]? = some s ↔ s ∈ q)) :
    ∀ (st : List Nat) (idx : Nat), st.Pairwise (· < ·) → iterLoop c st idx = selectedAt q c.min st idx
  | [], _, _ => rfl
  | s :: rest, idx, hst => by
    have hrest : rest.Pairwise (· < ·) := (List.pairwise_cons.mp hst).2
    have hlt : ∀ x ∈ rest, s < x := (List.pairwise_cons.mp hst).1
    simp only [iterLoop]
    by_cases h1 : s > c.max
    · -- break: nothing at or after `s` is selected
      simp only [h1, if_true]
      symm
      apply selectedAt_none
      intro x hx hxq
      have := hb x hxq
      rcases List.mem_cons.mp hx with rfl | hx'
      · omega
      · have := hlt x hx'; omega
    · simp only [h1, if_false]
      by_cases h2 : s < c.min
      · have hs : s ∉ q := fun hq => by have := hb s hq; omega
        simp only [h2, if_true, selectedAt, hs, if_false]
        exact iterLoop_eq_selectedAt c q hb ht rest (idx + 1) hrest
      · simp only [h2, if_false]
        have := ht s (by omega) (by omega)
        by_cases h3 : s ∈ q
        · simp only [this.mpr h3, if_true, selectedAt, h3]
          rw [iterLoop_eq_selectedAt c q hb ht rest (idx + 1) hrest]
        · have h4 : ¬ (c.table[s - c.min]? = some s) := fun h => h3 (this.mp h)
          simp only [h4, if_false, selectedAt, h3]
          exact iterLoop_eq_selectedAt c q hb ht rest (idx + 1) hrest

theorem selectedAt_mem (q : List Nat) (min : Nat) :
    ∀ (st : List Nat) (idx qi si : Nat),
      (qi, si) ∈ selectedAt q min st idx ↔ ∃ s, idx ≤ si ∧ st[si - idx]? = some s ∧ s ∈ q ∧ qi = s - min
  | [], idx, qi, si => by simp [selectedAt]
  | s :: rest, idx, qi, si => by
    have ih := selectedAt_mem q min rest (idx + 1) qi si
    constructor
    · intro h
      simp only [selectedAt] at h
      by_cases hs : s ∈ q
      · simp only [hs, if_true, List.mem_cons] at h
        rcases h with h | h
        · have h1 : qi = s - min := (Prod.mk.inj h).1
          have h2 : si = idx := (Prod.mk.inj h).2
          exact ⟨s, by omega, by simp [h2], hs, h1⟩
        · obtain ⟨x, h1, h2, h3, h4⟩ := ih.mp h
          refine ⟨x, by omega, ?_, h3, h4⟩
          have : si - idx = (si - (idx + 1)) + 1 := by omega
          rw [this]; simpa using h2
      · simp only [hs, if_false] at h
        obtain ⟨x, h1, h2, h3, h4⟩ := ih.mp h
        refine ⟨x, by omega, ?_, h3, h4⟩
        have : si - idx = (si - (idx + 1)) + 1 := by omega
        rw [this]; simpa using h2
    · rintro ⟨x, h1, h2, h3, h4⟩
      simp only [selectedAt]
      by_cases h0 : si = idx
      · have hx : x = s := by
          have : si - idx = 0 := by omega
          rw [this] at h2; simpa using h2.symm
        subst hx
        simp [h3, h4, h0]
      · have hsi : si - idx = (si - (idx + 1)) + 1 := by omega
        have h2' : rest[si - (idx + 1)]? = some x := by rw [hsi] at h2; simpa using h2
        have : (qi, si) ∈ selectedAt q min rest (idx + 1) := ih.mpr ⟨x, by omega, h2', h3, h4⟩
        by_cases hs : s ∈ q
        · simp only [hs, if_true, List.mem_cons]; exact Or.inr this
        · simp only [hs, if_false]; exact this

theorem head_le_of_pairwise : ∀ (q : List Nat), q.Pairwise (· < ·) → ∀ s ∈ q, q.head?.getD 0 ≤ s
  | [], _, s, hs => by simp at hs
  | a :: rest, h, s, hs => by
    simp only [List.head?_cons, Option.getD_some]
    rcases List.mem_cons.mp hs with rfl | h'
    · exact Nat.le_refl _
    · exact Nat.le_of_lt ((List.pairwise_cons.mp h).1 s h')

theorem le_getLast_of_pairwise : ∀ (q : List Nat), q.Pairwise (· < ·) → ∀ s ∈ q, s ≤ q.getLast?.getD 0
  | [], _, s, hs => by simp at hs
  | [a], _, s, hs => by simp at hs; simp [hs]
  | a :: b :: rest, h, s, hs => by
    have hr : (b :: rest).Pairwise (· < ·) := (List.pairwise_cons.mp h).2
    have ih := le_getLast_of_pairwise (b :: rest) hr
    have hl : (a :: b :: rest).getLast?.getD 0 = (b :: rest).getLast?.getD 0 := by
      simp [List.getLast?_cons_cons]
    rw [hl]
    rcases List.mem_cons.mp hs with rfl | h'
    · have h1 : s < b := (List.pairwise_cons.mp h).1 b (List.mem_cons_self ..)
      have h2 := ih b (List.mem_cons_self ..)
      omega
    · exact ih s h'

/-- what `Grouping()` establishes, for every non-empty ascending query container. -/
theorem grouping_spec (q : List Nat) (hne : q ≠ []) (hq : q.Pairwise (· < ·)) :
    (∀ s ∈ q, (grouping q).min ≤ s ∧ s ≤ (grouping q).max) ∧
    (∀ s, (grouping q).min ≤ s → s ≤ (grouping q).max →
      ((grouping q).table[s - (grouping q).min]? = some s ↔ s ∈ q)) := by
  have hmin := head_le_of_pairwise q hq
  have hmax := le_getLast_of_pairwise q hq
  refine ⟨fun s hs => ⟨hmin s hs, hmax s hs⟩, ?_⟩
  intro s h1 h2
  simp only [grouping] at h1 h2 ⊢
  rw [fillTable_get _ q _ (s - q.head?.getD 0) hmin (by simp; omega)]
  have e : q.head?.getD 0 + (s - q.head?.getD 0) = s := by omega
  rw [e]
  by_cases hs : s ∈ q
  · simp [hs]
  · simp only [hs, if_false, iff_false]
    rw [List.getElem?_replicate]
    have hlen : s - q.head?.getD 0 < q.getLast?.getD 0 - q.head?.getD 0 + 1 := by omega
    simp only [hlen, if_true]
    intro h0
    have hs0 : s = 0 := (Option.some.inj h0).symm
    have hm0 : q.head?.getD 0 = 0 := by omega
    apply hs
    cases q with
    | nil => exact absurd rfl hne
    | cons a rest =>
      simp only [List.head?_cons, Option.getD_some] at hm0
      rw [hs0, ← hm0]; exact List.mem_cons_self ..

end LinVerif.Lemmas.C11Iter
