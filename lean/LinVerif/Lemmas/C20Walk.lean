/-
C20 helper lemmas, cursor walks: any mix of `Next` and `Prev` of the iterator stack machine over
the vectors moves an index through the sorted pairs. The zipper of frames is shown to split the
in-order list around the current leaf (`chain_span`): what `Prev` would still enumerate, reversed,
then the current pair, then what `Next` would still enumerate.
-/
import LinVerif.Lemmas.C20PrevMachine

set_option linter.unusedSimpArgs false
set_option linter.unusedVariables false

namespace LinVerif.Lemmas.C20
open LinVerif.TrieTree LinVerif.Louds LinVerif.LoudsIter

theorem items_inj : ∀ (a b : Entries), items a = items b → a = b
  | .nil, .nil, _ => rfl
  | .nil, .leaf .., h => by simp [items] at h
  | .nil, .child .., h => by simp [items] at h
  | .leaf .., .nil, h => by simp [items] at h
  | .child .., .nil, h => by simp [items] at h
  | .leaf l s v r, .leaf l' s' v' r', h => by
    simp only [items, List.cons.injEq, Item.leaf.injEq] at h
    obtain ⟨⟨rfl, rfl, rfl⟩, h2⟩ := h
    rw [items_inj r r' h2]
  | .leaf l s v r, .child l' c' r', h => by simp [items] at h
  | .child l c r, .leaf l' s' v' r', h => by simp [items] at h
  | .child l c r, .child l' c' r', h => by
    simp only [items, List.cons.injEq, Item.child.injEq] at h
    obtain ⟨⟨rfl, rfl⟩, h2⟩ := h
    rw [items_inj r r' h2]

/-- the pairs below the current item of a frame -/
def curKVs (fr : Frame) : List KV :=
  match fr.cur with
  | .leaf _ _ _ => [fr.kv]
  | .child l c => iterNode (fr.kb ++ [l]) c

/-- a frame splits the pairs of its node around the current item -/
theorem frame_split (fr : Frame) (hok : items fr.node.entries = fr.before ++ fr.cur :: items fr.after) :
    iterEntries fr.kb fr.node.entries =
      fr.before.flatMap (kvInner fr.kb) ++ curKVs fr ++ iterEntries fr.kb fr.after := by
  have hlen : fr.before.length < fr.node.entries.length := by
    rw [← items_length, hok]; simp
  have hidx : (items fr.node.entries)[fr.before.length]? = some fr.cur := by
    rw [hok]; simp
  have htake : (items fr.node.entries).take fr.before.length = fr.before := by
    rw [hok]; simp
  have hafter : dropE (fr.before.length + 1) fr.node.entries = fr.after := by
    apply items_inj
    rw [items_dropE, hok]
    simp
  rw [iterEntries_take_inner fr.kb fr.node.entries fr.before.length hlen, htake,
    iterEntries_dropE_cons fr.node.entries fr.before.length fr.cur fr.kb hidx, hafter]
  unfold curKVs Frame.kv
  cases fr.cur <;> simp

/-- **the zipper splits the in-order list around the current item** -/
theorem chain_span {t : Node} : ∀ (below : List Frame) (fr : Frame), Chain t (fr :: below) →
    (remBefore (fr :: below)).reverse ++ curKVs fr ++ remAfter (fr :: below) = iterNode [] t
  | [], fr, hc => by
    obtain ⟨hok, _, hnode, hkb⟩ := hc
    have hs := frame_split fr hok.2
    rw [iterNode_eq, ← hnode, List.nil_append, ← hkb, hs]
    simp [remBefore, remAfter]
  | p :: below, fr, hc => by
    obtain ⟨hok, ⟨l, hcur, hkb⟩, _, hrest⟩ := hc
    have ih := chain_span below p hrest
    have hs := frame_split fr hok.2
    have hp : curKVs p = iterEntries fr.kb fr.node.entries := by
      unfold curKVs
      rw [hcur]
      simp only []
      rw [iterNode_eq, hkb]
    rw [← ih, hp, hs]
    simp [remBefore, remAfter, List.append_assoc]

/-- for a valid iterator: before (reversed) ++ current pair ++ after = the sorted pairs -/
theorem rep_span {t : Node} {it : It} {top : Frame} {below : List Frame} (hr : Rep t it top below) :
    (remBefore (top :: below)).reverse ++ top.kv :: remAfter (top :: below) = iter t := by
  have h := chain_span below top hr.part.chain
  obtain ⟨l, s, v, hcur, _⟩ := hr.leaf
  have hk : curKVs top = [top.kv] := by unfold curKVs; rw [hcur]
  rw [hk] at h
  unfold iter
  rw [← h]; simp

theorem split_index {α} (a b : List α) (x : α) : (a ++ x :: b)[a.length]? = some x := by simp

/-- the cursor index of a machine state: `none` for an invalid iterator -/
inductive At (t : Node) (it : It) : Option Nat → Prop
  | invalid : it.valid = false → At t it none
  | at (top : Frame) (below : List Frame) : Rep t it top below →
      At t it (some (remBefore (top :: below)).length)

theorem at_obs {t : Node} {it : It} {c : Option Nat} (h : At t it c) :
    obs (encode t) it = cursorObs (iter t) c := by
  cases h with
  | invalid hv => simp [obs, hv, cursorObs]
  | «at» top below hr =>
    have hs := rep_span hr
    have hkv := kv_spec hr
    simp only [obs, hr.valid, if_true, cursorObs]
    rw [hkv, ← hs]
    have := split_index (remBefore (top :: below)).reverse (remAfter (top :: below)) top.kv
    simpa using this.symm

theorem at_lt {t : Node} {it : It} {top : Frame} {below : List Frame} (hr : Rep t it top below) :
    (remBefore (top :: below)).length + 1 + (remAfter (top :: below)).length = (iter t).length := by
  rw [← rep_span hr]; simp; omega

/-- `Next` moves the cursor index one to the right (or invalidates it at the end) -/
theorem at_next {t : Node} (hwf : WFNode t) {it : It} {c : Option Nat} (h : At t it c) :
    At t (next (encode t) it) (cursorMove (iter t).length c .next) := by
  cases h with
  | invalid hv =>
    have : next (encode t) it = it := by simp [next, hv]
    rw [this]; exact .invalid hv
  | «at» top below hr =>
    have hz := zNext_spec t (top :: below) (chain_after_wf hwf hr.part.chain)
    have hn := next_spec hwf hr
    have hlen := at_lt hr
    cases hzn : zNext t (top :: below) with
    | none =>
      rw [hzn] at hz hn
      simp only at hz hn
      rw [hz] at hlen
      have : ¬ ((remBefore (top :: below)).length + 1 < (iter t).length) := by simp at hlen; omega
      simp only [cursorMove, this, if_false]
      exact .invalid hn
    | some frames' =>
      rw [hzn] at hz hn
      simp only at hz hn
      obtain ⟨top', rest', h1, h2⟩ := hn
      obtain ⟨top'', rest'', h3, _, h4⟩ := hz
      rw [h1] at h3; cases h3
      have hlen' := at_lt h2
      rw [h4, h1] at hlen
      simp only [List.length_cons] at hlen
      have hlt : (remBefore (top :: below)).length + 1 < (iter t).length := by omega
      have heq : (remBefore (top' :: rest')).length = (remBefore (top :: below)).length + 1 := by omega
      simp only [cursorMove, hlt, if_true]
      rw [← heq]
      exact .at top' rest' h2

/-- `Prev` moves the cursor index one to the left (or invalidates it at the start) -/
theorem at_prev {t : Node} (hwf : WFNode t) {it : It} {c : Option Nat} (h : At t it c) :
    At t (prev (encode t) it) (cursorMove (iter t).length c .prev) := by
  cases h with
  | invalid hv =>
    have : prev (encode t) it = it := by simp [prev, hv]
    rw [this]; exact .invalid hv
  | «at» top below hr =>
    have hz := zPrev_spec t (top :: below) (chain_before_wf hwf hr.part.chain)
    have hn := prev_spec hwf hr
    cases hzn : zPrev t (top :: below) with
    | none =>
      rw [hzn] at hz hn
      simp only at hz hn
      rw [hz]
      simp only [cursorMove, List.length_nil, if_true]
      exact .invalid hn
    | some frames' =>
      rw [hzn] at hz hn
      simp only at hz hn
      obtain ⟨top', rest', h1, h2⟩ := hn
      obtain ⟨top'', rest'', h3, h4⟩ := hz
      rw [h1] at h3; cases h3
      rw [h4, h1]
      simp only [cursorMove, List.length_cons, Nat.add_one_ne_zero, if_false, Nat.add_sub_cancel]
      exact .at top' rest' h2

theorem at_move {t : Node} (hwf : WFNode t) {it : It} {c : Option Nat} (h : At t it c) (m : Mv) :
    At t (move (encode t) it m) (cursorMove (iter t).length c m) := by
  cases m with
  | next => exact at_next hwf h
  | prev => exact at_prev hwf h

/-- **any script of `Next` / `Prev` moves observes what the index cursor observes** -/
theorem walk_spec {t : Node} (hwf : WFNode t) : ∀ (ms : List Mv) (it : It) (c : Option Nat), At t it c →
    walk (encode t) it ms = cursorWalk (iter t) c ms
  | [], _, _, _ => rfl
  | m :: r, it, c, h => by
    have hm := at_move hwf h m
    simp only [walk, cursorWalk]
    rw [at_obs hm, walk_spec hwf r _ _ hm]

/-- nothing is before the leftmost position below a node -/
theorem remBefore_leftmost (t : Node) : ∀ (c : Node) (n : Nat) (base : Key), remBefore (leftmost t c n base) = []
  | .mk pfx .nil, _, _ => by simp [leftmost, remBefore]
  | .mk pfx (.leaf l s v r), _, _ => by simp [leftmost, remBefore]
  | .mk pfx (.child l c r), n, base => by
    simp only [leftmost, remBefore_append, remBefore, List.flatMap_nil, List.reverse_nil, List.append_nil]
    exact remBefore_leftmost t c _ _

/-- `SeekToFirst` stands on index 0 -/
theorem at_first {t : Node} (hwf : WFNode t) : At t (seekToFirst (encode t)) (some 0) := by
  obtain ⟨top, rest, h1, h2⟩ := seekToFirst_spec hwf
  have hb := remBefore_leftmost t t 0 []
  have := At.at top rest h2
  rw [← h1, hb] at this
  exact this

/-- `SeekToLast` stands on the last index -/
theorem at_last {t : Node} (hwf : WFNode t) : At t (seekToLast (encode t)) (some ((iter t).length - 1)) := by
  obtain ⟨top, rest, h1, h2⟩ := seekToLast_spec hwf
  have hH : t.height ≤ (encode t).height + 1 := by have := encode_height_ge t; omega
  obtain ⟨top', rest', h3, h4⟩ := rightmost_before_spec t ((encode t).height + 1) t 0 [] hwf hH
  rw [← h2] at h3 h4
  cases h3
  have := At.at top rest h1
  have hl : (iter t).length - 1 = (remBefore (top :: rest)).length := by
    have := congrArg List.length h4
    unfold iter
    simp only [List.length_reverse, List.length_cons] at this
    omega
  rw [hl]; exact this

/-- forward enumeration from a cursor position = the sorted pairs from that index on -/
theorem at_collect {t : Node} (hwf : WFNode t) {it : It} {c : Option Nat} (h : At t it c) :
    collect (encode t) (next (encode t)) ((encode t).values.length + 1) it =
      cursorRest (iter t) c := by
  cases h with
  | invalid hv => exact collect_invalid _ _ _ _ hv
  | «at» top below hr =>
    have hlen := at_lt hr
    have hvl := values_length_eq t
    unfold iter at hlen
    rw [collect_spec hwf _ _ top below hr (by omega)]
    simp only [cursorRest]
    rw [← rep_span hr]
    have : (remBefore (top :: below)).length = ((remBefore (top :: below)).reverse).length := by simp
    rw [this, List.drop_left]

/-- `Seek(k)` leaves the machine on a cursor position (or invalid), both source variants -/
theorem at_seek {t : Node} (hwf : WFNode t) (step : Bool) (k : Key) :
    ∃ c, At t (LoudsIter.seek step (encode t) k).1 c := by
  obtain ⟨top, rest, h1, _, _⟩ := seek_raw_spec hwf k
  have hraw : LoudsIter.seek step (encode t) k =
      ((if step && (LoudsIter.seek false (encode t) k).1.valid &&
            keyLt (key (encode t) (LoudsIter.seek false (encode t) k).1) k
        then next (encode t) (LoudsIter.seek false (encode t) k).1
        else (LoudsIter.seek false (encode t) k).1), (LoudsIter.seek false (encode t) k).2) := by
    unfold LoudsIter.seek
    by_cases hz : ((encode t).height == 0) = true
    · simp [hz, reset, init]
    · simp [hz]
  have h0 := At.at top rest h1
  rw [hraw]
  simp only []
  split
  · exact ⟨_, at_next hwf h0⟩
  · exact ⟨_, h0⟩

/-- the cursor after a script -/
def cursorAfter (n : Nat) (c : Option Nat) : List Mv → Option Nat
  | [] => c
  | m :: r => cursorAfter n (cursorMove n c m) r

theorem cursorWalk_append (kvs : List KV) : ∀ (a b : List Mv) (c : Option Nat),
    cursorWalk kvs c (a ++ b) = cursorWalk kvs c a ++ cursorWalk kvs (cursorAfter kvs.length c a) b
  | [], _, _ => rfl
  | m :: r, b, c => by simp [cursorWalk, cursorAfter, cursorWalk_append kvs r b]

theorem cursorMove_lt (n : Nat) (c : Option Nat) (m : Mv) (hc : ∀ j, c = some j → j < n) :
    ∀ i, cursorMove n c m = some i → i < n := by
  intro i hi
  cases c with
  | none => simp [cursorMove] at hi
  | some j =>
    have := hc j rfl
    cases m with
    | next =>
      simp only [cursorMove] at hi
      split at hi
      · cases hi; assumption
      · cases hi
    | prev =>
      simp only [cursorMove] at hi
      split at hi
      · cases hi
      · cases hi; omega

/-- a cursor started inside the list never stands beyond the last pair -/
theorem cursorAfter_lt (n : Nat) : ∀ (ms : List Mv) (j i : Nat), j < n →
    cursorAfter n (some j) ms = some i → n ≤ i → False := by
  have gen : ∀ (ms : List Mv) (c : Option Nat), (∀ j, c = some j → j < n) →
      ∀ i, cursorAfter n c ms = some i → i < n := by
    intro ms
    induction ms with
    | nil => intro c hc i hi; exact hc i hi
    | cons m r ih =>
      intro c hc i hi
      exact ih _ (cursorMove_lt n c m hc) i hi
  intro ms j i hj hi hle
  have := gen ms (some j) (fun j' e => by cases e; exact hj) i hi
  omega

end LinVerif.Lemmas.C20
