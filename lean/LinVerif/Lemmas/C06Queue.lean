/-
C06 helper lemmas, part 1: the invariant of the underlying queue (positions, index entries,
page files) and its preservation by Put / SetAcknowledgedSeq / GC / reopen.
-/
import LinVerif.Lemmas.C06Map

set_option linter.unusedSimpArgs false
set_option linter.unusedVariables false

namespace LinVerif.FanOut
open LinVerif.Map

/-- What holds of the queue in every history without an explicit reset. `ent` / `mono` speak about
the sequences from the acknowledged one upwards: those are the entries GC and Get read. -/
structure QInv (q : Queue) : Prop where
  mApp : q.mAppended = q.appended
  mAck : q.mAck = q.ack
  ackLo : -1 ≤ q.ack
  ackLe : q.ack ≤ q.appended
  curD : q.curData ∈ q.dataPages
  curI : q.curIndex ∈ q.indexPages
  curIEq : 0 ≤ q.appended → q.curIndex = ipOf q.appended
  ent : ∀ m, 0 ≤ m → q.ack ≤ m → m ≤ q.appended →
    ∃ e, lookup q.entries m = some e ∧ e.page ≤ q.curData ∧ e.page ∈ q.dataPages ∧ ipOf m ∈ q.indexPages
  mono : ∀ m m' e e', 0 ≤ m → q.ack ≤ m → m ≤ m' → m' ≤ q.appended →
    lookup q.entries m = some e → lookup q.entries m' = some e' → e.page ≤ e'.page

theorem QInv.init : QInv Queue.init := by
  refine ⟨rfl, rfl, by decide, by decide, by simp [Queue.init], by simp [Queue.init], ?_, ?_, ?_⟩
  · intro h; simp [Queue.init, noSeq] at h
  · intro m h0 _ h2; simp [Queue.init, noSeq] at h2; omega
  · intro m m' e e' h0 _ h2 h3; simp [Queue.init, noSeq] at h3; omega

theorem allocPage_ge (q : Queue) (len : Nat) : q.curData ≤ q.allocPage len := by
  unfold Queue.allocPage; split <;> omega

theorem allocPages_sup (q : Queue) (len : Nat) {x : Nat} (hx : x ∈ q.dataPages) : x ∈ q.allocPages len := by
  unfold Queue.allocPages; split
  · exact mem_acquire_of_mem _ hx
  · exact hx

theorem allocPage_mem (q : Queue) (len : Nat) (h : q.curData ∈ q.dataPages) : q.allocPage len ∈ q.allocPages len := by
  unfold Queue.allocPage Queue.allocPages; split
  · exact mem_acquire_self _ _
  · exact h

theorem persistPages_sup (q : Queue) (seq : Int) {x : Nat} (hx : x ∈ q.indexPages) : x ∈ q.persistPages seq := by
  unfold Queue.persistPages; split
  · exact mem_acquire_of_mem _ hx
  · exact hx

theorem persistPages_mem (q : Queue) (seq : Int) (h : q.curIndex ∈ q.indexPages) : ipOf seq ∈ q.persistPages seq := by
  unfold Queue.persistPages; split
  · exact mem_acquire_self _ _
  · rename_i hne
    have : ipOf seq = q.curIndex := Classical.not_not.mp hne
    rw [this]; exact h

theorem QInv.put {q : Queue} (h : QInv q) (len : Nat) : QInv (q.put len) := by
  have hseq : 0 ≤ q.appended + 1 := by have := h.ackLo; have := h.ackLe; omega
  have hcd := allocPage_ge q len
  have hcdmem := allocPage_mem q len h.curD
  have hipmem := persistPages_mem q (q.appended + 1) h.curI
  refine ⟨rfl, h.mAck, h.ackLo, ?_, hcdmem, hipmem, fun _ => rfl, ?_, ?_⟩
  · show q.ack ≤ q.appended + 1
    have := h.ackLe; omega
  · intro m h0 h1 h2
    change m ≤ q.appended + 1 at h2
    change q.ack ≤ m at h1
    show ∃ e, lookup ((q.appended + 1, _) :: q.entries) m = some e ∧ e.page ≤ q.allocPage len ∧
      e.page ∈ q.allocPages len ∧ ipOf m ∈ q.persistPages (q.appended + 1)
    by_cases hm : q.appended + 1 = m
    · subst hm
      exact ⟨{ page := q.allocPage len, off := q.allocOff len, len := len }, by simp [lookup],
        Nat.le_refl _, hcdmem, hipmem⟩
    · obtain ⟨e, he, hp, hd, hi⟩ := h.ent m h0 h1 (by omega)
      exact ⟨e, by simp [lookup, hm, he], Nat.le_trans hp hcd, allocPages_sup q len hd, persistPages_sup q _ hi⟩
  · intro m m' e e' h0 h1 h2 h3 he he'
    change m' ≤ q.appended + 1 at h3
    change q.ack ≤ m at h1
    change lookup ((q.appended + 1, _) :: q.entries) m = some e at he
    change lookup ((q.appended + 1, _) :: q.entries) m' = some e' at he'
    by_cases hm' : q.appended + 1 = m'
    · by_cases hm : q.appended + 1 = m
      · simp [lookup, hm] at he
        simp [lookup, hm'] at he'
        subst he; subst he'; exact Nat.le_refl _
      · simp only [lookup, hm, ite_false] at he
        simp [lookup, hm'] at he'
        subst he'
        obtain ⟨e0, he0, hp, _, _⟩ := h.ent m h0 h1 (by omega)
        rw [he0] at he; cases he
        exact Nat.le_trans hp hcd
    · have hm : q.appended + 1 ≠ m := by omega
      simp only [lookup, hm, ite_false] at he
      simp only [lookup, hm', ite_false] at he'
      exact h.mono m m' e e' h0 h1 h2 (by omega) he he'

theorem QInv.setAck {q : Queue} (h : QInv q) (n : Int) : QInv (q.setAck n) := by
  unfold Queue.setAck
  split
  · rename_i hc
    refine ⟨h.mApp, rfl, ?_, hc.2, h.curD, h.curI, h.curIEq, ?_, ?_⟩
    · show -1 ≤ n
      have := h.ackLo; omega
    · intro m h0 h1 h2
      change n ≤ m at h1
      exact h.ent m h0 (by have := hc.1; omega) h2
    · intro m m' e e' h0 h1 h2 h3 he he'
      change n ≤ m at h1
      exact h.mono m m' e e' h0 (by have := hc.1; omega) h2 h3 he he'
  · exact h

/-- the entry GC reads is the written one -/
theorem QInv.entryOf_ack {q : Queue} (h : QInv q) (h0 : 0 ≤ q.ack) :
    ∃ e, lookup q.entries q.ack = some e ∧ q.entryOf q.ack = e ∧ e.page ≤ q.curData := by
  obtain ⟨e, he, hp, _, _⟩ := h.ent q.ack h0 (Int.le_refl _) h.ackLe
  exact ⟨e, he, by simp [Queue.entryOf, he], hp⟩

theorem QInv.gc {q : Queue} (h : QInv q) : QInv q.gc := by
  unfold Queue.gc
  split
  · exact h
  · rename_i hneg
    have h0 : 0 ≤ q.ack := by omega
    split
    · rename_i hip
      obtain ⟨e0, he0, hee, hp0⟩ := h.entryOf_ack h0
      rw [hee]
      have happ : 0 ≤ q.appended := by have := h.ackLe; omega
      refine ⟨h.mApp, h.mAck, h.ackLo, h.ackLe, ?_, ?_, h.curIEq, ?_, ?_⟩
      · simp only [List.mem_filter, decide_eq_true_eq]
        exact ⟨h.curD, hp0⟩
      · simp only [List.mem_filter, decide_eq_true_eq]
        refine ⟨h.curI, ?_⟩
        rw [h.curIEq happ]
        exact ipOf_mono h.ackLe
      · intro m hm0 h1 h2
        change q.ack ≤ m at h1
        change m ≤ q.appended at h2
        obtain ⟨e, he, hp, hd, hi⟩ := h.ent m hm0 h1 h2
        refine ⟨e, ?_, hp, ?_, ?_⟩
        · show lookup (q.entries.filter (fun e => decide (ipOf q.ack ≤ ipOf e.1))) m = some e
          rw [lookup_filter_key (fun k => decide (ipOf q.ack ≤ ipOf k))]
          simp [ipOf_mono h1, he]
        · simp only [List.mem_filter, decide_eq_true_eq]
          exact ⟨hd, h.mono q.ack m e0 e h0 (Int.le_refl _) h1 h2 he0 he⟩
        · simp only [List.mem_filter, decide_eq_true_eq]
          exact ⟨hi, ipOf_mono h1⟩
      · intro m m' e e' hm0 h1 h2 h3 he he'
        change q.ack ≤ m at h1
        change m' ≤ q.appended at h3
        change lookup (q.entries.filter (fun e => decide (ipOf q.ack ≤ ipOf e.1))) m = some e at he
        change lookup (q.entries.filter (fun e => decide (ipOf q.ack ≤ ipOf e.1))) m' = some e' at he'
        rw [lookup_filter_key (fun k => decide (ipOf q.ack ≤ ipOf k))] at he he'
        have i1 : ipOf q.ack ≤ ipOf m := ipOf_mono h1
        have i2 : ipOf q.ack ≤ ipOf m' := ipOf_mono (by omega)
        simp [i1] at he
        simp [i2] at he'
        exact h.mono m m' e e' hm0 h1 h2 h3 he he'
    · exact h

theorem QInv.reopen {q : Queue} (h : QInv q) : QInv q.reopen := by
  unfold Queue.reopen
  rw [h.mApp, h.mAck]
  split
  · rename_i hemp
    have hack : q.ack = -1 := by have := h.ackLo; have := h.ackLe; simp [noSeq] at hemp; omega
    refine ⟨rfl, rfl, h.ackLo, h.ackLe, mem_acquire_self _ _, mem_acquire_self _ _, ?_, ?_, ?_⟩
    · intro h0; change 0 ≤ q.appended at h0; simp [noSeq] at hemp; omega
    · intro m hm0 _ h2; change m ≤ q.appended at h2; simp [noSeq] at hemp; omega
    · intro m m' e e' hm0 _ h2 h3; change m' ≤ q.appended at h3; simp [noSeq] at hemp; omega
  · rename_i hne
    have happ : 0 ≤ q.appended := by
      have := h.ackLo; have := h.ackLe; simp [noSeq] at hne; omega
    obtain ⟨ea, hea, hpa, hda, hia⟩ := h.ent q.appended happ h.ackLe (Int.le_refl _)
    have hee : q.entryOf q.appended = ea := by simp [Queue.entryOf, hea]
    rw [hee]
    refine ⟨rfl, rfl, h.ackLo, h.ackLe, mem_acquire_self _ _, mem_acquire_self _ _, fun _ => rfl, ?_, ?_⟩
    · intro m hm0 h1 h2
      change q.ack ≤ m at h1
      change m ≤ q.appended at h2
      obtain ⟨e, he, hp, hd, hi⟩ := h.ent m hm0 h1 h2
      exact ⟨e, he, h.mono m q.appended e ea hm0 h1 h2 (Int.le_refl _) he hea,
        mem_acquire_of_mem _ hd, mem_acquire_of_mem _ hi⟩
    · intro m m' e e' hm0 h1 h2 h3 he he'
      exact h.mono m m' e e' hm0 h1 h2 h3 he he'

/-- clause (5), first half: everything above the queue ack is readable -/
theorem QInv.readable {q : Queue} (h : QInv q) (m : Int) (h1 : q.ack < m) (h2 : m ≤ q.appended) :
    ∃ len, q.get m = .ok len := by
  have hm0 : 0 ≤ m := by have := h.ackLo; omega
  obtain ⟨e, he, _, hd, hi⟩ := h.ent m hm0 (by omega) h2
  refine ⟨e.len, ?_⟩
  unfold Queue.get
  have hc : ¬ (m > q.appended ∨ m ≤ q.ack) := by omega
  simp [hc, hi, Queue.entryOf, he, hd]

/-- clause (5), GC step: a data page that GC removes holds no message at or above the queue ack -/
theorem QInv.gc_removes_only_acked {q : Queue} (h : QInv q) (m : Int) (e : Entry)
    (hm0 : 0 ≤ m) (h2 : m ≤ q.appended) (he : lookup q.entries m = some e)
    (hin : e.page ∈ q.dataPages) (hout : e.page ∉ q.gc.dataPages) : m < q.ack := by
  unfold Queue.gc at hout
  split at hout
  · exact absurd hin hout
  · rename_i hneg
    have h0 : 0 ≤ q.ack := by omega
    split at hout
    · obtain ⟨e0, he0, hee, _⟩ := h.entryOf_ack h0
      rw [hee] at hout
      simp only [List.mem_filter, decide_eq_true_eq, not_and] at hout
      have hlt := hout hin
      by_cases hge : q.ack ≤ m
      · exact absurd (h.mono q.ack m e0 e h0 (Int.le_refl _) hge h2 he0 he) hlt
      · omega
    · exact absurd hin hout

/-- the same for index pages -/
theorem QInv.gc_keeps_index {q : Queue} (h : QInv q) (m : Int) (h1 : q.ack ≤ m) (h0 : 0 ≤ m)
    (hin : ipOf m ∈ q.indexPages) : ipOf m ∈ q.gc.indexPages := by
  unfold Queue.gc
  split
  · exact hin
  · split
    · simp only [List.mem_filter, decide_eq_true_eq]
      exact ⟨hin, ipOf_mono h1⟩
    · exact hin

end LinVerif.FanOut
