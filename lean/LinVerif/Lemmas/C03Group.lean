/-
C03 helper lemmas: table files (key range, lookup), the key-ordered stream of the merged iterator,
the grouping loop of `doMerge`, and the split of the output over several files.
-/
import LinVerif.Model.Compact
import LinVerif.Lemmas.C03Map
import Mathlib.Data.List.Perm.Basic

set_option linter.unusedSectionVars false
set_option linter.unusedSimpArgs false
namespace LinVerif.C03
open LinVerif.Map LinVerif.MetricBlock LinVerif.Merge LinVerif.Compact

variable {V : Type} {β : Type}

/-! ### sorted key lists -/

theorem nodup_of_pairwise_lt {l : List Nat} (h : l.Pairwise (· < ·)) : l.Nodup :=
  h.imp (fun hab => Nat.ne_of_lt hab)

theorem lookup_of_mem_nodup {m : List (Nat × β)} (hn : (keys m).Nodup) {k : Nat} {v : β}
    (h : (k, v) ∈ m) : lookup m k = some v := by
  induction m with
  | nil => cases h
  | cons p t ih =>
    obtain ⟨k', v'⟩ := p
    simp only [keys_cons, List.nodup_cons] at hn
    rcases List.mem_cons.mp h with h1 | h1
    · cases h1; simp [lookup_cons]
    · have : ¬ k' = k := by
        intro e; subst e
        exact hn.1 (List.mem_map_of_mem (f := Prod.fst) h1)
      simp only [lookup_cons, this, if_false]
      exact ih hn.2 h1

/-! ### table files -/

/-- keys strictly ascending (`ensureIncreasingKey`) and inside the meta's key range -/
def FileWF (f : File V) : Prop :=
  (keys f.entries).Pairwise (· < ·) ∧ ∀ k ∈ keys f.entries, f.minKey ≤ k ∧ k ≤ f.maxKey

theorem File.get_eq_lookup {f : File V} (h : FileWF f) (m : Nat) : f.get m = lookup f.entries m := by
  unfold File.get
  by_cases c : f.minKey ≤ m ∧ m ≤ f.maxKey
  · rw [if_pos c]
  · rw [if_neg c]
    cases hl : lookup f.entries m with
    | none => rfl
    | some b => exact absurd (h.2 m (mem_keys_of_lookup hl)) c

theorem file_filter_key {f : File V} (h : FileWF f) (m : Nat) :
    (f.entries.filter (fun p => decide (p.1 = m))).map Prod.snd = (f.get m).toList := by
  rw [File.get_eq_lookup h, filter_key_eq_lookup _ (nodup_of_pairwise_lt h.1)]

theorem lastKey_ge (k : Nat) (t : List (Nat × β)) (h : (k :: keys t).Pairwise (· < ·)) :
    k ≤ lastKey k t ∧ ∀ x ∈ keys t, x ≤ lastKey k t := by
  induction t generalizing k with
  | nil => simp [lastKey, keys]
  | cons e r ih =>
    simp only [keys_cons, List.pairwise_cons, List.mem_cons] at h
    have h' : (e.1 :: keys r).Pairwise (· < ·) := by
      simp only [List.pairwise_cons]; exact h.2
    obtain ⟨a1, a2⟩ := ih e.1 h'
    simp only [lastKey, keys_cons, List.mem_cons]
    refine ⟨?_, ?_⟩
    · have := h.1 e.1 (Or.inl rfl); omega
    · intro x hx
      rcases hx with hx | hx
      · omega
      · exact a2 x hx

theorem mkFile_spec (c : List (Nat × Block V)) (hne : c ≠ []) (hs : (keys c).Pairwise (· < ·)) :
    ∃ f, mkFile c = some f ∧ f.entries = c ∧ FileWF f := by
  cases c with
  | nil => exact absurd rfl hne
  | cons e t =>
    refine ⟨_, rfl, rfl, hs, ?_⟩
    intro k hk
    simp only [keys_cons, List.pairwise_cons] at hs
    have hl := lastKey_ge e.1 t (by simp only [List.pairwise_cons]; exact hs)
    simp only [keys_cons, List.mem_cons] at hk
    rcases hk with hk | hk
    · subst hk; exact ⟨Nat.le_refl _, hl.1⟩
    · exact ⟨Nat.le_of_lt (hs.1 k hk), hl.2 k hk⟩

/-! ### `ascFilter` -/

theorem ascFilter_keys_gt (m : Nat) (l : List (Nat × β)) : ∀ k ∈ keys (ascFilter (some m) l), m < k := by
  induction l generalizing m with
  | nil => intro k hk; simp [ascFilter, keys] at hk
  | cons e t ih =>
    intro k hk
    unfold ascFilter at hk
    split at hk
    · exact ih m k hk
    · rename_i hle
      simp only [keys_cons, List.mem_cons] at hk
      rcases hk with hk | hk
      · omega
      · have := ih e.1 k hk; omega

theorem ascFilter_some_sorted (m : Nat) (l : List (Nat × β)) :
    (keys (ascFilter (some m) l)).Pairwise (· < ·) := by
  induction l generalizing m with
  | nil => simp [ascFilter, keys]
  | cons e t ih =>
    unfold ascFilter
    split
    · exact ih m
    · simp only [keys_cons, List.pairwise_cons]
      exact ⟨ascFilter_keys_gt e.1 t, ih e.1⟩

theorem ascFilter_sorted (l : List (Nat × β)) : (keys (ascFilter none l)).Pairwise (· < ·) := by
  cases l with
  | nil => simp [ascFilter, keys]
  | cons e t =>
    simp only [ascFilter, keys_cons, List.pairwise_cons]
    exact ⟨ascFilter_keys_gt e.1 t, ascFilter_some_sorted e.1 t⟩

theorem ascFilter_sublist (o : Option Nat) (l : List (Nat × β)) : (ascFilter o l).Sublist l := by
  induction l generalizing o with
  | nil => cases o <;> simp [ascFilter]
  | cons e t ih =>
    cases o with
    | none => simp only [ascFilter]; exact (ih _).cons_cons _
    | some m =>
      simp only [ascFilter]
      split
      · exact (ih _).cons _
      · exact (ih _).cons_cons _

/-! ### the key-ordered stream -/

/-- keys non-decreasing -/
def KeySorted (l : List (Nat × β)) : Prop := (keys l).Pairwise (· ≤ ·)

theorem insertByKey_perm (x : Nat × β) (l : List (Nat × β)) : (insertByKey x l).Perm (x :: l) := by
  induction l with
  | nil => exact List.Perm.refl _
  | cons y t ih =>
    unfold insertByKey
    split
    · exact List.Perm.refl _
    · exact ((List.Perm.cons y ih).trans (List.Perm.swap x y t))

theorem sortByKey_perm (l : List (Nat × β)) : (sortByKey l).Perm l := by
  induction l with
  | nil => exact List.Perm.refl _
  | cons x t ih =>
    have : sortByKey (x :: t) = insertByKey x (sortByKey t) := rfl
    rw [this]
    exact (insertByKey_perm x _).trans (List.Perm.cons x ih)

theorem mem_keys_insertByKey (x : Nat × β) (l : List (Nat × β)) (k : Nat) :
    k ∈ keys (insertByKey x l) ↔ k = x.1 ∨ k ∈ keys l := by
  have := (insertByKey_perm x l).map Prod.fst
  have h := this.mem_iff (a := k)
  simpa [keys] using h

theorem insertByKey_sorted (x : Nat × β) (l : List (Nat × β)) (h : KeySorted l) :
    KeySorted (insertByKey x l) := by
  unfold KeySorted at *
  induction l with
  | nil => simp [insertByKey, keys]
  | cons y t ih =>
    simp only [keys_cons, List.pairwise_cons] at h
    unfold insertByKey
    split
    · rename_i hle
      simp only [keys_cons, List.pairwise_cons, List.mem_cons]
      refine ⟨?_, h.1, h.2⟩
      intro a ha
      rcases ha with ha | ha
      · omega
      · have := h.1 a ha; omega
    · rename_i hle
      simp only [keys_cons, List.pairwise_cons]
      refine ⟨?_, ih h.2⟩
      intro a ha
      rw [mem_keys_insertByKey] at ha
      rcases ha with ha | ha
      · omega
      · exact h.1 a ha

theorem sortByKey_sorted (l : List (Nat × β)) : KeySorted (sortByKey l) := by
  induction l with
  | nil => simp [sortByKey, KeySorted, keys]
  | cons x t ih => exact insertByKey_sorted x _ ih

/-! ### the grouping loop of `doMerge` -/

/-- values of the pairs with key `m`, in stream order -/
def valuesOf (l : List (Nat × β)) (m : Nat) : List β :=
  (l.filter (fun p => decide (p.1 = m))).map Prod.snd

theorem valuesOf_cons (e : Nat × β) (t : List (Nat × β)) (m : Nat) :
    valuesOf (e :: t) m = (if e.1 = m then [e.2] else []) ++ valuesOf t m := by
  unfold valuesOf
  by_cases h : e.1 = m <;> simp [List.filter_cons, h]

theorem valuesOf_eq_nil_of_lt {l : List (Nat × β)} {m : Nat} (h : ∀ k ∈ keys l, m < k) :
    valuesOf l m = [] := by
  unfold valuesOf
  rw [List.map_eq_nil_iff, List.filter_eq_nil_iff]
  intro p hp
  have := h p.1 (List.mem_map_of_mem (f := Prod.fst) hp)
  simp only [decide_eq_true_eq]; omega

theorem groupLoop_spec (rest : List (Nat × β)) :
    ∀ (prev : Nat) (need : List β), need ≠ [] → KeySorted rest → (∀ k ∈ keys rest, prev ≤ k) →
      (keys (groupLoop rest false prev need)).Pairwise (· < ·) ∧
      (∀ k ∈ keys (groupLoop rest false prev need), prev ≤ k) ∧
      ∀ m, lookup (groupLoop rest false prev need) m =
        (let l := (if prev = m then need else []) ++ valuesOf rest m
         if l = [] then none else some l) := by
  induction rest with
  | nil =>
    intro prev need hne _ _
    have he : need.isEmpty = false := by cases need <;> simp_all
    simp only [groupLoop, he]
    refine ⟨by simp [keys], by simp [keys], ?_⟩
    intro m
    by_cases e : prev = m
    · simp [lookup_cons, e, valuesOf, hne]
    · simp [lookup_cons, e, valuesOf]
  | cons e r ih =>
    intro prev need hne hs hge
    have hs' : KeySorted r := by
      unfold KeySorted at *; simp only [keys_cons, List.pairwise_cons] at hs; exact hs.2
    have hhead : ∀ k ∈ keys r, e.1 ≤ k := by
      unfold KeySorted at hs; simp only [keys_cons, List.pairwise_cons] at hs; exact hs.1
    by_cases hk : e.1 = prev
    · -- same key: collected
      have hb : (false || e.1 == prev) = true := by simp [hk]
      have hg : groupLoop (e :: r) false prev need = groupLoop r false e.1 (need ++ [e.2]) := by
        simp only [groupLoop, hb, if_true]
      rw [hg]
      obtain ⟨a1, a2, a3⟩ := ih e.1 (need ++ [e.2]) (by simp) hs' hhead
      refine ⟨a1, by rw [← hk]; exact a2, ?_⟩
      intro m
      rw [a3 m, valuesOf_cons]
      by_cases em : e.1 = m
      · have : prev = m := hk ▸ em
        simp [em, this]
      · have : ¬ prev = m := fun h => em (hk.trans h)
        simp [em, this]
    · -- key change: the collected values are merged under `prev`
      have hlt : prev < e.1 := by
        have := hge e.1 (by simp [keys]); omega
      have hb : (false || e.1 == prev) = false := by simp [hk]
      have hg : groupLoop (e :: r) false prev need = (prev, need) :: groupLoop r false e.1 [e.2] := by
        simp only [groupLoop, hb]; rfl
      rw [hg]
      obtain ⟨a1, a2, a3⟩ := ih e.1 [e.2] (by simp) hs' hhead
      refine ⟨?_, ?_, ?_⟩
      · simp only [keys_cons, List.pairwise_cons]
        exact ⟨fun k hk' => by have := a2 k hk'; omega, a1⟩
      · intro k hk'
        simp only [keys_cons, List.mem_cons] at hk'
        rcases hk' with hk' | hk'
        · omega
        · have := a2 k hk'; omega
      · intro m
        simp only [lookup_cons]
        by_cases em : prev = m
        · have hnil : valuesOf (e :: r) m = [] := by
            apply valuesOf_eq_nil_of_lt
            intro k hk'
            simp only [keys_cons, List.mem_cons] at hk'
            rcases hk' with hk' | hk'
            · omega
            · have := hhead k hk'; omega
          simp [em, hnil, hne]
        · rw [if_neg em, a3 m, valuesOf_cons]
          simp [em]

/-- the groups `doMerge` hands to the merger: strictly ascending keys, and for every key exactly
the values the stream holds for it, in stream order -/
theorem groupLoop_top (stream : List (Nat × β)) (hs : KeySorted stream) :
    (keys (groupLoop stream true 0 [])).Pairwise (· < ·) ∧
    ∀ m, lookup (groupLoop stream true 0 []) m =
      (if valuesOf stream m = [] then none else some (valuesOf stream m)) := by
  cases stream with
  | nil => simp [groupLoop, keys, valuesOf]
  | cons e r =>
    have hg : groupLoop (e :: r) true 0 [] = groupLoop r false e.1 [e.2] := by
      simp [groupLoop]
    rw [hg]
    have hs' : KeySorted r := by
      unfold KeySorted at *; simp only [keys_cons, List.pairwise_cons] at hs; exact hs.2
    have hhead : ∀ k ∈ keys r, e.1 ≤ k := by
      unfold KeySorted at hs; simp only [keys_cons, List.pairwise_cons] at hs; exact hs.1
    obtain ⟨a1, _, a3⟩ := groupLoop_spec r e.1 [e.2] (by simp) hs' hhead
    refine ⟨a1, ?_⟩
    intro m
    rw [a3 m, valuesOf_cons]

/-! ### the output split -/

theorem splitLoop_spec (size : Nat → Block V → Nat) (max : Nat) (es : List (Nat × Block V)) :
    ∀ (cur : List (Nat × Block V)) (sz : Nat),
      (splitLoop size max es cur sz).flatten = cur ++ es ∧
      ∀ c ∈ splitLoop size max es cur sz, c ≠ [] := by
  induction es with
  | nil =>
    intro cur sz
    cases cur with
    | nil => simp [splitLoop]
    | cons a t => simp [splitLoop]
  | cons e r ih =>
    intro cur sz
    unfold splitLoop
    simp only []
    split
    · obtain ⟨a1, a2⟩ := ih [] 0
      refine ⟨by simp [a1], ?_⟩
      intro c hc
      simp only [List.mem_cons] at hc
      rcases hc with hc | hc
      · subst hc; simp
      · exact a2 c hc
    · obtain ⟨a1, a2⟩ := ih (cur ++ [e]) (sz + size e.1 e.2)
      exact ⟨by simp [a1], a2⟩

/-- reading key `m` from the output files = looking it up in the (unsplit) merged entries -/
theorem chunks_get (chunks : List (List (Nat × Block V))) :
    (∀ c ∈ chunks, c ≠ []) → (keys chunks.flatten).Pairwise (· < ·) → ∀ m,
      (chunks.filterMap mkFile).filterMap (fun f => f.get m) = (lookup chunks.flatten m).toList := by
  induction chunks with
  | nil => intro _ _ m; simp
  | cons c cs ih =>
    intro hne hs m
    simp only [List.flatten_cons, keys_append] at hs
    rw [List.pairwise_append] at hs
    obtain ⟨hc, hcs, hx⟩ := hs
    obtain ⟨f, hf, hfe, hwf⟩ := mkFile_spec c (hne c List.mem_cons_self) hc
    simp only [List.filterMap_cons, hf, List.flatten_cons, lookup_append]
    rw [File.get_eq_lookup hwf, hfe, ih (fun c' hc' => hne c' (List.mem_cons_of_mem _ hc')) hcs m]
    cases hl : lookup c m with
    | none => simp
    | some b =>
      have hm : m ∈ keys c := mem_keys_of_lookup hl
      have : lookup cs.flatten m = none := by
        rw [lookup_eq_none_iff]
        intro hm'
        have := hx m hm m hm'
        omega
      simp [this]

theorem chunks_files_wf (chunks : List (List (Nat × Block V))) :
    (∀ c ∈ chunks, c ≠ []) → (keys chunks.flatten).Pairwise (· < ·) →
      ∀ f ∈ chunks.filterMap mkFile, FileWF f ∧ f.entries ∈ chunks := by
  induction chunks with
  | nil => intro _ _ f hf; simp at hf
  | cons c cs ih =>
    intro hne hs f hf
    simp only [List.flatten_cons, keys_append] at hs
    rw [List.pairwise_append] at hs
    obtain ⟨hc, hcs, _⟩ := hs
    obtain ⟨f0, hf0, hfe, hwf⟩ := mkFile_spec c (hne c List.mem_cons_self) hc
    simp only [List.filterMap_cons, hf0, List.mem_cons] at hf
    rcases hf with hf | hf
    · subst hf; exact ⟨hwf, by rw [hfe]; exact List.mem_cons_self⟩
    · obtain ⟨a1, a2⟩ := ih (fun c' hc' => hne c' (List.mem_cons_of_mem _ hc')) hcs f hf
      exact ⟨a1, List.mem_cons_of_mem _ a2⟩

end LinVerif.C03
