/-
C19 helper lemmas: which instructions one atomic step can put in front of a continuation
(`Created`), as a relation that is independent of the shape of `stepInstr`'s case analysis.
Every "for all pending instructions …" invariant is proved from `stepInstr_mem` / `stepInstr_spawn`.
-/
import LinVerif.Lemmas.C19Base

namespace LinVerif.Pipeline

/-- `Created cfg sh pooled i j`: executing `i` (shared state `sh`, goroutine kind `pooled`) may put
the new instruction `j` into the goroutine's continuation -/
inductive Created (cfg : Cfg) (sh : Shared) (pooled : Bool) : Instr → Instr → Prop where
  | reg (s) : sh.completed = false → Created cfg sh pooled (.start s) (.register s)
  | launch (s) : Created cfg sh pooled (.register s) (.launch s)
  | inl (s) : s.planPanics = false → s.run = .inline → Created cfg sh pooled (.launch s) (.exec s)
  | rejected (s) : s.planPanics = false → s.run = .rejected → cfg.rejectNotifies = true →
      Created cfg sh pooled (.launch s) (.track true)
  | planRec (s) : s.planPanics = true → cfg.stageRecover = true → Created cfg sh pooled (.launch s) (.track true)
  | planPool (s) : s.planPanics = true → cfg.stageRecover = false → pooled = true →
      Created cfg sh pooled (.launch s) (.track true)
  | planMain (s) : s.planPanics = true → cfg.stageRecover = false → pooled = false →
      Created cfg sh pooled (.launch s) (.fire true true)
  | child (s c) : s.out = .ok → c ∈ s.children → Created cfg sh pooled (.exec s) (.start c)
  | done (s) : s.out = .ok → Created cfg sh pooled (.exec s) (.track false)
  | err (s) : s.out = .error → Created cfg sh pooled (.exec s) (.track true)
  | panRec (s) : s.out.panics = true → cfg.stageRecover = true → Created cfg sh pooled (.exec s) (.track true)
  | panPool (s) : s.out.panics = true → cfg.stageRecover = false → pooled = true →
      Created cfg sh pooled (.exec s) (.track true)
  | panMain (s) : s.out.panics = true → cfg.stageRecover = false → pooled = false →
      Created cfg sh pooled (.exec s) (.fire true true)
  | dec (e) : Created cfg sh pooled (.track e) (.dec e)
  | fireOwn (e) : cfg.arg = .own → sh.pending - 1 = 0 → Created cfg sh pooled (.dec e) (.fire e e)
  | load (e) : cfg.arg = .first → sh.pending - 1 = 0 → Created cfg sh pooled (.dec e) (.load e)
  | fire (own) : Created cfg sh pooled (.load own) (.fire sh.firstErr own)

theorem panicEff_mem {cfg : Cfg} {sh : Shared} {pooled : Bool} {rest : List Instr} {j : Instr}
    (h : j ∈ (panicEff cfg sh pooled rest).code) :
    j ∈ rest ∨ (cfg.stageRecover = true ∧ j = .track true) ∨
      (cfg.stageRecover = false ∧ pooled = true ∧ j = .track true) ∨
      (cfg.stageRecover = false ∧ pooled = false ∧ j = .fire true true) := by
  unfold panicEff at h
  cases hs : cfg.stageRecover <;> cases pooled <;> simp_all <;> exact h.symm

@[simp] theorem panicEff_spawn (cfg : Cfg) (sh : Shared) (pooled : Bool) (rest : List Instr) :
    (panicEff cfg sh pooled rest).spawn = [] := by
  unfold panicEff; split <;> rfl

/-- every instruction of the new continuation is an old one or was created by the step -/
theorem stepInstr_mem {cfg : Cfg} {sh : Shared} {pooled : Bool} {i : Instr} {rest : List Instr} {j : Instr}
    (h : j ∈ (stepInstr cfg sh pooled i rest).code) : j ∈ rest ∨ Created cfg sh pooled i j := by
  cases i with
  | start s =>
    simp only [stepInstr] at h
    split at h
    · exact Or.inl h
    · rename_i hc
      rcases List.mem_cons.mp h with rfl | h
      · exact Or.inr (.reg s (by simpa using hc))
      · exact Or.inl h
  | register s =>
    simp only [stepInstr] at h
    rcases List.mem_cons.mp h with rfl | h
    · exact Or.inr (.launch s)
    · exact Or.inl h
  | launch s =>
    simp only [stepInstr] at h
    split at h
    · rename_i hp
      rcases panicEff_mem h with h | ⟨hs, rfl⟩ | ⟨hs, hpl, rfl⟩ | ⟨hs, hpl, rfl⟩
      · exact Or.inl h
      · exact Or.inr (.planRec s hp hs)
      · exact Or.inr (.planPool s hp hs hpl)
      · exact Or.inr (.planMain s hp hs hpl)
    · rename_i hp
      have hp' : s.planPanics = false := by simpa using hp
      split at h
      · rename_i hr
        rcases List.mem_cons.mp h with rfl | h
        · exact Or.inr (.inl s hp' hr)
        · exact Or.inl h
      · exact Or.inl h
      · rename_i hr
        split at h
        · rename_i hn
          rcases List.mem_cons.mp h with rfl | h
          · exact Or.inr (.rejected s hp' hr hn)
          · exact Or.inl h
        · exact Or.inl h
  | exec s =>
    simp only [stepInstr] at h
    split at h
    · rename_i ho
      simp only [handler, List.append_assoc, List.mem_append, List.mem_map, List.mem_cons,
        List.mem_nil_iff, or_false] at h
      rcases h with ⟨c, hc, rfl⟩ | rfl | h
      · exact Or.inr (.child s c ho hc)
      · exact Or.inr (.done s ho)
      · exact Or.inl h
    · rename_i ho
      rcases List.mem_cons.mp h with rfl | h
      · exact Or.inr (.err s ho)
      · exact Or.inl h
    · rename_i ho
      have hp : s.out.panics = true := by rw [ho]; rfl
      rcases panicEff_mem h with h | ⟨hs, rfl⟩ | ⟨hs, hpl, rfl⟩ | ⟨hs, hpl, rfl⟩
      · exact Or.inl h
      · exact Or.inr (.panRec s hp hs)
      · exact Or.inr (.panPool s hp hs hpl)
      · exact Or.inr (.panMain s hp hs hpl)
    · rename_i ho
      have hp : s.out.panics = true := by rw [ho]; rfl
      rcases panicEff_mem h with h | ⟨hs, rfl⟩ | ⟨hs, hpl, rfl⟩ | ⟨hs, hpl, rfl⟩
      · exact Or.inl h
      · exact Or.inr (.panRec s hp hs)
      · exact Or.inr (.panPool s hp hs hpl)
      · exact Or.inr (.panMain s hp hs hpl)
  | track e =>
    simp only [stepInstr] at h
    rcases List.mem_cons.mp h with rfl | h
    · exact Or.inr (.dec e)
    · exact Or.inl h
  | dec e =>
    simp only [stepInstr] at h
    split at h
    · rename_i hz
      split at h
      · rename_i ha
        rcases List.mem_cons.mp h with rfl | h
        · exact Or.inr (.fireOwn e ha hz)
        · exact Or.inl h
      · rename_i ha
        rcases List.mem_cons.mp h with rfl | h
        · exact Or.inr (.load e ha hz)
        · exact Or.inl h
    · exact Or.inl h
  | load own =>
    simp only [stepInstr] at h
    rcases List.mem_cons.mp h with rfl | h
    · exact Or.inr (.fire own)
    · exact Or.inl h
  | fire e own =>
    simp only [stepInstr] at h
    split at h <;> exact Or.inl h

/-- the only goroutine a step can create: the task of a pooled stage the pool accepted -/
theorem stepInstr_spawn {cfg : Cfg} {sh : Shared} {pooled : Bool} {i : Instr} {rest : List Instr} {t : Thread}
    (h : t ∈ (stepInstr cfg sh pooled i rest).spawn) :
    ∃ s, i = .launch s ∧ s.planPanics = false ∧ s.run = .pooled ∧ t = ⟨true, [.exec s]⟩ := by
  cases i with
  | launch s =>
    simp only [stepInstr] at h
    split at h
    · simp at h
    · rename_i hp
      split at h
      · simp at h
      · rename_i hr
        simp only [List.mem_singleton] at h
        exact ⟨s, rfl, by simpa using hp, hr, h⟩
      · split at h <;> simp at h
  | exec s => simp only [stepInstr] at h; split at h <;> simp at h
  | start s => simp only [stepInstr] at h; split at h <;> simp at h
  | dec e => simp only [stepInstr] at h; (repeat' split at h) <;> simp at h
  | fire e own => simp only [stepInstr] at h; split at h <;> simp at h
  | register s => simp [stepInstr] at h
  | track e => simp [stepInstr] at h
  | load own => simp [stepInstr] at h

/-- proving a property of every instruction of the new continuation and of the spawned goroutines -/
theorem stepInstr_forall {cfg : Cfg} {sh : Shared} {pooled : Bool} {i : Instr} {rest : List Instr}
    {P : Instr → Prop} (hrest : ∀ j ∈ rest, P j) (hnew : ∀ j, Created cfg sh pooled i j → P j) :
    ∀ j ∈ (stepInstr cfg sh pooled i rest).code, P j := by
  intro j hj
  rcases stepInstr_mem hj with h | h
  · exact hrest j h
  · exact hnew j h

/-- `sm.err` is never reset -/
theorem stepInstr_firstErr_mono (cfg : Cfg) (sh : Shared) (pooled : Bool) (i : Instr) (rest : List Instr)
    (h : sh.firstErr = true) : (stepInstr cfg sh pooled i rest).sh.firstErr = true := by
  cases i <;> simp only [stepInstr, panicEff] <;> (repeat' split) <;> simp_all

end LinVerif.Pipeline
