/-
C10 helper lemmas: in-place evaluation of a condition on bitmap OBJECTS (`filterHeap`) refines the
value-level `filterExpr` when every atomic filter / `not` allocates a new object.
-/
import LinVerif.Model.TagFilterHeap
import LinVerif.Lemmas.C10Filter

set_option linter.unusedSimpArgs false
set_option linter.unusedVariables false

namespace LinVerif.TagFilter

/-- what one call of `findSeriesIDsByExpr` guarantees about the objects: the result is an object
allocated BY this call (`h.next ≤ a < h'.next`), it holds the value `S`, and no object that existed
before the call was touched (frame) -/
def HeapPost (h h' : BHeap) (a : Nat) (S : List SeriesId) : Prop :=
  h.next ≤ a ∧ a < h'.next ∧ h'.cell a = S ∧ ∀ x, x < h.next → h'.cell x = h.cell x

theorem alloc_post (h : BHeap) (b : List SeriesId) : HeapPost h (h.alloc b).1 (h.alloc b).2 b := by
  refine ⟨Nat.le_refl _, by simp [BHeap.alloc], by simp [BHeap.alloc], ?_⟩
  intro x hx
  have : x ≠ h.next := by omega
  simp [BHeap.alloc, this]

/-- `filterHeap` without memoisation refines `filterExpr` for EVERY expression tree (any nesting of
not / and / or / parentheses, repeated atomic filters included): same error, or the result object is
fresh and holds exactly the value-level result. -/
theorem filterHeap_refines (F : Flags) (st : State) (res : TFR) (e : Expr) :
    ∀ (h : BHeap) (mm : Memo),
      (∀ err, filterExpr F st res e = .error err → filterHeap F false st res e (h, mm) = .error err) ∧
      (∀ kid S, filterExpr F st res e = .ok (kid, S) →
        ∃ h' a, filterHeap F false st res e (h, mm) = .ok (kid, a, (h', mm)) ∧ HeapPost h h' a S) := by
  induction e with
  | atom a =>
    intro h mm
    cases hg : tfrGet F res a with
    | none =>
      constructor
      · intro err he; simp [filterExpr, hg] at he; subst he; simp [filterHeap, hg]
      · intro kid S he; simp [filterExpr, hg] at he
    | some r =>
      obtain ⟨kid0, ids⟩ := r
      constructor
      · intro err he; simp [filterExpr, hg] at he
      · intro kid S he
        simp [filterExpr, hg] at he
        obtain ⟨rfl, rfl⟩ := he
        refine ⟨(h.alloc (st.inv.seriesOfIds ids)).1, (h.alloc (st.inv.seriesOfIds ids)).2, ?_, alloc_post _ _⟩
        simp [filterHeap, hg]
  | paren e ih =>
    intro h mm
    simpa [filterExpr, filterHeap] using ih h mm
  | not e ih =>
    intro h mm
    obtain ⟨ihe, iho⟩ := ih h mm
    cases he : filterExpr F st res e with
    | error err0 =>
      constructor
      · intro err h1; simp [filterExpr, he] at h1; subst h1
        simp [filterHeap, ihe _ he]
      · intro kid S h1; simp [filterExpr, he] at h1
    | ok r =>
      obtain ⟨kid0, matched⟩ := r
      obtain ⟨h1, am, hf, hle, hlt, hcell, hframe⟩ := iho kid0 matched he
      constructor
      · intro err h2; simp [filterExpr, he] at h2
      · intro kid S h2
        simp [filterExpr, he] at h2
        obtain ⟨rfl, rfl⟩ := h2
        have hne : am ≠ h1.next := by omega
        refine ⟨_, _, by simp only [filterHeap, hf]; rfl, ?_⟩
        refine ⟨by simp [BHeap.alloc]; omega, by simp [BHeap.alloc, BHeap.set], ?_, ?_⟩
        · simp [BHeap.alloc, BHeap.set, hne, hcell]
        · intro x hx
          have : x ≠ h1.next := by omega
          simp [BHeap.alloc, BHeap.set, this, hframe x hx]
  | and l r ihl ihr =>
    intro h mm
    obtain ⟨ihle, ihlo⟩ := ihl h mm
    cases hl : filterExpr F st res l with
    | error err0 =>
      constructor
      · intro err h1; simp [filterExpr, hl] at h1; subst h1
        simp [filterHeap, ihle _ hl]
      · intro kid S h1; simp [filterExpr, hl] at h1
    | ok rl =>
      obtain ⟨kl, A⟩ := rl
      obtain ⟨h1, la, hfl, hle1, hlt1, hcell1, hframe1⟩ := ihlo kl A hl
      obtain ⟨ihre, ihro⟩ := ihr h1 mm
      cases hr : filterExpr F st res r with
      | error err0 =>
        constructor
        · intro err h2; simp [filterExpr, hl, hr] at h2; subst h2
          simp [filterHeap, hfl, ihre _ hr]
        · intro kid S h2; simp [filterExpr, hl, hr] at h2
      | ok rr =>
        obtain ⟨kr, B⟩ := rr
        obtain ⟨h2, ra, hfr, hle2, hlt2, hcell2, hframe2⟩ := ihro kr B hr
        constructor
        · intro err h3; simp [filterExpr, hl, hr] at h3
        · intro kid S h3
          simp [filterExpr, hl, hr] at h3
          obtain ⟨rfl, rfl⟩ := h3
          have hla : h2.cell la = A := by rw [hframe2 la hlt1]; exact hcell1
          refine ⟨_, _, by simp only [filterHeap, hfl, hfr]; rfl, ?_⟩
          refine ⟨hle1, by simp [BHeap.set]; omega, by simp [BHeap.set, hla, hcell2], ?_⟩
          intro x hx
          have hx1 : x ≠ la := by omega
          have hx2 : x < h1.next := by omega
          simp [BHeap.set, hx1, hframe2 x hx2, hframe1 x hx]
  | or l r ihl ihr =>
    intro h mm
    obtain ⟨ihle, ihlo⟩ := ihl h mm
    cases hl : filterExpr F st res l with
    | error err0 =>
      constructor
      · intro err h1; simp [filterExpr, hl] at h1; subst h1
        simp [filterHeap, ihle _ hl]
      · intro kid S h1; simp [filterExpr, hl] at h1
    | ok rl =>
      obtain ⟨kl, A⟩ := rl
      obtain ⟨h1, la, hfl, hle1, hlt1, hcell1, hframe1⟩ := ihlo kl A hl
      obtain ⟨ihre, ihro⟩ := ihr h1 mm
      cases hr : filterExpr F st res r with
      | error err0 =>
        constructor
        · intro err h2; simp [filterExpr, hl, hr] at h2; subst h2
          simp [filterHeap, hfl, ihre _ hr]
        · intro kid S h2; simp [filterExpr, hl, hr] at h2
      | ok rr =>
        obtain ⟨kr, B⟩ := rr
        obtain ⟨h2, ra, hfr, hle2, hlt2, hcell2, hframe2⟩ := ihro kr B hr
        constructor
        · intro err h3; simp [filterExpr, hl, hr] at h3
        · intro kid S h3
          simp [filterExpr, hl, hr] at h3
          obtain ⟨rfl, rfl⟩ := h3
          have hla : h2.cell la = A := by rw [hframe2 la hlt1]; exact hcell1
          refine ⟨_, _, by simp only [filterHeap, hfl, hfr]; rfl, ?_⟩
          refine ⟨hle1, by simp [BHeap.set]; omega, by simp [BHeap.set, hla, hcell2], ?_⟩
          intro x hx
          have hx1 : x ≠ la := by omega
          have hx2 : x < h1.next := by omega
          simp [BHeap.set, hx1, hframe2 x hx2, hframe1 x hx]
  | badop l r ihl ihr =>
    intro h mm
    obtain ⟨ihle, ihlo⟩ := ihl h mm
    cases hl : filterExpr F st res l with
    | error err0 =>
      constructor
      · intro err h1; simp [filterExpr, hl] at h1; subst h1
        simp [filterHeap, ihle _ hl]
      · intro kid S h1; simp [filterExpr, hl] at h1
    | ok rl =>
      obtain ⟨kl, A⟩ := rl
      obtain ⟨h1, la, hfl, hle1, hlt1, hcell1, hframe1⟩ := ihlo kl A hl
      obtain ⟨ihre, ihro⟩ := ihr h1 mm
      cases hr : filterExpr F st res r with
      | error err0 =>
        constructor
        · intro err h2; simp [filterExpr, hl, hr] at h2; subst h2
          simp [filterHeap, hfl, ihre _ hr]
        · intro kid S h2; simp [filterExpr, hl, hr] at h2
      | ok rr =>
        obtain ⟨kr, B⟩ := rr
        obtain ⟨h2, ra, hfr, hle2, hlt2, hcell2, hframe2⟩ := ihro kr B hr
        constructor
        · intro err h3; simp [filterExpr, hl, hr] at h3
        · intro kid S h3
          simp [filterExpr, hl, hr] at h3
          obtain ⟨rfl, rfl⟩ := h3
          have hla : h2.cell la = A := by rw [hframe2 la hlt1]; exact hcell1
          refine ⟨_, _, by simp only [filterHeap, hfl, hfr]; rfl, ?_⟩
          refine ⟨hle1, by simp [BHeap.set]; omega, by simp [BHeap.set, hla, hcell2], ?_⟩
          intro x hx
          have hx1 : x ≠ la := by omega
          have hx2 : x < h1.next := by omega
          simp [BHeap.set, hx1, hframe2 x hx2, hframe1 x hx]

/-- the whole query: object-level evaluation without memoisation IS the value-level query -/
theorem queryHeap_eq_query (F : Flags) (M : Matcher) (st : State) (m : Metric) (c : Expr) :
    queryHeap F false M st m c = query F M st m c := by
  unfold queryHeap query
  split
  · rfl
  · cases hl : lookupAll F M st m c [] with
    | error e => rfl
    | ok res =>
      obtain ⟨he, ho⟩ := filterHeap_refines F st res c BHeap.empty []
      cases hf : filterExpr F st res c with
      | error err => simp [he _ hf, hf]
      | ok r =>
        obtain ⟨kid, S⟩ := r
        obtain ⟨h', a, hh, _, _, hcell, _⟩ := ho kid S hf
        simp [hh, hcell, hf]

theorem leafQueryHeap_eq_leafQuery (F : Flags) (M : Matcher) (st : State) (m : Metric) (keys : List Bytes)
    (c : Expr) : leafQueryHeap F false M st m keys c = leafQuery F M st m keys c := by
  cases h1 : metricKnown st m <;> cases h2 : lookupKeys st m keys <;> cases h3 : query F M st m c <;>
    simp [leafQueryHeap, leafQuery, queryHeap_eq_query, h1, h2, h3]

end LinVerif.TagFilter
