/-
Helper lemmas for `Model/C03Decoder.lean` (positional `TSDDecoder`s in `seriesMerger.merge`).
-/
import LinVerif.Model.C03Decoder

set_option linter.unusedSectionVars false
set_option linter.unusedSimpArgs false
set_option linter.unusedVariables false
namespace LinVerif.C03
open LinVerif LinVerif.Map LinVerif.Merge LinVerif.C03Decoder

variable {V : Type}

/-- an exhausted decoder answers false to every `HasValueWithSlot` and does not move -/
theorem read_exhausted (d : Dec V) (h : d.Exhausted) (t : Nat) : d.read t = (d, none) := by
  unfold Dec.read
  unfold Dec.Exhausted at h
  by_cases c : t < d.start ∨ t > d.stop
  · rw [if_pos c]
  · rw [if_neg c]
    have : ¬ t = d.idx + d.start := by omega
    rw [if_neg this]

theorem decLoop_exhausted (op : V → V → V) (cfg : Cfg) (tStart len : Nat) (d : Dec V) (h : d.Exhausted) :
    ∀ (n : Nat) (acc : List (Nat × V)) (t : Nat), decLoop op cfg tStart len d acc t n = (d, acc) := by
  intro n
  induction n with
  | zero => intro acc t; rfl
  | succ n ih =>
    intro acc t
    unfold decLoop
    rw [read_exhausted d h t]
    exact ih acc (t + 1)

/-- a read at the decoder's position inside its range delivers the slot's content and advances -/
theorem read_at_position (d : Dec V) (t : Nat) (h1 : t = d.idx + d.start) (h2 : t ≤ d.stop) :
    d.read t = ({ d with idx := d.idx + 1 }, lookup d.vals t) := by
  unfold Dec.read
  have c : ¬ (t < d.start ∨ t > d.stop) := by omega
  rw [if_neg c, if_pos h1]

/-- no value of the decoder's data is cut by the `break` -/
def NoBreak (cfg : Cfg) (tStart len : Nat) (vals : List (Nat × V)) (start stop : Nat) : Prop :=
  ∀ t v, start ≤ t → t ≤ stop → lookup vals t = some v →
    (cfg.baseSlot : Int) + ((t / cfg.ratio : Nat) : Int) - (tStart : Int) < (len : Int)

/-- from its position to its end, without a `break`: the loop over the decoder object is `Merge.feed` over the
data it was reset with, and the decoder ends `n` positions further -/
theorem decLoop_run (op : V → V → V) (cfg : Cfg) (tStart len : Nat) :
    ∀ (n : Nat) (d : Dec V) (acc : List (Nat × V)) (t : Nat), t = d.idx + d.start → t + n ≤ d.stop + 1 →
      NoBreak cfg tStart len d.vals d.start d.stop →
      decLoop op cfg tStart len d acc t n =
        ({ d with idx := d.idx + n }, feed op cfg tStart len d.vals acc t n) := by
  intro n
  induction n with
  | zero => intro d acc t _ _ _; rfl
  | succ n ih =>
    intro d acc t h1 h2 hnb
    unfold decLoop feed
    rw [read_at_position d t h1 (by omega)]
    have hd' : ({ d with idx := d.idx + 1 } : Dec V).idx + ({ d with idx := d.idx + 1 } : Dec V).start = t + 1 := by
      simp only []; omega
    have step : ∀ acc', decLoop op cfg tStart len { d with idx := d.idx + 1 } acc' (t + 1) n =
        ({ d with idx := d.idx + (n + 1) }, feed op cfg tStart len d.vals acc' (t + 1) n) := by
      intro acc'
      have := ih { d with idx := d.idx + 1 } acc' (t + 1) hd'.symm (by simp only []; omega) hnb
      rw [this]
      simp only [Nat.add_assoc, Nat.add_comm 1 n]
    cases hl : lookup d.vals t with
    | none => simp only []; exact step acc
    | some v =>
      simp only []
      have hlt := hnb t v (by omega) (by omega) hl
      by_cases hneg : (cfg.baseSlot : Int) + ((t / cfg.ratio : Nat) : Int) - (tStart : Int) < 0
      · rw [if_pos hneg, if_pos hneg]; exact step acc
      · rw [if_neg hneg, if_neg hneg]
        have : ¬ ((cfg.baseSlot : Int) + ((t / cfg.ratio : Nat) : Int) - (tStart : Int) ≥ (len : Int)) := by omega
        rw [if_neg this, if_neg this]
        exact step _

/-- a freshly reset decoder, whole range -/
theorem decLoop_fresh (op : V → V → V) (cfg : Cfg) (tStart len : Nat) (vals : List (Nat × V)) (a b : Nat)
    (acc : List (Nat × V)) (hnb : NoBreak cfg tStart len vals a b) :
    decLoop op cfg tStart len (Dec.reset vals a b) acc a (b + 1 - a) =
      ({ Dec.reset vals a b with idx := b + 1 - a }, feed op cfg tStart len vals acc a (b + 1 - a)) ∧
    ({ Dec.reset vals a b with idx := b + 1 - a } : Dec V).Exhausted := by
  constructor
  · by_cases hab : a ≤ b + 1
    · have := decLoop_run op cfg tStart len (b + 1 - a) (Dec.reset vals a b) acc a
        (by simp [Dec.reset]) (by simp only [Dec.reset]; omega) hnb
      rw [this]
      simp [Dec.reset]
    · have h0 : b + 1 - a = 0 := by omega
      rw [h0]
      rfl
  · unfold Dec.Exhausted; simp only [Dec.reset]; omega

/-- `targetPos` of a source slot -/
def pos (cfg : Cfg) (tStart t : Nat) : Int := (cfg.baseSlot : Int) + ((t / cfg.ratio : Nat) : Int) - (tStart : Int)

theorem pos_mono (cfg : Cfg) (tStart : Nat) {t t' : Nat} (h : t ≤ t') : pos cfg tStart t ≤ pos cfg tStart t' := by
  unfold pos
  have : t / cfg.ratio ≤ t' / cfg.ratio := Nat.div_le_div_right h
  omega

/-- a decoder that can no longer contribute to THIS merge (`cfg`, target range fixed for the whole `Merge` call):
every value from its position on lies past the target range — it is exhausted, or the `break` stopped it and the
target positions only grow with the slot -/
def Spent (cfg : Cfg) (tStart len : Nat) (d : Dec V) : Prop :=
  ∀ t v, d.idx + d.start ≤ t → t ≤ d.stop → lookup d.vals t = some v → pos cfg tStart t ≥ (len : Int)

theorem spent_of_exhausted (cfg : Cfg) (tStart len : Nat) (d : Dec V) (h : d.Exhausted) : Spent cfg tStart len d := by
  intro t v h1 h2 _
  unfold Dec.Exhausted at h
  omega

theorem spent_advance (cfg : Cfg) (tStart len : Nat) (d : Dec V) (h : Spent cfg tStart len d) (k : Nat) :
    Spent cfg tStart len { d with idx := d.idx + k } := by
  intro t v h1 h2 h3
  exact h t v (by simp only [] at h1; omega) h2 h3

/-- a spent decoder contributes nothing, wherever the loop starts and however long it runs, and stays spent -/
theorem decLoop_spent (op : V → V → V) (cfg : Cfg) (tStart len : Nat) :
    ∀ (n : Nat) (d : Dec V) (acc : List (Nat × V)) (t : Nat), Spent cfg tStart len d →
      (decLoop op cfg tStart len d acc t n).2 = acc ∧ Spent cfg tStart len (decLoop op cfg tStart len d acc t n).1 := by
  intro n
  induction n with
  | zero => intro d acc t h; exact ⟨rfl, h⟩
  | succ n ih =>
    intro d acc t h
    unfold decLoop
    by_cases c : t < d.start ∨ t > d.stop
    · have : d.read t = (d, none) := by unfold Dec.read; rw [if_pos c]
      rw [this]; exact ih d acc (t + 1) h
    · by_cases e : t = d.idx + d.start
      · rw [read_at_position d t e (by omega)]
        have h' := spent_advance cfg tStart len d h 1
        cases hl : lookup d.vals t with
        | none => simp only []; exact ih _ acc (t + 1) h'
        | some v =>
          simp only []
          have hp := h t v (by omega) (by omega) hl
          unfold pos at hp
          have n1 : ¬ ((cfg.baseSlot : Int) + ((t / cfg.ratio : Nat) : Int) - (tStart : Int) < 0) := by omega
          rw [if_neg n1, if_pos hp]
          exact ⟨rfl, h'⟩
      · have : d.read t = (d, none) := by unfold Dec.read; rw [if_neg c, if_neg e]
        rw [this]; exact ih d acc (t + 1) h

/-- from its position to its end, ANY configuration: the accumulator is `Merge.feed` over the decoder's data
and the decoder is left spent (at its end, or where the `break` stopped it) -/
theorem decLoop_any (op : V → V → V) (cfg : Cfg) (tStart len : Nat) :
    ∀ (n : Nat) (d : Dec V) (acc : List (Nat × V)) (t : Nat), t = d.idx + d.start → t + n = d.stop + 1 →
      (decLoop op cfg tStart len d acc t n).2 = feed op cfg tStart len d.vals acc t n ∧
      Spent cfg tStart len (decLoop op cfg tStart len d acc t n).1 := by
  intro n
  induction n with
  | zero =>
    intro d acc t h1 h2
    refine ⟨rfl, ?_⟩
    intro t' v h3 h4 _
    simp only [decLoop] at h3 h4
    omega
  | succ n ih =>
    intro d acc t h1 h2
    unfold decLoop feed
    rw [read_at_position d t h1 (by omega)]
    have step : ∀ acc', (decLoop op cfg tStart len { d with idx := d.idx + 1 } acc' (t + 1) n).2 =
          feed op cfg tStart len d.vals acc' (t + 1) n ∧
        Spent cfg tStart len (decLoop op cfg tStart len { d with idx := d.idx + 1 } acc' (t + 1) n).1 := by
      intro acc'
      exact ih { d with idx := d.idx + 1 } acc' (t + 1) (by simp only []; omega) (by simp only []; omega)
    cases hl : lookup d.vals t with
    | none => simp only []; exact step acc
    | some v =>
      simp only []
      by_cases hneg : (cfg.baseSlot : Int) + ((t / cfg.ratio : Nat) : Int) - (tStart : Int) < 0
      · rw [if_pos hneg, if_pos hneg]; exact step acc
      · rw [if_neg hneg, if_neg hneg]
        by_cases hge : (cfg.baseSlot : Int) + ((t / cfg.ratio : Nat) : Int) - (tStart : Int) ≥ (len : Int)
        · rw [if_pos hge, if_pos hge]
          refine ⟨rfl, ?_⟩
          intro t' v' h3 h4 _
          simp only [] at h3 h4
          have := pos_mono cfg tStart (show t ≤ t' by omega)
          unfold pos at this ⊢
          omega
        · rw [if_neg hge, if_neg hge]; exact step _

/-- a freshly reset decoder, whole range, any configuration (also an inverted range: nothing is visited) -/
theorem decLoop_fresh_any (op : V → V → V) (cfg : Cfg) (tStart len : Nat) (vals : List (Nat × V)) (a b : Nat)
    (acc : List (Nat × V)) :
    (decLoop op cfg tStart len (Dec.reset vals a b) acc a (b + 1 - a)).2 = feed op cfg tStart len vals acc a (b + 1 - a) ∧
    Spent cfg tStart len (decLoop op cfg tStart len (Dec.reset vals a b) acc a (b + 1 - a)).1 := by
  by_cases hab : a ≤ b + 1
  · exact decLoop_any op cfg tStart len (b + 1 - a) (Dec.reset vals a b) acc a (by simp [Dec.reset])
      (by simp only [Dec.reset]; omega)
  · have h0 : b + 1 - a = 0 := by omega
    rw [h0]
    refine ⟨rfl, ?_⟩
    intro t v h1 h2 _
    simp only [decLoop, Dec.reset] at h1 h2
    omega

def AllSpent (cfg : Cfg) (tStart len : Nat) (ss : List (Option (Dec V))) : Prop :=
  ∀ d, some d ∈ ss → Spent cfg tStart len d

/-- one target field, ANY ratio / base slot / target range: with every left-over decoder spent, the decoders of
the blocks WITHOUT data for this field contribute nothing, the others exactly `feed` over their data; afterwards
every decoder is spent again -/
theorem field_step_spec (op : V → V → V) (cfg : Cfg) (tStart len : Nat) :
    ∀ (ds : List (FD V)) (ss : List (Option (Dec V))) (acc : List (Nat × V)),
      AllSpent cfg tStart len ss → ss.length = ds.length →
      (downAll op cfg tStart len (resetStreams ss ds) acc).2 = specAll op cfg tStart len ds acc ∧
      AllSpent cfg tStart len (downAll op cfg tStart len (resetStreams ss ds) acc).1 ∧
      (downAll op cfg tStart len (resetStreams ss ds) acc).1.length = ds.length := by
  intro ds
  induction ds with
  | nil =>
    intro ss acc hex hlen
    cases ss with
    | nil => exact ⟨rfl, fun d h => by simp [downAll, resetStreams] at h, rfl⟩
    | cons s r => simp at hlen
  | cons fd ds ih =>
    intro ss acc hex hlen
    cases ss with
    | nil => simp at hlen
    | cons s r =>
      have hexr : AllSpent cfg tStart len r := fun d h => hex d (List.mem_cons_of_mem _ h)
      have hlenr : r.length = ds.length := by simpa using hlen
      cases fd with
      | none =>
        cases s with
        | none =>
          obtain ⟨h1, h2, h3⟩ := ih r acc hexr hlenr
          simp only [resetStreams, downAll, specAll]
          refine ⟨h1, ?_, by simp [h3]⟩
          intro d hd
          simp only [List.mem_cons, reduceCtorEq, false_or] at hd
          exact h2 d hd
        | some d0 =>
          have hd0 : Spent cfg tStart len d0 := hex d0 List.mem_cons_self
          have hs := decLoop_spent op cfg tStart len (d0.stop + 1 - d0.start) d0 acc d0.start hd0
          obtain ⟨h1, h2, h3⟩ := ih r acc hexr hlenr
          simp only [resetStreams, downAll, specAll, hs.1]
          refine ⟨h1, ?_, by simp [h3]⟩
          intro d hd
          simp only [List.mem_cons, Option.some.injEq] at hd
          rcases hd with e | hd
          · rw [e]; exact hs.2
          · exact h2 d hd
      | some x =>
        obtain ⟨v, a, b⟩ := x
        have hf := decLoop_fresh_any op cfg tStart len v a b acc
        obtain ⟨h1, h2, h3⟩ := ih r (feed op cfg tStart len v acc a (b + 1 - a)) hexr hlenr
        have hs : (Dec.reset v a b).start = a := rfl
        have he : (Dec.reset v a b).stop = b := rfl
        simp only [resetStreams, downAll, specAll, hs, he, hf.1]
        refine ⟨h1, ?_, by simp [h3]⟩
        intro d hd
        simp only [List.mem_cons, Option.some.injEq] at hd
        rcases hd with e | hd
        · rw [e]; exact hf.2
        · exact h2 d hd

end LinVerif.C03
