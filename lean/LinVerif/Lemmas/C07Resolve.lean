/-
Name-resolution part of C07: dictionary lemmas, the flush discipline (trace hypothesis) under which
flushed data always resolves, and the invariant that proves it.
-/
import LinVerif.Lemmas.C07

namespace LinVerif.NodeRecovery
set_option linter.unusedSimpArgs false
set_option linter.unusedVariables false
set_option linter.unusedSectionVars false

namespace Dict
variable {α : Type} [DecidableEq α]

/-- membership form of `known` -/
def Known (d : Dict α) (x : α) : Prop := x ∈ d.mutab ∨ x ∈ d.immList ∨ x ∈ d.dur

theorem known_iff (d : Dict α) (x : α) : d.known x = true ↔ d.Known x := by
  simp [known, Known, or_assoc]

theorem Known_create_self (d : Dict α) (x : α) : (d.create x).Known x := by
  unfold create
  split
  case isTrue h => exact (known_iff d x).1 h
  case isFalse h => exact Or.inl (by simp)

theorem Known_create_mono (d : Dict α) (x y : α) (h : d.Known y) : (d.create x).Known y := by
  unfold create
  split
  · exact h
  · rcases h with h | h | h
    · exact Or.inl (by simp [h])
    · exact Or.inr (Or.inl h)
    · exact Or.inr (Or.inr h)

@[simp] theorem dur_create (d : Dict α) (x : α) : (d.create x).dur = d.dur := by
  unfold create; split <;> rfl

@[simp] theorem immList_create (d : Dict α) (x : α) : (d.create x).immList = d.immList := by
  unfold create; split <;> rfl

theorem mem_mutab_create (d : Dict α) (x y : α) (h : y ∈ (d.create x).mutab) : y = x ∨ y ∈ d.mutab := by
  unfold create at h
  split at h
  · exact Or.inr h
  · simpa using h

/-- `prepare` either leaves the maps alone or moves the whole mutable map into an (empty or absent)
immutable one -/
theorem prepare_cases (cfg : Cfg) (d : Dict α) :
    (d.prepare cfg = d) ∨
    ((d.prepare cfg).mutab = [] ∧ (d.prepare cfg).immList = d.mutab ∧ d.immList = [] ∧
      (d.prepare cfg).dur = d.dur) := by
  unfold prepare
  cases hi : d.immut with
  | none => right; simp [immList, hi]
  | some l =>
    cases l with
    | nil =>
      by_cases hc : cfg.swapOnEmpty = true
      · right; simp [immList, hi, hc]
      · left; simp [hc]
    | cons a l => left; rfl

theorem Known_prepare (cfg : Cfg) (d : Dict α) (x : α) : (d.prepare cfg).Known x ↔ d.Known x := by
  rcases prepare_cases cfg d with h | ⟨h1, h2, h3, h4⟩
  · rw [h]
  · simp [Known, h1, h2, h3, h4]

@[simp] theorem dur_prepare (cfg : Cfg) (d : Dict α) : (d.prepare cfg).dur = d.dur := by
  rcases prepare_cases cfg d with h | ⟨_, _, _, h4⟩
  · rw [h]
  · exact h4

/-- `flush` either does nothing or appends the whole immutable map to the durable store -/
theorem flush_cases (d : Dict α) :
    (d.flush = d) ∨
    (d.flush.mutab = d.mutab ∧ d.flush.immList = [] ∧ d.flush.dur = d.dur ++ d.immList) := by
  unfold flush
  cases hi : d.immut with
  | none => left; rfl
  | some l =>
    cases l with
    | nil => left; rfl
    | cons a l => right; simp [immList, hi]

theorem Known_flush (d : Dict α) (x : α) : d.flush.Known x ↔ d.Known x := by
  rcases flush_cases d with h | ⟨h1, h2, h3⟩
  · rw [h]
  · simp [Known, h1, h2, h3]; constructor
    · rintro (h | h | h)
      · exact Or.inl h
      · exact Or.inr (Or.inr h)
      · exact Or.inr (Or.inl h)
    · rintro (h | h | h)
      · exact Or.inl h
      · exact Or.inr (Or.inr h)
      · exact Or.inr (Or.inl h)

theorem dur_flush_mono (d : Dict α) (x : α) (h : x ∈ d.dur) : x ∈ d.flush.dur := by
  rcases flush_cases d with h' | ⟨_, _, h3⟩
  · rw [h']; exact h
  · rw [h3]; simp [h]

theorem mem_dur_flush (d : Dict α) (x : α) (h : x ∈ d.flush.dur) : x ∈ d.dur ∨ x ∈ d.immList := by
  rcases flush_cases d with h' | ⟨_, _, h3⟩
  · rw [h'] at h; exact Or.inl h
  · rw [h3] at h; simpa using h

theorem mem_immList_flush (d : Dict α) (x : α) (h : x ∈ d.flush.immList) : x ∈ d.immList := by
  rcases flush_cases d with h' | ⟨_, h2, _⟩
  · rw [h'] at h; exact h
  · rw [h2] at h; cases h

@[simp] theorem mutab_flush (d : Dict α) : d.flush.mutab = d.mutab := by
  rcases flush_cases d with h' | ⟨h1, _, _⟩
  · rw [h']
  · exact h1

theorem known_dur_of_not_pending (d : Dict α) (h : d.pending = false) (x : α) (hk : d.Known x) :
    x ∈ d.dur := by
  simp [pending] at h
  obtain ⟨h1, h2⟩ := h
  rcases hk with hk | hk | hk
  · rw [h1] at hk; cases hk
  · rw [h2] at hk; cases hk
  · exact hk

@[simp] theorem dur_crash (d : Dict α) : d.crash.dur = d.dur := rfl
@[simp] theorem mutab_crash (d : Dict α) : d.crash.mutab = [] := rfl
@[simp] theorem immList_crash (d : Dict α) : d.crash.immList = [] := rfl

end Dict

/-! ### resolution of flushed data -/

/-- the names of row `(m, t)` are all in the DURABLE dictionaries -/
def DurNames (st : St) (m t : Nat) : Prop :=
  m ∈ st.metric.dur ∧ (m, t) ∈ st.tagv.dur ∧ (m, t) ∈ st.index.dur

/-- the names an index entry uses are in the durable metadata dictionaries -/
def DurMeta (st : St) (p : Nat × Nat) : Prop := p.1 ∈ st.metric.dur ∧ p ∈ st.tagv.dur

theorem rowResolves_iff (st : St) (r : Row) : rowResolves st r = true ↔ DurNames st r.metric r.tagv := by
  simp [rowResolves, DurNames, and_assoc]

theorem idxResolves_iff (st : St) (p : Nat × Nat) : idxResolves st p = true ↔ DurMeta st p := by
  simp [idxResolves, DurMeta]

/-- "Flushed data always resolves through the recovered metadata": every row of every durable
data file, and every durable index entry, uses only names of the durable dictionaries. -/
def Resolves (st : St) : Prop :=
  (∀ r ∈ fileRows st, rowResolves st r = true) ∧ (∀ p ∈ st.index.dur, idxResolves st p = true)

instance (st : St) : Decidable (Resolves st) := by unfold Resolves; exact inferInstance

/-- the names of `(m, t)` are known to the running process (memory or disk) -/
def KnownNames (st : St) (m t : Nat) : Prop :=
  st.metric.Known m ∧ st.tagv.Known (m, t) ∧ st.index.Known (m, t)

/-- What the flush order has to establish at three kinds of events (the region where the code does
not establish it is exactly the finding, see `Neg`):
* when a memory database is frozen, no name exists only in memory;
* when the index is prepared for flushing, no metadata name exists only in memory;
* a row that lands in an already frozen memory database (flush racing replication) uses only
  names that are already durable. -/
def okAt (st : St) (e : Ev) : Prop :=
  st.phase = .running →
  match e with
  | .freeze => st.frozen = none → (st.memMut ≠ [] ∨ st.foreignMem ≠ 0) →
      st.metric.pending = false ∧ st.tagv.pending = false ∧ st.index.pending = false
  | .indexPrepare => st.metric.pending = false ∧ st.tagv.pending = false
  | .applyWrite =>
      match st.inflight with
      | some fl => fl.toFrozen = true → fl.written = false → DurNames st fl.metric fl.tagv
      | none => True
  | _ => True

instance (st : St) (m t : Nat) : Decidable (DurNames st m t) := by unfold DurNames; exact inferInstance

instance (st : St) (e : Ev) : Decidable (okAt st e) := by
  unfold okAt
  cases e <;> simp only [] <;> try exact inferInstance
  case applyWrite => cases st.inflight <;> exact inferInstance

/-- the trace hypothesis of `resolves_partial` -/
def Disciplined (cfg : Cfg) : St → List Ev → Prop
  | _, [] => True
  | st, e :: es => okAt st e ∧ Disciplined cfg (step cfg st e) es

instance decDisciplined (cfg : Cfg) : (st : St) → (evs : List Ev) → Decidable (Disciplined cfg st evs)
  | _, [] => isTrue trivial
  | st, e :: es =>
    have := decDisciplined cfg (step cfg st e) es
    by unfold Disciplined; exact inferInstance

structure RInv (st : St) : Prop where
  files : ∀ r ∈ fileRows st, DurNames st r.metric r.tagv
  idx : ∀ p ∈ st.index.dur, DurMeta st p
  frozen : ∀ r ∈ frozenRows st, DurNames st r.metric r.tagv
  idxImm : ∀ p ∈ st.index.immList, DurMeta st p
  mem : ∀ r ∈ st.memMut, KnownNames st r.metric r.tagv
  idxMut : ∀ p ∈ st.index.mutab, st.metric.Known p.1 ∧ st.tagv.Known p

theorem rinv_init : RInv St.init := by
  constructor <;> simp [St.init, fileRows, frozenRows, Dict.empty, Dict.immList]

theorem RInv.resolves {st : St} (h : RInv st) : Resolves st :=
  ⟨fun r hr => (rowResolves_iff st r).2 (h.files r hr), fun p hp => (idxResolves_iff st p).2 (h.idx p hp)⟩

/-- an index entry known to the process has its metadata names known -/
theorem RInv.idx_known {st : St} (h : RInv st) (p : Nat × Nat) (hk : st.index.Known p) :
    st.metric.Known p.1 ∧ st.tagv.Known p := by
  rcases hk with hk | hk | hk
  · exact h.idxMut p hk
  · obtain ⟨a, b⟩ := h.idxImm p hk
    exact ⟨Or.inr (Or.inr a), Or.inr (Or.inr b)⟩
  · obtain ⟨a, b⟩ := h.idx p hk
    exact ⟨Or.inr (Or.inr a), Or.inr (Or.inr b)⟩

/-- state changes that keep rows and dictionaries -/
theorem rinv_same {st st' : St} (h : RInv st)
    (h1 : st'.files = st.files) (h2 : st'.frozen = st.frozen) (h3 : st'.memMut = st.memMut)
    (h4 : st'.metric = st.metric) (h5 : st'.tagv = st.tagv) (h6 : st'.index = st.index) : RInv st' := by
  obtain ⟨a, b, c, d, e, f⟩ := h
  constructor
  all_goals simp only [fileRows, frozenRows, DurNames, DurMeta, KnownNames, h1, h2, h3, h4, h5, h6] at *
  all_goals assumption


theorem rinv_applyBegin (cfg : Cfg) {st : St} (h : RInv st) : RInv (doApplyBegin cfg st) := by
  apply rinv_same h <;> (unfold doApplyBegin beginAt ignoreMsg ackTo; (repeat' split) <;> rfl)

theorem rinv_applyCommit {st : St} (h : RInv st) : RInv (doApplyCommit st) := by
  apply rinv_same h <;> (unfold doApplyCommit; (repeat' split) <;> rfl)

theorem rinv_logGC {st : St} (k : Int) (h : RInv st) : RInv (doLogGC st k) := by
  apply rinv_same h <;> (unfold doLogGC; (repeat' split) <;> rfl)

theorem rinv_rewind {st : St} (h : RInv st) : RInv (doRewind st) := by
  apply rinv_same h <;> rfl

theorem rinv_append {st : St} (m t : Nat) (h : RInv st) : RInv (doAppend st m t) := by
  apply rinv_same h <;> rfl

theorem rinv_recover {st : St} (h : RInv st) : RInv (doRecover st) := by
  apply rinv_same h <;> (unfold doRecover ackOpt ackTo; (repeat' split) <;> rfl)

theorem rinv_crash {st : St} (h : RInv st) : RInv (doCrash st) := by
  obtain ⟨a, b, c, d, e, f⟩ := h
  constructor
  case files => exact a
  case idx => exact b
  case frozen => intro r hr; simp [doCrash, frozenRows] at hr
  case idxImm => intro p hp; simp [doCrash] at hp
  case mem => intro r hr; simp [doCrash] at hr
  case idxMut => intro p hp; simp [doCrash] at hp

theorem rinv_dataCommit {st : St} (h : RInv st) : RInv (doDataCommit st) := by
  unfold doDataCommit
  split
  case h_2 => exact h
  case h_1 fz hfz =>
    split
    case isTrue => exact h
    case isFalse =>
      obtain ⟨a, b, c, d, e, f⟩ := h
      have hfr : frozenRows st = fz.rows := by simp [frozenRows, hfz]
      constructor
      case files =>
        intro r hr
        simp [fileRows] at hr
        rcases hr with hr | hr
        · exact c r (by rw [hfr]; exact hr)
        · exact a r (by simpa [fileRows] using hr)
      case idx => exact b
      case frozen => intro r hr; exact c r (by rw [hfr]; simpa [frozenRows] using hr)
      case idxImm => exact d
      case mem => exact e
      case idxMut => exact f

theorem rinv_ackCallback {st : St} (h : RInv st) : RInv (doAckCallback st) := by
  unfold doAckCallback
  split
  case h_2 => exact h
  case h_1 fz hfz =>
    split
    case isFalse => exact h
    case isTrue =>
      rw [ackOpt_eq]
      obtain ⟨a, b, c, d, e, f⟩ := h
      constructor
      case frozen => intro r hr; simp [frozenRows] at hr
      all_goals assumption

theorem rinv_freeze {st : St} (hr : st.phase = .running) (hok : okAt st .freeze) (h : RInv st) :
    RInv (doFreeze st) := by
  unfold doFreeze
  split
  case h_2 => exact h
  case h_1 hfz =>
   split
   case isTrue => exact h
   case isFalse hne =>
    have hne' : st.memMut ≠ [] ∨ st.foreignMem ≠ 0 := by
      simp at hne
      by_cases hm : st.memMut = []
      · exact Or.inr (hne hm)
      · exact Or.inl hm
    obtain ⟨p1, p2, p3⟩ := hok hr hfz hne'
    obtain ⟨a, b, c, d, e, f⟩ := h
    constructor
    case frozen =>
      intro r hr'
      have hr'' : r ∈ st.memMut := by simpa [frozenRows] using hr'
      obtain ⟨k1, k2, k3⟩ := e r hr''
      exact ⟨Dict.known_dur_of_not_pending _ p1 _ k1, Dict.known_dur_of_not_pending _ p2 _ k2,
        Dict.known_dur_of_not_pending _ p3 _ k3⟩
    case mem => intro r hr'; simp at hr'
    all_goals assumption

theorem rinv_metaPrepare (cfg : Cfg) {st : St} (h : RInv st) :
    RInv { st with metric := st.metric.prepare cfg, tagv := st.tagv.prepare cfg } := by
  obtain ⟨a, b, c, d, e, f⟩ := h
  constructor
  case files => intro r hr; simpa [DurNames] using a r hr
  case idx => intro p hp; simpa [DurMeta] using b p hp
  case frozen => intro r hr; simpa [DurNames] using c r hr
  case idxImm => intro p hp; simpa [DurMeta] using d p hp
  case mem =>
    intro r hr
    obtain ⟨k1, k2, k3⟩ := e r hr
    exact ⟨(Dict.Known_prepare cfg _ _).2 k1, (Dict.Known_prepare cfg _ _).2 k2, k3⟩
  case idxMut =>
    intro p hp
    obtain ⟨k1, k2⟩ := f p hp
    exact ⟨(Dict.Known_prepare cfg _ _).2 k1, (Dict.Known_prepare cfg _ _).2 k2⟩

theorem rinv_metaFlushMetric {st : St} (h : RInv st) : RInv { st with metric := st.metric.flush } := by
  obtain ⟨a, b, c, d, e, f⟩ := h
  constructor
  case files => intro r hr; obtain ⟨x, y, z⟩ := a r hr; exact ⟨Dict.dur_flush_mono _ _ x, y, z⟩
  case idx => intro p hp; obtain ⟨x, y⟩ := b p hp; exact ⟨Dict.dur_flush_mono _ _ x, y⟩
  case frozen => intro r hr; obtain ⟨x, y, z⟩ := c r hr; exact ⟨Dict.dur_flush_mono _ _ x, y, z⟩
  case idxImm => intro p hp; obtain ⟨x, y⟩ := d p hp; exact ⟨Dict.dur_flush_mono _ _ x, y⟩
  case mem => intro r hr; obtain ⟨k1, k2, k3⟩ := e r hr; exact ⟨(Dict.Known_flush _ _).2 k1, k2, k3⟩
  case idxMut => intro p hp; obtain ⟨k1, k2⟩ := f p hp; exact ⟨(Dict.Known_flush _ _).2 k1, k2⟩

theorem rinv_metaFlushTagv {st : St} (h : RInv st) : RInv { st with tagv := st.tagv.flush } := by
  obtain ⟨a, b, c, d, e, f⟩ := h
  constructor
  case files => intro r hr; obtain ⟨x, y, z⟩ := a r hr; exact ⟨x, Dict.dur_flush_mono _ _ y, z⟩
  case idx => intro p hp; obtain ⟨x, y⟩ := b p hp; exact ⟨x, Dict.dur_flush_mono _ _ y⟩
  case frozen => intro r hr; obtain ⟨x, y, z⟩ := c r hr; exact ⟨x, Dict.dur_flush_mono _ _ y, z⟩
  case idxImm => intro p hp; obtain ⟨x, y⟩ := d p hp; exact ⟨x, Dict.dur_flush_mono _ _ y⟩
  case mem => intro r hr; obtain ⟨k1, k2, k3⟩ := e r hr; exact ⟨k1, (Dict.Known_flush _ _).2 k2, k3⟩
  case idxMut => intro p hp; obtain ⟨k1, k2⟩ := f p hp; exact ⟨k1, (Dict.Known_flush _ _).2 k2⟩

theorem rinv_indexPrepare (cfg : Cfg) {st : St} (hr : st.phase = .running) (hok : okAt st .indexPrepare)
    (h : RInv st) : RInv { st with index := st.index.prepare cfg } := by
  obtain ⟨p1, p2⟩ := hok hr
  obtain ⟨a, b, c, d, e, f⟩ := h
  rcases Dict.prepare_cases cfg st.index with hsame | ⟨h1, h2, h3, h4⟩
  · rw [hsame]; exact ⟨a, b, c, d, e, f⟩
  · constructor
    case files => intro r hr'; obtain ⟨x, y, z⟩ := a r hr'; exact ⟨x, y, by simpa [h4] using z⟩
    case idx => intro p hp; simp only [h4] at hp; exact b p hp
    case frozen => intro r hr'; obtain ⟨x, y, z⟩ := c r hr'; exact ⟨x, y, by simpa [h4] using z⟩
    case idxImm =>
      intro p hp
      simp only [h2] at hp
      obtain ⟨k1, k2⟩ := f p hp
      exact ⟨Dict.known_dur_of_not_pending _ p1 _ k1, Dict.known_dur_of_not_pending _ p2 _ k2⟩
    case mem =>
      intro r hr'
      obtain ⟨k1, k2, k3⟩ := e r hr'
      exact ⟨k1, k2, (Dict.Known_prepare cfg _ _).2 k3⟩
    case idxMut => intro p hp; simp only [h1] at hp; cases hp

theorem rinv_indexFlush {st : St} (h : RInv st) : RInv { st with index := st.index.flush } := by
  obtain ⟨a, b, c, d, e, f⟩ := h
  constructor
  case files => intro r hr; obtain ⟨x, y, z⟩ := a r hr; exact ⟨x, y, Dict.dur_flush_mono _ _ z⟩
  case idx =>
    intro p hp
    rcases Dict.mem_dur_flush _ _ hp with hp | hp
    · exact b p hp
    · exact d p hp
  case frozen => intro r hr; obtain ⟨x, y, z⟩ := c r hr; exact ⟨x, y, Dict.dur_flush_mono _ _ z⟩
  case idxImm => intro p hp; exact d p (Dict.mem_immList_flush _ _ hp)
  case mem => intro r hr; obtain ⟨k1, k2, k3⟩ := e r hr; exact ⟨k1, k2, (Dict.Known_flush _ _).2 k3⟩
  case idxMut => intro p hp; simp only [Dict.mutab_flush] at hp; exact f p hp


theorem addNames_dur (st : St) (m t : Nat) :
    (addNames st m t).metric.dur = st.metric.dur ∧ (addNames st m t).tagv.dur = st.tagv.dur ∧
    (addNames st m t).index.dur = st.index.dur := by
  unfold addNames; split <;> simp

theorem durNames_addNames (st : St) (m t a b : Nat) : DurNames (addNames st m t) a b ↔ DurNames st a b := by
  obtain ⟨h1, h2, h3⟩ := addNames_dur st m t
  simp [DurNames, h1, h2, h3]

theorem durMeta_addNames (st : St) (m t : Nat) (p : Nat × Nat) : DurMeta (addNames st m t) p ↔ DurMeta st p := by
  obtain ⟨h1, h2, h3⟩ := addNames_dur st m t
  simp [DurMeta, h1, h2]

/-- `RInv` in which rows of the memory database may also be rows for the names `(m, t)` that
`addNames` is about to create -/
structure RInvW (st : St) (m t : Nat) : Prop where
  files : ∀ r ∈ fileRows st, DurNames st r.metric r.tagv
  idx : ∀ p ∈ st.index.dur, DurMeta st p
  frozen : ∀ r ∈ frozenRows st, DurNames st r.metric r.tagv
  idxImm : ∀ p ∈ st.index.immList, DurMeta st p
  mem : ∀ r ∈ st.memMut, KnownNames st r.metric r.tagv ∨ (r.metric = m ∧ r.tagv = t)
  idxMut : ∀ p ∈ st.index.mutab, st.metric.Known p.1 ∧ st.tagv.Known p

theorem RInvW.idx_known {st : St} {m t : Nat} (h : RInvW st m t) (p : Nat × Nat) (hk : st.index.Known p) :
    st.metric.Known p.1 ∧ st.tagv.Known p := by
  rcases hk with hk | hk | hk
  · exact h.idxMut p hk
  · obtain ⟨a, b⟩ := h.idxImm p hk
    exact ⟨Or.inr (Or.inr a), Or.inr (Or.inr b)⟩
  · obtain ⟨a, b⟩ := h.idx p hk
    exact ⟨Or.inr (Or.inr a), Or.inr (Or.inr b)⟩

theorem rinv_addNames {st : St} (m t : Nat) (h : RInvW st m t) : RInv (addNames st m t) := by
  have hd := durNames_addNames st m t
  have hm := durMeta_addNames st m t
  obtain ⟨d1, d2, d3⟩ := addNames_dur st m t
  have hfiles : ∀ r ∈ fileRows (addNames st m t), DurNames (addNames st m t) r.metric r.tagv := by
    intro r hr; rw [hd]; exact h.files r (by simpa [fileRows] using hr)
  have hfrozen : ∀ r ∈ frozenRows (addNames st m t), DurNames (addNames st m t) r.metric r.tagv := by
    intro r hr; rw [hd]; exact h.frozen r (by simpa [frozenRows] using hr)
  have hidx : ∀ p ∈ (addNames st m t).index.dur, DurMeta (addNames st m t) p := by
    intro p hp; rw [hm]; rw [d3] at hp; exact h.idx p hp
  by_cases hk : st.index.known (m, t) = true
  · have hk' := (Dict.known_iff _ _).1 hk
    obtain ⟨k1, k2⟩ := h.idx_known (m, t) hk'
    have heq : addNames st m t = { st with metric := st.metric.create m } := by simp [addNames, hk]
    have hK : KnownNames (addNames st m t) m t := by
      rw [heq]; exact ⟨Dict.Known_create_self _ _, k2, hk'⟩
    refine ⟨hfiles, hidx, hfrozen, ?_, ?_, ?_⟩
    · intro p hp; rw [hm]; rw [heq] at hp; exact h.idxImm p hp
    · intro r hr
      have hr' : r ∈ st.memMut := by rw [heq] at hr; exact hr
      rcases h.mem r hr' with ⟨x, y, z⟩ | ⟨e1, e2⟩
      · rw [heq]; exact ⟨Dict.Known_create_mono _ _ _ x, y, z⟩
      · rw [e1, e2]; exact hK
    · intro p hp; rw [heq] at hp ⊢
      obtain ⟨x, y⟩ := h.idxMut p hp
      exact ⟨Dict.Known_create_mono _ _ _ x, y⟩
  · have heq : addNames st m t = { st with metric := st.metric.create m, index := st.index.create (m, t),
                                            tagv := st.tagv.create (m, t) } := by simp [addNames, hk]
    have hK : KnownNames (addNames st m t) m t := by
      rw [heq]; exact ⟨Dict.Known_create_self _ _, Dict.Known_create_self _ _, Dict.Known_create_self _ _⟩
    refine ⟨hfiles, hidx, hfrozen, ?_, ?_, ?_⟩
    · intro p hp; rw [hm]; rw [heq] at hp; simp only [Dict.immList_create] at hp; exact h.idxImm p hp
    · intro r hr
      have hr' : r ∈ st.memMut := by rw [heq] at hr; exact hr
      rcases h.mem r hr' with ⟨x, y, z⟩ | ⟨e1, e2⟩
      · rw [heq]
        exact ⟨Dict.Known_create_mono _ _ _ x, Dict.Known_create_mono _ _ _ y, Dict.Known_create_mono _ _ _ z⟩
      · rw [e1, e2]; exact hK
    · intro p hp; rw [heq] at hp ⊢
      rcases Dict.mem_mutab_create _ _ _ hp with hp | hp
      · subst hp; exact ⟨Dict.Known_create_self _ _, Dict.Known_create_self _ _⟩
      · obtain ⟨x, y⟩ := h.idxMut p hp
        exact ⟨Dict.Known_create_mono _ _ _ x, Dict.Known_create_mono _ _ _ y⟩

/-- a metric name created by a replicator of another shard: only the mutable part of the database-level
metric dictionary grows -/
theorem rinv_createMetric {st : St} (m : Nat) (h : RInv st) :
    RInv { st with metric := st.metric.create m } := by
  obtain ⟨a, b, c, d, e, f⟩ := h
  constructor
  · intro r hr; obtain ⟨x, y, z⟩ := a r hr; exact ⟨by simpa using x, y, z⟩
  · intro p hp; obtain ⟨x, y⟩ := b p hp; exact ⟨by simpa using x, y⟩
  · intro r hr; obtain ⟨x, y, z⟩ := c r hr; exact ⟨by simpa using x, y, z⟩
  · intro p hp; obtain ⟨x, y⟩ := d p hp; exact ⟨by simpa using x, y⟩
  · intro r hr; obtain ⟨x, y, z⟩ := e r hr; exact ⟨Dict.Known_create_mono _ _ _ x, y, z⟩
  · intro p hp; obtain ⟨x, y⟩ := f p hp; exact ⟨Dict.Known_create_mono _ _ _ x, y⟩

theorem rinv_createTagv {st : St} (m t : Nat) (h : RInv st) :
    RInv { st with tagv := st.tagv.create (m, t) } := by
  obtain ⟨a, b, c, d, e, f⟩ := h
  constructor
  · intro r hr; obtain ⟨x, y, z⟩ := a r hr; exact ⟨x, by simpa using y, z⟩
  · intro p hp; obtain ⟨x, y⟩ := b p hp; exact ⟨x, by simpa using y⟩
  · intro r hr; obtain ⟨x, y, z⟩ := c r hr; exact ⟨x, by simpa using y, z⟩
  · intro p hp; obtain ⟨x, y⟩ := d p hp; exact ⟨x, by simpa using y⟩
  · intro r hr; obtain ⟨x, y, z⟩ := e r hr; exact ⟨x, Dict.Known_create_mono _ _ _ y, z⟩
  · intro p hp; obtain ⟨x, y⟩ := f p hp; exact ⟨x, Dict.Known_create_mono _ _ _ y⟩

theorem rinv_applyWrite {st : St} (hr : st.phase = .running) (hok : okAt st .applyWrite) (h : RInv st) :
    RInv (doApplyWrite st) := by
  unfold doApplyWrite
  split
  case h_2 => exact h
  case h_1 fl hfl =>
    split
    case isTrue => exact h
    case isFalse hw =>
      simp at hw
      have hw' : fl.written = false := hw.1
      apply rinv_addNames
      obtain ⟨a, b, c, d, e, f⟩ := h
      unfold putRow
      split
      case isTrue hcl =>
        -- the row is dropped (closed memdb): nothing but the flag changes
        constructor
        case mem => intro r hr'; exact Or.inl (e r hr')
        all_goals assumption
      case isFalse hcl =>
      split
      case isTrue htf =>
        have hdn : DurNames st fl.metric fl.tagv := by
          have := hok hr
          simp only [hfl] at this
          exact this htf hw'
        split
        case h_1 fz hfz =>
          simp only [] at hfz
          constructor
          case frozen =>
            intro r hr'
            simp [frozenRows] at hr'
            rcases hr' with hr' | hr'
            · subst hr'; exact hdn
            · exact c r (by simp [frozenRows, hfz, hr'])
          case mem => intro r hr'; exact Or.inl (e r hr')
          all_goals assumption
        case h_2 =>
          constructor
          case mem => intro r hr'; exact Or.inl (e r hr')
          all_goals assumption
      case isFalse htf =>
        constructor
        case mem =>
          intro r hr'
          simp at hr'
          rcases hr' with hr' | hr'
          · subst hr'; exact Or.inr ⟨rfl, rfl⟩
          · exact Or.inl (e r hr')
        all_goals assumption

theorem rinv_step (cfg : Cfg) {st : St} (e : Ev) (hok : okAt st e) (h : RInv st) : RInv (step cfg st e) := by
  cases e <;> simp only [step, whenRunning]
  case crash => exact rinv_crash h
  case recover =>
    split
    · exact rinv_recover h
    · exact h
  case rewind =>
    split
    · exact rinv_rewind h
    · exact h
  case append m t =>
    split
    · split
      · exact h
      · exact rinv_append m t h
    · exact h
  case applyBegin =>
    split
    · split
      · exact h
      · exact rinv_applyBegin cfg h
    · exact h
  case applyGetFail =>
    split
    · split
      · exact h
      · apply rinv_same h <;> (unfold doApplyGetFail ignoreMsg ackTo; (repeat' split) <;> rfl)
    · exact h
  case applyNoRows =>
    split
    · split
      · exact h
      · apply rinv_same h <;> (unfold doApplyNoRows; (repeat' split) <;> rfl)
    · exact h
  case appendBad =>
    split
    · split
      · exact h
      · exact rinv_same h rfl rfl rfl rfl rfl rfl
    · exact h
  case foreignWrite m t =>
    split
    · apply rinv_addNames
      obtain ⟨a, b, c, d, e, f⟩ := h
      exact ⟨a, b, c, d, fun r hr => Or.inl (e r hr), f⟩
    · exact h
  case foreignNames m t =>
    split
    · apply rinv_addNames
      obtain ⟨a, b, c, d, e, f⟩ := h
      exact ⟨a, b, c, d, fun r hr => Or.inl (e r hr), f⟩
    · exact h
  case foreignMetric m =>
    split
    · exact rinv_createMetric m h
    · exact h
  case foreignTagv m t =>
    split
    · exact rinv_createTagv m t h
    · exact h
  case applyTake =>
    split
    · apply rinv_same h <;> (unfold doApplyTake; (repeat' split) <;> rfl)
    · exact h
  case applyAcquire =>
    split
    · apply rinv_same h <;> (unfold doApplyAcquire; (repeat' split) <;> rfl)
    · exact h
  case walExpire =>
    split
    · apply rinv_same h <;> (unfold doWalExpire; (repeat' split) <;> rfl)
    · exact h
  case applyWrite =>
    split
    · exact rinv_applyWrite ‹_› hok h
    · exact h
  case applyCommit =>
    split
    · exact rinv_applyCommit h
    · exact h
  case metaPrepare =>
    split
    · exact rinv_metaPrepare cfg h
    · exact h
  case metaFlushMetric =>
    split
    · exact rinv_metaFlushMetric h
    · exact h
  case metaFlushTagv =>
    split
    · exact rinv_metaFlushTagv h
    · exact h
  case indexPrepare =>
    split
    · exact rinv_indexPrepare cfg ‹_› hok h
    · exact h
  case indexFlush =>
    split
    · exact rinv_indexFlush h
    · exact h
  case freeze =>
    split
    · exact rinv_freeze ‹_› hok h
    · exact h
  case dataCommit =>
    split
    · exact rinv_dataCommit h
    · exact h
  case ackCallback =>
    split
    · exact rinv_ackCallback h
    · exact h
  case logGC k =>
    split
    · exact rinv_logGC k h
    · exact h

theorem rinv_run (cfg : Cfg) (evs : List Ev) {st : St} (hd : Disciplined cfg st evs) (h : RInv st) :
    RInv (run cfg st evs) := by
  induction evs generalizing st with
  | nil => exact h
  | cons e es ih => exact ih hd.2 (rinv_step cfg e hd.1 h)

end LinVerif.NodeRecovery
