/-
C11 — lemmas about the expression layer (Model/QueryExpr.lean): the evaluated array of a select
item point by point, and congruence in the field store.
-/
import LinVerif.Model.QueryExpr

set_option linter.unusedSimpArgs false
set_option linter.unusedVariables false

namespace LinVerif.Lemmas.C11
open LinVerif LinVerif.NaiveQuery LinVerif.MemDB LinVerif.QueryExpr

/-- field types of a store. -/
def tyOf (st : Store) (f : Nat) : Option FieldType := (Map.lookup st f).map (·.ftype)

/-- values of a store. -/
def valOf (st : Store) (f : Nat) (A : AggType) (i : Nat) : Option Int :=
  match Map.lookup st f with
  | none => none
  | some fv => arrGet fv.arrs A i

theorem applyFunc_arr (g : Bool) (n : Nat) (fn : FuncType) (sec : Nat) (v : EVal) (a : FArr)
    (h : applyFunc g n fn sec v = .arr a) :
    ∃ a', v = .arr a' ∧
      ((fn = .sum ∨ fn = .min ∨ fn = .max ∨ fn = .count ∨ fn = .last ∨ fn = .first) ∧ a = a' ∨
       fn = .rate ∧ a = ⟨fun i => if i < n then (a'.get i).map (fun v => v / (sec : Rat)) else none, false⟩) := by
  cases v with
  | empty => simp [applyFunc] at h
  | crash => simp [applyFunc] at h
  | nilArr => cases fn <;> cases g <;> simp [applyFunc] at h
  | arr a' =>
    refine ⟨a', rfl, ?_⟩
    cases fn <;> simp [applyFunc] at h <;> simp [h]

/-- **the array of a select item, point by point**: when `expression.eval` yields an array, its
`isSingle` mark is the syntactic `isLit`, and its value at every point `i` of the query is
`pointValue` over the field store's values — field values by the parent function's agg type (the
type's default without a function), `rate` divided by the interval, a binary operator by the three
branches of `binaryEval` (missing operand read as 0, literal operands never create points,
division by zero = 0). -/
theorem eval_arr_spec (g : Bool) (n sec : Nat) (st : Store) :
    ∀ (e : Expr) (parent : Option FuncType) (a : FArr), eval g n sec st parent e = .arr a →
      a.single = isLit e ∧
      (∀ i, i < n → a.get i = pointValue sec (tyOf st) (valOf st) i parent e) ∧
      (∀ i, n ≤ i → a.get i = none) := by
  intro e
  induction e with
  | field f =>
    intro parent a h
    simp only [eval] at h
    cases hl : Map.lookup st f with
    | none => rw [hl] at h; cases h
    | some fv =>
      rw [hl] at h
      simp only at h
      generalize hA : paramOf fv.ftype parent = A at h
      cases hm : Map.lookup fv.arrs A with
      | none => rw [hm] at h; cases h
      | some m =>
        rw [hm] at h
        injection h with h
        subst h
        refine ⟨rfl, ?_, ?_⟩
        · intro i hi
          simp only [hi, if_true, pointValue, tyOf, hl, Option.map_some, valOf, hA, arrGet, hm]
        · intro i hi
          have : ¬ i < n := by omega
          simp [this]
  | call fn p ih =>
    intro parent a h
    simp only [eval] at h
    obtain ⟨a', hv, hcase⟩ := applyFunc_arr g n fn sec _ a h
    obtain ⟨h1, h2, h3⟩ := ih (some fn) a' hv
    rcases hcase with ⟨hfn, rfl⟩ | ⟨hfn, rfl⟩
    · refine ⟨?_, ?_, h3⟩
      · rw [h1]
        rcases hfn with e | e | e | e | e | e <;> subst e <;> simp [isLit]
      · intro i hi
        rw [h2 i hi]
        rcases hfn with e | e | e | e | e | e <;> subst e <;> simp [pointValue]
    · subst hfn
      refine ⟨by simp [isLit], ?_, ?_⟩
      · intro i hi
        simp only [hi, if_true, pointValue, h2 i hi]
      · intro i hi
        have : ¬ i < n := by omega
        simp [this]
  | num v =>
    intro parent a h
    simp only [eval] at h
    injection h with h
    subst h
    refine ⟨rfl, ?_, ?_⟩
    · intro i hi; simp [hi, pointValue]
    · intro i hi
      have : ¬ i < n := by omega
      simp [this]
  | paren e ih =>
    intro parent a h
    simp only [eval] at h
    obtain ⟨h1, h2, h3⟩ := ih none a h
    exact ⟨by rw [h1]; rfl, fun i hi => by rw [h2 i hi]; rfl, h3⟩
  | bin op l r ihl ihr =>
    intro parent a h
    simp only [eval] at h
    cases hl : eval g n sec st none l with
    | empty => rw [hl] at h; cases h
    | crash => rw [hl] at h; cases h
    | nilArr =>
      rw [hl] at h
      simp only at h
      cases hr : eval g n sec st none r <;> rw [hr] at h <;> cases h
    | arr la =>
      rw [hl] at h
      simp only at h
      cases hr : eval g n sec st none r with
      | empty => rw [hr] at h; cases h
      | crash => rw [hr] at h; cases h
      | nilArr => rw [hr] at h; cases h
      | arr ra =>
        rw [hr] at h
        simp only [binaryEval] at h
        split at h
        · cases h
        · injection h with h
          subst h
          obtain ⟨l1, l2, _⟩ := ihl none la hl
          obtain ⟨r1, r2, _⟩ := ihr none ra hr
          refine ⟨rfl, ?_, ?_⟩
          · intro i hi
            simp only [hi, if_true, pointValue, l1, r1, l2 i hi, r2 i hi]
          · intro i hi
            have : ¬ i < n := by omega
            simp [this]

/-! ### congruence in the store -/

/-- two evaluation results are the same for the `n` points of the query. -/
def EVal.same (n : Nat) : EVal → EVal → Prop
  | .empty, .empty => True
  | .nilArr, .nilArr => True
  | .crash, .crash => True
  | .arr a, .arr b => a.single = b.single ∧ ∀ i, i < n → a.get i = b.get i
  | _, _ => False

theorem EVal.same_refl (n : Nat) (v : EVal) : EVal.same n v v := by
  cases v <;> simp [EVal.same]

/-- the two stores hold the same fields with the same types, and the arrays the item reads exist in
both or in none and agree on the `n` points. -/
def StoresAgree (n : Nat) (s1 s2 : Store) (rd : List (Nat × AggType)) : Prop :=
  (∀ f, tyOf s1 f = tyOf s2 f) ∧
  ∀ f A, (f, A) ∈ rd → ∀ fv1 fv2, Map.lookup s1 f = some fv1 → Map.lookup s2 f = some fv2 →
    (Map.lookup fv1.arrs A).isSome = (Map.lookup fv2.arrs A).isSome ∧
    ∀ i, i < n → arrGet fv1.arrs A i = arrGet fv2.arrs A i

theorem isEmpty_congr (n : Nat) (a b : FArr) (h : ∀ i, i < n → a.get i = b.get i) :
    a.isEmpty n = b.isEmpty n := by
  unfold FArr.isEmpty
  induction n with
  | zero => rfl
  | succ k ih =>
    rw [List.range_succ, List.all_append, List.all_append, ih (fun i hi => h i (by omega))]
    simp [h k (by omega)]

theorem applyFunc_same (g : Bool) (n : Nat) (fn : FuncType) (sec : Nat) (v1 v2 : EVal) (h : EVal.same n v1 v2) :
    EVal.same n (applyFunc g n fn sec v1) (applyFunc g n fn sec v2) := by
  cases v1 <;> cases v2 <;> simp only [EVal.same] at h <;> try exact absurd h id
  · simp [applyFunc, EVal.same]
  · cases fn <;> cases g <;> simp [applyFunc, EVal.same]
  · rename_i a b
    cases fn <;> simp only [applyFunc, EVal.same] <;> first | exact h | trivial | skip
    refine ⟨trivial, ?_⟩
    intro i hi
    simp [hi, h.2 i hi]
  · simp [applyFunc, EVal.same]

theorem binaryEval_same (n : Nat) (op : BinOp) (a1 b1 a2 b2 : FArr)
    (ha : a1.single = a2.single ∧ ∀ i, i < n → a1.get i = a2.get i)
    (hb : b1.single = b2.single ∧ ∀ i, i < n → b1.get i = b2.get i) :
    EVal.same n (binaryEval n op a1 b1) (binaryEval n op a2 b2) := by
  unfold binaryEval
  rw [isEmpty_congr n a1 a2 ha.2, isEmpty_congr n b1 b2 hb.2]
  split
  · trivial
  · refine ⟨rfl, ?_⟩
    intro i hi
    simp only [hi, if_true, ha.1, hb.1, ha.2 i hi, hb.2 i hi]

theorem reads_eq_of_ty (s1 s2 : Store) (hty : ∀ f, tyOf s1 f = tyOf s2 f) :
    ∀ (e : Expr) (parent : Option FuncType), reads s1 parent e = reads s2 parent e := by
  intro e
  induction e with
  | field f =>
    intro parent
    have := hty f
    simp only [tyOf] at this
    simp only [reads]
    cases h1 : Map.lookup s1 f <;> cases h2 : Map.lookup s2 f <;> rw [h1, h2] at this <;> simp at this
    · show [(f, paramOf _ parent)] = [(f, paramOf _ parent)]
      rw [this]
  | call fn p ih => intro parent; simp only [reads]; exact ih _
  | num v => intro parent; rfl
  | paren e ih => intro parent; simp only [reads]; exact ih _
  | bin op l r ihl ihr => intro parent; simp only [reads]; rw [ihl, ihr]

/-- **`expression.eval` depends only on the arrays it reads**: two field stores that agree on them
give the same result — no result, the same crash, or arrays with the same mark and the same
values at every point. -/
theorem eval_congr (g : Bool) (n sec : Nat) (s1 s2 : Store) :
    ∀ (e : Expr) (parent : Option FuncType), StoresAgree n s1 s2 (reads s1 parent e) →
      EVal.same n (eval g n sec s1 parent e) (eval g n sec s2 parent e) := by
  intro e
  induction e with
  | field f =>
    intro parent ⟨hty, harr⟩
    have ht := hty f
    simp only [tyOf] at ht
    simp only [eval]
    cases h1 : Map.lookup s1 f with
    | none =>
      rw [h1] at ht
      cases h2 : Map.lookup s2 f with
      | none => trivial
      | some fv2 => rw [h2] at ht; simp at ht
    | some fv1 =>
      rw [h1] at ht
      cases h2 : Map.lookup s2 f with
      | none => rw [h2] at ht; simp at ht
      | some fv2 =>
        rw [h2] at ht
        simp only [Option.map_some, Option.some.injEq] at ht
        simp only
        rw [← ht]
        generalize hA : paramOf fv1.ftype parent = A
        have hmem : (f, A) ∈ reads s1 parent (.field f) := by
          simp [reads, h1, hA]
        obtain ⟨hs, hv⟩ := harr f A hmem fv1 fv2 h1 h2
        cases hm1 : Map.lookup fv1.arrs A with
        | none =>
          rw [hm1] at hs
          cases hm2 : Map.lookup fv2.arrs A with
          | none => trivial
          | some m2 => rw [hm2] at hs; simp at hs
        | some m1 =>
          rw [hm1] at hs
          cases hm2 : Map.lookup fv2.arrs A with
          | none => rw [hm2] at hs; simp at hs
          | some m2 =>
            refine ⟨rfl, ?_⟩
            intro i hi
            have := hv i hi
            simp only [arrGet, hm1, hm2] at this
            simp only [hi, if_true, this]
  | call fn p ih =>
    intro parent h
    simp only [eval]
    exact applyFunc_same g n fn sec _ _ (ih (some fn) h)
  | num v => intro parent _; exact ⟨rfl, fun i _ => rfl⟩
  | paren e ih => intro parent h; simp only [eval]; exact ih none h
  | bin op l r ihl ihr =>
    intro parent ⟨hty, harr⟩
    have hl := ihl none ⟨hty, fun f A hm => harr f A (by simp only [reads]; exact List.mem_append_left _ hm)⟩
    have hr := ihr none ⟨hty, fun f A hm => harr f A (by simp only [reads]; exact List.mem_append_right _ hm)⟩
    simp only [eval]
    cases h1 : eval g n sec s1 none l <;> cases h2 : eval g n sec s2 none l <;> rw [h1, h2] at hl <;>
      simp only [EVal.same] at hl <;> try exact absurd hl id
    · trivial
    · simp only
      cases h3 : eval g n sec s1 none r <;> cases h4 : eval g n sec s2 none r <;> rw [h3, h4] at hr <;>
        simp only [EVal.same] at hr <;> first | exact absurd hr id | trivial
    · simp only
      cases h3 : eval g n sec s1 none r <;> cases h4 : eval g n sec s2 none r <;> rw [h3, h4] at hr <;>
        simp only [EVal.same] at hr <;> first | exact absurd hr id | trivial | skip
      exact binaryEval_same n op _ _ _ _ hl hr
    · trivial

/-! ### panics -/

/-- the item's evaluation may be the nil array of `binaryEval`: a binary expression, possibly in
parentheses. -/
def mayNil : Expr → Bool
  | .bin _ _ _ => true
  | .paren e => mayNil e
  | _ => false

/-- no `rate(...)` directly over a (parenthesised) binary expression. -/
def rateSafe : Expr → Bool
  | .field _ => true
  | .num _ => true
  | .paren e => rateSafe e
  | .call fn p => rateSafe p && (match fn with | .rate => !mayNil p | _ => true)
  | .bin _ l r => rateSafe l && rateSafe r

theorem applyFunc_ne_nilArr (g : Bool) (n : Nat) (fn : FuncType) (sec : Nat) (v : EVal) :
    (match applyFunc g n fn sec v with | .nilArr => False | _ => True) := by
  cases v <;> cases fn <;> cases g <;> simp [applyFunc]

theorem eval_ne_nilArr (g : Bool) (n sec : Nat) (st : Store) :
    ∀ (e : Expr) (parent : Option FuncType), mayNil e = false →
      (match eval g n sec st parent e with | .nilArr => False | _ => True) := by
  intro e
  induction e with
  | field f =>
    intro parent _
    simp only [eval]
    cases Map.lookup st f with
    | none => trivial
    | some fv =>
      simp only
      cases Map.lookup fv.arrs (paramOf fv.ftype parent) <;> trivial
  | call fn p ih => intro parent _; simp only [eval]; exact applyFunc_ne_nilArr g n fn sec _
  | num v => intro parent _; simp only [eval]
  | paren e ih => intro parent h; simp only [eval]; exact ih none (by simpa [mayNil] using h)
  | bin op l r _ _ => intro parent h; simp [mayNil] at h

theorem binaryEval_ne_crash (n : Nat) (op : BinOp) (a b : FArr) :
    (match binaryEval n op a b with | .crash => False | _ => True) := by
  unfold binaryEval
  by_cases h : (a.isEmpty n && b.isEmpty n) = true
  · simp [h]
  · simp [h]

/-- with the nil guard in `RateCall` no select item panics. -/
theorem eval_no_crash_guarded (n sec : Nat) (st : Store) :
    ∀ (e : Expr) (parent : Option FuncType),
      (match eval true n sec st parent e with | .crash => False | _ => True) := by
  intro e
  induction e with
  | field f =>
    intro parent
    simp only [eval]
    cases Map.lookup st f with
    | none => trivial
    | some fv =>
      simp only
      cases Map.lookup fv.arrs (paramOf fv.ftype parent) <;> trivial
  | call fn p ih =>
    intro parent
    simp only [eval]
    have := ih (some fn)
    cases hv : eval true n sec st (some fn) p <;> rw [hv] at this <;> cases fn <;> simp [applyFunc] at this ⊢
  | num v => intro parent; simp only [eval]
  | paren e ih => intro parent; simp only [eval]; exact ih none
  | bin op l r ihl ihr =>
    intro parent
    simp only [eval]
    have hl := ihl none
    have hr := ihr none
    cases h1 : eval true n sec st none l <;> rw [h1] at hl <;> simp only at hl ⊢ <;>
      cases h2 : eval true n sec st none r <;> rw [h2] at hr <;> simp only at hr ⊢ <;>
      first | trivial | exact binaryEval_ne_crash n op _ _

/-- the source without the guard: an item without `rate` directly over a binary expression does not
panic. -/
theorem eval_no_crash_of_rateSafe (g : Bool) (n sec : Nat) (st : Store) :
    ∀ (e : Expr) (parent : Option FuncType), rateSafe e = true →
      (match eval g n sec st parent e with | .crash => False | _ => True) := by
  intro e
  induction e with
  | field f =>
    intro parent _
    simp only [eval]
    cases Map.lookup st f with
    | none => trivial
    | some fv =>
      simp only
      cases Map.lookup fv.arrs (paramOf fv.ftype parent) <;> trivial
  | call fn p ih =>
    intro parent h
    simp only [rateSafe, Bool.and_eq_true] at h
    simp only [eval]
    have hp := ih (some fn) h.1
    have hn := eval_ne_nilArr g n sec st p (some fn)
    cases hv : eval g n sec st (some fn) p with
    | crash => rw [hv] at hp; exact absurd hp id
    | empty => simp [applyFunc]
    | arr a => cases fn <;> simp [applyFunc]
    | nilArr =>
      cases fn <;> simp only [applyFunc] <;> try trivial
      -- rate over the nil array: excluded by `rateSafe`
      have hm : mayNil p = false := by simpa using h.2
      have := hn hm
      rw [hv] at this
      exact absurd this id
  | num v => intro parent _; simp only [eval]
  | paren e ih => intro parent h; simp only [eval]; exact ih none (by simpa [rateSafe] using h)
  | bin op l r ihl ihr =>
    intro parent h
    simp only [rateSafe, Bool.and_eq_true] at h
    simp only [eval]
    have hl := ihl none h.1
    have hr := ihr none h.2
    cases h1 : eval g n sec st none l <;> rw [h1] at hl <;> simp only at hl ⊢ <;>
      cases h2 : eval g n sec st none r <;> rw [h2] at hr <;> simp only at hr ⊢ <;>
      first | trivial | exact binaryEval_ne_crash n op _ _

end LinVerif.Lemmas.C11
