/-
C14 round 12 — lemmas for pkg/encoding/utils.go and the 16/16 split of encoding.go.
-/
import LinVerif.Model.EncUtils

namespace LinVerif.EncUtils

theorem fromLE_le4 (v : Nat) (h : v < 4294967296) : fromLE (le4 v) = v := by
  simp only [le4, fromLE]; omega

theorem le4_length (v : Nat) : (le4 v).length = 4 := rfl
theorem le8_length (v : Nat) : (le8 v).length = 8 := rfl

theorem fromLE_append (a b : List Nat) : fromLE (a ++ b) = fromLE a + 256 ^ a.length * fromLE b := by
  induction a with
  | nil => simp [fromLE]
  | cons x xs ih => simp only [List.cons_append, fromLE, ih, List.length_cons, Nat.pow_succ]; rw [Nat.mul_add]; ac_rfl

theorem fromLE_le8 (v : Nat) (h : v < 18446744073709551616) : fromLE (le8 v) = v := by
  unfold le8
  rw [fromLE_append, fromLE_le4 _ (Nat.mod_lt _ (by decide)), fromLE_le4 _ (by omega), le4_length]
  omega

theorem u32_bytes_length (u : List Nat) : (u32SliceToBytes u).length = 4 * u.length := by
  induction u with
  | nil => rfl
  | cons x xs ih => simp only [u32SliceToBytes, List.flatMap_cons, List.length_append, le4_length, List.length_cons] at ih ⊢; omega

theorem u64_bytes_length (u : List Nat) : (u64SliceToBytes u).length = 8 * u.length := by
  induction u with
  | nil => rfl
  | cons x xs ih => simp only [u64SliceToBytes, List.flatMap_cons, List.length_append, le8_length, List.length_cons] at ih ⊢; omega

/-- reading `len u` words back from the bytes of `u` (whatever follows) gives `u` -/
theorem words4_bytes (u : List Nat) (tail : List Nat) (h : ∀ v ∈ u, v < 4294967296) :
    words 4 u.length (u32SliceToBytes u ++ tail) = u := by
  induction u with
  | nil => rfl
  | cons x xs ih =>
    have hx := h x (by simp)
    have hxs : ∀ v ∈ xs, v < 4294967296 := fun v hv => h v (by simp [hv])
    simp only [u32SliceToBytes, List.flatMap_cons, List.length_cons, words, List.append_assoc]
    have e1 : (le4 x ++ (List.flatMap le4 xs ++ tail)).take 4 = le4 x := by
      rw [List.take_append_of_le_length (by simp [le4_length])]; simp [le4]
    have e2 : (le4 x ++ (List.flatMap le4 xs ++ tail)).drop 4 = List.flatMap le4 xs ++ tail := by
      rw [List.drop_append_of_le_length (by simp [le4_length])]; simp [le4]
    rw [e1, e2, fromLE_le4 x hx]
    exact congrArg _ (ih hxs)

theorem words8_bytes (u : List Nat) (tail : List Nat) (h : ∀ v ∈ u, v < 18446744073709551616) :
    words 8 u.length (u64SliceToBytes u ++ tail) = u := by
  induction u with
  | nil => rfl
  | cons x xs ih =>
    have hx := h x (by simp)
    have hxs : ∀ v ∈ xs, v < 18446744073709551616 := fun v hv => h v (by simp [hv])
    simp only [u64SliceToBytes, List.flatMap_cons, List.length_cons, words, List.append_assoc]
    have e1 : (le8 x ++ (List.flatMap le8 xs ++ tail)).take 8 = le8 x := by
      rw [List.take_append_of_le_length (by simp [le8_length])]; simp [le8, le4]
    have e2 : (le8 x ++ (List.flatMap le8 xs ++ tail)).drop 8 = List.flatMap le8 xs ++ tail := by
      rw [List.drop_append_of_le_length (by simp [le8_length])]; simp [le8, le4]
    rw [e1, e2, fromLE_le8 x hx]
    exact congrArg _ (ih hxs)

theorem land_65535 (x : Nat) : x &&& 65535 = x % 65536 := by
  have : (65535 : Nat) = 2 ^ 16 - 1 := by decide
  rw [this, Nat.and_two_pow_sub_one_eq_mod]

theorem split_roundtrip (x : Nat) (h : x < 4294967296) :
    valueWithHighLowBits (highBits x <<< 16) (lowBits x) = x := by
  unfold valueWithHighLowBits highBits lowBits
  rw [land_65535, land_65535]
  rw [Nat.shiftRight_eq_div_pow, Nat.shiftLeft_eq]
  have h1 : x % 65536 % 65536 % 65536 = x % 65536 := by omega
  rw [h1]
  have h2 : x / 2 ^ 16 % 65536 = x / 65536 := by omega
  rw [h2]
  have := Nat.two_pow_add_eq_or_of_lt (i := 16) (b := x % 65536) (by omega) (x / 65536)
  rw [Nat.or_comm, Nat.mul_comm, ← this]
  omega

theorem split_inverse (hi lo : Nat) (h1 : hi < 65536) (h2 : lo < 65536) :
    highBits (valueWithHighLowBits (hi <<< 16) lo) = hi ∧ lowBits (valueWithHighLowBits (hi <<< 16) lo) = lo := by
  unfold valueWithHighLowBits highBits lowBits
  rw [land_65535, land_65535, Nat.shiftRight_eq_div_pow, Nat.shiftLeft_eq]
  have := Nat.two_pow_add_eq_or_of_lt (i := 16) (b := lo % 65536) (by omega) hi
  rw [Nat.or_comm, Nat.mul_comm, ← this]
  omega

end LinVerif.EncUtils
