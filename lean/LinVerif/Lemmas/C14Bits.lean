/-
Refinement of the byte-level bit writer / bit reader (Model/Bits.lean) to an abstract
`List Bool` stream.

  * `natBits n x`  : the `n` low bits of `x`, most significant first
  * `bitsVal l`    : the number a bit list denotes (big endian)
  * `Writer.bits`  : everything written so far = bits of the flushed bytes ++ pending bits
  * `Reader.rest`  : everything still to be read = unread bits of the current byte ++ bits of the unread bytes
-/
import LinVerif.Model.Bits

namespace LinVerif.Bits
open LinVerif.Varint (two64)

def natBits : Nat → Nat → List Bool
  | 0, _ => []
  | n + 1, x => x.testBit n :: natBits n x

def bitsVal (l : List Bool) : Nat := l.foldl (fun a b => 2 * a + b.toNat) 0

def bytesBits (bs : List Nat) : List Bool := bs.flatMap (natBits 8)

@[simp] theorem natBits_length (n x : Nat) : (natBits n x).length = n := by
  induction n with
  | zero => rfl
  | succ n ih => simp [natBits, ih]

theorem natBits_congr {n x y : Nat} (h : ∀ i, i < n → x.testBit i = y.testBit i) :
    natBits n x = natBits n y := by
  induction n with
  | zero => rfl
  | succ n ih =>
    simp only [natBits]
    rw [h n (by omega), ih (fun i hi => h i (by omega))]

theorem natBits_add (m n x : Nat) : natBits (m + n) x = natBits m (x >>> n) ++ natBits n x := by
  induction m with
  | zero => simp [natBits]
  | succ m ih =>
    have e : m + 1 + n = (m + n) + 1 := by omega
    rw [e]
    simp only [natBits, List.cons_append, ih, Nat.testBit_shiftRight]
    rw [Nat.add_comm n m]

theorem natBits_zero (n : Nat) : natBits n 0 = List.replicate n false := by
  induction n with
  | zero => rfl
  | succ n ih => simp [natBits, ih, List.replicate_succ]

theorem natBits_eq_replicate {n x : Nat} (h : ∀ i, i < n → x.testBit i = false) :
    natBits n x = List.replicate n false := by
  rw [← natBits_zero]
  exact natBits_congr (fun i hi => by simp [h i hi])

theorem foldl_bits (l : List Bool) (a : Nat) :
    l.foldl (fun a b => 2 * a + b.toNat) a = a * 2 ^ l.length + l.foldl (fun a b => 2 * a + b.toNat) 0 := by
  induction l generalizing a with
  | nil => simp
  | cons b t ih =>
    simp only [List.foldl_cons, List.length_cons]
    rw [ih (2 * a + b.toNat), ih (2 * 0 + b.toNat)]
    rw [Nat.pow_succ, Nat.add_mul, Nat.mul_zero, Nat.zero_add]
    have : 2 * a * 2 ^ t.length = a * (2 ^ t.length * 2) := by
      rw [Nat.mul_comm 2 a, Nat.mul_assoc, Nat.mul_comm 2]
    omega

theorem bitsVal_cons (b : Bool) (t : List Bool) : bitsVal (b :: t) = b.toNat * 2 ^ t.length + bitsVal t := by
  unfold bitsVal
  rw [List.foldl_cons, foldl_bits]
  simp

theorem bitsVal_append (l1 l2 : List Bool) : bitsVal (l1 ++ l2) = bitsVal l1 * 2 ^ l2.length + bitsVal l2 := by
  unfold bitsVal
  rw [List.foldl_append, foldl_bits]

theorem bitsVal_lt (l : List Bool) : bitsVal l < 2 ^ l.length := by
  induction l with
  | nil => simp [bitsVal]
  | cons b t ih =>
    rw [bitsVal_cons, List.length_cons, Nat.pow_succ]
    have : b.toNat ≤ 1 := by cases b <;> simp
    have : b.toNat * 2 ^ t.length ≤ 1 * 2 ^ t.length := Nat.mul_le_mul_right _ this
    omega

theorem bitsVal_natBits (n x : Nat) : bitsVal (natBits n x) = x % 2 ^ n := by
  induction n with
  | zero => simp [natBits, bitsVal, Nat.mod_one]
  | succ n ih =>
    simp only [natBits]
    rw [bitsVal_cons, natBits_length, ih, Nat.toNat_testBit, Nat.mod_pow_succ, Nat.mul_comm]
    omega

theorem natBits_bitsVal (l : List Bool) : natBits l.length (bitsVal l) = l := by
  induction l with
  | nil => rfl
  | cons b t ih =>
    simp only [List.length_cons, natBits]
    have hlt := bitsVal_lt t
    have hv : bitsVal (b :: t) = 2 ^ t.length * b.toNat + bitsVal t := by
      rw [bitsVal_cons, Nat.mul_comm]
    rw [hv]
    congr 1
    · rw [Nat.testBit_two_pow_mul_add _ hlt]
      simp
      cases b <;> simp
    · rw [← ih]
      simp only [natBits_length]
      apply natBits_congr
      intro i hi
      rw [ih, Nat.testBit_two_pow_mul_add _ hlt]
      simp [hi]

theorem natBits_bitsVal' {n : Nat} (l : List Bool) (h : l.length = n) : natBits n (bitsVal l) = l := by
  subst h; exact natBits_bitsVal l

theorem bytesBits_append (a b : List Nat) : bytesBits (a ++ b) = bytesBits a ++ bytesBits b := by
  simp [bytesBits, List.flatMap_append]

theorem bytesBits_cons (a : Nat) (b : List Nat) : bytesBits (a :: b) = natBits 8 a ++ bytesBits b := by
  simp [bytesBits, List.flatMap_cons]

@[simp] theorem bytesBits_nil : bytesBits [] = [] := rfl

theorem bytesBits_length (a : List Nat) : (bytesBits a).length = 8 * a.length := by
  induction a with
  | nil => rfl
  | cons x t ih => rw [bytesBits_cons, List.length_append, natBits_length, ih, List.length_cons]; omega

theorem testBit_of_lt_256 {x i : Nat} (h : x < 256) (hi : 8 ≤ i) : x.testBit i = false := by
  apply Nat.testBit_lt_two_pow
  have : (2:Nat) ^ 8 ≤ 2 ^ i := Nat.pow_le_pow_right (by omega) hi
  omega

end LinVerif.Bits
