/-
Helper lemmas for C17, round 10: the field-expression stack machine over the walk of a derivation.
Core only.
-/
import LinVerif.Lemmas.C17Glue
import LinVerif.Model.C17Parse

namespace LinVerif.Stmt
open LinVerif.Json

theorem prun_append (rw : Expr → Option String) (st : PState) (a b : List PEv) :
    prun rw st (a ++ b) = prun rw (prun rw st a) b := by
  simp [prun, List.foldl_append]

theorem prun_cons (rw : Expr → Option String) (st : PState) (e : PEv) (es : List PEv) :
    prun rw st (e :: es) = prun rw (pstep rw st e) es := rfl

theorem prun_nil (rw : Expr → Option String) (st : PState) : prun rw st [] = st := rfl

/-! ## `setExprParam` -/

theorem setParamOn_binary_left (e : Expr) (op : Int) :
    setParamOn (.binary .nil .nil op) e = .binary e .nil op := rfl

theorem setParamOn_binary_right (l e : Expr) (op : Int) (h : l ≠ .nil) :
    setParamOn (.binary l .nil op) e = .binary l e op := by
  cases l <;> simp_all [setParamOn]

theorem foldl_setParamOn_call (fn : Int) (xs acc : List Expr) :
    xs.foldl setParamOn (.call fn acc) = .call fn (acc ++ xs) := by
  induction xs generalizing acc with
  | nil => simp
  | cons x xs ih => simp [List.foldl_cons, setParamOn, ih]

theorem tree_ne_nil (d : FExpr) (x : Expr) (h : d.tree = some x) : x ≠ .nil := by
  cases d with
  | bin o l r =>
    simp only [FExpr.tree] at h
    cases hl : l.tree <;> cases hr : r.tree <;> simp [hl, hr] at h <;> subst h <;> simp
  | paren e =>
    simp only [FExpr.tree] at h
    cases he : e.tree <;> simp [he] at h <;> subst h <;> simp
  | call fn ps => simp only [FExpr.tree] at h; injection h with h; subst h; simp
  | ident n => simp only [FExpr.tree] at h; injection h with h; subst h; simp
  | num v =>
    simp only [FExpr.tree] at h
    by_cases hv : v.isFinite <;> simp [hv] at h
    subst h; simp
  | dur => simp [FExpr.tree] at h
  | star => simp [FExpr.tree] at h

/-! ## the nested walk -/

theorem applyNestedList_nil (st : PState) (top : Expr) (rest : List Expr)
    (hs : st.stack = top :: rest) : applyNestedList st top rest [] = st := by
  obtain ⟨stack, sel, fns, all, ob, cur, hob, hav, hst, err, pan⟩ := st
  simp only at hs; subst hs
  simp [applyNestedList, treeList, hasStarList, identsList, rangeErrList]

mutual
/-- the stack machine over the walk of ANY derivation below a node: the node on top of the stack
receives the derivation's tree (if it has one) by `setExprParam`, the rest of the stack and every
clause list are untouched -/
theorem nested_walk (rw : Expr → Option String) : ∀ (d : FExpr) (st : PState) (top : Expr) (rest : List Expr),
    st.stack = top :: rest → st.panicked = false → prun rw st d.walk = applyNested st top rest d
  | .star, st, top, rest, hs, hp => by
    obtain ⟨stack, sel, fns, all, ob, cur, hob, hav, hst, err, pan⟩ := st
    simp only at hs hp; subst hs; subst hp
    simp [FExpr.walk, prun, pstep, applyNested, FExpr.tree, FExpr.hasStar, FExpr.idents, FExpr.rangeErr]
  | .dur, st, top, rest, hs, hp => by
    obtain ⟨stack, sel, fns, all, ob, cur, hob, hav, hst, err, pan⟩ := st
    simp only at hs hp; subst hs; subst hp
    simp [FExpr.walk, prun, pstep, applyNested, FExpr.tree, FExpr.hasStar, FExpr.idents, FExpr.rangeErr]
  | .num v, st, top, rest, hs, hp => by
    obtain ⟨stack, sel, fns, all, ob, cur, hob, hav, hst, err, pan⟩ := st
    simp only at hs hp; subst hs; subst hp
    by_cases hv : v.isFinite <;>
    simp [FExpr.walk, prun, pstep, applyNested, FExpr.tree, FExpr.hasStar, FExpr.idents, FExpr.rangeErr,
      setExprParam, hv]
  | .ident n, st, top, rest, hs, hp => by
    obtain ⟨stack, sel, fns, all, ob, cur, hob, hav, hst, err, pan⟩ := st
    simp only at hs hp; subst hs; subst hp
    cases hob <;> cases hav <;>
    simp [FExpr.walk, prun, pstep, applyNested, FExpr.tree, FExpr.hasStar, FExpr.idents, FExpr.rangeErr,
      setExprParam]
  | .paren e, st, top, rest, hs, hp => by
    obtain ⟨stack, sel, fns, all, ob, cur, hob, hav, hst, err, pan⟩ := st
    simp only at hs hp; subst hs; subst hp
    have ih := nested_walk rw e
    simp only [FExpr.walk, prun_cons, prun_append]
    simp only [pstep, PState.push, Bool.false_eq_true, if_false]
    rw [ih _ (.paren .nil) (top :: rest) rfl rfl]
    cases he : e.tree <;>
    simp [prun, pstep, applyNested, setExprParam, setParamOn, FExpr.tree, FExpr.hasStar, FExpr.idents,
      FExpr.rangeErr, he] <;> rfl
  | .bin o l r, st, top, rest, hs, hp => by
    obtain ⟨stack, sel, fns, all, ob, cur, hob, hav, hst, err, pan⟩ := st
    simp only at hs hp; subst hs; subst hp
    have ihl := nested_walk rw l
    have ihr := nested_walk rw r
    simp only [FExpr.walk, prun_cons, prun_append]
    have hpush : pstep rw ⟨top :: rest, sel, fns, all, ob, cur, hob, hav, hst, err, false⟩ (.enterField o.alt)
        = ⟨.binary .nil .nil o.code :: top :: rest, sel, fns, all, ob, cur, hob, hav, hst, err, false⟩ := by
      cases o <;> simp [pstep, PState.push, ArOp.alt, ArOp.code]
    rw [hpush, ihl _ (.binary .nil .nil o.code) (top :: rest) rfl rfl]
    rw [ihr _ _ (top :: rest) rfl rfl]
    have hexit : ∀ (s : PState) (c : Expr), s.panicked = false → s.stack = c :: top :: rest →
        pstep rw s (.exitField o.alt) = { s with stack := setParamOn top c :: rest } := by
      intro s c hp hs
      obtain ⟨stack, sel, fns, all, ob, cur, hob, hav, hst, err, pan⟩ := s
      simp only at hs hp; subst hs; subst hp
      cases o <;> simp [pstep, ArOp.alt, setExprParam]
    rw [prun_nil, hexit _ _ rfl rfl]
    cases hlt : l.tree with
    | none =>
      cases hrt : r.tree <;> cases hob <;> cases hav <;>
      simp [applyNested, FExpr.tree, FExpr.hasStar, FExpr.idents, FExpr.rangeErr, hlt, hrt,
        setParamOn_binary_left, Bool.or_assoc] <;>
      (cases l.rangeErr <;> cases r.rangeErr <;> simp)
    | some a =>
      have ha := tree_ne_nil l a hlt
      cases hrt : r.tree <;> cases hob <;> cases hav <;>
      simp [applyNested, FExpr.tree, FExpr.hasStar, FExpr.idents, FExpr.rangeErr, hlt, hrt,
        setParamOn_binary_left, setParamOn_binary_right _ _ _ ha, Bool.or_assoc] <;>
      (cases l.rangeErr <;> cases r.rangeErr <;> simp)
  | .call fn ps, st, top, rest, hs, hp => by
    obtain ⟨stack, sel, fns, all, ob, cur, hob, hav, hst, err, pan⟩ := st
    simp only at hs hp; subst hs; subst hp
    have ih := nested_walkList rw ps
    simp only [FExpr.walk, prun_cons, prun_append]
    simp only [pstep, PState.push, Bool.false_eq_true, if_false]
    rw [ih _ (.call fn []) (top :: rest) rfl rfl]
    simp [prun, pstep, applyNested, applyNestedList, setExprParam, foldl_setParamOn_call, FExpr.tree,
      FExpr.hasStar, FExpr.idents, FExpr.rangeErr] <;> rfl
theorem nested_walkList (rw : Expr → Option String) : ∀ (ds : List FExpr) (st : PState) (top : Expr) (rest : List Expr),
    st.stack = top :: rest → st.panicked = false →
    prun rw st (walkList ds) = applyNestedList st top rest ds
  | [], st, top, rest, hs, _ => by
    simp only [walkList, prun_nil]
    exact (applyNestedList_nil st top rest hs).symm
  | d :: ds, st, top, rest, hs, hp => by
    obtain ⟨stack, sel, fns, all, ob, cur, hob, hav, hst, err, pan⟩ := st
    simp only at hs hp; subst hs; subst hp
    have ihd := nested_walk rw d
    have ihs := nested_walkList rw ds
    simp only [walkList, prun_append]
    rw [ihd _ top rest rfl rfl, ihs _ _ rest rfl rfl]
    cases hdt : d.tree <;> cases hob <;> cases hav <;>
    simp [applyNested, applyNestedList, treeList, hasStarList, identsList, rangeErrList, hdt, Bool.or_assoc] <;>
    (cases d.rangeErr <;> cases rangeErrList ds <;> simp)
end

/-- `strconv.ParseFloat` returned no error ⇒ its value is finite (the contract for digit strings;
the `err != nil` guard itself is `tie_parseFloatGuard`) -/
def PEv.numOk : PEv → Bool
  | .atomNum v rangeErr => rangeErr || v.isFinite
  | _ => true

/-- every number literal anywhere in the parser state is finite -/
def PState.numsFinite (st : PState) : Bool :=
  numbersFiniteList st.stack && numbersFiniteList st.selectItems && numbersFiniteList st.orderBy &&
    (match st.curOrderBy with | some (e, _) => e.numbersFinite | none => true) && st.havingStmt.numbersFinite


/-- the effect of a `boolExpr` derivation on a state in HAVING mode -/
def applyBool (st : PState) (stack : List Expr) (b : BExpr) : PState :=
  { st with stack := stack, allFields := st.allFields || b.hasStar,
            err := if b.rangeErr then some .parseFloat else st.err }


end LinVerif.Stmt
