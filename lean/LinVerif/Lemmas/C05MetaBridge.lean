/-
C05, round 9: the thread programs of Model/C05QueueMeta.lean, run by ONE caller to their return,
do to the four sequence words exactly what the sequential queue model (Model/Queue.lean: `put`,
`setAppended`, `ack`, `openQ`) does — the meta-writer model is the queue model's meta page, refined
to instruction granularity.
-/
import LinVerif.Lemmas.C05Seq
import LinVerif.Lemmas.C05Meta

namespace LinVerif.QueueMeta
open LinVerif.Queue

/-- the four words of a queue-model state: in-memory appended / acknowledged, meta page words -/
def wordsOf (st : St) : Int × Int × Int × Int :=
  (st.q.appended, st.q.acked, st.mem.metaW queueAppendedSeqOffset, st.mem.metaW queueAcknowledgedSeqOffset)

def MSt.words (σ : MSt) : Int × Int × Int × Int := (σ.memApp, σ.memAck, σ.diskApp, σ.diskAck)

def MSt.ofSt (st : St) : MSt :=
  { memApp := st.q.appended, memAck := st.q.acked, diskApp := st.mem.metaW queueAppendedSeqOffset,
    diskAck := st.mem.metaW queueAcknowledgedSeqOffset, holder := none, ths := fun _ => .idle, rets := [] }

/-- caller 0 calls `k arg` and executes `n` instructions -/
def alone (k : Kind) (arg : Int) (n : Nat) : List MEv := .call 0 k arg :: List.replicate n (.step 0)

theorem put_words (st : St) (m : Msg) (hm : m.len ≤ dataPageSize) :
    wordsOf (put st m).1 =
      (st.q.appended + 1, st.q.acked, st.q.appended + 1, st.mem.metaW queueAcknowledgedSeqOffset) ∧
    (put st m).2 = .ok (st.q.appended + 1) := by
  have h : ¬ m.len > dataPageSize := by omega
  simp only [put, h, if_false, wordsOf]
  have ha : (alloc st.mem st.q m.len).q.appended = st.q.appended ∧ (alloc st.mem st.q m.len).q.acked = st.q.acked ∧
      (alloc st.mem st.q m.len).mem.metaW = st.mem.metaW := by
    unfold alloc; split <;> simp
  have h4 : ¬ (m.len + 4 ≤ m.len) := by omega
  simp only [putStores, h4, if_false, publish, persistStores_metaW, ha.1, ha.2.1]
  have h5 : m.len + 4 - m.len = 4 := by omega
  simp [h5, writeData, ha.2.2, queueAppendedSeqOffset, queueAcknowledgedSeqOffset]

theorem put_alone (st : St) (m : Msg) (hm : m.len ≤ dataPageSize) :
    (mrun currentProgs (MSt.ofSt st) (alone .put 0 5)).map (fun σ => (σ.words, σ.rets, σ.holder)) =
      some (wordsOf (put st m).1, [st.q.appended + 1], none) := by
  rw [(put_words st m hm).1]
  simp [alone, List.replicate, mrun, mstep, MSt.ofSt, setTh, currentProgs, Progs.of, retire, execInstr, Src.eval,
    MSt.words]

theorem reset_alone (st : St) (s : Int) :
    (mrun currentProgs (MSt.ofSt st) (alone .reset s 7)).map (fun σ => (σ.words, σ.rets, σ.holder)) =
      some (wordsOf (setAppended st s), [], none) := by
  simp [alone, List.replicate, mrun, mstep, MSt.ofSt, setTh, currentProgs, Progs.of, retire, execInstr, Src.eval,
    MSt.words, wordsOf, setAppended, setMeta, queueAppendedSeqOffset, queueAcknowledgedSeqOffset]

theorem ack_alone (st : St) (s : Int) :
    (mrun currentProgs (MSt.ofSt st) (alone .ack s (if s > st.q.acked ∧ s ≤ st.q.appended then 6 else 3))).map
        (fun σ => (σ.words, σ.rets, σ.holder)) =
      some (wordsOf (ack st s), [], none) := by
  by_cases h : s > st.q.acked ∧ s ≤ st.q.appended
  · simp [h, alone, List.replicate, mrun, mstep, MSt.ofSt, setTh, currentProgs, Progs.of, retire, execInstr, Src.eval,
      MSt.words, wordsOf, ack, setMeta, queueAppendedSeqOffset, queueAcknowledgedSeqOffset]
  · simp [h, alone, List.replicate, mrun, mstep, MSt.ofSt, setTh, currentProgs, Progs.of, retire, execInstr, Src.eval,
      MSt.words, wordsOf, ack]

/-- NewQueue on an existing meta page reads both sequences back: `crash` = the words of `openQ` -/
theorem crash_is_openQ (st : St) (h : st.mem.hasMeta = true) :
    (crash currentProgs (MSt.ofSt st)).words = wordsOf (openQ st.mem) := by
  have hq : ∀ mem a k, (initDataPageIndex mem a k).q.appended = a ∧ (initDataPageIndex mem a k).q.acked = k ∧
      (initDataPageIndex mem a k).mem.metaW = mem.metaW := by
    intro mem a k; unfold initDataPageIndex; split <;> simp
  simp [crash, currentProgs, execInstr, Src.eval, MSt.words, MSt.ofSt, wordsOf, openQ, h, hq]

end LinVerif.QueueMeta
