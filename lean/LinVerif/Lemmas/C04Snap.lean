/-
C04 — lemmas about the manifest snapshot / restore of the rollup bookkeeping (Model/Rollup.lean §E):
what `restore` yields, that the snapshot of the code's shape has exactly the entries of the versions,
hence a restart is an `Op.reopen` step and keeps the inductive invariant `Inv` — for any number of
restarts and any emission order of the map iterations.
-/
import LinVerif.Lemmas.C04Once
import Mathlib.Data.List.Count

set_option linter.unusedSimpArgs false
namespace LinVerif.Lemmas.C04
open LinVerif.Rollup

/-- replaying snapshot logs on top of `acc`: a rollup entry is present iff it was there or is logged,
a reference likewise, and the reference list stays duplicate free -/
theorem foldl_restore_spec (logs : List SLog) :
    ∀ acc : List (Key × Iv) × List (Iv × Key),
      (∀ p : Key × Iv, p ∈ (logs.foldl restoreLog acc).1 ↔ p ∈ acc.1 ∨ SLog.newRollup p.1 p.2 ∈ logs) ∧
      (∀ q : Iv × Key, q ∈ (logs.foldl restoreLog acc).2 ↔ q ∈ acc.2 ∨ SLog.newRef q.1 q.2 ∈ logs) ∧
      (acc.2.Nodup → (logs.foldl restoreLog acc).2.Nodup) := by
  induction logs with
  | nil => intro acc; simp
  | cons l t ih =>
    intro acc
    obtain ⟨h1, h2, h3⟩ := ih (restoreLog acc l)
    simp only [List.foldl_cons]
    cases l with
    | newRef i k =>
      by_cases hm : (i, k) ∈ acc.2
      · have e : restoreLog acc (SLog.newRef i k) = acc := by simp [restoreLog, hm]
        rw [e] at h1 h2 h3 ⊢
        refine ⟨?_, ?_, h3⟩
        · intro p; rw [h1 p]; simp
        · intro q; rw [h2 q]
          constructor
          · rintro (h | h)
            · exact Or.inl h
            · exact Or.inr (List.mem_cons_of_mem _ h)
          · rintro (h | h)
            · exact Or.inl h
            · rcases List.mem_cons.1 h with h | h
              · injection h with hi hk
                have : q = (i, k) := Prod.ext hi hk
                exact Or.inl (this ▸ hm)
              · exact Or.inr h
      · have e : restoreLog acc (SLog.newRef i k) = (acc.1, acc.2 ++ [(i, k)]) := by simp [restoreLog, hm]
        rw [e] at h1 h2 h3 ⊢
        refine ⟨?_, ?_, ?_⟩
        · intro p; rw [h1 p]; simp
        · intro q; rw [h2 q]
          simp only [List.mem_append, List.mem_cons, List.not_mem_nil, or_false, SLog.newRef.injEq]
          constructor
          · rintro ((h | h) | h)
            · exact Or.inl h
            · exact Or.inr (Or.inl ⟨congrArg Prod.fst h, congrArg Prod.snd h⟩)
            · exact Or.inr (Or.inr h)
          · rintro (h | ⟨hi, hk⟩ | h)
            · exact Or.inl (Or.inl h)
            · exact Or.inl (Or.inr (Prod.ext hi hk))
            · exact Or.inr h
        · intro hn
          apply h3
          simp only
          rw [List.nodup_append]
          refine ⟨hn, by simp, ?_⟩
          intro a ha b hb
          simp only [List.mem_singleton] at hb
          subst hb
          intro hab
          exact hm (hab ▸ ha)
    | newRollup k i =>
      have e : restoreLog acc (SLog.newRollup k i) = (acc.1 ++ [(k, i)], acc.2) := rfl
      rw [e] at h1 h2 h3 ⊢
      refine ⟨?_, ?_, h3⟩
      · intro p; rw [h1 p]
        simp only [List.mem_append, List.mem_cons, List.not_mem_nil, or_false, SLog.newRollup.injEq]
        constructor
        · rintro ((h | h) | h)
          · exact Or.inl h
          · exact Or.inr (Or.inl ⟨congrArg Prod.fst h, congrArg Prod.snd h⟩)
          · exact Or.inr (Or.inr h)
        · rintro (h | ⟨hk, hi⟩ | h)
          · exact Or.inl (Or.inl h)
          · exact Or.inl (Or.inr (Prod.ext hk hi))
          · exact Or.inr h
      · intro q; rw [h2 q]; simp

/-- `restore`: exactly the logged entries, references without duplicates -/
theorem restore_spec (logs : List SLog) :
    (∀ p : Key × Iv, p ∈ (restore logs).1 ↔ SLog.newRollup p.1 p.2 ∈ logs) ∧
    (∀ q : Iv × Key, q ∈ (restore logs).2 ↔ SLog.newRef q.1 q.2 ∈ logs) ∧
    (restore logs).2.Nodup := by
  obtain ⟨h1, h2, h3⟩ := foldl_restore_spec logs ([], [])
  refine ⟨?_, ?_, h3 (by simp)⟩
  · intro p; rw [restore, h1 p]; simp
  · intro q; rw [restore, h2 q]; simp

/-- the snapshot of the code's shape (family id = loop variable) logs exactly the live entries -/
theorem snapshot_mem (own : Iv → Nat) (σ : St) :
    (∀ p : Key × Iv, SLog.newRollup p.1 p.2 ∈ snapshotLogs true own σ ↔ p ∈ σ.pending) ∧
    (∀ q : Iv × Key, SLog.newRef q.1 q.2 ∈ snapshotLogs true own σ ↔ q ∈ σ.refs) := by
  constructor
  · intro p
    simp only [snapshotLogs, List.mem_append, List.mem_map, if_true, reduceCtorEq, and_false, exists_false,
      false_or, SLog.newRollup.injEq]
    constructor
    · rintro ⟨a, ha, h1, h2⟩
      have : a = p := Prod.ext h1 h2
      exact this ▸ ha
    · intro h; exact ⟨p, h, rfl, rfl⟩
  · intro q
    simp only [snapshotLogs, List.mem_append, List.mem_map, if_true, reduceCtorEq, and_false, exists_false,
      or_false, SLog.newRef.injEq]
    constructor
    · rintro ⟨a, ha, h1, h2⟩
      have : a = q := Prod.ext h1 h2
      exact this ▸ ha
    · intro h; exact ⟨q, h, rfl, rfl⟩

/-- `perm` emits the same logs (any order, any multiplicity) -/
def SameLogs (perm : List SLog → List SLog) : Prop := ∀ l x, x ∈ perm l ↔ x ∈ l

theorem sameMem_of_iff {α : Type} [DecidableEq α] (a b : List α) (h : ∀ x, x ∈ a ↔ x ∈ b) :
    sameMem a b = true := by
  simp only [sameMem, Bool.and_eq_true, List.all_eq_true, decide_eq_true_eq]
  exact ⟨fun x hx => (h x).1 hx, fun x hx => (h x).2 hx⟩

/-- a restart (code's shape, any emission order) keeps the members of both tables … -/
theorem restart_mem (own : Iv → Nat) (perm : List SLog → List SLog) (hp : SameLogs perm) (σ : St) :
    (∀ p, p ∈ (σ.restart true own perm).pending ↔ p ∈ σ.pending) ∧
    (∀ q, q ∈ (σ.restart true own perm).refs ↔ q ∈ σ.refs) ∧
    (σ.restart true own perm).refs.Nodup := by
  obtain ⟨r1, r2, r3⟩ := restore_spec (perm (snapshotLogs true own σ))
  obtain ⟨s1, s2⟩ := snapshot_mem own σ
  refine ⟨?_, ?_, r3⟩
  · intro p
    show p ∈ (restore _).1 ↔ _
    rw [r1 p, hp, s1 p]
  · intro q
    show q ∈ (restore _).2 ↔ _
    rw [r2 q, hp, s2 q]

/-- … hence it IS the `Op.reopen` step of the history model with the restored lists -/
theorem restart_eq_reopen (own : Iv → Nat) (perm : List SLog → List SLog) (hp : SameLogs perm) (σ : St) :
    σ.restart true own perm =
      σ.step (.reopen (restore (perm (snapshotLogs true own σ))).1 (restore (perm (snapshotLogs true own σ))).2) := by
  obtain ⟨m1, m2, _⟩ := restart_mem own perm hp σ
  have e1 := sameMem_of_iff _ _ m1
  have e2 := sameMem_of_iff _ _ m2
  simp only [St.restart, St.restartWith] at e1 e2
  simp only [St.step, e1, e2, Bool.and_self, if_true, St.restart, St.restartWith]

theorem Inv.restart {σ : St} (h : Inv σ) (own : Iv → Nat) (perm : List SLog → List SLog) (hp : SameLogs perm) :
    Inv (σ.restart true own perm) := by
  rw [restart_eq_reopen own perm hp σ]
  exact h.step _

/-- what any number of restarts leaves untouched / keeps up to order -/
structure SameBook (σ σ' : St) : Prop where
  pending : ∀ p, p ∈ σ'.pending ↔ p ∈ σ.pending
  refs : ∀ q, q ∈ σ'.refs ↔ q ∈ σ.refs
  merged : σ'.merged = σ.merged
  l0 : σ'.l0 = σ.l0
  registered : σ'.registered = σ.registered

theorem restarts_spec (own : Iv → Nat) (perms : List (List SLog → List SLog)) (hps : ∀ f ∈ perms, SameLogs f) :
    ∀ σ : St, Inv σ → Inv (σ.restarts true own perms) ∧ SameBook σ (σ.restarts true own perms) := by
  induction perms with
  | nil => intro σ h; exact ⟨h, ⟨fun _ => Iff.rfl, fun _ => Iff.rfl, rfl, rfl, rfl⟩⟩
  | cons f t ih =>
    intro σ h
    have hf := hps f (List.mem_cons_self ..)
    have h1 := h.restart own f hf
    obtain ⟨m1, m2, _⟩ := restart_mem own f hf σ
    obtain ⟨i2, b2⟩ := ih (fun g hg => hps g (List.mem_cons_of_mem _ hg)) (σ.restart true own f) h1
    refine ⟨i2, ⟨?_, ?_, ?_, ?_, ?_⟩⟩
    · intro p; exact (b2.pending p).trans (m1 p)
    · intro q; exact (b2.refs q).trans (m2 q)
    · exact b2.merged
    · exact b2.l0
    · exact b2.registered

/-- a complete run from ANY state satisfying the invariant drains the family (the body of
`Props.C04.rollup_drains`, for states that are not written as `St.init.run ops`) -/
theorem drains_of_inv (σ : St) (h0 : Inv σ) (fam : Nat) (ivs avail dvs : List Iv) :
    let σ' := σ.step (.rollup fam ivs avail dvs none)
    Inv σ' ∧ (∀ p ∈ σ'.pending, ¬ (p.1.1 = fam ∧ p.2 ∈ ivs ∧ p.2 ∈ avail))
    ∧ (∀ p ∈ σ'.registered, p.1 ∈ σ'.l0 → p.1.1 = fam → p.2 ∈ ivs → p.2 ∈ avail → σ'.merged.count p = 1) := by
  intro σ'
  have h : Inv σ' := h0.step _
  have hpend : ∀ p ∈ σ'.pending, ¬ (p.1.1 = fam ∧ p.2 ∈ ivs ∧ p.2 ∈ avail) := by
    intro p hp
    have := (rollup_pending σ h0 fam ivs (fun i => decide (i ∈ avail)) dvs p hp).2
    simpa using this
  refine ⟨h, hpend, ?_⟩
  intro p hp hl hf hi ha
  rcases h.live p hp hl with h1 | h1
  · exact absurd ⟨hf, hi, ha⟩ (hpend p h1)
  · exact List.count_eq_one_of_mem h.nodup h1

end LinVerif.Lemmas.C04
