/-
C16 — helper lemmas: what the flat path accepts, declaratively (`ValidFlat`), and where it agrees with the
protobuf path.
-/
import Mathlib.Tactic.SplitIfs
import LinVerif.Lemmas.C16Flat
import LinVerif.Lemmas.C16Valid

namespace LinVerif.Lemmas.C16
open LinVerif.Row LinVerif.FlatRow

/-! ### the loops, as predicates -/

theorem firstTagErr_none_iff (l : Limits) : ∀ tags : List Tag,
    firstTagErr l tags = none ↔ ∀ t ∈ tags, TagOk l t
  | [] => by simp [firstTagErr]
  | t :: rest => by
    simp only [firstTagErr, List.mem_cons, forall_eq_or_imp]
    split_ifs with h1 h2 h3
    · simp [TagOk, h1]
    · simp [TagOk, h2]
    · rcases h3 with h | h <;> simp [TagOk, h]
    · rw [firstTagErr_none_iff l rest]
      have : TagOk l t := ⟨fun h => h3 (Or.inl h), fun h => h3 (Or.inr h), by simpa using h1, by simpa using h2⟩
      simp [this]

theorem firstEnrichedErr_none_iff : ∀ tags : List Tag,
    firstEnrichedErr tags = none ↔ ∀ t ∈ tags, t.key ≠ "" ∧ t.value ≠ ""
  | [] => by simp [firstEnrichedErr]
  | t :: rest => by
    simp only [firstEnrichedErr, List.mem_cons, forall_eq_or_imp]
    split_ifs with h3
    · rcases h3 with h | h <;> simp [h]
    · rw [firstEnrichedErr_none_iff rest]
      have : t.key ≠ "" ∧ t.value ≠ "" := ⟨fun h => h3 (Or.inl h), fun h => h3 (Or.inr h)⟩
      simp [this]

theorem simpleFieldErr_none_iff (f : SField) :
    simpleFieldErr f = none ↔ (f.ftype ≠ 0 ∧ f.value.isInf = false ∧ f.value.isNaN = false ∧ f.name ≠ "") := by
  unfold simpleFieldErr
  split_ifs <;> simp_all

theorem firstFieldErr_none_iff (l : Limits) : ∀ fs : List SField,
    firstFieldErr l fs = none ↔ ∀ f ∈ fs, FieldOk l f
  | [] => by simp [firstFieldErr]
  | f :: rest => by
    simp only [firstFieldErr, List.mem_cons, forall_eq_or_imp]
    split_ifs with h1
    · simp [FieldOk, h1]
    · cases he : simpleFieldErr f with
      | some e =>
        simp only
        constructor
        · intro h; cases h
        · intro h
          have := (simpleFieldErr_none_iff f).2 ⟨h.1.2.2.1, h.1.2.2.2.2, h.1.2.2.2.1, h.1.1⟩
          rw [he] at this
          cases this
      | none =>
        simp only
        rw [firstFieldErr_none_iff l rest]
        have h := (simpleFieldErr_none_iff f).1 he
        have hf : FieldOk l f := ⟨h.2.2.2, by simpa using h1, h.1, h.2.2.1, h.2.1⟩
        simp [hf]

theorem errA_none_iff (fc : FCfg) (r : FRow) :
    errA fc r = none ↔
      over fc.c.limits.maxTags (r.tags.length + fc.c.enriched.length) = false ∧
      firstTagErr fc.c.limits r.tags = none ∧ firstEnrichedErr fc.c.enriched = none ∧
      over fc.c.limits.maxFields r.fields.length = false ∧ firstFieldErr fc.c.limits r.fields = none := by
  unfold errA
  by_cases hT : over fc.c.limits.maxTags (r.tags.length + fc.c.enriched.length) = true
  · simp [hT]
  · simp only [if_neg hT]
    cases h1 : firstTagErr fc.c.limits r.tags with
    | some e => simp
    | none =>
      simp only
      cases h2 : firstEnrichedErr fc.c.enriched with
      | some e => simp
      | none =>
        simp only
        by_cases hF : over fc.c.limits.maxFields r.fields.length = true
        · simp [hF]
        · simp [hT, hF]

theorem errB_none_iff (fc : FCfg) (r : FRow) :
    errB fc r = none ↔
      compoundErr r.compound = none ∧ over fc.c.limits.maxName (blen r.name) = false ∧
      over fc.maxNs (blen (nsOf fc r)) = false := by
  unfold errB
  cases h1 : compoundErr r.compound with
  | some e => simp
  | none =>
    simp only
    by_cases h2 : over fc.c.limits.maxName (blen r.name) = true
    · simp [h2]
    · by_cases h3 : over fc.maxNs (blen (nsOf fc r)) = true
      · simp [h2, h3]
      · simp [h2, h3]

theorem rebuildErr_none_iff (fc : FCfg) (r : FRow) :
    rebuildErr fc r = none ↔ errA fc r = none ∧ errB fc r = none := by
  rw [rebuildErr_eq]
  cases errA fc r with
  | some e => simp
  | none => simp

theorem sanitizeName_eq_empty (s : String) : sanitizeName s = "" ↔ s = "" := by
  constructor
  · intro h
    have h1 : (sanitizeName s).toList = ("" : String).toList := by rw [h]
    have h2 : s.toList = [] := by simpa [sanitizeName] using h1
    have h3 : s = String.ofList s.toList := by simp
    rw [h3, h2]
  · rintro rfl
    decide

/-! ### what the flat path accepts -/

/-- every rejection rule of `rebuild` + `Build`, declaratively -/
structure ValidFlat (fc : FCfg) (r : FRow) : Prop where
  tags_count : over fc.c.limits.maxTags (r.tags.length + fc.c.enriched.length) = false
  tags_ok : ∀ t ∈ r.tags, TagOk fc.c.limits t
  enriched_ok : ∀ t ∈ fc.c.enriched, t.key ≠ "" ∧ t.value ≠ ""
  fields_count : over fc.c.limits.maxFields r.fields.length = false
  fields_ok : ∀ f ∈ r.fields, FieldOk fc.c.limits f
  compound_ok : compoundErr r.compound = none
  name_len : over fc.c.limits.maxName (blen r.name) = false
  ns_len : over fc.maxNs (blen (nsOf fc r)) = false
  name_ne : r.name ≠ ""
  has_field : ¬ (r.fields = [] ∧ r.compound = none)

/-- what the flat path stores for an accepted row -/
def flatStored (fc : FCfg) (sortK : List Tag → List Tag) (H : String → Nat) (r : FRow) : Stored :=
  { name := sanitizeName r.name, ns := sanitizeName (nsOf fc r),
    ts := if r.ts = 0 then fc.c.now else r.ts,
    tags := flatDedup sortK (r.tags ++ fc.c.enriched),
    fields := r.fields.map (fun f => { f with name := sanitizeFieldName f.name }),
    compound := compoundOf r.compound,
    hash := H (concatKVs (flatDedup sortK (r.tags ++ fc.c.enriched))),
    nameHash := H (sanitizeName (nsOf fc r) ++ sanitizeName r.name) }

theorem hasField_false (r : FRow) (h : ¬ (r.fields = [] ∧ r.compound = none)) :
    (r.fields.isEmpty && r.compound.isNone) = false := by
  cases hf : r.fields <;> cases hc : r.compound <;> simp
  exact h ⟨hf, hc⟩

theorem flatSpec_of_valid (fc : FCfg) (sortK : List Tag → List Tag) (H : String → Nat) (r : FRow)
    (h : ValidFlat fc r) : flatSpec fc sortK H r = .ok (flatStored fc sortK H r) := by
  have hre : rebuildErr fc r = none :=
    (rebuildErr_none_iff fc r).2
      ⟨(errA_none_iff fc r).2 ⟨h.tags_count, (firstTagErr_none_iff _ _).2 h.tags_ok,
          (firstEnrichedErr_none_iff _).2 h.enriched_ok, h.fields_count, (firstFieldErr_none_iff _ _).2 h.fields_ok⟩,
        (errB_none_iff fc r).2 ⟨h.compound_ok, h.name_len, h.ns_len⟩⟩
  have hn : ¬ sanitizeName r.name = "" := fun e => h.name_ne ((sanitizeName_eq_empty _).1 e)
  simp only [flatSpec, hre, hn, if_false, hasField_false r h.has_field, Bool.false_eq_true, flatStored]

theorem valid_of_flatSpec (fc : FCfg) (sortK : List Tag → List Tag) (H : String → Nat) (r : FRow) (s : Stored)
    (h : flatSpec fc sortK H r = .ok s) : ValidFlat fc r ∧ s = flatStored fc sortK H r := by
  unfold flatSpec at h
  cases hre : rebuildErr fc r with
  | some e => rw [hre] at h; cases h
  | none =>
    rw [hre] at h
    simp only at h
    obtain ⟨hA, hB⟩ := (rebuildErr_none_iff fc r).1 hre
    obtain ⟨a1, a2, a3, a4, a5⟩ := (errA_none_iff fc r).1 hA
    obtain ⟨b1, b2, b3⟩ := (errB_none_iff fc r).1 hB
    by_cases hn : sanitizeName r.name = ""
    · rw [if_pos hn] at h; cases h
    · rw [if_neg hn] at h
      by_cases hf : (r.fields.isEmpty && r.compound.isNone) = true
      · rw [if_pos hf] at h; cases h
      · rw [if_neg hf] at h
        refine ⟨⟨a1, (firstTagErr_none_iff _ _).1 a2, (firstEnrichedErr_none_iff _).1 a3, a4,
          (firstFieldErr_none_iff _ _).1 a5, b1, b2, b3, fun e => hn ((sanitizeName_eq_empty _).2 e), ?_⟩, ?_⟩
        · rintro ⟨e1, e2⟩
          apply hf
          simp [e1, e2]
        · exact (Except.ok.inj h).symm

/-! ### the tag pipelines of the two formats -/

theorem pairwise_of_isSortedBy : ∀ l : List Tag, isSortedBy (less false) l = true →
    l.Pairwise (fun a b => a.key ≤ b.key)
  | [], _ => by simp
  | [_], _ => by simp
  | a :: b :: rest, h => by
    simp only [isSortedBy, Bool.and_eq_true, Bool.not_eq_true'] at h
    have ih := pairwise_of_isSortedBy (b :: rest) h.2
    have hab : a.key ≤ b.key := (less_false_iff_keyOnly a b).1 h.1
    refine List.pairwise_cons.2 ⟨?_, ih⟩
    intro t ht
    rcases List.mem_cons.1 ht with rfl | ht'
    · exact hab
    · exact le_trans hab ((List.pairwise_cons.1 ih).1 t ht')

/-- two key-ordered arrangements of a tag list whose repeated keys carry one value are the same list -/
theorem keyOrdered_unique {l₁ l₂ : List Tag} (p : l₁.Perm l₂) (hc : Consistent l₁)
    (h₁ : l₁.Pairwise (fun a b => a.key ≤ b.key)) (h₂ : l₂.Pairwise (fun a b => a.key ≤ b.key)) : l₁ = l₂ := by
  refine List.Perm.eq_of_pairwise (le := fun a b => a.key ≤ b.key) ?_ h₁ h₂ p
  intro a b ha hb hab hba
  exact hc a ha b (p.symm.subset hb) (le_antisymm hab hba)

/-- RowBuilder.dedupTagsThenXXHash (keys-only order, sort skipped when sorted, de-dup skipped without equal
neighbours) and deDupTags of the protobuf converter (key-then-value order) keep the same tags, for every
pair of conforming sorts, when repeated keys carry one value -/
theorem flatDedup_eq_deDupTags {sortK sortP : List Tag → List Tag}
    (hK : SortSpec (less false) sortK) (hP : SortSpec (less true) sortP)
    (kvs : List Tag) (hc : Consistent kvs) : flatDedup sortK kvs = deDupTags sortP kvs := by
  rw [flatDedup_eq]
  unfold deDupTags
  split_ifs with h1 h2
  · rfl
  · exact congrArg dedupRuns
      (keyOrdered_unique (hP.perm kvs).symm hc (pairwise_of_isSortedBy kvs h2) (sorted_keys_of_spec true hP kvs))
  · exact congrArg dedupRuns
      (keyOrdered_unique ((hK.perm kvs).trans (hP.perm kvs).symm) (hc.perm (hK.perm kvs).symm)
        (sorted_keys_of_spec false hK kvs) (sorted_keys_of_spec true hP kvs))

/-- the stored tags of the flat path: strictly increasing keys, only sent pairs, every sent key -/
theorem flatDedup_props {sortK : List Tag → List Tag} (hK : SortSpec (less false) sortK) (kvs : List Tag) :
    (flatDedup sortK kvs).Pairwise (fun a b => a.key < b.key) ∧
    (∀ t ∈ flatDedup sortK kvs, t ∈ kvs) ∧
    (∀ t ∈ kvs, ∃ t' ∈ flatDedup sortK kvs, t'.key = t.key) := by
  rw [flatDedup_eq]
  split_ifs with h1 h2
  · rcases short_cases kvs h1 with rfl | ⟨a, rfl⟩ <;> simp
  · exact ⟨dedupRuns_strict _ (pairwise_of_isSortedBy kvs h2), dedupRuns_sub _, fun t ht => dedupRuns_keys _ t ht⟩
  · exact ⟨dedupRuns_strict _ (sorted_keys_of_spec false hK kvs),
      fun t ht => (hK.perm kvs).subset (dedupRuns_sub _ t ht),
      fun t ht => dedupRuns_keys _ t ((hK.perm kvs).symm.subset ht)⟩

/-! ### where the two validators agree -/

/-- The differences between validateMetric (protobuf) and rebuild + RowBuilder (flat) that the shape of a
metric does not exclude, as hypotheses — each is a recorded observation of the design note:
request namespace vs. row namespace precedence; only the flat path checks MaxNamespaceLength; only the
protobuf path length-checks enriched tags; the protobuf path maps field types outside its enum to 0;
RowBuilder orders tags by key only; the two histogram rule sets (`compound_agree`: they differ for exactly
two buckets, for NaN / +Inf bucket values, NaN min/max/sum/count, NaN bounds and for
len(values) ≠ len(bounds), where the flat decoder reads the common prefix). -/
structure Agree (c : Cfg) (maxNs : Nat) (m : PMetric) (ts : List Tag) (fs : List SField) : Prop where
  tags_eq : m.tags = ts.map some
  fields_eq : m.fields = fs.map some
  ns_unambiguous : c.reqNs = "" ∨ m.ns = ""
  ns_len : over maxNs (blen (if c.reqNs ≠ "" then c.reqNs else m.ns)) = false
  enriched_len : ∀ t ∈ c.enriched,
    over c.limits.maxTagKey (blen t.key) = false ∧ over c.limits.maxTagVal (blen t.value) = false
  types_known : ∀ f ∈ fs, f.ftype ≤ 5
  consistent : Consistent (ts ++ c.enriched)
  compound_agree : ∀ cf, m.compound = some cf →
    (checkCompound cf = true ↔ compoundErr (some cf) = none) ∧ bucketsOf cf = (cf.values, cf.bounds)

/-- the flat row of a protobuf metric without nil entries -/
def flatOf (m : PMetric) (ts : List Tag) (fs : List SField) : FRow := ⟨m.name, m.ns, m.ts, ts, fs, m.compound⟩

theorem agree_ns {c : Cfg} {maxNs : Nat} {m : PMetric} {ts : List Tag} {fs : List SField}
    (ha : Agree c maxNs m ts fs) :
    nsOf ⟨c, maxNs⟩ (flatOf m ts fs) = (if c.reqNs ≠ "" then c.reqNs else m.ns) := by
  simp only [nsOf, flatOf]
  rcases ha.ns_unambiguous with h | h
  · by_cases h2 : m.ns = "" <;> simp [h, h2]
  · by_cases h2 : c.reqNs = "" <;> simp [h, h2]

theorem valid_iff_validFlat {c : Cfg} {maxNs : Nat} {m : PMetric} {ts : List Tag} {fs : List SField}
    (ha : Agree c maxNs m ts fs) : Valid c m ↔ ValidFlat ⟨c, maxNs⟩ (flatOf m ts fs) := by
  constructor
  · intro hv
    refine ⟨?_, ?_, ?_, ?_, ?_, ?_, hv.name_len, ?_, hv.name_ne, ?_⟩
    · simpa [ha.tags_eq, flatOf] using hv.tags_count
    · intro t ht
      obtain ⟨x, hx, hok⟩ := hv.tags_ok (some t) (by simp [ha.tags_eq]; exact Or.inl ht)
      cases hx; exact hok
    · intro t ht
      obtain ⟨x, hx, hok⟩ := hv.tags_ok (some t) (by simp; exact Or.inr ht)
      cases hx; exact ⟨hok.1, hok.2.1⟩
    · simpa [ha.fields_eq, flatOf] using hv.fields_count
    · intro f hf
      obtain ⟨x, hx, hok⟩ := hv.fields_ok (some f) (by simp [ha.fields_eq]; exact hf)
      cases hx; exact hok
    · show compoundErr m.compound = none
      cases hc : m.compound with
      | none => rfl
      | some cf => exact (ha.compound_agree cf hc).1.1 (hv.compound_ok cf hc)
    · rw [agree_ns ha]; exact ha.ns_len
    · rintro ⟨e1, e2⟩
      apply hv.has_field
      refine ⟨?_, e2⟩
      have : fs = [] := e1
      simp [ha.fields_eq, this]
  · intro hf
    refine ⟨hf.name_ne, hf.name_len, ?_, ?_, ?_, ?_, ?_, ?_⟩
    · rintro ⟨e1, e2⟩
      apply hf.has_field
      refine ⟨?_, e2⟩
      show fs = []
      have := e1
      rw [ha.fields_eq] at this
      simpa using this
    · simpa [ha.tags_eq, flatOf] using hf.tags_count
    · intro t ht
      rw [ha.tags_eq] at ht
      rcases List.mem_append.1 ht with h | h
      · obtain ⟨x, hx, rfl⟩ := List.mem_map.1 h
        exact ⟨x, rfl, hf.tags_ok x hx⟩
      · obtain ⟨x, hx, rfl⟩ := List.mem_map.1 h
        exact ⟨x, rfl, (hf.enriched_ok x hx).1, (hf.enriched_ok x hx).2, (ha.enriched_len x hx).1, (ha.enriched_len x hx).2⟩
    · simpa [ha.fields_eq, flatOf] using hf.fields_count
    · intro f hfm
      rw [ha.fields_eq] at hfm
      obtain ⟨x, hx, rfl⟩ := List.mem_map.1 hfm
      exact ⟨x, rfl, hf.fields_ok x hx⟩
    · intro cf hc
      have := hf.compound_ok
      simp only [flatOf, hc] at this
      exact (ha.compound_agree cf hc).1.2 this

/-- for an accepted metric the two formats store the same row -/
theorem build_eq_flatStored {c : Cfg} {maxNs : Nat} {m : PMetric} {ts : List Tag} {fs : List SField}
    (ha : Agree c maxNs m ts fs) (hv : Valid c m)
    {sortP sortK : List Tag → List Tag} (hP : SortSpec (less true) sortP) (hK : SortSpec (less false) sortK)
    (H : String → Nat) :
    build true sortP H (vmetricOf c m) = flatStored ⟨c, maxNs⟩ sortK H (flatOf m ts fs) := by
  have e_tags : (m.tags ++ c.enriched.map some).filterMap id = ts ++ c.enriched := by
    rw [ha.tags_eq, ← List.map_append, filterMap_id_map_some]
  have e_dedup : deDupTags sortP (ts ++ c.enriched) = flatDedup sortK (ts ++ c.enriched) :=
    (flatDedup_eq_deDupTags hK hP _ ha.consistent).symm
  have e_hash := kvsHash_deDup true hP H (ts ++ c.enriched)
  have e_f0 : m.fields.filterMap id = fs := by rw [ha.fields_eq, filterMap_id_map_some]
  have e_fields : ((fs.map sanitizeField).map (fun f => { f with ftype := mapType f.ftype })) =
      fs.map (fun f => { f with name := sanitizeFieldName f.name }) := by
    rw [List.map_map]
    apply List.map_congr_left
    intro f hf
    obtain ⟨x, hx, hok⟩ := hv.fields_ok (some f) (by simp [ha.fields_eq]; exact hf)
    cases hx
    have h5 := ha.types_known f hf
    have h0 : f.ftype ≠ 0 := hok.2.2.1
    have : mapType f.ftype = f.ftype := by
      unfold mapType
      rw [if_pos ⟨by omega, h5⟩]
    simp [sanitizeField, this]
  have e_comp : compoundOf m.compound = m.compound := by
    cases hc : m.compound with
    | none => rfl
    | some cf =>
      have := (ha.compound_agree cf hc).2
      simp [compoundOf, this]
  have e_ns := agree_ns ha
  simp only [build, vmetricOf, flatStored, e_tags, e_dedup, e_f0, e_fields, e_ns]
  rw [e_dedup] at e_hash
  simp only [e_hash, flatOf, e_comp]
  rfl

end LinVerif.Lemmas.C16
