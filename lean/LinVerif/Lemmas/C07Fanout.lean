/-
C07, round 13: lemmas about the fan-out layer (Model/C07Fanout.lean): the loop of `fanOutQueue.Sync`
computes a lower bound of every visited group's acknowledged sequence, whatever the visiting order;
the invariant `FInv` of one log with several consumer groups.
-/
import LinVerif.Model.C07Fanout

namespace LinVerif.C07Fanout

theorem syncMin_cons (i x : Int) (t : List Int) :
    syncMin i (x :: t) = syncMin (if x < i then x else i) t := rfl

theorem syncMin_le_init (i : Int) (l : List Int) : syncMin i l ≤ i := by
  induction l generalizing i with
  | nil => simp [syncMin]
  | cons x t ih =>
    rw [syncMin_cons]
    have := ih (if x < i then x else i)
    by_cases h : x < i
    · rw [if_pos h] at this ⊢; omega
    · rw [if_neg h] at this ⊢; omega

theorem syncMin_le_mem (i : Int) (l : List Int) (a : Int) (h : a ∈ l) : syncMin i l ≤ a := by
  induction l generalizing i with
  | nil => cases h
  | cons x t ih =>
    rw [syncMin_cons]
    rcases List.mem_cons.mp h with h1 | h'
    · have := syncMin_le_init (if x < i then x else i) t
      rw [h1]
      by_cases hh : x < i
      · rw [if_pos hh] at this ⊢; omega
      · rw [if_neg hh] at this ⊢; omega
    · exact ih _ h'

/-- the result is the start value or one of the visited acks (so it IS the minimum) -/
theorem syncMin_mem (i : Int) (l : List Int) : syncMin i l = i ∨ syncMin i l ∈ l := by
  induction l generalizing i with
  | nil => left; rfl
  | cons x t ih =>
    rw [syncMin_cons]
    by_cases hh : x < i
    · rw [if_pos hh]
      rcases ih x with h | h
      · right; rw [h]; exact List.mem_cons_self
      · right; exact List.mem_cons_of_mem _ h
    · rw [if_neg hh]
      rcases ih i with h | h
      · left; exact h
      · right; exact List.mem_cons_of_mem _ h

/-- what `fanOutQueue.Sync` can do to the log's acknowledged sequence -/
theorem sync_cases (app old : Int) (l : List Int) :
    sync app old l = old ∨
      (sync app old l = syncMin app l ∧ old < syncMin app l ∧ 0 ≤ syncMin app l ∧ l ≠ []) := by
  unfold sync setQueueAck
  by_cases h : l.isEmpty = true
  · left; simp [h]
  · have hne : l ≠ [] := by
      intro e; apply h; rw [e]; rfl
    simp only [h]
    by_cases h0 : syncMin app l ≥ 0
    · by_cases h1 : syncMin app l > old ∧ syncMin app l ≤ app
      · right; simp [h0, h1, hne]
      · left; simp [h0, h1]
    · left; simp [h0]

theorem sync_ge_old (app old : Int) (l : List Int) : old ≤ sync app old l := by
  rcases sync_cases app old l with h | ⟨h, h1, _, _⟩ <;> omega

theorem sync_le_mem (app old : Int) (l : List Int) (a : Int) (ha : a ∈ l) (ho : old ≤ a) :
    sync app old l ≤ a := by
  rcases sync_cases app old l with h | ⟨h, _, _, _⟩
  · omega
  · have := syncMin_le_mem app l a ha; omega

theorem sync_le_appended (app old : Int) (l : List Int) (ho : old ≤ app) : sync app old l ≤ app := by
  rcases sync_cases app old l with h | ⟨h, _, _, _⟩
  · omega
  · have := syncMin_le_init app l; omega

/-- the visiting order does not matter: two visits that see the same set of acks give the same result -/
theorem syncMin_order_irrelevant (i : Int) (l1 l2 : List Int) (h : ∀ x, x ∈ l1 ↔ x ∈ l2) :
    syncMin i l1 = syncMin i l2 := by
  have a1 := syncMin_le_init i l1
  have a2 := syncMin_le_init i l2
  have le12 : syncMin i l1 ≤ syncMin i l2 := by
    rcases syncMin_mem i l2 with e | m
    · omega
    · exact syncMin_le_mem i l1 _ ((h _).mpr m)
  have le21 : syncMin i l2 ≤ syncMin i l1 := by
    rcases syncMin_mem i l1 with e | m
    · omega
    · exact syncMin_le_mem i l2 _ ((h _).mp m)
  omega

/-! ### the invariant of one log with several groups -/

def FInv (q : FQ) : Prop :=
  -1 ≤ q.qAck ∧ q.qAck ≤ q.appended ∧ ∀ a ∈ q.acks, q.qAck ≤ a ∧ a ≤ q.appended

theorem finv_init : FInv FQ.init := by
  refine ⟨by decide, by decide, ?_⟩
  intro a h; cases h

theorem mem_setAt (l : List Int) (i : Nat) (v a : Int) (h : a ∈ setAt l i v) : a = v ∨ a ∈ l := by
  induction l generalizing i with
  | nil => simp [setAt] at h
  | cons x t ih =>
    cases i with
    | zero =>
      simp only [setAt] at h
      rcases List.mem_cons.mp h with h | h
      · left; exact h
      · right; exact List.mem_cons_of_mem _ h
    | succ i =>
      simp only [setAt] at h
      rcases List.mem_cons.mp h with h | h
      · right; rw [h]; exact List.mem_cons_self
      · rcases ih i h with h | h
        · left; exact h
        · right; exact List.mem_cons_of_mem _ h

theorem mem_visit_of_covered (acks : List Int) (order : List Nat) (a : Int) (ha : a ∈ acks)
    (hc : ∀ i, i < acks.length → i ∈ order) : a ∈ visit acks order := by
  obtain ⟨i, hi, e⟩ := List.getElem_of_mem ha
  unfold visit
  refine List.mem_filterMap.mpr ⟨i, hc i hi, ?_⟩
  rw [List.getElem?_eq_getElem hi, e]

theorem covers_spec (order : List Nat) (n : Nat) (h : covers order n = true) :
    ∀ i, i < n → i ∈ order := by
  intro i hi
  unfold covers at h
  have := (List.all_eq_true.mp h) i (List.mem_range.mpr hi)
  simpa using this

theorem mem_of_mem_visit (acks : List Int) (order : List Nat) (a : Int) (h : a ∈ visit acks order) :
    a ∈ acks := by
  unfold visit at h
  obtain ⟨i, _, e⟩ := List.mem_filterMap.mp h
  exact List.mem_of_getElem? e

theorem finv_step (q : FQ) (e : FEv) (h : FInv q) : FInv (fstep q e) := by
  obtain ⟨h1, h2, h3⟩ := h
  cases e with
  | put =>
    refine ⟨h1, by simp only [fstep]; omega, ?_⟩
    intro a ha
    have := h3 a ha
    simp only [fstep]; omega
  | newGroup =>
    refine ⟨h1, h2, ?_⟩
    intro a ha
    simp only [fstep] at ha ⊢
    rcases List.mem_append.mp ha with ha | ha
    · exact h3 a ha
    · have : a = q.qAck := by simpa using ha
      omega
  | groupAck i v =>
    simp only [fstep]
    cases hi : q.acks[i]? with
    | none => exact ⟨h1, h2, h3⟩
    | some a0 =>
      simp only
      by_cases hg : a0 ≤ v ∧ v ≤ q.appended
      · rw [if_pos hg]
        refine ⟨h1, h2, ?_⟩
        intro a ha
        rcases mem_setAt _ _ _ _ ha with e | ha
        · have := h3 a0 (List.mem_of_getElem? hi)
          simp only; omega
        · exact h3 a ha
      · rw [if_neg hg]; exact ⟨h1, h2, h3⟩
  | sync order =>
    simp only [fstep]
    by_cases hc : covers order q.acks.length = true
    · rw [if_pos hc]
      refine ⟨?_, ?_, ?_⟩
      · have := sync_ge_old q.appended q.qAck (visit q.acks order); simp only; omega
      · exact sync_le_appended _ _ _ h2
      · intro a ha
        have hv := mem_visit_of_covered q.acks order a ha (covers_spec order _ hc)
        exact ⟨sync_le_mem _ _ _ a hv (h3 a ha).1, (h3 a ha).2⟩
    · rw [if_neg hc]; exact ⟨h1, h2, h3⟩
  | reopen =>
    refine ⟨h1, h2, ?_⟩
    intro a ha
    simp only [fstep] at ha ⊢
    obtain ⟨b, hb, e⟩ := List.mem_map.mp ha
    have := h3 b hb
    simp only [reopenGroup] at e
    by_cases hlt : b < q.qAck
    · omega
    · rw [if_neg hlt] at e; omega

theorem finv_run (q : FQ) (evs : List FEv) (h : FInv q) : FInv (frun q evs) := by
  induction evs generalizing q with
  | nil => exact h
  | cons e t ih => exact ih _ (finv_step q e h)

end LinVerif.C07Fanout
