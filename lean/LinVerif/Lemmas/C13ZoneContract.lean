/-
C13 — the calculators over ANY `time.Local` that satisfies the contract `time.Unix(..).Date()` /
`time.Date(.., time.Local)` give for local midnights (daylight-saving zones included).

For a zone `z` let `localDay z t` be the day number of the wall-clock date of instant `t`
(`civilOfMsZ z t = civilFromDays (localDay z t)`) and `midnightOf z n` the instant of the local
midnight that starts wall-clock day `n` (`dateMsZ z y m d = midnightOf z (dateDays y m d)`).
The contract (`ZoneOK`):
  * `mono`   : local midnights strictly increase with the day number;
  * `floor`  : for `t ≥ 0`, `midnightOf (localDay t) ≤ t < midnightOf (localDay t + 1)`;
  * `round`  : `localDay (midnightOf n) = n` (time.Date then time.Unix gives the date back).
`HourAligned` adds: every local day is a whole number of hours long (false for half-hour DST,
e.g. Australia/Lord_Howe).
-/
import LinVerif.Model.IntervalZone
import LinVerif.Lemmas.C13Interval
import LinVerif.Lemmas.C13Lookup

namespace LinVerif.Lemmas.C13
open LinVerif.Calendar LinVerif.Interval

/-- wall-clock day number of the instant `t` (ms) in zone `z` -/
def localDay (z : Zone) (t : Int) : Int := (Int.tdiv t 1000 + z.offUTC (Int.tdiv t 1000)) / 86400

/-- instant (ms) of the local midnight starting wall-clock day `n` -/
def midnightOf (z : Zone) (n : Int) : Int := (n * 86400 - z.offLocal (n * 86400)) * 1000

theorem civilOfMsZ_eq (z : Zone) (t : Int) : civilOfMsZ z t = civilFromDays (localDay z t) := rfl

theorem dateMsZ_eq (z : Zone) (y m d : Int) : dateMsZ z y m d = midnightOf z (dateDays y m d) := rfl

structure ZoneOK (z : Zone) : Prop where
  mono : ∀ n, midnightOf z n < midnightOf z (n + 1)
  floor : ∀ t, 0 ≤ t → midnightOf z (localDay z t) ≤ t ∧ t < midnightOf z (localDay z t + 1)
  round : ∀ n, localDay z (midnightOf z n) = n

/-- every local day lasts a whole number of hours -/
def HourAligned (z : Zone) : Prop := ∀ n, (midnightOf z (n + 1) - midnightOf z n) % 3600000 = 0

theorem midnight_add {z : Zone} (h : ZoneOK z) (n : Int) (k : Nat) :
    midnightOf z n + k ≤ midnightOf z (n + k) := by
  induction k with
  | zero => simp
  | succ k ih =>
    have := h.mono (n + k)
    have e : n + ((k + 1 : Nat) : Int) = n + (k : Int) + 1 := by push_cast; omega
    rw [e]; push_cast; omega

theorem midnight_le {z : Zone} (h : ZoneOK z) {a b : Int} (hab : a ≤ b) : midnightOf z a ≤ midnightOf z b := by
  have := midnight_add h a (b - a).toNat
  have e : a + ((b - a).toNat : Int) = b := by omega
  rw [e] at this; omega

/-- an instant between two consecutive local midnights is on that local day -/
theorem localDay_unique {z : Zone} (h : ZoneOK z) {t n : Int} (h0 : 0 ≤ t)
    (h1 : midnightOf z n ≤ t) (h2 : t < midnightOf z (n + 1)) : localDay z t = n := by
  have f := h.floor t h0
  rcases Int.lt_trichotomy (localDay z t) n with hc | hc | hc
  · have := midnight_le h (a := localDay z t + 1) (b := n) (by omega); omega
  · exact hc
  · have := midnight_le h (a := n + 1) (b := localDay z t) (by omega); omega

theorem dateDays_valid (y m d : Int) (h1 : 1 ≤ m) (h2 : m ≤ 12) : dateDays y m d = daysFromCivil y m d := by
  have e1 : (m - 1) / 12 = 0 := by omega
  have e2 : (m - 1) % 12 + 1 = m := by omega
  simp only [dateDays, normMonth, e1, e2, Int.add_zero]

/-! ### closed forms over a zone satisfying the contract -/

theorem zc_day_segment {z : Zone} (t : Int) :
    calcSegmentTimeZ z .day t = midnightOf z (localDay z t) := by
  obtain ⟨a1, a2, _, a4, _⟩ := civil_spec (localDay z t)
  simp only [calcSegmentTimeZ, civilOfMsZ_eq, dateMsZ_eq]
  rw [dateDays_valid _ _ _ a1 a2, a4]

theorem zc_month_familyTime {z : Zone} (h : ZoneOK z) (t : Int) :
    calcFamilyTimeZ z .month t = midnightOf z (localDay z t) := by
  obtain ⟨a1, a2, _, a4, _⟩ := civil_spec (localDay z t)
  simp only [calcFamilyTimeZ, calcSegmentTimeZ, calcFamilyZ, calcFamilyStartTimeZ, civilOfMsZ_eq,
    dateMsZ_eq]
  rw [dateDays_valid _ _ 1 a1 a2, h.round]
  have := civil_monthStartDay (localDay z t)
  simp only [monthStartDay] at this
  rw [this]
  simp only
  rw [dateDays_valid _ _ _ a1 a2, a4]

theorem zc_month_familyEnd {z : Zone} (h : ZoneOK z) (n : Int) :
    calcFamilyEndTimeZ z .month (midnightOf z n) = midnightOf z (n + 1) - 1 := by
  obtain ⟨a1, a2, _, a4, _⟩ := civil_spec n
  simp only [calcFamilyEndTimeZ, civilOfMsZ_eq, dateMsZ_eq, h.round]
  rw [dateDays_valid _ _ _ a1 a2]
  have l1 := days_linear (civilFromDays n).1 (civilFromDays n).2.1 ((civilFromDays n).2.2 + 1)
  have l2 := days_linear (civilFromDays n).1 (civilFromDays n).2.1 (civilFromDays n).2.2
  have e : daysFromCivil (civilFromDays n).1 (civilFromDays n).2.1 ((civilFromDays n).2.2 + 1) = n + 1 := by
    omega
  rw [e]

theorem zc_year_familyTime {z : Zone} (h : ZoneOK z) (t : Int) :
    calcFamilyTimeZ z .year t = midnightOf z (monthStartDay (localDay z t)) := by
  obtain ⟨a1, a2, _, _, _⟩ := civil_spec (localDay z t)
  simp only [calcFamilyTimeZ, calcSegmentTimeZ, calcFamilyZ, calcFamilyStartTimeZ, civilOfMsZ_eq,
    dateMsZ_eq]
  rw [dateDays_valid _ 1 1 (by omega) (by omega), h.round]
  have := civil_yearStartDay (localDay z t)
  simp only [yearStartDay] at this
  rw [this]
  simp only
  rw [dateDays_valid _ _ 1 a1 a2]; rfl

theorem zc_year_familyEnd {z : Zone} (h : ZoneOK z) (n : Int) :
    calcFamilyEndTimeZ z .year (midnightOf z (monthStartDay n))
      = midnightOf z (nextMonthStartDay n) - 1 := by
  simp only [calcFamilyEndTimeZ, civilOfMsZ_eq, dateMsZ_eq, h.round, civil_monthStartDay]
  rfl

theorem zc_day_familyTime {z : Zone} (h : ZoneOK z) {t : Int} (h0 : 0 ≤ t) :
    calcFamilyTimeZ z .day t
      = midnightOf z (localDay z t) + (t - midnightOf z (localDay z t)) / 3600000 * 3600000 := by
  have f := h.floor t h0
  simp only [calcFamilyTimeZ, calcFamilyZ, calcFamilyStartTimeZ, zc_day_segment, oneHour_val]
  rw [Int.tdiv_eq_ediv_of_nonneg (by omega)]

/-! ### month-type families (local days) over any zone satisfying the contract -/

theorem zc_month_contains {z : Zone} (h : ZoneOK z) {t : Int} (h0 : 0 ≤ t) :
    calcFamilyTimeZ z .month t ≤ t ∧
    t ≤ calcFamilyEndTimeZ z .month (calcFamilyTimeZ z .month t) := by
  have f := h.floor t h0
  rw [zc_month_familyTime h, zc_month_familyEnd h]; omega

theorem zc_month_idempotent {z : Zone} (h : ZoneOK z) {t t' : Int} (h0' : 0 ≤ t')
    (a : calcFamilyTimeZ z .month t ≤ t')
    (b : t' ≤ calcFamilyEndTimeZ z .month (calcFamilyTimeZ z .month t)) :
    calcFamilyTimeZ z .month t' = calcFamilyTimeZ z .month t := by
  rw [zc_month_familyTime h] at a b ⊢; rw [zc_month_familyEnd h] at b
  rw [zc_month_familyTime h, localDay_unique h h0' a (by omega)]

theorem zc_month_tile {z : Zone} (h : ZoneOK z) (t : Int) :
    calcFamilyTimeZ z .month (calcFamilyEndTimeZ z .month (calcFamilyTimeZ z .month t) + 1)
      = calcFamilyEndTimeZ z .month (calcFamilyTimeZ z .month t) + 1 := by
  rw [zc_month_familyTime h t, zc_month_familyEnd h]
  have e : midnightOf z (localDay z t + 1) - 1 + 1 = midnightOf z (localDay z t + 1) := by omega
  rw [e, zc_month_familyTime h, h.round]

/-! ### year-type families (local calendar months) -/

theorem monthStartDay_of_mem {n n' : Int} (h1 : monthStartDay n ≤ n') (h2 : n' < nextMonthStartDay n) :
    monthStartDay n' = monthStartDay n ∧ nextMonthStartDay n' = nextMonthStartDay n := by
  have sm := same_month h1 h2
  simp only [monthStartDay, nextMonthStartDay, sm.1, sm.2, and_self]

theorem zc_year_contains {z : Zone} (h : ZoneOK z) {t : Int} (h0 : 0 ≤ t) :
    calcFamilyTimeZ z .year t ≤ t ∧
    t ≤ calcFamilyEndTimeZ z .year (calcFamilyTimeZ z .year t) := by
  have f := h.floor t h0
  have l := monthStartDay_le (localDay z t)
  have m1 := midnight_le h l.1
  have m2 := midnight_le h (a := localDay z t + 1) (b := nextMonthStartDay (localDay z t)) (by omega)
  rw [zc_year_familyTime h, zc_year_familyEnd h]; omega

theorem zc_year_day_in_month {z : Zone} (h : ZoneOK z) {n t' : Int} (h0' : 0 ≤ t')
    (a : midnightOf z (monthStartDay n) ≤ t') (b : t' < midnightOf z (nextMonthStartDay n)) :
    monthStartDay n ≤ localDay z t' ∧ localDay z t' < nextMonthStartDay n := by
  have f := h.floor t' h0'
  constructor
  · by_cases hc : monthStartDay n ≤ localDay z t'
    · exact hc
    · have := midnight_le h (a := localDay z t' + 1) (b := monthStartDay n) (by omega); omega
  · by_cases hc : localDay z t' < nextMonthStartDay n
    · exact hc
    · have := midnight_le h (a := nextMonthStartDay n) (b := localDay z t') (by omega); omega

theorem zc_year_idempotent {z : Zone} (h : ZoneOK z) {t t' : Int} (h0' : 0 ≤ t')
    (a : calcFamilyTimeZ z .year t ≤ t')
    (b : t' ≤ calcFamilyEndTimeZ z .year (calcFamilyTimeZ z .year t)) :
    calcFamilyTimeZ z .year t' = calcFamilyTimeZ z .year t := by
  rw [zc_year_familyTime h] at a b ⊢; rw [zc_year_familyEnd h] at b
  have d := zc_year_day_in_month h h0' a (by omega)
  rw [zc_year_familyTime h, (monthStartDay_of_mem d.1 d.2).1]

theorem zc_year_tile {z : Zone} (h : ZoneOK z) (t : Int) :
    calcFamilyTimeZ z .year (calcFamilyEndTimeZ z .year (calcFamilyTimeZ z .year t) + 1)
      = calcFamilyEndTimeZ z .year (calcFamilyTimeZ z .year t) + 1 := by
  rw [zc_year_familyTime h t, zc_year_familyEnd h]
  have e : midnightOf z (nextMonthStartDay (localDay z t)) - 1 + 1
      = midnightOf z (nextMonthStartDay (localDay z t)) := by omega
  rw [e, zc_year_familyTime h, h.round]
  have c := civil_nextMonthStartDay (localDay z t)
  have := monthStartDay_eq (nextMonthStartDay (localDay z t))
  rw [c] at this
  simp only at this
  rw [this]; simp

/-! ### day-type families (hours counted from local midnight): whole-hour zones only -/

theorem zc_day_contains {z : Zone} (h : ZoneOK z) {t : Int} (h0 : 0 ≤ t) :
    calcFamilyTimeZ z .day t ≤ t ∧
    t ≤ calcFamilyEndTimeZ z .day (calcFamilyTimeZ z .day t) := by
  have f := h.floor t h0
  rw [zc_day_familyTime h h0]; simp only [calcFamilyEndTimeZ, oneHour_val]; omega

theorem zc_day_idempotent {z : Zone} (h : ZoneOK z) (ha : HourAligned z) {t t' : Int} (h0 : 0 ≤ t)
    (h0' : 0 ≤ t') (a : calcFamilyTimeZ z .day t ≤ t')
    (b : t' ≤ calcFamilyEndTimeZ z .day (calcFamilyTimeZ z .day t)) :
    calcFamilyTimeZ z .day t' = calcFamilyTimeZ z .day t := by
  have f := h.floor t h0
  have al := ha (localDay z t)
  rw [zc_day_familyTime h h0] at a b ⊢
  simp only [calcFamilyEndTimeZ, oneHour_val] at b
  have hd : localDay z t' = localDay z t := localDay_unique h h0' (by omega) (by omega)
  rw [zc_day_familyTime h h0', hd]; omega

theorem zc_day_tile {z : Zone} (h : ZoneOK z) (ha : HourAligned z) {t : Int} (h0 : 0 ≤ t) :
    calcFamilyTimeZ z .day (calcFamilyEndTimeZ z .day (calcFamilyTimeZ z .day t) + 1)
      = calcFamilyEndTimeZ z .day (calcFamilyTimeZ z .day t) + 1 := by
  have f := h.floor t h0
  have al := ha (localDay z t)
  have eE : calcFamilyEndTimeZ z .day (calcFamilyTimeZ z .day t) + 1
      = midnightOf z (localDay z t) + (t - midnightOf z (localDay z t)) / 3600000 * 3600000 + 3600000 := by
    rw [zc_day_familyTime h h0]; simp only [calcFamilyEndTimeZ, oneHour_val]; omega
  rw [eE]
  have h0e : 0 ≤ midnightOf z (localDay z t) + (t - midnightOf z (localDay z t)) / 3600000 * 3600000
      + 3600000 := by omega
  rw [zc_day_familyTime h h0e]
  by_cases hn : midnightOf z (localDay z t) + (t - midnightOf z (localDay z t)) / 3600000 * 3600000
      + 3600000 < midnightOf z (localDay z t + 1)
  · rw [localDay_unique h h0e (by omega) hn]; omega
  · have e : midnightOf z (localDay z t) + (t - midnightOf z (localDay z t)) / 3600000 * 3600000
        + 3600000 = midnightOf z (localDay z t + 1) := by omega
    rw [e, h.round]; omega

/-- plain-quotient slot rule against any base not after the timestamp -/
theorem quotient_slot_bound (t base i : Int) (hb : base ≤ t) (hi : 0 < i) :
    0 ≤ (t - base) / i ∧ base + (t - base) / i * i ≤ t ∧ t < base + ((t - base) / i + 1) * i := by
  have hr : 0 ≤ t - base := by omega
  have hne : i ≠ 0 := by omega
  refine ⟨Int.ediv_nonneg hr (by omega), ?_, ?_⟩
  · have := Int.ediv_mul_le (t - base) hne; omega
  · have := Int.lt_ediv_add_one_mul_self (t - base) hi; omega

/-! ### fixed-offset zones satisfy the contract (non-vacuity) -/

theorem fixed_zone_ok (off : Int) : ZoneOK (Zone.fixed off) ∧ HourAligned (Zone.fixed off) := by
  refine ⟨⟨?_, ?_, ?_⟩, ?_⟩
  · intro n; simp only [midnightOf, Zone.fixed]; omega
  · intro t h0
    simp only [midnightOf, localDay, Zone.fixed]
    rw [Int.tdiv_eq_ediv_of_nonneg h0]; omega
  · intro n
    simp only [midnightOf, localDay, Zone.fixed]
    rw [Int.mul_tdiv_cancel _ (by decide)]; omega
  · intro n; simp only [midnightOf, Zone.fixed]; omega

end LinVerif.Lemmas.C13
