/-
C02: the inductive invariant `Safe` of the interleaving model (Model/VersionSet.lean) and the
counting lemmas it rests on.
-/
import LinVerif.Model.VersionSet

namespace LinVerif.Lemmas.C02
open LinVerif.VersionSet LinVerif.TableCache

/-! ### counting over snapshot ids -/

/-- indicator: snapshot record `a` is open on version `v` -/
def openOn (a : Snap) (v : Nat) : Nat := if a.st = .opened ∧ a.ver = v then 1 else 0

/-- number of open snapshots on version `v` among the ids `< n` -/
def cntOpen (snap : Nat → Snap) (v : Nat) : Nat → Nat
  | 0 => 0
  | n + 1 => cntOpen snap v n + openOn (snap n) v

/-- number of retained readers of table `f` over the snapshots `< n` -/
def holdSum (snap : Nat → Snap) (f : Nat) : Nat → Nat
  | 0 => 0
  | n + 1 => holdSum snap f n + (snap n).held.count f

theorem cntOpen_upd_ge (snap : Nat → Snap) (v i : Nat) (x : Snap) (n : Nat) (h : n ≤ i) :
    cntOpen (upd snap i x) v n = cntOpen snap v n := by
  induction n with
  | zero => rfl
  | succ k ih =>
    have : k ≠ i := by omega
    simp [cntOpen, ih (by omega), upd_other _ _ _ _ this]

theorem cntOpen_upd_lt (snap : Nat → Snap) (v i : Nat) (x : Snap) (n : Nat) (h : i < n) :
    cntOpen (upd snap i x) v n + openOn (snap i) v = cntOpen snap v n + openOn x v := by
  induction n with
  | zero => omega
  | succ k ih =>
    by_cases hk : i = k
    · subst hk
      simp [cntOpen, cntOpen_upd_ge snap v i x i (Nat.le_refl _)]
      omega
    · have h1 : i < k := by omega
      have h2 : k ≠ i := by omega
      have := ih h1
      simp [cntOpen, upd_other _ _ _ _ h2]
      omega

theorem holdSum_upd_ge (snap : Nat → Snap) (f i : Nat) (x : Snap) (n : Nat) (h : n ≤ i) :
    holdSum (upd snap i x) f n = holdSum snap f n := by
  induction n with
  | zero => rfl
  | succ k ih =>
    have : k ≠ i := by omega
    simp [holdSum, ih (by omega), upd_other _ _ _ _ this]

theorem holdSum_upd_lt (snap : Nat → Snap) (f i : Nat) (x : Snap) (n : Nat) (h : i < n) :
    holdSum (upd snap i x) f n + (snap i).held.count f = holdSum snap f n + x.held.count f := by
  induction n with
  | zero => omega
  | succ k ih =>
    by_cases hk : i = k
    · subst hk
      simp [holdSum, holdSum_upd_ge snap f i x i (Nat.le_refl _)]
      omega
    · have h1 : i < k := by omega
      have h2 : k ≠ i := by omega
      have := ih h1
      simp [holdSum, upd_other _ _ _ _ h2]
      omega

theorem holdSum_ge_count (snap : Nat → Snap) (f i n : Nat) (h : i < n) :
    (snap i).held.count f ≤ holdSum snap f n := by
  induction n with
  | zero => omega
  | succ k ih =>
    by_cases hk : i = k
    · subst hk; simp [holdSum]
    · have := ih (by omega); simp [holdSum]; omega

theorem cntOpen_pos (snap : Nat → Snap) (v i n : Nat) (h : i < n)
    (ho : (snap i).st = .opened) (hv : (snap i).ver = v) : 0 < cntOpen snap v n := by
  induction n with
  | zero => omega
  | succ k ih =>
    by_cases hk : i = k
    · subst hk; simp [cntOpen, openOn, ho, hv]
    · have := ih (by omega); simp [cntOpen]; omega

/-! ### program-counter classes -/

/-- the job holds the version-set mutex -/
def inCommit : Pc → Bool
  | .cLocked | .cSnapped | .cSwapped | .cChecked | .cPrevDone | .cDecd | .cRemoved | .cReleased => true
  | _ => false

/-- the job's output number is allocated and still marked pending -/
def outPending : Pc → Bool
  | .allocd | .ready | .cLocked | .cSnapped | .cSwapped | .cChecked | .cPrevDone | .cDecd | .cRemoved
  | .cReleased | .cUnlocked => true
  | _ => false

/-- the job's output table exists in the directory and the writer is not finished -/
def outOnDisk : Pc → Bool
  | .ready | .cLocked | .cSnapped | .cSwapped | .cChecked | .cPrevDone | .cDecd | .cRemoved
  | .cReleased | .cUnlocked => true
  | _ => false

/-- a compaction still holds the snapshot it took at its start -/
def ownRange : Pc → Bool
  | .picked | .reading | .merging | .allocd | .ready | .cLocked | .cSnapped | .cSwapped | .cChecked
  | .cPrevDone | .cDecd | .cRemoved | .cReleased | .cUnlocked | .closeOwn => true
  | _ => false

/-- the commit's own snapshot exists -/
def csnapRange : Pc → Bool
  | .cSnapped | .cSwapped | .cChecked | .cPrevDone | .cDecd | .cRemoved => true
  | _ => false

/-- the edit log is built and not yet installed -/
def editRange : Pc → Bool
  | .ready | .cLocked | .cSnapped => true
  | _ => false

/-- program counters only a compaction job reaches -/
def compactOnly : Pc → Bool
  | .picked | .reading | .merging | .closeOwn | .oDecd | .oRemoved => true
  | _ => false

/-- no output number has been allocated yet -/
def preAlloc : Pc → Bool
  | .start | .picked | .reading | .merging => true
  | _ => false

/-- the job's edit log has been installed (its version swap is done) and the commit is not over -/
def postSwap : Pc → Bool
  | .cSwapped | .cChecked | .cPrevDone | .cDecd | .cRemoved | .cReleased => true
  | _ => false

def delRange : Pc → Bool
  | .doRolled | .doEvicted | .doRemoved => true
  | _ => false

/-! ### liveness of table files -/

/-- `f` was handed out and is no pending output (any more) -/
def PastPending (s : St) (f : Nat) : Prop := f < s.nextFile ∧ f ∉ s.pending

/-- no pending output and listed by no active version: can never be needed again -/
def Dead (s : St) (f : Nat) : Prop :=
  f < s.nextFile ∧ f ∉ s.pending ∧ ∀ v ∈ s.active, f ∉ (s.ver v).nos

def DeadR (s : St) (f : Nat) : Prop := Dead s f ∧ f ∉ (s.ver s.cur).rollupFiles

/-- per-job part of the invariant -/
structure JobOk (s : St) (j : Nat) (b : Job) : Prop where
  konly : compactOnly b.pc = true → b.kind = .compact
  notCloned : b.pc ≠ .cCloned
  notCreatedU : b.pc ≠ .createdU
  notLiveL : b.pc ≠ .doLiveL
  noOut : preAlloc b.pc = true → b.out = none
  ownIdx : (b.pc = .oDecd ∨ b.pc = .oRemoved) → b.snap < s.nSnap
  pend : outPending b.pc = true → ∀ f ∈ outNo b, f ∈ s.pending
  ondisk : outOnDisk b.pc = true → ∀ f ∈ outNo b, f ∈ s.disk
  outlt : ∀ f ∈ outNo b, f < s.nextFile
  lock : inCommit b.pc = true → s.lock = some j
  own : b.kind = .compact → ownRange b.pc = true →
    b.snap < s.nSnap ∧ (s.snap b.snap).st = .opened ∧ (s.snap b.snap).owner = some j
  csnap : csnapRange b.pc = true →
    b.csnap < s.nSnap ∧ (s.snap b.csnap).owner = some j ∧ (b.kind = .compact → b.csnap ≠ b.snap)
  edit : editRange b.pc = true →
    (∀ m ∈ b.edit.adds, m.no ∈ outNo b ∨ (b.kind = .compact ∧ m.no ∈ (s.ver (s.snap b.snap).ver).nos)) ∧
    (∀ f ∈ b.edit.rollAdd.map (·.1), f ∈ outNo b)
  built : b.pc = .cSnapped → b.newVer < s.nextVer ∧ s.ver b.newVer = applyEdit (s.ver s.cur) b.edit
  reading : b.pc = .reading → ∀ f ∈ b.todoIn, f ∈ (s.ver (s.snap b.snap).ver).nos
  inputs : b.pc = .picked → ∀ m ∈ b.inputs, m.no ∈ (s.ver (s.snap b.snap).ver).nos
  recorded : postSwap b.pc = true → b.edit ∈ s.hist
  nfread : b.pc = .cLocked → b.nfRead = s.nextFile
  rolldel : editRange b.pc = true → b.kind ≠ .rollupDone → b.kind ≠ .rollupJob → b.edit.rollDel = []
  listed : b.pc = .doListed → ∀ f ∈ b.dlist, f < s.nextFile
  pended : b.pc = .doPended → ∀ f ∈ b.dlist, f ∉ b.live → PastPending s f
  actived : b.pc = .doActived → ∀ f ∈ b.dlist, f ∉ b.live → Dead s f
  deleting : delRange b.pc = true → ∀ f ∈ b.todoDel, DeadR s f

/-- the inductive invariant (closes for `cfg.recheck = true`) -/
structure Safe (s : St) : Prop where
  cur_active : s.cur ∈ s.active
  ref_count : ∀ v, s.ref v = (cntOpen s.snap v s.nSnap : Int)
  open_active : ∀ i, i < s.nSnap → (s.snap i).st = .opened → (s.snap i).ver ∈ s.active
  ver_bound : s.cur < s.nextVer ∧ (∀ v ∈ s.active, v < s.nextVer) ∧ (∀ i, i < s.nSnap → (s.snap i).ver < s.nextVer)
  files_on_disk : ∀ v ∈ s.active, ∀ f ∈ (s.ver v).nos, f ∈ s.disk
  rollup_on_disk : ∀ f ∈ (s.ver s.cur).rollupFiles, f ∈ s.disk
  file_bound : (∀ v, ∀ f ∈ (s.ver v).nos, f < s.nextFile) ∧ (∀ v, ∀ f ∈ (s.ver v).rollupFiles, f < s.nextFile) ∧
    (∀ f ∈ s.pending, f < s.nextFile) ∧ (∀ f ∈ s.disk, f < s.nextFile)
  jobs : ∀ j, j < s.nJob → JobOk s j (s.job j)
  outs_distinct : ∀ j k, j < s.nJob → k < s.nJob → j ≠ k → ∀ f ∈ outNo (s.job j), f ∉ outNo (s.job k)
  held_mapped : ∀ i, i < s.nSnap → (s.snap i).st = .opened → ∀ f ∈ (s.snap i).held, s.cref f ≠ none
  held_files : ∀ i, i < s.nSnap → ∀ f ∈ (s.snap i).held, f ∈ (s.ver (s.snap i).ver).nos
  hold_count : ∀ f r, s.cref f = some r → (holdSum s.snap f s.nSnap : Int) ≤ r
  held_dead : ∀ i, i < s.nSnap → (s.snap i).st ≠ .opened → ∀ f ∈ (s.snap i).held, s.cref f = none → Dead s f
  history : s.ver s.cur = s.hist.foldr (fun e v => applyEdit v e) {}

end LinVerif.Lemmas.C02
