/-
C10 helper lemmas: the forward index merger on raw entries (`mergeRaw`, `mergeJob`).
* scanning only APPENDS to the buffer it is given (`scanLows_append`);
* with the per-container truncation the value region written for a key does not depend on what the
  pooled buffer held when `Merge` was entered (`mergeRaw_true_stale`), for any number of containers,
  inputs and keys (`mergeJob_true_fresh`);
* the reader's lookup table decodes a value region made of one block per container, each as long as
  its container, into exactly those blocks (`decodeFrom_blocks`).
-/
import LinVerif.Model.TagFilterHeap

set_option linter.unusedSimpArgs false
set_option linter.unusedVariables false

namespace LinVerif.TagFilter

theorem scanCur_append (s : MScan) (h low : Nat) (buf : List ValId) :
    s.scanCur h low buf = (s.scanCur h low []).map (fun r => (r.1, buf ++ r.2)) := by
  unfold MScan.scanCur
  split
  · simp
  · split
    · simp
    · split
      · split <;> simp
      · simp

theorem scan_append (s : MScan) (h low : Nat) (buf : List ValId) :
    s.scan h low buf = (s.scan h low []).map (fun r => (r.1, buf ++ r.2)) := by
  unfold MScan.scan
  exact scanCur_append _ h low buf

theorem scanAll_append (h low : Nat) (ss : List MScan) (buf : List ValId) :
    scanAll h low ss buf = (scanAll h low ss []).map (fun r => (r.1, buf ++ r.2)) := by
  induction ss generalizing buf with
  | nil => simp [scanAll]
  | cons s t ih =>
    unfold scanAll
    rw [scan_append s h low buf]
    cases hs : s.scan h low [] with
    | none => simp
    | some r =>
      obtain ⟨s', b⟩ := r
      simp only [Option.map_some]
      rw [ih (buf ++ b), ih b]
      cases ht : scanAll h low t [] with
      | none => simp
      | some r2 => simp [List.append_assoc]

theorem scanLows_append (h : Nat) (ls : List Nat) (ss : List MScan) (buf : List ValId) :
    scanLows h ls ss buf = (scanLows h ls ss []).map (fun r => (r.1, buf ++ r.2)) := by
  induction ls generalizing ss buf with
  | nil => simp [scanLows]
  | cons l t ih =>
    unfold scanLows
    rw [scanAll_append h l ss buf]
    cases hs : scanAll h l ss [] with
    | none => simp
    | some r =>
      obtain ⟨ss', b⟩ := r
      simp only [Option.map_some]
      rw [ih ss' (buf ++ b), ih ss' b]
      cases ht : scanLows h t ss' [] with
      | none => simp
      | some r2 => simp [List.append_assoc]

/-- with the per-container truncation the incoming buffer is never read -/
theorem mergeContainers_true_stale (cs : List (Nat × List Nat)) (ss : List MScan) (buf out : List ValId) :
    (mergeContainers true cs ss buf out).map (·.1) = (mergeContainers true cs ss [] out).map (·.1) := by
  cases cs with
  | nil => simp [mergeContainers]
  | cons c t => simp [mergeContainers]

theorem mergeRaw_true_stale (buf : List ValId) (inputs : List RawEntry) :
    (mergeRaw true buf inputs).map (·.1) = (mergeRaw true [] inputs).map (·.1) := by
  unfold mergeRaw
  simp only [if_true]
  have h := mergeContainers_true_stale (inputs.foldl (fun acc e => bmOr acc e.bitmap) []) (inputs.map MScan.new) buf []
  cases h1 : mergeContainers true (inputs.foldl (fun acc e => bmOr acc e.bitmap) []) (inputs.map MScan.new) buf [] with
  | none =>
    cases h2 : mergeContainers true (inputs.foldl (fun acc e => bmOr acc e.bitmap) []) (inputs.map MScan.new) [] [] with
    | none => rfl
    | some r2 => simp [h1, h2] at h
  | some r1 =>
    cases h2 : mergeContainers true (inputs.foldl (fun acc e => bmOr acc e.bitmap) []) (inputs.map MScan.new) [] [] with
    | none => simp [h1, h2] at h
    | some r2 =>
      simp [h1, h2] at h
      simp [h]

/-- a whole compaction job: whatever the pooled buffer held, every key's entry is the one a brand-new
merger writes for that key -/
theorem mergeJob_true_fresh (jobs : List (KeyId × List RawEntry)) :
    ∀ buf, mergeJob true buf jobs = mergeJob true [] jobs := by
  induction jobs with
  | nil => intro buf; rfl
  | cons j t ih =>
    intro buf
    obtain ⟨k, ins⟩ := j
    have h := mergeRaw_true_stale buf ins
    unfold mergeJob
    cases h1 : mergeRaw true buf ins with
    | none =>
      cases h2 : mergeRaw true [] ins with
      | none => rfl
      | some r2 => simp [h1, h2] at h
    | some r1 =>
      cases h2 : mergeRaw true [] ins with
      | none => simp [h1, h2] at h
      | some r2 =>
        obtain ⟨e1, b1⟩ := r1
        obtain ⟨e2, b2⟩ := r2
        simp [h1, h2] at h
        subst h
        simp only []
        rw [ih b1, ih b2]

/-- `mergeJob true` key by key -/
theorem mergeJob_true_each (jobs : List (KeyId × List RawEntry)) (buf : List ValId) :
    mergeJob true buf jobs = jobs.mapM (fun j => (mergeRaw true [] j.2).map (fun r => (j.1, r.1))) := by
  induction jobs generalizing buf with
  | nil => rfl
  | cons j t ih =>
    obtain ⟨k, ins⟩ := j
    rw [mergeJob_true_fresh]
    unfold mergeJob
    cases h2 : mergeRaw true [] ins with
    | none => simp [List.mapM_cons, h2]
    | some r2 =>
      obtain ⟨e2, b2⟩ := r2
      simp only [List.mapM_cons, h2, Option.map_some]
      rw [ih b2]
      cases List.mapM (fun j : KeyId × List RawEntry => (mergeRaw true [] j.2).map (fun r => (j.1, r.1))) t <;> rfl

/-- the lookup table walks a value region made of one block per container -/
theorem decodeFrom_blocks (bm : List (Nat × List Nat)) :
    ∀ (blocks : List (List ValId)) (pre tail : List ValId),
      bm.length = blocks.length → (∀ cb ∈ bm.zip blocks, cb.1.2.length = cb.2.length) →
      decodeFrom (pre ++ blocks.flatten ++ tail) pre.length bm
        = (bm.zip blocks).map (fun cb => (cb.1.1, cb.1.2.zip cb.2)) := by
  induction bm with
  | nil => intro blocks pre tail _ _; simp [decodeFrom]
  | cons c t ih =>
    intro blocks pre tail hlen hall
    cases blocks with
    | nil => simp at hlen
    | cons b bs =>
      have hcb : c.2.length = b.length := hall (c, b) (by simp)
      simp only [decodeFrom, List.zip_cons_cons, List.map_cons, List.flatten_cons]
      have h1 : ((pre ++ (b ++ bs.flatten) ++ tail).drop pre.length).take c.2.length = b := by
        rw [List.append_assoc, List.drop_left, List.append_assoc, hcb, List.take_left]
      rw [h1]
      have h2 := ih bs (pre ++ b) tail (by simpa using hlen) (fun cb hm => hall cb (by simp [hm]))
      have h3 : pre ++ (b ++ bs.flatten) ++ tail = pre ++ b ++ bs.flatten ++ tail := by simp [List.append_assoc]
      have h4 : pre.length + c.2.length = (pre ++ b).length := by simp [hcb]
      rw [h3, h4, h2]

/-- the blocks `Merge` hands to `WriteTagValueIDs`, one per merged container, when every block starts
from an empty buffer -/
def containerBlocks : List (Nat × List Nat) → List MScan → Option (List (List ValId))
  | [], _ => some []
  | c :: cs, ss =>
    match scanLows c.1 c.2 ss [] with
    | none => none
    | some (ss', b) => (containerBlocks cs ss').map (b :: ·)

/-- per-container truncation: the value region is the concatenation of the containers' own blocks -/
theorem mergeContainers_true_blocks (bm : List (Nat × List Nat)) :
    ∀ (ss : List MScan) (buf out : List ValId),
      (mergeContainers true bm ss buf out).map (·.1) = (containerBlocks bm ss).map (fun bs => out ++ bs.flatten) := by
  induction bm with
  | nil => intro ss buf out; simp [mergeContainers, containerBlocks]
  | cons c cs ih =>
    intro ss buf out
    unfold mergeContainers containerBlocks
    simp only [if_true]
    cases hs : scanLows c.1 c.2 ss [] with
    | none => simp
    | some r =>
      obtain ⟨ss', b⟩ := r
      simp only []
      rw [ih ss' b (out ++ b)]
      cases containerBlocks cs ss' with
      | none => simp
      | some bs => simp [List.append_assoc]

/-- truncation once per key: the block written for container n repeats the blocks of containers 0..n-1 -/
def prefixBlocks (acc : List ValId) : List (List ValId) → List ValId
  | [] => []
  | b :: bs => (acc ++ b) ++ prefixBlocks (acc ++ b) bs

theorem mergeContainers_false_blocks (bm : List (Nat × List Nat)) :
    ∀ (ss : List MScan) (buf out : List ValId),
      (mergeContainers false bm ss buf out).map (·.1)
        = (containerBlocks bm ss).map (fun bs => out ++ prefixBlocks buf bs) := by
  induction bm with
  | nil => intro ss buf out; simp [mergeContainers, containerBlocks, prefixBlocks]
  | cons c cs ih =>
    intro ss buf out
    unfold mergeContainers containerBlocks
    simp only [Bool.false_eq_true, if_false]
    rw [scanLows_append]
    cases hs : scanLows c.1 c.2 ss [] with
    | none => simp
    | some r =>
      obtain ⟨ss', b⟩ := r
      simp only [Option.map_some]
      rw [ih ss' (buf ++ b) (out ++ (buf ++ b))]
      cases containerBlocks cs ss' with
      | none => simp
      | some bs => simp [prefixBlocks, List.append_assoc]

end LinVerif.TagFilter
