/-
C10 helper lemmas: the forward index merger on raw entries (`mergeRaw`, `mergeJob`).
* scanning only APPENDS to the buffer it is given (`scanLows_append`);
* with the per-container truncation the value region written for a key does not depend on what the
  pooled buffer held when `Merge` was entered (`mergeRaw_true_stale`), for any number of containers,
  inputs and keys (`mergeJob_true_fresh`);
* the reader's lookup table decodes a value region made of one block per container, each as long as
  its container, into exactly those blocks (`decodeFrom_blocks`).
-/
import LinVerif.Model.TagFilterHeap

set_option linter.unusedSimpArgs false
set_option linter.unusedVariables false

namespace LinVerif.TagFilter

theorem scanCur_append (s : MScan) (h low : Nat) (buf : List ValId) :
    s.scanCur h low buf = (s.scanCur h low []).map (fun r => (r.1, buf ++ r.2)) := by
  unfold MScan.scanCur
  split
  · simp
  · split
    · simp
    · split
      · split <;> simp
      · simp

theorem scan_append (s : MScan) (h low : Nat) (buf : List ValId) :
    s.scan h low buf = (s.scan h low []).map (fun r => (r.1, buf ++ r.2)) := by
  unfold MScan.scan
  exact scanCur_append _ h low buf

theorem scanAll_append (h low : Nat) (ss : List MScan) (buf : List ValId) :
    scanAll h low ss buf = (scanAll h low ss []).map (fun r => (r.1, buf ++ r.2)) := by
  induction ss generalizing buf with
  | nil => simp [scanAll]
  | cons s t ih =>
    unfold scanAll
    rw [scan_append s h low buf]
    cases hs : s.scan h low [] with
    | none => simp
    | some r =>
      obtain ⟨s', b⟩ := r
      simp only [Option.map_some]
      rw [ih (buf ++ b), ih b]
      cases ht : scanAll h low t [] with
      | none => simp
      | some r2 => simp [List.append_assoc]

theorem scanLows_append (h : Nat) (ls : List Nat) (ss : List MScan) (buf : List ValId) :
    scanLows h ls ss buf = (scanLows h ls ss []).map (fun r => (r.1, buf ++ r.2)) := by
  induction ls generalizing ss buf with
  | nil => simp [scanLows]
  | cons l t ih =>
    unfold scanLows
    rw [scanAll_append h l ss buf]
    cases hs : scanAll h l ss [] with
    | none => simp
    | some r =>
      obtain ⟨ss', b⟩ := r
      simp only [Option.map_some]
      rw [ih ss' (buf ++ b), ih ss' b]
      cases ht : scanLows h t ss' [] with
      | none => simp
      | some r2 => simp [List.append_assoc]

/-- with the per-container truncation the incoming buffer is never read -/
theorem mergeContainers_true_stale (cs : List (Nat × List Nat)) (ss : List MScan) (buf out : List ValId) :
    (mergeContainers true cs ss buf out).map (·.1) = (mergeContainers true cs ss [] out).map (·.1) := by
  cases cs with
  | nil => simp [mergeContainers]
  | cons c t => simp [mergeContainers]

theorem mergeRaw_true_stale (buf : List ValId) (inputs : List RawEntry) :
    (mergeRaw true buf inputs).map (·.1) = (mergeRaw true [] inputs).map (·.1) := by
  unfold mergeRaw
  simp only [if_true]
  have h := mergeContainers_true_stale (inputs.foldl (fun acc e => bmOr acc e.bitmap) []) (inputs.map MScan.new) buf []
  cases h1 : mergeContainers true (inputs.foldl (fun acc e => bmOr acc e.bitmap) []) (inputs.map MScan.new) buf [] with
  | none =>
    cases h2 : mergeContainers true (inputs.foldl (fun acc e => bmOr acc e.bitmap) []) (inputs.map MScan.new) [] [] with
    | none => rfl
    | some r2 => simp [h1, h2] at h
  | some r1 =>
    cases h2 : mergeContainers true (inputs.foldl (fun acc e => bmOr acc e.bitmap) []) (inputs.map MScan.new) [] [] with
    | none => simp [h1, h2] at h
    | some r2 =>
      simp [h1, h2] at h
      simp [h]

/-- a whole compaction job: whatever the pooled buffer held, every key's entry is the one a brand-new
merger writes for that key -/
theorem mergeJob_true_fresh (jobs : List (KeyId × List RawEntry)) :
    ∀ buf, mergeJob true buf jobs = mergeJob true [] jobs := by
  induction jobs with
  | nil => intro buf; rfl
  | cons j t ih =>
    intro buf
    obtain ⟨k, ins⟩ := j
    have h := mergeRaw_true_stale buf ins
    unfold mergeJob
    cases h1 : mergeRaw true buf ins with
    | none =>
      cases h2 : mergeRaw true [] ins with
      | none => rfl
      | some r2 => simp [h1, h2] at h
    | some r1 =>
      cases h2 : mergeRaw true [] ins with
      | none => simp [h1, h2] at h
      | some r2 =>
        obtain ⟨e1, b1⟩ := r1
        obtain ⟨e2, b2⟩ := r2
        simp [h1, h2] at h
        subst h
        simp only []
        rw [ih b1, ih b2]

/-- `mergeJob true` key by key -/
theorem mergeJob_true_each (jobs : List (KeyId × List RawEntry)) (buf : List ValId) :
    mergeJob true buf jobs = jobs.mapM (fun j => (mergeRaw true [] j.2).map (fun r => (j.1, r.1))) := by
  induction jobs generalizing buf with
  | nil => rfl
  | cons j t ih =>
    obtain ⟨k, ins⟩ := j
    rw [mergeJob_true_fresh]
    unfold mergeJob
    cases h2 : mergeRaw true [] ins with
    | none => simp [List.mapM_cons, h2]
    | some r2 =>
      obtain ⟨e2, b2⟩ := r2
      simp only [List.mapM_cons, h2, Option.map_some]
      rw [ih b2]
      cases List.mapM (fun j : KeyId × List RawEntry => (mergeRaw true [] j.2).map (fun r => (j.1, r.1))) t <;> rfl

/-- the lookup table walks a value region made of one block per container -/
theorem decodeFrom_blocks (bm : List (Nat × List Nat)) :
    ∀ (blocks : List (List ValId)) (pre tail : List ValId),
      bm.length = blocks.length → (∀ cb ∈ bm.zip blocks, cb.1.2.length = cb.2.length) →
      decodeFrom (pre ++ blocks.flatten ++ tail) pre.length bm
        = (bm.zip blocks).map (fun cb => (cb.1.1, cb.1.2.zip cb.2)) := by
  induction bm with
  | nil => intro blocks pre tail _ _; simp [decodeFrom]
  | cons c t ih =>
    intro blocks pre tail hlen hall
    cases blocks with
    | nil => simp at hlen
    | cons b bs =>
      have hcb : c.2.length = b.length := hall (c, b) (by simp)
      simp only [decodeFrom, List.zip_cons_cons, List.map_cons, List.flatten_cons]
      have h1 : ((pre ++ (b ++ bs.flatten) ++ tail).drop pre.length).take c.2.length = b := by
        rw [List.append_assoc, List.drop_left, List.append_assoc, hcb, List.take_left]
      rw [h1]
      have h2 := ih bs (pre ++ b) tail (by simpa using hlen) (fun cb hm => hall cb (by simp [hm]))
      have h3 : pre ++ (b ++ bs.flatten) ++ tail = pre ++ b ++ bs.flatten ++ tail := by simp [List.append_assoc]
      have h4 : pre.length + c.2.length = (pre ++ b).length := by simp [hcb]
      rw [h3, h4, h2]

/-- the blocks `Merge` hands to `WriteTagValueIDs`, one per merged container, when every block starts
from an empty buffer -/
def containerBlocks : List (Nat × List Nat) → List MScan → Option (List (List ValId))
  | [], _ => some []
  | c :: cs, ss =>
    match scanLows c.1 c.2 ss [] with
    | none => none
    | some (ss', b) => (containerBlocks cs ss').map (b :: ·)

/-- per-container truncation: the value region is the concatenation of the containers' own blocks -/
theorem mergeContainers_true_blocks (bm : List (Nat × List Nat)) :
    ∀ (ss : List MScan) (buf out : List ValId),
      (mergeContainers true bm ss buf out).map (·.1) = (containerBlocks bm ss).map (fun bs => out ++ bs.flatten) := by
  induction bm with
  | nil => intro ss buf out; simp [mergeContainers, containerBlocks]
  | cons c cs ih =>
    intro ss buf out
    unfold mergeContainers containerBlocks
    simp only [if_true]
    cases hs : scanLows c.1 c.2 ss [] with
    | none => simp
    | some r =>
      obtain ⟨ss', b⟩ := r
      simp only []
      rw [ih ss' b (out ++ b)]
      cases containerBlocks cs ss' with
      | none => simp
      | some bs => simp [List.append_assoc]

/-- truncation once per key: the block written for container n repeats the blocks of containers 0..n-1 -/
def prefixBlocks (acc : List ValId) : List (List ValId) → List ValId
  | [] => []
  | b :: bs => (acc ++ b) ++ prefixBlocks (acc ++ b) bs

theorem mergeContainers_false_blocks (bm : List (Nat × List Nat)) :
    ∀ (ss : List MScan) (buf out : List ValId),
      (mergeContainers false bm ss buf out).map (·.1)
        = (containerBlocks bm ss).map (fun bs => out ++ prefixBlocks buf bs) := by
  induction bm with
  | nil => intro ss buf out; simp [mergeContainers, containerBlocks, prefixBlocks]
  | cons c cs ih =>
    intro ss buf out
    unfold mergeContainers containerBlocks
    simp only [Bool.false_eq_true, if_false]
    rw [scanLows_append]
    cases hs : scanLows c.1 c.2 ss [] with
    | none => simp
    | some r =>
      obtain ⟨ss', b⟩ := r
      simp only [Option.map_some]
      rw [ih ss' (buf ++ b) (out ++ (buf ++ b))]
      cases containerBlocks cs ss' with
      | none => simp
      | some bs => simp [prefixBlocks, List.append_assoc]

/-! ### the scanners' cursor inside one container -/

/-- cursor invariant of one scanner inside container `h`: `rem` = the (low key, value id) pairs of its
container not yet visited; the unread rest of `tagValueIDs` are their values; every low key already
passed is smaller than every low key still to come (`ls`); the remaining ones are ascending and all
of them will be visited -/
def CurOK (h : Nat) (s : MScan) (rem : List (Nat × ValId)) (ls : List Nat) : Prop :=
  s.high = h ∧ ∃ pre : List Nat, s.lows = some (pre ++ rem.map (·.1)) ∧ s.rest = rem.map (·.2) ∧
    (∀ x ∈ pre, ∀ l ∈ ls, x < l) ∧ (rem.map (·.1)).Pairwise (· < ·) ∧ (∀ x ∈ rem.map (·.1), x ∈ ls)

def remAfter (l : Nat) : List (Nat × ValId) → List (Nat × ValId)
  | [] => []
  | (r, v) :: t => if r = l then t else (r, v) :: t

def emitted (l : Nat) : List (Nat × ValId) → List ValId
  | [] => []
  | (r, v) :: _ => if r = l then [v] else []

theorem scanCur_step {h l : Nat} {ls' : List Nat} {s : MScan} {rem : List (Nat × ValId)} (buf : List ValId)
    (hp : (l :: ls').Pairwise (· < ·)) (hc : CurOK h s rem (l :: ls')) :
    ∃ s', s.scanCur h l buf = some (s', buf ++ emitted l rem) ∧ CurOK h s' (remAfter l rem) ls' := by
  obtain ⟨hh, pre, hl, hr, hpre, hpw, hsub⟩ := hc
  have hlpre : l ∉ pre := fun hm => Nat.lt_irrefl l (hpre l hm l (by simp))
  have hlt : ∀ l' ∈ ls', l < l' := (List.pairwise_cons.mp hp).1
  cases rem with
  | nil =>
    refine ⟨s, ?_, hh, pre, hl, hr, fun x hx l' hl' => hpre x hx l' (List.mem_cons_of_mem _ hl'), by simp [remAfter], by simp [remAfter]⟩
    unfold MScan.scanCur
    simp [hh, hl, hlpre, emitted]
  | cons rv t =>
    obtain ⟨r, v⟩ := rv
    have hrin : r ∈ l :: ls' := hsub r (by simp)
    have hpw' := List.pairwise_cons.mp hpw
    by_cases hrl : r = l
    · subst hrl
      refine ⟨{ s with rest := t.map (·.2) }, ?_, hh, pre ++ [r], ?_, by simp [remAfter], ?_, by simpa [remAfter] using hpw'.2, ?_⟩
      · unfold MScan.scanCur
        simp [hh, hl, hr, emitted]
      · simp [hl, remAfter]
      · intro x hx l' hl'
        rcases List.mem_append.mp hx with hx | hx
        · exact hpre x hx l' (List.mem_cons_of_mem _ hl')
        · simp at hx; subst hx; exact hlt l' hl'
      · intro x hx
        simp only [remAfter, if_true] at hx
        have h1 : r < x := hpw'.1 x hx
        have h2 : x ∈ r :: ls' := hsub x (by simp at hx ⊢; exact Or.inr hx)
        rcases List.mem_cons.mp h2 with h2 | h2
        · omega
        · exact h2
    · have hrls : r ∈ ls' := by
        rcases List.mem_cons.mp hrin with h1 | h1
        · exact absurd h1 hrl
        · exact h1
      have hlr : l < r := hlt r hrls
      have hnot : l ∉ ((r, v) :: t).map (·.1) := by
        intro hm
        have hm' : l = r ∨ l ∈ t.map (·.1) := by simpa using hm
        rcases hm' with hm | hm
        · omega
        · have h9 : r < l := hpw'.1 l hm
          omega
      refine ⟨s, ?_, hh, pre, ?_, ?_, fun x hx l' hl' => hpre x hx l' (List.mem_cons_of_mem _ hl'), ?_, ?_⟩
      · unfold MScan.scanCur
        have : l ∉ pre ++ ((r, v) :: t).map (·.1) := by
          intro hm; rcases List.mem_append.mp hm with hm | hm
          · exact hlpre hm
          · exact hnot hm
        have hc : (pre ++ ((r, v) :: t).map (·.1)).contains l = false := by
          simpa using this
        simp only [hh, hl, bne_self_eq_false, Bool.false_eq_true, if_false, hc, emitted, hrl, List.append_nil]
      · simpa [remAfter, hrl] using hl
      · simpa [remAfter, hrl] using hr
      · simpa [remAfter, hrl] using hpw
      · intro x hx
        simp only [remAfter, hrl, if_false] at hx
        have h2 := hsub x hx
        rcases List.mem_cons.mp h2 with h2 | h2
        · subst h2; exact absurd hx hnot
        · exact h2


theorem scan_eq_scanCur {h : Nat} {s : MScan} (hh : s.high = h) (l : Nat) (buf : List ValId) :
    s.scan h l buf = s.scanCur h l buf := by
  unfold MScan.scan
  simp [hh]

/-- a scanner that has nothing for container `h`: it stands on a later container, or the reader has no
container with this high key -/
def Idle (h : Nat) (s : MScan) : Prop := h < s.high ∨ (s.high = h ∧ s.lows = none)

/-- state of a scanner inside the scan of container `h` -/
def ScanOK (h : Nat) (s : MScan) (rem : List (Nat × ValId)) (ls : List Nat) : Prop :=
  CurOK h s rem ls ∨ (Idle h s ∧ rem = [])

theorem scan_idle {h : Nat} {s : MScan} (hi : Idle h s) (l : Nat) (buf : List ValId) :
    s.scan h l buf = some (s, buf) := by
  unfold MScan.scan MScan.scanCur
  rcases hi with hi | ⟨h1, h2⟩
  · have h1 : ¬ s.high < h := by omega
    have h2 : (h != s.high) = true := by simp; omega
    simp [h1, h2]
  · simp [h1, h2]

theorem scan_step {h l : Nat} {ls' : List Nat} {s : MScan} {rem : List (Nat × ValId)} (buf : List ValId)
    (hp : (l :: ls').Pairwise (· < ·)) (hc : ScanOK h s rem (l :: ls')) :
    ∃ s', s.scan h l buf = some (s', buf ++ emitted l rem) ∧ ScanOK h s' (remAfter l rem) ls' := by
  rcases hc with hc | ⟨hi, rfl⟩
  · obtain ⟨s', hs, hc'⟩ := scanCur_step buf hp hc
    exact ⟨s', by rw [scan_eq_scanCur hc.1, hs], Or.inl hc'⟩
  · exact ⟨s, by simp [scan_idle hi, emitted], Or.inr ⟨hi, by simp [remAfter]⟩⟩

/-- one low key through all scanners -/
theorem scanAll_step {h l : Nat} {ls' : List Nat} (hp : (l :: ls').Pairwise (· < ·)) :
    ∀ (srs : List (MScan × List (Nat × ValId))) (buf : List ValId),
      (∀ sr ∈ srs, ScanOK h sr.1 sr.2 (l :: ls')) →
      ∃ srs' : List (MScan × List (Nat × ValId)),
        scanAll h l (srs.map (·.1)) buf = some (srs'.map (·.1), buf ++ srs.flatMap (fun sr => emitted l sr.2)) ∧
        srs'.map (·.2) = srs.map (fun sr => remAfter l sr.2) ∧ (∀ sr ∈ srs', ScanOK h sr.1 sr.2 ls') := by
  intro srs
  induction srs with
  | nil => intro buf _; exact ⟨[], by simp [scanAll], rfl, by simp⟩
  | cons sr t ih =>
    intro buf hall
    obtain ⟨s, rem⟩ := sr
    have hc : ScanOK h s rem (l :: ls') := hall (s, rem) (by simp)
    obtain ⟨s', hs, hc'⟩ := scan_step buf hp hc
    obtain ⟨t', ht, hmap, hall'⟩ := ih (buf ++ emitted l rem) (fun sr hm => hall sr (List.mem_cons_of_mem _ hm))
    refine ⟨(s', remAfter l rem) :: t', ?_, by simp [hmap], ?_⟩
    · simp only [List.map_cons, scanAll]
      rw [hs]
      simp only []
      rw [ht]
      simp [List.append_assoc]
    · intro sr hm
      rcases List.mem_cons.mp hm with hm | hm
      · subst hm; exact hc'
      · exact hall' sr hm

/-- what the scan of one merged container appends: low key by low key, scanner by scanner, the value
id the scanner's container pairs with that low key (pure function of the containers' contents) -/
def blockSpec : List Nat → List (List (Nat × ValId)) → List ValId
  | [], _ => []
  | l :: ls, rems => rems.flatMap (emitted l) ++ blockSpec ls (rems.map (remAfter l))

/-- **the cursor-level scan of one container computes `blockSpec`** -/
theorem scanLows_spec {h : Nat} : ∀ (ls : List Nat) (srs : List (MScan × List (Nat × ValId))) (buf : List ValId),
    ls.Pairwise (· < ·) → (∀ sr ∈ srs, ScanOK h sr.1 sr.2 ls) →
    ∃ ss', scanLows h ls (srs.map (·.1)) buf = some (ss', buf ++ blockSpec ls (srs.map (·.2))) := by
  intro ls
  induction ls with
  | nil => intro srs buf _ _; exact ⟨srs.map (·.1), by simp [scanLows, blockSpec]⟩
  | cons l ls' ih =>
    intro srs buf hp hall
    obtain ⟨srs', hs, hmap, hall'⟩ := scanAll_step hp srs buf hall
    obtain ⟨ss', hss⟩ := ih srs' (buf ++ srs.flatMap (fun sr => emitted l sr.2)) (List.pairwise_cons.mp hp).2 hall'
    refine ⟨ss', ?_⟩
    simp only [scanLows, hs]
    rw [hss, hmap]
    simp [blockSpec, List.flatMap_map, List.append_assoc, List.map_map, Function.comp_def]

end LinVerif.TagFilter
