/-
Helper lemmas for C12: what an aggregator puts on the wire (`Agg.emit`) and what the next
aggregator reads from it.
-/
import LinVerif.Lemmas.C12Merge
import Mathlib.Data.List.Nodup

namespace LinVerif.RootMerge

theorem flatMap_unique {α β : Type} [DecidableEq α] (l : List α) (hn : l.Nodup) (g : α → List β)
    (x0 : α) (h : ∀ x ∈ l, x ≠ x0 → g x = []) :
    l.flatMap g = if x0 ∈ l then g x0 else [] := by
  induction l with
  | nil => rfl
  | cons x xs ih =>
    have hx : x ∉ xs := (List.nodup_cons.mp hn).1
    have hxs := ih (List.nodup_cons.mp hn).2 (fun y hy => h y (List.mem_cons_of_mem _ hy))
    rw [List.flatMap_cons, hxs]
    by_cases e : x = x0
    · subst e; simp [hx]
    · rw [h x List.mem_cons_self e]
      have : (x0 ∈ x :: xs) ↔ x0 ∈ xs := by
        constructor
        · intro hm; rcases List.mem_cons.mp hm with r | r
          · exact absurd r.symm e
          · exact r
        · exact List.mem_cons_of_mem _
      simp [this]

theorem mem_atoms (ts : TS) (a : Atom) :
    a ∈ ts.atoms ↔ ∃ fd ∈ ts.fields, ∃ p ∈ fd.prims, ∃ sv ∈ p.pts,
      a = { t := ts.tags, f := fd.name, kind := p.kind, s := sv.1, v := sv.2 } := by
  simp only [TS.atoms, FieldData.atoms, List.mem_flatMap, List.mem_map]
  constructor
  · rintro ⟨fd, hfd, p, hp, sv, hsv, rfl⟩; exact ⟨fd, hfd, p, hp, sv, hsv, rfl⟩
  · rintro ⟨fd, hfd, p, hp, sv, hsv, rfl⟩; exact ⟨fd, hfd, p, hp, sv, hsv, rfl⟩

theorem valsAt_ne_nil (cap : Nat) (atoms : List Atom) (t f s : Nat) (h : valsAt cap atoms t f s ≠ []) :
    ∃ a ∈ atoms, a.t = t ∧ a.f = f ∧ a.s = s ∧ a.s < cap := by
  induction atoms with
  | nil => simp [valsAt] at h
  | cons a as ih =>
    by_cases c : a.t = t ∧ a.f = f ∧ a.s = s ∧ a.s < cap
    · exact ⟨a, List.mem_cons_self, c⟩
    · have : valsAt cap (a :: as) t f s = valsAt cap as t f s := by
        unfold valsAt; rw [List.filterMap_cons, if_neg c]
      rw [this] at h
      obtain ⟨b, hb, hb2⟩ := ih h
      exact ⟨b, List.mem_cons_of_mem _ hb, hb2⟩

theorem valsAt_eq_nil (cap : Nat) (atoms : List Atom) (t f s : Nat)
    (h : ∀ a ∈ atoms, ¬ (a.t = t ∧ a.f = f ∧ a.s = s ∧ a.s < cap)) : valsAt cap atoms t f s = [] := by
  by_contra hne
  obtain ⟨a, ha, ha2⟩ := valsAt_ne_nil cap atoms t f s hne
  exact h a ha ha2

theorem foldVals_ne_none (k : Kind) (vs : List Int) (h : foldVals k vs ≠ none) : vs ≠ [] := by
  rintro rfl; exact h rfl

/-- invariant of an aggregator that started empty -/
structure Agg.WF (a : Agg) : Prop where
  keysNodup : a.keys.Nodup
  cellKey : ∀ t f k s, a.cells t f k s ≠ none → t ∈ a.keys ∧ a.touched t f = true ∧ s < a.cap

theorem cells_new_aggregateAll (v : Variant) (hv : v.crossFeed = true) (specs : List Spec) (cap : Nat)
    (tss : List TS) (t f : Nat) (k : Kind) (s : Nat) :
    ((Agg.new specs cap).aggregateAll v tss).cells t f k s =
      if hasKind specs f k = true then foldVals k (valsAt cap (tss.flatMap TS.atoms) t f s) else none := by
  rw [aggregateAll_cells, foldl_addAtom_apply v hv]
  rfl

theorem wf_new_aggregateAll (v : Variant) (hv : v.crossFeed = true) (specs : List Spec) (cap : Nat)
    (tss : List TS) : ((Agg.new specs cap).aggregateAll v tss).WF := by
  constructor
  · exact nodup_keys_aggregateAll v _ tss (by simp [Agg.new])
  · intro t f k s hne
    rw [cells_new_aggregateAll v hv] at hne
    by_cases hk : hasKind specs f k = true
    · rw [if_pos hk] at hne
      obtain ⟨a, ha, h1, h2, h3, h4⟩ := valsAt_ne_nil cap _ t f s (foldVals_ne_none k _ hne)
      obtain ⟨ts, hts, hats⟩ := List.mem_flatMap.mp ha
      obtain ⟨fd, hfd, p, hp, sv, hsv, rfl⟩ := (mem_atoms ts a).mp hats
      simp only at h1 h2 h3 h4
      refine ⟨?_, ?_, ?_⟩
      · rw [mem_keys_aggregateAll]
        refine Or.inr ⟨ts, hts, h1, ?_⟩
        cases hf : ts.fields with
        | nil => rw [hf] at hfd; cases hfd
        | cons _ _ => rfl
      · rw [touched_aggregateAll]
        have hsome : (kindsOf (Agg.new specs cap).specs f).isSome = true := by
          unfold hasKind at hk
          show (kindsOf specs f).isSome = true
          cases hq : kindsOf specs f with
          | none => rw [hq] at hk; cases hk
          | some _ => rfl
        rw [hsome]
        simp only [Bool.true_and, Bool.or_eq_true, List.any_eq_true]
        refine Or.inr ⟨ts, hts, ?_⟩
        simp only [Bool.and_eq_true, beq_iff_eq, List.any_eq_true]
        refine ⟨h1, fd, hfd, h2, ?_⟩
        cases hpp : fd.prims with
        | nil => rw [hpp] at hp; cases hp
        | cons _ _ => rfl
      · rw [aggregateAll_cap]; show s < cap
        rw [← h3]; exact h4
    · rw [if_neg hk] at hne; exact absurd rfl hne

theorem filterMap_unique {α β : Type} [DecidableEq α] (l : List α) (hn : l.Nodup) (g : α → Option β)
    (x0 : α) (h : ∀ x ∈ l, x ≠ x0 → g x = none) :
    l.filterMap g = if x0 ∈ l then (g x0).toList else [] := by
  induction l with
  | nil => rfl
  | cons x xs ih =>
    have hx : x ∉ xs := (List.nodup_cons.mp hn).1
    have hxs := ih (List.nodup_cons.mp hn).2 (fun y hy => h y (List.mem_cons_of_mem _ hy))
    by_cases e : x = x0
    · subst e
      rw [List.filterMap_cons]
      cases hg : g x with
      | none => simp [hxs, hx, hg]
      | some b => simp [hxs, hx, hg]
    · rw [List.filterMap_cons, h x List.mem_cons_self e, hxs]
      have : (x0 ∈ x :: xs) ↔ x0 ∈ xs := by
        constructor
        · intro hm; rcases List.mem_cons.mp hm with r | r
          · exact absurd r.symm e
          · exact r
        · exact List.mem_cons_of_mem _
      simp [this]

theorem kindsOf_eq_some (specs : List Spec) (f : FName) (ks : List Kind) (h : kindsOf specs f = some ks) :
    ∃ sp ∈ specs, sp.name = f ∧ sp.kinds = ks ∧ specs.find? (fun sp => sp.name == f) = some sp := by
  unfold kindsOf at h
  cases hf : specs.find? (fun sp => sp.name == f) with
  | none => rw [hf] at h; cases h
  | some sp =>
    rw [hf] at h
    refine ⟨sp, List.mem_of_find?_eq_some hf, ?_, by simpa using h, rfl⟩
    have := List.find?_some hf
    simpa using this

theorem name_inj_of_nodup (specs : List Spec) (hn : (specs.map (·.name)).Nodup) (a b : Spec)
    (ha : a ∈ specs) (hb : b ∈ specs) (h : a.name = b.name) : a = b :=
  List.inj_on_of_nodup_map hn ha hb h

/-- the data points one emitted group carries for one array position: the cell, once -/
theorem valsAt_emitTS (a : Agg) (hn : (a.specs.map (·.name)).Nodup) (t f s : Nat) (k : Kind)
    (hk : kindsOf a.specs f = some [k]) :
    valsAt a.cap (a.emitTS t).atoms t f s =
      if a.touched t f = true ∧ s < a.cap then (a.cells t f k s).toList else [] := by
  obtain ⟨sp0, hsp0, hname, hkinds, -⟩ := kindsOf_eq_some _ _ _ hk
  have hnd : a.specs.Nodup := List.Nodup.of_map _ hn
  -- atoms of the emitted group, per spec
  have hat : (a.emitTS t).atoms = a.specs.flatMap (fun sp =>
      (if a.touched t sp.name then
        sp.kinds.flatMap (fun k' => (a.points t sp.name k' a.cap).map
          (fun sv => ({ t := t, f := sp.name, kind := k'.code, s := sv.1, v := sv.2 } : Atom)))
       else [])) := by
    simp only [TS.atoms, Agg.emitTS, List.flatMap_map, FieldData.atoms]
    congr 1
    funext sp
    by_cases ht : a.touched t sp.name = true
    · simp [ht, List.flatMap_map]
    · simp [ht]
  rw [hat, valsAt_flatMap, flatMap_unique a.specs hnd _ sp0]
  · rw [if_pos hsp0, hname, hkinds]
    by_cases ht : a.touched t f = true
    · simp only [ht, if_true, true_and, List.flatMap_cons, List.flatMap_nil, List.append_nil]
      unfold valsAt Agg.points
      rw [List.filterMap_map, List.filterMap_filterMap]
      rw [filterMap_unique (List.range a.cap) List.nodup_range _ s]
      · by_cases hs : s < a.cap
        · simp only [List.mem_range, hs, if_true]
          cases a.cells t f k s <;> simp [hs]
        · simp [List.mem_range, hs]
      · intro x _ hx
        cases a.cells t f k x <;> simp [hx]
    · simp [ht, valsAt]
  · intro sp hsp hne
    have hnf : sp.name ≠ f := by
      intro e; apply hne
      exact name_inj_of_nodup a.specs hn sp sp0 hsp hsp0 (e.trans hname.symm)
    apply valsAt_eq_nil
    intro x hx
    split at hx
    · simp only [List.mem_flatMap, List.mem_map] at hx
      obtain ⟨_, _, _, _, rfl⟩ := hx
      rintro ⟨-, h2, -⟩; exact hnf h2
    · cases hx

/-- reading back what an aggregator emitted: every cell exactly once -/
theorem valsAt_emit (a : Agg) (hwf : a.WF) (hn : (a.specs.map (·.name)).Nodup) (t f s : Nat) (k : Kind)
    (hk : kindsOf a.specs f = some [k]) :
    valsAt a.cap (a.emit.flatMap TS.atoms) t f s = (a.cells t f k s).toList := by
  obtain ⟨sp0, hsp0, -, -, -⟩ := kindsOf_eq_some _ _ _ hk
  have hne : a.specs.isEmpty = false := by
    cases h : a.specs with
    | nil => rw [h] at hsp0; cases hsp0
    | cons _ _ => rfl
  unfold Agg.emit
  rw [hne]
  simp only [Bool.false_eq_true, if_false, List.flatMap_map]
  rw [valsAt_flatMap, flatMap_unique a.keys hwf.keysNodup _ t]
  · rw [valsAt_emitTS a hn t f s k hk]
    cases hc : a.cells t f k s with
    | none => simp
    | some x =>
      obtain ⟨h1, h2, h3⟩ := hwf.cellKey t f k s (by rw [hc]; simp)
      simp [h1, h2, h3]
  · intro t' _ hne'
    apply valsAt_eq_nil
    intro x hx
    obtain ⟨fd, _, p, _, sv, _, rfl⟩ := (mem_atoms _ x).mp hx
    rintro ⟨h1, -⟩
    exact hne' h1

/-! ### groups and touched flags travelling through `emit` -/

theorem mem_emit (a : Agg) (ts : TS) :
    ts ∈ a.emit ↔ a.specs.isEmpty = false ∧ ∃ t ∈ a.keys, ts = a.emitTS t := by
  unfold Agg.emit
  by_cases h : a.specs.isEmpty = true
  · simp [h]
  · simp only [h, Bool.false_eq_true, if_false, List.mem_map]
    constructor
    · rintro ⟨t, ht, rfl⟩; exact ⟨by simpa using h, t, ht, rfl⟩
    · rintro ⟨-, t, ht, rfl⟩; exact ⟨t, ht, rfl⟩

theorem emitTS_fields_isEmpty (a : Agg) (t : Nat) : (a.emitTS t).fields.isEmpty = a.specs.isEmpty := by
  simp [Agg.emitTS]

theorem emitTS_touchedAny (a : Agg) (t f : Nat) :
    (a.emitTS t).fields.any (fun fd => fd.name == f && !fd.prims.isEmpty) =
      a.specs.any (fun sp => sp.name == f && (a.touched t sp.name && !sp.kinds.isEmpty)) := by
  simp only [Agg.emitTS, List.any_map]
  congr 1
  funext sp
  simp only [Function.comp]
  by_cases ht : a.touched t sp.name = true
  · simp [ht]
  · simp [ht]

/-- groups of the receiver after merging what aggregators emitted -/
theorem touched_true_mem_keys (v : Variant) (specs : List Spec) (cap : Nat) (tss : List TS) (t f : Nat)
    (h : ((Agg.new specs cap).aggregateAll v tss).touched t f = true) :
    t ∈ ((Agg.new specs cap).aggregateAll v tss).keys := by
  rw [touched_aggregateAll] at h
  rw [mem_keys_aggregateAll]
  simp only [Agg.new, Bool.false_or, Bool.and_eq_true, List.any_eq_true, beq_iff_eq] at h
  obtain ⟨-, ts, hts, h1, fd, hfd, -⟩ := h
  refine Or.inr ⟨ts, hts, h1, ?_⟩
  cases hf : ts.fields with
  | nil => rw [hf] at hfd; cases hfd
  | cons _ _ => rfl

end LinVerif.RootMerge
