/-
C03 helper lemmas: the value the merged block holds for every (series, field, slot).
Chain: `put`/`feed` (one decoder into the target buffer) → fold over the input blocks →
`emit` → `prepare` (fields, hull of the slot ranges) → `sortFields`/`unionIds` → `mergeBlocks`.
-/
import LinVerif.Model.Merge
import LinVerif.Lemmas.C03Map
import LinVerif.Lemmas.C03Fold

set_option linter.unusedSectionVars false
set_option linter.unusedSimpArgs false
namespace LinVerif.C03
open LinVerif.Map LinVerif.MetricBlock LinVerif.Merge

variable {V : Type}

/-! ### `put`, `feed`, `emit` -/

theorem lookup_put (op : V → V → V) (acc : List (Nat × V)) (p : Nat) (v : V) (q : Nat) :
    lookup (put op acc p v) q = if p = q then comb op (lookup acc p) v else lookup acc q := by
  unfold put
  cases h : lookup acc p with
  | none =>
    by_cases e : p = q
    · subst e; simp [lookup_upsert_self, comb]
    · simp [lookup_upsert_ne _ _ _ _ e, e]
  | some a =>
    by_cases e : p = q
    · subst e; simp [lookup_upsert_self, comb]
    · simp [lookup_upsert_ne _ _ _ _ e, e]

/-- compaction (`ratio = 1`, `baseSlot = 0`): a decoder over `[t, t+n)` inside the target range
adds exactly its value at slot `q + tStart` to position `q`. -/
theorem feed_lookup (op : V → V → V) (tStart len : Nat) (vals : List (Nat × V)) :
    ∀ (n : Nat) (acc : List (Nat × V)) (t : Nat), tStart ≤ t → t + n ≤ tStart + len → ∀ q,
      lookup (feed op compactCfg tStart len vals acc t n) q =
        if t ≤ q + tStart ∧ q + tStart < t + n then combOpt op (lookup acc q) (lookup vals (q + tStart))
        else lookup acc q := by
  intro n
  induction n with
  | zero =>
    intro acc t _ _ q
    have c : ¬ (t ≤ q + tStart ∧ q + tStart < t + 0) := by omega
    rw [if_neg c]; rfl
  | succ n ih =>
    intro acc t h1 h2 q
    unfold feed
    cases hv : lookup vals t with
    | none =>
      simp only []
      rw [ih acc (t + 1) (by omega) (by omega) q]
      by_cases hq : q + tStart = t
      · have c1 : ¬ (t + 1 ≤ q + tStart ∧ q + tStart < t + 1 + n) := by omega
        have c2 : t ≤ q + tStart ∧ q + tStart < t + (n + 1) := by omega
        rw [if_neg c1, if_pos c2, hq, hv]; rfl
      · by_cases c : t + 1 ≤ q + tStart ∧ q + tStart < t + 1 + n
        · have c2 : t ≤ q + tStart ∧ q + tStart < t + (n + 1) := by omega
          rw [if_pos c, if_pos c2]
        · have c2 : ¬ (t ≤ q + tStart ∧ q + tStart < t + (n + 1)) := by omega
          rw [if_neg c, if_neg c2]
    | some v =>
      have hp : ((compactCfg.baseSlot : Int) + ((t / compactCfg.ratio : Nat) : Int) - (tStart : Int))
          = ((t - tStart : Nat) : Int) := by
        simp only [compactCfg, Nat.div_one]; omega
      simp only [hp]
      have n1 : ¬ (((t - tStart : Nat) : Int) < 0) := by omega
      have n2 : ¬ (((t - tStart : Nat) : Int) ≥ (len : Int)) := by omega
      simp only [n1, n2, if_false, Int.toNat_natCast]
      rw [ih _ (t + 1) (by omega) (by omega) q, lookup_put]
      by_cases hq : q + tStart = t
      · have c1 : ¬ (t + 1 ≤ q + tStart ∧ q + tStart < t + 1 + n) := by omega
        have c2 : t ≤ q + tStart ∧ q + tStart < t + (n + 1) := by omega
        have e : t - tStart = q := by omega
        rw [if_neg c1, if_pos c2, if_pos e, e, hq, hv]; rfl
      · have e : ¬ (t - tStart = q) := by omega
        by_cases c : t + 1 ≤ q + tStart ∧ q + tStart < t + 1 + n
        · have c2 : t ≤ q + tStart ∧ q + tStart < t + (n + 1) := by omega
          rw [if_pos c, if_pos c2, if_neg e]
        · have c2 : ¬ (t ≤ q + tStart ∧ q + tStart < t + (n + 1)) := by omega
          rw [if_neg c, if_neg c2, if_neg e]

theorem lookup_filterMap_shift (g : Nat → Option V) (c : Nat) (l : List Nat) (t : Nat) :
    lookup (l.filterMap (fun p => (g p).map (fun v => (p + c, v)))) t =
      if c ≤ t ∧ t - c ∈ l then g (t - c) else none := by
  induction l with
  | nil => simp
  | cons p r ih =>
    simp only [List.filterMap_cons]
    cases hg : g p with
    | none =>
      simp only [Option.map_none, ih, List.mem_cons]
      by_cases e : t - c = p
      · by_cases hc : c ≤ t
        · subst e; simp [hc, hg]
        · simp [hc]
      · simp [e]
    | some v =>
      simp only [Option.map_some, lookup_cons, ih, List.mem_cons]
      by_cases e : p + c = t
      · have e2 : t - c = p := by omega
        have hc : c ≤ t := by omega
        simp [e, e2, hc, hg]
      · by_cases hc : c ≤ t
        · have e2 : ¬ (t - c = p) := by omega
          simp [e, e2, hc]
        · simp [e, hc]

theorem lookup_emit (acc : List (Nat × V)) (tStart len : Nat) (t : Nat) :
    lookup (emit acc tStart len) t =
      if tStart ≤ t ∧ t < tStart + len then lookup acc (t - tStart) else none := by
  unfold emit
  rw [lookup_filterMap_shift (fun p => lookup acc p) tStart (List.range len) t]
  by_cases c : tStart ≤ t ∧ t < tStart + len
  · have c' : tStart ≤ t ∧ t - tStart ∈ List.range len := ⟨c.1, by rw [List.mem_range]; omega⟩
    rw [if_pos c, if_pos c']
  · have c' : ¬ (tStart ≤ t ∧ t - tStart ∈ List.range len) := by
      rw [List.mem_range]; omega
    rw [if_neg c, if_neg c']

/-! ### the fold over the input blocks -/

/-- one input block of `mergeField` -/
def feedBlock (op : V → V → V) (tStart len : Nat) (s : Nat) (f : Nat)
    (acc : List (Nat × V)) (b : Block V) : List (Nat × V) :=
  match b.fieldData s f with
  | none => acc
  | some vals => feed op compactCfg tStart len vals acc b.start (b.stop + 1 - b.start)

theorem feedBlock_lookup (op : V → V → V) (tStart len : Nat) (s : Nat) (f : Nat)
    (acc : List (Nat × V)) (b : Block V)
    (hb : b.fields ≠ [] → b.start ≤ b.stop → tStart ≤ b.start ∧ b.stop + 1 ≤ tStart + len) (q : Nat) :
    lookup (feedBlock op tStart len s f acc b) q =
      combOpt op (lookup acc q) (b.get s f (q + tStart)) := by
  unfold feedBlock Block.get
  cases hd : b.fieldData s f with
  | none => simp [combOpt]
  | some vals =>
    simp only []
    have hf : b.fields ≠ [] := by
      intro e
      unfold Block.fieldData at hd
      cases hs : lookup b.series s with
      | none => simp [hs] at hd
      | some en => simp [hs, e] at hd
    by_cases hr : b.start ≤ b.stop
    · obtain ⟨h1, h2⟩ := hb hf hr
      rw [feed_lookup op tStart len vals _ acc b.start h1 (by omega) q]
      by_cases c : b.start ≤ q + tStart ∧ q + tStart ≤ b.stop
      · have c' : b.start ≤ q + tStart ∧ q + tStart < b.start + (b.stop + 1 - b.start) := by omega
        simp [c, c']
      · have c' : ¬ (b.start ≤ q + tStart ∧ q + tStart < b.start + (b.stop + 1 - b.start)) := by omega
        simp [c, c', combOpt]
    · have e : b.stop + 1 - b.start = 0 := by omega
      have c : ¬ (b.start ≤ q + tStart ∧ q + tStart ≤ b.stop) := by omega
      simp [e, feed, c, combOpt]

theorem foldBlocks_lookup (op : V → V → V) (tStart len : Nat) (s : Nat) (f : Nat) :
    ∀ (bs : List (Block V)) (acc : List (Nat × V)),
      (∀ b ∈ bs, b.fields ≠ [] → b.start ≤ b.stop → tStart ≤ b.start ∧ b.stop + 1 ≤ tStart + len) →
      ∀ q, lookup (bs.foldl (feedBlock op tStart len s f) acc) q =
        combList op (lookup acc q) (bs.filterMap (fun b => b.get s f (q + tStart))) := by
  intro bs
  induction bs with
  | nil => intro acc _ q; simp
  | cons b r ih =>
    intro acc hb q
    simp only [List.foldl_cons]
    rw [ih _ (fun b' hb' => hb b' (List.mem_cons_of_mem _ hb')) q,
      feedBlock_lookup op tStart len s f acc b (hb b List.mem_cons_self) q]
    cases hg : b.get s f (q + tStart) with
    | none => simp [List.filterMap_cons, hg, combOpt]
    | some v => simp [List.filterMap_cons, hg, combOpt]

/-! ### `prepare` -/

theorem lookup_addFields (fs : List (Nat × FieldType)) :
    ∀ (acc : List (Nat × FieldType)) (f : Nat),
      lookup (addFields acc fs) f = match lookup acc f with | some x => some x | none => lookup fs f := by
  induction fs with
  | nil => intro acc f; cases h : lookup acc f <;> simp [addFields, h]
  | cons fm r ih =>
    intro acc f
    obtain ⟨k, ty⟩ := fm
    have hstep : addFields acc ((k, ty) :: r) =
        addFields (match lookup acc k with | some _ => acc | none => acc ++ [(k, ty)]) r := rfl
    rw [hstep, ih]
    cases ha : lookup acc k with
    | some x =>
      simp only []
      cases hf : lookup acc f with
      | some y => rfl
      | none =>
        have : ¬ k = f := by intro e; rw [e] at ha; rw [ha] at hf; cases hf
        simp [lookup_cons, this]
    | none =>
      simp only [lookup_append]
      cases hf : lookup acc f with
      | some y => rfl
      | none =>
        by_cases e : k = f
        · simp [lookup_cons, e]
        · simp [lookup_cons, e]

theorem keys_addFields_nodup (fs : List (Nat × FieldType)) :
    ∀ (acc : List (Nat × FieldType)), (keys acc).Nodup → (keys (addFields acc fs)).Nodup := by
  induction fs with
  | nil => intro acc h; simpa [addFields] using h
  | cons fm r ih =>
    intro acc h
    obtain ⟨k, ty⟩ := fm
    have hstep : addFields acc ((k, ty) :: r) =
        addFields (match lookup acc k with | some _ => acc | none => acc ++ [(k, ty)]) r := rfl
    rw [hstep]
    apply ih
    cases ha : lookup acc k with
    | some x => simpa using h
    | none =>
      have hk : k ∉ keys acc := (lookup_eq_none_iff acc k).mp ha
      simp only [keys_append, keys_cons]
      rw [List.nodup_append]
      refine ⟨h, by simp [keys], ?_⟩
      intro a ha' b hb'
      simp [keys] at hb'
      subst hb'
      intro e; subst e; exact hk ha'

theorem addFields_eq_nil (fs acc : List (Nat × FieldType)) :
    addFields acc fs = [] ↔ acc = [] ∧ fs = [] := by
  constructor
  · intro h
    have hl : ∀ f, lookup (addFields acc fs) f = none := by intro f; rw [h]; rfl
    constructor
    · cases acc with
      | nil => rfl
      | cons p t =>
        have := hl p.1
        rw [lookup_addFields] at this
        obtain ⟨k, v⟩ := p
        simp [lookup_cons] at this
    · cases fs with
      | nil => rfl
      | cons p t =>
        have := hl p.1
        rw [lookup_addFields] at this
        obtain ⟨k, v⟩ := p
        cases ha : lookup acc k with
        | some x => simp [ha] at this
        | none => simp [ha, lookup_cons] at this
  · rintro ⟨rfl, rfl⟩; rfl

/-- fields part of `prepare` -/
theorem prepare_fields_foldl (bs : List (Block V)) (p : Prep) :
    (bs.foldl prepareStep p).fields = bs.foldl (fun acc b => addFields acc b.fields) p.fields := by
  induction bs generalizing p with
  | nil => rfl
  | cons b r ih => simp only [List.foldl_cons]; rw [ih]; rfl

theorem lookup_foldl_addFields (bs : List (Block V)) :
    ∀ (acc : List (Nat × FieldType)) (f : Nat),
      lookup (bs.foldl (fun acc b => addFields acc b.fields) acc) f =
        match lookup acc f with
        | some x => some x
        | none => bs.findSome? (fun b => lookup b.fields f) := by
  induction bs with
  | nil => intro acc f; cases h : lookup acc f <;> simp [h]
  | cons b r ih =>
    intro acc f
    simp only [List.foldl_cons]
    rw [ih, lookup_addFields]
    cases lookup acc f with
    | some x => rfl
    | none =>
      simp only [List.findSome?_cons]
      cases lookup b.fields f <;> rfl

theorem keys_foldl_addFields_nodup (bs : List (Block V)) :
    ∀ (acc : List (Nat × FieldType)), (keys acc).Nodup →
      (keys (bs.foldl (fun acc b => addFields acc b.fields) acc)).Nodup := by
  induction bs with
  | nil => intro acc h; simpa using h
  | cons b r ih => intro acc h; simp only [List.foldl_cons]; exact ih _ (keys_addFields_nodup _ _ h)

theorem lookup_prepare_fields (bs : List (Block V)) (f : Nat) :
    lookup (prepare bs).fields f = bs.findSome? (fun b => lookup b.fields f) := by
  unfold prepare
  rw [prepare_fields_foldl, lookup_foldl_addFields]
  simp

theorem prepare_fields_nodup (bs : List (Block V)) : (keys (prepare bs).fields).Nodup := by
  unfold prepare
  rw [prepare_fields_foldl]
  exact keys_foldl_addFields_nodup bs [] (by simp [keys])

theorem ite_min_le (a b c : Nat) (h : a ≤ c) : (if a > b then b else a) ≤ c := by
  split <;> omega
theorem le_ite_max (a b c : Nat) (h : c ≤ a) : c ≤ (if a < b then b else a) := by
  split <;> omega
theorem ite_min_le_right (a b : Nat) : (if a > b then b else a) ≤ b := by
  split <;> omega
theorem le_ite_max_right (a b : Nat) : b ≤ (if a < b then b else a) := by
  split <;> omega

/-- the slot range computed by `prepare` contains the range of every block that has fields -/
theorem prepare_hull_aux (bs : List (Block V)) :
    ∀ (p : Prep) (done : List (Block V)),
      (p.fields = [] → ∀ b ∈ done, b.fields = []) →
      (∀ b ∈ done, b.fields ≠ [] → p.srcStart ≤ b.start ∧ b.stop ≤ p.srcEnd) →
      ∀ b ∈ done ++ bs, b.fields ≠ [] →
        (bs.foldl prepareStep p).srcStart ≤ b.start ∧ b.stop ≤ (bs.foldl prepareStep p).srcEnd := by
  induction bs with
  | nil => intro p done _ h2 b hb hf; simp at hb; exact h2 b hb hf
  | cons x r ih =>
    intro p done h1 h2 b hb hf
    simp only [List.foldl_cons]
    have hb' : b ∈ (done ++ [x]) ++ r := by simpa using hb
    refine ih (prepareStep p x) (done ++ [x]) ?_ ?_ b hb' hf
    · intro he b' hb'
      simp only [prepareStep] at he
      rw [addFields_eq_nil] at he
      rcases List.mem_append.mp hb' with h | h
      · exact h1 he.1 b' h
      · simp at h; subst h; exact he.2
    · intro b' hb' hf'
      rcases List.mem_append.mp hb' with h | h
      · by_cases pe : p.fields = []
        · exact absurd (h1 pe b' h) hf'
        · have hne : p.fields.isEmpty = false := by
            cases hp : p.fields with
            | nil => exact absurd hp pe
            | cons _ _ => rfl
          obtain ⟨a1, a2⟩ := h2 b' h hf'
          simp only [prepareStep, hne]
          exact ⟨ite_min_le _ _ _ a1, le_ite_max _ _ _ a2⟩
      · simp at h; subst h
        by_cases pe : p.fields = []
        · simp [prepareStep, pe]
        · have hne : p.fields.isEmpty = false := by
            cases hp : p.fields with
            | nil => exact absurd hp pe
            | cons _ _ => rfl
          simp only [prepareStep, hne]
          exact ⟨ite_min_le_right _ _, le_ite_max_right _ _⟩

theorem prepare_hull (bs : List (Block V)) (b : Block V) (hb : b ∈ bs) (hf : b.fields ≠ []) :
    (prepare bs).srcStart ≤ b.start ∧ b.stop ≤ (prepare bs).srcEnd := by
  unfold prepare
  exact prepare_hull_aux bs _ [] (by intro _ b hb; simp at hb) (by intro b hb; simp at hb) b (by simpa using hb) hf

/-! ### `sortFields`, `unionIds` -/

theorem mem_keys_insertField (x : Nat × FieldType) (l : List (Nat × FieldType)) (k : Nat) :
    k ∈ keys (insertField x l) ↔ k = x.1 ∨ k ∈ keys l := by
  induction l with
  | nil => simp [insertField, keys]
  | cons y t ih =>
    unfold insertField
    split
    · simp [keys]
    · simp only [keys_cons, List.mem_cons, ih]
      constructor
      · rintro (h | h | h)
        · right; left; exact h
        · left; exact h
        · right; right; exact h
      · rintro (h | h | h)
        · right; left; exact h
        · left; exact h
        · right; right; exact h

theorem lookup_insertField (x : Nat × FieldType) (l : List (Nat × FieldType))
    (hx : x.1 ∉ keys l) (f : Nat) :
    lookup (insertField x l) f = if x.1 = f then some x.2 else lookup l f := by
  induction l with
  | nil => obtain ⟨k, v⟩ := x; simp [insertField, lookup_cons]
  | cons y t ih =>
    obtain ⟨k, v⟩ := x
    obtain ⟨k', v'⟩ := y
    simp only [keys_cons, List.mem_cons, not_or] at hx
    unfold insertField
    split
    · simp [lookup_cons]
    · simp only [lookup_cons, ih hx.2]
      by_cases e1 : k' = f
      · have e2 : ¬ k = f := by intro e; exact hx.1 (e.trans e1.symm)
        simp [e1, e2]
      · simp [e1]

theorem mem_keys_sortFields (l : List (Nat × FieldType)) (k : Nat) :
    k ∈ keys (sortFields l) ↔ k ∈ keys l := by
  induction l with
  | nil => simp [sortFields]
  | cons x t ih =>
    have : sortFields (x :: t) = insertField x (sortFields t) := rfl
    rw [this, mem_keys_insertField, ih]; simp [keys]

theorem lookup_sortFields (l : List (Nat × FieldType)) (hn : (keys l).Nodup) (f : Nat) :
    lookup (sortFields l) f = lookup l f := by
  induction l with
  | nil => rfl
  | cons x t ih =>
    have hs : sortFields (x :: t) = insertField x (sortFields t) := rfl
    simp only [keys_cons, List.nodup_cons] at hn
    rw [hs, lookup_insertField x _ (by rw [mem_keys_sortFields]; exact hn.1), ih hn.2]
    obtain ⟨k, v⟩ := x
    simp [lookup_cons]

theorem sortFields_sorted (l : List (Nat × FieldType)) :
    (keys (sortFields l)).Pairwise (· ≤ ·) := by
  induction l with
  | nil => simp [sortFields, keys]
  | cons x t ih =>
    have hs : sortFields (x :: t) = insertField x (sortFields t) := rfl
    rw [hs]
    generalize sortFields t = s at ih
    induction s with
    | nil => simp [insertField, keys]
    | cons y r ihr =>
      unfold insertField
      simp only [keys_cons, List.pairwise_cons] at ih
      split
      · rename_i hlt
        simp only [keys_cons, List.pairwise_cons, List.mem_cons]
        refine ⟨?_, ih.1, ih.2⟩
        intro a ha
        rcases ha with ha | ha
        · omega
        · have := ih.1 a ha; omega
      · rename_i hlt
        simp only [keys_cons, List.pairwise_cons]
        refine ⟨?_, ihr ih.2⟩
        intro a ha
        rw [mem_keys_insertField] at ha
        rcases ha with ha | ha
        · omega
        · exact ih.1 a ha

theorem mem_insertId (x : Nat) (l : List Nat) (y : Nat) :
    y ∈ insertId x l ↔ y = x ∨ y ∈ l := by
  induction l with
  | nil => simp [insertId]
  | cons z t ih =>
    unfold insertId
    split
    · simp
    · split
      · rename_i h1 h2; subst h2; simp
      · simp only [List.mem_cons, ih]
        constructor
        · rintro (h | h | h)
          · right; left; exact h
          · left; exact h
          · right; right; exact h
        · rintro (h | h | h)
          · right; left; exact h
          · left; exact h
          · right; right; exact h

theorem insertId_sorted (x : Nat) (l : List Nat) (h : l.Pairwise (· < ·)) :
    (insertId x l).Pairwise (· < ·) := by
  induction l with
  | nil => simp [insertId]
  | cons z t ih =>
    simp only [List.pairwise_cons] at h
    unfold insertId
    split
    · rename_i hlt
      simp only [List.pairwise_cons, List.mem_cons]
      refine ⟨?_, h.1, h.2⟩
      intro a ha
      rcases ha with ha | ha
      · omega
      · have := h.1 a ha; omega
    · split
      · simp only [List.pairwise_cons]; exact h
      · rename_i h1 h2
        simp only [List.pairwise_cons]
        refine ⟨?_, ih h.2⟩
        intro a ha
        rw [mem_insertId] at ha
        rcases ha with ha | ha
        · omega
        · exact h.1 a ha

theorem mem_foldl_insertId (ids : List Nat) :
    ∀ (acc : List Nat) (y : Nat),
      y ∈ ids.foldl (fun acc s => insertId s acc) acc ↔ y ∈ acc ∨ y ∈ ids := by
  induction ids with
  | nil => intro acc y; simp
  | cons s r ih =>
    intro acc y
    simp only [List.foldl_cons, ih, mem_insertId, List.mem_cons]
    constructor
    · rintro ((h | h) | h)
      · right; left; exact h
      · left; exact h
      · right; right; exact h
    · rintro (h | h | h)
      · left; right; exact h
      · left; left; exact h
      · right; exact h

theorem foldl_insertId_sorted (ids : List Nat) :
    ∀ (acc : List Nat), acc.Pairwise (· < ·) →
      (ids.foldl (fun acc s => insertId s acc) acc).Pairwise (· < ·) := by
  induction ids with
  | nil => intro acc h; simpa using h
  | cons s r ih => intro acc h; simp only [List.foldl_cons]; exact ih _ (insertId_sorted s acc h)

theorem mem_unionIds_aux (bs : List (Block V)) :
    ∀ (acc : List Nat) (y : Nat),
      y ∈ bs.foldl (fun acc b => b.seriesIds.foldl (fun acc s => insertId s acc) acc) acc ↔
        y ∈ acc ∨ ∃ b ∈ bs, y ∈ b.seriesIds := by
  induction bs with
  | nil => intro acc y; simp
  | cons b r ih =>
    intro acc y
    simp only [List.foldl_cons, ih, mem_foldl_insertId, List.mem_cons]
    constructor
    · rintro ((h | h) | ⟨b', hb', h⟩)
      · left; exact h
      · right; exact ⟨b, Or.inl rfl, h⟩
      · right; exact ⟨b', Or.inr hb', h⟩
    · rintro (h | ⟨b', hb' | hb', h⟩)
      · left; left; exact h
      · subst hb'; left; right; exact h
      · right; exact ⟨b', hb', h⟩

theorem mem_unionIds (bs : List (Block V)) (y : Nat) :
    y ∈ unionIds bs ↔ ∃ b ∈ bs, y ∈ b.seriesIds := by
  unfold unionIds
  rw [mem_unionIds_aux]; simp

theorem unionIds_sorted (bs : List (Block V)) : (unionIds bs).Pairwise (· < ·) := by
  unfold unionIds
  have : ∀ (bs : List (Block V)) (acc : List Nat), acc.Pairwise (· < ·) →
      (bs.foldl (fun acc b => b.seriesIds.foldl (fun acc s => insertId s acc) acc) acc).Pairwise (· < ·) := by
    intro bs
    induction bs with
    | nil => intro acc h; simpa using h
    | cons b r ih => intro acc h; simp only [List.foldl_cons]; exact ih _ (foldl_insertId_sorted _ _ h)
  exact this bs [] (by simp)

/-! ### `mergeBlocks` -/

theorem mergeBlocks_fields (agg : FieldType → V → V → V) (bs : List (Block V)) :
    (mergeBlocksI agg bs).fields = sortFields (prepare bs).fields := rfl

theorem mergeBlocks_start (agg : FieldType → V → V → V) (bs : List (Block V)) :
    (mergeBlocksI agg bs).start = (prepare bs).srcStart := rfl

theorem mergeBlocks_stop (agg : FieldType → V → V → V) (bs : List (Block V)) :
    (mergeBlocksI agg bs).stop = (prepare bs).srcEnd := rfl

theorem mergeBlocks_seriesIds (agg : FieldType → V → V → V) (bs : List (Block V)) :
    (mergeBlocksI agg bs).seriesIds = unionIds bs := by
  simp [mergeBlocksI, mergeBlocksIdeal, mergeBlocksBy, Block.seriesIds, keys, List.map_map, Function.comp_def]

/-- the merged block's type of a field id is the type in the first input block that has the id -/
theorem mergeBlocks_fieldType (agg : FieldType → V → V → V) (bs : List (Block V)) (f : Nat) :
    (mergeBlocksI agg bs).fieldType? f = bs.findSome? (fun b => b.fieldType? f) := by
  unfold Block.fieldType?
  rw [mergeBlocks_fields, lookup_sortFields _ (prepare_fields_nodup bs), lookup_prepare_fields]

theorem mergeField_eq (agg : FieldType → V → V → V) (tS tE : Nat) (ty : FieldType) (s f : Nat)
    (bs : List (Block V)) :
    mergeField agg compactCfg tS tE ty s f bs =
      emit (bs.foldl (feedBlock (agg ty) tS (tE + 1 - tS) s f) []) tS (tE + 1 - tS) := rfl

theorem get_eq_none_of_fieldType_none (b : Block V) (s f t : Nat) (h : b.fieldType? f = none) :
    b.get s f t = none := by
  unfold Block.fieldType? at h
  unfold Block.get Block.fieldData
  cases lookup b.series s <;> simp [h]

theorem get_eq_none_of_not_mem (b : Block V) (s f t : Nat) (h : s ∉ b.seriesIds) :
    b.get s f t = none := by
  unfold Block.get Block.fieldData
  rw [(lookup_eq_none_iff b.series s).mpr h]

theorem fields_ne_nil_of_get {b : Block V} {s f t : Nat} {v : V} (h : b.get s f t = some v) :
    b.fields ≠ [] := by
  intro e
  have : b.fieldType? f = none := by unfold Block.fieldType?; rw [e]; rfl
  rw [get_eq_none_of_fieldType_none b s f t this] at h
  cases h

theorem get_range {b : Block V} {s f t : Nat} {v : V} (h : b.get s f t = some v) :
    b.start ≤ t ∧ t ≤ b.stop := by
  unfold Block.get at h
  cases hd : b.fieldData s f with
  | none => simp [hd] at h
  | some vals =>
    simp only [hd] at h
    by_cases c : b.start ≤ t ∧ t ≤ b.stop
    · exact c
    · rw [if_neg c] at h; cases h

/-- **the value of every cell of the merged block**: the left fold, in input order, of the field's
aggregate over the values the input blocks hold for that cell (`combList … none` = `foldAgg`). -/
theorem mergeBlocks_get (agg : FieldType → V → V → V) (bs : List (Block V)) (s f t : Nat) :
    (mergeBlocksI agg bs).get s f t =
      match (mergeBlocksI agg bs).fieldType? f with
      | none => none
      | some ty => foldAgg (agg ty) (bs.filterMap (fun b => b.get s f t)) := by
  have hft := mergeBlocks_fieldType agg bs f
  cases hty : (mergeBlocksI agg bs).fieldType? f with
  | none => exact get_eq_none_of_fieldType_none _ s f t hty
  | some ty =>
    simp only []
    by_cases hs : s ∈ unionIds bs
    · -- the series is in the merged block: its entry lists every target field
      have hser : lookup (mergeBlocksI agg bs).series s =
          some ((sortFields (prepare bs).fields).map (fun fm =>
            (fm.1, mergeField agg compactCfg (prepare bs).srcStart (prepare bs).srcEnd fm.2 s fm.1 bs))) := by
        have := lookup_map_keys (unionIds bs) (fun s => (sortFields (prepare bs).fields).map (fun fm =>
            (fm.1, mergeField agg compactCfg (prepare bs).srcStart (prepare bs).srcEnd fm.2 s fm.1 bs))) s
        rw [if_pos hs] at this
        exact this
      have hfld : lookup (mergeBlocksI agg bs).fields f = some ty := hty
      have hfd : (mergeBlocksI agg bs).fieldData s f =
          some (mergeField agg compactCfg (prepare bs).srcStart (prepare bs).srcEnd ty s f bs) := by
        unfold Block.fieldData
        rw [hser, hfld]
        simp only []
        rw [lookup_map_vals (sortFields (prepare bs).fields)
          (fun k ty => mergeField agg compactCfg (prepare bs).srcStart (prepare bs).srcEnd ty s k bs) f]
        rw [mergeBlocks_fields] at hfld
        rw [hfld]; rfl
      have hget : (mergeBlocksI agg bs).get s f t =
          if (prepare bs).srcStart ≤ t ∧ t ≤ (prepare bs).srcEnd then
            lookup (mergeField agg compactCfg (prepare bs).srcStart (prepare bs).srcEnd ty s f bs) t
          else none := by
        unfold Block.get
        rw [hfd]
        rfl
      rw [hget]
      by_cases c : (prepare bs).srcStart ≤ t ∧ t ≤ (prepare bs).srcEnd
      · rw [if_pos c, mergeField_eq, lookup_emit]
        have c' : (prepare bs).srcStart ≤ t ∧ t < (prepare bs).srcStart + ((prepare bs).srcEnd + 1 - (prepare bs).srcStart) := by
          omega
        rw [if_pos c', foldBlocks_lookup (agg ty) _ _ s f bs [] ?_ (t - (prepare bs).srcStart)]
        · have e : t - (prepare bs).srcStart + (prepare bs).srcStart = t := by omega
          rw [e, foldAgg_eq_combList]; rfl
        · intro b hb hf hr
          have := prepare_hull bs b hb hf
          omega
      · rw [if_neg c]
        -- outside the hull no input block has the cell
        have : bs.filterMap (fun b => b.get s f t) = [] := by
          rw [List.filterMap_eq_nil_iff]
          intro b hb
          cases hg : b.get s f t with
          | none => rfl
          | some v =>
            exfalso
            have h1 := prepare_hull bs b hb (fields_ne_nil_of_get hg)
            have h2 := get_range hg
            omega
        rw [this]; rfl
    · -- the series is in no input block
      rw [get_eq_none_of_not_mem _ s f t (by rw [mergeBlocks_seriesIds]; exact hs)]
      have : bs.filterMap (fun b => b.get s f t) = [] := by
        rw [List.filterMap_eq_nil_iff]
        intro b hb
        apply get_eq_none_of_not_mem
        intro hm
        exact hs ((mem_unionIds bs s).mpr ⟨b, hb, hm⟩)
      rw [this]; rfl

/-- a field id unknown to the merged block is unknown to every input block -/
theorem contrib_nil_of_fieldType_none (agg : FieldType → V → V → V) (bs : List (Block V)) (s f t : Nat)
    (h : (mergeBlocksI agg bs).fieldType? f = none) :
    bs.filterMap (fun b => b.get s f t) = [] := by
  rw [mergeBlocks_fieldType, List.findSome?_eq_none_iff] at h
  rw [List.filterMap_eq_nil_iff]
  intro b hb
  exact get_eq_none_of_fieldType_none b s f t (h b hb)

end LinVerif.C03
