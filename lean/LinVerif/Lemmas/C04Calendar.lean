/-
C04 — the calendar hypothesis `Cal.OkAt` discharged for the proleptic Gregorian calendar
(`stdCal`, built from Model/Calendar.lean) from C13's proved calendar theorems
(`civil_spec`, `civil_of_days`, `month_step`, `days_linear`).
-/
import LinVerif.Lemmas.C13Calendar
import LinVerif.Model.Rollup

namespace LinVerif.Lemmas.C04
open LinVerif.Rollup LinVerif.Calendar LinVerif.Lemmas.C13

theorem normMonth_id (y m : Int) (h1 : 1 ≤ m) (h2 : m ≤ 12) : normMonth y m = (y, m) := by
  simp only [normMonth]
  refine Prod.ext ?_ ?_ <;> simp only <;> omega

/-- the first day of a month is recovered as day 1 of that month -/
theorem civil_month_start (y m : Int) (h1 : 1 ≤ m) (h2 : m ≤ 12) :
    civilFromDays (daysFromCivil y m 1) = (y, m, 1) := by
  apply civil_of_days y m 1 h1 h2 (by omega)
  have := month_step y m h1 h2
  omega

/-- every day satisfies the calendar facts the C04 placement theorems use -/
theorem stdCal_okAt (d : Int) : stdCal.OkAt d := by
  obtain ⟨c1, c2, c3, c4, c5⟩ := civil_spec d
  generalize hc : civilFromDays d = c at *
  obtain ⟨y, m, dd⟩ := c
  simp only at c1 c2 c3 c4 c5
  have hl := days_linear y m dd
  have hs := month_step y m c1 c2
  have hms := civil_month_start y m c1 c2
  have hys := civil_month_start y 1 (by omega) (by omega)
  refine ⟨?_, ?_, ?_, ?_, ?_⟩
  · show daysFromCivil (civilFromDays d).1 (civilFromDays d).2.1 1 ≤ d
    rw [hc]; simp only; omega
  · show d < daysFromCivil (civilFromDays d).1 (civilFromDays d).2.1 1 + 32
    rw [hc]; simp only; omega
  · show daysFromCivil (civilFromDays (daysFromCivil (civilFromDays d).1 (civilFromDays d).2.1 1)).1
        (civilFromDays (daysFromCivil (civilFromDays d).1 (civilFromDays d).2.1 1)).2.1 1 =
      daysFromCivil (civilFromDays d).1 (civilFromDays d).2.1 1
    rw [hc]; simp only; rw [hms]
  · show dateDays (civilFromDays (daysFromCivil (civilFromDays d).1 1 1)).1 (civilFromDays d).2.1 1 =
      daysFromCivil (civilFromDays d).1 (civilFromDays d).2.1 1
    rw [hc]; simp only; rw [hys]
    simp only [dateDays, normMonth_id y m c1 c2]
  · show d < daysFromCivil
        (nextMonth (civilFromDays (daysFromCivil (civilFromDays d).1 (civilFromDays d).2.1 1)).1
          (civilFromDays (daysFromCivil (civilFromDays d).1 (civilFromDays d).2.1 1)).2.1).1
        (nextMonth (civilFromDays (daysFromCivil (civilFromDays d).1 (civilFromDays d).2.1 1)).1
          (civilFromDays (daysFromCivil (civilFromDays d).1 (civilFromDays d).2.1 1)).2.1).2 1
    rw [hc]; simp only; rw [hms]
    exact c5

/-- a day inside the month that starts at `daysFromCivil y m 1` has that month start -/
theorem stdCal_monthStart_of (y m f : Int) (h1 : 1 ≤ m) (h2 : m ≤ 12) (hf : 1 ≤ f)
    (hin : daysFromCivil y m f < daysFromCivil (nextMonth y m).1 (nextMonth y m).2 1) :
    stdCal.monthStart (daysFromCivil y m 1 + (f - 1)) = daysFromCivil y m 1 := by
  have hl := days_linear y m f
  rw [← hl]
  show daysFromCivil (civilFromDays (daysFromCivil y m f)).1 (civilFromDays (daysFromCivil y m f)).2.1 1 = _
  rw [civil_of_days y m f h1 h2 hf hin]

end LinVerif.Lemmas.C04
