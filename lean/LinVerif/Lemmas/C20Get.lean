/-
C20 helper lemmas: `trie.Get` on a well-formed tree is the sorted-map lookup in its iteration.
-/
import LinVerif.Lemmas.C20WF

set_option linter.unusedSimpArgs false
set_option linter.unusedVariables false

namespace LinVerif.Lemmas.C20
open LinVerif.TrieTree

theorem lookup_none_of_ne {k : Key} {l : List KV} (h : ∀ kv ∈ l, kv.1 ≠ k) : lookup k l = none := by
  induction l with
  | nil => rfl
  | cons x xs ih =>
    obtain ⟨xk, xv⟩ := x
    have hx := h (xk, xv) (List.mem_cons_self ..)
    simp only [lookup]
    have : (xk == k) = false := by simpa using hx
    rw [this]
    exact ih (fun kv hkv => h kv (List.mem_cons_of_mem _ hkv))

theorem lookup_append (k : Key) (a b : List KV) :
    lookup k (a ++ b) = match lookup k a with
      | some v => some v
      | none => lookup k b := by
  induction a with
  | nil => simp [lookup]
  | cons x xs ih =>
    obtain ⟨xk, xv⟩ := x
    simp only [List.cons_append, lookup]
    by_cases h : (xk == k) = true
    · simp [h]
    · simp [h, ih]

theorem lookup_cons_ne {k xk : Key} {xv : Nat} {l : List KV} (h : xk ≠ k) : lookup k ((xk, xv) :: l) = lookup k l := by
  simp only [lookup]
  have : (xk == k) = false := by simpa using h
  rw [this]; rfl

theorem lookup_cons_eq {k : Key} {xv : Nat} {l : List KV} : lookup k ((k, xv) :: l) = some xv := by
  simp [lookup]

/-- keys below greater labels differ from a key with label `c` -/
theorem lookup_above_none {es : Entries} {base : Key} {c : Nat} {rest : Key}
    (hwf : WFEntries es) (h : allLabels (c < ·) es) : lookup (base ++ c :: rest) (iterEntries base es) = none := by
  apply lookup_none_of_ne
  intro kv hkv e
  obtain ⟨l, r, hl, hk⟩ := iterEntries_label es base _ hwf h kv hkv
  rw [hk] at e
  have := List.append_cancel_left e
  simp at this
  omega

theorem lookup_none_of_strip {pfx key path : Key} {es : Entries} (hsp : stripPrefix pfx key = none) :
    lookup (path ++ key) (iterEntries (path ++ pfx) es) = none := by
  rw [stripPrefix_eq_none] at hsp
  apply lookup_none_of_ne
  intro kv hkv e
  obtain ⟨r, hr⟩ := iterEntries_prefix es (path ++ pfx) kv hkv
  rw [hr, List.append_assoc] at e
  exact hsp r (List.append_cancel_left e).symm

/-- no key below real entries equals the path to the node -/
theorem lookup_base_none {es : Entries} {base : Key} (hwfe : WFEntries es) :
    lookup base (iterEntries base es) = none := by
  apply lookup_none_of_ne
  intro kv hkv e
  obtain ⟨l', r', _, hk⟩ := iterEntries_label _ base (fun _ => True) hwfe
    (allLabels_imp (fun _ _ => trivial) _ hwfe.labels_le) kv hkv
  rw [hk] at e
  have := congrArg List.length e
  simp at this

mutual
  theorem getNode_spec : ∀ (eon : Bool) (n : Node) (path key : Key), WFNode n →
      (eon = false → NoSingleFF n.entries) →
      getNode eon n key = lookup (path ++ key) (iterNode path n)
    | eon, .mk pfx .nil, path, key, hwf, _ => by simp [WFNode, WFRow] at hwf
    | eon, .mk pfx (.leaf l suf v r), path, key, hwf, hnoff => by
      unfold WFNode WFRow at hwf
      rw [getNode]
      simp only [iterNode]
      cases hsp : stripPrefix pfx key with
      | none => simp only; rw [lookup_none_of_strip hsp]
      | some rem =>
        rw [stripPrefix_eq_some] at hsp
        subst hsp
        cases rem with
        | nil =>
          simp only [List.append_nil]
          rcases hwf with ⟨hl, hsuf, hnil, hr⟩ | ⟨hle, habove, hr⟩
          · subst hl hsuf
            simp [iterEntries, hnil, labelTerminator, lookup]
          · have hwfe : WFEntries (.leaf l suf v r) := by unfold WFEntries; exact ⟨hle, habove, hr⟩
            rw [lookup_base_none hwfe]
            by_cases h1 : l = 255
            · cases suf with
              | cons _ _ => simp
              | nil =>
                subst h1
                have hrnil := WFEntries.ff_last hr habove rfl
                cases eon with
                | true => simp [hrnil]
                | false =>
                  exfalso
                  cases r with
                  | nil => exact hnoff rfl v rfl
                  | leaf _ _ _ _ => simp [Entries.isNil] at hrnil
                  | child _ _ _ => simp [Entries.isNil] at hrnil
            · simp [labelTerminator, h1]
        | cons c rest =>
          have hT : path ++ (pfx ++ c :: rest) = (path ++ pfx) ++ c :: rest := by simp
          rw [hT]
          simp only
          rcases hwf with ⟨hl, hsuf, hnil, hr⟩ | ⟨hle, habove, hr⟩
          · subst hl hsuf
            simp only [labelTerminator, beq_self_eq_true, hnil, Bool.not_false, Bool.and_self, if_true,
              iterEntries, List.append_nil]
            rw [getEntries_spec eon r (path ++ pfx) c rest hr]
            rw [lookup_cons_ne]
            intro e
            have := congrArg List.length e
            simp at this
          · have hwfe : WFEntries (.leaf l suf v r) := by unfold WFEntries; exact ⟨hle, habove, hr⟩
            have hcond : (l == labelTerminator && !r.isNil) = false := by
              by_cases h1 : l = 255
              · have := WFEntries.ff_last hr habove h1
                simp [this]
              · simp [labelTerminator, h1]
            rw [← getEntries_spec eon (.leaf l suf v r) (path ++ pfx) c rest hwfe]
            simp only [hcond, getEntries]
            simp
    | eon, .mk pfx (.child l n r), path, key, hwf, _ => by
      unfold WFNode WFRow at hwf
      have hwfe : WFEntries (.child l n r) := by unfold WFEntries; exact hwf
      rw [getNode]
      case x_3 => intro _ _ _ _ h; cases h
      simp only [iterNode]
      cases hsp : stripPrefix pfx key with
      | none => simp only; rw [lookup_none_of_strip hsp]
      | some rem =>
        rw [stripPrefix_eq_some] at hsp
        subst hsp
        cases rem with
        | nil =>
          simp only [List.append_nil]
          rw [lookup_base_none hwfe]
        | cons c rest =>
          have hT : path ++ (pfx ++ c :: rest) = (path ++ pfx) ++ c :: rest := by simp
          rw [hT]
          simp only
          have hcond : (l == labelTerminator && !r.isNil) = false := by
            by_cases h1 : l = 255
            · have := WFEntries.ff_last hwf.2.2.2.2 hwf.2.1 h1
              simp [this]
            · simp [labelTerminator, h1]
          rw [← getEntries_spec eon (.child l n r) (path ++ pfx) c rest hwfe]
          simp only [hcond, getEntries]
          simp
  theorem getEntries_spec : ∀ (eon : Bool) (es : Entries) (base : Key) (c : Nat) (rest : Key), WFEntries es →
      getEntries eon es c rest = lookup (base ++ c :: rest) (iterEntries base es)
    | eon, .nil, base, c, rest, _ => by simp [getEntries, iterEntries, lookup]
    | eon, .leaf l suf v r, base, c, rest, hwf => by
      rw [iterEntries_leaf_real hwf]
      have hwf' := hwf
      unfold WFEntries at hwf'
      obtain ⟨hle, habove, hr⟩ := hwf'
      simp only [getEntries]
      by_cases hlc : l = c
      · subst hlc
        by_cases hs : suf = rest
        · subst hs
          simp [lookup]
        · have : base ++ l :: suf ≠ base ++ l :: rest := by
            intro e
            have := List.append_cancel_left e
            simp at this
            exact hs this
          rw [lookup_cons_ne this, lookup_above_none hr habove]
          simp [hs]
      · have : base ++ l :: suf ≠ base ++ c :: rest := by
          intro e
          have := List.append_cancel_left e
          simp at this
          exact hlc this.1
        rw [lookup_cons_ne this, ← getEntries_spec eon r base c rest hr]
        simp [hlc]
    | eon, .child l n r, base, c, rest, hwf => by
      have hwf' := hwf
      unfold WFEntries at hwf'
      obtain ⟨hle, habove, hn, hlen, hr⟩ := hwf'
      simp only [getEntries, iterEntries]
      rw [lookup_append]
      by_cases hlc : l = c
      · subst hlc
        have hT : base ++ l :: rest = (base ++ [l]) ++ rest := by simp
        rw [hT, ← getNode_spec eon n (base ++ [l]) rest hn (fun _ => noSingleFF_of_length hlen)]
        simp only [beq_self_eq_true, if_true]
        cases hg : getNode eon n rest with
        | some v => rfl
        | none =>
          simp only
          rw [← hT, lookup_above_none hr habove]
      · have hA : lookup (base ++ c :: rest) (iterNode (base ++ [l]) n) = none := by
          apply lookup_none_of_ne
          intro kv hkv e
          obtain ⟨q, hq⟩ := iterNode_prefix n (base ++ [l]) kv hkv
          rw [hq, List.append_assoc] at e
          have := List.append_cancel_left e
          simp at this
          exact hlc this.1
        rw [hA]
        have : (l == c) = false := by simpa using hlc
        simp only [this]
        exact getEntries_spec eon r base c rest hr
end

end LinVerif.Lemmas.C20
