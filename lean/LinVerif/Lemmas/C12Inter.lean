/-
Helper lemmas for C12: the intermediate layer — leaves split their groups by hash over the
receivers, every intermediate merges its share and emits it to the root.
-/
import LinVerif.Lemmas.C12Layout

namespace LinVerif.RootMerge

/-! ### restricting an aggregator to the groups of one receiver -/

/-- the part of an aggregator whose group tags satisfy `P` -/
def Agg.restrict (a : Agg) (P : Tag → Bool) : Agg :=
  { a with keys := a.keys.filter P,
           cells := fun t f k s => if P t then a.cells t f k s else none,
           touched := fun t f => P t && a.touched t f }

theorem restrict_emitTS (a : Agg) (P : Tag → Bool) (t : Tag) (h : P t = true) :
    (a.restrict P).emitTS t = a.emitTS t := by
  simp [Agg.emitTS, Agg.restrict, Agg.points, h]

theorem restrict_emit (a : Agg) (P : Tag → Bool) :
    (a.restrict P).emit = a.emit.filter (fun ts => P ts.tags) := by
  unfold Agg.emit
  have hs : (a.restrict P).specs = a.specs := rfl
  rw [hs]
  by_cases h : a.specs.isEmpty = true
  · simp [h]
  · simp only [h, Bool.false_eq_true, if_false]
    have hk : (a.restrict P).keys = a.keys.filter P := rfl
    rw [hk, List.filter_map]
    have : (fun ts : TS => P ts.tags) ∘ a.emitTS = P := by funext t; rfl
    rw [this]
    apply List.map_congr_left
    intro t ht
    exact restrict_emitTS a P t (List.mem_filter.mp ht).2

theorem restrict_wf (a : Agg) (P : Tag → Bool) (h : a.WF) : (a.restrict P).WF := by
  constructor
  · exact h.keysNodup.filter _
  · intro t f k s hne
    simp only [Agg.restrict] at hne ⊢
    by_cases hp : P t = true
    · rw [if_pos hp] at hne
      obtain ⟨h1, h2, h3⟩ := h.cellKey t f k s hne
      exact ⟨List.mem_filter.mpr ⟨h1, hp⟩, by simp [hp, h2], h3⟩
    · rw [if_neg hp] at hne; exact absurd rfl hne

theorem atoms_tag (ts : TS) (a : Atom) (h : a ∈ ts.atoms) : a.t = ts.tags := by
  obtain ⟨fd, _, p, _, sv, _, rfl⟩ := (mem_atoms ts a).mp h
  rfl

theorem valsAt_ts_other (cap : Nat) (ts : TS) (t f s : Nat) (h : ts.tags ≠ t) :
    valsAt cap ts.atoms t f s = [] := by
  apply valsAt_eq_nil
  intro a ha
  rintro ⟨h1, -⟩
  exact h ((atoms_tag ts a ha).symm.trans h1)

theorem valsAt_filter_tags (cap : Nat) (P : Tag → Bool) (its : List TS) (t f s : Nat) :
    valsAt cap ((its.filter (fun ts => P ts.tags)).flatMap TS.atoms) t f s =
      if P t = true then valsAt cap (its.flatMap TS.atoms) t f s else [] := by
  induction its with
  | nil => simp [valsAt]
  | cons ts its ih =>
    rw [List.filter_cons]
    by_cases hp : P ts.tags = true
    · rw [if_pos hp, List.flatMap_cons, List.flatMap_cons, valsAt_append, valsAt_append, ih]
      by_cases hq : P t = true
      · simp [hq]
      · rw [if_neg hq, if_neg hq]
        have : ts.tags ≠ t := by rintro rfl; exact hq hp
        rw [valsAt_ts_other cap ts t f s this]; rfl
    · rw [if_neg hp, ih, List.flatMap_cons, valsAt_append]
      by_cases hq : P t = true
      · rw [if_pos hq, if_pos hq]
        have : ts.tags ≠ t := by rintro rfl; exact hp hq
        rw [valsAt_ts_other cap ts t f s this]; rfl
      · rw [if_neg hq, if_neg hq]

theorem restrict_naive (sp0 : List Spec) (cap : Nat) (its : List TS) (a : Agg) (P : Tag → Bool)
    (h : IsNaive sp0 cap its a) :
    IsNaive sp0 cap (its.filter (fun ts => P ts.tags)) (a.restrict P) := by
  constructor
  · exact h.cap_eq
  · exact h.specs_equiv
  · funext t f k s
    show (if P t then a.cells t f k s else none) = _
    unfold naiveCells
    rw [valsAt_filter_tags, h.cells_eq]
    unfold naiveCells
    by_cases hp : P t = true
    · simp [hp]
    · simp [hp, foldVals]
  · intro t
    show t ∈ a.keys.filter P ↔ _
    rw [List.mem_filter, h.keys_iff]
    unfold NaiveGroup
    constructor
    · rintro ⟨⟨it, hit, rfl, h2⟩, hp⟩
      exact ⟨it, List.mem_filter.mpr ⟨hit, hp⟩, rfl, h2⟩
    · rintro ⟨it, hit, rfl, h2⟩
      obtain ⟨h3, h4⟩ := List.mem_filter.mp hit
      exact ⟨⟨it, h3, rfl, h2⟩, h4⟩
  · intro t f
    show (P t && a.touched t f) = true ↔ _
    rw [Bool.and_eq_true, h.touched_iff]
    unfold NaiveTouched
    constructor
    · rintro ⟨hp, h0, it, hit, rfl, h2⟩
      exact ⟨h0, it, List.mem_filter.mpr ⟨hit, hp⟩, rfl, h2⟩
    · rintro ⟨h0, it, hit, rfl, h2⟩
      obtain ⟨h3, h4⟩ := List.mem_filter.mp hit
      exact ⟨h4, h0, it, h3, rfl, h2⟩

/-- the share of a sender that goes to the receiver selected by `P` -/
def Src.restrict {sp0 : List Spec} {cap : Nat} (S : Src sp0 cap) (P : Tag → Bool) : Src sp0 cap where
  A := S.A.restrict P
  its := S.its.filter (fun ts => P ts.tags)
  wf := restrict_wf S.A P S.wf
  nodup := S.nodup
  nonempty := S.nonempty
  naive := restrict_naive sp0 cap S.its S.A P S.naive

theorem IsNaive.perm {sp0 : List Spec} (hs : Simple sp0) {cap : Nat} {a b : List TS} {A : Agg}
    (h : IsNaive sp0 cap a A) (p : a.Perm b) : IsNaive sp0 cap b A :=
  ⟨h.cap_eq, h.specs_equiv, by rw [h.cells_eq, naiveCells_perm sp0 hs cap p],
   fun t => by rw [h.keys_iff, naiveGroup_perm p], fun t f => by rw [h.touched_iff, naiveTouched_perm sp0 p]⟩

/-! ### every group goes to exactly one receiver -/

theorem flatMap_insert_perm {α : Type} (js : List Nat) (hn : js.Nodup) (j0 : Nat) (hj : j0 ∈ js) (x : α)
    (g : Nat → List α) :
    (js.flatMap (fun j => if j = j0 then x :: g j else g j)).Perm (x :: js.flatMap g) := by
  induction js with
  | nil => cases hj
  | cons j js ih =>
    have hjn : j ∉ js := (List.nodup_cons.mp hn).1
    rw [List.flatMap_cons, List.flatMap_cons]
    by_cases e : j = j0
    · subst e
      rw [if_pos rfl]
      have : js.flatMap (fun j' => if j' = j then x :: g j' else g j') = js.flatMap g := by
        apply List.flatMap_congr
        intro j' hj'
        rw [if_neg (fun (e : j' = j) => hjn (e ▸ hj'))]
      rw [this]; exact List.Perm.refl _
    · rw [if_neg e]
      have hj' : j0 ∈ js := by
        rcases List.mem_cons.mp hj with h | h
        · exact absurd h.symm e
        · exact h
      refine (List.Perm.append_left _ (ih (List.nodup_cons.mp hn).2 hj')).trans ?_
      exact List.perm_middle

theorem split_perm {α : Type} (r : Nat) (hr : 0 < r) (g : α → Nat) (l : List α) :
    ((List.range r).flatMap (fun j => l.filter (fun x => g x % r == j))).Perm l := by
  induction l with
  | nil => simp
  | cons x xs ih =>
    have : (List.range r).flatMap (fun j => (x :: xs).filter (fun y => g y % r == j)) =
        (List.range r).flatMap (fun j => if j = g x % r then x :: xs.filter (fun y => g y % r == j)
          else xs.filter (fun y => g y % r == j)) := by
      apply List.flatMap_congr
      intro j _
      rw [List.filter_cons]
      by_cases e : j = g x % r
      · subst e; simp
      · have : ¬ (g x % r == j) = true := by simpa using fun h => e h.symm
        rw [if_neg this, if_neg e]
    rw [this]
    refine (flatMap_insert_perm (List.range r) List.nodup_range (g x % r)
      (List.mem_range.mpr (Nat.mod_lt _ hr)) x _).trans ?_
    exact List.Perm.cons x ih

end LinVerif.RootMerge

namespace LinVerif.RootMerge

/-! ### `ctx.aggregatorSpecs` (what the intermediate reports as field specs) -/

theorem find_putSpec (m : List Spec) (sp : Spec) (f : FName) :
    (putSpec m sp).find? (fun x => x.name == f) =
      if sp.name = f then some sp else m.find? (fun x => x.name == f) := by
  unfold putSpec
  by_cases hany : m.any (fun x => x.name == sp.name) = true
  · rw [if_pos hany]
    induction m with
    | nil => simp at hany
    | cons y ys ih =>
      rw [List.map_cons, List.find?_cons, List.find?_cons]
      by_cases hy : y.name = sp.name
      · have : (y.name == sp.name) = true := by simpa using hy
        rw [this]; simp only [if_true]
        by_cases hf : sp.name = f
        · simp [hf]
        · have h1 : (sp.name == f) = false := by simpa using hf
          have h2 : (y.name == f) = false := by rw [hy]; exact h1
          rw [h1, h2]
          by_cases hany' : ys.any (fun x => x.name == sp.name) = true
          · rw [ih hany']
          · -- no further element has that name: the map is the identity on ys
            have hid : ys.map (fun x => if (x.name == sp.name) = true then sp else x) = ys := by
              rw [List.map_congr_left (g := id)]
              · simp
              · intro x hx
                have : ¬ (x.name == sp.name) = true := by
                  intro hc; apply hany'; exact List.any_eq_true.mpr ⟨x, hx, hc⟩
                simp [this]
            rw [hid, if_neg hf]
      · have h0 : (y.name == sp.name) = false := by simpa using hy
        rw [h0]
        simp only [Bool.false_eq_true, if_false]
        have hany' : ys.any (fun x => x.name == sp.name) = true := by
          simpa [List.any_cons, h0] using hany
        by_cases hyf : (y.name == f) = true
        · simp only [hyf]
          have : sp.name ≠ f := by
            intro e; apply hy; rw [e]; simpa using hyf
          rw [if_neg this]
        · simp only [hyf]
          exact ih hany'
  · rw [if_neg hany, List.find?_append]
    have hnone : ∀ x ∈ m, ¬ x.name = sp.name := by
      intro x hx e
      apply hany; exact List.any_eq_true.mpr ⟨x, hx, by simpa using e⟩
    by_cases hf : sp.name = f
    · rw [if_pos hf]
      have : m.find? (fun x => x.name == f) = none := by
        apply List.find?_eq_none.mpr
        intro x hx; rw [← hf]; simpa using hnone x hx
      rw [this]; simp [hf]
    · rw [if_neg hf]
      have : ([sp].find? (fun x => x.name == f)) = none := by simp [hf]
      rw [this]; simp

theorem specView_putSpec (m : List Spec) (sp : Spec) (f : FName) :
    specView (putSpec m sp) f = if sp.name = f then some (sp.ftype, sp.kinds) else specView m f := by
  unfold specView
  rw [find_putSpec]
  split <;> rfl

theorem names_putSpec (m : List Spec) (sp : Spec) :
    (putSpec m sp).map (·.name) =
      if m.any (fun x => x.name == sp.name) then m.map (·.name) else m.map (·.name) ++ [sp.name] := by
  unfold putSpec
  by_cases hany : m.any (fun x => x.name == sp.name) = true
  · rw [if_pos hany, if_pos hany, List.map_map]
    apply List.map_congr_left
    intro x _
    by_cases hx : (x.name == sp.name) = true
    · simp only [Function.comp, hx, if_true]; exact (by simpa using hx : x.name = sp.name).symm
    · simp [Function.comp, hx]
  · rw [if_neg hany, if_neg hany]; simp

theorem nodup_putSpec (m : List Spec) (sp : Spec) (h : (m.map (·.name)).Nodup) :
    ((putSpec m sp).map (·.name)).Nodup := by
  rw [names_putSpec]
  by_cases hany : m.any (fun x => x.name == sp.name) = true
  · rw [if_pos hany]; exact h
  · rw [if_neg hany]
    refine List.nodup_append.mpr ⟨h, by simp, ?_⟩
    intro a ha b hb
    simp at hb; subst hb
    intro e; subst e
    apply hany
    obtain ⟨x, hx, hxn⟩ := List.mem_map.mp ha
    exact List.any_eq_true.mpr ⟨x, hx, by simpa using hxn⟩

theorem putSpec_ne_nil (m : List Spec) (sp : Spec) : (putSpec m sp).isEmpty = false := by
  unfold putSpec
  by_cases hany : m.any (fun x => x.name == sp.name) = true
  · rw [if_pos hany]
    cases m with
    | nil => simp at hany
    | cons _ _ => rfl
  · rw [if_neg hany]; cases m <;> rfl

theorem nodup_foldl_putSpec (l m : List Spec) (h : (m.map (·.name)).Nodup) :
    ((l.foldl putSpec m).map (·.name)).Nodup := by
  induction l generalizing m with
  | nil => exact h
  | cons y ys ih => exact ih (putSpec m y) (nodup_putSpec m y h)

theorem foldl_putSpec_ne_nil (l m : List Spec) (h : m.isEmpty = false) :
    (l.foldl putSpec m).isEmpty = false := by
  induction l generalizing m with
  | nil => exact h
  | cons y ys ih => exact ih _ (putSpec_ne_nil m y)

/-- a spec agrees with the reference view of its field -/
def Conform (sp0 : List Spec) (x : Spec) : Prop := specView sp0 x.name = some (x.ftype, x.kinds)

theorem find_of_nodup_names (sp : List Spec) (hn : (sp.map (·.name)).Nodup) (x : Spec) (hx : x ∈ sp) :
    sp.find? (fun y => y.name == x.name) = some x := by
  induction sp with
  | nil => cases hx
  | cons y ys ih =>
    rw [List.find?_cons]
    rcases List.mem_cons.mp hx with rfl | hx'
    · simp
    · have hn' : (y.name :: ys.map (·.name)).Nodup := hn
      have hne : y.name ≠ x.name := by
        intro e
        have := (List.nodup_cons.mp hn').1
        exact this (List.mem_map.mpr ⟨x, hx', e.symm⟩)
      have : (y.name == x.name) = false := by simpa using hne
      rw [this]
      exact ih (List.nodup_cons.mp hn').2 hx'

theorem conform_of_equiv (sp0 sp : List Spec) (he : SpecEquiv sp sp0) (hn : (sp.map (·.name)).Nodup)
    (x : Spec) (hx : x ∈ sp) : Conform sp0 x := by
  unfold Conform
  rw [← he x.name]
  unfold specView
  rw [find_of_nodup_names sp hn x hx]; rfl

theorem specView_foldl_putSpec (sp0 : List Spec) (sps m : List Spec)
    (hm : ∀ f, specView m f = none ∨ specView m f = specView sp0 f) (hc : ∀ x ∈ sps, Conform sp0 x) (f : FName) :
    (specView (sps.foldl putSpec m) f = none ∨ specView (sps.foldl putSpec m) f = specView sp0 f) ∧
    ((∃ x ∈ sps, x.name = f) → specView (sps.foldl putSpec m) f = specView sp0 f) := by
  induction sps generalizing m with
  | nil => exact ⟨hm f, fun ⟨x, hx, _⟩ => by cases hx⟩
  | cons y ys ih =>
    rw [List.foldl_cons]
    have hm' : ∀ g, specView (putSpec m y) g = none ∨ specView (putSpec m y) g = specView sp0 g := by
      intro g
      rw [specView_putSpec]
      by_cases e : y.name = g
      · rw [if_pos e]; right; rw [← e]; exact (hc y List.mem_cons_self).symm
      · rw [if_neg e]; exact hm g
    have := ih (putSpec m y) hm' (fun x hx => hc x (List.mem_cons_of_mem _ hx))
    refine ⟨this.1, ?_⟩
    rintro ⟨x, hx, hxf⟩
    rcases List.mem_cons.mp hx with rfl | hx'
    · -- y itself: either a later spec has the name too, or the fold keeps what putSpec set
      by_cases hex : ∃ z ∈ ys, z.name = f
      · exact this.2 hex
      · -- nothing later touches f
        have keep : ∀ (zs n : List Spec), (∀ z ∈ zs, z.name ≠ f) →
            specView (zs.foldl putSpec n) f = specView n f := by
          intro zs
          induction zs with
          | nil => intro n _; rfl
          | cons z zs ihz =>
            intro n hz
            rw [List.foldl_cons, ihz _ (fun w hw => hz w (List.mem_cons_of_mem _ hw)), specView_putSpec,
              if_neg (hz z List.mem_cons_self)]
        rw [keep ys _ (fun z hz e => hex ⟨z, hz, e⟩), specView_putSpec, if_pos hxf, ← hxf]
        exact (hc x List.mem_cons_self).symm
    · exact this.2 ⟨x, hx', hxf⟩

theorem handle_allSpecs (v : Variant) (c : Ctx) (r : Resp) :
    (c.handle v r).allSpecs =
      match goodPayloads [r] with | p :: _ => p.specs.foldl putSpec c.allSpecs | [] => c.allSpecs := by
  cases r with
  | ok p =>
    simp only [Ctx.handle, Ctx.absorb, goodPayloads, List.filterMap_cons, List.filterMap_nil]
    by_cases hs : p.specs.isEmpty = true
    · simp [hs]
    · simp [hs]
  | notFound => simp only [Ctx.handle, Ctx.absorb, goodPayloads]; split <;> rfl
  | error => rfl
  | bad => rfl

theorem handleAll_allSpecs (v : Variant) (c : Ctx) (rs : List Resp) :
    (c.handleAll v rs).allSpecs = (goodPayloads rs).foldl (fun m p => p.specs.foldl putSpec m) c.allSpecs := by
  induction rs generalizing c with
  | nil => rfl
  | cons r rs ih =>
    rw [handleAll_cons, ih, handle_allSpecs, goodPayloads_cons r rs, List.foldl_append]
    cases hg : goodPayloads [r] with
    | nil => rfl
    | cons p ps =>
      -- goodPayloads [r] has at most one element
      have : ps = [] := by
        cases r with
        | ok q =>
          simp only [goodPayloads, List.filterMap_cons, List.filterMap_nil] at hg
          split at hg
          · cases hg
          · simp at hg; exact hg.2
        | notFound => simp [goodPayloads] at hg
        | error => simp [goodPayloads] at hg
        | bad => simp [goodPayloads] at hg
      subst this; rfl

/-- after at least one payload whose specs are `sp0` (up to order), and only such payloads, the
context's spec map is `sp0` up to order, with distinct names -/
theorem allSpecs_of_payloads (sp0 : List Spec) (ps : List Payload) (hne : ps ≠ [])
    (hp : ∀ p ∈ ps, SpecEquiv p.specs sp0 ∧ (p.specs.map (·.name)).Nodup ∧ p.specs.isEmpty = false) :
    let m := ps.foldl (fun m p => p.specs.foldl putSpec m) []
    SpecEquiv m sp0 ∧ (m.map (·.name)).Nodup ∧ m.isEmpty = false := by
  -- invariant over the fold
  have inv : ∀ (qs : List Payload) (m : List Spec),
      (∀ p ∈ qs, SpecEquiv p.specs sp0 ∧ (p.specs.map (·.name)).Nodup ∧ p.specs.isEmpty = false) →
      (∀ f, specView m f = none ∨ specView m f = specView sp0 f) → (m.map (·.name)).Nodup →
      let m' := qs.foldl (fun m p => p.specs.foldl putSpec m) m
      (∀ f, specView m' f = none ∨ specView m' f = specView sp0 f) ∧ (m'.map (·.name)).Nodup ∧
      (qs ≠ [] → SpecEquiv m' sp0 ∧ m'.isEmpty = false) := by
    intro qs
    induction qs with
    | nil => intro m _ hm hn; exact ⟨hm, hn, fun h => absurd rfl h⟩
    | cons q qs ih =>
      intro m hq hm hn
      obtain ⟨he, hnq, hneq⟩ := hq q List.mem_cons_self
      have hconf : ∀ x ∈ q.specs, Conform sp0 x := conform_of_equiv sp0 q.specs he hnq
      have h1 := fun f => specView_foldl_putSpec sp0 q.specs m hm hconf f
      have hn1 : ((q.specs.foldl putSpec m).map (·.name)).Nodup := nodup_foldl_putSpec q.specs m hn
      have hfull : SpecEquiv (q.specs.foldl putSpec m) sp0 := by
        intro f
        rcases (h1 f).1 with hnone | heq
        · -- then sp0 has no such field either
          cases hv : specView sp0 f with
          | none => rw [hnone]
          | some val =>
            have hq' : specView q.specs f = some val := by rw [he f]; exact hv
            unfold specView at hq'
            cases hfind : q.specs.find? (fun sp => sp.name == f) with
            | none => rw [hfind] at hq'; cases hq'
            | some x =>
              have hx := List.mem_of_find?_eq_some hfind
              have hxn : x.name = f := by simpa using List.find?_some hfind
              rw [(h1 f).2 ⟨x, hx, hxn⟩, hv]
        · exact heq
      have hne1 : (q.specs.foldl putSpec m).isEmpty = false := by
        cases hl : q.specs with
        | nil => rw [hl] at hneq; cases hneq
        | cons y ys =>
          rw [List.foldl_cons]
          exact foldl_putSpec_ne_nil ys _ (putSpec_ne_nil m y)
      rw [List.foldl_cons]
      have := ih (q.specs.foldl putSpec m) (fun p hp' => hq p (List.mem_cons_of_mem _ hp'))
        (fun f => Or.inr (hfull f)) hn1
      refine ⟨this.1, this.2.1, fun _ => ?_⟩
      by_cases hqs : qs = []
      · subst hqs; exact ⟨hfull, hne1⟩
      · exact this.2.2 hqs
  have := inv ps [] hp (fun f => Or.inl rfl) (by simp)
  exact ⟨(this.2.2 hne).1, this.2.1, (this.2.2 hne).2⟩

end LinVerif.RootMerge

namespace LinVerif.RootMerge

/-! ### a context fed by senders (leaves, shares of leaves, or intermediates) -/

/-- something that answers with the emission of an aggregator and a spec list -/
structure Sender (sp0 : List Spec) (cap : Nat) where
  S : Src sp0 cap
  specs : List Spec
  equiv : SpecEquiv specs sp0
  nodup : (specs.map (·.name)).Nodup
  nonempty : specs.isEmpty = false

def Sender.payload {sp0 : List Spec} {cap : Nat} (x : Sender sp0 cap) : Payload :=
  { cap := cap, specs := x.specs, series := x.S.A.emit }

/-- `none` = a node that answers not-found -/
def respOf {sp0 : List Spec} {cap : Nat} : Option (Sender sp0 cap) → Resp
  | some x => .ok x.payload
  | none => .notFound

theorem goodPayloads_senders {sp0 : List Spec} {cap : Nat} (xs : List (Option (Sender sp0 cap))) :
    goodPayloads (xs.map respOf) = (xs.filterMap id).map Sender.payload := by
  induction xs with
  | nil => rfl
  | cons x xs ih =>
    rw [List.map_cons, goodPayloads_cons, ih]
    cases x with
    | none => rfl
    | some x =>
      have : goodPayloads [respOf (some x)] = [x.payload] := by
        simp only [goodPayloads, respOf, List.filterMap_cons, List.filterMap_nil]
        have : x.payload.specs.isEmpty = false := x.nonempty
        simp [this]
      rw [this]; rfl

theorem countNF_senders {sp0 : List Spec} {cap : Nat} (xs : List (Option (Sender sp0 cap))) :
    countNF (xs.map respOf) + (xs.filterMap id).length = xs.length := by
  induction xs with
  | nil => rfl
  | cons x xs ih =>
    cases x with
    | none =>
      have hf : (none :: xs).filterMap id = xs.filterMap id := rfl
      rw [List.map_cons, countNF_cons, List.length_cons, hf]
      simp only [respOf, if_true]
      omega
    | some x =>
      rw [List.map_cons, countNF_cons, List.length_cons]
      have : respOf (some x) ≠ Resp.notFound := by simp [respOf]
      have hf : (some x :: xs).filterMap id = x :: xs.filterMap id := rfl
      rw [if_neg this, hf, List.length_cons]
      omega

theorem noFailure_senders {sp0 : List Spec} {cap : Nat} (xs : List (Option (Sender sp0 cap))) :
    ∀ r ∈ xs.map respOf, isFailure r = false := by
  intro r hr
  obtain ⟨x, -, rfl⟩ := List.mem_map.mp hr
  cases x <;> rfl

/-- the state of a context after all its senders (and any number of not-found nodes) answered,
in the order of the list -/
theorem ctx_of_senders (sp0 : List Spec) (cap : Nat) (hs : Simple sp0)
    (xs : List (Option (Sender sp0 cap))) (hne : xs.filterMap id ≠ []) :
    let c := (Ctx.new xs.length).handleAll .code (xs.map respOf)
    c.done = true ∧ c.err = none ∧ c.hdrCap = cap ∧
    (SpecEquiv c.allSpecs sp0 ∧ (c.allSpecs.map (·.name)).Nodup ∧ c.allSpecs.isEmpty = false) ∧
    ∃ A, c.agg = some A ∧ A.WF ∧ (A.specs.map (·.name)).Nodup ∧ A.specs.isEmpty = false ∧
      IsNaive sp0 cap ((xs.filterMap id).flatMap (fun x => x.S.its)) A := by
  intro c
  have hlen : (xs.map respOf).length = xs.length := List.length_map _
  have hxs : xs ≠ [] := by rintro rfl; exact hne rfl
  have hgood := goodPayloads_senders xs
  refine ⟨?_, ?_, ?_, ?_, ?_⟩
  · apply handleAll_done
    · intro h; exact hxs (List.map_eq_nil_iff.mp h)
    · simp [Ctx.new, hlen]
  · refine (handleAll_err_none .code _ _ (noFailure_senders xs) rfl ?_).1
    have := countNF_senders xs
    have hpos : 0 < (xs.filterMap id).length := List.length_pos_of_ne_nil hne
    simp only [Ctx.new]; omega
  · apply handleAll_hdrCap
    · intro p hp
      rw [hgood] at hp
      obtain ⟨x, -, rfl⟩ := List.mem_map.mp hp
      rfl
    · right; rw [hgood]; intro h; exact hne (List.map_eq_nil_iff.mp h)
  · have : c.allSpecs = _ := handleAll_allSpecs .code _ _
    rw [this, hgood]
    apply allSpecs_of_payloads sp0
    · intro h; exact hne (List.map_eq_nil_iff.mp h)
    · intro p hp
      obtain ⟨x, -, rfl⟩ := List.mem_map.mp hp
      exact ⟨x.equiv, x.nodup, x.nonempty⟩
  · have hagg : c.agg = aggAfter .code none (goodPayloads (xs.map respOf)) := handleAll_agg .code rfl _ _
    rw [hgood] at hagg
    cases hL : xs.filterMap id with
    | nil => exact absurd hL hne
    | cons x rest =>
      rw [hL, List.map_cons, aggAfter_none_cons] at hagg
      refine ⟨_, hagg, wf_new_aggregateAll .code rfl _ _ _, ?_, ?_, ?_⟩
      · rw [aggregateAll_specs]; exact x.nodup
      · rw [aggregateAll_specs]; exact x.nonempty
      · have hflat : (x.payload :: rest.map Sender.payload).flatMap (·.series) =
            ((x :: rest).map (·.S)).flatMap (fun S => S.A.emit) := by
          simp [List.flatMap_cons, List.flatMap_map, Sender.payload]
        rw [hflat]
        have hn := isNaive_of_sources sp0 x.payload.specs hs x.equiv cap ((x :: rest).map (·.S))
        rw [List.flatMap_map] at hn
        exact hn

end LinVerif.RootMerge

namespace LinVerif.RootMerge

/-! ### leaves -> intermediates -> root -/

/-- the share of receiver `j` (of `r`) of a leaf's payload: `BuildResultSet`'s split by
`xxhash(tags) % numOfReceivers` -/
def share (h : Tag → Nat) (r j : Nat) (p : Payload) : Payload :=
  { p with series := p.series.filter (fun ts => h ts.tags % r == j) }

theorem splitByHash_eq (h : Tag → Nat) (r : Nat) (p : Payload) :
    splitByHash h r p = (List.range r).map (fun j => share h r j p) := rfl

/-- with one receiver the code sends the unsplit payload — the same thing -/
theorem share_single (h : Tag → Nat) (p : Payload) : share h 1 0 p = p := by
  cases p with
  | mk cap specs series =>
    simp only [share, Payload.mk.injEq, true_and]
    apply List.filter_eq_self.mpr
    intro ts _
    simp [Nat.mod_one]

/-- what node `n` sends to receiver `j` -/
def Node.respTo (h : Tag → Nat) (r cap j : Nat) : Node → Resp
  | .leaf L => .ok (share h r j (leafPayload .code L.specs cap L.its))
  | .absent => .notFound

def Node.itsFor (h : Tag → Nat) (r j : Nat) : Node → List TS
  | .leaf L => L.its.filter (fun ts => h ts.tags % r == j)
  | .absent => []

/-- the intermediate `j` after hearing from the nodes in the order `nsj` -/
def interCtx (h : Tag → Nat) (r cap j : Nat) (nsj : List Node) : Ctx :=
  (Ctx.new nsj.length).handleAll .code (nsj.map (Node.respTo h r cap j))

theorem exists_list_of_forall_exists {α β : Type} (l : List α) (P : α → β → Prop)
    (h : ∀ a ∈ l, ∃ b, P a b) : ∃ bs : List β, List.Forall₂ P l bs := by
  induction l with
  | nil => exact ⟨[], List.Forall₂.nil⟩
  | cons a l ih =>
    obtain ⟨b, hb⟩ := h a List.mem_cons_self
    obtain ⟨bs, hbs⟩ := ih (fun x hx => h x (List.mem_cons_of_mem _ hx))
    exact ⟨b :: bs, List.Forall₂.cons hb hbs⟩

theorem node_sender (sp0 : List Spec) (cap : Nat) (h : Tag → Nat) (r j : Nat) (n : Node)
    (hn : ∀ L, n = .leaf L → L.OK sp0) :
    ∃ x : Option (Sender sp0 cap), Node.respTo h r cap j n = respOf x ∧
      (match x with | some s => s.S.its | none => []) = Node.itsFor h r j n ∧
      (x.isSome = true ↔ ∃ L, n = .leaf L) := by
  cases n with
  | absent => exact ⟨none, rfl, rfl, by simp⟩
  | leaf L =>
    have hOK := hn L rfl
    let P : Tag → Bool := fun t => h t % r == j
    refine ⟨some ⟨(L.src sp0 cap hOK).restrict P, L.specs, hOK.equiv, hOK.nodup, hOK.nonempty⟩, ?_, rfl, by simp⟩
    simp only [Node.respTo, respOf, Sender.payload, share, Resp.ok.injEq]
    show _ = Payload.mk cap L.specs (((L.agg cap).restrict P).emit)
    rw [restrict_emit, leafPayload_series]
    rfl

theorem forall2_map_eq {α β γ : Type} (f : α → γ) (g : β → γ) (l : List α) (bs : List β)
    (h : List.Forall₂ (fun a b => f a = g b) l bs) : l.map f = bs.map g := by
  induction h with
  | nil => rfl
  | cons hab _ ih => simp [hab, ih]

theorem flatMap_of_forall2 {α β γ : Type} (f : α → List γ) (g : β → List γ) (l : List α) (bs : List β)
    (h : List.Forall₂ (fun a b => g b = f a) l bs) : bs.flatMap g = l.flatMap f := by
  induction h with
  | nil => rfl
  | @cons a b l' bs' hab _ ih => rw [List.flatMap_cons, List.flatMap_cons, hab, ih]

theorem its_of_forall2 {sp0 : List Spec} {cap : Nat} (g : Node → List TS) (ns : List Node)
    (xs : List (Option (Sender sp0 cap)))
    (hxs : List.Forall₂ (fun n x => (match x with | some s => s.S.its | none => []) = g n) ns xs) :
    (xs.filterMap id).flatMap (fun x => x.S.its) = ns.flatMap g := by
  induction hxs with
  | nil => rfl
  | @cons n x ns' xs' hab _ ih =>
    rw [List.flatMap_cons, ← ih, ← hab]
    cases x with
    | none => rfl
    | some s => rfl

theorem some_of_forall2 {sp0 : List Spec} {cap : Nat} (ns : List Node)
    (xs : List (Option (Sender sp0 cap)))
    (hxs : List.Forall₂ (fun n x => (x.isSome = true ↔ ∃ L, n = Node.leaf L)) ns xs)
    (hne : leavesOf ns ≠ []) : xs.filterMap id ≠ [] := by
  induction hxs with
  | nil => exact absurd rfl hne
  | @cons n x ns' xs' hab _ ih =>
    cases n with
    | leaf L =>
      have : x.isSome = true := hab.mpr ⟨L, rfl⟩
      cases x with
      | none => cases this
      | some s => simp
    | absent =>
      have hl : leavesOf (Node.absent :: ns') = leavesOf ns' := rfl
      rw [hl] at hne
      have := ih hne
      cases x with
      | none => exact this
      | some s => simp

/-- the intermediate completes, reports `sp0` (up to order) and its aggregator is a sender for the
share of the data whose groups hash to it -/
theorem inter_naive (sp0 : List Spec) (cap : Nat) (hs : Simple sp0) (h : Tag → Nat) (r j : Nat)
    (nsj : List Node) (hOK : ∀ L ∈ leavesOf nsj, L.OK sp0) (hne : leavesOf nsj ≠ []) :
    ∃ x : Sender sp0 cap, (interCtx h r cap j nsj).taskResponse = respOf (some x) ∧
      x.S.its = nsj.flatMap (Node.itsFor h r j) := by
  have hmem : ∀ n ∈ nsj, ∀ L, n = .leaf L → L.OK sp0 := by
    intro n hn L e
    subst e
    exact hOK L (List.mem_filterMap.mpr ⟨_, hn, rfl⟩)
  obtain ⟨xs, hxs⟩ := exists_list_of_forall_exists nsj
    (fun n (x : Option (Sender sp0 cap)) => Node.respTo h r cap j n = respOf x ∧
      (match x with | some s => s.S.its | none => []) = Node.itsFor h r j n ∧
      (x.isSome = true ↔ ∃ L, n = .leaf L))
    (fun n hn => node_sender sp0 cap h r j n (hmem n hn))
  have hmap : nsj.map (Node.respTo h r cap j) = xs.map respOf :=
    forall2_map_eq _ _ nsj xs (hxs.imp (fun _ _ hab => hab.1))
  have hlen : xs.length = nsj.length := hxs.length_eq.symm
  have hits := its_of_forall2 (Node.itsFor h r j) nsj xs (hxs.imp (fun _ _ hab => hab.2.1))
  have hsome := some_of_forall2 nsj xs (hxs.imp (fun _ _ hab => hab.2.2)) hne
  obtain ⟨hdone, herr, hcap, ⟨hse, hsn, hsne⟩, A, hA, hwf, hAn, hAne, hnaive⟩ :=
    ctx_of_senders sp0 cap hs xs hsome
  rw [hlen, ← hmap] at hdone herr hcap hse hsn hsne hA
  rw [hits] at hnaive
  refine ⟨⟨⟨A, _, hwf, hAn, hAne, hnaive⟩, _, hse, hsn, hsne⟩, ?_, rfl⟩
  unfold interCtx Ctx.taskResponse
  rw [herr, hA, hcap]
  rfl

end LinVerif.RootMerge
