/-
Helper lemmas for the writers + EvictSegment interleaving model (`Model/C13Evict.lean`): the
inductive invariant "a registered segment object is open; a writer that holds an OPEN segment object
holds the registered one; a family object a writer got stays registered in its segment object",
over every schedule of writer steps and evict steps.
-/
import LinVerif.Model.C13Evict
import LinVerif.Lemmas.C13Goc

namespace LinVerif.Lemmas.C13
open LinVerif.Interval

theorem gLookup_mem {k : GKey} {o : Nat} : ∀ {m : List (GKey × Nat)}, gLookup k m = some o → (k, o) ∈ m
  | [], h => by simp [gLookup] at h
  | (k', o') :: r, h => by
    have h' := h
    rw [show (k', o') :: r = gStore k' o' r from rfl, gLookup_store] at h'
    by_cases e : k = k'
    · simp only [e, if_true, Option.some.injEq] at h'
      subst e; subst h'; exact List.mem_cons_self
    · simp only [e, if_false] at h'
      exact List.mem_cons_of_mem _ (gLookup_mem h')

theorem gLookup_filter {k : GKey} {o : Nat} (p : GKey × Nat → Bool) :
    ∀ {m : List (GKey × Nat)}, gLookup k m = some o → p (k, o) = true → gLookup k (m.filter p) = some o
  | [], h, _ => by simp [gLookup] at h
  | (k', o') :: r, h, hp => by
    have h' := h
    rw [show (k', o') :: r = gStore k' o' r from rfl, gLookup_store] at h'
    by_cases e : k = k'
    · simp only [e, if_true, Option.some.injEq] at h'
      subst e; subst h'
      rw [List.filter_cons_of_pos hp, show (k, o') :: r.filter p = gStore k o' (r.filter p) from rfl,
        gLookup_store]
      simp
    · simp only [e, if_false] at h'
      have ih := gLookup_filter p h' hp
      by_cases hq : p (k', o') = true
      · rw [List.filter_cons_of_pos hq, show (k', o') :: r.filter p = gStore k' o' (r.filter p) from rfl,
          gLookup_store]
        simp [e, ih]
      · rw [List.filter_cons_of_neg hq]; exact ih

/-- what one writer critical section does to the shared state -/
structure WStep (sh sh' : EShared) : Prop where
  mono : GMono sh.map sh'.map
  closed : sh'.closed = sh.closed
  next : sh.next ≤ sh'.next
  new : ∀ kv ∈ sh'.map, kv ∈ sh.map ∨ (kv.2 = sh.next ∧ sh.next < sh'.next)

theorem WStep.refl (sh : EShared) : WStep sh sh :=
  ⟨GMono.refl _, rfl, Nat.le_refl _, fun _ h => Or.inl h⟩

theorem eGetSegment_spec (sh : EShared) (seg : Int) :
    WStep sh (eGetSegment sh seg).1 ∧
      gLookup (0, seg) (eGetSegment sh seg).1.map = some (eGetSegment sh seg).2 := by
  unfold eGetSegment
  cases hl : gLookup (0, seg) sh.map with
  | some o => exact ⟨WStep.refl _, hl⟩
  | none =>
    refine ⟨⟨GMono.store _ hl, rfl, Nat.le_succ _, ?_⟩, ?_⟩
    · intro kv hkv
      simp only [gStore, List.mem_cons] at hkv
      rcases hkv with e | e
      · right; subst e; exact ⟨rfl, Nat.lt_succ_self _⟩
      · exact Or.inl e
    · simp only [gLookup_store]; simp

theorem eGetFamily_spec (sh : EShared) (so : Nat) (seg fam : Int) :
    WStep sh (eGetFamily sh so seg fam).1 ∧
      ∀ o, (eGetFamily sh so seg fam).2 = some o →
        gLookup (so + 1, fam) (eGetFamily sh so seg fam).1.map = some o := by
  unfold eGetFamily
  cases hl : gLookup (so + 1, fam) sh.map with
  | some o => exact ⟨WStep.refl _, fun o' e => (by simp only [Option.some.injEq] at e; subst e; exact hl)⟩
  | none =>
    have hnew : ∀ kv ∈ gStore (so + 1, fam) sh.next sh.map,
        kv ∈ sh.map ∨ (kv.2 = sh.next ∧ sh.next < sh.next + 1) := by
      intro kv hkv
      simp only [gStore, List.mem_cons] at hkv
      rcases hkv with e | e
      · right; subst e; exact ⟨rfl, Nat.lt_succ_self _⟩
      · exact Or.inl e
    simp only
    split
    · refine ⟨⟨GMono.store _ hl, rfl, Nat.le_succ _, hnew⟩, fun o e => ?_⟩
      simp only [Option.some.injEq] at e; subst e
      simp only [gLookup_store]; simp
    · split
      · exact ⟨WStep.refl _, fun o e => (by cases e)⟩
      · refine ⟨⟨GMono.store _ hl, rfl, Nat.le_succ _, hnew⟩, fun o e => ?_⟩
        simp only [Option.some.injEq] at e; subst e
        simp only [gLookup_store]; simp

/-- the state invariant -/
structure EInv (c : Calc) (s : EState) : Prop where
  openBound : ∀ g o, ((0, g), o) ∈ s.sh.map → o ∉ s.sh.closed
  freshMap : ∀ kv ∈ s.sh.map, kv.2 < s.sh.next
  freshClosed : ∀ o ∈ s.sh.closed, o < s.sh.next
  segReg : ∀ t ∈ s.threads, ∀ so, t.segObj = some so → so ∉ s.sh.closed →
    gLookup (0, t.seg) s.sh.map = some so
  famReg : ∀ t ∈ s.threads, ∀ fo, t.famObj = some fo →
    ∃ so, t.segObj = some so ∧ gLookup (so + 1, t.fam) s.sh.map = some fo
  keys : ∀ t ∈ s.threads, t.seg = calcSegmentTime c t.ts ∧ t.fam = calcFamily c t.ts (calcSegmentTime c t.ts)
  pcs : ∀ t ∈ s.threads, (t.pc = .l0 → t.segObj = none ∧ t.famObj = none) ∧
    (t.famObj.isSome → t.pc = .fin)

/-- a writer between its levels, or one that returned a family, holds an open segment object -/
def HeldOpen (s : EState) : Prop :=
  ∀ t ∈ s.threads, (t.pc = .reopen ∨ t.pc = .l1 ∨ t.famObj.isSome) →
    ∀ so, t.segObj = some so → so ∉ s.sh.closed

theorem eInit_sh (c : Calc) (pre : List Int) : ∀ (sh : EShared),
    (pre.foldl (fun (sh : EShared) t =>
      { sh with options := (calcSegmentTime c t, calcFamily c t (calcSegmentTime c t) ::
                    ((sh.options.lookup (calcSegmentTime c t)).getD [])) :: sh.options
                paths := (calcSegmentTime c t, calcFamily c t (calcSegmentTime c t)) :: sh.paths }) sh).map = sh.map ∧
    (pre.foldl (fun (sh : EShared) t =>
      { sh with options := (calcSegmentTime c t, calcFamily c t (calcSegmentTime c t) ::
                    ((sh.options.lookup (calcSegmentTime c t)).getD [])) :: sh.options
                paths := (calcSegmentTime c t, calcFamily c t (calcSegmentTime c t)) :: sh.paths }) sh).closed = sh.closed := by
  induction pre with
  | nil => intro sh; exact ⟨rfl, rfl⟩
  | cons a r ih =>
    intro sh
    simp only [List.foldl_cons]
    obtain ⟨h1, h2⟩ := ih { sh with
      options := (calcSegmentTime c a, calcFamily c a (calcSegmentTime c a) ::
        ((sh.options.lookup (calcSegmentTime c a)).getD [])) :: sh.options
      paths := (calcSegmentTime c a, calcFamily c a (calcSegmentTime c a)) :: sh.paths }
    exact ⟨h1, h2⟩

theorem eInit_inv (c : Calc) (ts pre : List Int) : EInv c (eInit c ts pre) ∧ HeldOpen (eInit c ts pre) := by
  obtain ⟨hm, hc⟩ := eInit_sh c pre {}
  have hm' : (eInit c ts pre).sh.map = [] := hm
  have hc' : (eInit c ts pre).sh.closed = [] := hc
  have hth : ∀ t ∈ (eInit c ts pre).threads, ∃ x, t = mkEThread c x := by
    intro t ht
    simp only [eInit, List.mem_map] at ht
    obtain ⟨x, _, rfl⟩ := ht
    exact ⟨x, rfl⟩
  refine ⟨⟨?_, ?_, ?_, ?_, ?_, ?_, ?_⟩, ?_⟩
  · intro g o h; rw [hm'] at h; cases h
  · intro kv h; rw [hm'] at h; cases h
  · intro o h; rw [hc'] at h; cases h
  · intro t ht so e; obtain ⟨x, rfl⟩ := hth t ht; simp [mkEThread] at e
  · intro t ht fo e; obtain ⟨x, rfl⟩ := hth t ht; simp [mkEThread] at e
  · intro t ht; obtain ⟨x, rfl⟩ := hth t ht; exact ⟨rfl, rfl⟩
  · intro t ht; obtain ⟨x, rfl⟩ := hth t ht; simp [mkEThread]
  · intro t ht _ so e; obtain ⟨x, rfl⟩ := hth t ht; simp [mkEThread] at e

theorem eInit_ts (c : Calc) (ts pre : List Int) : (eInit c ts pre).threads.map (·.ts) = ts := by
  simp [eInit, mkEThread, Function.comp_def]

/-- invariant parts that only depend on the shared state, across a writer critical section -/
theorem WStep.openBound {sh sh' : EShared} (w : WStep sh sh')
    (hob : ∀ g o, ((0, g), o) ∈ sh.map → o ∉ sh.closed) (hfc : ∀ o ∈ sh.closed, o < sh.next) :
    ∀ g o, ((0, g), o) ∈ sh'.map → o ∉ sh'.closed := by
  intro g o h
  rw [w.closed]
  rcases w.new _ h with old | ⟨e, _⟩
  · exact hob g o old
  · intro hc
    have := hfc o hc
    simp only at e
    omega

theorem WStep.freshMap {sh sh' : EShared} (w : WStep sh sh') (hf : ∀ kv ∈ sh.map, kv.2 < sh.next) :
    ∀ kv ∈ sh'.map, kv.2 < sh'.next := by
  intro kv h
  rcases w.new _ h with old | ⟨e, lt⟩
  · exact Nat.lt_of_lt_of_le (hf kv old) w.next
  · omega

theorem WStep.freshClosed {sh sh' : EShared} (w : WStep sh sh') (hf : ∀ o ∈ sh.closed, o < sh.next) :
    ∀ o ∈ sh'.closed, o < sh'.next := by
  intro o h
  rw [w.closed] at h
  exact Nat.lt_of_lt_of_le (hf o h) w.next

theorem eStepAt_w_none {s : EState} {i : Nat} (h : s.threads[i]? = none) : eStepAt s (.w i) = s := by
  simp [eStepAt, h]

theorem eStepAt_w_some {s : EState} {i : Nat} {t : EThread} (h : s.threads[i]? = some t) :
    eStepAt s (.w i) = { sh := (eStepThread s.sh t).1, threads := s.threads.set i (eStepThread s.sh t).2 } := by
  simp [eStepAt, h]

/-- one writer step keeps the invariant (and `HeldOpen`), and the timestamps -/
theorem eStepW_inv (c : Calc) (s : EState) (i : Nat) (h : EInv c s) :
    EInv c (eStepAt s (.w i)) ∧ (HeldOpen s → HeldOpen (eStepAt s (.w i))) ∧
      (eStepAt s (.w i)).threads.map (·.ts) = s.threads.map (·.ts) := by
  cases hi : s.threads[i]? with
  | none => rw [eStepAt_w_none hi]; exact ⟨h, id, rfl⟩
  | some t =>
    have ht : t ∈ s.threads := List.mem_of_getElem? hi
    rw [eStepAt_w_some hi]
    -- the shared-state part and the stepping thread, by program counter
    have key : WStep s.sh (eStepThread s.sh t).1 ∧
        (eStepThread s.sh t).2.ts = t.ts ∧ (eStepThread s.sh t).2.seg = t.seg ∧
        (eStepThread s.sh t).2.fam = t.fam ∧
        (∀ so, (eStepThread s.sh t).2.segObj = some so → so ∉ (eStepThread s.sh t).1.closed →
          gLookup (0, t.seg) (eStepThread s.sh t).1.map = some so) ∧
        (∀ fo, (eStepThread s.sh t).2.famObj = some fo → ∃ so, (eStepThread s.sh t).2.segObj = some so ∧
          gLookup (so + 1, t.fam) (eStepThread s.sh t).1.map = some fo) ∧
        (((eStepThread s.sh t).2.pc = .l0 → (eStepThread s.sh t).2.segObj = none ∧
            (eStepThread s.sh t).2.famObj = none) ∧
          ((eStepThread s.sh t).2.famObj.isSome → (eStepThread s.sh t).2.pc = .fin)) ∧
        ((t.pc = .l0 ∨ (∀ so, t.segObj = some so → so ∉ s.sh.closed)) →
          ∀ so, (eStepThread s.sh t).2.segObj = some so → so ∉ (eStepThread s.sh t).1.closed) := by
      unfold eStepThread
      cases hpc : t.pc with
      | fin =>
        refine ⟨WStep.refl _, rfl, rfl, rfl, h.segReg t ht, h.famReg t ht, ?_, ?_⟩
        · exact ⟨fun e => (by rw [hpc] at e; cases e), fun _ => hpc⟩
        · rintro (e | e)
          · cases e
          · exact e
      | l0 =>
        obtain ⟨w, hl⟩ := eGetSegment_spec s.sh t.seg
        have hn := (h.pcs t ht).1 hpc
        refine ⟨w, rfl, rfl, rfl, ?_, ?_, ?_, ?_⟩
        · intro so e _
          simp only [Option.some.injEq] at e; subst e; exact hl
        · intro fo e; simp only [hn.2] at e; cases e
        · refine ⟨fun e => (by cases e), fun e => ?_⟩
          simp only [hn.2] at e; cases e
        · intro _ so e
          simp only [Option.some.injEq] at e; subst e
          exact w.openBound h.openBound h.freshClosed _ _ (gLookup_mem hl)
      | reopen =>
        obtain ⟨w, _⟩ := eGetSegment_spec s.sh t.seg
        refine ⟨w, rfl, rfl, rfl, ?_, ?_, ?_, ?_⟩
        · intro so e hc
          rw [w.closed] at hc
          exact w.mono _ _ (h.segReg t ht so e hc)
        · intro fo e
          obtain ⟨so, e1, e2⟩ := h.famReg t ht fo e
          exact ⟨so, e1, w.mono _ _ e2⟩
        · refine ⟨fun e => (by cases e), fun e => ?_⟩
          have := (h.pcs t ht).2 e
          rw [hpc] at this; cases this
        · rintro (e | e)
          · cases e
          · intro so e'; rw [w.closed]; exact e so e'
      | l1 =>
        have hnf : t.famObj = none := by
          cases hf : t.famObj with
          | none => rfl
          | some fo =>
            have := (h.pcs t ht).2 (by simp [hf])
            rw [hpc] at this; cases this
        cases hso : t.segObj with
        | none =>
          refine ⟨WStep.refl _, rfl, rfl, rfl, h.segReg t ht, h.famReg t ht, ?_, ?_⟩
          · exact ⟨fun e => (by rw [hpc] at e; cases e), fun e => (by simp [hnf] at e)⟩
          · intro _ so e; rw [hso] at e; cases e
        | some so =>
          obtain ⟨w, hl⟩ := eGetFamily_spec s.sh so t.seg t.fam
          simp only
          cases hr : (eGetFamily s.sh so t.seg t.fam).2 with
          | some o =>
            dsimp only
            refine ⟨w, rfl, rfl, rfl, ?_, ?_, ?_, ?_⟩
            · intro so' e hc
              rw [w.closed] at hc
              exact w.mono _ _ (h.segReg t ht so' (by simpa [hso] using e) hc)
            · intro fo e
              simp only [Option.some.injEq] at e; subst e
              exact ⟨so, rfl, hl _ hr⟩
            · exact ⟨fun e => (by cases e), fun _ => rfl⟩
            · rintro (e | e)
              · cases e
              · intro so' e'; rw [w.closed]; exact e so' (by simpa [hso] using e')
          | none =>
            dsimp only
            refine ⟨w, rfl, rfl, rfl, ?_, ?_, ?_, ?_⟩
            · intro so' e hc
              rw [w.closed] at hc
              exact w.mono _ _ (h.segReg t ht so' (by simpa [hso] using e) hc)
            · intro fo e; simp only [hnf] at e; cases e
            · exact ⟨fun e => (by cases e), fun _ => rfl⟩
            · rintro (e | e)
              · cases e
              · intro so' e'; rw [w.closed]; exact e so' (by simpa [hso] using e')
    obtain ⟨w, e1, e2, e3, ksr, kfr, kpc, kho⟩ := key
    refine ⟨⟨w.openBound h.openBound h.freshClosed, w.freshMap h.freshMap, w.freshClosed h.freshClosed,
      ?_, ?_, ?_, ?_⟩, ?_, map_set_same _ _ _ t _ hi e1⟩
    · intro t' ht' so e hc
      rcases List.mem_or_eq_of_mem_set ht' with g | g
      · rw [w.closed] at hc
        exact w.mono _ _ (h.segReg t' g so e hc)
      · subst g; rw [e2]; exact ksr so e hc
    · intro t' ht' fo e
      rcases List.mem_or_eq_of_mem_set ht' with g | g
      · obtain ⟨so, a, b⟩ := h.famReg t' g fo e
        exact ⟨so, a, w.mono _ _ b⟩
      · subst g; rw [e3]; exact kfr fo e
    · intro t' ht'
      rcases List.mem_or_eq_of_mem_set ht' with g | g
      · exact h.keys t' g
      · subst g; rw [e1, e2, e3]; exact h.keys t ht
    · intro t' ht'
      rcases List.mem_or_eq_of_mem_set ht' with g | g
      · exact h.pcs t' g
      · subst g; exact kpc
    · intro ho t' ht' hp so e
      rcases List.mem_or_eq_of_mem_set ht' with g | g
      · rw [w.closed]; exact ho t' g hp so e
      · subst g
        refine kho ?_ so e
        -- the stepping thread was at l0, or already had to hold an open segment
        by_cases hl0 : t.pc = .l0
        · exact Or.inl hl0
        · right
          intro so' e'
          refine ho t ht ?_ so' e'
          cases hpc : t.pc with
          | l0 => exact absurd hpc hl0
          | reopen => exact Or.inl rfl
          | l1 => exact Or.inr (Or.inl rfl)
          | fin =>
            -- a finished thread does not move: its famObj is what the premise speaks about
            right; right
            have : eStepThread s.sh t = (s.sh, t) := by unfold eStepThread; rw [hpc]
            rw [this] at hp
            rcases hp with e0 | e0 | e0
            · rw [hpc] at e0; cases e0
            · rw [hpc] at e0; cases e0
            · exact e0

theorem eHasFamily_of_lookup {m : List (GKey × Nat)} {so : Nat} {f : Int} {o : Nat}
    (h : gLookup (so + 1, f) m = some o) : eHasFamily m so = true := by
  have := gLookup_mem h
  simp only [eHasFamily, List.any_eq_true]
  exact ⟨_, this, by simp⟩

/-- an object closed by this evict step was registered without a family object -/
theorem mem_evicted {m : List (GKey × Nat)} {o : Nat}
    (h : o ∈ (m.filter (eEvictable m)).map (·.2)) : eHasFamily m o = false := by
  simp only [List.mem_map, List.mem_filter] at h
  obtain ⟨kv, ⟨_, he⟩, rfl⟩ := h
  simp only [eEvictable, Bool.and_eq_true, Bool.not_eq_true'] at he
  exact he.2

/-- an evict step keeps the invariant -/
theorem eEvict_inv (c : Calc) (s : EState) (h : EInv c s) : EInv c (eStepAt s .evict) := by
  refine ⟨?_, ?_, ?_, ?_, ?_, h.keys, h.pcs⟩
  · intro g o hm
    simp only [eStepAt, eEvict, List.mem_filter, Bool.not_eq_true'] at hm
    obtain ⟨hin, hne⟩ := hm
    simp only [eStepAt, eEvict, List.mem_append, not_or]
    refine ⟨fun hev => ?_, h.openBound g o hin⟩
    have := mem_evicted hev
    simp [eEvictable, this] at hne
  · intro kv hm
    simp only [eStepAt, eEvict, List.mem_filter] at hm
    exact h.freshMap kv hm.1
  · intro o hm
    simp only [eStepAt, eEvict, List.mem_append, List.mem_map, List.mem_filter] at hm
    rcases hm with ⟨kv, ⟨hin, _⟩, rfl⟩ | hc
    · exact h.freshMap kv hin
    · exact h.freshClosed o hc
  · intro t ht so e hc
    simp only [eStepAt, eEvict, List.mem_append, not_or] at hc
    have hl := h.segReg t ht so e hc.2
    refine gLookup_filter _ hl ?_
    simp only [Bool.not_eq_true']
    cases hev : eEvictable s.sh.map ((0, t.seg), so) with
    | false => rfl
    | true =>
      exfalso; apply hc.1
      simp only [List.mem_map, List.mem_filter]
      exact ⟨_, ⟨gLookup_mem hl, hev⟩, rfl⟩
  · intro t ht fo e
    obtain ⟨so, e1, e2⟩ := h.famReg t ht fo e
    refine ⟨so, e1, gLookup_filter _ e2 ?_⟩
    simp [eEvictable]

/-- an evict step in a quiescent state keeps `HeldOpen` -/
theorem eEvict_heldOpen (c : Calc) (s : EState) (h : EInv c s) (ho : HeldOpen s)
    (hq : eQuiescent s = true) : HeldOpen (eStepAt s .evict) := by
  intro t ht hp so e
  have ht' : t ∈ s.threads := ht
  simp only [eQuiescent, List.all_eq_true, Bool.or_eq_true, beq_iff_eq] at hq
  have hfam : t.famObj.isSome := by
    rcases hq t ht' with q | q
    · have := (h.pcs t ht').1 q
      rw [this.1] at e; cases e
    · rcases hp with p | p | p
      · rw [q] at p; cases p
      · rw [q] at p; cases p
      · exact p
  obtain ⟨fo, hfo⟩ := Option.isSome_iff_exists.mp hfam
  obtain ⟨so', e1, e2⟩ := h.famReg t ht' fo hfo
  rw [e] at e1; cases e1
  simp only [eStepAt, eEvict, List.mem_append, not_or]
  refine ⟨fun hev => ?_, ho t ht' (Or.inr (Or.inr hfam)) so e⟩
  have := mem_evicted hev
  rw [eHasFamily_of_lookup e2] at this; cases this

theorem eStepAt_ts (c : Calc) (s : EState) (st : EStep) (h : EInv c s) :
    EInv c (eStepAt s st) ∧ (eStepAt s st).threads.map (·.ts) = s.threads.map (·.ts) := by
  cases st with
  | evict => exact ⟨eEvict_inv c s h, rfl⟩
  | w i => exact ⟨(eStepW_inv c s i h).1, (eStepW_inv c s i h).2.2⟩

theorem eRun_inv (c : Calc) (sched : List EStep) (s : EState) (h : EInv c s) :
    EInv c (eRun s sched) ∧ (eRun s sched).threads.map (·.ts) = s.threads.map (·.ts) := by
  induction sched generalizing s with
  | nil => exact ⟨h, rfl⟩
  | cons st r ih =>
    obtain ⟨a, b⟩ := eStepAt_ts c s st h
    obtain ⟨a', b'⟩ := ih (eStepAt s st) a
    exact ⟨a', b'.trans b⟩

theorem eRun_heldOpen (c : Calc) (sched : List EStep) (s : EState) (h : EInv c s) (ho : HeldOpen s)
    (hq : evictsQuiescent s sched = true) : HeldOpen (eRun s sched) := by
  induction sched generalizing s with
  | nil => exact ho
  | cons st r ih =>
    cases st with
    | evict =>
      simp only [evictsQuiescent, Bool.and_eq_true] at hq
      obtain ⟨q1, q2⟩ := hq
      exact ih _ (eEvict_inv c s h) (eEvict_heldOpen c s h ho q1) q2
    | w i =>
      obtain ⟨a, b, _⟩ := eStepW_inv c s i h
      simp only [evictsQuiescent] at hq
      exact ih _ a (b ho) hq

end LinVerif.Lemmas.C13
