import Mathlib.Tactic.Tauto
import LinVerif.Model.C11QuerySnap

namespace LinVerif.Lemmas.C11QuerySnap
open LinVerif.C11QuerySnap

def allMems (f : Fam) : List Mem := live f ++ f.closed

/-- memory databases never lose points and never disappear (a closed one stays reachable). -/
theorem step_mono (f : Fam) (op : Op) (m : Mem) (hm : m ∈ allMems f) :
    ∃ m' ∈ allMems (step f op), m'.id = m.id ∧ ∀ p, p ∈ m.pts → p ∈ m'.pts := by
  cases op with
  | write p =>
    cases hmut : f.mu with
    | none =>
      refine ⟨m, ?_, rfl, fun _ h => h⟩
      simp only [allMems, live, step, hmut, Option.mem_toList, Option.some.injEq, List.mem_append] at hm ⊢
      simp at hm ⊢; tauto
    | some m0 =>
      simp only [allMems, live, hmut, Option.mem_toList, Option.some.injEq, List.mem_append, List.mem_cons, List.not_mem_nil,
        or_false] at hm
      rcases hm with (rfl | h) | h
      · refine ⟨{ m0 with pages := m0.pages ++ [p] }, ?_, rfl, ?_⟩
        · simp [allMems, live, step, hmut]
        · intro q hq; simp only [Mem.pts, List.mem_append] at hq ⊢; tauto
      · exact ⟨m, by simp [allMems, live, step, hmut, h], rfl, fun _ h => h⟩
      · exact ⟨m, by simp [allMems, live, step, hmut, h], rfl, fun _ h => h⟩
  | roll =>
    cases hmut : f.mu with
    | none => exact ⟨m, by simpa [step, hmut] using hm, rfl, fun _ h => h⟩
    | some m0 =>
      simp only [allMems, live, hmut, Option.mem_toList, Option.some.injEq, List.mem_append, List.mem_cons, List.not_mem_nil,
        or_false] at hm
      rcases hm with (rfl | h) | h
      · refine ⟨{ m0 with compressed := m0.compressed ++ m0.pages, pages := [] }, ?_, rfl, ?_⟩
        · simp [allMems, live, step, hmut]
        · intro q hq; simp only [Mem.pts, List.mem_append, List.append_nil] at hq ⊢; exact hq
      · exact ⟨m, by simp [allMems, live, step, hmut, h], rfl, fun _ h => h⟩
      · exact ⟨m, by simp [allMems, live, step, hmut, h], rfl, fun _ h => h⟩
  | flushBegin =>
    refine ⟨m, ?_, rfl, fun _ h => h⟩
    cases himm : f.imm <;> cases hmut : f.mu <;>
      simp [allMems, live, step, himm, hmut] at hm ⊢ <;> tauto
  | flushCommit =>
    refine ⟨m, ?_, rfl, fun _ h => h⟩
    cases himm : f.imm <;> simp [allMems, live, step, himm] at hm ⊢ <;> tauto

theorem step_files (f : Fam) (op : Op) (x : List Nat) (hx : x ∈ f.files) : x ∈ (step f op).files := by
  cases op with
  | write p => cases h : f.mu <;> simp [step, h, hx]
  | roll => cases h : f.mu <;> simp [step, h, hx]
  | flushBegin => cases h1 : f.imm <;> cases h2 : f.mu <;> simp [step, h1, h2, hx]
  | flushCommit => cases h : f.imm <;> simp [step, h, hx]

/-- a point is stored: in a file or in a live memory database. -/
def Stored (f : Fam) (p : Nat) : Prop := (∃ x ∈ f.files, p ∈ x) ∨ ∃ m ∈ live f, p ∈ m.pts

theorem step_stored (f : Fam) (op : Op) (p : Nat) (h : Stored f p) : Stored (step f op) p := by
  rcases h with ⟨x, hx, hp⟩ | ⟨m, hm, hp⟩
  · exact Or.inl ⟨x, step_files f op x hx, hp⟩
  · cases op with
    | write q =>
      right
      cases hmut : f.mu with
      | none =>
        refine ⟨m, ?_, hp⟩
        simp [live, step, hmut] at hm ⊢; tauto
      | some m0 =>
        simp only [live, hmut, Option.mem_toList, Option.some.injEq, List.mem_append, List.mem_cons, List.not_mem_nil, or_false] at hm
        rcases hm with rfl | h
        · exact ⟨{ m0 with pages := m0.pages ++ [q] }, by simp [live, step, hmut],
            by simp only [Mem.pts, List.mem_append] at hp ⊢; tauto⟩
        · exact ⟨m, by simp [live, step, hmut, h], hp⟩
    | roll =>
      right
      cases hmut : f.mu with
      | none => exact ⟨m, by simpa [step, hmut] using hm, hp⟩
      | some m0 =>
        simp only [live, hmut, Option.mem_toList, Option.some.injEq, List.mem_append, List.mem_cons, List.not_mem_nil, or_false] at hm
        rcases hm with rfl | h
        · exact ⟨{ m0 with compressed := m0.compressed ++ m0.pages, pages := [] }, by simp [live, step, hmut],
            by simp only [Mem.pts, List.mem_append, List.append_nil] at hp ⊢; exact hp⟩
        · exact ⟨m, by simp [live, step, hmut, h], hp⟩
    | flushBegin =>
      right; refine ⟨m, ?_, hp⟩
      cases himm : f.imm <;> cases hmut : f.mu <;> simp [live, step, himm, hmut] at hm ⊢ <;> tauto
    | flushCommit =>
      cases himm : f.imm with
      | none => right; exact ⟨m, by simpa [step, himm] using hm, hp⟩
      | some m0 =>
        simp only [live, himm, Option.mem_toList, Option.some.injEq, List.mem_append, List.mem_cons, List.not_mem_nil, or_false] at hm
        rcases hm with h | rfl
        · right; exact ⟨m, by simp [live, step, himm, h], hp⟩
        · left; exact ⟨m0.pts, by simp [step, himm], hp⟩

theorem write_stored (f : Fam) (p : Nat) : Stored (step f (.write p)) p := by
  right
  cases hmut : f.mu with
  | none => exact ⟨{ id := f.nextId, pages := [p] }, by simp [live, step, hmut], by simp [Mem.pts]⟩
  | some m => exact ⟨{ m with pages := m.pages ++ [p] }, by simp [live, step, hmut], by simp [Mem.pts]⟩

theorem run_stored : ∀ (ops : List Op) (f : Fam) (p : Nat), Stored f p → Stored (run f ops) p
  | [], _, _, h => h
  | op :: ops, f, p, h => run_stored ops (step f op) p (step_stored f op p h)

theorem written_stored : ∀ (ops : List Op) (f : Fam) (p : Nat), p ∈ written ops → Stored (run f ops) p
  | [], _, _, h => by simp [written] at h
  | op :: ops, f, p, h => by
    cases op with
    | write q =>
      simp only [written, List.mem_cons] at h
      rcases h with rfl | h
      · exact run_stored ops _ _ (write_stored f p)
      · exact written_stored ops _ p h
    | roll => exact written_stored ops _ p (by simpa [written] using h)
    | flushBegin => exact written_stored ops _ p (by simpa [written] using h)
    | flushCommit => exact written_stored ops _ p (by simpa [written] using h)

/-- what the query can still reach: the snapshot's files, or a picked memory database wherever it is. -/
def Reach (s : Snap) (f : Fam) (p : Nat) : Prop :=
  (∃ x ∈ s.files, p ∈ x) ∨ ∃ m ∈ allMems f, m.id ∈ s.memIds ∧ p ∈ m.pts

theorem reach_run (s : Snap) : ∀ (ops : List Op) (f : Fam) (p : Nat), Reach s f p → Reach s (run f ops) p
  | [], _, _, h => h
  | op :: ops, f, p, h => by
    apply reach_run s ops (step f op) p
    rcases h with h | ⟨m, hm, hid, hp⟩
    · exact Or.inl h
    · obtain ⟨m', hm', hid', hsub⟩ := step_mono f op m hm
      exact Or.inr ⟨m', hm', by rw [hid']; exact hid, hsub p hp⟩

theorem reach_filter (f : Fam) (p : Nat) (h : Stored f p) : Reach (filter f) f p := by
  rcases h with h | ⟨m, hm, hp⟩
  · exact Or.inl h
  · refine Or.inr ⟨m, by simp [allMems, hm], ?_, hp⟩
    simp only [filter, List.mem_map]; exact ⟨m, hm, rfl⟩

theorem load_of_reach (s : Snap) (f : Fam) (p : Nat) (h : Reach s f p) : p ∈ load true f s := by
  simp only [load, List.mem_append, List.mem_flatten, List.mem_flatMap, List.mem_filter,
    List.contains_iff_mem, if_true]
  rcases h with ⟨x, hx, hp⟩ | ⟨m, hm, hid, hp⟩
  · exact Or.inl (Or.inl ⟨x, hx, hp⟩)
  · simp only [allMems, List.mem_append] at hm
    rcases hm with hm | hm
    · exact Or.inl (Or.inr ⟨m, ⟨hm, hid⟩, hp⟩)
    · exact Or.inr ⟨m, ⟨hm, hid⟩, by simpa [Mem.pts] using hp⟩

end LinVerif.Lemmas.C11QuerySnap
