/-
C04 — lemmas about the target registry model (Model/C04Resolve.lean): with the per-run lookup a world
history IS a history of `HOp`s (Model/Rollup.lean §E) in which a rollup is available exactly for the
intervals whose target store is registered at that moment.
-/
import LinVerif.Model.C04Resolve
import LinVerif.Lemmas.C04Snap

set_option linter.unusedSimpArgs false
namespace LinVerif.Lemmas.C04
open LinVerif.Rollup

theorem lookup_name {w : World} {n : TName} {o : TObj} (h : w.lookup n = some o) : o.1 = n := by
  have := List.find?_some h
  simpa using this

theorem lookup_mem {w : World} {n : TName} {o : TObj} (h : w.lookup n = some o) : o ∈ w.reg :=
  List.mem_of_find?_eq_some h

/-- what `GetStoreByName` returns is the registered object: it is live -/
theorem lookup_live {w : World} {n : TName} {o : TObj} (h : w.lookup n = some o) : w.live o = true := by
  have e := lookup_name h
  unfold World.live
  rw [e, h]
  simp

/-- per-run lookup: the job can commit iff the target store is registered -/
theorem canCommit_per_run (nameOf : Nat → Iv → TName) (w : World) (fam : Nat) (i : Iv) :
    w.canCommit false nameOf fam i = (w.lookup (nameOf fam i)).isSome := by
  unfold World.canCommit World.resolve
  simp only [Bool.false_eq_true, if_false]
  cases h : w.lookup (nameOf fam i) with
  | none => rfl
  | some o => simp only [Option.isSome_some]; exact lookup_live h

/-- re-encoding the references of the target families is an `Op.reopen` step -/
theorem reopenTargets_eq_reopen (own : Iv → Nat) (perm : List SLog → List SLog) (hp : SameLogs perm) (σ : St) :
    σ.reopenTargets own perm = σ.step (.reopen σ.pending (σ.reopenTargets own perm).refs) := by
  obtain ⟨_, m2, _⟩ := restart_mem own perm hp { σ with pending := [] }
  have e1 : sameMem σ.pending σ.pending = true := sameMem_of_iff _ _ (fun _ => Iff.rfl)
  have e2 : sameMem (σ.reopenTargets own perm).refs σ.refs = true := sameMem_of_iff _ _ m2
  simp only [St.step, e1, e2, Bool.and_self, if_true]
  rfl

theorem reopenTargets_mem (own : Iv → Nat) (perm : List SLog → List SLog) (hp : SameLogs perm) (σ : St) :
    (σ.reopenTargets own perm).pending = σ.pending ∧
    (∀ q, q ∈ (σ.reopenTargets own perm).refs ↔ q ∈ σ.refs) ∧ (σ.reopenTargets own perm).refs.Nodup := by
  obtain ⟨_, m2, m3⟩ := restart_mem own perm hp { σ with pending := [] }
  exact ⟨rfl, m2, m3⟩

/-- the emission orders occurring in a world history -/
def WOp.perms : WOp → List (List SLog → List SLog)
  | .topen _ p => [p]
  | .restart p => [p]
  | _ => []

theorem renew_st (w : World) : w.renew.st = w.st := rfl

/-- one step of the world (code's shape) = the steps of its trace on the bookkeeping -/
theorem step_st_eq_trace (nameOf : Nat → Iv → TName) (own : Iv → Nat) (w : World) (o : WOp)
    (hp : ∀ f ∈ WOp.perms o, SameLogs f) :
    (w.step false nameOf own o).st = w.st.runH true own (World.trace nameOf own w [o]) := by
  cases o with
  | flush fam file ne ivs => simp [World.step, World.trace, St.runH, St.stepH]
  | topen n perm =>
    have hperm : SameLogs perm := hp perm (by simp [WOp.perms])
    cases h : w.lookup n with
    | some x => simp [World.step, World.trace, St.runH, h]
    | none =>
      simp only [World.step, World.trace, St.runH, h, List.append_nil, List.foldl_cons, List.foldl_nil, St.stepH]
      exact reopenTargets_eq_reopen own perm hperm w.st
  | tclose n => simp [World.step, World.trace, St.runH]
  | rollup fam ivs ok dvs cut =>
    have e : (fun i => decide (i ∈ ok) && w.canCommit false nameOf fam i) =
        (fun i => decide (i ∈ ok) && (w.lookup (nameOf fam i)).isSome) := by
      funext i; rw [canCommit_per_run]
    cases cut with
    | none => simp [World.step, World.trace, St.runH, St.stepH, e]
    | some k => simp [World.step, World.trace, St.runH, St.stepH, e, renew_st]
  | restart perm => simp [World.step, World.trace, St.runH, St.stepH, renew_st]

theorem trace_cons (nameOf : Nat → Iv → TName) (own : Iv → Nat) (w : World) (o : WOp) (rest : List WOp) :
    World.trace nameOf own w (o :: rest) =
      World.trace nameOf own w [o] ++ World.trace nameOf own (w.step false nameOf own o) rest := by
  cases o <;> simp [World.trace]

/-- a world history (per-run lookup) leaves the bookkeeping its trace leaves -/
theorem run_st_eq_trace (nameOf : Nat → Iv → TName) (own : Iv → Nat) (ops : List WOp) :
    ∀ w : World, (∀ o ∈ ops, ∀ f ∈ WOp.perms o, SameLogs f) →
      (w.run false nameOf own ops).st = w.st.runH true own (World.trace nameOf own w ops) := by
  induction ops with
  | nil => intro w _; rfl
  | cons o rest ih =>
    intro w hp
    have h1 := step_st_eq_trace nameOf own w o (hp o (List.mem_cons_self ..))
    have h2 := ih (w.step false nameOf own o) (fun o' ho' => hp o' (List.mem_cons_of_mem _ ho'))
    rw [trace_cons]
    simp only [World.run, List.foldl_cons] at h2 ⊢
    rw [h2, h1]
    simp [St.runH, List.foldl_append]

/-- the restarts of a trace are the restarts of the world history -/
theorem trace_restart_perm (nameOf : Nat → Iv → TName) (own : Iv → Nat) (ops : List WOp) :
    ∀ w : World, ∀ f, HOp.restart f ∈ World.trace nameOf own w ops → ∃ o ∈ ops, f ∈ WOp.perms o := by
  induction ops with
  | nil => intro w f h; simp [World.trace] at h
  | cons o rest ih =>
    intro w f h
    rw [trace_cons, List.mem_append] at h
    rcases h with h | h
    · refine ⟨o, List.mem_cons_self .., ?_⟩
      cases o with
      | flush fam file ne ivs => simp [World.trace] at h
      | topen n perm =>
        cases hl : w.lookup n <;> simp [World.trace, hl] at h
      | tclose n => simp [World.trace] at h
      | rollup fam ivs ok dvs cut => simp [World.trace] at h
      | restart perm =>
        simp only [World.trace, List.append_nil, List.mem_singleton, HOp.restart.injEq] at h
        simp [WOp.perms, h]
    · obtain ⟨o', ho', hf⟩ := ih _ f h
      exact ⟨o', List.mem_cons_of_mem _ ho', hf⟩

end LinVerif.Lemmas.C04
