/-
C14 — "after a rejected or empty input a reused decoder answers as a fresh decoder given that input would".
Helper lemmas for `Props.C14.unmarshal_rejected_leaves_fresh` and its siblings (delta, TSD, stream reader).
-/
import LinVerif.Model.FixedOffset
import LinVerif.Model.DeltaPack
import LinVerif.Model.Tsd
import LinVerif.Model.Stream

namespace LinVerif.FixedOffset

/-- `Unmarshal` never reads the receiver: the first three statements overwrite all three fields -/
theorem Dec.unmarshal_indep (d1 d2 : Dec) (data : List Nat) : d1.unmarshal data = d2.unmarshal data := rfl

/-- every error return of `Unmarshal` leaves an EMPTY offsets block -/
theorem Dec.unmarshal_error_block (d : Dec) (data : List Nat) (e : UErr)
    (h : (d.unmarshal data).1 = .error e) : (d.unmarshal data).2.block = [] := by
  unfold Dec.unmarshal at h ⊢
  dsimp only at h ⊢
  by_cases c1 : data.length < 2
  · simp [c1]
  · by_cases c2 : ((data.getD 0 0 : Nat) : Int) < 0 ∨ ((data.getD 0 0 : Nat) : Int) > 4
    · simp only [c1, c2, if_true, if_false]; simp
    · by_cases c3 : (Varint.stdUvarint (data.drop 1)).2 ≤ 0
      · simp only [c1, c2, c3, if_true, if_false]; simp
      · simp only [c1, c2, c3, if_false] at h ⊢
        split at h
        · rename_i c4
          simp only [c4, if_true]; simp
        · simp at h

/-- `Get` on an empty offsets block finds nothing -/
theorem Dec.get_of_block_nil (d : Dec) (h : d.block = []) (i : Int) : d.get i = none := by
  simp [Dec.get, h]

/-- `GetBlock` on an empty offsets block is the "corrupted index" error, whatever the data block -/
theorem Dec.getBlock_of_block_nil (d : Dec) (h : d.block = []) (i : Int) (blk : List Nat) :
    d.getBlock i blk = .error .corruptedIndex := by
  simp [Dec.getBlock, Dec.get_of_block_nil d h]

/-- fewer than two bytes (the EMPTY table is written as zero bytes; `Unmarshal(nil)`): the decoder is the fresh one -/
theorem Dec.unmarshal_short (d : Dec) (data : List Nat) (h : data.length < 2) :
    d.unmarshal data = (.error .tooShort, Dec.fresh) := by
  simp [Dec.unmarshal, h, Dec.fresh]

/-- a reuse history ends in the state a fresh decoder has after the LAST input alone -/
theorem Dec.feed_last (d : Dec) (inputs : List (List Nat)) (data : List Nat) :
    (d.feed (inputs ++ [data])) = (Dec.fresh.unmarshal data).2 := by
  simp [Dec.feed, List.foldl_append]
  rfl

end LinVerif.FixedOffset
