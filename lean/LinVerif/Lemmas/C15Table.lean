/-
C15 — lemmas about the table model: little-endian / uvarint round trips, the fixed-width offset
table, the builder invariant, and the reader on a file produced by the builder.
-/
import LinVerif.Model.Table
namespace LinVerif.Table

theorem leBytes_length : ∀ (w v : Nat), (leBytes w v).length = w := by
  intro w; induction w with
  | zero => intro v; rfl
  | succ w ih => intro v; simp [leBytes, ih]

theorem leVal_leBytes : ∀ (w v : Nat), leVal (leBytes w v) = v % 256 ^ w := by
  intro w; induction w with
  | zero => intro v; simp [leBytes, leVal, Nat.mod_one]
  | succ w ih =>
    intro v
    simp only [leBytes, leVal, ih]
    rw [Nat.pow_succ, Nat.mul_comm (256 ^ w) 256, Nat.mod_mul]

theorem leVal_leBytes_of_lt (w v : Nat) (h : v < 256 ^ w) : leVal (leBytes w v) = v := by
  rw [leVal_leBytes, Nat.mod_eq_of_lt h]

theorem leBytes_take : ∀ (w' w v : Nat), w ≤ w' → (leBytes w' v).take w = leBytes w v := by
  intro w'; induction w' with
  | zero => intro w v h; have : w = 0 := by omega
            subst this; rfl
  | succ w' ih =>
    intro w v h
    cases w with
    | zero => rfl
    | succ w => simp [leBytes, ih w (v / 256) (by omega)]

theorem leBytes_byte_lt : ∀ (w v : Nat), ∀ b ∈ leBytes w v, b < 256 := by
  intro w; induction w with
  | zero => intro v b hb; simp [leBytes] at hb
  | succ w ih =>
    intro v b hb
    simp only [leBytes, List.mem_cons] at hb
    rcases hb with rfl | hb
    · exact Nat.mod_lt _ (by decide)
    · exact ih _ b hb

theorem minWidth_le_four (v : Nat) : minWidth v ≤ 4 := by unfold minWidth; split <;> (try split) <;> (try split) <;> omega
theorem minWidth_pos (v : Nat) : 1 ≤ minWidth v := by unfold minWidth; split <;> (try split) <;> (try split) <;> omega
theorem lt_pow_minWidth (v : Nat) (h : v < 4294967296) : v < 256 ^ minWidth v := by
  unfold minWidth; split
  · omega
  · split
    · omega
    · split <;> omega

/-- uvarint round trip (any accumulated state): x < 2^(7·f) and the encoding ends before byte 9 -/
theorem uvarintAux_put : ∀ (f x i acc s : Nat) (rest : Bytes), x < 2 ^ (7 * f) → i + f ≤ 9 →
    uvarintAux (putUvarintAux f x ++ rest) i acc s =
      some (acc + x * 2 ^ s, i + (putUvarintAux f x).length) := by
  intro f; induction f with
  | zero => intro x i acc s rest hx hi
            have : x = 0 := by simpa using hx
            subst this
            simp [putUvarintAux, uvarintAux]; omega
  | succ f ih =>
    intro x i acc s rest hx hi
    simp only [putUvarintAux]
    by_cases h : x < 128
    · simp only [h, if_true, List.singleton_append, uvarintAux]
      rw [if_neg (by omega), if_neg (by omega)]
      simp
    · simp only [h, if_false, List.cons_append, uvarintAux]
      rw [if_neg (by omega), if_neg (by omega)]
      have hx' : x / 128 < 2 ^ (7 * f) := by
        have : 2 ^ (7 * (f + 1)) = 128 * 2 ^ (7 * f) := by
          rw [Nat.mul_add, Nat.pow_add]; simp [Nat.mul_comm]
        rw [this] at hx
        exact Nat.div_lt_of_lt_mul hx
      rw [ih (x / 128) (i + 1) _ (s + 7) rest hx' (by omega)]
      have e1 : (x % 128 + 128) % 128 = x % 128 := by omega
      have e2 : 2 ^ (s + 7) = 128 * 2 ^ s := by rw [Nat.pow_add]; simp [Nat.mul_comm]
      simp only [e1, e2, List.length_cons]
      congr 1
      congr 1
      · have := Nat.div_add_mod x 128
        calc acc + x % 128 * 2 ^ s + x / 128 * (128 * 2 ^ s)
            = acc + (128 * (x / 128) + x % 128) * 2 ^ s := by
              rw [Nat.add_mul, Nat.mul_assoc, Nat.mul_comm (x / 128) (128 * 2 ^ s), Nat.mul_assoc,
                Nat.mul_comm (2 ^ s) (x / 128)]; omega
          _ = acc + x * 2 ^ s := by rw [this]
      · omega

theorem putUvarintAux_length_pos (f x : Nat) : 1 ≤ (putUvarintAux f x).length := by
  cases f <;> simp [putUvarintAux] <;> split <;> simp

theorem uvarint_put (x : Nat) (rest : Bytes) (hx : x < 2 ^ 63) :
    uvarint (putUvarint x ++ rest) = some (x, (putUvarint x).length) := by
  unfold uvarint putUvarint
  -- fuel 9 would already do: putUvarintAux 10 x = putUvarintAux 9 x for x < 2^63
  have key : ∀ f x, x < 2 ^ (7 * f) → putUvarintAux (f + 1) x = putUvarintAux f x := by
    intro f; induction f with
    | zero => intro x hx; have : x = 0 := by simpa using hx
              subst this; simp [putUvarintAux]
    | succ f ih =>
      intro x hx
      simp only [putUvarintAux]
      by_cases h : x < 128
      · simp [h]
      · simp only [h, if_false]
        have hx' : x / 128 < 2 ^ (7 * f) := by
          have : 2 ^ (7 * (f + 1)) = 128 * 2 ^ (7 * f) := by
            rw [Nat.mul_add, Nat.pow_add]; simp [Nat.mul_comm]
          rw [this] at hx
          exact Nat.div_lt_of_lt_mul hx
        have := ih (x / 128) hx'
        simp only [putUvarintAux] at this
        rw [this]
  rw [key 9 x (by simpa using hx)]
  have := uvarintAux_put 9 x 0 0 0 rest (by simpa using hx) (by omega)
  simpa using this

theorem drop_take_flatten_chunks : ∀ (l : List Bytes) (w i : Nat) (c : Bytes), (∀ c ∈ l, c.length = w) →
    l[i]? = some c → ((l.flatten).drop (i * w)).take w = c := by
  intro l
  induction l with
  | nil => intro w i c _ h; simp at h
  | cons c0 t ih =>
    intro w i c hw h
    have h0 : c0.length = w := hw c0 (List.mem_cons_self)
    cases i with
    | zero =>
      simp at h; subst h
      simp only [Nat.zero_mul, List.drop_zero, List.flatten_cons]
      exact List.take_left' h0
    | succ i =>
      simp only [List.getElem?_cons_succ] at h
      have e : (i + 1) * w = c0.length + i * w := by rw [Nat.add_mul, h0]; omega
      rw [List.flatten_cons, e, ← List.drop_drop, List.drop_left]
      exact ih w i c (fun c hc => hw c (List.mem_cons_of_mem _ hc)) h

theorem length_flatten_chunks : ∀ (l : List Bytes) (w : Nat), (∀ c ∈ l, c.length = w) →
    l.flatten.length = l.length * w := by
  intro l
  induction l with
  | nil => intro w _; simp
  | cons c0 t ih =>
    intro w hw
    simp only [List.flatten_cons, List.length_append, List.length_cons]
    rw [ih w (fun c hc => hw c (List.mem_cons_of_mem _ hc)), hw c0 (List.mem_cons_self), Nat.add_mul]
    omega

/-- the offset table written by `FixedOffsetEncoder.Write` is read back entry by entry by
`FixedOffsetDecoder.Unmarshal`/`Get` -/
theorem unmarshal_encodeOffsets (values : List Nat) (max : Nat) (hne : values ≠ [])
    (hmax : max < 4294967296) (hle : ∀ v ∈ values, v ≤ max) (hn : values.length < 2 ^ 63) :
    ∃ d, Decoder.unmarshal (encodeOffsets values max) = some d ∧ d.count = values.length ∧
      ∀ i, d.get i = values[i]? := by
  have hmaxu : u32 max = max := Nat.mod_eq_of_lt hmax
  generalize hw : minWidth max = w
  have hw4 : w ≤ 4 := by rw [← hw]; exact minWidth_le_four _
  have hw1 : 1 ≤ w := by rw [← hw]; exact minWidth_pos _
  have hlt : max < 256 ^ w := by rw [← hw]; exact lt_pow_minWidth _ hmax
  -- the chunks
  let chunks : List Bytes := values.map (fun v => leBytes w v)
  have hchunk : ∀ v ∈ values, (leBytes 4 (u32 v)).take w = leBytes w v := by
    intro v hv
    have : u32 v = v := Nat.mod_eq_of_lt (by have := hle v hv; omega)
    rw [this, leBytes_take 4 w v hw4]
  have hbody : values.flatMap (fun v => (leBytes 4 (u32 v)).take w) = chunks.flatten := by
    rw [List.flatMap_def]
    congr 1
    exact List.map_congr_left hchunk
  have hcl : ∀ c ∈ chunks, c.length = w := by
    intro c hc
    obtain ⟨v, _, rfl⟩ := List.mem_map.mp hc
    exact leBytes_length w v
  have hblen : chunks.flatten.length = values.length * w := by
    rw [length_flatten_chunks chunks w hcl]; simp [chunks]
  have henc : encodeOffsets values max = w :: (putUvarint values.length ++ chunks.flatten) := by
    unfold encodeOffsets
    have : values.isEmpty = false := by cases values <;> simp_all
    simp only [this, hmaxu, hw, hbody]
    simp
  have huv := uvarint_put values.length chunks.flatten hn
  have hL := putUvarintAux_length_pos 10 values.length
  generalize hLdef : (putUvarint values.length).length = L at huv
  have hL1 : 1 ≤ L := by rw [← hLdef]; exact hL
  have hdlen : (encodeOffsets values max).length = 1 + L + w * values.length := by
    rw [henc]; simp [hLdef, hblen, Nat.mul_comm]; omega
  refine ⟨{ block := chunks.flatten, width := w, size := values.length }, ?_, ?_, ?_⟩
  · unfold Decoder.unmarshal
    rw [if_neg (by rw [hdlen]; omega)]
    rw [henc] at hdlen ⊢
    simp only [huv]
    rw [if_neg (by omega), if_neg (by omega)]
    congr 2
    rw [hdlen.symm, List.take_length, Nat.add_comm 1 L, List.drop_succ_cons, ← hLdef, List.drop_left]
  · unfold Decoder.count; simp; omega
  · intro i
    unfold Decoder.get
    simp only
    by_cases hi : i < values.length
    · have hvn : 0 < values.length := by omega
      have hpos : 0 < values.length * w := Nat.mul_pos hvn hw1
      have hs : i * w + w ≤ values.length * w := by
        have : (i + 1) * w ≤ values.length * w := Nat.mul_le_mul_right w hi
        rw [Nat.add_mul] at this; omega
      rw [if_neg (by rw [hblen]; omega), if_neg (by rw [hblen]; omega)]
      have hci : chunks[i]? = some (leBytes w values[i]) := by simp [chunks, hi]
      rw [drop_take_flatten_chunks chunks w i _ hcl hci]
      rw [leVal_leBytes_of_lt w _ (by have := hle values[i] (List.getElem_mem hi); omega)]
      simp [hi]
    · have : values.length * w ≤ i * w := Nat.mul_le_mul_right w (by omega)
      rw [if_pos (by rw [hblen]; omega)]
      simp [hi]

variable {B : Type}

/-- the contract of the roaring bitmap as lindb uses it, in terms of the ascending list of its
members (`toList` = what `Iterator()` yields). Keys are uint32. -/
structure KeySetOps.Lawful (K : KeySetOps B) : Prop where
  toList_empty : K.toList K.empty = []
  toList_add_max : ∀ b k, (∀ x ∈ K.toList b, x < k) → K.toList (K.add b k) = K.toList b ++ [k]
  contains_iff : ∀ b k, K.contains b k = true ↔ k ∈ K.toList b
  rank_eq : ∀ b k, K.rank b k = (K.toList b).countP (fun x => decide (x ≤ k))
  card_eq : ∀ b, K.card b = (K.toList b).length
  isEmpty_eq : ∀ b, K.isEmpty b = (K.toList b).isEmpty
  unmarshal_marshal : ∀ b rest, (∀ x ∈ K.toList b, x < 4294967296) →
    ∃ b', K.unmarshal (K.marshal b ++ rest) = some b' ∧ K.toList b' = K.toList b

/-! ## specification side: which entries a builder accepts, where their blocks start -/

/-- `ensureIncreasingKey` on the list of entries accepted so far -/
def acceptStep (es : List (Nat × Bytes)) (e : Nat × Bytes) : List (Nat × Bytes) :=
  match es.getLast? with
  | none => es ++ [e]
  | some l => if e.1 ≤ l.1 then es else es ++ [e]

/-- the entries of an input sequence that the builder keeps: the first one, then every entry whose
key is larger than the last kept key -/
def accepted (l : List (Nat × Bytes)) : List (Nat × Bytes) := l.foldl acceptStep []

/-- start offsets of consecutive blocks -/
def startsFrom : Nat → List Bytes → List Nat
  | _, [] => []
  | o, v :: t => o :: startsFrom (o + v.length) t

theorem startsFrom_append : ∀ (vs : List Bytes) (o : Nat) (v : Bytes),
    startsFrom o (vs ++ [v]) = startsFrom o vs ++ [o + vs.flatten.length] := by
  intro vs
  induction vs with
  | nil => intro o v; simp [startsFrom]
  | cons a t ih => intro o v; simp [startsFrom, ih, Nat.add_assoc]

theorem startsFrom_length : ∀ (vs : List Bytes) (o : Nat), (startsFrom o vs).length = vs.length := by
  intro vs; induction vs with
  | nil => intro o; rfl
  | cons a t ih => intro o; simp [startsFrom, ih]

theorem startsFrom_bounds : ∀ (vs : List Bytes) (o : Nat), ∀ x ∈ startsFrom o vs, o ≤ x ∧ x ≤ o + vs.flatten.length := by
  intro vs; induction vs with
  | nil => intro o x hx; simp [startsFrom] at hx
  | cons a t ih =>
    intro o x hx
    simp only [startsFrom, List.mem_cons] at hx
    rcases hx with rfl | hx
    · simp
    · have := ih _ x hx
      simp only [List.flatten_cons, List.length_append]; omega

/-- block i of the concatenation lies between start i and start i+1 (or the end) -/
theorem starts_block : ∀ (vs : List Bytes) (o i : Nat) (v : Bytes), vs[i]? = some v →
    ∃ s, (startsFrom o vs)[i]? = some s ∧ o ≤ s ∧
      (match (startsFrom o vs)[i + 1]? with | some e => e | none => o + vs.flatten.length) = s + v.length ∧
      ((vs.flatten).drop (s - o)).take v.length = v := by
  intro vs
  induction vs with
  | nil => intro o i v h; simp at h
  | cons a t ih =>
    intro o i v h
    cases i with
    | zero =>
      simp at h; subst h
      refine ⟨o, by simp [startsFrom], Nat.le_refl _, ?_, ?_⟩
      · cases t with
        | nil => simp [startsFrom]
        | cons b t' => simp [startsFrom]
      · simp
    | succ i =>
      simp only [List.getElem?_cons_succ] at h
      obtain ⟨s, h1, h2, h3, h4⟩ := ih (o + a.length) i v h
      refine ⟨s, by simpa [startsFrom] using h1, by omega, ?_, ?_⟩
      · simp only [startsFrom, List.getElem?_cons_succ, List.flatten_cons, List.length_append]
        rw [← h3]
        cases (startsFrom (o + a.length) t)[i + 1]? <;> simp <;> omega
      · have e : s - o = a.length + (s - (o + a.length)) := by omega
        rw [List.flatten_cons, e, ← List.drop_drop, List.drop_left]
        exact h4

/-! ## the builder invariant -/

/-- builder state `b` holds exactly the accepted entries `es`, plus `extra` bytes already written
for an entry that is not yet registered (a stream write in progress) -/
structure Pre (K : KeySetOps B) (b : Builder B) (es : List (Nat × Bytes)) (extra : Bytes) : Prop where
  written : b.written = (es.map (·.2)).flatten ++ extra
  size : b.size = b.written.length
  offsets : b.offsets = startsFrom 0 (es.map (·.2))
  offMax : (∀ o ∈ b.offsets, o ≤ b.offMax) ∧ b.offMax ≤ (es.map (·.2)).flatten.length
  keys : K.toList b.keys = es.map (·.1)
  asc : (es.map (·.1)).Pairwise (· < ·)
  first : b.first = es.isEmpty
  minKey : ∀ e, es.head? = some e → b.minKey = e.1
  maxKey : ∀ e, es.getLast? = some e → b.maxKey = e.1
  offMaxEq : b.offMax = b.offsets.foldl Nat.max 0
  keysVal : b.keys = (es.map (·.1)).foldl K.add K.empty

/-- between operations: no stream write in progress -/
structure Inv (K : KeySetOps B) (b : Builder B) (es : List (Nat × Bytes)) : Prop where
  pre : Pre K b es []
  closedSW : b.sw.badKey = true

theorem inv_init (K : KeySetOps B) (hK : K.Lawful) : Inv K (Builder.init K) [] := by
  refine ⟨⟨?_, ?_, ?_, ?_, ?_, ?_, ?_, ?_, ?_, ?_, ?_⟩, rfl⟩ <;>
    simp [Builder.init, Builder.written, Builder.offsets, startsFrom, hK.toList_empty]

/-- which keys pass `ensureIncreasingKey` -/
def Fresh (es : List (Nat × Bytes)) (k : Nat) : Prop := ∀ l, es.getLast? = some l → l.1 < k

theorem ensure_iff {K : KeySetOps B} {b : Builder B} {es : List (Nat × Bytes)} {extra : Bytes}
    (h : Pre K b es extra) (k : Nat) : b.ensureIncreasingKey k = true ↔ Fresh es k := by
  unfold Builder.ensureIncreasingKey Fresh
  rw [h.first]
  cases hl : es.getLast? with
  | none =>
    have : es = [] := List.getLast?_eq_none_iff.mp hl
    subst this; simp
  | some l =>
    have hne : es ≠ [] := by intro h; subst h; simp at hl
    have : es.isEmpty = false := by cases es <;> simp_all
    rw [this, h.maxKey l hl]
    by_cases hk : k ≤ l.1
    · simp [hk]
    · simp [hk]; omega

theorem acceptStep_fresh {es : List (Nat × Bytes)} {e : Nat × Bytes} (h : Fresh es e.1) :
    acceptStep es e = es ++ [e] := by
  unfold acceptStep
  cases hl : es.getLast? with
  | none => rfl
  | some l => have := h l hl; simp; omega

theorem acceptStep_stale {es : List (Nat × Bytes)} {e : Nat × Bytes} (h : ¬ Fresh es e.1) :
    acceptStep es e = es := by
  unfold acceptStep
  cases hl : es.getLast? with
  | none => exfalso; apply h; intro l hl'; rw [hl] at hl'; cases hl'
  | some l =>
    simp only
    rw [if_pos]
    apply Classical.byContradiction
    intro hn; apply h; intro l' hl'; rw [hl] at hl'; cases hl'; omega

theorem write_pre {K : KeySetOps B} {b : Builder B} {es : List (Nat × Bytes)} {extra : Bytes}
    (h : Pre K b es extra) (d : Bytes) : Pre K (b.write d) es (extra ++ d) := by
  have hw : (b.write d).written = b.written ++ d := by
    simp [Builder.write, Builder.written]
  refine ⟨?_, ?_, h.offsets, h.offMax, h.keys, h.asc, h.first, h.minKey, h.maxKey, h.offMaxEq, h.keysVal⟩
  · rw [hw, h.written, List.append_assoc]
  · rw [hw]; simp [Builder.write, h.size]

theorem fresh_all_lt {es : List (Nat × Bytes)} {k : Nat} (hasc : (es.map (·.1)).Pairwise (· < ·))
    (hf : Fresh es k) : ∀ x ∈ es.map (·.1), x < k := by
  rcases List.eq_nil_or_concat es with rfl | ⟨init, l, rfl⟩
  · intro x hx; simp at hx
  · intro x hx
    have hl := hf l (by simp)
    simp only [List.concat_eq_append, List.map_append, List.map_cons, List.map_nil] at hasc hx
    rcases List.mem_append.mp hx with hx | hx
    · have := (List.pairwise_append.mp hasc).2.2 x hx l.1 (by simp)
      omega
    · simp at hx; omega

/-- `afterWrite` registering the entry whose bytes are the pending `extra` -/
theorem afterWrite_pre {K : KeySetOps B} (hK : K.Lawful) {b : Builder B} {es : List (Nat × Bytes)}
    {extra : Bytes} (h : Pre K b es extra) (k : Nat) (hf : Fresh es k) :
    ∃ b', b.afterWrite K k (es.map (·.2)).flatten.length = some b' ∧
      Pre K b' (es ++ [(k, extra)]) [] ∧ b'.sw = b.sw := by
  generalize hoff : (es.map (·.2)).flatten.length = off
  have hall := fresh_all_lt h.asc hf
  have hnp : b.afterWrite K k off = some (b.register K k off) := by
    unfold Builder.afterWrite
    cases hr : b.offsRev with
    | nil => rfl
    | cons last t =>
      simp only
      rw [if_neg]
      have : last ∈ b.offsets := by simp [Builder.offsets, hr]
      have := h.offMax.1 last this
      have := h.offMax.2
      omega
  refine ⟨_, hnp, ?_, rfl⟩
  have hoffs : (b.register K k off).offsets = b.offsets ++ [off] := by
    simp [Builder.register, Builder.offsets]
  refine ⟨?_, ?_, ?_, ?_, ?_, ?_, ?_, ?_, ?_, ?_, ?_⟩
  · show b.written = _
    rw [h.written]; simp
  · exact h.size
  · rw [hoffs, h.offsets]
    simp only [List.map_append, List.map_cons, List.map_nil]
    rw [startsFrom_append, Nat.zero_add, hoff]
  · constructor
    · intro o ho
      rw [hoffs] at ho
      show o ≤ (if b.offMax < off then off else b.offMax)
      rcases List.mem_append.mp ho with ho | ho
      · have := h.offMax.1 o ho; split <;> omega
      · simp at ho; subst ho; split <;> omega
    · show (if b.offMax < off then off else b.offMax) ≤ _
      have := h.offMax.2
      simp only [List.map_append, List.map_cons, List.map_nil, List.flatten_append, List.length_append]
      rw [hoff]; split <;> omega
  · show K.toList (K.add b.keys k) = _
    rw [hK.toList_add_max b.keys k (by rw [h.keys]; exact hall), h.keys]; simp
  · simp only [List.map_append, List.map_cons, List.map_nil]
    apply List.pairwise_append.mpr
    refine ⟨h.asc, by simp, ?_⟩
    intro x hx y hy
    simp at hy; subst hy
    exact hall x hx
  · show false = _
    simp
  · intro e he
    show (if b.first then k else b.minKey) = e.1
    rw [h.first]
    cases es with
    | nil => simp at he; subst he; simp
    | cons e0 t =>
      simp at he; subst he
      simp; exact h.minKey e0 rfl
  · intro e he
    show k = e.1
    simp at he; subst he; rfl
  · rw [hoffs, List.foldl_append]
    show (if b.offMax < off then off else b.offMax) = _
    rw [← h.offMaxEq]
    simp only [List.foldl_cons, List.foldl_nil, Nat.max_def]
    split <;> split <;> omega
  · show K.add b.keys k = _
    rw [h.keysVal]; simp [List.foldl_append]

/-- `Add` = `acceptStep` on the accepted entries -/
theorem add_inv {K : KeySetOps B} (hK : K.Lawful) {b : Builder B} {es : List (Nat × Bytes)}
    (h : Inv K b es) (k : Nat) (v : Bytes) :
    ∃ b', b.add K k v = some b' ∧ Inv K b' (acceptStep es (k, v)) := by
  by_cases hf : Fresh es k
  · have he : b.ensureIncreasingKey k = true := (ensure_iff h.pre k).mpr hf
    have hp := write_pre h.pre v
    have hsz : b.size = (es.map (·.2)).flatten.length := by
      rw [h.pre.size, h.pre.written]; simp
    obtain ⟨b', h1, h2, h3⟩ := afterWrite_pre hK hp k hf
    refine ⟨b', ?_, ?_⟩
    · unfold Builder.add; simp only [he, Bool.not_true, Bool.false_eq_true, if_false]
      rw [hsz]; exact h1
    · rw [acceptStep_fresh (e := (k, v)) hf]
      simp only [List.nil_append] at h2
      exact ⟨h2, by rw [h3]; exact h.closedSW⟩
  · have he : b.ensureIncreasingKey k = false := by
      cases hb : b.ensureIncreasingKey k with
      | false => rfl
      | true => exact absurd ((ensure_iff h.pre k).mp hb) hf
    refine ⟨b, ?_, ?_⟩
    · unfold Builder.add; simp [he]
    · rw [acceptStep_stale (e := (k, v)) hf]; exact h

theorem run_append (K : KeySetOps B) : ∀ (l1 l2 : List Op) (b : Builder B),
    Builder.run K b (l1 ++ l2) = (Builder.run K b l1).bind (fun b' => Builder.run K b' l2) := by
  intro l1
  induction l1 with
  | nil => intro l2 b; rfl
  | cons op t ih =>
    intro l2 b
    simp only [List.cons_append, Builder.run]
    cases b.step K op with
    | none => rfl
    | some b' => exact ih l2 b'

/-- stream writes while a good key is prepared: bytes pile up, nothing else moves -/
theorem run_writes_open {K : KeySetOps B} {es : List (Nat × Bytes)} : ∀ (ds : List Bytes) (b : Builder B)
    (extra : Bytes) (rest : List Op), Pre K b es extra → b.sw.badKey = false →
    ∃ b', Builder.run K b (ds.map Op.write ++ rest) = Builder.run K b' rest ∧
      Pre K b' es (extra ++ ds.flatten) ∧ b'.sw.badKey = false ∧ b'.sw.key = b.sw.key ∧
      b'.sw.offset = b.sw.offset := by
  intro ds
  induction ds with
  | nil => intro b extra rest h hb; exact ⟨b, rfl, by simpa using h, hb, rfl, rfl⟩
  | cons d t ih =>
    intro b extra rest h hb
    have hstep : b.step K (.write d) = some ({ (b.write d) with sw := { (b.write d).sw with size := (b.write d).sw.size + d.length } }) := by
      simp [Builder.step, Builder.swWrite, hb]
    have hp : Pre K ({ (b.write d) with sw := { (b.write d).sw with size := (b.write d).sw.size + d.length } }) es (extra ++ d) := by
      have := write_pre h d
      exact ⟨this.written, this.size, this.offsets, this.offMax, this.keys, this.asc, this.first, this.minKey, this.maxKey, this.offMaxEq, this.keysVal⟩
    obtain ⟨b', h1, h2, h3, h4, h5⟩ := ih _ (extra ++ d) rest hp (by simpa [Builder.write] using hb)
    refine ⟨b', ?_, ?_, h3, ?_, ?_⟩
    · simp only [List.map_cons, List.cons_append, Builder.run, hstep]; exact h1
    · simpa [List.append_assoc] using h2
    · rw [h4]; rfl
    · rw [h5]; rfl

/-- stream writes after a rejected `Prepare` (or with no stream open) are ignored -/
theorem run_writes_closed {K : KeySetOps B} : ∀ (ds : List Bytes) (b : Builder B) (rest : List Op),
    b.sw.badKey = true → Builder.run K b (ds.map Op.write ++ rest) = Builder.run K b rest := by
  intro ds
  induction ds with
  | nil => intro b rest _; rfl
  | cons d t ih =>
    intro b rest hb
    have hstep : b.step K (.write d) = some b := by simp [Builder.step, Builder.swWrite, hb]
    simp only [List.map_cons, List.cons_append, Builder.run, hstep]
    exact ih b rest hb

/-- `Prepare(k); Write(d₁) … Write(dₙ); Commit()` = `acceptStep` with the concatenated bytes -/
theorem stream_inv {K : KeySetOps B} (hK : K.Lawful) {b : Builder B} {es : List (Nat × Bytes)}
    (h : Inv K b es) (k : Nat) (ds : List Bytes) :
    ∃ b', Builder.run K b (Op.prepare k :: (ds.map Op.write ++ [Op.commit])) = some b' ∧
      Inv K b' (acceptStep es (k, ds.flatten)) := by
  have hsz : b.size = (es.map (·.2)).flatten.length := by
    rw [h.pre.size, h.pre.written]; simp
  have hpp : Pre K (b.prepare k) es [] :=
    ⟨h.pre.written, h.pre.size, h.pre.offsets, h.pre.offMax, h.pre.keys, h.pre.asc, h.pre.first,
      h.pre.minKey, h.pre.maxKey, h.pre.offMaxEq, h.pre.keysVal⟩
  simp only [Builder.run, Builder.step]
  by_cases hf : Fresh es k
  · have he : b.ensureIncreasingKey k = true := (ensure_iff h.pre k).mpr hf
    have hbk : (b.prepare k).sw.badKey = false := by simp [Builder.prepare, he]
    obtain ⟨b2, h1, h2, h3, h4, h5⟩ := run_writes_open ds (b.prepare k) [] [Op.commit] hpp hbk
    simp only [List.nil_append] at h2
    obtain ⟨b3, h6, h7, h8⟩ := afterWrite_pre hK h2 k hf
    have hk : b2.sw.key = k := by rw [h4]; rfl
    have ho : b2.sw.offset = (es.map (·.2)).flatten.length := by rw [h5, ← hsz]; rfl
    refine ⟨{ b3 with sw := { b3.sw with badKey := true } }, ?_, ?_⟩
    · rw [h1]
      simp only [Builder.run, Builder.step, Builder.commit, h3, Bool.false_eq_true, if_false, hk, ho, h6]
    · rw [acceptStep_fresh (e := (k, ds.flatten)) hf]
      exact ⟨⟨h7.written, h7.size, h7.offsets, h7.offMax, h7.keys, h7.asc, h7.first, h7.minKey, h7.maxKey, h7.offMaxEq, h7.keysVal⟩, rfl⟩
  · have he : b.ensureIncreasingKey k = false := by
      cases hb : b.ensureIncreasingKey k with
      | false => rfl
      | true => exact absurd ((ensure_iff h.pre k).mp hb) hf
    have hbk : (b.prepare k).sw.badKey = true := by simp [Builder.prepare, he]
    refine ⟨b.prepare k, ?_, ?_⟩
    · rw [run_writes_closed ds (b.prepare k) [Op.commit] hbk]
      simp [Builder.run, Builder.step, Builder.commit, hbk]
    · rw [acceptStep_stale (e := (k, ds.flatten)) hf]
      exact ⟨hpp, hbk⟩

/-- well-formed use of the builder: plain adds and complete stream writes -/
inductive Put where
  | add (key : Nat) (value : Bytes)
  | stream (key : Nat) (chunks : List Bytes)

def Put.ops : Put → List Op
  | .add k v => [.add k v]
  | .stream k ds => .prepare k :: (ds.map .write ++ [.commit])

/-- the entry an item stands for: a stream write is the concatenation of its chunks -/
def Put.entry : Put → Nat × Bytes
  | .add k v => (k, v)
  | .stream k ds => (k, ds.flatten)

theorem items_inv {K : KeySetOps B} (hK : K.Lawful) : ∀ (items : List Put) {b : Builder B} {es : List (Nat × Bytes)},
    Inv K b es → ∃ b', Builder.run K b (items.flatMap Put.ops) = some b' ∧
      Inv K b' ((items.map Put.entry).foldl acceptStep es) := by
  intro items
  induction items with
  | nil => intro b es h; exact ⟨b, rfl, h⟩
  | cons it t ih =>
    intro b es h
    simp only [List.flatMap_cons, List.map_cons, List.foldl_cons, run_append]
    cases it with
    | add k v =>
      obtain ⟨b1, h1, h2⟩ := add_inv hK h k v
      obtain ⟨b2, h3, h4⟩ := ih h2
      refine ⟨b2, ?_, h4⟩
      simp only [Put.ops, Builder.run, Builder.step, h1, Option.bind]
      exact h3
    | stream k ds =>
      obtain ⟨b1, h1, h2⟩ := stream_inv hK h k ds
      obtain ⟨b2, h3, h4⟩ := ih h2
      refine ⟨b2, ?_, h4⟩
      simp only [Put.ops, h1, Option.bind]
      exact h3

/-! ## Close → file → reader -/

/-- what a reader knows, in terms of the entries of the table -/
structure TableRepr (K : KeySetOps B) (r : Reader B) (es : List (Nat × Bytes)) : Prop where
  keys : K.toList r.keys = es.map (·.1)
  asc : (es.map (·.1)).Pairwise (· < ·)
  offs : ∀ i, r.offsets.get i = (startsFrom 0 (es.map (·.2)))[i]?
  entries : r.entries = (es.map (·.2)).flatten

theorem footer_length (p1 p2 : Nat) : (footer p1 p2).length = sstFileFooterSize := by
  simp [footer, leBytes, sstFileFooterSize]

theorem footer_pos1 (p1 p2 : Nat) : (footer p1 p2).take 4 = leBytes 4 p1 := by
  simp [footer, leBytes]

theorem footer_pos2 (p1 p2 : Nat) : ((footer p1 p2).drop 4).take 4 = leBytes 4 p2 := by
  simp [footer, leBytes]

theorem footer_magic (p1 p2 : Nat) :
    ((footer p1 p2).drop magicNumberAtFooter).take 8 = leBytes 8 magicNumberOffsetFile := by
  simp [footer, leBytes, magicNumberAtFooter]

theorem encodeOffsets_length_ge (values : List Nat) (max : Nat) :
    values.length ≤ (encodeOffsets values max).length := by
  unfold encodeOffsets
  cases values with
  | nil => simp
  | cons a t =>
    simp only [List.isEmpty_cons, Bool.false_eq_true, if_false, List.length_append]
    have hw := minWidth_pos (u32 max)
    have : ∀ (l : List Nat), l.length ≤ (l.flatMap (fun v => (leBytes 4 (u32 v)).take (minWidth (u32 max)))).length := by
      intro l
      induction l with
      | nil => simp
      | cons x xs ih =>
        simp only [List.flatMap_cons, List.length_append, List.length_cons, List.length_take, leBytes_length]
        have := minWidth_le_four (u32 max)
        omega
    have := this (a :: t)
    omega


theorem magic_lt : magicNumberOffsetFile < 256 ^ 8 := by decide

/-- a file written by `Close` is accepted by the reader, which then holds exactly the entries -/
theorem close_open {K : KeySetOps B} (hK : K.Lawful) {b : Builder B} {es : List (Nat × Bytes)}
    (h : Inv K b es) (hne : es ≠ [])
    (hkeys : ∀ e ∈ es, e.1 < 4294967296)
    (hsize : b.size + (encodeOffsets b.offsets b.offMax).length < 4294967296) :
    ∃ file r, b.close K = some file ∧ Reader.open K file = some r ∧ TableRepr K r es := by
  have hp := h.pre
  have hW : b.written = (es.map (·.2)).flatten := by simpa using hp.written
  have hWl : b.written.length = b.size := hp.size.symm
  generalize hO : encodeOffsets b.offsets b.offMax = O at hsize
  generalize hKb : K.marshal b.keys = Kb
  have hnl : es.length ≠ 0 := by intro h0; exact hne (List.eq_nil_of_length_eq_zero h0)
  have hemp : K.isEmpty b.keys = false := by
    rw [hK.isEmpty_eq, hp.keys]; cases es <;> simp_all
  have hclose : b.close K = some (b.written ++ O ++ Kb ++ footer b.size (b.size + O.length)) := by
    unfold Builder.close; simp only [hemp, Bool.false_eq_true, if_false, hO, hKb]
  -- offsets decode
  have hoffne : b.offsets ≠ [] := by
    intro h0
    have := congrArg List.length hp.offsets
    rw [h0, startsFrom_length] at this; simp at this; exact hnl this.symm
  have hmax : b.offMax < 4294967296 := by
    have := hp.offMax.2; rw [← hW, hWl] at this; omega
  have hcnt : b.offsets.length ≤ O.length := by rw [← hO]; exact encodeOffsets_length_ge _ _
  obtain ⟨dec, hdec, hdcount, hdget⟩ := unmarshal_encodeOffsets b.offsets b.offMax hoffne hmax hp.offMax.1 (by omega)
  rw [hO] at hdec
  -- keys decode
  obtain ⟨keys', hku, hkl⟩ := hK.unmarshal_marshal b.keys (footer b.size (b.size + O.length))
    (by rw [hp.keys]; intro x hx; obtain ⟨e, he, rfl⟩ := List.mem_map.mp hx; exact hkeys e he)
  rw [hKb] at hku
  generalize hF : footer b.size (b.size + O.length) = F at hku hclose
  have hFl : F.length = 17 := by rw [← hF]; exact footer_length _ _
  refine ⟨_, { keys := keys', offsets := dec, entries := b.written }, hclose, ?_, ?_⟩
  · generalize hfull : b.written ++ O ++ Kb ++ F = full
    have hlen : full.length = b.size + O.length + Kb.length + 17 := by
      rw [← hfull]; simp [hWl, hFl]; omega
    have hfs : full.length - sstFileFooterSize = b.size + O.length + Kb.length := by
      rw [hlen]; simp [sstFileFooterSize]
    have hdropF : full.drop (b.size + O.length + Kb.length) = F := by
      rw [← hfull]; apply List.drop_left'; simp [hWl]; omega
    have e1 : leVal ((full.drop (b.size + O.length + Kb.length + magicNumberAtFooter)).take 8) = magicNumberOffsetFile := by
      rw [← List.drop_drop, hdropF, ← hF, footer_magic, leVal_leBytes_of_lt _ _ magic_lt]
    have e2 : leVal ((full.drop (b.size + O.length + Kb.length)).take 4) = b.size := by
      rw [hdropF, ← hF, footer_pos1, leVal_leBytes_of_lt]; omega
    have e3 : leVal ((full.drop (b.size + O.length + Kb.length + 4)).take 4) = b.size + O.length := by
      rw [← List.drop_drop, hdropF, ← hF, footer_pos2, leVal_leBytes_of_lt]; omega
    have e4 : (full.take (b.size + O.length)).drop b.size = O := by
      have : full = (b.written ++ O) ++ (Kb ++ F) := by rw [← hfull]; simp
      rw [this, List.take_left' (by simp [hWl]), List.drop_left' hWl]
    have e5 : full.drop (b.size + O.length) = Kb ++ F := by
      have : full = (b.written ++ O) ++ (Kb ++ F) := by rw [← hfull]; simp
      rw [this, List.drop_left' (by simp [hWl])]
    have e6 : full.take b.size = b.written := by
      have : full = b.written ++ (O ++ Kb ++ F) := by rw [← hfull]; simp
      rw [this, List.take_left' hWl]
    have e7 : dec.count = K.card keys' := by
      rw [hdcount, hK.card_eq, hkl, hp.keys, List.length_map]
      have := congrArg List.length hp.offsets
      rw [startsFrom_length, List.length_map] at this; exact this
    unfold Reader.open
    rw [if_neg (by rw [hlen]; simp [sstFileFooterSize])]
    simp only [hfs, e1, e2, e3, e4, e5, e6, hdec, hku]
    rw [if_neg (by simp), if_neg (by simp), if_neg (by simp [e7])]
  · exact ⟨by rw [hkl, hp.keys], hp.asc, fun i => by rw [hdget i, hp.offsets], hW⟩

theorem getBlock_repr {K : KeySetOps B} {r : Reader B} {es : List (Nat × Bytes)} (h : TableRepr K r es)
    (i : Nat) (e : Nat × Bytes) (he : es[i]? = some e) : r.offsets.getBlock i r.entries = some e.2 := by
  have hv : (es.map (·.2))[i]? = some e.2 := by simp [he]
  obtain ⟨s, h1, _, h3, h4⟩ := starts_block (es.map (·.2)) 0 i e.2 hv
  rw [Nat.sub_zero] at h4
  unfold Decoder.getBlock
  rw [h.offs i, h1]
  simp only [h.offs (i + 1)]
  cases hn : (startsFrom 0 (es.map (·.2)))[i + 1]? with
  | none =>
    rw [hn] at h3
    have h3' : 0 + (es.map (·.2)).flatten.length = s + e.2.length := h3
    simp only
    rw [h.entries, if_neg (by omega)]
    have : (es.map (·.2)).flatten.length - s = e.2.length := by omega
    rw [this, h4]
  | some x =>
    rw [hn] at h3
    have h3' : x = s + e.2.length := h3
    have hb := (startsFrom_bounds (es.map (·.2)) 0 x (List.mem_of_getElem? hn)).2
    simp only
    rw [h.entries, if_neg (by omega)]
    have : x - s = e.2.length := by omega
    rw [this, h4]

theorem countP_le_of_asc : ∀ (l : List Nat) (i k : Nat), l.Pairwise (· < ·) → l[i]? = some k →
    l.countP (fun x => decide (x ≤ k)) = i + 1 := by
  intro l
  induction l with
  | nil => intro i k _ h; simp at h
  | cons a t ih =>
    intro i k hp h
    obtain ⟨h1, h2⟩ := List.pairwise_cons.mp hp
    cases i with
    | zero =>
      simp at h; subst h
      have : t.countP (fun x => decide (x ≤ a)) = 0 := by
        apply List.countP_eq_zero.mpr
        intro x hx; have := h1 x hx; simp; omega
      simp [this]
    | succ i =>
      simp only [List.getElem?_cons_succ] at h
      have hak : a < k := h1 k (List.mem_of_getElem? h)
      rw [List.countP_cons, ih i k h2 h]
      simp; omega

/-- a key that was added is found with its exact bytes -/
theorem get_present {K : KeySetOps B} (hK : K.Lawful) {r : Reader B} {es : List (Nat × Bytes)}
    (h : TableRepr K r es) (e : Nat × Bytes) (he : e ∈ es) : r.get K e.1 = .ok e.2 := by
  obtain ⟨i, hi, hie⟩ := List.getElem_of_mem he
  have hget : es[i]? = some e := by rw [List.getElem?_eq_getElem hi, hie]
  have hk : (es.map (·.1))[i]? = some e.1 := by simp [hget]
  have hc : K.contains r.keys e.1 = true := by
    rw [hK.contains_iff, h.keys]; exact List.mem_map_of_mem he
  have hr : K.rank r.keys e.1 = i + 1 := by
    rw [hK.rank_eq, h.keys]; exact countP_le_of_asc _ i e.1 h.asc hk
  unfold Reader.get
  simp only [hc, Bool.not_true, Bool.false_eq_true, if_false, hr]
  rw [if_neg (by omega)]
  simp only [Nat.add_sub_cancel, getBlock_repr h i e hget]

/-- a key that was not added is reported absent -/
theorem get_absent {K : KeySetOps B} (hK : K.Lawful) {r : Reader B} {es : List (Nat × Bytes)}
    (h : TableRepr K r es) (k : Nat) (hk : ∀ e ∈ es, e.1 ≠ k) : r.get K k = .absent := by
  have hc : K.contains r.keys k = false := by
    cases hb : K.contains r.keys k with
    | false => rfl
    | true =>
      rw [hK.contains_iff, h.keys] at hb
      obtain ⟨e, he, hek⟩ := List.mem_map.mp hb
      exact absurd hek (hk e he)
  unfold Reader.get; simp [hc]

/-- the iterator delivers exactly the entries, in the order they were added -/
theorem iterate_eq {K : KeySetOps B} {r : Reader B} {es : List (Nat × Bytes)}
    (h : TableRepr K r es) : r.iterate K = es := by
  unfold Reader.iterate
  rw [h.keys]
  apply List.ext_getElem?
  intro i
  simp only [List.getElem?_map, List.getElem?_zipIdx, Nat.zero_add]
  cases hi : es[i]? with
  | none => simp
  | some e =>
    simp only [Option.map_some]
    rw [getBlock_repr h i e hi]

/-! ## min / max / count -/

theorem asc_bounds : ∀ (l : List Nat), l.Pairwise (· < ·) → ∀ x ∈ l,
    (∀ a, l.head? = some a → a ≤ x) ∧ (∀ z, l.getLast? = some z → x ≤ z) := by
  intro l hp x hx
  constructor
  · intro a ha
    cases l with
    | nil => simp at hx
    | cons a' t =>
      simp at ha; subst ha
      rcases List.mem_cons.mp hx with rfl | hx
      · exact Nat.le_refl _
      · exact Nat.le_of_lt ((List.pairwise_cons.mp hp).1 x hx)
  · intro z hz
    rcases List.eq_nil_or_concat l with rfl | ⟨init, z', rfl⟩
    · simp at hx
    · simp at hz; subst hz
      simp only [List.concat_eq_append] at hp hx
      rcases List.mem_append.mp hx with hx | hx
      · exact Nat.le_of_lt ((List.pairwise_append.mp hp).2.2 x hx z' (by simp))
      · simp at hx; omega

/-- MinKey / MaxKey / Count of a builder holding the entries `es` -/
theorem meta_of_inv {K : KeySetOps B} (hK : K.Lawful) {b : Builder B} {es : List (Nat × Bytes)}
    (h : Inv K b es) :
    b.count K = es.length ∧
    (∀ e, es.head? = some e → b.minKey = e.1) ∧
    (∀ e, es.getLast? = some e → b.maxKey = e.1) ∧
    (es ≠ [] → ∀ e ∈ es, b.minKey ≤ e.1 ∧ e.1 ≤ b.maxKey) := by
  refine ⟨?_, h.pre.minKey, h.pre.maxKey, ?_⟩
  · unfold Builder.count; rw [hK.card_eq, h.pre.keys, List.length_map]
  · intro hne e he
    have hb := asc_bounds (es.map (·.1)) h.pre.asc e.1 (List.mem_map_of_mem he)
    obtain ⟨e0, he0⟩ : ∃ e0, es.head? = some e0 := by cases es <;> simp_all
    obtain ⟨ez, hez⟩ : ∃ ez, es.getLast? = some ez := by
      cases hl : es.getLast? with
      | none => exact absurd (List.getLast?_eq_none_iff.mp hl) hne
      | some z => exact ⟨z, rfl⟩
    rw [h.pre.minKey e0 he0, h.pre.maxKey ez hez]
    exact ⟨hb.1 e0.1 (by simp [List.head?_map, he0]), hb.2 ez.1 (by simp [List.getLast?_map, hez])⟩

/-! ## the executable stand-in for the bitmap is lawful -/

theorem lksUnmarshal_enc : ∀ (l : List Nat) (acc : List Nat) (rest : Bytes), (∀ x ∈ l, x < 4294967296) →
    lksUnmarshal (l.flatMap (fun k => 1 :: leBytes 4 k) ++ 0 :: rest) acc = some (l.reverse ++ acc) := by
  intro l
  induction l with
  | nil => intro acc rest _; simp [lksUnmarshal]
  | cons k t ih =>
    intro acc rest h
    have hk : k < 256 ^ 4 := h k (List.mem_cons_self)
    have hv := leVal_leBytes_of_lt 4 k hk
    have hb : leBytes 4 k = [k % 256, k / 256 % 256, k / 256 / 256 % 256, k / 256 / 256 / 256 % 256] := rfl
    rw [hb] at hv
    rw [List.flatMap_cons, hb]
    simp only [List.cons_append, List.nil_append, lksUnmarshal, hv]
    rw [ih (k :: acc) rest (fun x hx => h x (List.mem_cons_of_mem _ hx))]
    simp

theorem listKeySet_lawful : listKeySet.Lawful where
  toList_empty := rfl
  toList_add_max b k h := by
    simp only [listKeySet] at h ⊢
    cases b with
    | nil => rfl
    | cons x t =>
      have : x < k := h x (by simp)
      simp [insertDesc, this]
  contains_iff b k := by simp [listKeySet]
  rank_eq b k := by simp [listKeySet]
  card_eq b := by simp [listKeySet]
  isEmpty_eq b := by simp [listKeySet]
  unmarshal_marshal b rest h := by
    simp only [listKeySet] at h ⊢
    refine ⟨b, ?_, rfl⟩
    rw [List.append_assoc]
    have := lksUnmarshal_enc b.reverse [] rest h
    simpa using this

/-! ## Version.FindFiles / Snapshot.Load -/

/-- value of `key` among the entries of one table -/
def lookup (key : Nat) (es : List (Nat × Bytes)) : Option Bytes :=
  (es.find? (fun e => e.1 = key)).map (·.2)

/-- every file of the version is a readable table holding the entries `ent f`, and its recorded
[minKey, maxKey] covers them (what `storeFlusher.Commit` records from the builder) -/
def VersionOK (K : KeySetOps B) (fs : Nat → Option Bytes) (files : List FileMeta)
    (ent : FileMeta → List (Nat × Bytes)) : Prop :=
  ∀ f ∈ files, ∃ bytes r, fs f.fileNumber = some bytes ∧ Reader.open K bytes = some r ∧
    TableRepr K r (ent f) ∧ ∀ e ∈ ent f, f.minKey ≤ e.1 ∧ e.1 ≤ f.maxKey

theorem findFiles_eq (levels : List (List FileMeta)) (key : Nat) :
    findFiles levels key = levels.flatten.filter (fun f => decide (key ≥ f.minKey ∧ key ≤ f.maxKey)) := by
  unfold findFiles
  induction levels with
  | nil => rfl
  | cons l t ih => rw [List.flatMap_cons, ih, List.flatten_cons, List.filter_append]

theorem loadFiles_spec {K : KeySetOps B} (hK : K.Lawful) (fs : Nat → Option Bytes)
    (ent : FileMeta → List (Nat × Bytes)) (key : Nat) : ∀ (files : List FileMeta),
    VersionOK K fs files ent →
    loadFiles K fs key (files.filter (fun f => decide (key ≥ f.minKey ∧ key ≤ f.maxKey))) =
      some (files.filterMap (fun f => lookup key (ent f))) := by
  intro files
  induction files with
  | nil => intro _; rfl
  | cons f rest ih =>
    intro hok
    have hrest : VersionOK K fs rest ent := fun g hg => hok g (List.mem_cons_of_mem _ hg)
    obtain ⟨bytes, r, hfs, hopen, hrepr, hrange⟩ := hok f (List.mem_cons_self)
    by_cases hin : key ≥ f.minKey ∧ key ≤ f.maxKey
    · rw [List.filter_cons_of_pos (by simpa using hin)]
      simp only [loadFiles, hfs, hopen]
      cases hfind : (ent f).find? (fun e => e.1 = key) with
      | none =>
        have hab : r.get K key = .absent := by
          apply get_absent hK hrepr
          intro e he hek
          have := List.find?_eq_none.mp hfind e he
          simp [hek] at this
        simp only [hab, ih hrest, List.filterMap_cons, lookup, hfind, Option.map_none]
      | some e =>
        have hek : e.1 = key := by simpa using List.find?_some hfind
        have hmem : e ∈ ent f := List.mem_of_find?_eq_some hfind
        have hpr : r.get K key = .ok e.2 := by rw [← hek]; exact get_present hK hrepr e hmem
        simp only [hpr, ih hrest, List.filterMap_cons, lookup, hfind, Option.map_some]
    · rw [List.filter_cons_of_neg (by simpa using hin)]
      have hnone : lookup key (ent f) = none := by
        unfold lookup
        cases hfind : (ent f).find? (fun e => e.1 = key) with
        | none => rfl
        | some e =>
          exfalso
          have hek : e.1 = key := by simpa using List.find?_some hfind
          have := hrange e (List.mem_of_find?_eq_some hfind)
          rw [hek] at this; exact hin this
      simp only [List.filterMap_cons, hnone]
      exact ih hrest

/-! ## facts about `accepted` -/

theorem foldl_acceptStep_subset : ∀ (l es : List (Nat × Bytes)), ∀ e ∈ l.foldl acceptStep es, e ∈ es ∨ e ∈ l := by
  intro l
  induction l with
  | nil => intro es e he; exact Or.inl he
  | cons a t ih =>
    intro es e he
    simp only [List.foldl_cons] at he
    rcases ih _ e he with h | h
    · unfold acceptStep at h
      split at h
      · rcases List.mem_append.mp h with h | h
        · exact Or.inl h
        · simp at h; subst h; exact Or.inr (List.mem_cons_self)
      · split at h
        · exact Or.inl h
        · rcases List.mem_append.mp h with h | h
          · exact Or.inl h
          · simp at h; subst h; exact Or.inr (List.mem_cons_self)
    · exact Or.inr (List.mem_cons_of_mem _ h)

theorem accepted_subset (l : List (Nat × Bytes)) : ∀ e ∈ accepted l, e ∈ l := by
  intro e he
  rcases foldl_acceptStep_subset l [] e he with h | h
  · simp at h
  · exact h

theorem acceptStep_ne_nil (es : List (Nat × Bytes)) (e : Nat × Bytes) : acceptStep es e ≠ [] := by
  unfold acceptStep
  cases hl : es.getLast? with
  | none => simp
  | some l =>
    simp only
    split
    · intro h; subst h; simp at hl
    · simp

theorem foldl_acceptStep_ne_nil : ∀ (l es : List (Nat × Bytes)), es ≠ [] → l.foldl acceptStep es ≠ [] := by
  intro l
  induction l with
  | nil => intro es h; exact h
  | cons a t ih => intro es _; exact ih _ (acceptStep_ne_nil es a)

theorem accepted_ne_nil (l : List (Nat × Bytes)) (h : l ≠ []) : accepted l ≠ [] := by
  cases l with
  | nil => exact absurd rfl h
  | cons a t => exact foldl_acceptStep_ne_nil t _ (acceptStep_ne_nil [] a)

/-- a strictly ascending input is accepted whole -/
theorem foldl_acceptStep_asc : ∀ (l es : List (Nat × Bytes)),
    ((es ++ l).map (·.1)).Pairwise (· < ·) → l.foldl acceptStep es = es ++ l := by
  intro l
  induction l with
  | nil => intro es _; simp
  | cons a t ih =>
    intro es hp
    have hf : Fresh es a.1 := by
      intro z hz
      have hzm : z ∈ es := List.mem_of_getLast? hz
      simp only [List.map_append, List.map_cons] at hp
      exact (List.pairwise_append.mp hp).2.2 z.1 (List.mem_map_of_mem hzm) a.1 (by simp)
    simp only [List.foldl_cons]
    rw [acceptStep_fresh hf, ih (es ++ [a]) (by simpa using hp)]
    simp

theorem accepted_of_asc (l : List (Nat × Bytes)) (h : (l.map (·.1)).Pairwise (· < ·)) : accepted l = l := by
  have := foldl_acceptStep_asc l [] (by simpa using h)
  simpa [accepted] using this

/-- an entry whose key is not above the last accepted key changes nothing, wherever it occurs -/
theorem accepted_skip (l1 l2 : List (Nat × Bytes)) (e : Nat × Bytes) (h : ¬ Fresh (accepted l1) e.1) :
    accepted (l1 ++ e :: l2) = accepted (l1 ++ l2) := by
  unfold accepted at *
  rw [List.foldl_append, List.foldl_append, List.foldl_cons, acceptStep_stale h]

/-! ## the file is a function of the accepted entries -/

theorem close_eq_of_inv {K : KeySetOps B} {b1 b2 : Builder B} {es : List (Nat × Bytes)}
    (h1 : Inv K b1 es) (h2 : Inv K b2 es) : b1.close K = b2.close K := by
  have hw : b1.written = b2.written := by rw [h1.pre.written, h2.pre.written]
  have hs : b1.size = b2.size := by rw [h1.pre.size, h2.pre.size, hw]
  have ho : b1.offsets = b2.offsets := by rw [h1.pre.offsets, h2.pre.offsets]
  have hm : b1.offMax = b2.offMax := by rw [h1.pre.offMaxEq, h2.pre.offMaxEq, ho]
  have hk : b1.keys = b2.keys := by rw [h1.pre.keysVal, h2.pre.keysVal]
  unfold Builder.close
  rw [hw, hs, ho, hm, hk]

/-- sufficient size condition for the 32-bit footer fields: value bytes + offset table < 4 GiB -/
def SizeOK (es : List (Nat × Bytes)) : Prop :=
  (es.map (·.2)).flatten.length + 4 * es.length + 12 < 4294967296

theorem putUvarintAux_length_le : ∀ (f x : Nat), (putUvarintAux f x).length ≤ f + 1 := by
  intro f; induction f with
  | zero => intro x; simp [putUvarintAux]
  | succ f ih =>
    intro x; simp only [putUvarintAux]; split
    · simp
    · simp only [List.length_cons]; have := ih (x / 128); omega

theorem encodeOffsets_length_le (values : List Nat) (max : Nat) :
    (encodeOffsets values max).length ≤ 12 + 4 * values.length := by
  unfold encodeOffsets
  split
  · simp
  · simp only [List.length_append, List.length_cons, List.length_nil]
    have h1 := putUvarintAux_length_le 10 values.length
    have h2 : ∀ (l : List Nat), (l.flatMap (fun v => (leBytes 4 (u32 v)).take (minWidth (u32 max)))).length ≤ 4 * l.length := by
      intro l
      induction l with
      | nil => simp
      | cons x xs ih =>
        simp only [List.flatMap_cons, List.length_append, List.length_cons, List.length_take, leBytes_length]
        omega
    have := h2 values
    unfold putUvarint
    omega

/-- any well-formed use of the builder ends in a state holding the accepted entries; if there is
at least one item the file is written and the reader opened on it holds exactly those entries -/
theorem build_ok {K : KeySetOps B} (hK : K.Lawful) (items : List Put) :
    ∃ b, Builder.run K (Builder.init K) (items.flatMap Put.ops) = some b ∧
      Inv K b (accepted (items.map Put.entry)) ∧
      (items ≠ [] → (∀ it ∈ items, it.entry.1 < 4294967296) → SizeOK (accepted (items.map Put.entry)) →
        ∃ file r, b.close K = some file ∧ Reader.open K file = some r ∧
          TableRepr K r (accepted (items.map Put.entry))) := by
  obtain ⟨b, hrun, hinv0⟩ := items_inv hK items (inv_init K hK)
  have hinv : Inv K b (accepted (items.map Put.entry)) := hinv0
  refine ⟨b, hrun, hinv, ?_⟩
  intro hne hkeys hsz
  have hane : accepted (items.map Put.entry) ≠ [] := accepted_ne_nil _ (by simpa using hne)
  apply close_open hK hinv hane
  · intro e he
    have := accepted_subset _ e he
    obtain ⟨it, hit, rfl⟩ := List.mem_map.mp this
    exact hkeys it hit
  · have h1 : b.size = ((accepted (items.map Put.entry)).map (·.2)).flatten.length := by
      rw [hinv.pre.size, hinv.pre.written]; simp
    have h2 := encodeOffsets_length_le b.offsets b.offMax
    have h3 : b.offsets.length = (accepted (items.map Put.entry)).length := by
      rw [hinv.pre.offsets, startsFrom_length, List.length_map]
    unfold SizeOK at hsz
    omega

end LinVerif.Table
