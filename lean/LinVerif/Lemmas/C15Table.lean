/-
C15 — lemmas about the table model: little-endian / uvarint round trips, the fixed-width offset
table, the builder invariant, and the reader on a file produced by the builder.
-/
import LinVerif.Model.Table
import LinVerif.Lemmas.C14FixedOffset
set_option linter.unusedSimpArgs false
namespace LinVerif.Table

theorem leBytes_length : ∀ (w v : Nat), (leBytes w v).length = w := by
  intro w; induction w with
  | zero => intro v; rfl
  | succ w ih => intro v; simp [leBytes, ih]

theorem leVal_leBytes : ∀ (w v : Nat), leVal (leBytes w v) = v % 256 ^ w := by
  intro w; induction w with
  | zero => intro v; simp [leBytes, leVal, Nat.mod_one]
  | succ w ih =>
    intro v
    simp only [leBytes, leVal, ih]
    rw [Nat.pow_succ, Nat.mul_comm (256 ^ w) 256, Nat.mod_mul]

theorem leVal_leBytes_of_lt (w v : Nat) (h : v < 256 ^ w) : leVal (leBytes w v) = v := by
  rw [leVal_leBytes, Nat.mod_eq_of_lt h]

theorem leBytes_take : ∀ (w' w v : Nat), w ≤ w' → (leBytes w' v).take w = leBytes w v := by
  intro w'; induction w' with
  | zero => intro w v h; have : w = 0 := by omega
            subst this; rfl
  | succ w' ih =>
    intro w v h
    cases w with
    | zero => rfl
    | succ w => simp [leBytes, ih w (v / 256) (by omega)]

theorem leBytes_byte_lt : ∀ (w v : Nat), ∀ b ∈ leBytes w v, b < 256 := by
  intro w; induction w with
  | zero => intro v b hb; simp [leBytes] at hb
  | succ w ih =>
    intro v b hb
    simp only [leBytes, List.mem_cons] at hb
    rcases hb with rfl | hb
    · exact Nat.mod_lt _ (by decide)
    · exact ih _ b hb

variable {B : Type}

/-- the contract of the roaring bitmap as lindb uses it, in terms of the ascending list of its
members (`toList` = what `Iterator()` yields). Keys are uint32. -/
structure KeySetOps.Lawful (K : KeySetOps B) : Prop where
  toList_empty : K.toList K.empty = []
  toList_add_max : ∀ b k, (∀ x ∈ K.toList b, x < k) → K.toList (K.add b k) = K.toList b ++ [k]
  contains_iff : ∀ b k, K.contains b k = true ↔ k ∈ K.toList b
  rank_eq : ∀ b k, K.rank b k = (K.toList b).countP (fun x => decide (x ≤ k))
  card_eq : ∀ b, K.card b = (K.toList b).length
  isEmpty_eq : ∀ b, K.isEmpty b = (K.toList b).isEmpty
  unmarshal_marshal : ∀ b rest, (∀ x ∈ K.toList b, x < 4294967296) →
    ∃ b', K.unmarshal (K.marshal b ++ rest) = some b' ∧ K.toList b' = K.toList b

/-! ## specification side: which entries a builder accepts, where their blocks start -/

/-- `ensureIncreasingKey` on the list of entries accepted so far -/
def acceptStep (es : List (Nat × Bytes)) (e : Nat × Bytes) : List (Nat × Bytes) :=
  match es.getLast? with
  | none => es ++ [e]
  | some l => if e.1 ≤ l.1 then es else es ++ [e]

/-- the entries of an input sequence that the builder keeps: the first one, then every entry whose
key is larger than the last kept key -/
def accepted (l : List (Nat × Bytes)) : List (Nat × Bytes) := l.foldl acceptStep []

/-- start offsets of consecutive blocks -/
def startsFrom : Nat → List Bytes → List Nat
  | _, [] => []
  | o, v :: t => o :: startsFrom (o + v.length) t

theorem startsFrom_append : ∀ (vs : List Bytes) (o : Nat) (v : Bytes),
    startsFrom o (vs ++ [v]) = startsFrom o vs ++ [o + vs.flatten.length] := by
  intro vs
  induction vs with
  | nil => intro o v; simp [startsFrom]
  | cons a t ih => intro o v; simp [startsFrom, ih, Nat.add_assoc]

theorem startsFrom_length : ∀ (vs : List Bytes) (o : Nat), (startsFrom o vs).length = vs.length := by
  intro vs; induction vs with
  | nil => intro o; rfl
  | cons a t ih => intro o; simp [startsFrom, ih]

theorem startsFrom_bounds : ∀ (vs : List Bytes) (o : Nat), ∀ x ∈ startsFrom o vs, o ≤ x ∧ x ≤ o + vs.flatten.length := by
  intro vs; induction vs with
  | nil => intro o x hx; simp [startsFrom] at hx
  | cons a t ih =>
    intro o x hx
    simp only [startsFrom, List.mem_cons] at hx
    rcases hx with rfl | hx
    · simp
    · have := ih _ x hx
      simp only [List.flatten_cons, List.length_append]; omega

/-- block i of the concatenation lies between start i and start i+1 (or the end) -/
theorem starts_block : ∀ (vs : List Bytes) (o i : Nat) (v : Bytes), vs[i]? = some v →
    ∃ s, (startsFrom o vs)[i]? = some s ∧ o ≤ s ∧
      (match (startsFrom o vs)[i + 1]? with | some e => e | none => o + vs.flatten.length) = s + v.length ∧
      ((vs.flatten).drop (s - o)).take v.length = v := by
  intro vs
  induction vs with
  | nil => intro o i v h; simp at h
  | cons a t ih =>
    intro o i v h
    cases i with
    | zero =>
      simp at h; subst h
      refine ⟨o, by simp [startsFrom], Nat.le_refl _, ?_, ?_⟩
      · cases t with
        | nil => simp [startsFrom]
        | cons b t' => simp [startsFrom]
      · simp
    | succ i =>
      simp only [List.getElem?_cons_succ] at h
      obtain ⟨s, h1, h2, h3, h4⟩ := ih (o + a.length) i v h
      refine ⟨s, by simpa [startsFrom] using h1, by omega, ?_, ?_⟩
      · simp only [startsFrom, List.getElem?_cons_succ, List.flatten_cons, List.length_append]
        rw [← h3]
        cases (startsFrom (o + a.length) t)[i + 1]? <;> simp <;> omega
      · have e : s - o = a.length + (s - (o + a.length)) := by omega
        rw [List.flatten_cons, e, ← List.drop_drop, List.drop_left]
        exact h4

/-! ## the builder invariant -/

/-- builder state `b` holds exactly the accepted entries `es`, plus `extra` bytes already written
for an entry that is not yet registered (a stream write in progress) -/
structure Pre (K : KeySetOps B) (b : Builder B) (es : List (Nat × Bytes)) (extra : Bytes) : Prop where
  written : b.written = (es.map (·.2)).flatten ++ extra
  size : b.size = b.written.length
  offset : b.offset = FixedOffset.encOf true (startsFrom 0 (es.map (·.2)))
  keys : K.toList b.keys = es.map (·.1)
  asc : (es.map (·.1)).Pairwise (· < ·)
  first : b.first = es.isEmpty
  minKey : ∀ e, es.head? = some e → b.minKey = e.1
  maxKey : ∀ e, es.getLast? = some e → b.maxKey = e.1
  keysVal : b.keys = (es.map (·.1)).foldl K.add K.empty

/-- between operations: no stream write in progress -/
structure Inv (K : KeySetOps B) (b : Builder B) (es : List (Nat × Bytes)) : Prop where
  pre : Pre K b es []
  closedSW : b.sw.badKey = true

theorem inv_init (K : KeySetOps B) (hK : K.Lawful) : Inv K (Builder.init K) [] := by
  refine ⟨⟨?_, ?_, ?_, ?_, ?_, ?_, ?_, ?_, ?_⟩, rfl⟩ <;>
    first
      | rfl
      | simp [Builder.init, Builder.written, startsFrom, hK.toList_empty]

/-- which keys pass `ensureIncreasingKey` -/
def Fresh (es : List (Nat × Bytes)) (k : Nat) : Prop := ∀ l, es.getLast? = some l → l.1 < k

theorem ensure_iff {K : KeySetOps B} {b : Builder B} {es : List (Nat × Bytes)} {extra : Bytes}
    (h : Pre K b es extra) (k : Nat) : b.ensureIncreasingKey k = true ↔ Fresh es k := by
  unfold Builder.ensureIncreasingKey Fresh
  rw [h.first]
  cases hl : es.getLast? with
  | none =>
    have : es = [] := List.getLast?_eq_none_iff.mp hl
    subst this; simp
  | some l =>
    have hne : es ≠ [] := by intro h; subst h; simp at hl
    have : es.isEmpty = false := by cases es <;> simp_all
    rw [this, h.maxKey l hl]
    by_cases hk : k ≤ l.1
    · simp [hk]
    · simp [hk]; omega

theorem acceptStep_fresh {es : List (Nat × Bytes)} {e : Nat × Bytes} (h : Fresh es e.1) :
    acceptStep es e = es ++ [e] := by
  unfold acceptStep
  cases hl : es.getLast? with
  | none => rfl
  | some l => have := h l hl; simp; omega

theorem acceptStep_stale {es : List (Nat × Bytes)} {e : Nat × Bytes} (h : ¬ Fresh es e.1) :
    acceptStep es e = es := by
  unfold acceptStep
  cases hl : es.getLast? with
  | none => exfalso; apply h; intro l hl'; rw [hl] at hl'; cases hl'
  | some l =>
    simp only
    rw [if_pos]
    apply Classical.byContradiction
    intro hn; apply h; intro l' hl'; rw [hl] at hl'; cases hl'; omega

theorem write_pre {K : KeySetOps B} {b : Builder B} {es : List (Nat × Bytes)} {extra : Bytes}
    (h : Pre K b es extra) (d : Bytes) : Pre K (b.write d) es (extra ++ d) := by
  have hw : (b.write d).written = b.written ++ d := by
    simp [Builder.write, Builder.written]
  refine ⟨?_, ?_, h.offset, h.keys, h.asc, h.first, h.minKey, h.maxKey, h.keysVal⟩
  · rw [hw, h.written, List.append_assoc]
  · rw [hw]; simp [Builder.write, h.size]

theorem fresh_all_lt {es : List (Nat × Bytes)} {k : Nat} (hasc : (es.map (·.1)).Pairwise (· < ·))
    (hf : Fresh es k) : ∀ x ∈ es.map (·.1), x < k := by
  rcases List.eq_nil_or_concat es with rfl | ⟨init, l, rfl⟩
  · intro x hx; simp at hx
  · intro x hx
    have hl := hf l (by simp)
    simp only [List.concat_eq_append, List.map_append, List.map_cons, List.map_nil] at hasc hx
    rcases List.mem_append.mp hx with hx | hx
    · have := (List.pairwise_append.mp hasc).2.2 x hx l.1 (by simp)
      omega
    · simp at hx; omega

/-- `FixedOffsetEncoder.Add` of an offset that is not below the ones already there (C14's model):
accepted, and the encoder is the one holding the extended list -/
theorem encOf_add (vs : List Nat) (off : Nat) (h : ∀ v ∈ vs, v ≤ off) :
    (FixedOffset.encOf true vs).add (off : Int) = .ok (FixedOffset.encOf true (vs ++ [off])) := by
  have hv : (FixedOffset.encOf true vs).values = vs.map Int.ofNat := rfl
  have hlast : ¬ ((vs.map Int.ofNat).getLast?.getD 0 > (off : Int)) := by
    cases hl : (vs.map Int.ofNat).getLast? with
    | none => simp
    | some z =>
      have hz : z ∈ vs.map Int.ofNat := List.mem_of_getLast? hl
      obtain ⟨v, hv', rfl⟩ := List.mem_map.mp hz
      have := h v hv'
      simp only [Option.getD_some, Int.ofNat_eq_natCast]; omega
  unfold FixedOffset.Enc.add
  rw [hv, if_neg (fun hc => hlast hc.2.2), if_neg (by omega)]
  simp only [FixedOffset.encOf, FixedOffset.Enc.fromValues, FixedOffset.Enc.fresh, List.map_append,
    List.map_cons, List.map_nil, List.foldl_append, List.foldl_cons, List.foldl_nil, Int.ofNat_eq_natCast]
  rfl

/-- `afterWrite` registering the entry whose bytes are the pending `extra` -/
theorem afterWrite_pre {K : KeySetOps B} (hK : K.Lawful) {b : Builder B} {es : List (Nat × Bytes)}
    {extra : Bytes} (h : Pre K b es extra) (k : Nat) (hf : Fresh es k) :
    ∃ b', b.afterWrite K k (es.map (·.2)).flatten.length = some b' ∧
      Pre K b' (es ++ [(k, extra)]) [] ∧ b'.sw = b.sw := by
  generalize hoff : (es.map (·.2)).flatten.length = off
  have hall := fresh_all_lt h.asc hf
  have hadd : b.offset.add (off : Int) =
      .ok (FixedOffset.encOf true (startsFrom 0 (es.map (·.2)) ++ [off])) := by
    rw [h.offset]
    apply encOf_add
    intro v hv
    have := (startsFrom_bounds (es.map (·.2)) 0 v hv).2
    omega
  have hnp : b.afterWrite K k off = some
      { b with
        offset := FixedOffset.encOf true (startsFrom 0 (es.map (·.2)) ++ [off])
        keys := K.add b.keys k
        minKey := if b.first then k else b.minKey
        maxKey := k
        first := false } := by
    unfold Builder.afterWrite
    rw [hadd]
  refine ⟨_, hnp, ?_, rfl⟩
  refine ⟨?_, ?_, ?_, ?_, ?_, ?_, ?_, ?_, ?_⟩
  · show b.written = _
    rw [h.written]; simp
  · exact h.size
  · show FixedOffset.encOf true (startsFrom 0 (es.map (·.2)) ++ [off]) = _
    simp only [List.map_append, List.map_cons, List.map_nil]
    rw [startsFrom_append, Nat.zero_add, hoff]
  · show K.toList (K.add b.keys k) = _
    rw [hK.toList_add_max b.keys k (by rw [h.keys]; exact hall), h.keys]; simp
  · simp only [List.map_append, List.map_cons, List.map_nil]
    apply List.pairwise_append.mpr
    refine ⟨h.asc, by simp, ?_⟩
    intro x hx y hy
    simp at hy; subst hy
    exact hall x hx
  · show false = _
    simp
  · intro e he
    show (if b.first then k else b.minKey) = e.1
    rw [h.first]
    cases es with
    | nil => simp at he; subst he; simp
    | cons e0 t =>
      simp at he; subst he
      simp; exact h.minKey e0 rfl
  · intro e he
    show k = e.1
    simp at he; subst he; rfl
  · show K.add b.keys k = _
    rw [h.keysVal]; simp [List.foldl_append]

/-- `Add` = `acceptStep` on the accepted entries -/
theorem add_inv {K : KeySetOps B} (hK : K.Lawful) {b : Builder B} {es : List (Nat × Bytes)}
    (h : Inv K b es) (k : Nat) (v : Bytes) :
    ∃ b', b.add K k v = some b' ∧ Inv K b' (acceptStep es (k, v)) := by
  by_cases hf : Fresh es k
  · have he : b.ensureIncreasingKey k = true := (ensure_iff h.pre k).mpr hf
    have hp := write_pre h.pre v
    have hsz : b.size = (es.map (·.2)).flatten.length := by
      rw [h.pre.size, h.pre.written]; simp
    obtain ⟨b', h1, h2, h3⟩ := afterWrite_pre hK hp k hf
    refine ⟨b', ?_, ?_⟩
    · unfold Builder.add; simp only [he, Bool.not_true, Bool.false_eq_true, if_false]
      rw [hsz]; exact h1
    · rw [acceptStep_fresh (e := (k, v)) hf]
      simp only [List.nil_append] at h2
      exact ⟨h2, by rw [h3]; exact h.closedSW⟩
  · have he : b.ensureIncreasingKey k = false := by
      cases hb : b.ensureIncreasingKey k with
      | false => rfl
      | true => exact absurd ((ensure_iff h.pre k).mp hb) hf
    refine ⟨b, ?_, ?_⟩
    · unfold Builder.add; simp [he]
    · rw [acceptStep_stale (e := (k, v)) hf]; exact h

theorem run_append (K : KeySetOps B) : ∀ (l1 l2 : List Op) (b : Builder B),
    Builder.run K b (l1 ++ l2) = (Builder.run K b l1).bind (fun b' => Builder.run K b' l2) := by
  intro l1
  induction l1 with
  | nil => intro l2 b; rfl
  | cons op t ih =>
    intro l2 b
    simp only [List.cons_append, Builder.run]
    cases b.step K op with
    | none => rfl
    | some b' => exact ih l2 b'

/-- stream writes while a good key is prepared: bytes pile up, nothing else moves -/
theorem run_writes_open {K : KeySetOps B} {es : List (Nat × Bytes)} : ∀ (ds : List Bytes) (b : Builder B)
    (extra : Bytes) (rest : List Op), Pre K b es extra → b.sw.badKey = false →
    ∃ b', Builder.run K b (ds.map Op.write ++ rest) = Builder.run K b' rest ∧
      Pre K b' es (extra ++ ds.flatten) ∧ b'.sw.badKey = false ∧ b'.sw.key = b.sw.key ∧
      b'.sw.offset = b.sw.offset := by
  intro ds
  induction ds with
  | nil => intro b extra rest h hb; exact ⟨b, rfl, by simpa using h, hb, rfl, rfl⟩
  | cons d t ih =>
    intro b extra rest h hb
    have hstep : b.step K (.write d) = some ({ (b.write d) with sw := { (b.write d).sw with size := (b.write d).sw.size + d.length, crcRev := d :: (b.write d).sw.crcRev } }) := by
      simp [Builder.step, Builder.swWrite, hb]
    have hp : Pre K ({ (b.write d) with sw := { (b.write d).sw with size := (b.write d).sw.size + d.length, crcRev := d :: (b.write d).sw.crcRev } }) es (extra ++ d) := by
      have := write_pre h d
      exact ⟨this.written, this.size, this.offset, this.keys, this.asc, this.first, this.minKey, this.maxKey, this.keysVal⟩
    obtain ⟨b', h1, h2, h3, h4, h5⟩ := ih _ (extra ++ d) rest hp (by simpa [Builder.write] using hb)
    refine ⟨b', ?_, ?_, h3, ?_, ?_⟩
    · simp only [List.map_cons, List.cons_append, Builder.run, hstep]; exact h1
    · simpa [List.append_assoc] using h2
    · rw [h4]; rfl
    · rw [h5]; rfl

/-- stream writes after a rejected `Prepare` (or with no stream open) are ignored -/
theorem run_writes_closed {K : KeySetOps B} : ∀ (ds : List Bytes) (b : Builder B) (rest : List Op),
    b.sw.badKey = true → Builder.run K b (ds.map Op.write ++ rest) = Builder.run K b rest := by
  intro ds
  induction ds with
  | nil => intro b rest _; rfl
  | cons d t ih =>
    intro b rest hb
    have hstep : b.step K (.write d) = some b := by simp [Builder.step, Builder.swWrite, hb]
    simp only [List.map_cons, List.cons_append, Builder.run, hstep]
    exact ih b rest hb

/-- `Prepare(k); Write(d₁) … Write(dₙ); Commit()` = `acceptStep` with the concatenated bytes -/
theorem stream_inv {K : KeySetOps B} (hK : K.Lawful) {b : Builder B} {es : List (Nat × Bytes)}
    (h : Inv K b es) (k : Nat) (ds : List Bytes) :
    ∃ b', Builder.run K b (Op.prepare k :: (ds.map Op.write ++ [Op.commit])) = some b' ∧
      Inv K b' (acceptStep es (k, ds.flatten)) := by
  have hsz : b.size = (es.map (·.2)).flatten.length := by
    rw [h.pre.size, h.pre.written]; simp
  have hpp : Pre K (b.prepare k) es [] :=
    ⟨h.pre.written, h.pre.size, h.pre.offset, h.pre.keys, h.pre.asc, h.pre.first,
      h.pre.minKey, h.pre.maxKey, h.pre.keysVal⟩
  simp only [Builder.run, Builder.step]
  by_cases hf : Fresh es k
  · have he : b.ensureIncreasingKey k = true := (ensure_iff h.pre k).mpr hf
    have hbk : (b.prepare k).sw.badKey = false := by simp [Builder.prepare, he]
    obtain ⟨b2, h1, h2, h3, h4, h5⟩ := run_writes_open ds (b.prepare k) [] [Op.commit] hpp hbk
    simp only [List.nil_append] at h2
    obtain ⟨b3, h6, h7, h8⟩ := afterWrite_pre hK h2 k hf
    have hk : b2.sw.key = k := by rw [h4]; rfl
    have ho : b2.sw.offset = (es.map (·.2)).flatten.length := by rw [h5, ← hsz]; rfl
    refine ⟨{ b3 with sw := { b3.sw with badKey := true } }, ?_, ?_⟩
    · rw [h1]
      simp only [Builder.run, Builder.step, Builder.commit, h3, Bool.false_eq_true, if_false, hk, ho, h6]
    · rw [acceptStep_fresh (e := (k, ds.flatten)) hf]
      exact ⟨⟨h7.written, h7.size, h7.offset, h7.keys, h7.asc, h7.first, h7.minKey, h7.maxKey, h7.keysVal⟩, rfl⟩
  · have he : b.ensureIncreasingKey k = false := by
      cases hb : b.ensureIncreasingKey k with
      | false => rfl
      | true => exact absurd ((ensure_iff h.pre k).mp hb) hf
    have hbk : (b.prepare k).sw.badKey = true := by simp [Builder.prepare, he]
    refine ⟨b.prepare k, ?_, ?_⟩
    · rw [run_writes_closed ds (b.prepare k) [Op.commit] hbk]
      simp [Builder.run, Builder.step, Builder.commit, hbk]
    · rw [acceptStep_stale (e := (k, ds.flatten)) hf]
      exact ⟨hpp, hbk⟩

/-- well-formed use of the builder: plain adds and complete stream writes -/
inductive Put where
  | add (key : Nat) (value : Bytes)
  | stream (key : Nat) (chunks : List Bytes)

def Put.ops : Put → List Op
  | .add k v => [.add k v]
  | .stream k ds => .prepare k :: (ds.map .write ++ [.commit])

/-- the entry an item stands for: a stream write is the concatenation of its chunks -/
def Put.entry : Put → Nat × Bytes
  | .add k v => (k, v)
  | .stream k ds => (k, ds.flatten)

theorem items_inv {K : KeySetOps B} (hK : K.Lawful) : ∀ (items : List Put) {b : Builder B} {es : List (Nat × Bytes)},
    Inv K b es → ∃ b', Builder.run K b (items.flatMap Put.ops) = some b' ∧
      Inv K b' ((items.map Put.entry).foldl acceptStep es) := by
  intro items
  induction items with
  | nil => intro b es h; exact ⟨b, rfl, h⟩
  | cons it t ih =>
    intro b es h
    simp only [List.flatMap_cons, List.map_cons, List.foldl_cons, run_append]
    cases it with
    | add k v =>
      obtain ⟨b1, h1, h2⟩ := add_inv hK h k v
      obtain ⟨b2, h3, h4⟩ := ih h2
      refine ⟨b2, ?_, h4⟩
      simp only [Put.ops, Builder.run, Builder.step, h1, Option.bind]
      exact h3
    | stream k ds =>
      obtain ⟨b1, h1, h2⟩ := stream_inv hK h k ds
      obtain ⟨b2, h3, h4⟩ := ih h2
      refine ⟨b2, ?_, h4⟩
      simp only [Put.ops, h1, Option.bind]
      exact h3

/-! ## Close → file → reader -/

/-- what a reader knows, in terms of the entries of the table -/
structure TableRepr (K : KeySetOps B) (r : Reader B) (es : List (Nat × Bytes)) : Prop where
  keys : K.toList r.keys = es.map (·.1)
  asc : (es.map (·.1)).Pairwise (· < ·)
  blocks : ∀ (i : Nat) (e : Nat × Bytes), es[i]? = some e →
    r.offsets.getBlock (i : Int) r.entries = .ok e.2
  entries : r.entries = (es.map (·.2)).flatten

theorem footer_length (p1 p2 : Nat) : (footer p1 p2).length = sstFileFooterSize := by
  simp [footer, leBytes, sstFileFooterSize]

theorem footer_pos1 (p1 p2 : Nat) : (footer p1 p2).take 4 = leBytes 4 p1 := by
  simp [footer, leBytes]

theorem footer_pos2 (p1 p2 : Nat) : ((footer p1 p2).drop 4).take 4 = leBytes 4 p2 := by
  simp [footer, leBytes]

theorem footer_magic (p1 p2 : Nat) :
    ((footer p1 p2).drop magicNumberAtFooter).take 8 = leBytes 8 magicNumberOffsetFile := by
  simp [footer, leBytes, magicNumberAtFooter]

theorem magic_lt : magicNumberOffsetFile < 256 ^ 8 := by decide

theorem startsFrom_mono : ∀ (vs : List Bytes) (o : Nat) (i : Nat) (h : i + 1 < (startsFrom o vs).length),
    (startsFrom o vs)[i] ≤ (startsFrom o vs)[i + 1] := by
  intro vs
  induction vs with
  | nil => intro o i h; simp [startsFrom] at h
  | cons a t ih =>
    intro o i h
    cases i with
    | zero =>
      cases t with
      | nil => simp [startsFrom] at h
      | cons c t' => simp [startsFrom]
    | succ i =>
      simp only [startsFrom, List.getElem_cons_succ]
      exact ih (o + a.length) i (by simpa [startsFrom] using h)

/-- the decoder C14's `unmarshal_marshal` produces for the offsets `vs` -/
def decOf (vs : List Nat) : FixedOffset.Dec :=
  { block := FixedOffset.body (FixedOffset.uint32MinWidth (FixedOffset.maxNat vs)) vs
    width := (FixedOffset.uint32MinWidth (FixedOffset.maxNat vs) : Nat)
    size := (vs.length : Nat) }

theorem putUvarintAux_length_le : ∀ (f x : Nat), (Varint.putUvarintAux f x).length ≤ f + 1 := by
  intro f; induction f with
  | zero => intro x; simp [Varint.putUvarintAux]
  | succ f ih =>
    intro x; simp only [Varint.putUvarintAux]; split
    · simp only [List.length_cons]; have := ih (x / 128); omega
    · simp

/-- size of the marshalled offset table: one width byte, the uvarint count, `width ≤ 4` bytes per offset -/
theorem marshal_length_bounds (vs : List Nat) (hne : vs ≠ []) (hlt : ∀ v ∈ vs, v < 4294967296) :
    vs.length ≤ (FixedOffset.encOf true vs).marshal.length ∧
    (FixedOffset.encOf true vs).marshal.length ≤ 12 + 4 * vs.length := by
  rw [FixedOffset.encOf_marshal true vs hne hlt]
  obtain ⟨hw1, hw4⟩ := FixedOffset.minWidth_range (FixedOffset.maxNat vs)
  have hb : (FixedOffset.body (FixedOffset.uint32MinWidth (FixedOffset.maxNat vs)) vs).length =
      vs.length * FixedOffset.uint32MinWidth (FixedOffset.maxNat vs) :=
    FixedOffset.flatMap_length_const _ _ (fun v => FixedOffset.leBytes_length _ v hw4) vs
  have hp := putUvarintAux_length_le 9 vs.length
  simp only [List.length_append, List.length_cons, List.length_nil, hb]
  unfold Varint.putUvarint
  generalize FixedOffset.uint32MinWidth (FixedOffset.maxNat vs) = w at hw1 hw4
  have h1 : vs.length * 1 ≤ vs.length * w := Nat.mul_le_mul_left _ hw1
  have h2 : vs.length * w ≤ vs.length * 4 := Nat.mul_le_mul_left _ hw4
  omega

/-- a file written by `Close` is accepted by the reader, which then holds exactly the entries.
The offset section is handled by C14's fixed-offset codec theorems (`unmarshal_marshal`,
`getBlock_body` = `Props.C14.fixedoffset_roundtrip` / `fixedoffset_getBlock_correct`). -/
theorem close_open {K : KeySetOps B} (hK : K.Lawful) {b : Builder B} {es : List (Nat × Bytes)}
    (h : Inv K b es) (hne : es ≠ [])
    (hkeys : ∀ e ∈ es, e.1 < 4294967296)
    (hsize : b.size + b.offset.marshal.length < 4294967296) :
    ∃ file r, b.close K = some file ∧ Reader.open K file = some r ∧ TableRepr K r es := by
  have hp := h.pre
  have hW : b.written = (es.map (·.2)).flatten := by simpa using hp.written
  have hWl : b.written.length = b.size := hp.size.symm
  generalize hvs : startsFrom 0 (es.map (·.2)) = vs
  have hoffset : b.offset = FixedOffset.encOf true vs := by rw [← hvs]; exact hp.offset
  have hvl : vs.length = es.length := by rw [← hvs, startsFrom_length, List.length_map]
  have hnl : es.length ≠ 0 := by intro h0; exact hne (List.eq_nil_of_length_eq_zero h0)
  have hvne : vs ≠ [] := by intro h0; rw [h0] at hvl; exact hnl hvl.symm
  have hvb : ∀ v ∈ vs, v ≤ b.written.length := by
    intro v hv; rw [← hvs] at hv
    have := (startsFrom_bounds (es.map (·.2)) 0 v hv).2
    rw [hW]; omega
  have hvlt : ∀ v ∈ vs, v < 4294967296 := fun v hv => by have := hvb v hv; omega
  obtain ⟨hlen1, _⟩ := marshal_length_bounds vs hvne hvlt
  rw [hoffset] at hsize
  have hmar := FixedOffset.encOf_marshal true vs hvne hvlt
  generalize hO : (FixedOffset.encOf true vs).marshal = O at hsize hlen1 hmar
  generalize hKb : K.marshal b.keys = Kb
  have hemp : K.isEmpty b.keys = false := by
    rw [hK.isEmpty_eq, hp.keys]; cases es <;> simp_all
  have hclose : b.close K = some (b.written ++ O ++ Kb ++ footer b.size (b.size + O.length)) := by
    unfold Builder.close; simp only [hemp, Bool.false_eq_true, if_false, hoffset, hO, hKb]
  -- offsets decode (C14)
  obtain ⟨hw1, hw4⟩ := FixedOffset.minWidth_range (FixedOffset.maxNat vs)
  have hm := FixedOffset.maxNat_lt vs 4294967296 (by omega) hvlt
  have hfit : ∀ v ∈ vs, v < 256 ^ FixedOffset.uint32MinWidth (FixedOffset.maxNat vs) :=
    fun v hv => FixedOffset.lt_pow_minWidth v _ (FixedOffset.le_maxNat vs v hv) hm
  have hdec : FixedOffset.Dec.fresh.unmarshal O = (.ok [], decOf vs) := by
    have := FixedOffset.unmarshal_marshal FixedOffset.Dec.fresh _ vs [] hw1 hw4 (by omega)
    rw [List.append_nil, ← hmar] at this
    exact this
  generalize hd : decOf vs = dec at hdec
  have hdsize : dec.sizeOf = (vs.length : Int) := by
    rw [← hd]; simp only [FixedOffset.Dec.sizeOf, decOf]
    simp
    intro h0; omega
  have hblocks : ∀ (i : Nat) (e : Nat × Bytes), es[i]? = some e →
      dec.getBlock (i : Int) b.written = .ok e.2 := by
    intro i e he
    have hi : i < vs.length := by
      rw [hvl]; exact (List.getElem?_eq_some_iff.mp he).1
    have hgb := FixedOffset.getBlock_body _ vs hw1 hw4 hfit b.written i hi
      (fun h' => by
        have := startsFrom_mono (es.map (·.2)) 0 i (by rw [hvs]; exact h')
        simpa [hvs] using this) hvb
    have hgb' : dec.getBlock (i : Int) b.written =
        .ok ((b.written.take ((vs[i + 1]?).getD b.written.length)).drop vs[i]) := by
      rw [← hd]; exact hgb
    rw [hgb']
    -- the slice between start i and start i+1 is value i
    have hv : (es.map (·.2))[i]? = some e.2 := by simp [he]
    obtain ⟨s, h1, _, h3, h4⟩ := starts_block (es.map (·.2)) 0 i e.2 hv
    rw [Nat.sub_zero] at h4
    rw [hvs] at h1 h3
    have hs : vs[i] = s := by
      have := List.getElem?_eq_getElem hi; rw [h1] at this; exact (Option.some.inj this).symm
    have hend : (vs[i + 1]?).getD b.written.length = s + e.2.length := by
      rw [← h3, hW]
      cases vs[i + 1]? <;> simp
    rw [hend, hs, List.drop_take, Nat.add_sub_cancel_left, hW, h4]
  -- keys decode
  obtain ⟨keys', hku, hkl⟩ := hK.unmarshal_marshal b.keys (footer b.size (b.size + O.length))
    (by rw [hp.keys]; intro x hx; obtain ⟨e, he, rfl⟩ := List.mem_map.mp hx; exact hkeys e he)
  rw [hKb] at hku
  generalize hF : footer b.size (b.size + O.length) = F at hku hclose
  have hFl : F.length = 17 := by rw [← hF]; exact footer_length _ _
  refine ⟨_, { keys := keys', offsets := dec, entries := b.written }, hclose, ?_, ?_⟩
  · generalize hfull : b.written ++ O ++ Kb ++ F = full
    have hlen : full.length = b.size + O.length + Kb.length + 17 := by
      rw [← hfull]; simp [hWl, hFl]; omega
    have hfs : full.length - sstFileFooterSize = b.size + O.length + Kb.length := by
      rw [hlen]; simp [sstFileFooterSize]
    have hdropF : full.drop (b.size + O.length + Kb.length) = F := by
      rw [← hfull]; apply List.drop_left'; simp [hWl]; omega
    have e1 : leVal ((full.drop (b.size + O.length + Kb.length + magicNumberAtFooter)).take 8) = magicNumberOffsetFile := by
      rw [← List.drop_drop, hdropF, ← hF, footer_magic, leVal_leBytes_of_lt _ _ magic_lt]
    have e2 : leVal ((full.drop (b.size + O.length + Kb.length)).take 4) = b.size := by
      rw [hdropF, ← hF, footer_pos1, leVal_leBytes_of_lt]; omega
    have e3 : leVal ((full.drop (b.size + O.length + Kb.length + 4)).take 4) = b.size + O.length := by
      rw [← List.drop_drop, hdropF, ← hF, footer_pos2, leVal_leBytes_of_lt]; omega
    have e4 : (full.take (b.size + O.length)).drop b.size = O := by
      have : full = (b.written ++ O) ++ (Kb ++ F) := by rw [← hfull]; simp
      rw [this, List.take_left' (by simp [hWl]), List.drop_left' hWl]
    have e5 : full.drop (b.size + O.length) = Kb ++ F := by
      have : full = (b.written ++ O) ++ (Kb ++ F) := by rw [← hfull]; simp
      rw [this, List.drop_left' (by simp [hWl])]
    have e6 : full.take b.size = b.written := by
      have : full = b.written ++ (O ++ Kb ++ F) := by rw [← hfull]; simp
      rw [this, List.take_left' hWl]
    have e7 : dec.sizeOf = (K.card keys' : Int) := by
      rw [hdsize, hK.card_eq, hkl, hp.keys, List.length_map, hvl]
    unfold Reader.open
    rw [if_neg (by rw [hlen]; simp [sstFileFooterSize])]
    simp only [hfs, e1, e2, e3, e4, e5, e6, hdec, hku]
    rw [if_neg (by simp), if_neg (by simp), if_neg (by simp [e7])]
  · exact ⟨by rw [hkl, hp.keys], hp.asc, hblocks, hW⟩

theorem getBlock_repr {K : KeySetOps B} {r : Reader B} {es : List (Nat × Bytes)} (h : TableRepr K r es)
    (i : Nat) (e : Nat × Bytes) (he : es[i]? = some e) :
    r.offsets.getBlock (i : Int) r.entries = .ok e.2 := h.blocks i e he

theorem countP_le_of_asc : ∀ (l : List Nat) (i k : Nat), l.Pairwise (· < ·) → l[i]? = some k →
    l.countP (fun x => decide (x ≤ k)) = i + 1 := by
  intro l
  induction l with
  | nil => intro i k _ h; simp at h
  | cons a t ih =>
    intro i k hp h
    obtain ⟨h1, h2⟩ := List.pairwise_cons.mp hp
    cases i with
    | zero =>
      simp at h; subst h
      have : t.countP (fun x => decide (x ≤ a)) = 0 := by
        apply List.countP_eq_zero.mpr
        intro x hx; have := h1 x hx; simp; omega
      simp [this]
    | succ i =>
      simp only [List.getElem?_cons_succ] at h
      have hak : a < k := h1 k (List.mem_of_getElem? h)
      rw [List.countP_cons, ih i k h2 h]
      simp; omega

/-- a key that was added is found with its exact bytes -/
theorem get_present {K : KeySetOps B} (hK : K.Lawful) {r : Reader B} {es : List (Nat × Bytes)}
    (h : TableRepr K r es) (e : Nat × Bytes) (he : e ∈ es) : r.get K e.1 = .ok e.2 := by
  obtain ⟨i, hi, hie⟩ := List.getElem_of_mem he
  have hget : es[i]? = some e := by rw [List.getElem?_eq_getElem hi, hie]
  have hk : (es.map (·.1))[i]? = some e.1 := by simp [hget]
  have hc : K.contains r.keys e.1 = true := by
    rw [hK.contains_iff, h.keys]; exact List.mem_map_of_mem he
  have hr : K.rank r.keys e.1 = i + 1 := by
    rw [hK.rank_eq, h.keys]; exact countP_le_of_asc _ i e.1 h.asc hk
  unfold Reader.get
  simp only [hc, Bool.not_true, Bool.false_eq_true, if_false, hr]
  have : ((i + 1 : Nat) : Int) - 1 = (i : Int) := by omega
  rw [this, getBlock_repr h i e hget]

/-- a key that was not added is reported absent -/
theorem get_absent {K : KeySetOps B} (hK : K.Lawful) {r : Reader B} {es : List (Nat × Bytes)}
    (h : TableRepr K r es) (k : Nat) (hk : ∀ e ∈ es, e.1 ≠ k) : r.get K k = .absent := by
  have hc : K.contains r.keys k = false := by
    cases hb : K.contains r.keys k with
    | false => rfl
    | true =>
      rw [hK.contains_iff, h.keys] at hb
      obtain ⟨e, he, hek⟩ := List.mem_map.mp hb
      exact absurd hek (hk e he)
  unfold Reader.get; simp [hc]

/-- the iterator delivers exactly the entries, in the order they were added -/
theorem iterate_eq {K : KeySetOps B} {r : Reader B} {es : List (Nat × Bytes)}
    (h : TableRepr K r es) : r.iterate K = es := by
  unfold Reader.iterate
  rw [h.keys]
  apply List.ext_getElem?
  intro i
  simp only [List.getElem?_map, List.getElem?_zipIdx, Nat.zero_add]
  cases hi : es[i]? with
  | none => simp
  | some e =>
    simp only [Option.map_some, Reader.valueAt]
    rw [getBlock_repr h i e hi]

/-! ## min / max / count -/

theorem asc_bounds : ∀ (l : List Nat), l.Pairwise (· < ·) → ∀ x ∈ l,
    (∀ a, l.head? = some a → a ≤ x) ∧ (∀ z, l.getLast? = some z → x ≤ z) := by
  intro l hp x hx
  constructor
  · intro a ha
    cases l with
    | nil => simp at hx
    | cons a' t =>
      simp at ha; subst ha
      rcases List.mem_cons.mp hx with rfl | hx
      · exact Nat.le_refl _
      · exact Nat.le_of_lt ((List.pairwise_cons.mp hp).1 x hx)
  · intro z hz
    rcases List.eq_nil_or_concat l with rfl | ⟨init, z', rfl⟩
    · simp at hx
    · simp at hz; subst hz
      simp only [List.concat_eq_append] at hp hx
      rcases List.mem_append.mp hx with hx | hx
      · exact Nat.le_of_lt ((List.pairwise_append.mp hp).2.2 x hx z' (by simp))
      · simp at hx; omega

/-- MinKey / MaxKey / Count of a builder holding the entries `es` -/
theorem meta_of_inv {K : KeySetOps B} (hK : K.Lawful) {b : Builder B} {es : List (Nat × Bytes)}
    (h : Inv K b es) :
    b.count K = es.length ∧
    (∀ e, es.head? = some e → b.minKey = e.1) ∧
    (∀ e, es.getLast? = some e → b.maxKey = e.1) ∧
    (es ≠ [] → ∀ e ∈ es, b.minKey ≤ e.1 ∧ e.1 ≤ b.maxKey) := by
  refine ⟨?_, h.pre.minKey, h.pre.maxKey, ?_⟩
  · unfold Builder.count; rw [hK.card_eq, h.pre.keys, List.length_map]
  · intro hne e he
    have hb := asc_bounds (es.map (·.1)) h.pre.asc e.1 (List.mem_map_of_mem he)
    obtain ⟨e0, he0⟩ : ∃ e0, es.head? = some e0 := by cases es <;> simp_all
    obtain ⟨ez, hez⟩ : ∃ ez, es.getLast? = some ez := by
      cases hl : es.getLast? with
      | none => exact absurd (List.getLast?_eq_none_iff.mp hl) hne
      | some z => exact ⟨z, rfl⟩
    rw [h.pre.minKey e0 he0, h.pre.maxKey ez hez]
    exact ⟨hb.1 e0.1 (by simp [List.head?_map, he0]), hb.2 ez.1 (by simp [List.getLast?_map, hez])⟩

/-! ## the executable stand-in for the bitmap is lawful -/

theorem lksUnmarshal_enc : ∀ (l : List Nat) (acc : List Nat) (rest : Bytes), (∀ x ∈ l, x < 4294967296) →
    lksUnmarshal (l.flatMap (fun k => 1 :: leBytes 4 k) ++ 0 :: rest) acc = some (l.reverse ++ acc) := by
  intro l
  induction l with
  | nil => intro acc rest _; simp [lksUnmarshal]
  | cons k t ih =>
    intro acc rest h
    have hk : k < 256 ^ 4 := h k (List.mem_cons_self)
    have hv := leVal_leBytes_of_lt 4 k hk
    have hb : leBytes 4 k = [k % 256, k / 256 % 256, k / 256 / 256 % 256, k / 256 / 256 / 256 % 256] := rfl
    rw [hb] at hv
    rw [List.flatMap_cons, hb]
    simp only [List.cons_append, List.nil_append, lksUnmarshal, hv]
    rw [ih (k :: acc) rest (fun x hx => h x (List.mem_cons_of_mem _ hx))]
    simp

theorem listKeySet_lawful : listKeySet.Lawful where
  toList_empty := rfl
  toList_add_max b k h := by
    simp only [listKeySet] at h ⊢
    cases b with
    | nil => rfl
    | cons x t =>
      have : x < k := h x (by simp)
      simp [insertDesc, this]
  contains_iff b k := by simp [listKeySet]
  rank_eq b k := by simp [listKeySet]
  card_eq b := by simp [listKeySet]
  isEmpty_eq b := by simp [listKeySet]
  unmarshal_marshal b rest h := by
    simp only [listKeySet] at h ⊢
    refine ⟨b, ?_, rfl⟩
    rw [List.append_assoc]
    have := lksUnmarshal_enc b.reverse [] rest h
    simpa using this

/-! ## Version.FindFiles / Snapshot.Load -/

/-- value of `key` among the entries of one table -/
def lookup (key : Nat) (es : List (Nat × Bytes)) : Option Bytes :=
  (es.find? (fun e => e.1 = key)).map (·.2)

/-- every file of the version is a readable table holding the entries `ent f`, and its recorded
[minKey, maxKey] covers them (what `storeFlusher.Commit` records from the builder) -/
def VersionOK (K : KeySetOps B) (fs : Nat → Option Bytes) (files : List FileMeta)
    (ent : FileMeta → List (Nat × Bytes)) : Prop :=
  ∀ f ∈ files, ∃ bytes r, fs f.fileNumber = some bytes ∧ Reader.open K bytes = some r ∧
    TableRepr K r (ent f) ∧ ∀ e ∈ ent f, f.minKey ≤ e.1 ∧ e.1 ≤ f.maxKey

theorem findFiles_eq (levels : List (List FileMeta)) (key : Nat) :
    findFiles levels key = levels.flatten.filter (fun f => decide (key ≥ f.minKey ∧ key ≤ f.maxKey)) := by
  unfold findFiles
  induction levels with
  | nil => rfl
  | cons l t ih => rw [List.flatMap_cons, ih, List.flatten_cons, List.filter_append]

theorem loadFiles_spec {K : KeySetOps B} (hK : K.Lawful) (fs : Nat → Option Bytes)
    (ent : FileMeta → List (Nat × Bytes)) (key : Nat) : ∀ (files : List FileMeta),
    VersionOK K fs files ent →
    loadFiles K fs key (files.filter (fun f => decide (key ≥ f.minKey ∧ key ≤ f.maxKey))) =
      some (files.filterMap (fun f => lookup key (ent f))) := by
  intro files
  induction files with
  | nil => intro _; rfl
  | cons f rest ih =>
    intro hok
    have hrest : VersionOK K fs rest ent := fun g hg => hok g (List.mem_cons_of_mem _ hg)
    obtain ⟨bytes, r, hfs, hopen, hrepr, hrange⟩ := hok f (List.mem_cons_self)
    by_cases hin : key ≥ f.minKey ∧ key ≤ f.maxKey
    · rw [List.filter_cons_of_pos (by simpa using hin)]
      simp only [loadFiles, hfs, hopen]
      cases hfind : (ent f).find? (fun e => e.1 = key) with
      | none =>
        have hab : r.get K key = .absent := by
          apply get_absent hK hrepr
          intro e he hek
          have := List.find?_eq_none.mp hfind e he
          simp [hek] at this
        simp only [hab, ih hrest, List.filterMap_cons, lookup, hfind, Option.map_none]
      | some e =>
        have hek : e.1 = key := by simpa using List.find?_some hfind
        have hmem : e ∈ ent f := List.mem_of_find?_eq_some hfind
        have hpr : r.get K key = .ok e.2 := by rw [← hek]; exact get_present hK hrepr e hmem
        simp only [hpr, ih hrest, List.filterMap_cons, lookup, hfind, Option.map_some]
    · rw [List.filter_cons_of_neg (by simpa using hin)]
      have hnone : lookup key (ent f) = none := by
        unfold lookup
        cases hfind : (ent f).find? (fun e => e.1 = key) with
        | none => rfl
        | some e =>
          exfalso
          have hek : e.1 = key := by simpa using List.find?_some hfind
          have := hrange e (List.mem_of_find?_eq_some hfind)
          rw [hek] at this; exact hin this
      simp only [List.filterMap_cons, hnone]
      exact ih hrest

/-! ## facts about `accepted` -/

theorem foldl_acceptStep_subset : ∀ (l es : List (Nat × Bytes)), ∀ e ∈ l.foldl acceptStep es, e ∈ es ∨ e ∈ l := by
  intro l
  induction l with
  | nil => intro es e he; exact Or.inl he
  | cons a t ih =>
    intro es e he
    simp only [List.foldl_cons] at he
    rcases ih _ e he with h | h
    · unfold acceptStep at h
      split at h
      · rcases List.mem_append.mp h with h | h
        · exact Or.inl h
        · simp at h; subst h; exact Or.inr (List.mem_cons_self)
      · split at h
        · exact Or.inl h
        · rcases List.mem_append.mp h with h | h
          · exact Or.inl h
          · simp at h; subst h; exact Or.inr (List.mem_cons_self)
    · exact Or.inr (List.mem_cons_of_mem _ h)

theorem accepted_subset (l : List (Nat × Bytes)) : ∀ e ∈ accepted l, e ∈ l := by
  intro e he
  rcases foldl_acceptStep_subset l [] e he with h | h
  · simp at h
  · exact h

theorem acceptStep_ne_nil (es : List (Nat × Bytes)) (e : Nat × Bytes) : acceptStep es e ≠ [] := by
  unfold acceptStep
  cases hl : es.getLast? with
  | none => simp
  | some l =>
    simp only
    split
    · intro h; subst h; simp at hl
    · simp

theorem foldl_acceptStep_ne_nil : ∀ (l es : List (Nat × Bytes)), es ≠ [] → l.foldl acceptStep es ≠ [] := by
  intro l
  induction l with
  | nil => intro es h; exact h
  | cons a t ih => intro es _; exact ih _ (acceptStep_ne_nil es a)

theorem accepted_ne_nil (l : List (Nat × Bytes)) (h : l ≠ []) : accepted l ≠ [] := by
  cases l with
  | nil => exact absurd rfl h
  | cons a t => exact foldl_acceptStep_ne_nil t _ (acceptStep_ne_nil [] a)

/-- a strictly ascending input is accepted whole -/
theorem foldl_acceptStep_asc : ∀ (l es : List (Nat × Bytes)),
    ((es ++ l).map (·.1)).Pairwise (· < ·) → l.foldl acceptStep es = es ++ l := by
  intro l
  induction l with
  | nil => intro es _; simp
  | cons a t ih =>
    intro es hp
    have hf : Fresh es a.1 := by
      intro z hz
      have hzm : z ∈ es := List.mem_of_getLast? hz
      simp only [List.map_append, List.map_cons] at hp
      exact (List.pairwise_append.mp hp).2.2 z.1 (List.mem_map_of_mem hzm) a.1 (by simp)
    simp only [List.foldl_cons]
    rw [acceptStep_fresh hf, ih (es ++ [a]) (by simpa using hp)]
    simp

theorem accepted_of_asc (l : List (Nat × Bytes)) (h : (l.map (·.1)).Pairwise (· < ·)) : accepted l = l := by
  have := foldl_acceptStep_asc l [] (by simpa using h)
  simpa [accepted] using this

/-- an entry whose key is not above the last accepted key changes nothing, wherever it occurs -/
theorem accepted_skip (l1 l2 : List (Nat × Bytes)) (e : Nat × Bytes) (h : ¬ Fresh (accepted l1) e.1) :
    accepted (l1 ++ e :: l2) = accepted (l1 ++ l2) := by
  unfold accepted at *
  rw [List.foldl_append, List.foldl_append, List.foldl_cons, acceptStep_stale h]

/-! ## the file is a function of the accepted entries -/

theorem close_eq_of_inv {K : KeySetOps B} {b1 b2 : Builder B} {es : List (Nat × Bytes)}
    (h1 : Inv K b1 es) (h2 : Inv K b2 es) : b1.close K = b2.close K := by
  have hw : b1.written = b2.written := by rw [h1.pre.written, h2.pre.written]
  have hs : b1.size = b2.size := by rw [h1.pre.size, h2.pre.size, hw]
  have ho : b1.offset = b2.offset := by rw [h1.pre.offset, h2.pre.offset]
  have hk : b1.keys = b2.keys := by rw [h1.pre.keysVal, h2.pre.keysVal]
  unfold Builder.close
  rw [hw, hs, ho, hk]

/-- sufficient size condition for the 32-bit footer fields: value bytes + offset table < 4 GiB -/
def SizeOK (es : List (Nat × Bytes)) : Prop :=
  (es.map (·.2)).flatten.length + 4 * es.length + 12 < 4294967296

/-- any well-formed use of the builder ends in a state holding the accepted entries; if there is
at least one item the file is written and the reader opened on it holds exactly those entries -/
theorem build_ok {K : KeySetOps B} (hK : K.Lawful) (items : List Put) :
    ∃ b, Builder.run K (Builder.init K) (items.flatMap Put.ops) = some b ∧
      Inv K b (accepted (items.map Put.entry)) ∧
      (items ≠ [] → (∀ it ∈ items, it.entry.1 < 4294967296) → SizeOK (accepted (items.map Put.entry)) →
        ∃ file r, b.close K = some file ∧ Reader.open K file = some r ∧
          TableRepr K r (accepted (items.map Put.entry))) := by
  obtain ⟨b, hrun, hinv0⟩ := items_inv hK items (inv_init K hK)
  have hinv : Inv K b (accepted (items.map Put.entry)) := hinv0
  refine ⟨b, hrun, hinv, ?_⟩
  intro hne hkeys hsz
  have hane : accepted (items.map Put.entry) ≠ [] := accepted_ne_nil _ (by simpa using hne)
  apply close_open hK hinv hane
  · intro e he
    have := accepted_subset _ e he
    obtain ⟨it, hit, rfl⟩ := List.mem_map.mp this
    exact hkeys it hit
  · have h1 : b.size = ((accepted (items.map Put.entry)).map (·.2)).flatten.length := by
      rw [hinv.pre.size, hinv.pre.written]; simp
    unfold SizeOK at hsz
    generalize hvs : startsFrom 0 ((accepted (items.map Put.entry)).map (·.2)) = vs
    have hvl : vs.length = (accepted (items.map Put.entry)).length := by
      rw [← hvs, startsFrom_length, List.length_map]
    have hvne : vs ≠ [] := by
      intro h0; rw [h0] at hvl
      exact hane (List.eq_nil_of_length_eq_zero hvl.symm)
    have hvlt : ∀ v ∈ vs, v < 4294967296 := by
      intro v hv; rw [← hvs] at hv
      have := (startsFrom_bounds _ 0 v hv).2
      omega
    have h2 := (marshal_length_bounds vs hvne hvlt).2
    rw [hinv.pre.offset, hvs]
    omega

/-! ## byte-level layout of the finished file -/

/-- `Close` writes: the value bytes, C14's marshalled table of their start offsets, the marshalled
key bitmap, and the 17-byte footer pointing at the two middle sections -/
theorem close_layout {K : KeySetOps B} {b : Builder B} {es : List (Nat × Bytes)} (h : Inv K b es)
    (hK : K.Lawful) (hne : es ≠ []) :
    b.close K = some
      ((es.map (·.2)).flatten ++
       (FixedOffset.encOf true (startsFrom 0 (es.map (·.2)))).marshal ++
       K.marshal ((es.map (·.1)).foldl K.add K.empty) ++
       footer (es.map (·.2)).flatten.length
         ((es.map (·.2)).flatten.length +
           (FixedOffset.encOf true (startsFrom 0 (es.map (·.2)))).marshal.length)) := by
  have hp := h.pre
  have hW : b.written = (es.map (·.2)).flatten := by simpa using hp.written
  have hs : b.size = (es.map (·.2)).flatten.length := by rw [hp.size, hW]
  have hemp : K.isEmpty b.keys = false := by
    rw [hK.isEmpty_eq, hp.keys]; cases es <;> simp_all
  have hemp' : K.isEmpty ((es.map (·.1)).foldl K.add K.empty) = false := by rw [← hp.keysVal]; exact hemp
  unfold Builder.close
  simp only [hW, hs, hp.offset, hp.keysVal, hemp', Bool.false_eq_true, if_false]

/-- the footer read back field by field: positions modulo 2^32 (the code stores `uint32(pos)`),
the version byte, the magic number -/
theorem footer_fields (p1 p2 : Nat) :
    (footer p1 p2).length = sstFileFooterSize ∧
    leVal ((footer p1 p2).take 4) = p1 % 4294967296 ∧
    leVal (((footer p1 p2).drop 4).take 4) = p2 % 4294967296 ∧
    (footer p1 p2)[8]? = some version0 ∧
    leVal (((footer p1 p2).drop magicNumberAtFooter).take 8) = magicNumberOffsetFile := by
  refine ⟨footer_length p1 p2, ?_, ?_, ?_, ?_⟩
  · rw [footer_pos1, leVal_leBytes]
  · rw [footer_pos2, leVal_leBytes]
  · simp [footer, leBytes]
  · rw [footer_magic, leVal_leBytes_of_lt _ _ magic_lt]

/-- a file whose last 8 bytes are not the magic number is refused -/
theorem open_refuses_bad_magic (K : KeySetOps B) (full : Bytes)
    (h : leVal ((full.drop (full.length - sstFileFooterSize + magicNumberAtFooter)).take 8) ≠ magicNumberOffsetFile) :
    Reader.open K full = none := by
  unfold Reader.open
  split
  · rfl
  · simp only [h, ne_eq, not_false_eq_true, if_true]

/-! ## rank and the 65536-key containers -/

/-- `Rank(k)` split at k's container: the members in lower containers (the container's *base*)
plus the members of k's own container up to k. The base counts members **below** the container's
first possible key `(k/65536)·65536` — not `Rank` of that key, which also counts the key itself. -/
theorem rank_container_split {K : KeySetOps B} (hK : K.Lawful) (b : B) (k : Nat) :
    K.rank b k =
      (K.toList b).countP (fun x => decide (x < k / 65536 * 65536)) +
      (K.toList b).countP (fun x => decide (x / 65536 = k / 65536 ∧ x % 65536 ≤ k % 65536)) := by
  rw [hK.rank_eq]
  induction K.toList b with
  | nil => rfl
  | cons x t ih =>
    simp only [List.countP_cons, ih]
    have hx := Nat.div_add_mod x 65536
    have hk := Nat.div_add_mod k 65536
    have hxm := Nat.mod_lt x (show 65536 > 0 by decide)
    have hkm := Nat.mod_lt k (show 65536 > 0 by decide)
    by_cases h1 : x ≤ k
    · by_cases h2 : x < k / 65536 * 65536
      · have h3 : ¬ (x / 65536 = k / 65536 ∧ x % 65536 ≤ k % 65536) := by
          intro hc; omega
        simp [h1, h2, h3]; omega
      · have h3 : x / 65536 = k / 65536 ∧ x % 65536 ≤ k % 65536 := by
          have : x / 65536 = k / 65536 := by omega
          exact ⟨this, by omega⟩
        simp [h1, h2, h3]; omega
    · have h2 : ¬ x < k / 65536 * 65536 := by omega
      have h3 : ¬ (x / 65536 = k / 65536 ∧ x % 65536 ≤ k % 65536) := by
        intro hc; omega
      simp [h1, h2, h3]

/-- the base of k's container in terms of `Rank`: `Rank(first key of the container)` minus one if
that first key is itself a member -/
theorem container_base_eq {K : KeySetOps B} (hK : K.Lawful) (b : B) (k : Nat) :
    (K.toList b).countP (fun x => decide (x < k / 65536 * 65536)) + (K.toList b).countP (fun x => decide (x = k / 65536 * 65536)) =
      K.rank b (k / 65536 * 65536) := by
  rw [hK.rank_eq]
  induction K.toList b with
  | nil => rfl
  | cons x t ih =>
    simp only [List.countP_cons, ← ih]
    by_cases h1 : x < k / 65536 * 65536
    · have : ¬ x = k / 65536 * 65536 := by omega
      have : x ≤ k / 65536 * 65536 := by omega
      simp [*]; omega
    · by_cases h2 : x = k / 65536 * 65536
      · simp [h2]; omega
      · have : ¬ x ≤ k / 65536 * 65536 := by omega
        simp [*]

/-! ## FindFiles / FindReaders -/

/-- `FindFiles` consults every file of every level -/
theorem mem_findFiles (levels : List (List FileMeta)) (key : Nat) (f : FileMeta) :
    f ∈ findFiles levels key ↔ f ∈ levels.flatten ∧ f.minKey ≤ key ∧ key ≤ f.maxKey := by
  rw [findFiles_eq, List.mem_filter]
  simp

theorem findReaders_spec {K : KeySetOps B} (fs : Nat → Option Bytes) (levels : List (List FileMeta))
    (ent : FileMeta → List (Nat × Bytes)) (key : Nat) (hok : VersionOK K fs levels.flatten ent) :
    findReaders K fs levels key = some ((findFiles levels key).map (·.fileNumber)) := by
  unfold findReaders
  have : ∀ l : List FileMeta, (∀ f ∈ l, f ∈ levels.flatten) →
      l.mapM (fun f => match fs f.fileNumber with
        | none => none
        | some bytes => (Reader.open K bytes).map (fun _ => f.fileNumber)) = some (l.map (·.fileNumber)) := by
    intro l
    induction l with
    | nil => intro _; rfl
    | cons f t ih =>
      intro hl
      obtain ⟨bytes, r, h1, h2, _, _⟩ := hok f (hl f (List.mem_cons_self))
      simp only [List.mapM_cons, h1, h2, Option.map_some, ih (fun g hg => hl g (List.mem_cons_of_mem _ hg))]
      rfl
  exact this _ (fun f hf => ((mem_findFiles levels key f).mp hf).1)

/-- `FindReaders` when some tables cannot be opened: an error as soon as one of the files found is
among them, otherwise every file found -/
theorem findReaders_failing {K : KeySetOps B} (fs : Nat → Option Bytes) (openFails : Nat → Bool)
    (levels : List (List FileMeta)) (ent : FileMeta → List (Nat × Bytes)) (key : Nat)
    (hok : VersionOK K fs levels.flatten ent) :
    findReaders K (failing fs openFails) levels key =
      if (findFiles levels key).any (fun f => openFails f.fileNumber) then none
      else some ((findFiles levels key).map (·.fileNumber)) := by
  unfold findReaders
  have : ∀ l : List FileMeta, (∀ f ∈ l, f ∈ levels.flatten) →
      l.mapM (fun f => match failing fs openFails f.fileNumber with
        | none => none
        | some bytes => (Reader.open K bytes).map (fun _ => f.fileNumber)) =
      if l.any (fun f => openFails f.fileNumber) then none else some (l.map (·.fileNumber)) := by
    intro l
    induction l with
    | nil => intro _; rfl
    | cons f t ih =>
      intro hl
      have iht := ih (fun g hg => hl g (List.mem_cons_of_mem _ hg))
      by_cases hf : openFails f.fileNumber = true
      · simp [List.mapM_cons, failing, hf]
      · obtain ⟨bytes, r, h1, h2, _, _⟩ := hok f (hl f (List.mem_cons_self))
        have hf' : openFails f.fileNumber = false := by simpa using hf
        simp only [List.mapM_cons, failing, hf', Bool.false_eq_true, if_false, h1, h2, Option.map_some,
          List.any_cons, Bool.false_or, List.map_cons]
        simp only [failing] at iht
        rw [iht]
        split <;> rfl
  exact this _ (fun f hf => ((mem_findFiles levels key f).mp hf).1)

/-- `Load` when some tables cannot be opened: an error as soon as one of the files found is among
them, otherwise the value from every file holding the key -/
theorem loadFiles_failing {K : KeySetOps B} (hK : K.Lawful) (fs : Nat → Option Bytes) (openFails : Nat → Bool)
    (ent : FileMeta → List (Nat × Bytes)) (key : Nat) : ∀ (files : List FileMeta),
    VersionOK K fs files ent →
    loadFiles K (failing fs openFails) key (files.filter (fun f => decide (key ≥ f.minKey ∧ key ≤ f.maxKey))) =
      if (files.filter (fun f => decide (key ≥ f.minKey ∧ key ≤ f.maxKey))).any (fun f => openFails f.fileNumber)
      then none else some (files.filterMap (fun f => lookup key (ent f))) := by
  intro files
  induction files with
  | nil => intro _; rfl
  | cons f rest ih =>
    intro hok
    have hrest : VersionOK K fs rest ent := fun g hg => hok g (List.mem_cons_of_mem _ hg)
    have ihr := ih hrest
    obtain ⟨bytes, r, hfs, hopen, hrepr, hrange⟩ := hok f (List.mem_cons_self)
    by_cases hin : key ≥ f.minKey ∧ key ≤ f.maxKey
    · rw [List.filter_cons_of_pos (by simpa using hin)]
      by_cases hf : openFails f.fileNumber = true
      · simp [loadFiles, failing, hf]
      · have hf' : openFails f.fileNumber = false := by simpa using hf
        simp only [loadFiles, failing, hf', Bool.false_eq_true, if_false, hfs, hopen, List.any_cons, Bool.false_or]
        cases hfind : (ent f).find? (fun e => e.1 = key) with
        | none =>
          have hab : r.get K key = .absent := by
            apply get_absent hK hrepr
            intro e he hek
            have := List.find?_eq_none.mp hfind e he
            simp [hek] at this
          simp only [hab, ihr, List.filterMap_cons, lookup, hfind, Option.map_none]
        | some e =>
          have hek : e.1 = key := by simpa using List.find?_some hfind
          have hmem : e ∈ ent f := List.mem_of_find?_eq_some hfind
          have hpr : r.get K key = .ok e.2 := by rw [← hek]; exact get_present hK hrepr e hmem
          simp only [hpr, ihr, List.filterMap_cons, lookup, hfind, Option.map_some]
          by_cases ha : ((rest.filter (fun f => decide (key ≥ f.minKey ∧ key ≤ f.maxKey))).any
              (fun f => openFails f.fileNumber)) = true
          · rw [if_pos ha, if_pos ha]
          · rw [if_neg ha, if_neg ha]
    · rw [List.filter_cons_of_neg (by simpa using hin)]
      have hnone : lookup key (ent f) = none := by
        unfold lookup
        cases hfind : (ent f).find? (fun e => e.1 = key) with
        | none => rfl
        | some e =>
          exfalso
          have hek : e.1 = key := by simpa using List.find?_some hfind
          have := hrange e (List.mem_of_find?_eq_some hfind)
          rw [hek] at this; exact hin this
      simp only [List.filterMap_cons, hnone]
      exact ihr

end LinVerif.Table
