/-
C01 helper lemmas: the varint codec and the edit-log codec round trips.
-/
import LinVerif.Model.Manifest

namespace LinVerif.Kv

theorem getUvarint_putAux (f : Nat) : ∀ (n : Nat) (rest : Bytes), n ≤ f →
    getUvarint (putUvarintAux f n ++ rest) = some (n, rest) := by
  induction f with
  | zero =>
    intro n rest h
    have : n = 0 := by omega
    subst this
    simp [putUvarintAux, getUvarint]
  | succ f ih =>
    intro n rest h
    unfold putUvarintAux
    by_cases hn : n < 128
    · simp [hn, getUvarint]
    · have h2 : n / 128 ≤ f := by omega
      simp only [hn, if_false, List.cons_append, getUvarint]
      have h3 : ¬ (n % 128 + 128 < 128) := by omega
      simp only [h3, if_false, ih (n / 128) rest h2]
      congr 2
      omega

theorem getUvarint_put (n : Nat) (rest : Bytes) : getUvarint (putUvarint n ++ rest) = some (n, rest) :=
  getUvarint_putAux n n rest (Nat.le_refl n)

theorem unzig_zig (i : Int) : unzig (zig i) = i := by
  unfold unzig zig
  by_cases h : 0 ≤ i
  · simp only [h, if_true]
    have : (2 * i).toNat % 2 = 0 := by omega
    simp only [this, if_true]
    omega
  · simp only [h, if_false]
    have : (-(2 * i) - 1).toNat % 2 ≠ 0 := by omega
    simp only [this, if_false]
    omega

theorem getVarint_put (i : Int) (rest : Bytes) : getVarint (putVarint i ++ rest) = some (i, rest) := by
  simp [getVarint, putVarint, getUvarint_put, unzig_zig]

theorem decode2_put (x y : Int) (rest : Bytes) :
    decode2 (putVarint x ++ (putVarint y ++ rest)) = some (x, y) := by
  simp [decode2, getVarint_put]

theorem decodeRef_put (st : Bytes) (fam f : Int) (rest : Bytes) :
    decodeRef (putVarint f ++ (putVarint fam ++ (putVarint (st.length : Nat) ++ (st ++ rest)))) = some (st, fam, f) := by
  simp [decodeRef, getVarint_put]

/-- Decode ∘ Encode = id for every edit-log kind (trailing bytes are ignored). -/
theorem decodeLog_encodeLog (l : Log) (rest : Bytes) :
    decodeLog l.tag (encodeLog l ++ rest) = some l := by
  cases l with
  | newFile lvl f mn mx sz =>
    simp [decodeLog, encodeLog, Log.tag, List.append_assoc, getVarint_put, getUvarint_put]
  | deleteFile lvl f => simp [decodeLog, encodeLog, Log.tag, List.append_assoc, decode2_put]
  | nextFileNumber n => simp [decodeLog, encodeLog, Log.tag, getVarint_put]
  | newRollupFile f i => simp [decodeLog, encodeLog, Log.tag, List.append_assoc, decode2_put]
  | deleteRollupFile f i => simp [decodeLog, encodeLog, Log.tag, List.append_assoc, decode2_put]
  | newReferenceFile st fam f => simp [decodeLog, encodeLog, Log.tag, List.append_assoc, decodeRef_put]
  | deleteReferenceFile st fam f => simp [decodeLog, encodeLog, Log.tag, List.append_assoc, decodeRef_put]
  | sequence l s => simp [decodeLog, encodeLog, Log.tag, List.append_assoc, decode2_put]

theorem tag_pos (l : Log) : ¬ ((l.tag : Int) < 0) := by
  cases l <;> simp [Log.tag]

theorem unmarshalLogs_marshalLogs (ls : List Log) (rest : Bytes) :
    unmarshalLogs ls.length (marshalLogs ls ++ rest) = some ls := by
  induction ls with
  | nil => simp [unmarshalLogs]
  | cons l t ih =>
    simp only [List.length_cons, marshalLogs, marshalLog, List.append_assoc, unmarshalLogs, getVarint_put,
      getUvarint_put]
    have h1 : ¬ ((l.tag : Int) < 0) := tag_pos l
    simp only [h1, if_false]
    have h2 : ¬ ((encodeLog l ++ (marshalLogs t ++ rest)).length < (encodeLog l).length) := by
      simp [List.length_append]
    simp only [h2, if_false, List.take_left', List.drop_left', Int.toNat_natCast]
    have := decodeLog_encodeLog l []
    simp only [List.append_nil] at this
    simp [this, ih]

/-- editLog.unmarshal ∘ editLog.marshal = id -/
theorem unmarshal_marshal (el : EditLog) : unmarshal (marshal el) = some el := by
  have h := unmarshalLogs_marshalLogs el.logs []
  simp only [List.append_nil] at h
  simp [unmarshal, marshal, getVarint_put, getUvarint_put, h]

end LinVerif.Kv
