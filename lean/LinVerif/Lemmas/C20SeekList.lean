/-
C20 helper lemmas: what the landing specification `SeekOK` means on the sorted pair list
(lower bound, lower bound after one conditional step, prefix enumeration).
-/
import LinVerif.Lemmas.C20Seek
import LinVerif.Lemmas.C20Build

set_option linter.unusedSimpArgs false
set_option linter.unusedVariables false

namespace LinVerif.Lemmas.C20
open LinVerif.TrieTree

theorem dropWhile_append_all {α} (p : α → Bool) (D S : List α) (h : ∀ d ∈ D, p d = true) :
    (D ++ S).dropWhile p = S.dropWhile p := by
  induction D with
  | nil => rfl
  | cons x xs ih =>
    simp only [List.cons_append, List.dropWhile_cons, h x (List.mem_cons_self ..), if_true]
    exact ih (fun d hd => h d (List.mem_cons_of_mem _ hd))

theorem dropWhile_head_false {α} (p : α → Bool) (R : List α) (h : ∀ y ∈ R.head?, p y = false) :
    R.dropWhile p = R := by
  cases R with
  | nil => rfl
  | cons y ys =>
    have := h y (by simp)
    simp [List.dropWhile_cons, this]

/-- one conditional `Next()`: step when the landing key is smaller than the probe -/
def advance (T : Key) : List KV → List KV
  | [] => []
  | x :: R => if keyLt x.1 T then R else x :: R

/-- after `Seek`, stepping once when the landing key is smaller gives exactly the lower bound -/
theorem seekOK_lowerBound {T : Key} {L S : List KV} (h : SeekOK T L S) :
    lowerBound T L = advance T S := by
  obtain ⟨D, hL, hD, hne, ht, _⟩ := h
  unfold lowerBound
  rw [hL, dropWhile_append_all _ D S hD]
  cases S with
  | nil => exact absurd rfl hne
  | cons x R =>
    simp only [List.dropWhile_cons, advance]
    have hR : R.dropWhile (fun kv => keyLt kv.1 T) = R := by
      apply dropWhile_head_false
      intro y hy
      exact ht y (List.mem_of_mem_head? hy)
    by_cases hx : keyLt x.1 T = true
    · simp [hx, hR]
    · simp [hx]

/-- the landing position is the lower bound or the key just before it -/
theorem seekOK_cases {T : Key} {L S : List KV} (h : SeekOK T L S) :
    S = lowerBound T L ∨ ∃ x, keyLt x.1 T = true ∧ S = x :: lowerBound T L := by
  have hlb := seekOK_lowerBound h
  obtain ⟨D, hL, hD, hne, ht, _⟩ := h
  cases S with
  | nil => exact absurd rfl hne
  | cons x R =>
    simp only [advance] at hlb
    by_cases hx : keyLt x.1 T = true
    · right; exact ⟨x, hx, by rw [hlb]; simp [hx]⟩
    · left; rw [hlb]; simp [hx]

/-! ### keys with a given prefix are contiguous in a sorted list -/

theorem prefix_between : ∀ (T y : Key) (r : Key), keyLt y T = false → keyLt y (T ++ r) = true → hasPrefix T y = true
  | [], y, r, _, _ => by simp [hasPrefix]
  | t :: T', [], r, h1, _ => by simp [keyLt_nil_cons] at h1
  | t :: T', y0 :: y', r, h1, h2 => by
    rw [keyLt_cons_cons] at h1
    rw [List.cons_append, keyLt_cons_cons] at h2
    simp only [Bool.or_eq_false_iff, decide_eq_false_iff_not, Bool.and_eq_false_iff, beq_eq_false_iff_ne] at h1
    simp only [Bool.or_eq_true, decide_eq_true_eq, Bool.and_eq_true, beq_iff_eq] at h2
    have hy0 : y0 = t := by
      rcases h2 with h2 | ⟨h2, _⟩
      · omega
      · exact h2
    subst hy0
    have h1' : keyLt y' T' = false := by
      rcases h1.2 with h | h
      · exact absurd rfl h
      · exact h
    have h2' : keyLt y' (T' ++ r) = true := by
      rcases h2 with h2 | ⟨_, h2⟩
      · omega
      · exact h2
    simp [hasPrefix, prefix_between T' y' r h1' h2']

theorem filter_eq_takeWhile_prefix (T : Key) : ∀ (S : List KV), Sorted S → (∀ y ∈ S, keyLt y.1 T = false) →
    S.filter (fun kv => hasPrefix T kv.1) = S.takeWhile (fun kv => hasPrefix T kv.1)
  | [], _, _ => rfl
  | x :: R, hs, hge => by
    have ih := filter_eq_takeWhile_prefix T R hs.tail (fun y hy => hge y (List.mem_cons_of_mem _ hy))
    simp only [List.filter_cons, List.takeWhile_cons]
    by_cases hx : hasPrefix T x.1 = true
    · simp [hx, ih]
    · simp only [hx, Bool.false_eq_true, if_false]
      -- nothing after x has the prefix either
      apply List.filter_eq_nil_iff.2
      intro z hz hpz
      obtain ⟨r, hr⟩ := (hasPrefix_iff T z.1).1 hpz
      have hxz := hs.head_lt z hz
      rw [hr] at hxz
      exact hx (prefix_between T x.1 r (hge x (List.mem_cons_self ..)) hxz)

/-- prefix enumeration: `Seek(prefix)` then `Next` while the key has the prefix -/
theorem seekOK_prefix {T : Key} {L S : List KV} (hs : Sorted L) (h : SeekOK T L S) :
    S.takeWhile (fun kv => hasPrefix T kv.1) = L.filter (fun kv => hasPrefix T kv.1) := by
  obtain ⟨D, hL, hD, hne, ht, hp⟩ := h
  have hDnil : D.filter (fun kv => hasPrefix T kv.1) = [] := by
    apply List.filter_eq_nil_iff.2
    intro d hd
    simp [no_prefix_of_lt (hD d hd)]
  cases S with
  | nil => exact absurd rfl hne
  | cons x R =>
    by_cases hx : keyLt x.1 T = true
    · -- landed before the lower bound: no key has the prefix at all
      have hnone := hp x rfl hx
      have h1 : (x :: R).takeWhile (fun kv => hasPrefix T kv.1) = [] := by
        simp [List.takeWhile_cons, no_prefix_of_lt hx]
      have h2 : L.filter (fun kv => hasPrefix T kv.1) = [] := by
        apply List.filter_eq_nil_iff.2
        intro y hy
        simp [hnone y hy]
      rw [h1, h2]
    · have hxf : keyLt x.1 T = false := by simpa using hx
      have hSs : Sorted (x :: R) := by
        rw [hL] at hs
        exact (List.pairwise_append.1 hs).2.1
      have hge : ∀ y ∈ x :: R, keyLt y.1 T = false := by
        intro y hy
        rcases List.mem_cons.1 hy with rfl | hy
        · exact hxf
        · exact ht y (by simpa using hy)
      rw [hL, List.filter_append, hDnil, List.nil_append, filter_eq_takeWhile_prefix T (x :: R) hSs hge]

/-- the same after the conditional step of the repaired `Seek` -/
theorem seekOK_prefix_advance {T : Key} {L S : List KV} (hs : Sorted L) (h : SeekOK T L S) :
    (advance T S).takeWhile (fun kv => hasPrefix T kv.1) = L.filter (fun kv => hasPrefix T kv.1) := by
  have hp := seekOK_prefix hs h
  obtain ⟨D, hL, hD, hne, ht, hpre⟩ := h
  cases S with
  | nil => exact absurd rfl hne
  | cons x R =>
    by_cases hx : keyLt x.1 T = true
    · have hnone := hpre x rfl hx
      simp only [advance, hx, if_true]
      have h2 : L.filter (fun kv => hasPrefix T kv.1) = [] := by
        apply List.filter_eq_nil_iff.2
        intro y hy
        simp [hnone y hy]
      rw [h2]
      cases R with
      | nil => rfl
      | cons y ys =>
        have : hasPrefix T y.1 = false := hnone y (by rw [hL]; simp)
        simp [List.takeWhile_cons, this]
    · simp only [advance, hx]
      exact hp

theorem advance_nil_probe (S : List KV) : advance [] S = S := by
  cases S with
  | nil => rfl
  | cons x R => simp [advance, keyLt_nil_right]

/-- with the empty prefix nothing is skipped -/
theorem seekOK_nil {L S : List KV} (h : SeekOK [] L S) : S = L := by
  obtain ⟨D, hL, hD, _, _, _⟩ := h
  cases D with
  | nil => simp [hL]
  | cons d ds =>
    have := hD d (List.mem_cons_self ..)
    simp [keyLt_nil_right] at this

end LinVerif.Lemmas.C20
