/-
Helper lemmas for C12: merging what a set of leaves emitted equals aggregating all their data.
-/
import LinVerif.Lemmas.C12Emit
import LinVerif.Lemmas.C12Ctx

namespace LinVerif.RootMerge

/-- what the merge and the select evaluation can see of a spec list: per field name the type and
the aggregate kinds of the FIRST spec with that name -/
def specView (specs : List Spec) (f : FName) : Option (Nat × List Kind) :=
  (specs.find? (fun sp => sp.name == f)).map (fun sp => (sp.ftype, sp.kinds))

/-- "the same field specs": equal up to the order of the specs and of their function lists -/
def SpecEquiv (a b : List Spec) : Prop := ∀ f, specView a f = specView b f

theorem kindsOf_eq_view (specs : List Spec) (f : FName) :
    kindsOf specs f = (specView specs f).map Prod.snd := by
  unfold kindsOf specView
  cases specs.find? (fun sp => sp.name == f) <;> rfl

theorem kindsOf_congr {a b : List Spec} (h : SpecEquiv a b) (f : FName) : kindsOf a f = kindsOf b f := by
  rw [kindsOf_eq_view, kindsOf_eq_view, h f]

theorem hasKind_congr {a b : List Spec} (h : SpecEquiv a b) (f : FName) (k : Kind) :
    hasKind a f k = hasKind b f k := by
  unfold hasKind; rw [kindsOf_congr h f]

theorem SpecEquiv.symm {a b : List Spec} (h : SpecEquiv a b) : SpecEquiv b a := fun f => (h f).symm
theorem SpecEquiv.trans {a b c : List Spec} (h : SpecEquiv a b) (h2 : SpecEquiv b c) : SpecEquiv a c :=
  fun f => (h f).trans (h2 f)
theorem SpecEquiv.refl (a : List Spec) : SpecEquiv a a := fun _ => rfl

/-- every field's aggregator has exactly one kind and it is one of sum/count/min/max -/
def Simple (specs : List Spec) : Prop :=
  ∀ f ks, kindsOf specs f = some ks → ∃ k, ks = [k] ∧ k.comm = true

theorem Simple.of_hasKind {specs : List Spec} (hs : Simple specs) {f : FName} {k : Kind}
    (h : hasKind specs f k = true) : kindsOf specs f = some [k] ∧ k.comm = true := by
  unfold hasKind at h
  cases hk : kindsOf specs f with
  | none => rw [hk] at h; cases h
  | some ks =>
    rw [hk] at h
    obtain ⟨k', rfl, hc⟩ := hs f ks hk
    have : k = k' := by simpa using h
    subst this
    exact ⟨rfl, hc⟩

/-- one leaf node: its (node-local) field specs and the grouped per-series results of all its
shards in the order its reduce sees them -/
structure LeafIn where
  specs : List Spec
  its : List TS

/-- the leaf's reduce aggregator -/
def LeafIn.agg (cap : Nat) (L : LeafIn) : Agg := (Agg.new L.specs cap).aggregateAll .code L.its

/-- what the leaf answers to a single receiver -/
def LeafIn.resp (cap : Nat) (L : LeafIn) : Resp := .ok (leafPayload .code L.specs cap L.its)

structure LeafIn.OK (sp0 : List Spec) (L : LeafIn) : Prop where
  equiv : SpecEquiv L.specs sp0
  nodup : (L.specs.map (·.name)).Nodup
  nonempty : L.specs.isEmpty = false

theorem leafPayload_series (v : Variant) (specs : List Spec) (cap : Nat) (its : List TS) :
    (leafPayload v specs cap its).series = ((Agg.new specs cap).aggregateAll v its).emit := by
  unfold leafPayload
  by_cases h : its.isEmpty = true
  · have : its = [] := by simpa using h
    subst this
    simp [Agg.aggregateAll, Agg.emit, Agg.new]
  · simp [h]

/-- the naive answer: per group, field, slot the aggregate of every value any series has there -/
def naiveCells (sp0 : List Spec) (cap : Nat) (its : List TS) : Cells :=
  fun t f k s => if hasKind sp0 f k = true then foldVals k (valsAt cap (its.flatMap TS.atoms) t f s) else none

def NaiveGroup (its : List TS) (t : Nat) : Prop := ∃ it ∈ its, it.tags = t ∧ it.fields.isEmpty = false

def NaiveTouched (sp0 : List Spec) (its : List TS) (t f : Nat) : Prop :=
  (kindsOf sp0 f).isSome = true ∧ ∃ it ∈ its, it.tags = t ∧ ∃ fd ∈ it.fields, fd.name = f ∧ fd.prims.isEmpty = false

/-- the observable content of an aggregator equals the naive aggregate over the data `its` -/
structure IsNaive (sp0 : List Spec) (cap : Nat) (its : List TS) (A : Agg) : Prop where
  cap_eq : A.cap = cap
  specs_equiv : SpecEquiv A.specs sp0
  cells_eq : A.cells = naiveCells sp0 cap its
  keys_iff : ∀ t, t ∈ A.keys ↔ NaiveGroup its t
  touched_iff : ∀ t f, A.touched t f = true ↔ NaiveTouched sp0 its t f

/-- a sender (leaf or intermediate): an aggregator that started empty, together with the data it
stands for -/
structure Src (sp0 : List Spec) (cap : Nat) where
  A : Agg
  its : List TS
  wf : A.WF
  nodup : (A.specs.map (·.name)).Nodup
  nonempty : A.specs.isEmpty = false
  naive : IsNaive sp0 cap its A

theorem naiveTouched_congr {a b : List Spec} (h : SpecEquiv a b) (its : List TS) (t f : Nat) :
    NaiveTouched a its t f ↔ NaiveTouched b its t f := by
  unfold NaiveTouched; rw [kindsOf_congr h]

theorem naiveCells_congr {a b : List Spec} (h : SpecEquiv a b) (cap : Nat) (its : List TS) :
    naiveCells a cap its = naiveCells b cap its := by
  funext t f k s; unfold naiveCells; rw [hasKind_congr h]

theorem emitTS_tags (a : Agg) (t : Nat) : (a.emitTS t).tags = t := rfl

theorem touched_iff (v : Variant) (a : Agg) (tss : List TS) (t f : Nat) :
    (a.aggregateAll v tss).touched t f = true ↔
      a.touched t f = true ∨ NaiveTouched a.specs tss t f := by
  rw [touched_aggregateAll]
  simp only [Bool.or_eq_true, Bool.and_eq_true, List.any_eq_true, beq_iff_eq, NaiveTouched,
    Bool.not_eq_true', List.isEmpty_eq_false_iff]

/-- a fresh aggregator fed with `its` is naive for `its` -/
theorem isNaive_new_aggregateAll (sp0 sp : List Spec) (he : SpecEquiv sp sp0) (cap : Nat) (its : List TS) :
    IsNaive sp0 cap its ((Agg.new sp cap).aggregateAll .code its) := by
  constructor
  · rw [aggregateAll_cap]; rfl
  · rw [aggregateAll_specs]; exact he
  · funext t f k s
    rw [cells_new_aggregateAll .code rfl, ← naiveCells_congr he]; rfl
  · intro t
    rw [mem_keys_aggregateAll]
    simp [Agg.new, NaiveGroup]
  · intro t f
    rw [touched_iff, ← naiveTouched_congr he]
    simp only [Agg.new, Bool.false_eq_true, false_or]

/-- a leaf as a sender -/
def LeafIn.src (sp0 : List Spec) (cap : Nat) (L : LeafIn) (h : L.OK sp0) : Src sp0 cap where
  A := L.agg cap
  its := L.its
  wf := wf_new_aggregateAll .code rfl _ _ _
  nodup := by rw [show (L.agg cap).specs = L.specs from aggregateAll_specs _ _ _]; exact h.nodup
  nonempty := by rw [show (L.agg cap).specs = L.specs from aggregateAll_specs _ _ _]; exact h.nonempty
  naive := isNaive_new_aggregateAll sp0 L.specs h.equiv cap L.its

/-- what the receiver reads from one sender for one array position: its merged cell, once -/
theorem valsAt_src (sp0 : List Spec) (hs : Simple sp0) (cap : Nat) (S : Src sp0 cap)
    (t f s : Nat) (k : Kind) (hk : hasKind sp0 f k = true) :
    valsAt cap (S.A.emit.flatMap TS.atoms) t f s =
      (foldVals k (valsAt cap (S.its.flatMap TS.atoms) t f s)).toList := by
  have hk0 := (hs.of_hasKind hk).1
  have hkL : kindsOf S.A.specs f = some [k] := by
    rw [kindsOf_congr S.naive.specs_equiv]; exact hk0
  have := valsAt_emit S.A S.wf S.nodup t f s k hkL
  rw [S.naive.cap_eq] at this
  rw [this, S.naive.cells_eq]
  unfold naiveCells
  rw [if_pos hk]

/-- merging what a list of senders emitted (in any given order) = aggregating all their data -/
theorem cells_of_sources (sp0 sp : List Spec) (hs : Simple sp0) (he : SpecEquiv sp sp0) (cap : Nat)
    (Ss : List (Src sp0 cap)) (t f : Nat) (k : Kind) (s : Nat) :
    ((Agg.new sp cap).aggregateAll .code (Ss.flatMap (fun S => S.A.emit))).cells t f k s =
      naiveCells sp0 cap (Ss.flatMap (·.its)) t f k s := by
  rw [cells_new_aggregateAll .code rfl]
  unfold naiveCells
  rw [hasKind_congr he]
  by_cases hk : hasKind sp0 f k = true
  · rw [if_pos hk, if_pos hk]
    rw [List.flatMap_assoc, valsAt_flatMap, List.flatMap_assoc, valsAt_flatMap]
    have h1 : Ss.flatMap (fun S => valsAt cap (S.A.emit.flatMap TS.atoms) t f s) =
        (Ss.map (fun S => valsAt cap (S.its.flatMap TS.atoms) t f s)).flatMap
          (fun l => (foldVals k l).toList) := by
      rw [List.flatMap_map]
      apply List.flatMap_congr
      intro S _
      exact valsAt_src sp0 hs cap S t f s k hk
    rw [h1, foldVals_flatten, List.flatten_eq_flatMap, List.flatMap_map]
    rfl
  · rw [if_neg hk, if_neg hk]

theorem keys_of_sources (sp0 sp : List Spec) (cap : Nat) (Ss : List (Src sp0 cap)) (t : Nat) :
    t ∈ ((Agg.new sp cap).aggregateAll .code (Ss.flatMap (fun S => S.A.emit))).keys ↔
      NaiveGroup (Ss.flatMap (·.its)) t := by
  rw [mem_keys_aggregateAll]
  simp only [Agg.new, List.not_mem_nil, false_or, List.mem_flatMap]
  constructor
  · rintro ⟨ts, ⟨S, hSm, hts⟩, rfl, -⟩
    obtain ⟨-, t', ht', rfl⟩ := (mem_emit _ ts).mp hts
    obtain ⟨it, hit, h1, h2⟩ := (S.naive.keys_iff t').mp ht'
    exact ⟨it, List.mem_flatMap.mpr ⟨S, hSm, hit⟩, h1, h2⟩
  · rintro ⟨it, hit, h1, h2⟩
    obtain ⟨S, hSm, hitS⟩ := List.mem_flatMap.mp hit
    have hk : t ∈ S.A.keys := (S.naive.keys_iff t).mpr ⟨it, hitS, h1, h2⟩
    refine ⟨S.A.emitTS t, ⟨S, hSm, ?_⟩, rfl, ?_⟩
    · exact (mem_emit _ _).mpr ⟨S.nonempty, t, hk, rfl⟩
    · rw [emitTS_fields_isEmpty]; exact S.nonempty

theorem touched_of_sources (sp0 sp : List Spec) (hs : Simple sp0) (he : SpecEquiv sp sp0) (cap : Nat)
    (Ss : List (Src sp0 cap)) (t f : Nat) :
    ((Agg.new sp cap).aggregateAll .code (Ss.flatMap (fun S => S.A.emit))).touched t f = true ↔
      NaiveTouched sp0 (Ss.flatMap (·.its)) t f := by
  rw [RootMerge.touched_iff]
  simp only [Agg.new, Bool.false_eq_true, false_or]
  rw [naiveTouched_congr he]
  constructor
  · rintro ⟨h0, ts, hts, rfl, fd, hfd, rfl, hp⟩
    obtain ⟨S, hSm, htsS⟩ := List.mem_flatMap.mp hts
    obtain ⟨-, t', ht', rfl⟩ := (mem_emit _ ts).mp htsS
    simp only [Agg.emitTS, List.mem_map] at hfd
    obtain ⟨spf, hspf, rfl⟩ := hfd
    simp only at hp ⊢
    have htouched : S.A.touched t' spf.name = true := by
      by_contra hn
      simp [hn] at hp
    obtain ⟨-, it, hit, h1, fd', hfd', h2, h3⟩ := (S.naive.touched_iff t' spf.name).mp htouched
    exact ⟨h0, it, List.mem_flatMap.mpr ⟨S, hSm, hit⟩, h1, fd', hfd', h2, h3⟩
  · rintro ⟨h0, it, hit, rfl, fd, hfd, rfl, hp⟩
    refine ⟨h0, ?_⟩
    obtain ⟨S, hSm, hitS⟩ := List.mem_flatMap.mp hit
    have hsomeS : (kindsOf S.A.specs fd.name).isSome = true := by
      rw [kindsOf_congr S.naive.specs_equiv]; exact h0
    have htouched : S.A.touched it.tags fd.name = true :=
      (S.naive.touched_iff _ _).mpr ⟨h0, it, hitS, rfl, fd, hfd, rfl, hp⟩
    have hkey : it.tags ∈ S.A.keys :=
      (S.naive.keys_iff _).mpr ⟨it, hitS, rfl, by
        cases hf : it.fields with
        | nil => rw [hf] at hfd; cases hfd
        | cons _ _ => rfl⟩
    obtain ⟨ks, hks⟩ := Option.isSome_iff_exists.mp hsomeS
    obtain ⟨spf, hspf, hname, hkinds, -⟩ := kindsOf_eq_some _ _ _ hks
    obtain ⟨k, rfl, -⟩ := hs fd.name ks (by rw [← kindsOf_congr S.naive.specs_equiv]; exact hks)
    refine ⟨S.A.emitTS it.tags, List.mem_flatMap.mpr ⟨S, hSm, ?_⟩, rfl, ?_⟩
    · exact (mem_emit _ _).mpr ⟨S.nonempty, _, hkey, rfl⟩
    · refine ⟨_, List.mem_map.mpr ⟨spf, hspf, rfl⟩, hname, ?_⟩
      simp only
      rw [hname, htouched, hkinds]
      rfl

/-- the aggregator that merged what a list of senders emitted is naive for all their data -/
theorem isNaive_of_sources (sp0 sp : List Spec) (hs : Simple sp0) (he : SpecEquiv sp sp0) (cap : Nat)
    (Ss : List (Src sp0 cap)) :
    IsNaive sp0 cap (Ss.flatMap (·.its))
      ((Agg.new sp cap).aggregateAll .code (Ss.flatMap (fun S => S.A.emit))) := by
  constructor
  · rw [aggregateAll_cap]; rfl
  · rw [aggregateAll_specs]; exact he
  · funext t f k s; exact cells_of_sources sp0 sp hs he cap Ss t f k s
  · exact keys_of_sources sp0 sp cap Ss
  · exact touched_of_sources sp0 sp hs he cap Ss

/-- the leaves of a layout as senders -/
def srcsOf (sp0 : List Spec) (cap : Nat) : (Ls : List LeafIn) → (∀ L ∈ Ls, L.OK sp0) → List (Src sp0 cap)
  | [], _ => []
  | L :: Ls, h => L.src sp0 cap (h L List.mem_cons_self) ::
      srcsOf sp0 cap Ls (fun L' hL' => h L' (List.mem_cons_of_mem _ hL'))

theorem srcsOf_emit (sp0 : List Spec) (cap : Nat) (Ls : List LeafIn) (h : ∀ L ∈ Ls, L.OK sp0) :
    (srcsOf sp0 cap Ls h).flatMap (fun S => S.A.emit) =
      Ls.flatMap (fun L => (leafPayload .code L.specs cap L.its).series) := by
  induction Ls with
  | nil => rfl
  | cons L Ls ih =>
    simp only [srcsOf, List.flatMap_cons, ih, leafPayload_series]
    rfl

theorem srcsOf_its (sp0 : List Spec) (cap : Nat) (Ls : List LeafIn) (h : ∀ L ∈ Ls, L.OK sp0) :
    (srcsOf sp0 cap Ls h).flatMap (·.its) = Ls.flatMap (·.its) := by
  induction Ls with
  | nil => rfl
  | cons L Ls ih =>
    simp only [srcsOf, List.flatMap_cons, ih]
    rfl

/-! ### a delivery schedule: the nodes in the order their responses are handled -/

/-- a target node of the plan: a leaf with data structures to report, or a node that answers
"... not found" (it holds no shard with the metric / no matching series) -/
inductive Node where
  | leaf (L : LeafIn)
  | absent

def Node.resp (cap : Nat) : Node → Resp
  | .leaf L => L.resp cap
  | .absent => .notFound

def leavesOf (ns : List Node) : List LeafIn :=
  ns.filterMap (fun n => match n with | .leaf L => some L | .absent => none)

theorem leavesOf_perm {a b : List Node} (h : a.Perm b) : (leavesOf a).Perm (leavesOf b) := h.filterMap _

theorem goodPayloads_nodes (sp0 : List Spec) (cap : Nat) (ns : List Node) (h : ∀ L ∈ leavesOf ns, L.OK sp0) :
    goodPayloads (ns.map (Node.resp cap)) = (leavesOf ns).map (fun L => leafPayload .code L.specs cap L.its) := by
  induction ns with
  | nil => rfl
  | cons n ns ih =>
    cases n with
    | absent =>
      have : leavesOf (Node.absent :: ns) = leavesOf ns := rfl
      rw [List.map_cons, goodPayloads_cons, this, ih (by rw [this] at h; exact h)]
      rfl
    | leaf L =>
      have hl : leavesOf (Node.leaf L :: ns) = L :: leavesOf ns := rfl
      have hOK := h L (by rw [hl]; exact List.mem_cons_self)
      rw [List.map_cons, goodPayloads_cons, hl, List.map_cons,
        ih (fun L' hL' => h L' (by rw [hl]; exact List.mem_cons_of_mem _ hL'))]
      have : goodPayloads [Node.resp cap (Node.leaf L)] = [leafPayload .code L.specs cap L.its] := by
        simp only [goodPayloads, Node.resp, LeafIn.resp, List.filterMap_cons, List.filterMap_nil]
        have : (leafPayload .code L.specs cap L.its).specs.isEmpty = false := hOK.nonempty
        simp [this]
      rw [this]; rfl

theorem countNF_cons (r : Resp) (rs : List Resp) :
    countNF (r :: rs) = countNF rs + (if r = .notFound then 1 else 0) := by
  simp only [countNF, List.countP_cons]
  by_cases h : r = .notFound <;> simp [h]

theorem countNF_nodes (cap : Nat) (ns : List Node) :
    countNF (ns.map (Node.resp cap)) + (leavesOf ns).length = ns.length := by
  induction ns with
  | nil => rfl
  | cons n ns ih =>
    cases n with
    | absent =>
      have hl : leavesOf (Node.absent :: ns) = leavesOf ns := rfl
      rw [List.map_cons, countNF_cons, hl, List.length_cons]
      simp only [Node.resp, if_true]
      omega
    | leaf L =>
      have hl : leavesOf (Node.leaf L :: ns) = L :: leavesOf ns := rfl
      rw [List.map_cons, countNF_cons, hl, List.length_cons, List.length_cons]
      have : Node.resp cap (Node.leaf L) ≠ Resp.notFound := by simp [Node.resp, LeafIn.resp]
      rw [if_neg this]
      omega

theorem noFailure_nodes (cap : Nat) (ns : List Node) : ∀ r ∈ ns.map (Node.resp cap), isFailure r = false := by
  intro r hr
  obtain ⟨n, -, rfl⟩ := List.mem_map.mp hr
  cases n <;> rfl

theorem handle_hdrCap (v : Variant) (c : Ctx) (r : Resp) :
    (c.handle v r).hdrCap = match goodPayloads [r] with | p :: _ => p.cap | [] => c.hdrCap := by
  cases r with
  | ok p =>
    simp only [Ctx.handle, Ctx.absorb, goodPayloads, List.filterMap_cons, List.filterMap_nil]
    by_cases hs : p.specs.isEmpty = true
    · simp [hs]
    · simp [hs]
  | notFound => simp only [Ctx.handle, Ctx.absorb, goodPayloads]; split <;> rfl
  | error => rfl
  | bad => rfl

theorem handleAll_hdrCap (v : Variant) (cap : Nat) (c : Ctx) (rs : List Resp)
    (h : ∀ p ∈ goodPayloads rs, p.cap = cap) (h0 : c.hdrCap = cap ∨ goodPayloads rs ≠ []) :
    (c.handleAll v rs).hdrCap = cap := by
  induction rs generalizing c with
  | nil => rcases h0 with h0 | h0
           · exact h0
           · exact absurd rfl h0
  | cons r rs ih =>
    have h2 : c.handleAll v (r :: rs) = (c.handle v r).handleAll v rs := rfl
    rw [h2]
    rw [goodPayloads_cons] at h h0
    apply ih
    · intro p hp; exact h p (List.mem_append_right _ hp)
    · rw [handle_hdrCap]
      cases hg : goodPayloads [r] with
      | nil =>
        rw [hg] at h0
        simpa using h0
      | cons p ps => exact Or.inl (h p (by rw [hg]; simp))

theorem naiveCells_perm (sp0 : List Spec) (hs : Simple sp0) (cap : Nat) {a b : List TS} (h : a.Perm b) :
    naiveCells sp0 cap a = naiveCells sp0 cap b := by
  funext t f k s
  unfold naiveCells
  by_cases hk : hasKind sp0 f k = true
  · rw [if_pos hk, if_pos hk]
    exact foldVals_perm k (hs.of_hasKind hk).2 (valsAt_perm cap (h.flatMap_right _) t f s)
  · rw [if_neg hk, if_neg hk]

theorem naiveGroup_perm {a b : List TS} (h : a.Perm b) (t : Nat) : NaiveGroup a t ↔ NaiveGroup b t := by
  unfold NaiveGroup
  constructor
  · rintro ⟨x, hx, h2⟩; exact ⟨x, h.mem_iff.mp hx, h2⟩
  · rintro ⟨x, hx, h2⟩; exact ⟨x, h.mem_iff.mpr hx, h2⟩

theorem naiveTouched_perm (sp0 : List Spec) {a b : List TS} (h : a.Perm b) (t f : Nat) :
    NaiveTouched sp0 a t f ↔ NaiveTouched sp0 b t f := by
  unfold NaiveTouched
  constructor
  · rintro ⟨h0, x, hx, h2⟩; exact ⟨h0, x, h.mem_iff.mp hx, h2⟩
  · rintro ⟨h0, x, hx, h2⟩; exact ⟨h0, x, h.mem_iff.mpr hx, h2⟩

end LinVerif.RootMerge
