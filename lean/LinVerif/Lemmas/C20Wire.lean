/-
C20 helper lemmas: the serialised byte layout — every reader of `TrieWire` undoes its writer, so
`unmarshal (marshal w) = some w` for every well-formed `Wire`.
-/
import LinVerif.Model.TrieWire

set_option linter.unusedSimpArgs false
set_option linter.unusedVariables false

namespace LinVerif.Lemmas.C20
open LinVerif.Louds LinVerif.TrieWire

def U32 (n : Nat) : Prop := n < 4294967296

theorem readU32_u32le (n : Nat) (h : U32 n) (r : List Nat) : readU32 (u32le n ++ r) = some (n, r) := by
  unfold U32 at h
  simp only [u32le, readU32, List.cons_append, List.nil_append, Option.some.injEq, Prod.mk.injEq, and_true]
  omega

theorem u32le_length (n : Nat) : (u32le n).length = 4 := rfl

theorem readBytes_append (l r : List Nat) : readBytes l.length (l ++ r) = some (l, r) := by
  simp [readBytes]

theorem u32s_cons (x : Nat) (xs : List Nat) : u32s (x :: xs) = u32le x ++ u32s xs := rfl

theorem u32s_length (xs : List Nat) : (u32s xs).length = 4 * xs.length := by
  induction xs with
  | nil => rfl
  | cons x r ih => rw [u32s_cons, List.length_append, ih, u32le_length, List.length_cons]; omega

theorem readU32s_u32s (xs : List Nat) (h : ∀ x ∈ xs, U32 x) (r : List Nat) :
    readU32s xs.length (u32s xs ++ r) = some (xs, r) := by
  induction xs with
  | nil => rfl
  | cons x t ih =>
    rw [u32s_cons, List.append_assoc, List.length_cons, readU32s, readU32_u32le x (h x (List.mem_cons_self ..))]
    simp only [ih (fun y hy => h y (List.mem_cons_of_mem _ hy))]

/-! ### bit words -/

theorem bitsOfByte_byteOfBits (a b c d e f g h : Bool) :
    bitsOfByte (byteOfBits [a, b, c, d, e, f, g, h]) = [a, b, c, d, e, f, g, h] := by
  cases a <;> cases b <;> cases c <;> cases d <;> cases e <;> cases f <;> cases g <;> cases h <;> rfl

theorem unpack_pack : ∀ (n : Nat) (l : List Bool), l.length = 8 * n → (packBytes l).flatMap bitsOfByte = l
  | 0, l, h => by
    have : l = [] := List.length_eq_zero_iff.1 (by omega)
    subst this; rfl
  | n + 1, l, h => by
    match l, h with
    | a :: b :: c :: d :: e :: f :: g :: hh :: r, h =>
      have hr : r.length = 8 * n := by simp at h; omega
      simp only [packBytes, List.flatMap_cons, bitsOfByte_byteOfBits, unpack_pack n r hr,
        List.cons_append, List.nil_append]
    | [], h => simp only [List.length_cons, List.length_nil] at h; omega
    | [_], h => simp only [List.length_cons, List.length_nil] at h; omega
    | [_, _], h => simp only [List.length_cons, List.length_nil] at h; omega
    | [_, _, _], h => simp only [List.length_cons, List.length_nil] at h; omega
    | [_, _, _, _], h => simp only [List.length_cons, List.length_nil] at h; omega
    | [_, _, _, _, _], h => simp only [List.length_cons, List.length_nil] at h; omega
    | [_, _, _, _, _, _], h => simp only [List.length_cons, List.length_nil] at h; omega
    | [_, _, _, _, _, _, _], h => simp only [List.length_cons, List.length_nil] at h; omega

theorem packBytes_length : ∀ (n : Nat) (l : List Bool), l.length = 8 * n → (packBytes l).length = n
  | 0, l, h => by
    have : l = [] := List.length_eq_zero_iff.1 (by omega)
    subst this; rfl
  | n + 1, l, h => by
    match l, h with
    | a :: b :: c :: d :: e :: f :: g :: hh :: r, h =>
      have hr : r.length = 8 * n := by simp at h; omega
      simp only [packBytes, List.length_cons, packBytes_length n r hr]
    | [], h => simp only [List.length_cons, List.length_nil] at h; omega
    | [_], h => simp only [List.length_cons, List.length_nil] at h; omega
    | [_, _], h => simp only [List.length_cons, List.length_nil] at h; omega
    | [_, _, _], h => simp only [List.length_cons, List.length_nil] at h; omega
    | [_, _, _, _], h => simp only [List.length_cons, List.length_nil] at h; omega
    | [_, _, _, _, _], h => simp only [List.length_cons, List.length_nil] at h; omega
    | [_, _, _, _, _, _], h => simp only [List.length_cons, List.length_nil] at h; omega
    | [_, _, _, _, _, _, _], h => simp only [List.length_cons, List.length_nil] at h; omega

theorem numWords_ge (n : Nat) : n ≤ numWords n * wordSize := by
  unfold numWords
  have hW : wordSize = 64 := rfl
  rw [hW]
  by_cases h : n % 64 = 0
  · simp [h]; omega
  · simp [h]; omega

theorem padded_length (bs : List Bool) :
    (bs ++ List.replicate (numWords bs.length * wordSize - bs.length) false).length = 8 * (numWords bs.length * 8) := by
  have := numWords_ge bs.length
  have hW : wordSize = 64 := rfl
  rw [hW] at this ⊢
  simp only [List.length_append, List.length_replicate]
  omega

theorem bitsToBytes_length (bs : List Bool) : (bitsToBytes bs).length = numWords bs.length * 8 :=
  packBytes_length _ _ (padded_length bs)

theorem readBits_bitsToBytes (bs : List Bool) (r : List Nat) :
    readBits bs.length (bitsToBytes bs ++ r) = some (bs, r) := by
  unfold readBits
  rw [← bitsToBytes_length bs, readBytes_append]
  simp only [bitsToBytes, unpack_pack _ _ (padded_length bs)]
  simp

/-! ### the vectors -/

structure RankOK (v : RankVec) : Prop where
  bits : U32 v.bits.length
  block : U32 v.blockSize
  blockPos : v.blockSize ≠ 0
  lut : ∀ x ∈ v.lut, U32 x
  lutLen : v.lut.length = v.bits.length / v.blockSize + 1

structure SelOK (v : SelVec) : Prop where
  bits : U32 v.bits.length
  ones : U32 v.numOnes
  lut : ∀ x ∈ v.lut, U32 x
  lutLen : v.lut.length = v.numOnes / selectSampleInterval + 1

structure PathOK (v : PathVec) : Prop where
  has : RankOK v.has
  offsets : ∀ x ∈ v.offsets, U32 x
  offsetsLen : U32 (v.offsets.length * 4)
  dataLen : U32 v.data.length

theorem readRank_writeRank (v : RankVec) (h : RankOK v) (r : List Nat) :
    readRank (writeRank v ++ r) = some (v, r) := by
  obtain ⟨vbits, vblock, vlut⟩ := v
  unfold readRank writeRank
  simp only [List.append_assoc]
  rw [if_neg (by simp only [List.length_append, u32le_length]; omega)]
  rw [readU32_u32le _ h.bits]
  simp only [readBits_bitsToBytes, readU32_u32le _ h.block]
  have hb : (vblock == 0) = false := by simpa using h.blockPos
  simp only [hb, Bool.false_eq_true, if_false, ← h.lutLen, readU32s_u32s _ h.lut]

theorem readSel_writeSel (v : SelVec) (h : SelOK v) (r : List Nat) :
    readSel (writeSel v ++ r) = some (v, r) := by
  obtain ⟨vbits, vones, vlut⟩ := v
  unfold readSel writeSel
  simp only [List.append_assoc]
  rw [if_neg (by simp only [List.length_append, u32le_length]; omega)]
  rw [readU32_u32le _ h.bits]
  simp only [readBits_bitsToBytes, readU32_u32le _ h.ones, ← h.lutLen, readU32s_u32s _ h.lut]

theorem readPath_writePath (v : PathVec) (h : PathOK v) (r : List Nat) :
    readPath (writePath v ++ r) = some (v, r) := by
  obtain ⟨vhas, voffsets, vdata⟩ := v
  unfold readPath writePath
  simp only [List.append_assoc]
  rw [readRank_writeRank vhas h.has]
  simp only [readU32_u32le _ h.offsetsLen, readU32_u32le _ h.dataLen]
  have hlen : ¬ (u32s voffsets ++ (vdata ++ r)).length < voffsets.length * 4 + vdata.length := by
    simp only [List.length_append, u32s_length]; omega
  have hdiv : voffsets.length * 4 / 4 = voffsets.length := by omega
  simp only [hlen, if_false, hdiv, readU32s_u32s _ h.offsets, readBytes_append]

/-- everything the readers rely on: counts fit `uint32`, the tables have the length the reader
computes from `numBits` / `numOnes`, one value per key -/
structure WireOK (w : Wire) : Prop where
  keys : U32 w.totalKeys
  height : U32 w.height
  labels : U32 w.labels.length
  hasChild : RankOK w.hasChild
  louds : SelOK w.louds
  pfx : PathOK w.pfx
  sfx : PathOK w.sfx
  values : ∀ x ∈ w.values, U32 x
  valuesLen : w.values.length = w.totalKeys

/-- `UnmarshalBinary (Write t) = t` on the byte-layout model -/
theorem unmarshal_marshal_wire (w : Wire) (h : WireOK w) : unmarshal (marshal w) = some w := by
  obtain ⟨wk, wh, wl, whc, wlo, wp, ws, wv⟩ := w
  unfold unmarshal marshal
  simp only [List.append_assoc]
  rw [if_neg (by simp only [List.length_append, u32le_length]; omega)]
  rw [readU32_u32le _ h.keys]
  simp only [readU32_u32le _ h.height, readU32_u32le _ h.labels, readBytes_append,
    readRank_writeRank _ h.hasChild, readSel_writeSel _ h.louds, readPath_writePath _ h.pfx,
    readPath_writePath _ h.sfx]
  have := readU32s_u32s wv h.values []
  rw [h.valuesLen, List.append_nil] at this
  simp only [this]

/-- `len(Write t) = MarshalSize t` -/
theorem marshal_length (w : Wire) (h : WireOK w) : (marshal w).length = marshalSize w := by
  simp only [marshal, marshalSize, writeRank, writeSel, writePath, rankSize, selSize, pathSize,
    List.length_append, u32le_length, u32s_length, bitsToBytes_length, h.hasChild.lutLen,
    h.louds.lutLen, h.pfx.has.lutLen, h.sfx.has.lutLen, h.valuesLen]
  omega

/-! ### the encoded trie is a well-formed wire image -/

/-- the size assumptions: every count, table entry, offset and value fits `uint32` -/
structure WireBounded (w : Wire) : Prop where
  keys : U32 w.totalKeys
  height : U32 w.height
  labels : U32 w.labels.length
  hasChildBits : U32 w.hasChild.bits.length
  hasChildLut : ∀ x ∈ w.hasChild.lut, U32 x
  loudsBits : U32 w.louds.bits.length
  loudsOnes : U32 w.louds.numOnes
  loudsLut : ∀ x ∈ w.louds.lut, U32 x
  pfxBits : U32 w.pfx.has.bits.length
  pfxLut : ∀ x ∈ w.pfx.has.lut, U32 x
  pfxOffsets : ∀ x ∈ w.pfx.offsets, U32 x
  pfxOffsetsLen : U32 (w.pfx.offsets.length * 4)
  pfxData : U32 w.pfx.data.length
  sfxBits : U32 w.sfx.has.bits.length
  sfxLut : ∀ x ∈ w.sfx.has.lut, U32 x
  sfxOffsets : ∀ x ∈ w.sfx.offsets, U32 x
  sfxOffsetsLen : U32 (w.sfx.offsets.length * 4)
  sfxData : U32 w.sfx.data.length
  values : ∀ x ∈ w.values, U32 x

theorem rankLut_length (bs : List Bool) : (rankLut bs).length = bs.length / rankSparseBlockSize + 1 := by
  simp [rankLut]

theorem selectLut_length (bs : List Bool) : (selectLut bs).length = popcount bs / selectSampleInterval + 1 := by
  simp [selectLut]

/-- the tables written for an encoded trie have exactly the length the reader recomputes from
`numBits` / `numOnes` (`numBits/blockSize + 1`, `numOnes/64 + 1`) — at every size, in particular
when `numBits` is a multiple of the block size -/
theorem wireOK_encode (t : TrieTree.Node) (hb : WireBounded (toWire (encode t))) : WireOK (toWire (encode t)) := by
  have hU : U32 rankSparseBlockSize := by unfold U32 rankSparseBlockSize; omega
  have hP : rankSparseBlockSize ≠ 0 := by unfold rankSparseBlockSize; omega
  refine ⟨hb.keys, hb.height, hb.labels, ⟨hb.hasChildBits, hU, hP, hb.hasChildLut, ?_⟩,
    ⟨hb.loudsBits, hb.loudsOnes, hb.loudsLut, ?_⟩,
    ⟨⟨hb.pfxBits, hU, hP, hb.pfxLut, ?_⟩, hb.pfxOffsets, hb.pfxOffsetsLen, hb.pfxData⟩,
    ⟨⟨hb.sfxBits, hU, hP, hb.sfxLut, ?_⟩, hb.sfxOffsets, hb.sfxOffsetsLen, hb.sfxData⟩, hb.values, rfl⟩
  · exact rankLut_length _
  · exact selectLut_length _
  · exact rankLut_length _
  · exact rankLut_length _

end LinVerif.Lemmas.C20
