/-
C09, metricSchemaStore in sequential histories: the logical schema of a metric (the shared object in
memory, else what the kv family holds), the field / tag key views, and the invariant that ties the
shared objects to the persisted increments.
-/
import LinVerif.Model.IdAssign

namespace LinVerif.IdAssign

/-- well-formed `metric.Schema` object; `ctr` bounds the tag key ids (Sequence.tagKey) -/
structure WFS (sc : Schema) (ctr : Nat) : Prop where
  fid : ∀ f i p, sc.field f = some (i, p) → i < sc.nFields
  finj : ∀ f f' i p p', sc.field f = some (i, p) → sc.field f' = some (i, p') → f = f'
  fcnt : sc.nFieldsP ≤ sc.nFields
  fnew : ∀ f i, sc.field f = some (i, false) → sc.nFieldsP < sc.nFields
  tid : ∀ k i p, sc.tagKey k = some (i, p) → i < ctr
  tinj : ∀ k k' i p p', sc.tagKey k = some (i, p) → sc.tagKey k' = some (i, p') → k = k'
  tcnt : sc.nTagKeysP ≤ sc.nTagKeys
  tnew : ∀ k i, sc.tagKey k = some (i, false) → sc.nTagKeysP < sc.nTagKeys

/-- a schema as it is read back from the kv family: everything persisted -/
structure AllP (sc : Schema) : Prop where
  fp : ∀ f i p, sc.field f = some (i, p) → p = true
  tp : ∀ k i p, sc.tagKey k = some (i, p) → p = true
  fc : sc.nFieldsP = sc.nFields
  tc : sc.nTagKeysP = sc.nTagKeys

/-- the persisted part of the memory object `sc` is what the kv family holds (`dk`) -/
structure Agrees (sc dk : Schema) : Prop where
  fld : ∀ f i, sc.field f = some (i, true) ↔ dk.field f = some (i, true)
  tag : ∀ k i, sc.tagKey k = some (i, true) ↔ dk.tagKey k = some (i, true)
  fc : sc.nFieldsP = dk.nFields
  tc : sc.nTagKeysP = dk.nTagKeys

theorem wfs_empty (ctr : Nat) : WFS {} ctr := by
  refine ⟨?_, ?_, Nat.le_refl _, ?_, ?_, ?_, Nat.le_refl _, ?_⟩ <;> intros <;> simp_all

theorem allP_empty : AllP {} := by
  refine ⟨?_, ?_, rfl, rfl⟩ <;> intros <;> simp_all

theorem agrees_refl_allP {sc : Schema} (h : AllP sc) : Agrees sc sc :=
  ⟨fun _ _ => Iff.rfl, fun _ _ => Iff.rfl, h.fc, h.tc⟩

theorem wfs_mono {sc : Schema} {a b : Nat} (h : WFS sc a) (hab : a ≤ b) : WFS sc b :=
  ⟨h.fid, h.finj, h.fcnt, h.fnew, fun k i p hk => Nat.lt_of_lt_of_le (h.tid k i p hk) hab, h.tinj, h.tcnt, h.tnew⟩

namespace SchemaStore

/-- the schema a caller of `GetSchema` sees -/
def logical (s : SchemaStore) (m : Nat) : Option Schema :=
  match s.memLookup m with
  | some o => some (s.heap o)
  | none => s.disk m

def fieldView (s : SchemaStore) (m f : Nat) : Option Nat :=
  match s.logical m with
  | some sc => sc.findField f
  | none => none

def tagKeyView (s : SchemaStore) (m k : Nat) : Option Nat :=
  match s.logical m with
  | some sc => sc.findTagKey k
  | none => none

end SchemaStore

/-- `ctr` = Sequence.tagKey in memory, `dctr` = its copy in the sequence file -/
structure SchInv (s : SchemaStore) (ctr dctr : Nat) : Prop where
  curP : ∀ m o, s.cur m = some o → o < s.nobj ∧ s.owner o = m
  frzP : ∀ m o, s.frzMap m = some o → o < s.nobj ∧ s.owner o = m
  same : ∀ m o o', s.cur m = some o → s.frzMap m = some o' → o = o'
  wf : ∀ m o, s.memLookup m = some o → WFS (s.heap o) ctr
  dwf : ∀ m sc, s.disk m = some sc → WFS sc dctr ∧ AllP sc
  agr : ∀ m o, s.memLookup m = some o → Agrees (s.heap o) ((s.disk m).getD {})
  /-- the IsEmpty() flags are accurate -/
  curE : s.curEmpty = true → ∀ m, s.cur m = none
  frzE : ∀ f, s.frz = some (f, true) → ∀ m, f m = none

theorem schInv_init (a b : Nat) : SchInv {} a b := by
  refine ⟨?_, ?_, ?_, ?_, ?_, ?_, ?_, ?_⟩ <;> intros <;> simp_all [SchemaStore.frzMap, SchemaStore.memLookup]

theorem schInv_mono {s : SchemaStore} {a b a' b' : Nat} (h : SchInv s a b) (ha : a ≤ a') (hb : b ≤ b') : SchInv s a' b' :=
  ⟨h.curP, h.frzP, h.same, fun m o hm => wfs_mono (h.wf m o hm) ha,
   fun m sc hm => ⟨wfs_mono (h.dwf m sc hm).1 hb, (h.dwf m sc hm).2⟩, h.agr, h.curE, h.frzE⟩

/-! ### what `GetSchema` returns -/

/-- the pointer is the memory object of `m`, or a private copy of the persisted schema, or nil when
there is neither -/
inductive PtrOk (s : SchemaStore) (m : Nat) : SPtr → Prop
  | mem (o : Nat) (h : s.memLookup m = some o) : PtrOk s m (.obj o)
  | copy (o : Nat) (sc : Schema) (h1 : s.memLookup m = none) (h2 : s.disk m = some sc) (h3 : s.heap o = sc)
      (h4 : o < s.nobj) (h5 : s.owner o = m)
      (h6 : ∀ m', s.cur m' ≠ some o ∧ s.frzMap m' ≠ some o) : PtrOk s m (.obj o)
  | nil (h1 : s.memLookup m = none) (h2 : s.disk m = none) : PtrOk s m .nil

theorem alloc_cur (s : SchemaStore) (m : Nat) (sc : Schema) : (s.alloc m sc).1.cur = s.cur := rfl
theorem alloc_frz (s : SchemaStore) (m : Nat) (sc : Schema) : (s.alloc m sc).1.frz = s.frz := rfl
theorem alloc_frzMap (s : SchemaStore) (m : Nat) (sc : Schema) : (s.alloc m sc).1.frzMap = s.frzMap := rfl
theorem alloc_disk (s : SchemaStore) (m : Nat) (sc : Schema) : (s.alloc m sc).1.disk = s.disk := rfl
theorem alloc_memLookup (s : SchemaStore) (m : Nat) (sc : Schema) (m' : Nat) :
    (s.alloc m sc).1.memLookup m' = s.memLookup m' := rfl
theorem alloc_heap_old (s : SchemaStore) (m : Nat) (sc : Schema) (o : Nat) (h : o < s.nobj) :
    (s.alloc m sc).1.heap o = s.heap o := by
  simp [SchemaStore.alloc, Nat.ne_of_lt h]
theorem alloc_owner_old (s : SchemaStore) (m : Nat) (sc : Schema) (o : Nat) (h : o < s.nobj) :
    (s.alloc m sc).1.owner o = s.owner o := by
  simp [SchemaStore.alloc, Nat.ne_of_lt h]

theorem memLookup_lt {s : SchemaStore} {a b : Nat} (inv : SchInv s a b) {m o : Nat} (h : s.memLookup m = some o) :
    o < s.nobj ∧ s.owner o = m := by
  unfold SchemaStore.memLookup at h
  cases hc : s.cur m with
  | some o' => simp [hc] at h; subst h; exact inv.curP _ _ hc
  | none => simp [hc] at h; exact inv.frzP _ _ h

/-- allocating an object nobody refers to keeps the invariant and every logical schema -/
theorem schInv_alloc {s : SchemaStore} {a b : Nat} (inv : SchInv s a b) (m : Nat) (sc : Schema) :
    SchInv (s.alloc m sc).1 a b := by
  refine ⟨?_, ?_, ?_, ?_, ?_, ?_, inv.curE, inv.frzE⟩
  · intro m' o h
    have := inv.curP m' o h
    exact ⟨Nat.lt_succ_of_lt this.1, by rw [alloc_owner_old _ _ _ _ this.1]; exact this.2⟩
  · intro m' o h
    have := inv.frzP m' o h
    exact ⟨Nat.lt_succ_of_lt this.1, by rw [alloc_owner_old _ _ _ _ this.1]; exact this.2⟩
  · exact inv.same
  · intro m' o h
    rw [alloc_memLookup] at h
    rw [alloc_heap_old _ _ _ _ (memLookup_lt inv h).1]; exact inv.wf _ _ h
  · exact inv.dwf
  · intro m' o h
    rw [alloc_memLookup] at h
    rw [alloc_heap_old _ _ _ _ (memLookup_lt inv h).1]; exact inv.agr _ _ h

theorem logical_alloc {s : SchemaStore} {a b : Nat} (inv : SchInv s a b) (m : Nat) (sc : Schema) (m' : Nat) :
    (s.alloc m sc).1.logical m' = s.logical m' := by
  unfold SchemaStore.logical
  rw [alloc_memLookup]
  cases h : s.memLookup m' with
  | none => rfl
  | some o => simp; exact alloc_heap_old _ _ _ _ (memLookup_lt inv h).1

theorem getSchema_spec {s : SchemaStore} {a b : Nat} (inv : SchInv s a b) (m : Nat) :
    SchInv (s.getSchema m).1 a b ∧ PtrOk (s.getSchema m).1 m (s.getSchema m).2 ∧
    (∀ m', (s.getSchema m).1.logical m' = s.logical m') ∧ (s.getSchema m).1.disk = s.disk := by
  unfold SchemaStore.getSchema
  cases hm : s.memLookup m with
  | some o => exact ⟨inv, .mem o hm, fun _ => rfl, rfl⟩
  | none =>
    cases hd : s.disk m with
    | none => exact ⟨inv, .nil hm hd, fun _ => rfl, rfl⟩
    | some sc =>
      refine ⟨schInv_alloc inv m sc, ?_, fun m' => logical_alloc inv m sc m', rfl⟩
      refine .copy s.nobj sc (by rw [alloc_memLookup]; exact hm) (by rw [alloc_disk]; exact hd) (by simp [SchemaStore.alloc])
        (by simp [SchemaStore.alloc]) (by simp [SchemaStore.alloc]) ?_
      intro m'
      constructor
      · intro h
        rw [alloc_cur] at h
        exact absurd (inv.curP _ _ h).1 (Nat.lt_irrefl _)
      · intro h
        rw [alloc_frzMap] at h
        exact absurd (inv.frzP _ _ h).1 (Nat.lt_irrefl _)

theorem lockedPtr_spec {s : SchemaStore} {a b : Nat} (inv : SchInv s a b) (v : SchemaVariant) (m : Nat) (p : SPtr)
    (hp : PtrOk s m p) :
    SchInv (lockedPtr v s m p).1 a b ∧ PtrOk (lockedPtr v s m p).1 m (lockedPtr v s m p).2 ∧
    (∀ m', (lockedPtr v s m p).1.logical m' = s.logical m') ∧ (lockedPtr v s m p).1.disk = s.disk := by
  cases v with
  | snapshotOutside => exact ⟨inv, hp, fun _ => rfl, rfl⟩
  | lookupLocked => exact getSchema_spec inv m

/-! ### `adopt`: the pointer becomes the memory object of the metric -/

/-- the schema behind a pointer -/
def ptrSchema (s : SchemaStore) : SPtr → Schema
  | .obj o => s.heap o
  | .nil => {}

theorem ptrSchema_logical {s : SchemaStore} {m : Nat} {p : SPtr} (hp : PtrOk s m p) :
    s.logical m = none ∧ p = .nil ∨ s.logical m = some (ptrSchema s p) := by
  cases hp with
  | mem o h => right; simp [SchemaStore.logical, h, ptrSchema]
  | copy o sc h1 h2 h3 h4 h5 h6 => right; simp [SchemaStore.logical, h1, h2, ptrSchema, h3]
  | nil h1 h2 => left; simp [SchemaStore.logical, h1, h2]

structure AdoptSpec (s : SchemaStore) (m : Nat) (p : SPtr) (s' : SchemaStore) (o : Nat) (a b : Nat) : Prop where
  inv : SchInv s' a b
  cur : s'.cur m = some o
  lt : o < s'.nobj
  own : s'.owner o = m
  heap : s'.heap o = ptrSchema s p
  other : ∀ m', m' ≠ m → s'.logical m' = s.logical m'
  disk : s'.disk = s.disk
  frz : s'.frz = s.frz

theorem memLookup_of_cur {s : SchemaStore} {m o : Nat} (h : s.cur m = some o) : s.memLookup m = some o := by
  simp [SchemaStore.memLookup, h]

/-- `PutIfNotExist(m, o)` -/
def adoptAt (s1 : SchemaStore) (m o : Nat) : SchemaStore × Nat :=
  match s1.cur m with
  | some _ => (s1, o)
  | none => ({ s1 with cur := fun m' => if m' = m then some o else s1.cur m', curEmpty := false }, o)

theorem adopt_obj (s : SchemaStore) (m o : Nat) : s.adopt m (.obj o) = adoptAt s m o := rfl
theorem adopt_nil (s : SchemaStore) (m : Nat) : s.adopt m .nil = adoptAt (s.alloc m {}).1 m (s.alloc m {}).2 := rfl

structure AdoptAt (s1 : SchemaStore) (m o : Nat) (s' : SchemaStore) (a b : Nat) : Prop where
  inv : SchInv s' a b
  cur : s'.cur m = some o
  lt : o < s'.nobj
  own : s'.owner o = m
  heap : s'.heap = s1.heap
  other : ∀ m', m' ≠ m → s'.logical m' = s1.logical m'
  disk : s'.disk = s1.disk
  frz : s'.frz = s1.frz

theorem adoptAt_snd (s1 : SchemaStore) (m o : Nat) : (adoptAt s1 m o).2 = o := by
  unfold adoptAt; cases s1.cur m <;> rfl

theorem adoptAt_spec {s1 : SchemaStore} {a b : Nat} {m o : Nat} (inv1 : SchInv s1 a b) (hlt : o < s1.nobj)
    (hown : s1.owner o = m)
    (hmem : s1.memLookup m = some o ∨ (s1.memLookup m = none ∧ (∀ m', s1.cur m' ≠ some o ∧ s1.frzMap m' ≠ some o)))
    (hwf : WFS (s1.heap o) a) (hagr : Agrees (s1.heap o) ((s1.disk m).getD {})) :
    AdoptAt s1 m o (adoptAt s1 m o).1 a b := by
  unfold adoptAt
  cases hc : s1.cur m with
  | some o' =>
    rcases hmem with hmem | ⟨hmem, _⟩
    · have : o' = o := by simpa [SchemaStore.memLookup, hc] using hmem
      subst this
      exact ⟨inv1, hc, hlt, hown, rfl, fun _ _ => rfl, rfl, rfl⟩
    · simp [SchemaStore.memLookup, hc] at hmem
  | none =>
    have hfrzm : ∀ o', s1.frzMap m = some o' → o' = o := by
      intro o' h
      rcases hmem with hmem | ⟨hmem, _⟩
      · simp [SchemaStore.memLookup, hc, h] at hmem; exact hmem
      · simp [SchemaStore.memLookup, hc, h] at hmem
    have hml : ∀ m', m' ≠ m → ({ s1 with cur := fun m' => if m' = m then some o else s1.cur m', curEmpty := false } : SchemaStore).memLookup m' = s1.memLookup m' := by
      intro m' hne; simp [SchemaStore.memLookup, hne, SchemaStore.frzMap]
    have hmlm : ({ s1 with cur := fun m' => if m' = m then some o else s1.cur m', curEmpty := false } : SchemaStore).memLookup m = some o := by
      simp [SchemaStore.memLookup]
    refine ⟨⟨?_, ?_, ?_, ?_, inv1.dwf, ?_, fun hh => absurd hh (by simp), inv1.frzE⟩, by simp, hlt, hown, rfl, ?_, rfl, rfl⟩
    · intro m' o' h
      by_cases hm' : m' = m
      · subst hm'; simp at h; subst h; exact ⟨hlt, hown⟩
      · simp [hm'] at h; exact inv1.curP _ _ h
    · exact inv1.frzP
    · intro m' o1 o2 h1 h2
      by_cases hm' : m' = m
      · subst hm'; simp at h1; subst h1; exact (hfrzm _ h2).symm
      · simp [hm'] at h1; exact inv1.same _ _ _ h1 h2
    · intro m' o' h
      by_cases hm' : m' = m
      · subst hm'; rw [hmlm] at h; cases h; exact hwf
      · rw [hml _ hm'] at h; exact inv1.wf _ _ h
    · intro m' o' h
      by_cases hm' : m' = m
      · subst hm'; rw [hmlm] at h; cases h; exact hagr
      · rw [hml _ hm'] at h; exact inv1.agr _ _ h
    · intro m' hne
      unfold SchemaStore.logical
      rw [hml _ hne]

theorem adopt_spec {s : SchemaStore} {a b : Nat} (inv : SchInv s a b) (hba : b ≤ a) (m : Nat) (p : SPtr)
    (hp : PtrOk s m p) : AdoptSpec s m p (s.adopt m p).1 (s.adopt m p).2 a b := by
  cases hp with
  | mem o h =>
    have hlt := memLookup_lt inv h
    have g := adoptAt_spec inv hlt.1 hlt.2 (Or.inl h) (inv.wf _ _ h) (inv.agr _ _ h)
    rw [adopt_obj, adoptAt_snd]
    exact ⟨g.inv, g.cur, g.lt, g.own, by rw [g.heap]; rfl, g.other, g.disk, g.frz⟩
  | copy o sc h1 h2 h3 h4 h5 h6 =>
    have hd := inv.dwf _ _ h2
    have g := adoptAt_spec inv h4 h5 (Or.inr ⟨h1, h6⟩) (by rw [h3]; exact wfs_mono hd.1 hba)
      (by rw [h3, h2]; exact agrees_refl_allP hd.2)
    rw [adopt_obj, adoptAt_snd]
    exact ⟨g.inv, g.cur, g.lt, g.own, by rw [g.heap]; rfl, g.other, g.disk, g.frz⟩
  | nil h1 h2 =>
    have inv1 := schInv_alloc inv m {}
    have hheap : (s.alloc m {}).1.heap s.nobj = {} := by simp [SchemaStore.alloc]
    have hsnd : (s.alloc m {}).2 = s.nobj := rfl
    have g := adoptAt_spec (m := m) (o := s.nobj) inv1 (by simp [SchemaStore.alloc]) (by simp [SchemaStore.alloc])
      (Or.inr ⟨by rw [alloc_memLookup]; exact h1, fun m' => ⟨fun h => absurd (inv.curP _ _ h).1 (Nat.lt_irrefl _),
        fun h => absurd (inv.frzP _ _ h).1 (Nat.lt_irrefl _)⟩⟩)
      (by rw [hheap]; exact wfs_empty a)
      (by rw [hheap, alloc_disk, h2]; exact agrees_refl_allP allP_empty)
    rw [adopt_nil, adoptAt_snd, hsnd]
    refine ⟨g.inv, g.cur, g.lt, g.own, by rw [g.heap, hheap]; rfl, ?_, g.disk, g.frz⟩
    intro m' hne
    rw [g.other m' hne]; exact logical_alloc inv m {} m'

/-! ### appending a field / a tag key to an object -/

theorem findField_none {sc : Schema} {f : Nat} (h : sc.findField f = none) : sc.field f = none := by
  unfold Schema.findField at h
  cases hf : sc.field f with
  | none => rfl
  | some p => simp [hf] at h

theorem findTagKey_none {sc : Schema} {k : Nat} (h : sc.findTagKey k = none) : sc.tagKey k = none := by
  unfold Schema.findTagKey at h
  cases hf : sc.tagKey k with
  | none => rfl
  | some p => simp [hf] at h

theorem wfs_addField {sc : Schema} {a f : Nat} (h : WFS sc a) (_hf : sc.field f = none) :
    WFS (sc.addField f sc.nFields) a := by
  refine ⟨?_, ?_, ?_, ?_, h.tid, h.tinj, h.tcnt, h.tnew⟩
  · intro f' i p hi
    simp only [Schema.addField] at hi ⊢
    by_cases hk : f' = f
    · simp [hk] at hi; omega
    · simp [hk] at hi; exact Nat.lt_succ_of_lt (h.fid _ _ _ hi)
  · intro f1 f2 i p p' h1 h2
    simp only [Schema.addField] at h1 h2
    by_cases hk1 : f1 = f <;> by_cases hk2 : f2 = f
    · rw [hk1, hk2]
    · simp [hk1] at h1; simp [hk2] at h2
      have := h.fid _ _ _ h2; omega
    · simp [hk1] at h1; simp [hk2] at h2
      have := h.fid _ _ _ h1; omega
    · simp [hk1] at h1; simp [hk2] at h2; exact h.finj _ _ _ _ _ h1 h2
  · simp only [Schema.addField]; exact Nat.le_succ_of_le h.fcnt
  · intro f' i _
    simp only [Schema.addField]; exact Nat.lt_succ_of_le h.fcnt

theorem agrees_addField {sc dk : Schema} {f i : Nat} (h : Agrees sc dk) (hf : sc.field f = none) :
    Agrees (sc.addField f i) dk := by
  refine ⟨?_, h.tag, h.fc, h.tc⟩
  intro f' j
  simp only [Schema.addField]
  by_cases hk : f' = f
  · subst hk
    simp
    intro hd
    have := (h.fld _ _).2 hd
    rw [hf] at this; cases this
  · simp [hk]; exact h.fld _ _

theorem wfs_addTagKey {sc : Schema} {a k : Nat} (h : WFS sc a) (_hk : sc.tagKey k = none) :
    WFS (sc.addTagKey k a) (a + 1) := by
  refine ⟨h.fid, h.finj, h.fcnt, h.fnew, ?_, ?_, ?_, ?_⟩
  · intro k' i p hi
    simp only [Schema.addTagKey] at hi
    by_cases hkk : k' = k
    · simp [hkk] at hi; omega
    · simp [hkk] at hi; exact Nat.lt_succ_of_lt (h.tid _ _ _ hi)
  · intro k1 k2 i p p' h1 h2
    simp only [Schema.addTagKey] at h1 h2
    by_cases hk1 : k1 = k <;> by_cases hk2 : k2 = k
    · rw [hk1, hk2]
    · simp [hk1] at h1; simp [hk2] at h2
      have := h.tid _ _ _ h2; omega
    · simp [hk1] at h1; simp [hk2] at h2
      have := h.tid _ _ _ h1; omega
    · simp [hk1] at h1; simp [hk2] at h2; exact h.tinj _ _ _ _ _ h1 h2
  · simp only [Schema.addTagKey]; exact Nat.le_succ_of_le h.tcnt
  · intro k' i _
    simp only [Schema.addTagKey]; exact Nat.lt_succ_of_le h.tcnt

theorem agrees_addTagKey {sc dk : Schema} {k i : Nat} (h : Agrees sc dk) (hk : sc.tagKey k = none) :
    Agrees (sc.addTagKey k i) dk := by
  refine ⟨h.fld, ?_, h.fc, h.tc⟩
  intro k' j
  simp only [Schema.addTagKey]
  by_cases hkk : k' = k
  · subst hkk
    simp
    intro hd
    have := (h.tag _ _).2 hd
    rw [hk] at this; cases this
  · simp [hkk]; exact h.tag _ _

/-! ### replacing the content of the metric's own object -/

theorem setObj_memLookup (s : SchemaStore) (o : Nat) (sc : Schema) (m : Nat) : (s.setObj o sc).memLookup m = s.memLookup m := rfl

theorem logical_setObj_other {s : SchemaStore} {a b : Nat} (inv : SchInv s a b) {o m m' : Nat} (sc : Schema)
    (hown : s.owner o = m) (hne : m' ≠ m) : (s.setObj o sc).logical m' = s.logical m' := by
  unfold SchemaStore.logical
  rw [setObj_memLookup]
  cases h : s.memLookup m' with
  | none => rfl
  | some o' =>
    have := (memLookup_lt inv h).2
    have hoo : o' ≠ o := by intro e; subst e; exact hne (this.symm.trans hown)
    simp [SchemaStore.setObj, hoo]

theorem logical_setObj_self {s : SchemaStore} {o m : Nat} (sc : Schema) (h : s.cur m = some o) :
    (s.setObj o sc).logical m = some sc := by
  unfold SchemaStore.logical
  rw [setObj_memLookup, memLookup_of_cur h]
  simp [SchemaStore.setObj]

theorem schInv_setObj {s : SchemaStore} {a a' b : Nat} (inv : SchInv s a b) (haa : a ≤ a') {o m : Nat} {sc : Schema}
    (hc : s.cur m = some o) (hown : s.owner o = m) (hwf : WFS sc a')
    (hagr : Agrees sc ((s.disk m).getD {})) : SchInv (s.setObj o sc) a' b := by
  refine ⟨inv.curP, inv.frzP, inv.same, ?_, inv.dwf, ?_, inv.curE, inv.frzE⟩
  · intro m' o' h
    rw [setObj_memLookup] at h
    by_cases hm : m' = m
    · subst hm
      rw [memLookup_of_cur hc] at h; cases h
      simp [SchemaStore.setObj]; exact hwf
    · have hoo : o' ≠ o := by
        intro e; subst e; exact hm ((memLookup_lt inv h).2.symm.trans hown)
      simp [SchemaStore.setObj, hoo]; exact wfs_mono (inv.wf _ _ h) haa
  · intro m' o' h
    rw [setObj_memLookup] at h
    by_cases hm : m' = m
    · subst hm
      rw [memLookup_of_cur hc] at h; cases h
      simp [SchemaStore.setObj]; exact hagr
    · have hoo : o' ≠ o := by
        intro e; subst e; exact hm ((memLookup_lt inv h).2.symm.trans hown)
      simp [SchemaStore.setObj, hoo]; exact inv.agr _ _ h

/-! ### `genFieldID` / `genTagKeyID` -/

theorem fieldView_ptr {s : SchemaStore} {m : Nat} {p : SPtr} (hp : PtrOk s m p) (f : Nat) :
    s.fieldView m f = (ptrSchema s p).findField f := by
  unfold SchemaStore.fieldView
  rcases ptrSchema_logical hp with ⟨h, rfl⟩ | h
  · rw [h]; rfl
  · rw [h]

theorem tagKeyView_ptr {s : SchemaStore} {m : Nat} {p : SPtr} (hp : PtrOk s m p) (k : Nat) :
    s.tagKeyView m k = (ptrSchema s p).findTagKey k := by
  unfold SchemaStore.tagKeyView
  rcases ptrSchema_logical hp with ⟨h, rfl⟩ | h
  · rw [h]; rfl
  · rw [h]

structure FieldGenSpec (s : SchemaStore) (m f : Nat) (s' : SchemaStore) (out : GenOut) (a b : Nat) : Prop where
  inv : SchInv s' a b
  ret : ∀ i, out = .id i → s'.fieldView m f = some i
  hit : ∀ j, s.fieldView m f = some j → out = .id j
  monoF : ∀ m' f' j, s.fieldView m' f' = some j → s'.fieldView m' f' = some j
  monoT : ∀ m' k j, s.tagKeyView m' k = some j → s'.tagKeyView m' k = some j
  disk : s'.disk = s.disk
  frz : s'.frz = s.frz

theorem logical_of_cur {s : SchemaStore} {m o : Nat} (h : s.cur m = some o) : s.logical m = some (s.heap o) := by
  simp [SchemaStore.logical, memLookup_of_cur h]

theorem fieldLocked_spec {s : SchemaStore} {a b : Nat} (inv : SchInv s a b) (hba : b ≤ a) (lim : Limits) (m f : Nat)
    (p : SPtr) (hp : PtrOk s m p) :
    FieldGenSpec s m f (fieldLocked lim s m f p).1 (fieldLocked lim s m f p).2 a b := by
  have ad := adopt_spec inv hba m p hp
  have hvF := fieldView_ptr hp
  have hvT := tagKeyView_ptr hp
  -- views of the store after `adopt`
  have l1 := logical_of_cur ad.cur
  have v1F : ∀ m' f', (s.adopt m p).1.fieldView m' f' = s.fieldView m' f' := by
    intro m' f'
    by_cases hm : m' = m
    · subst hm; rw [hvF]; simp [SchemaStore.fieldView, l1, ad.heap]
    · simp [SchemaStore.fieldView, ad.other m' hm]
  have v1T : ∀ m' k, (s.adopt m p).1.tagKeyView m' k = s.tagKeyView m' k := by
    intro m' k
    by_cases hm : m' = m
    · subst hm; rw [hvT]; simp [SchemaStore.tagKeyView, l1, ad.heap]
    · simp [SchemaStore.tagKeyView, ad.other m' hm]
  unfold fieldLocked
  simp only []
  cases hfind : ((s.adopt m p).1.heap (s.adopt m p).2).findField f with
  | some i =>
    simp only []
    refine ⟨ad.inv, ?_, ?_, ?_, ?_, ad.disk, ad.frz⟩
    · intro i' h; cases h
      simp [SchemaStore.fieldView, l1, hfind]
    · intro j hj
      rw [hvF, ← ad.heap, hfind] at hj; cases hj; rfl
    · intro m' f' j hj; rw [v1F]; exact hj
    · intro m' k j hj; rw [v1T]; exact hj
  | none =>
    simp only []
    split
    · refine ⟨ad.inv, ?_, ?_, ?_, ?_, ad.disk, ad.frz⟩
      · intro i' h; cases h
      · intro j hj; rw [hvF, ← ad.heap, hfind] at hj; cases hj
      · intro m' f' j hj; rw [v1F]; exact hj
      · intro m' k j hj; rw [v1T]; exact hj
    · have hfn := findField_none hfind
      have hwf := ad.inv.wf m _ (memLookup_of_cur ad.cur)
      have hagr := ad.inv.agr m _ (memLookup_of_cur ad.cur)
      refine ⟨schInv_setObj ad.inv (Nat.le_refl _) ad.cur ad.own (wfs_addField hwf hfn) (agrees_addField hagr hfn), ?_, ?_, ?_, ?_, ad.disk, ad.frz⟩
      · intro i' h; cases h
        simp [SchemaStore.fieldView, logical_setObj_self _ ad.cur, Schema.findField, Schema.addField]
      · intro j hj; rw [hvF, ← ad.heap, hfind] at hj; cases hj
      · intro m' f' j hj
        rw [← v1F] at hj
        by_cases hm : m' = m
        · subst hm
          simp [SchemaStore.fieldView, logical_setObj_self _ ad.cur, Schema.findField, Schema.addField]
          simp [SchemaStore.fieldView, l1, Schema.findField] at hj
          by_cases hff : f' = f
          · subst hff; rw [hfn] at hj; simp at hj
          · simp [hff]; exact hj
        · simp only [SchemaStore.fieldView] at hj ⊢
          rw [logical_setObj_other ad.inv _ ad.own hm]; exact hj
      · intro m' k j hj
        rw [← v1T] at hj
        by_cases hm : m' = m
        · subst hm
          simp [SchemaStore.tagKeyView, logical_setObj_self _ ad.cur, Schema.findTagKey, Schema.addField]
          simpa [SchemaStore.tagKeyView, l1, Schema.findTagKey] using hj
        · simp only [SchemaStore.tagKeyView] at hj ⊢
          rw [logical_setObj_other ad.inv _ ad.own hm]; exact hj

structure TagKeyGenSpec (s : SchemaStore) (ctr m k : Nat) (s' : SchemaStore) (ctr' : Nat) (out : GenOut) (b : Nat) : Prop where
  inv : SchInv s' ctr' b
  ret : ∀ i, out = .id i → s'.tagKeyView m k = some i
  hit : ∀ j, s.tagKeyView m k = some j → out = .id j
  monoF : ∀ m' f' j, s.fieldView m' f' = some j → s'.fieldView m' f' = some j
  monoT : ∀ m' k' j, s.tagKeyView m' k' = some j → s'.tagKeyView m' k' = some j
  disk : s'.disk = s.disk
  frz : s'.frz = s.frz
  ctrLe : ctr ≤ ctr'
  fresh : ∀ i, s.tagKeyView m k = none → out = .id i → i = ctr ∧ ctr' = ctr + 1
  keep : (∀ i, out ≠ .id i) ∨ s.tagKeyView m k ≠ none → ctr' = ctr

theorem tagKeyLocked_spec {s : SchemaStore} {a b : Nat} (inv : SchInv s a b) (hba : b ≤ a) (lim : Limits) (m k : Nat)
    (p : SPtr) (hp : PtrOk s m p) :
    TagKeyGenSpec s a m k (tagKeyLocked lim s a m k p).1 (tagKeyLocked lim s a m k p).2.1 (tagKeyLocked lim s a m k p).2.2 b := by
  have ad := adopt_spec inv hba m p hp
  have hvF := fieldView_ptr hp
  have hvT := tagKeyView_ptr hp
  have l1 := logical_of_cur ad.cur
  have v1F : ∀ m' f', (s.adopt m p).1.fieldView m' f' = s.fieldView m' f' := by
    intro m' f'
    by_cases hm : m' = m
    · subst hm; rw [hvF]; simp [SchemaStore.fieldView, l1, ad.heap]
    · simp [SchemaStore.fieldView, ad.other m' hm]
  have v1T : ∀ m' k, (s.adopt m p).1.tagKeyView m' k = s.tagKeyView m' k := by
    intro m' k
    by_cases hm : m' = m
    · subst hm; rw [hvT]; simp [SchemaStore.tagKeyView, l1, ad.heap]
    · simp [SchemaStore.tagKeyView, ad.other m' hm]
  unfold tagKeyLocked
  simp only []
  cases hfind : ((s.adopt m p).1.heap (s.adopt m p).2).findTagKey k with
  | some i =>
    simp only []
    refine ⟨ad.inv, ?_, ?_, ?_, ?_, ad.disk, ad.frz, Nat.le_refl _, ?_, fun _ => rfl⟩
    · intro i' h; cases h
      simp [SchemaStore.tagKeyView, l1, hfind]
    · intro j hj
      rw [hvT, ← ad.heap, hfind] at hj; cases hj; rfl
    · intro m' f' j hj; rw [v1F]; exact hj
    · intro m' k' j hj; rw [v1T]; exact hj
    · intro i' hn; rw [hvT, ← ad.heap, hfind] at hn; cases hn
  | none =>
    simp only []
    have hview : s.tagKeyView m k = none := by rw [hvT, ← ad.heap, hfind]
    split
    · refine ⟨ad.inv, ?_, ?_, ?_, ?_, ad.disk, ad.frz, Nat.le_refl _, ?_, fun _ => rfl⟩
      · intro i' h; cases h
      · intro j hj; rw [hview] at hj; cases hj
      · intro m' f' j hj; rw [v1F]; exact hj
      · intro m' k' j hj; rw [v1T]; exact hj
      · intro i' _ h; cases h
    · have hfn := findTagKey_none hfind
      have hwf := ad.inv.wf m _ (memLookup_of_cur ad.cur)
      have hagr := ad.inv.agr m _ (memLookup_of_cur ad.cur)
      refine ⟨schInv_setObj ad.inv (Nat.le_succ _) ad.cur ad.own (wfs_addTagKey hwf hfn) (agrees_addTagKey hagr hfn), ?_, ?_, ?_, ?_, ad.disk, ad.frz, Nat.le_succ _, ?_, ?_⟩
      · intro i' h; cases h
        simp [SchemaStore.tagKeyView, logical_setObj_self _ ad.cur, Schema.findTagKey, Schema.addTagKey]
      · intro j hj; rw [hview] at hj; cases hj
      · intro m' f' j hj
        rw [← v1F] at hj
        by_cases hm : m' = m
        · subst hm
          simp [SchemaStore.fieldView, logical_setObj_self _ ad.cur, Schema.findField, Schema.addTagKey]
          simpa [SchemaStore.fieldView, l1, Schema.findField] using hj
        · simp only [SchemaStore.fieldView] at hj ⊢
          rw [logical_setObj_other ad.inv _ ad.own hm]; exact hj
      · intro m' k' j hj
        rw [← v1T] at hj
        by_cases hm : m' = m
        · subst hm
          simp [SchemaStore.tagKeyView, logical_setObj_self _ ad.cur, Schema.findTagKey, Schema.addTagKey]
          simp [SchemaStore.tagKeyView, l1, Schema.findTagKey] at hj
          by_cases hkk : k' = k
          · subst hkk; rw [hfn] at hj; simp at hj
          · simp [hkk]; exact hj
        · simp only [SchemaStore.tagKeyView] at hj ⊢
          rw [logical_setObj_other ad.inv _ ad.own hm]; exact hj
      · intro i' _ h; cases h; exact ⟨rfl, rfl⟩
      · intro h
        rcases h with h | h
        · exact absurd rfl (h a)
        · exact absurd hview h

/-- uninterrupted `genFieldID`, either variant -/
theorem genField_spec {s : SchemaStore} {a b : Nat} (inv : SchInv s a b) (hba : b ≤ a) (v : SchemaVariant) (lim : Limits)
    (m f : Nat) : FieldGenSpec s m f (genField v lim s m f).1 (genField v lim s m f).2 a b := by
  obtain ⟨i1, p1, l1, d1⟩ := getSchema_spec inv m
  obtain ⟨i2, p2, l2, d2⟩ := lockedPtr_spec i1 v m _ p1
  have g := fieldLocked_spec i2 hba lim m f _ p2
  have lv : ∀ m', (lockedPtr v (s.getSchema m).1 m (s.getSchema m).2).1.logical m' = s.logical m' := by
    intro m'; rw [l2, l1]
  have vF : ∀ m' f', (lockedPtr v (s.getSchema m).1 m (s.getSchema m).2).1.fieldView m' f' = s.fieldView m' f' := by
    intro m' f'; simp [SchemaStore.fieldView, lv]
  have vT : ∀ m' k, (lockedPtr v (s.getSchema m).1 m (s.getSchema m).2).1.tagKeyView m' k = s.tagKeyView m' k := by
    intro m' k; simp [SchemaStore.tagKeyView, lv]
  unfold genField
  simp only []
  refine ⟨g.inv, g.ret, ?_, ?_, ?_, ?_, ?_⟩
  · intro j hj; rw [← vF] at hj; exact g.hit j hj
  · intro m' f' j hj; rw [← vF] at hj; exact g.monoF _ _ _ hj
  · intro m' k j hj; rw [← vT] at hj; exact g.monoT _ _ _ hj
  · rw [g.disk, d2, d1]
  · rw [g.frz]
    cases v with
    | snapshotOutside => simp [lockedPtr]; unfold SchemaStore.getSchema; cases s.memLookup m <;> simp <;> cases s.disk m <;> simp [SchemaStore.alloc]
    | lookupLocked =>
      have hg : ∀ t : SchemaStore, (t.getSchema m).1.frz = t.frz := by
        intro t; unfold SchemaStore.getSchema; cases t.memLookup m <;> simp <;> cases t.disk m <;> simp [SchemaStore.alloc]
      simp [lockedPtr, hg]

/-- uninterrupted `genTagKeyID`, either variant -/
theorem genTagKey_spec {s : SchemaStore} {a b : Nat} (inv : SchInv s a b) (hba : b ≤ a) (v : SchemaVariant) (lim : Limits)
    (m k : Nat) :
    TagKeyGenSpec s a m k (genTagKey v lim s a m k).1 (genTagKey v lim s a m k).2.1 (genTagKey v lim s a m k).2.2 b := by
  obtain ⟨i1, p1, l1, d1⟩ := getSchema_spec inv m
  obtain ⟨i2, p2, l2, d2⟩ := lockedPtr_spec i1 v m _ p1
  have g := tagKeyLocked_spec i2 hba lim m k _ p2
  have lv : ∀ m', (lockedPtr v (s.getSchema m).1 m (s.getSchema m).2).1.logical m' = s.logical m' := by
    intro m'; rw [l2, l1]
  have vF : ∀ m' f', (lockedPtr v (s.getSchema m).1 m (s.getSchema m).2).1.fieldView m' f' = s.fieldView m' f' := by
    intro m' f'; simp [SchemaStore.fieldView, lv]
  have vT : ∀ m' k, (lockedPtr v (s.getSchema m).1 m (s.getSchema m).2).1.tagKeyView m' k = s.tagKeyView m' k := by
    intro m' k; simp [SchemaStore.tagKeyView, lv]
  unfold genTagKey
  simp only []
  refine ⟨g.inv, g.ret, ?_, ?_, ?_, ?_, ?_, g.ctrLe, ?_, ?_⟩
  · intro j hj; rw [← vT] at hj; exact g.hit j hj
  · intro m' f' j hj; rw [← vF] at hj; exact g.monoF _ _ _ hj
  · intro m' k' j hj; rw [← vT] at hj; exact g.monoT _ _ _ hj
  · rw [g.disk, d2, d1]
  · rw [g.frz]
    have hg : ∀ t : SchemaStore, (t.getSchema m).1.frz = t.frz := by
      intro t; unfold SchemaStore.getSchema; cases t.memLookup m <;> simp <;> cases t.disk m <;> simp [SchemaStore.alloc]
    cases v with
    | snapshotOutside => simp [lockedPtr, hg]
    | lookupLocked => simp [lockedPtr, hg]
  · intro i hn; rw [← vT] at hn; exact g.fresh i hn
  · intro h; apply g.keep
    rcases h with h | h
    · exact Or.inl h
    · right; rw [vT]; exact h

/-! ### PrepareFlush / Flush / reopen -/

theorem schema_prepare_spec {s : SchemaStore} {a b : Nat} (inv : SchInv s a b) :
    SchInv s.prepareFlush a b ∧ (∀ m, s.prepareFlush.logical m = s.logical m) ∧ s.prepareFlush.disk = s.disk := by
  unfold SchemaStore.prepareFlush
  cases hf : s.frz with
  | some p => exact ⟨inv, fun _ => rfl, rfl⟩
  | none =>
    have hfm : s.frzMap = fun _ => none := by funext m; simp [SchemaStore.frzMap, hf]
    have hml : ∀ m, ({ s with frz := some (s.cur, s.curEmpty), cur := fun _ => none, curEmpty := true } : SchemaStore).memLookup m = s.memLookup m := by
      intro m
      simp [SchemaStore.memLookup, SchemaStore.frzMap, hf]
      cases s.cur m <;> rfl
    refine ⟨⟨?_, ?_, ?_, ?_, inv.dwf, ?_, fun _ _ => rfl, fun f hf' m => by
        simp at hf'; rw [← hf'.1]; exact inv.curE hf'.2 m⟩, ?_, rfl⟩
    · intro m o h; simp at h
    · intro m o h; simp [SchemaStore.frzMap] at h; exact inv.curP _ _ h
    · intro m o o' h; simp at h
    · intro m o h; rw [hml] at h; exact inv.wf _ _ h
    · intro m o h; rw [hml] at h; exact inv.agr _ _ h
    · intro m; unfold SchemaStore.logical; rw [hml]

theorem mark_findField (sc : Schema) (f : Nat) : sc.markPersisted.findField f = sc.findField f := by
  simp [Schema.findField, Schema.markPersisted, markP]
  cases sc.field f <;> simp

theorem mark_findTagKey (sc : Schema) (k : Nat) : sc.markPersisted.findTagKey k = sc.findTagKey k := by
  simp [Schema.findTagKey, Schema.markPersisted, markP]
  cases sc.tagKey k <;> simp

theorem markP_some {e : Option (Nat × Bool)} {i : Nat} {p : Bool} (h : markP e = some (i, p)) :
    p = true ∧ ∃ q, e = some (i, q) := by
  cases e with
  | none => simp [markP] at h
  | some x => obtain ⟨j, q⟩ := x; simp [markP] at h; obtain ⟨h1, h2⟩ := h; subst h1; subst h2; exact ⟨rfl, q, rfl⟩

theorem wfs_mark {sc : Schema} {a : Nat} (h : WFS sc a) : WFS sc.markPersisted a := by
  refine ⟨?_, ?_, Nat.le_refl _, ?_, ?_, ?_, Nat.le_refl _, ?_⟩
  · intro f i p hi
    obtain ⟨_, q, hq⟩ := markP_some hi; exact h.fid _ _ _ hq
  · intro f f' i p p' h1 h2
    obtain ⟨_, q, hq⟩ := markP_some h1
    obtain ⟨_, q', hq'⟩ := markP_some h2
    exact h.finj _ _ _ _ _ hq hq'
  · intro f i hi
    obtain ⟨hp, _⟩ := markP_some hi; cases hp
  · intro k i p hi
    obtain ⟨_, q, hq⟩ := markP_some hi; exact h.tid _ _ _ hq
  · intro k k' i p p' h1 h2
    obtain ⟨_, q, hq⟩ := markP_some h1
    obtain ⟨_, q', hq'⟩ := markP_some h2
    exact h.tinj _ _ _ _ _ hq hq'
  · intro k i hi
    obtain ⟨hp, _⟩ := markP_some hi; cases hp

/-- the effect of one flushed schema on the kv family entry of its metric -/
def persistStep (sc : Schema) (d : Option Schema) : Option Schema :=
  if sc.needWrite then some (sc.increment.append (d.getD {})) else d

/-- entry of the merged (increment ++ old) map, in terms of the memory object -/
theorem merged_entry {e dkE : Option (Nat × Bool)} {i : Nat} {p : Bool}
    (hagr : ∀ j, e = some (j, true) ↔ dkE = some (j, true)) (hall : ∀ j q, dkE = some (j, q) → q = true)
    (h : orElse (newOnly e) dkE = some (i, p)) : p = true ∧ ∃ q, e = some (i, q) := by
  cases he : e with
  | none =>
    simp [he, newOnly, orElse] at h
    have hp := hall _ _ h; subst hp
    have := (hagr i).2 h; rw [he] at this; cases this
  | some x =>
    obtain ⟨j, q⟩ := x
    cases q with
    | false => simp [he, newOnly, orElse] at h; obtain ⟨h1, h2⟩ := h; subst h1; subst h2; exact ⟨rfl, false, rfl⟩
    | true =>
      simp [he, newOnly, orElse] at h
      have hp := hall _ _ h; subst hp
      have := (hagr i).2 h; rw [he] at this
      exact ⟨rfl, true, this⟩

theorem merged_entry_rev {e dkE : Option (Nat × Bool)} {i : Nat} {q : Bool}
    (hagr : ∀ j, e = some (j, true) ↔ dkE = some (j, true)) (h : e = some (i, q)) :
    orElse (newOnly e) dkE = some (i, true) := by
  cases q with
  | false => simp [h, newOnly, orElse]
  | true => simp [h, newOnly, orElse]; exact (hagr i).1 h

def optFindField (d : Option Schema) (f : Nat) : Option Nat :=
  match d with
  | some x => x.findField f
  | none => none

def optFindTagKey (d : Option Schema) (k : Nat) : Option Nat :=
  match d with
  | some x => x.findTagKey k
  | none => none

structure PersistSpec (sc : Schema) (d d' : Option Schema) (a : Nat) : Prop where
  dwf : ∀ dk', d' = some dk' → WFS dk' a ∧ AllP dk'
  agr : Agrees sc.markPersisted (d'.getD {})
  vf : ∀ f, optFindField d' f = sc.findField f
  vt : ∀ k, optFindTagKey d' k = sc.findTagKey k

theorem persist_spec {sc : Schema} {d : Option Schema} {a : Nat} (hwf : WFS sc a) (hagr : Agrees sc (d.getD {}))
    (hd : ∀ dk, d = some dk → WFS dk a ∧ AllP dk) : PersistSpec sc d (persistStep sc d) a := by
  have hall : AllP (d.getD {}) := by
    cases hdd : d with
    | none => exact allP_empty
    | some dk => exact (hd dk hdd).2
  unfold persistStep
  by_cases hn : sc.needWrite = true
  · rw [if_pos hn]
    have hf := fun f => @merged_entry (sc.field f) ((d.getD {}).field f)
    have ht := fun k => @merged_entry (sc.tagKey k) ((d.getD {}).tagKey k)
    refine ⟨?_, ?_, ?_, ?_⟩
    · intro dk' h; cases h
      refine ⟨⟨?_, ?_, ?_, ?_, ?_, ?_, ?_, ?_⟩, ⟨?_, ?_, ?_, ?_⟩⟩
      · intro f i p hi
        obtain ⟨_, q, hq⟩ := hf f (hagr.fld f) (hall.fp f) hi
        have := hwf.fid _ _ _ hq
        have h1 := hagr.fc; have h2 := hwf.fcnt
        simp only [Schema.append, Schema.increment]; omega
      · intro f f' i p p' h1 h2
        obtain ⟨_, q, hq⟩ := hf f (hagr.fld f) (hall.fp f) h1
        obtain ⟨_, q', hq'⟩ := hf f' (hagr.fld f') (hall.fp f') h2
        exact hwf.finj _ _ _ _ _ hq hq'
      · have := hall.fc; simp only [Schema.append, Schema.increment]; omega
      · intro f i hi
        obtain ⟨hp, _⟩ := hf f (hagr.fld f) (hall.fp f) hi; cases hp
      · intro k i p hi
        obtain ⟨_, q, hq⟩ := ht k (hagr.tag k) (hall.tp k) hi
        exact hwf.tid _ _ _ hq
      · intro k k' i p p' h1 h2
        obtain ⟨_, q, hq⟩ := ht k (hagr.tag k) (hall.tp k) h1
        obtain ⟨_, q', hq'⟩ := ht k' (hagr.tag k') (hall.tp k') h2
        exact hwf.tinj _ _ _ _ _ hq hq'
      · have := hall.tc; simp only [Schema.append, Schema.increment]; omega
      · intro k i hi
        obtain ⟨hp, _⟩ := ht k (hagr.tag k) (hall.tp k) hi; cases hp
      · intro f i p hi; exact (hf f (hagr.fld f) (hall.fp f) hi).1
      · intro k i p hi; exact (ht k (hagr.tag k) (hall.tp k) hi).1
      · have := hall.fc; simp only [Schema.append, Schema.increment]; omega
      · have := hall.tc; simp only [Schema.append, Schema.increment]; omega
    · show Agrees sc.markPersisted (sc.increment.append (d.getD {}))
      refine ⟨?_, ?_, ?_, ?_⟩
      · intro f i
        constructor
        · intro h
          obtain ⟨_, q, hq⟩ := markP_some h
          exact merged_entry_rev (hagr.fld f) hq
        · intro h
          obtain ⟨_, q, hq⟩ := hf f (hagr.fld f) (hall.fp f) h
          simp [Schema.markPersisted, markP, hq]
      · intro k i
        constructor
        · intro h
          obtain ⟨_, q, hq⟩ := markP_some h
          exact merged_entry_rev (hagr.tag k) hq
        · intro h
          obtain ⟨_, q, hq⟩ := ht k (hagr.tag k) (hall.tp k) h
          simp [Schema.markPersisted, markP, hq]
      · have h1 := hagr.fc; have h2 := hwf.fcnt
        simp only [Schema.append, Schema.increment, Schema.markPersisted]; omega
      · have h1 := hagr.tc; have h2 := hwf.tcnt
        simp only [Schema.append, Schema.increment, Schema.markPersisted]; omega
    · intro f
      simp only [optFindField, Schema.findField, Schema.append, Schema.increment]
      cases he : sc.field f with
      | none =>
        cases hdk : (d.getD {}).field f with
        | none => simp [newOnly, orElse]
        | some x =>
          obtain ⟨j, q⟩ := x
          have := hall.fp _ _ _ hdk; subst this
          have := (hagr.fld f j).2 hdk; rw [he] at this; cases this
      | some x =>
        obtain ⟨j, q⟩ := x
        have hm := merged_entry_rev (hagr.fld f) he
        rw [he] at hm; rw [hm]; rfl
    · intro k
      simp only [optFindTagKey, Schema.findTagKey, Schema.append, Schema.increment]
      cases he : sc.tagKey k with
      | none =>
        cases hdk : (d.getD {}).tagKey k with
        | none => simp [newOnly, orElse]
        | some x =>
          obtain ⟨j, q⟩ := x
          have := hall.tp _ _ _ hdk; subst this
          have := (hagr.tag k j).2 hdk; rw [he] at this; cases this
      | some x =>
        obtain ⟨j, q⟩ := x
        have hm := merged_entry_rev (hagr.tag k) he
        rw [he] at hm; rw [hm]; rfl
  · rw [if_neg hn]
    have hnw : sc.nFields ≤ sc.nFieldsP ∧ sc.nTagKeys ≤ sc.nTagKeysP := by
      simp [Schema.needWrite] at hn; omega
    -- nothing in the object is unpersisted
    have allF : ∀ f i q, sc.field f = some (i, q) → q = true := by
      intro f i q h
      cases q with
      | true => rfl
      | false => have := hwf.fnew _ _ h; omega
    have allT : ∀ k i q, sc.tagKey k = some (i, q) → q = true := by
      intro k i q h
      cases q with
      | true => rfl
      | false => have := hwf.tnew _ _ h; omega
    refine ⟨hd, ?_, ?_, ?_⟩
    · refine ⟨?_, ?_, ?_, ?_⟩
      · intro f i
        rw [← hagr.fld]
        constructor
        · intro h
          obtain ⟨_, q, hq⟩ := markP_some h
          have := allF _ _ _ hq; subst this; exact hq
        · intro h; simp [Schema.markPersisted, markP, h]
      · intro k i
        rw [← hagr.tag]
        constructor
        · intro h
          obtain ⟨_, q, hq⟩ := markP_some h
          have := allT _ _ _ hq; subst this; exact hq
        · intro h; simp [Schema.markPersisted, markP, h]
      · have h1 := hagr.fc; have h2 := hwf.fcnt
        simp only [Schema.markPersisted]; omega
      · have h1 := hagr.tc; have h2 := hwf.tcnt
        simp only [Schema.markPersisted]; omega
    · intro f
      have key : (d.getD {}).findField f = sc.findField f := by
        simp only [Schema.findField]
        cases he : sc.field f with
        | none =>
          cases hdk : (d.getD {}).field f with
          | none => rfl
          | some x =>
            obtain ⟨j, q⟩ := x
            have := hall.fp _ _ _ hdk; subst this
            have := (hagr.fld f j).2 hdk; rw [he] at this; cases this
        | some x =>
          obtain ⟨j, q⟩ := x
          have := allF _ _ _ he; subst this
          rw [(hagr.fld f j).1 he]
      revert key
      cases d with
      | none => intro key; simpa [optFindField, Schema.findField] using key
      | some dk => intro key; simpa [optFindField] using key
    · intro k
      have key : (d.getD {}).findTagKey k = sc.findTagKey k := by
        simp only [Schema.findTagKey]
        cases he : sc.tagKey k with
        | none =>
          cases hdk : (d.getD {}).tagKey k with
          | none => rfl
          | some x =>
            obtain ⟨j, q⟩ := x
            have := hall.tp _ _ _ hdk; subst this
            have := (hagr.tag k j).2 hdk; rw [he] at this; cases this
        | some x =>
          obtain ⟨j, q⟩ := x
          have := allT _ _ _ he; subst this
          rw [(hagr.tag k j).1 he]
      revert key
      cases d with
      | none => intro key; simpa [optFindTagKey, Schema.findTagKey] using key
      | some dk => intro key; simpa [optFindTagKey] using key

theorem flush_noop {s : SchemaStore} (h : ∀ f, s.frz ≠ some (f, false)) : s.flush = s := by
  unfold SchemaStore.flush SchemaStore.commit SchemaStore.finish
  cases hf : s.frz with
  | none => simp
  | some p =>
    obtain ⟨f, e⟩ := p
    cases e with
    | true => simp
    | false => exact absurd hf (h f)

def diskAfter (s : SchemaStore) (f : Nat → Option Nat) (m : Nat) : Option Schema :=
  match f m with
  | some o => persistStep (s.heap o) (s.disk m)
  | none => s.disk m

def heapAfter (s : SchemaStore) (f : Nat → Option Nat) (o : Nat) : Schema :=
  if f (s.owner o) = some o then (s.heap o).markPersisted else s.heap o

def flushed (s : SchemaStore) (f : Nat → Option Nat) : SchemaStore :=
  { s with heap := heapAfter s f, frz := none, disk := diskAfter s f, cache := fun _ => none }

theorem flush_active {s : SchemaStore} {f : Nat → Option Nat} (h : s.frz = some (f, false)) :
    s.flush = flushed s f := by
  unfold SchemaStore.flush SchemaStore.commit SchemaStore.finish flushed
  simp only [h]
  congr 1

structure SchFlushSpec (s s' : SchemaStore) (a b' : Nat) : Prop where
  inv : SchInv s' a b'
  vf : ∀ m f, s'.fieldView m f = s.fieldView m f
  vt : ∀ m k, s'.tagKeyView m k = s.tagKeyView m k

theorem schema_flush_spec {s : SchemaStore} {a b b' : Nat} (inv : SchInv s a b) (hba : b ≤ a) (hab : a ≤ b') :
    SchFlushSpec s s.flush a b' := by
  by_cases hact : ∃ f, s.frz = some (f, false)
  · obtain ⟨f, hf⟩ := hact
    rw [flush_active hf]
    have hfm : s.frzMap = f := by funext m; simp [SchemaStore.frzMap, hf]
    have hml' : ∀ m, (flushed s f).memLookup m = s.cur m := by
      intro m; simp [flushed, SchemaStore.memLookup, SchemaStore.frzMap]; cases s.cur m <;> rfl
    have hheap : (flushed s f).heap = heapAfter s f := rfl
    have hdisk : (flushed s f).disk = diskAfter s f := rfl
    have hcur : (flushed s f).cur = s.cur := rfl
    -- per metric with a frozen object: the persist step
    have pers : ∀ m o, f m = some o → PersistSpec (s.heap o) (s.disk m) (persistStep (s.heap o) (s.disk m)) a := by
      intro m o hm
      have hmem : s.memLookup m = some o := by
        unfold SchemaStore.memLookup
        cases hc : s.cur m with
        | none => simp [hfm, hm]
        | some o' => simp; exact inv.same _ _ _ hc (by rw [hfm]; exact hm)
      exact persist_spec (inv.wf _ _ hmem) (inv.agr _ _ hmem)
        (fun dk hd => ⟨wfs_mono (inv.dwf _ _ hd).1 hba, (inv.dwf _ _ hd).2⟩)
    have heapOf : ∀ m o, s.cur m = some o →
        ((f m = some o ∧ heapAfter s f o = (s.heap o).markPersisted) ∨
         (f m = none ∧ heapAfter s f o = s.heap o)) := by
      intro m o hc
      have hown := (inv.curP _ _ hc).2
      unfold heapAfter
      rw [hown]
      cases hfmm : f m with
      | none => right; simp
      | some o' =>
        have : o = o' := inv.same _ _ _ hc (by rw [hfm]; exact hfmm)
        subst this; left; simp
    refine ⟨⟨?_, ?_, ?_, ?_, ?_, ?_, inv.curE, fun f' hf' => by simp [flushed] at hf'⟩, ?_, ?_⟩
    · exact inv.curP
    · intro m o h; simp [flushed, SchemaStore.frzMap] at h
    · intro m o o' _ h; simp [flushed, SchemaStore.frzMap] at h
    · intro m o h
      rw [hml'] at h
      rw [hheap]
      rcases heapOf m o h with ⟨_, e⟩ | ⟨_, e⟩
      · rw [e]; exact wfs_mark (inv.wf _ _ (memLookup_of_cur h))
      · rw [e]; exact inv.wf _ _ (memLookup_of_cur h)
    · intro m sc h
      rw [hdisk] at h
      unfold diskAfter at h
      cases hfmm : f m with
      | none => rw [hfmm] at h; simp at h; exact ⟨wfs_mono (inv.dwf _ _ h).1 (Nat.le_trans hba hab), (inv.dwf _ _ h).2⟩
      | some o =>
        rw [hfmm] at h; simp at h
        have := (pers m o hfmm).dwf sc h
        exact ⟨wfs_mono this.1 hab, this.2⟩
    · intro m o h
      rw [hml'] at h
      rw [hheap, hdisk]
      unfold diskAfter
      rcases heapOf m o h with ⟨hfmm, e⟩ | ⟨hfmm, e⟩
      · rw [e, hfmm]; exact (pers m o hfmm).agr
      · rw [e, hfmm]; exact inv.agr _ _ (memLookup_of_cur h)
    · intro m fl
      unfold SchemaStore.fieldView SchemaStore.logical
      rw [hml']
      cases hc : s.cur m with
      | some o =>
        rw [memLookup_of_cur hc]
        show (heapAfter s f o).findField fl = (s.heap o).findField fl
        rcases heapOf m o hc with ⟨_, e⟩ | ⟨_, e⟩
        · rw [e]; exact mark_findField _ _
        · rw [e]
      | none =>
        show optFindField (diskAfter s f m) fl = _
        unfold diskAfter
        cases hfmm : f m with
        | none =>
          have : s.memLookup m = none := by simp [SchemaStore.memLookup, hc, hfm, hfmm]
          rw [this]; rfl
        | some o =>
          have : s.memLookup m = some o := by simp [SchemaStore.memLookup, hc, hfm, hfmm]
          rw [this]
          exact (pers m o hfmm).vf fl
    · intro m k
      unfold SchemaStore.tagKeyView SchemaStore.logical
      rw [hml']
      cases hc : s.cur m with
      | some o =>
        rw [memLookup_of_cur hc]
        show (heapAfter s f o).findTagKey k = (s.heap o).findTagKey k
        rcases heapOf m o hc with ⟨_, e⟩ | ⟨_, e⟩
        · rw [e]; exact mark_findTagKey _ _
        · rw [e]
      | none =>
        show optFindTagKey (diskAfter s f m) k = _
        unfold diskAfter
        cases hfmm : f m with
        | none =>
          have : s.memLookup m = none := by simp [SchemaStore.memLookup, hc, hfm, hfmm]
          rw [this]; rfl
        | some o =>
          have : s.memLookup m = some o := by simp [SchemaStore.memLookup, hc, hfm, hfmm]
          rw [this]
          exact (pers m o hfmm).vt k
  · have : s.flush = s := flush_noop (fun f h => hact ⟨f, h⟩)
    rw [this]
    exact ⟨schInv_mono inv (Nat.le_refl _) (Nat.le_trans hba hab), fun _ _ => rfl, fun _ _ => rfl⟩

/-- reopen: only the kv family is left; what it holds was in the view before, with the same id -/
theorem schema_recover_spec {s : SchemaStore} {a b : Nat} (inv : SchInv s a b) :
    SchInv s.recover b b ∧
    (∀ m f i, s.recover.fieldView m f = some i → s.fieldView m f = some i) ∧
    (∀ m k i, s.recover.tagKeyView m k = some i → s.tagKeyView m k = some i) := by
  have hl : ∀ m, s.recover.logical m = s.disk m := by
    intro m; simp [SchemaStore.logical, SchemaStore.recover, SchemaStore.memLookup, SchemaStore.frzMap]
  refine ⟨⟨?_, ?_, ?_, ?_, ?_, ?_, fun _ _ => rfl, fun f' hf' => by simp [SchemaStore.recover] at hf'⟩, ?_, ?_⟩
  · intro m o h; simp [SchemaStore.recover] at h
  · intro m o h; simp [SchemaStore.recover, SchemaStore.frzMap] at h
  · intro m o o' h; simp [SchemaStore.recover] at h
  · intro m o h; simp [SchemaStore.recover, SchemaStore.memLookup, SchemaStore.frzMap] at h
  · intro m sc h; exact inv.dwf m sc h
  · intro m o h; simp [SchemaStore.recover, SchemaStore.memLookup, SchemaStore.frzMap] at h
  · intro m f i h
    unfold SchemaStore.fieldView at h ⊢
    rw [hl] at h
    unfold SchemaStore.logical
    cases hm : s.memLookup m with
    | none => simpa using h
    | some o =>
      simp only []
      cases hd : s.disk m with
      | none => rw [hd] at h; cases h
      | some dk =>
        rw [hd] at h
        simp only [Schema.findField] at h ⊢
        cases he : dk.field f with
        | none => rw [he] at h; cases h
        | some x =>
          obtain ⟨j, q⟩ := x
          rw [he] at h; simp at h; subst h
          have hq := (inv.dwf _ _ hd).2.fp _ _ _ he; subst hq
          have ag := inv.agr _ _ hm
          rw [hd] at ag
          rw [(ag.fld f j).2 he]; rfl
  · intro m k i h
    unfold SchemaStore.tagKeyView at h ⊢
    rw [hl] at h
    unfold SchemaStore.logical
    cases hm : s.memLookup m with
    | none => simpa using h
    | some o =>
      simp only []
      cases hd : s.disk m with
      | none => rw [hd] at h; cases h
      | some dk =>
        rw [hd] at h
        simp only [Schema.findTagKey] at h ⊢
        cases he : dk.tagKey k with
        | none => rw [he] at h; cases h
        | some x =>
          obtain ⟨j, q⟩ := x
          rw [he] at h; simp at h; subst h
          have hq := (inv.dwf _ _ hd).2.tp _ _ _ he; subst hq
          have ag := inv.agr _ _ hm
          rw [hd] at ag
          rw [(ag.tag k j).2 he]; rfl

/-- forgetting an immutable map that is empty -/
theorem schema_dropEmpty_spec {s : SchemaStore} {a b : Nat} (inv : SchInv s a b) :
    SchInv s.dropEmpty a b ∧ (∀ m, s.dropEmpty.logical m = s.logical m) ∧ s.dropEmpty.disk = s.disk := by
  unfold SchemaStore.dropEmpty
  cases hf : s.frz with
  | none => exact ⟨inv, fun _ => rfl, rfl⟩
  | some p =>
    obtain ⟨f, e⟩ := p
    cases e with
    | false => exact ⟨inv, fun _ => rfl, rfl⟩
    | true =>
      have hfe : ∀ m, f m = none := inv.frzE f hf
      have hfm : ∀ m, s.frzMap m = none := by intro m; simp [SchemaStore.frzMap, hf, hfe]
      have hml : ∀ m, ({ s with frz := none } : SchemaStore).memLookup m = s.memLookup m := by
        intro m
        have h1 : ({ s with frz := none } : SchemaStore).frzMap m = none := by simp [SchemaStore.frzMap]
        unfold SchemaStore.memLookup
        rw [h1, hfm m]
      refine ⟨⟨inv.curP, ?_, ?_, ?_, inv.dwf, ?_, inv.curE, fun f' hf' => by cases hf'⟩, ?_, rfl⟩
      · intro m o h; simp [SchemaStore.frzMap] at h
      · intro m o o' _ h; simp [SchemaStore.frzMap] at h
      · intro m o h; rw [hml] at h; exact inv.wf _ _ h
      · intro m o h; rw [hml] at h; exact inv.agr _ _ h
      · intro m; unfold SchemaStore.logical; rw [hml]

theorem schema_prepareE_spec {s : SchemaStore} {a b : Nat} (inv : SchInv s a b) (se : Bool) :
    SchInv (s.prepareFlushE se) a b ∧ (∀ m, (s.prepareFlushE se).logical m = s.logical m) ∧ (s.prepareFlushE se).disk = s.disk := by
  unfold SchemaStore.prepareFlushE
  cases se with
  | false => simpa using schema_prepare_spec inv
  | true =>
    obtain ⟨i1, l1, d1⟩ := schema_dropEmpty_spec inv
    obtain ⟨i2, l2, d2⟩ := schema_prepare_spec i1
    exact ⟨by simpa using i2, fun m => by simp [l2, l1], by simp [d2, d1]⟩

/-! ### the create path never consults the LRU cache -/

def SchemaStore.withCache (s : SchemaStore) (c : Nat → Option Nat) : SchemaStore := { s with cache := c }

theorem getSchema_withCache (s : SchemaStore) (c : Nat → Option Nat) (m : Nat) :
    (s.withCache c).getSchema m = ((s.getSchema m).1.withCache c, (s.getSchema m).2) := by
  unfold SchemaStore.getSchema
  have h1 : (s.withCache c).memLookup m = s.memLookup m := rfl
  have h2 : (s.withCache c).disk = s.disk := rfl
  rw [h1, h2]
  cases s.memLookup m with
  | some o => rfl
  | none =>
    cases s.disk m with
    | some sc => rfl
    | none => rfl

theorem adopt_withCache (s : SchemaStore) (c : Nat → Option Nat) (m : Nat) (p : SPtr) :
    (s.withCache c).adopt m p = ((s.adopt m p).1.withCache c, (s.adopt m p).2) := by
  cases p with
  | obj o =>
    rw [adopt_obj, adopt_obj]
    unfold adoptAt
    have h : (s.withCache c).cur = s.cur := rfl
    rw [h]
    cases s.cur m <;> rfl
  | nil =>
    rw [adopt_nil, adopt_nil]
    unfold adoptAt
    have h : ((s.withCache c).alloc m {}).1.cur = (s.alloc m {}).1.cur := rfl
    rw [h]
    cases (s.alloc m {}).1.cur m <;> rfl

theorem fieldLocked_withCache (lim : Limits) (s : SchemaStore) (c : Nat → Option Nat) (m f : Nat) (p : SPtr) :
    fieldLocked lim (s.withCache c) m f p = ((fieldLocked lim s m f p).1.withCache c, (fieldLocked lim s m f p).2) := by
  unfold fieldLocked
  rw [adopt_withCache]
  simp only []
  have hh : ((s.adopt m p).1.withCache c).heap = (s.adopt m p).1.heap := rfl
  rw [hh]
  cases ((s.adopt m p).1.heap (s.adopt m p).2).findField f with
  | some i => rfl
  | none => simp only []; split <;> rfl

theorem tagKeyLocked_withCache (lim : Limits) (s : SchemaStore) (c : Nat → Option Nat) (ctr m k : Nat) (p : SPtr) :
    tagKeyLocked lim (s.withCache c) ctr m k p =
      ((tagKeyLocked lim s ctr m k p).1.withCache c, (tagKeyLocked lim s ctr m k p).2.1, (tagKeyLocked lim s ctr m k p).2.2) := by
  unfold tagKeyLocked
  rw [adopt_withCache]
  simp only []
  have hh : ((s.adopt m p).1.withCache c).heap = (s.adopt m p).1.heap := rfl
  rw [hh]
  cases ((s.adopt m p).1.heap (s.adopt m p).2).findTagKey k with
  | some i => rfl
  | none => simp only []; split <;> rfl

theorem lockedPtr_withCache (v : SchemaVariant) (s : SchemaStore) (c : Nat → Option Nat) (m : Nat) (p : SPtr) :
    lockedPtr v (s.withCache c) m p = ((lockedPtr v s m p).1.withCache c, (lockedPtr v s m p).2) := by
  cases v with
  | snapshotOutside => rfl
  | lookupLocked => exact getSchema_withCache s c m

/-- `genFieldID` / `genTagKeyID` (either variant) give the same answer and leave the same store whatever
the LRU cache holds: the create path reads the memory maps and the kv family, never the cache -/
theorem genField_withCache (v : SchemaVariant) (lim : Limits) (s : SchemaStore) (c : Nat → Option Nat) (m f : Nat) :
    genField v lim (s.withCache c) m f = ((genField v lim s m f).1.withCache c, (genField v lim s m f).2) := by
  unfold genField
  simp only []
  rw [getSchema_withCache, lockedPtr_withCache, fieldLocked_withCache]

theorem genTagKey_withCache (v : SchemaVariant) (lim : Limits) (s : SchemaStore) (c : Nat → Option Nat) (ctr m k : Nat) :
    genTagKey v lim (s.withCache c) ctr m k =
      ((genTagKey v lim s ctr m k).1.withCache c, (genTagKey v lim s ctr m k).2.1, (genTagKey v lim s ctr m k).2.2) := by
  unfold genTagKey
  simp only []
  rw [getSchema_withCache, lockedPtr_withCache, tagKeyLocked_withCache]

/-- within one metric, field ids and tag key ids identify the name -/
theorem fieldView_inj {s : SchemaStore} {a b : Nat} (inv : SchInv s a b) (hba : b ≤ a) {m f f' i : Nat}
    (h1 : s.fieldView m f = some i) (h2 : s.fieldView m f' = some i) : f = f' := by
  unfold SchemaStore.fieldView SchemaStore.logical at h1 h2
  have key : ∀ sc : Schema, WFS sc a → sc.findField f = some i → sc.findField f' = some i → f = f' := by
    intro sc hw g1 g2
    simp only [Schema.findField] at g1 g2
    cases e1 : sc.field f with
    | none => rw [e1] at g1; cases g1
    | some x =>
      cases e2 : sc.field f' with
      | none => rw [e2] at g2; cases g2
      | some y =>
        obtain ⟨j, q⟩ := x; obtain ⟨j', q'⟩ := y
        rw [e1] at g1; rw [e2] at g2; simp at g1 g2; subst g1; subst g2
        exact hw.finj _ _ _ _ _ e1 e2
  cases hm : s.memLookup m with
  | some o => rw [hm] at h1 h2; exact key _ (inv.wf _ _ hm) h1 h2
  | none =>
    rw [hm] at h1 h2
    cases hd : s.disk m with
    | none => rw [hd] at h1; cases h1
    | some dk => rw [hd] at h1 h2; exact key _ (wfs_mono (inv.dwf _ _ hd).1 hba) h1 h2

theorem tagKeyView_inj {s : SchemaStore} {a b : Nat} (inv : SchInv s a b) (hba : b ≤ a) {m k k' i : Nat}
    (h1 : s.tagKeyView m k = some i) (h2 : s.tagKeyView m k' = some i) : k = k' := by
  unfold SchemaStore.tagKeyView SchemaStore.logical at h1 h2
  have key : ∀ sc : Schema, WFS sc a → sc.findTagKey k = some i → sc.findTagKey k' = some i → k = k' := by
    intro sc hw g1 g2
    simp only [Schema.findTagKey] at g1 g2
    cases e1 : sc.tagKey k with
    | none => rw [e1] at g1; cases g1
    | some x =>
      cases e2 : sc.tagKey k' with
      | none => rw [e2] at g2; cases g2
      | some y =>
        obtain ⟨j, q⟩ := x; obtain ⟨j', q'⟩ := y
        rw [e1] at g1; rw [e2] at g2; simp at g1 g2; subst g1; subst g2
        exact hw.tinj _ _ _ _ _ e1 e2
  cases hm : s.memLookup m with
  | some o => rw [hm] at h1 h2; exact key _ (inv.wf _ _ hm) h1 h2
  | none =>
    rw [hm] at h1 h2
    cases hd : s.disk m with
    | none => rw [hd] at h1; cases h1
    | some dk => rw [hd] at h1 h2; exact key _ (wfs_mono (inv.dwf _ _ hd).1 hba) h1 h2

/-- every tag key id in the view is below the in-memory counter; on disk, below the synced one -/
theorem tagKeyView_bound {s : SchemaStore} {a b : Nat} (inv : SchInv s a b) (hba : b ≤ a) {m k i : Nat}
    (h : s.tagKeyView m k = some i) : i < a := by
  unfold SchemaStore.tagKeyView SchemaStore.logical at h
  have key : ∀ sc : Schema, WFS sc a → sc.findTagKey k = some i → i < a := by
    intro sc hw g
    simp only [Schema.findTagKey] at g
    cases e : sc.tagKey k with
    | none => rw [e] at g; cases g
    | some x => obtain ⟨j, q⟩ := x; rw [e] at g; simp at g; subst g; exact hw.tid _ _ _ e
  cases hm : s.memLookup m with
  | some o => rw [hm] at h; exact key _ (inv.wf _ _ hm) h
  | none =>
    rw [hm] at h
    cases hd : s.disk m with
    | none => rw [hd] at h; cases h
    | some dk => rw [hd] at h; exact key _ (wfs_mono (inv.dwf _ _ hd).1 hba) h

theorem recovered_tagKey_bound {s : SchemaStore} {a b : Nat} (inv : SchInv s a b) {m k i : Nat}
    (h : s.recover.tagKeyView m k = some i) : i < b :=
  tagKeyView_bound (schema_recover_spec inv).1 (Nat.le_refl _) h

end LinVerif.IdAssign
