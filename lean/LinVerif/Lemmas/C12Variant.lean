/-
Helper lemmas for C12: in the region the partial theorems cover (same field specs everywhere, one
aggregate kind per field, primitive series marshalled with that kind) the two switches of
`Variant` make no difference — so the theorems proved for `Variant.code` hold for every variant,
in particular for the repaired code.
-/
import LinVerif.Lemmas.C12Inter

namespace LinVerif.RootMerge

/-- every data point of a spec'd single-kind field was marshalled with that kind's byte -/
def WellKinded (sp0 : List Spec) (tss : List TS) : Prop :=
  ∀ ts ∈ tss, ∀ a ∈ ts.atoms, ∀ k, kindsOf sp0 a.f = some [k] → a.kind = k.code

theorem addAtom_variant (v : Variant) (sp0 specs : List Spec) (hs : Simple sp0) (he : SpecEquiv specs sp0)
    (cap : Nat) (c : Cells) (a : Atom) (hk : ∀ k, kindsOf sp0 a.f = some [k] → a.kind = k.code) :
    addAtom v specs cap c a = addAtom .code specs cap c a := by
  unfold addAtom
  cases hq : kindsOf specs a.f with
  | none => rfl
  | some ks =>
    have hq0 : kindsOf sp0 a.f = some ks := by rw [← kindsOf_congr he]; exact hq
    obtain ⟨k, rfl, -⟩ := hs a.f ks hq0
    have hkind := hk k hq0
    by_cases hc : a.s < cap
    · simp only [hc, if_true]
      funext t f k' s
      by_cases hcond : t = a.t ∧ f = a.f ∧ s = a.s ∧ [k].contains k' = true
      · have hk' : k' = k := by simpa using hcond.2.2.2
        subst hk'
        simp [hcond.1, hcond.2.1, hcond.2.2.1, hkind, Variant.code]
      · have n1 : ¬ (t = a.t ∧ f = a.f ∧ s = a.s ∧ [k].contains k' = true ∧
            (v.crossFeed = true ∨ k'.code = a.kind ∨
              v.fallbackCross = true ∧ ([k].all fun k' => k'.code != a.kind) = true)) :=
          fun h => hcond ⟨h.1, h.2.1, h.2.2.1, h.2.2.2.1⟩
        have n2 : ¬ (t = a.t ∧ f = a.f ∧ s = a.s ∧ [k].contains k' = true ∧
            (Variant.code.crossFeed = true ∨ k'.code = a.kind ∨
              Variant.code.fallbackCross = true ∧ ([k].all fun k' => k'.code != a.kind) = true)) :=
          fun h => hcond ⟨h.1, h.2.1, h.2.2.1, h.2.2.2.1⟩
        rw [if_neg n1, if_neg n2]
    · simp [hc]

theorem foldl_addAtom_variant (v : Variant) (sp0 specs : List Spec) (hs : Simple sp0) (he : SpecEquiv specs sp0)
    (cap : Nat) (atoms : List Atom) (c : Cells)
    (hk : ∀ a ∈ atoms, ∀ k, kindsOf sp0 a.f = some [k] → a.kind = k.code) :
    atoms.foldl (addAtom v specs cap) c = atoms.foldl (addAtom .code specs cap) c := by
  induction atoms generalizing c with
  | nil => rfl
  | cons a as ih =>
    rw [List.foldl_cons, List.foldl_cons, addAtom_variant v sp0 specs hs he cap c a (hk a List.mem_cons_self)]
    exact ih _ (fun b hb => hk b (List.mem_cons_of_mem _ hb))

theorem aggregateAll_variant (v : Variant) (sp0 : List Spec) (hs : Simple sp0) (a : Agg)
    (he : SpecEquiv a.specs sp0) (tss : List TS) (hw : WellKinded sp0 tss) :
    a.aggregateAll v tss = a.aggregateAll .code tss := by
  induction tss generalizing a with
  | nil => rfl
  | cons ts tss ih =>
    rw [aggregateAll_cons, aggregateAll_cons]
    have hw' : WellKinded sp0 tss := fun t ht => hw t (List.mem_cons_of_mem _ ht)
    by_cases hf : ts.fields.isEmpty = true
    · rw [if_pos hf, if_pos hf]; exact ih a he hw'
    · rw [if_neg hf, if_neg hf]
      have : a.aggregateTS v ts = a.aggregateTS .code ts := by
        unfold Agg.aggregateTS
        rw [foldl_addAtom_variant v sp0 a.specs hs he a.cap ts.atoms a.cells (hw ts List.mem_cons_self)]
      rw [this]
      exact ih _ he hw'

/-- what an aggregator (single kind per field) emits is marshalled with the right kind bytes -/
theorem wellKinded_emit (sp0 : List Spec) (a : Agg) (he : SpecEquiv a.specs sp0)
    (hn : (a.specs.map (·.name)).Nodup) : WellKinded sp0 a.emit := by
  intro ts hts x hx k hk
  obtain ⟨-, t, -, rfl⟩ := (mem_emit a ts).mp hts
  simp only [TS.atoms, Agg.emitTS, List.mem_flatMap, List.mem_map, FieldData.atoms] at hx
  obtain ⟨fd, ⟨sp, hsp, rfl⟩, p, hp, sv, _, rfl⟩ := hx
  simp only at hk hp ⊢
  have hks : kindsOf a.specs sp.name = some [k] := by rw [kindsOf_congr he]; exact hk
  obtain ⟨sp', hsp', hname, hkinds, -⟩ := kindsOf_eq_some _ _ _ hks
  have : sp' = sp := name_inj_of_nodup a.specs hn sp' sp hsp' hsp hname
  subst this
  split at hp
  · rw [hkinds] at hp
    simp only [List.map_cons, List.map_nil, List.mem_singleton] at hp
    subst hp; rfl
  · cases hp

theorem addSpecs_id (a : Agg) (more : List Spec)
    (h : ∀ sp ∈ more, a.specs.any (fun x => x.name == sp.name) = true) : a.addSpecs more = a := by
  unfold Agg.addSpecs
  have : more.foldl addSpec a.specs = a.specs := by
    induction more with
    | nil => rfl
    | cons sp more ih =>
      rw [List.foldl_cons]
      have : addSpec a.specs sp = a.specs := by
        unfold addSpec; rw [if_pos (h sp List.mem_cons_self)]
      rw [this]
      exact ih (fun x hx => h x (List.mem_cons_of_mem _ hx))
  rw [this]

theorem any_name_of_equiv {a b : List Spec} (he : SpecEquiv a b) (sp : Spec) (hsp : sp ∈ a) :
    b.any (fun x => x.name == sp.name) = true := by
  have h1 : specView a sp.name ≠ none := by
    unfold specView
    cases hf : a.find? (fun x => x.name == sp.name) with
    | none =>
      have := List.find?_eq_none.mp hf sp hsp
      simp at this
    | some _ => simp
  rw [he sp.name] at h1
  unfold specView at h1
  cases hf : b.find? (fun x => x.name == sp.name) with
  | none => rw [hf] at h1; exact absurd rfl h1
  | some y =>
    have hy : (y.name == sp.name) = true := by
      have := List.find?_some hf
      simpa using this
    exact List.any_eq_true.mpr ⟨y, List.mem_of_find?_eq_some hf, hy⟩

/-- responses as the partial theorems allow them: not-found, or data with the reference specs (up
to order) whose series are well-kinded -/
def GoodResp (sp0 : List Spec) : Resp → Prop
  | .ok p => SpecEquiv p.specs sp0 ∧ WellKinded sp0 p.series
  | .notFound => True
  | _ => False

/-- **the variant does not matter in the covered region**: handling such responses gives the same
context under every variant -/
theorem handleAll_variant (v : Variant) (sp0 : List Spec) (hs : Simple sp0) (c : Ctx)
    (hc : ∀ a, c.agg = some a → SpecEquiv a.specs sp0) (rs : List Resp) (hr : ∀ r ∈ rs, GoodResp sp0 r) :
    c.handleAll v rs = c.handleAll .code rs := by
  induction rs generalizing c with
  | nil => rfl
  | cons r rs ih =>
    rw [handleAll_cons, handleAll_cons]
    have hstep : c.handle v r = c.handle .code r ∧ ∀ a, (c.handle .code r).agg = some a → SpecEquiv a.specs sp0 := by
      have hg := hr r List.mem_cons_self
      cases r with
      | notFound =>
        refine ⟨rfl, ?_⟩
        intro a ha
        apply hc a
        have : (c.handle .code .notFound).agg = c.agg := by
          simp only [Ctx.handle, Ctx.absorb]; split <;> rfl
        rw [← this]; exact ha
      | error => cases hg
      | bad => cases hg
      | ok p =>
        obtain ⟨hpe, hpw⟩ := hg
        by_cases hsp : p.specs.isEmpty = true
        · refine ⟨by simp [Ctx.handle, Ctx.absorb, hsp], ?_⟩
          intro a ha
          apply hc a
          simpa [Ctx.handle, Ctx.absorb, hsp] using ha
        · cases hagg : c.agg with
          | none =>
            have e : (Agg.new p.specs p.cap).aggregateAll v p.series = (Agg.new p.specs p.cap).aggregateAll .code p.series :=
              aggregateAll_variant v sp0 hs _ hpe p.series hpw
            refine ⟨by simp [Ctx.handle, Ctx.absorb, hsp, hagg, e], ?_⟩
            intro a ha
            simp only [Ctx.handle, Ctx.absorb, hsp, hagg, Bool.false_eq_true, if_false, Option.some.injEq] at ha
            rw [← ha, aggregateAll_specs]; exact hpe
          | some a0 =>
            have he0 := hc a0 hagg
            have hid : a0.addSpecs p.specs = a0 :=
              addSpecs_id a0 p.specs (fun sp hsp' => any_name_of_equiv (hpe.trans he0.symm) sp hsp')
            have e : a0.aggregateAll v p.series = a0.aggregateAll .code p.series :=
              aggregateAll_variant v sp0 hs a0 he0 p.series hpw
            refine ⟨?_, ?_⟩
            · simp only [Ctx.handle, Ctx.absorb, hsp, hagg, Bool.false_eq_true, if_false, Variant.code]
              cases v.mergeLaterSpecs <;> simp [hid, e] <;> rfl
            · intro a ha
              simp only [Ctx.handle, Ctx.absorb, hsp, hagg, Bool.false_eq_true, if_false, Variant.code,
                Option.some.injEq] at ha
              rw [← ha, aggregateAll_specs]; exact he0
    rw [hstep.1]
    exact ih _ hstep.2 (fun x hx => hr x (List.mem_cons_of_mem _ hx))

theorem leafPayload_variant (v : Variant) (sp0 specs : List Spec) (hs : Simple sp0) (he : SpecEquiv specs sp0)
    (cap : Nat) (its : List TS) (hw : WellKinded sp0 its) :
    leafPayload v specs cap its = leafPayload .code specs cap its := by
  unfold leafPayload
  rw [aggregateAll_variant v sp0 hs (Agg.new specs cap) he its hw]

end LinVerif.RootMerge
