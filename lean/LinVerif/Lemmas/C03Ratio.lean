/-
C03/C04 helper lemmas: the merge with an interval ratio (rollup merge). Every target slot holds
the aggregate of exactly the source values whose target position `baseSlot + slot / ratio` is that
slot, in input order then slot order — provided no source value falls outside the target range
(neither the `continue` on a negative position nor the `break` past the end is taken).
-/
import LinVerif.Lemmas.C03Scan

set_option linter.unusedSectionVars false
set_option linter.unusedSimpArgs false
namespace LinVerif.C03
open LinVerif.Map LinVerif.MetricBlock LinVerif.Merge

variable {V : Type}

/-- the stream one decoder delivers over `[t0, t0+n)`: present slots ascending -/
def slotVals (vals : List (Nat × V)) (t0 n : Nat) : List (Nat × V) :=
  (List.range' t0 n).filterMap (fun t => (lookup vals t).map (fun v => (t, v)))

/-- `targetPos + target.Start`: the target slot of source slot `t` -/
def targetSlot (cfg : Cfg) (t : Nat) : Nat := cfg.baseSlot + t / cfg.ratio

theorem slotVals_succ (vals : List (Nat × V)) (t0 n : Nat) :
    slotVals vals t0 (n + 1) =
      (match lookup vals t0 with | none => [] | some v => [(t0, v)]) ++ slotVals vals (t0 + 1) n := by
  unfold slotVals
  rw [List.range'_succ, List.filterMap_cons]
  cases lookup vals t0 <;> simp

/-- one decoder, any ratio: position `q` receives, in slot order, exactly the values whose target
slot is `q + tStart` -/
theorem feed_general (op : V → V → V) (cfg : Cfg) (tStart len : Nat) (vals : List (Nat × V)) :
    ∀ (n : Nat) (acc : List (Nat × V)) (t0 : Nat),
      (∀ p ∈ slotVals vals t0 n, tStart ≤ targetSlot cfg p.1 ∧ targetSlot cfg p.1 < tStart + len) →
      ∀ q, lookup (feed op cfg tStart len vals acc t0 n) q =
        combList op (lookup acc q)
          (((slotVals vals t0 n).filter (fun p => decide (targetSlot cfg p.1 = q + tStart))).map Prod.snd) := by
  intro n
  induction n with
  | zero => intro acc t0 _ q; simp [feed, slotVals]
  | succ n ih =>
    intro acc t0 hw q
    rw [slotVals_succ] at hw ⊢
    unfold feed
    cases hv : lookup vals t0 with
    | none =>
      simp only [hv, List.nil_append] at hw ⊢
      exact ih acc (t0 + 1) hw q
    | some v =>
      simp only [hv] at hw ⊢
      have h0 := hw (t0, v) (by simp)
      have hrest : ∀ p ∈ slotVals vals (t0 + 1) n,
          tStart ≤ targetSlot cfg p.1 ∧ targetSlot cfg p.1 < tStart + len :=
        fun p hp => hw p (List.mem_append_right _ hp)
      have hp : ((cfg.baseSlot : Int) + ((t0 / cfg.ratio : Nat) : Int) - (tStart : Int))
          = ((targetSlot cfg t0 - tStart : Nat) : Int) := by
        unfold targetSlot at h0 ⊢; simp only at h0; omega
      simp only [hp]
      have n1 : ¬ (((targetSlot cfg t0 - tStart : Nat) : Int) < 0) := by omega
      have n2 : ¬ (((targetSlot cfg t0 - tStart : Nat) : Int) ≥ (len : Int)) := by
        have := h0.2; simp only at this; omega
      simp only [n1, n2, if_false, Int.toNat_natCast]
      rw [ih _ (t0 + 1) hrest q, lookup_put]
      by_cases e : targetSlot cfg t0 = q + tStart
      · have e' : targetSlot cfg t0 - tStart = q := by omega
        simp [List.filter_cons, e, e']
      · have e' : ¬ (targetSlot cfg t0 - tStart = q) := by
          have := h0.1; simp only at this; omega
        simp [List.filter_cons, e, e']

/-- the source values of block `b` that the merge places into target slot `Q` -/
def srcValues (cfg : Cfg) (b : Block V) (s f Q : Nat) : List V :=
  (List.range' b.start (b.stop + 1 - b.start)).filterMap (fun t =>
    if targetSlot cfg t = Q then b.get s f t else none)

theorem srcValues_eq (cfg : Cfg) (b : Block V) (s f Q : Nat) (vals : List (Nat × V))
    (hd : b.fieldData s f = some vals) :
    srcValues cfg b s f Q =
      ((slotVals vals b.start (b.stop + 1 - b.start)).filter (fun p => decide (targetSlot cfg p.1 = Q))).map Prod.snd := by
  unfold srcValues slotVals
  have hget : ∀ t ∈ List.range' b.start (b.stop + 1 - b.start), b.get s f t = lookup vals t := by
    intro t ht
    rw [List.mem_range'_1] at ht
    unfold Block.get
    rw [hd]
    have : b.start ≤ t ∧ t ≤ b.stop := by omega
    simp [this]
  generalize List.range' b.start (b.stop + 1 - b.start) = l at hget
  induction l with
  | nil => rfl
  | cons t r ih =>
    have ih' := ih (fun t' ht' => hget t' (List.mem_cons_of_mem _ ht'))
    simp only [List.filterMap_cons]
    rw [hget t List.mem_cons_self]
    cases hl : lookup vals t with
    | none =>
      simp only [Option.map_none]
      by_cases e : targetSlot cfg t = Q <;> simp [e, ih']
    | some v =>
      by_cases e : targetSlot cfg t = Q
      · simp [e, List.filter_cons, ih']
      · simp [e, List.filter_cons, ih']

theorem srcValues_nil_of_none (cfg : Cfg) (b : Block V) (s f Q : Nat) (hd : b.fieldData s f = none) :
    srcValues cfg b s f Q = [] := by
  unfold srcValues
  rw [List.filterMap_eq_nil_iff]
  intro t _
  have : b.get s f t = none := by unfold Block.get; rw [hd]
  simp [this]

/-- all source values of (s, f) in the input blocks fall into the target range -/
def InWindow (cfg : Cfg) (tS tE : Nat) (bs : List (Block V)) (s f : Nat) : Prop :=
  ∀ b ∈ bs, ∀ t, b.start ≤ t → t ≤ b.stop → (b.get s f t).isSome →
    tS ≤ targetSlot cfg t ∧ targetSlot cfg t ≤ tE

theorem foldBlocks_general (op : V → V → V) (cfg : Cfg) (tS tE : Nat) (s f : Nat) :
    ∀ (bs : List (Block V)) (acc : List (Nat × V)), InWindow cfg tS tE bs s f → tS ≤ tE →
      ∀ q, lookup (bs.foldl (fun acc b =>
          match b.fieldData s f with
          | none => acc
          | some vals => feed op cfg tS (tE + 1 - tS) vals acc b.start (b.stop + 1 - b.start)) acc) q =
        combList op (lookup acc q) (bs.flatMap (fun b => srcValues cfg b s f (q + tS))) := by
  intro bs
  induction bs with
  | nil => intro acc _ _ q; simp
  | cons b r ih =>
    intro acc hw hle q
    have hwr : InWindow cfg tS tE r s f := fun b' hb' => hw b' (List.mem_cons_of_mem _ hb')
    simp only [List.foldl_cons, List.flatMap_cons]
    rw [ih _ hwr hle q, combList_append]
    congr 1
    cases hd : b.fieldData s f with
    | none => simp [srcValues_nil_of_none cfg b s f _ hd]
    | some vals =>
      simp only []
      rw [srcValues_eq cfg b s f _ vals hd]
      apply feed_general
      intro p hp
      unfold slotVals at hp
      rw [List.mem_filterMap] at hp
      obtain ⟨t, ht, hpt⟩ := hp
      rw [List.mem_range'_1] at ht
      cases hl : lookup vals t with
      | none => simp [hl] at hpt
      | some v =>
        simp only [hl, Option.map_some, Option.some.injEq] at hpt
        subst hpt
        have hg : b.get s f t = some v := by
          unfold Block.get; rw [hd]
          have : b.start ≤ t ∧ t ≤ b.stop := by omega
          simp [this, hl]
        have := hw b List.mem_cons_self t (by omega) (by omega) (by rw [hg]; rfl)
        simp only
        omega

/-- **merge with ratio**: under `InWindow`, target slot `Q` of the (specification-level) merge holds
the aggregate of exactly the source values mapped to it -/
theorem mergeIdeal_get_ratio (cfg : Cfg) (agg : FieldType → V → V → V) (bs : List (Block V))
    (s f Q : Nat) (ty : FieldType)
    (hty : (mergeBlocksIdeal cfg agg bs).fieldType? f = some ty)
    (hs : s ∈ unionIds bs)
    (hQ : cfg.mapSlot (prepare bs).srcStart ≤ Q ∧ Q ≤ cfg.mapSlot (prepare bs).srcEnd)
    (hw : InWindow cfg (cfg.mapSlot (prepare bs).srcStart) (cfg.mapSlot (prepare bs).srcEnd) bs s f) :
    (mergeBlocksIdeal cfg agg bs).get s f Q =
      foldAgg (agg ty) (bs.flatMap (fun b => srcValues cfg b s f Q)) := by
  have hser : lookup (mergeBlocksIdeal cfg agg bs).series s =
      some ((sortFields (prepare bs).fields).map (fun fm =>
        (fm.1, mergeField agg cfg (cfg.mapSlot (prepare bs).srcStart) (cfg.mapSlot (prepare bs).srcEnd) fm.2 s fm.1 bs))) := by
    have := lookup_map_keys (unionIds bs) (fun s => (sortFields (prepare bs).fields).map (fun fm =>
        (fm.1, mergeField agg cfg (cfg.mapSlot (prepare bs).srcStart) (cfg.mapSlot (prepare bs).srcEnd) fm.2 s fm.1 bs))) s
    rw [if_pos hs] at this
    exact this
  have hfld : lookup (sortFields (prepare bs).fields) f = some ty := hty
  have hfd : (mergeBlocksIdeal cfg agg bs).fieldData s f =
      some (mergeField agg cfg (cfg.mapSlot (prepare bs).srcStart) (cfg.mapSlot (prepare bs).srcEnd) ty s f bs) := by
    unfold Block.fieldData
    rw [hser]
    have hf2 : lookup (mergeBlocksIdeal cfg agg bs).fields f = some ty := hty
    rw [hf2]
    simp only []
    rw [lookup_map_vals (sortFields (prepare bs).fields)
      (fun k ty => mergeField agg cfg (cfg.mapSlot (prepare bs).srcStart) (cfg.mapSlot (prepare bs).srcEnd) ty s k bs) f]
    rw [hfld]; rfl
  have hget : (mergeBlocksIdeal cfg agg bs).get s f Q =
      lookup (mergeField agg cfg (cfg.mapSlot (prepare bs).srcStart) (cfg.mapSlot (prepare bs).srcEnd) ty s f bs) Q := by
    unfold Block.get
    rw [hfd]
    have : (mergeBlocksIdeal cfg agg bs).start ≤ Q ∧ Q ≤ (mergeBlocksIdeal cfg agg bs).stop := hQ
    simp only [this, and_self, if_true]
  rw [hget]
  have hmf : mergeField agg cfg (cfg.mapSlot (prepare bs).srcStart) (cfg.mapSlot (prepare bs).srcEnd) ty s f bs =
      emit (bs.foldl (fun acc b =>
          match b.fieldData s f with
          | none => acc
          | some vals => feed (agg ty) cfg (cfg.mapSlot (prepare bs).srcStart)
              (cfg.mapSlot (prepare bs).srcEnd + 1 - cfg.mapSlot (prepare bs).srcStart) vals acc b.start
              (b.stop + 1 - b.start)) [])
        (cfg.mapSlot (prepare bs).srcStart)
        (cfg.mapSlot (prepare bs).srcEnd + 1 - cfg.mapSlot (prepare bs).srcStart) := rfl
  rw [hmf, lookup_emit]
  have c' : cfg.mapSlot (prepare bs).srcStart ≤ Q ∧ Q < cfg.mapSlot (prepare bs).srcStart +
      (cfg.mapSlot (prepare bs).srcEnd + 1 - cfg.mapSlot (prepare bs).srcStart) := by omega
  rw [if_pos c']
  have h := foldBlocks_general (agg ty) cfg _ _ s f bs [] hw (by omega) (Q - cfg.mapSlot (prepare bs).srcStart)
  have e : Q - cfg.mapSlot (prepare bs).srcStart + cfg.mapSlot (prepare bs).srcStart = Q := by omega
  rw [e] at h
  rw [h, foldAgg_eq_combList]; rfl

end LinVerif.C03
