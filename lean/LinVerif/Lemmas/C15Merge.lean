/-
C15 — lindb's priorityQueue glued to the container/heap specification (pq_glue), and the merged
iterator's invariant: every step delivers a minimal pending entry and loses nothing.
-/
import LinVerif.Lemmas.C15Heap
set_option linter.unusedSimpArgs false
namespace LinVerif.MergedIter
open LinVerif.Table (Bytes)

/-- what identifies a queue entry for the merge: (input number, key, value) — the `index` field
is bookkeeping -/
abbrev Core := Nat × Nat × Bytes

def core (x : Item) : Core := (x.src, x.key, x.value)

theorem kAt_map_core (pq : PQ) (i : Nat) :
    kAt (fun c : Core => c.2.1) (pq.map core) i = match pq[i]? with | some a => a.key | none => 0 := by
  unfold kAt
  rw [List.getElem?_map]
  cases pq[i]? <;> simp [core]

/-- **pq_glue**: lindb's `priorityQueue` methods Len/Less/Swap satisfy the array-of-keyed-cells
contract that the `container/heap` algorithms rely on. -/
def pqView : View pqIface Core where
  view pq := pq.map core
  key c := c.2.1
  len_eq pq := by simp [pqIface, pqLen]
  less_eq pq i j hi hj := by
    simp only [List.length_map] at hi hj
    rw [kAt_map_core, kAt_map_core]
    simp only [pqIface, pqLess]
    rw [List.getElem?_eq_getElem hi, List.getElem?_eq_getElem hj]
  swap_eq pq i j hi hj := by
    simp only [List.length_map] at hi hj
    simp only [pqIface, pqSwap, swapL]
    rw [List.getElem?_map, List.getElem?_map, List.getElem?_eq_getElem hi, List.getElem?_eq_getElem hj]
    simp [List.map_set, core]

def IsHeapPQ (pq : PQ) : Prop := HeapFrom (pqView.kf pq) 0 pq.length

theorem pqView_kf (pq : PQ) (i : Nat) : pqView.kf pq i = match pq[i]? with | some a => a.key | none => 0 :=
  kAt_map_core pq i

theorem heapInit_pq (pq : PQ) :
    IsHeapPQ (heapInit pqIface pq) ∧ ((heapInit pqIface pq).map core).Perm (pq.map core) := by
  have := heapInit_spec pqView pq
  have hl : (heapInit pqIface pq).length = pq.length := by
    have := this.2.length_eq
    simpa [pqView] using this
  refine ⟨?_, this.2⟩
  unfold IsHeapPQ
  rw [hl]
  simpa [pqView] using this.1

theorem getLast?_eq_getElem? {α : Type} (l : List α) (n : Nat) (h : l.length = n + 1) :
    l.getLast? = l[n]? := by
  rw [List.getLast?_eq_getElem?, h]; rfl

/-- `heap.Pop(&pq)` on a non-empty heap: returns a minimal item and leaves a heap of the rest -/
theorem heapPop_spec (pq : PQ) (hne : pq ≠ []) (hh : IsHeapPQ pq) :
    ∃ pq' x, heapPop pq = some (pq', x) ∧
      (core x :: pq'.map core).Perm (pq.map core) ∧ IsHeapPQ pq' ∧
      (∀ c ∈ pq.map core, x.key ≤ c.2.1) ∧ x.index = -1 := by
  obtain ⟨n, hn⟩ : ∃ n, pq.length = n + 1 := by
    cases pq with
    | nil => exact absurd rfl hne
    | cons a t => exact ⟨t.length, rfl⟩
  have hlen : (pqView.view pq).length = n + 1 := by simp [pqView, hn]
  have hsp := heapPopPrepare_spec pqView pq n hlen (by unfold IsHeapPQ at hh; rw [hn] at hh; exact hh)
  generalize hp2 : heapPopPrepare pqIface pq = pq2 at hsp
  obtain ⟨hperm, hlast, hheap⟩ := hsp
  have hperm' : (pq2.map core).Perm (pq.map core) := hperm
  have hl2 : pq2.length = n + 1 := by
    have := hperm'.length_eq; simp at this; omega
  have hlast' : (pq2.map core)[n]? = (pq.map core)[0]? := hlast
  -- the last element of pq2
  have hne2 : pq2 ≠ [] := by intro h; rw [h] at hl2; simp at hl2
  have hgl : pq2.getLast? = some (pq2.getLast hne2) := List.getLast?_eq_some_getLast hne2
  refine ⟨pq2.dropLast, { pq2.getLast hne2 with index := -1 }, ?_, ?_, ?_, ?_, rfl⟩
  · unfold heapPop pqPop; rw [hp2, hgl]
  · have hsplit : pq2 = pq2.dropLast ++ [pq2.getLast hne2] := (List.dropLast_concat_getLast hne2).symm
    have : (pq2.map core) = pq2.dropLast.map core ++ [core (pq2.getLast hne2)] := by
      conv => lhs; rw [hsplit]
      simp
    have hc : core { pq2.getLast hne2 with index := -1 } = core (pq2.getLast hne2) := rfl
    rw [hc]
    refine List.Perm.trans ?_ hperm'
    rw [this]
    exact (List.perm_append_comm (l₁ := [core (pq2.getLast hne2)]) (l₂ := pq2.dropLast.map core))
  · unfold IsHeapPQ
    have hdl : pq2.dropLast.length = n := by simp [hl2]
    rw [hdl]
    intro c hc0 hcn hlo
    have := hheap c hc0 hcn hlo
    have e1 : ∀ x, x < n → pqView.kf pq2.dropLast x = pqView.kf pq2 x := by
      intro x hx
      rw [pqView_kf, pqView_kf, List.getElem?_dropLast]
      simp [hl2, hx]
    rw [e1 _ (by omega), e1 _ hcn]; exact this
  · intro c hc
    -- x.key is the old root's key
    have hroot := heap_root_min (k := pqView.kf pq) (n := n + 1) (by unfold IsHeapPQ at hh; rw [hn] at hh; exact hh)
    obtain ⟨i, hi, hci⟩ := List.getElem_of_mem hc
    simp only [List.length_map] at hi
    have hk : pqView.kf pq i = c.2.1 := by
      unfold View.kf kAt
      rw [List.getElem?_eq_getElem (by simpa [pqView] using hi)]
      simp only [pqView]
      rw [hci]
    have h0 := hroot i (by omega)
    rw [hk] at h0
    -- key of last of pq2 = kf pq 0
    have hx : (pq2.getLast hne2).key = pqView.kf pq 0 := by
      have h1 : (pq2.map core)[n]? = some (core (pq2.getLast hne2)) := by
        rw [List.getElem?_map, ← getLast?_eq_getElem? pq2 n hl2, hgl]; rfl
      rw [hlast'] at h1
      unfold View.kf kAt
      simp only [pqView]
      rw [h1]; rfl
    show (pq2.getLast hne2).key ≤ c.2.1
    omega

/-- `m.pq.Push(item); m.pq.update(item)`: Push stores the new slot number in `item.index`,
`update` = `heap.Fix(pq, item.index)` restores the heap order -/
theorem pushFix_spec (pq1 : PQ) (x : Item) (hh : IsHeapPQ pq1) :
    ∃ pq3, pqUpdate (pqPush pq1 x) (pq1.length : Int) = some pq3 ∧
      (pq3.map core).Perm (core x :: pq1.map core) ∧ IsHeapPQ pq3 := by
  have hv : pqView.view (pqPush pq1 x) = pq1.map core ++ [core x] := by
    simp [pqView, pqPush, core]
  have hlen : (pqView.view (pqPush pq1 x)).length = pq1.length + 1 := by rw [hv]; simp
  have hpre : HeapFrom (pqView.kf (pqPush pq1 x)) 0 pq1.length := by
    intro c hc0 hcn hlo
    have e1 : ∀ y, y < pq1.length → pqView.kf (pqPush pq1 x) y = pqView.kf pq1 y := by
      intro y hy
      unfold View.kf kAt
      rw [hv, List.getElem?_append_left (by simpa using hy)]
      rfl
    rw [e1 _ (by omega), e1 _ hcn]
    exact hh c hc0 hcn hlo
  have hs := heapFix_last_spec pqView (pqPush pq1 x) pq1.length hlen hpre
  refine ⟨heapFix pqIface (pqPush pq1 x) pq1.length, ?_, ?_, ?_⟩
  · unfold pqUpdate; simp
  · have : ((heapFix pqIface (pqPush pq1 x) pq1.length).map core).Perm (pq1.map core ++ [core x]) := by
      have := hs.2; rw [hv] at this; exact this
    exact this.trans (List.perm_append_comm (l₁ := pq1.map core) (l₂ := [core x]))
  · unfold IsHeapPQ
    have hl : (heapFix pqIface (pqPush pq1 x) pq1.length).length = pq1.length + 1 := by
      have := hs.2.length_eq
      simp only [pqView, List.length_map] at this
      rw [this]; simp [pqPush]
    rw [hl]; exact hs.1

/-- `heap.Push` = the interface's `Push` followed by `up` from the last slot — the same as
`Push; Fix(last)`, because `down` does nothing at a leaf -/
theorem heapPush_eq_fix (pq : PQ) (x : Item) :
    heapPush pq x = heapFix pqIface (pqPush pq x) pq.length := by
  have hl : pqIface.len (pqPush pq x) = pq.length + 1 := by simp [pqIface, pqLen, pqPush]
  unfold heapPush heapPushFinish heapFix down
  rw [hl, downLoop_leaf pqIface _ _ pq.length (pq.length + 1) (by omega)]
  simp

theorem heapPush_spec (pq : PQ) (x : Item) (hh : IsHeapPQ pq) :
    ((heapPush pq x).map core).Perm (core x :: pq.map core) ∧ IsHeapPQ (heapPush pq x) := by
  obtain ⟨pq3, h1, h2, h3⟩ := pushFix_spec pq x hh
  have : pq3 = heapPush pq x := by
    unfold pqUpdate at h1
    simp at h1
    rw [heapPush_eq_fix]; exact h1.symm
  subst this
  exact ⟨h2, h3⟩

/-! ## the merged iterator -/

def tag (s : Nat) (e : Nat × Bytes) : Core := (s, e.1, e.2)

/-- all pairs the inputs still hold, tagged with the input number (first input = `o`) -/
def tagInputs : List Input → Nat → List Core
  | [], _ => []
  | it :: rest, s => it.map (tag s) ++ tagInputs rest (s + 1)

theorem mem_tagInputs {c : Core} : ∀ {its : List Input} {o : Nat},
    c ∈ tagInputs its o ↔ ∃ s it e, its[s]? = some it ∧ e ∈ it ∧ c = tag (o + s) e := by
  intro its
  induction its with
  | nil => intro o; simp [tagInputs]
  | cons it rest ih =>
    intro o
    simp only [tagInputs, List.mem_append, List.mem_map, ih]
    constructor
    · rintro (⟨e, he, rfl⟩ | ⟨s, it', e, hs, he, rfl⟩)
      · exact ⟨0, it, e, by simp, he, rfl⟩
      · exact ⟨s + 1, it', e, by simpa using hs, he, by congr 1; omega⟩
    · rintro ⟨s, it', e, hs, he, rfl⟩
      cases s with
      | zero =>
        simp at hs; subst hs
        exact Or.inl ⟨e, he, rfl⟩
      | succ s =>
        exact Or.inr ⟨s, it', e, by simpa using hs, he, by congr 1; omega⟩

theorem tagInputs_set_perm : ∀ (its : List Input) (o s : Nat) (kv : Nat × Bytes) (tl : Input),
    its[s]? = some (kv :: tl) →
    (tag (o + s) kv :: tagInputs (its.set s tl) o).Perm (tagInputs its o) := by
  intro its
  induction its with
  | nil => intro o s kv tl h; simp at h
  | cons it rest ih =>
    intro o s kv tl h
    cases s with
    | zero =>
      simp at h; subst h
      simp [tagInputs]
    | succ s =>
      simp only [List.getElem?_cons_succ] at h
      simp only [List.set_cons_succ, tagInputs]
      have := ih (o + 1) s kv tl h
      have e : o + 1 + s = o + (s + 1) := by omega
      rw [e] at this
      exact (List.perm_middle (a := tag (o + (s + 1)) kv) (l₁ := it.map (tag o))).symm.trans
        (List.Perm.append_left _ this)

def pending (m : MIter) : List Core := m.pq.map core ++ tagInputs m.its 0

structure MInv (m : MIter) : Prop where
  heap : IsHeapPQ m.pq
  nodup : ((m.pq.map core).map (·.1)).Nodup
  le_rest : ∀ c ∈ m.pq.map core, ∀ it, m.its[c.1]? = some it → ∀ e ∈ it, c.2.1 ≤ e.1
  exhausted : ∀ s it, m.its[s]? = some it → (∀ c ∈ m.pq.map core, c.1 ≠ s) → it = []
  sorted : ∀ it ∈ m.its, it.Pairwise (fun a b => a.1 ≤ b.1)

/-- every pending entry is bounded below by `b` as soon as the queue entries are -/
theorem pending_lower_bound {m : MIter} (hm : MInv m) (b : Nat)
    (hb : ∀ c ∈ m.pq.map core, b ≤ c.2.1) : ∀ c ∈ pending m, b ≤ c.2.1 := by
  intro c hc
  unfold pending at hc
  rcases List.mem_append.mp hc with hc | hc
  · exact hb c hc
  · obtain ⟨s, it, e, hs, he, rfl⟩ := mem_tagInputs.mp hc
    simp only [Nat.zero_add, tag]
    -- it is non-empty, so some queue entry belongs to input s
    have : ¬ (∀ c ∈ m.pq.map core, c.1 ≠ s) := by
      intro hall
      have := hm.exhausted s it hs hall
      subst this; simp at he
    have : ∃ c ∈ m.pq.map core, c.1 = s := by
      apply Classical.byContradiction
      intro hne; apply this
      intro c hc heq; exact hne ⟨c, hc, heq⟩
    obtain ⟨c', hc', rfl⟩ := this
    have h1 := hb c' hc'
    have h2 := hm.le_rest c' hc' it hs e he
    omega


theorem length_filter_src_le_one : ∀ (l : List Core) (s : Nat), (l.map (·.1)).Nodup →
    (l.filter (fun c => c.1 = s)).length ≤ 1 := by
  intro l s
  induction l with
  | nil => intro _; simp
  | cons a t ih =>
    intro hnd
    simp only [List.map_cons] at hnd
    obtain ⟨hnot, hnd'⟩ := List.nodup_cons.mp hnd
    by_cases ha : a.1 = s
    · have : t.filter (fun c => c.1 = s) = [] := by
        apply List.filter_eq_nil_iff.mpr
        intro c hc hcs
        apply hnot
        simp only [decide_eq_true_eq] at hcs
        rw [ha, ← hcs]; exact List.mem_map_of_mem hc
      simp [ha, this]
    · simp [ha]; exact ih hnd'

theorem perm_eq_of_length_le_one {α : Type} {l1 l2 : List α} (h : l1.Perm l2) (hl : l2.length ≤ 1) : l1 = l2 := by
  match l2, hl, h with
  | [], _, h => exact h.eq_nil
  | [a], _, h => exact List.perm_singleton.mp h
  | _ :: _ :: _, hl, _ => simp at hl

theorem filter_src_eq_of_perm {l1 l2 : List Core} (h : l1.Perm l2) (hnd : (l2.map (·.1)).Nodup) (s : Nat) :
    l1.filter (fun c => c.1 = s) = l2.filter (fun c => c.1 = s) :=
  perm_eq_of_length_le_one (h.filter _) (length_filter_src_le_one l2 s hnd)

/-- what input `s` still has to deliver: its queue entry (if any) followed by what the input holds -/
def srcView (m : MIter) (s : Nat) : Input :=
  ((m.pq.map core).filter (fun c => c.1 = s)).map (·.2) ++
    (match m.its[s]? with | some it => it | none => [])

theorem tagInputs_nil_of_all_nil : ∀ (its : List Input) (o : Nat),
    (∀ (s : Nat) (it : Input), its[s]? = some it → it = []) → tagInputs its o = [] := by
  intro its o h
  apply List.eq_nil_iff_forall_not_mem.mpr
  intro c hc
  obtain ⟨s, it, e, hs, he, _⟩ := mem_tagInputs.mp hc
  have := h s it hs
  subst this; simp at he

/-- `HasNext` on an empty queue: false, and indeed nothing is pending -/
theorem hasNext_empty (m : MIter) (hm : MInv m) (he : m.pq = []) :
    m.hasNext = some (false, m) ∧ pending m = [] := by
  constructor
  · unfold MIter.hasNext; simp [he]
  · unfold pending
    rw [he, tagInputs_nil_of_all_nil m.its 0]
    · rfl
    · intro s it hs
      exact hm.exhausted s it hs (by rw [he]; simp)

/-- `HasNext` on a non-empty queue: delivers an entry that is ≤ everything still pending,
keeps the invariant, and the delivered entry plus what is pending afterwards is what was pending -/
theorem hasNext_step (m : MIter) (hm : MInv m) (hne : m.pq ≠ []) :
    ∃ m', m.hasNext = some (true, m') ∧ MInv m' ∧
      ((m'.curSrc, m'.curKey, m'.curValue) :: pending m').Perm (pending m) ∧
      (∀ c ∈ pending m', m'.curKey ≤ c.2.1) ∧
      (∀ s, srcView m s =
        if m'.curSrc = s then (m'.curKey, m'.curValue) :: srcView m' s else srcView m' s) := by
  obtain ⟨pq1, x, hpop, hperm, hheap1, hmin, _⟩ := heapPop_spec m.pq hne hm.heap
  have hpos : m.pq.length > 0 := List.length_pos_iff.mpr hne
  have hsrcs : (x.src :: (pq1.map core).map (·.1)).Perm ((m.pq.map core).map (·.1)) := by
    have := hperm.map (·.1); simpa [core] using this
  have hnd := (hsrcs.nodup_iff).mpr hm.nodup
  have hxnot : x.src ∉ (pq1.map core).map (·.1) := (List.nodup_cons.mp hnd).1
  have hnd1 : ((pq1.map core).map (·.1)).Nodup := (List.nodup_cons.mp hnd).2
  have hsub : ∀ c ∈ pq1.map core, c ∈ m.pq.map core := fun c hc => hperm.subset (List.mem_cons_of_mem _ hc)
  have hxin : core x ∈ m.pq.map core := hperm.subset (List.mem_cons_self)
  have hmem : ∀ c ∈ m.pq.map core, c = core x ∨ c ∈ pq1.map core := by
    intro c hc
    have := hperm.symm.subset hc
    simpa using this
  -- case B: the input of the delivered entry is exhausted
  have caseB : (∀ kv tl, m.its[x.src]? ≠ some (kv :: tl)) →
      m.hasNext = some (true, { m with pq := pq1, curKey := x.key, curValue := x.value, curSrc := x.src }) →
      ∃ m', m.hasNext = some (true, m') ∧ MInv m' ∧
        ((m'.curSrc, m'.curKey, m'.curValue) :: pending m').Perm (pending m) ∧
        (∀ c ∈ pending m', m'.curKey ≤ c.2.1) ∧
        (∀ s, srcView m s =
          if m'.curSrc = s then (m'.curKey, m'.curValue) :: srcView m' s else srcView m' s) := by
    intro hB hred
    have hinv : MInv { m with pq := pq1, curKey := x.key, curValue := x.value, curSrc := x.src } :=
      { heap := hheap1, nodup := hnd1
        le_rest := fun c hc it hs e he => hm.le_rest c (hsub c hc) it hs e he
        exhausted := by
          intro s it hs hall
          by_cases hsx : s = x.src
          · subst hsx
            cases it with
            | nil => rfl
            | cons kv tl => exact absurd hs (hB kv tl)
          · apply hm.exhausted s it hs
            intro c hc
            rcases hmem c hc with rfl | hc1
            · exact fun h => hsx h.symm
            · exact hall c hc1
        sorted := hm.sorted }
    refine ⟨_, hred, hinv, ?_, ?_, ?_⟩
    · unfold pending; exact List.Perm.append_right _ hperm
    · apply pending_lower_bound hinv
      intro c hc; exact hmin c (hsub c hc)
    · intro s
      have hf := filter_src_eq_of_perm hperm hm.nodup s
      unfold srcView
      simp only
      rw [← hf]
      by_cases hxs : x.src = s
      · simp [core, hxs]
      · simp [core, hxs]
  cases hits : m.its[x.src]? with
  | none =>
    apply caseB
    · intro kv tl; rw [hits]; simp
    · unfold MIter.hasNext; rw [if_pos hpos, hpop]; simp only [hits]
  | some it0 =>
    cases it0 with
    | nil =>
      apply caseB
      · intro kv tl; rw [hits]; simp
      · unfold MIter.hasNext; rw [if_pos hpos, hpop]; simp only [hits]
    | cons kv tl =>
      obtain ⟨k, v⟩ := kv
      obtain ⟨pq3, hupd, hperm3, hheap3⟩ := pushFix_spec pq1 { x with key := k, value := v } hheap1
      have hc3 : core { x with key := k, value := v } = (x.src, k, v) := rfl
      rw [hc3] at hperm3
      have hlt : x.src < m.its.length := by
        have := List.getElem?_eq_some_iff.mp hits; exact this.1
      have hsorted := hm.sorted _ (List.mem_of_getElem? hits)
      have hktl : ∀ e ∈ tl, k ≤ e.1 := fun e he => (List.pairwise_cons.mp hsorted).1 e he
      have hxk : x.key ≤ k := hm.le_rest (core x) hxin _ hits (k, v) (by simp)
      have hmem3 : ∀ c ∈ pq3.map core, c = (x.src, k, v) ∨ c ∈ pq1.map core := by
        intro c hc; simpa using hperm3.subset hc
      have hinv : MInv { m with pq := pq3, curKey := x.key, curValue := x.value, curSrc := x.src,
                                its := m.its.set x.src tl } :=
        { heap := hheap3
          nodup := by
            have : ((pq3.map core).map (·.1)).Perm (x.src :: (pq1.map core).map (·.1)) := by
              have := hperm3.map (·.1); simpa using this
            exact this.nodup_iff.mpr hnd
          le_rest := by
            intro c hc it hs e he
            rcases hmem3 c hc with rfl | hc1
            · simp only [List.getElem?_set_self hlt] at hs
              cases hs
              exact hktl e he
            · have hne : c.1 ≠ x.src := by
                intro h; apply hxnot; rw [← h]; exact List.mem_map_of_mem hc1
              rw [List.getElem?_set_ne (Ne.symm hne)] at hs
              exact hm.le_rest c (hsub c hc1) it hs e he
          exhausted := by
            intro s it hs hall
            have hsx : s ≠ x.src := by
              intro h
              exact hall (x.src, k, v) (hperm3.symm.subset (List.mem_cons_self)) h.symm
            rw [List.getElem?_set_ne (Ne.symm hsx)] at hs
            apply hm.exhausted s it hs
            intro c hc
            rcases hmem c hc with rfl | hc1
            · exact fun h => hsx h.symm
            · exact hall c (hperm3.symm.subset (List.mem_cons_of_mem _ hc1))
          sorted := by
            intro it hit
            rcases List.mem_or_eq_of_mem_set hit with h | h
            · exact hm.sorted it h
            · subst h; exact (List.pairwise_cons.mp hsorted).2 }
      refine ⟨_, ?_, hinv, ?_, ?_, ?_⟩
      · unfold MIter.hasNext; rw [if_pos hpos, hpop]; simp only [hits, hupd]
      · unfold pending
        simp only
        have hT := tagInputs_set_perm m.its 0 x.src (k, v) tl hits
        simp only [Nat.zero_add, tag] at hT
        -- core x :: (pq3 ++ T') ~ core x :: (x.src,k,v) :: pq1 ++ T' ~ (core x :: pq1) ++ ((x.src,k,v) :: T') ~ pq ++ T
        have h1 : (pq3.map core ++ tagInputs (m.its.set x.src tl) 0).Perm
            (pq1.map core ++ ((x.src, k, v) :: tagInputs (m.its.set x.src tl) 0)) := by
          refine (List.Perm.append_right _ hperm3).trans ?_
          simp only [List.cons_append]
          exact List.perm_middle.symm
        have h2 := h1.trans (List.Perm.append_left _ hT)
        exact (List.Perm.cons _ h2).trans (List.Perm.append_right _ hperm)
      · apply pending_lower_bound hinv
        intro c hc
        rcases hmem3 c hc with rfl | hc1
        · exact hxk
        · exact hmin c (hsub c hc1)
      · intro s
        have hf := filter_src_eq_of_perm hperm hm.nodup s
        have hnd3 : (((x.src, k, v) :: pq1.map core).map (·.1)).Nodup := by simpa using hnd
        have hf3 := filter_src_eq_of_perm hperm3 hnd3 s
        have hx1 : (pq1.map core).filter (fun c => c.1 = x.src) = [] := by
          apply List.filter_eq_nil_iff.mpr
          intro c hc hcs
          simp only [decide_eq_true_eq] at hcs
          apply hxnot; rw [← hcs]; exact List.mem_map_of_mem hc
        unfold srcView
        simp only
        rw [← hf, hf3]
        by_cases hxs : x.src = s
        · subst hxs
          simp [core, hx1, hits, List.getElem?_set_self hlt]
        · simp [core, hxs, List.getElem?_set_ne hxs]


/-- draining: a permutation of what was pending, in non-decreasing key order, and the entries of
each single input come out in that input's own order -/
theorem drainTagged_spec : ∀ (fuel : Nat) (m : MIter), MInv m → (pending m).length < fuel →
    (m.drainTagged fuel).Perm (pending m) ∧
    (m.drainTagged fuel).Pairwise (fun a b => a.2.1 ≤ b.2.1) ∧
    (∀ s, ((m.drainTagged fuel).filter (fun c => c.1 = s)).map (·.2) = srcView m s) := by
  intro fuel
  induction fuel with
  | zero => intro m _ h; omega
  | succ f ih =>
    intro m hm hf
    by_cases he : m.pq = []
    · obtain ⟨h1, h2⟩ := hasNext_empty m hm he
      simp only [MIter.drainTagged, h1, h2]
      refine ⟨List.Perm.refl _, List.Pairwise.nil, ?_⟩
      intro s
      unfold srcView
      rw [he]
      cases hs : m.its[s]? with
      | none => simp
      | some it =>
        have := hm.exhausted s it hs (by rw [he]; simp)
        simp [this]
    · obtain ⟨m', h1, hinv, hperm, hlow, hsrc⟩ := hasNext_step m hm he
      simp only [MIter.drainTagged, h1]
      have hl : (pending m').length + 1 = (pending m).length := by
        have := hperm.length_eq; simpa using this
      obtain ⟨ihp, ihs, ihv⟩ := ih m' hinv (by omega)
      refine ⟨(List.Perm.cons _ ihp).trans hperm, ?_, ?_⟩
      · apply List.pairwise_cons.mpr
        refine ⟨?_, ihs⟩
        intro c hc
        exact hlow c (ihp.subset hc)
      · intro s
        rw [hsrc s]
        by_cases hcs : m'.curSrc = s
        · simp [List.filter_cons, hcs, ihv s]
        · simp [List.filter_cons, hcs, ihv s]

theorem drain_eq_map : ∀ (fuel : Nat) (m : MIter), m.drain fuel = (m.drainTagged fuel).map (·.2) := by
  intro fuel
  induction fuel with
  | zero => intro m; rfl
  | succ f ih =>
    intro m
    simp only [MIter.drain, MIter.drainTagged]
    cases h : m.hasNext with
    | none => rfl
    | some r =>
      obtain ⟨b, m'⟩ := r
      cases b with
      | false => rfl
      | true => simp [ih m']


def SortedInput (it : Input) : Prop := it.Pairwise (fun a b => a.1 ≤ b.1)

/-- the loop of `initQueue` -/
theorem initItems_spec : ∀ (its : List Input) (src i : Nat), (∀ it ∈ its, SortedInput it) →
    ((initItems its src i).2.map core ++ tagInputs (initItems its src i).1 src).Perm (tagInputs its src) ∧
    (∀ c ∈ (initItems its src i).2.map core, src ≤ c.1) ∧
    (((initItems its src i).2.map core).map (·.1)).Nodup ∧
    (∀ c ∈ (initItems its src i).2.map core, ∀ (s : Nat) (it : Input), c.1 = src + s →
        (initItems its src i).1[s]? = some it → ∀ e ∈ it, c.2.1 ≤ e.1) ∧
    (∀ (s : Nat) (it : Input), (initItems its src i).1[s]? = some it →
        (∀ c ∈ (initItems its src i).2.map core, c.1 ≠ src + s) → it = []) ∧
    (∀ it ∈ (initItems its src i).1, SortedInput it) := by
  intro its
  induction its with
  | nil =>
    intro src i _
    simp [initItems, tagInputs]
  | cons it rest ih =>
    intro src i hs
    have hsr : ∀ it ∈ rest, SortedInput it := fun x hx => hs x (List.mem_cons_of_mem _ hx)
    cases it with
    | nil =>
      obtain ⟨h1, h2, h3, h4, h5, h6⟩ := ih (src + 1) i hsr
      simp only [initItems]
      refine ⟨?_, ?_, h3, ?_, ?_, ?_⟩
      · simpa [tagInputs] using h1
      · intro c hc; have := h2 c hc; omega
      · intro c hc s it hcs hget e he
        have := h2 c hc
        cases s with
        | zero => omega
        | succ s =>
          simp only [List.getElem?_cons_succ] at hget
          exact h4 c hc s it (by omega) hget e he
      · intro s it hget hall
        cases s with
        | zero => simp at hget; exact hget
        | succ s =>
          simp only [List.getElem?_cons_succ] at hget
          exact h5 s it hget (fun c hc => by have := hall c hc; omega)
      · intro it hit
        rcases List.mem_cons.mp hit with h | h
        · subst h; exact List.Pairwise.nil
        · exact h6 it h
    | cons kv tl =>
      obtain ⟨k, v⟩ := kv
      obtain ⟨h1, h2, h3, h4, h5, h6⟩ := ih (src + 1) (i + 1) hsr
      have hsit : SortedInput ((k, v) :: tl) := hs _ (List.mem_cons_self)
      simp only [initItems]
      generalize hr : initItems rest (src + 1) (i + 1) = r at h1 h2 h3 h4 h5 h6
      have hcore : core { src := src, key := k, value := v, index := (i : Int) } = (src, k, v) := rfl
      simp only [List.map_cons, hcore]
      refine ⟨?_, ?_, ?_, ?_, ?_, ?_⟩
      · simp only [tagInputs, List.map_cons, tag, List.cons_append]
        apply List.Perm.cons
        -- cores' ++ (A ++ T') ~ A ++ (cores' ++ T')
        have : (r.2.map core ++ (tl.map (tag src) ++ tagInputs r.1 (src + 1))).Perm
            (tl.map (tag src) ++ (r.2.map core ++ tagInputs r.1 (src + 1))) := by
          rw [← List.append_assoc, ← List.append_assoc]
          exact List.Perm.append_right _ List.perm_append_comm
        exact this.trans (List.Perm.append_left _ h1)
      · intro c hc
        rcases List.mem_cons.mp hc with h | h
        · subst h; exact Nat.le_refl _
        · have := h2 c h; omega
      · apply List.nodup_cons.mpr
        refine ⟨?_, h3⟩
        intro hmem
        obtain ⟨c, hc, hceq⟩ := List.mem_map.mp hmem
        have := h2 c hc
        have hceq' : c.1 = src := hceq
        omega
      · intro c hc s it hcs hget e he
        rcases List.mem_cons.mp hc with h | h
        · subst h
          have : s = 0 := by simp at hcs; omega
          subst this
          simp at hget; subst hget
          exact (List.pairwise_cons.mp hsit).1 e he
        · have := h2 c h
          cases s with
          | zero => omega
          | succ s =>
            simp only [List.getElem?_cons_succ] at hget
            exact h4 c h s it (by omega) hget e he
      · intro s it hget hall
        cases s with
        | zero =>
          exfalso
          exact hall (src, k, v) (List.mem_cons_self) rfl
        | succ s =>
          simp only [List.getElem?_cons_succ] at hget
          exact h5 s it hget (fun c hc => by have := hall c (List.mem_cons_of_mem _ hc); omega)
      · intro it hit
        rcases List.mem_cons.mp hit with h | h
        · subst h; exact (List.pairwise_cons.mp hsit).2
        · exact h6 it h

/-- `NewMergedIterator`: the invariant holds and everything the inputs hold is pending -/
theorem new_spec (its : List Input) (hs : ∀ it ∈ its, SortedInput it) :
    MInv (MIter.new its) ∧ (pending (MIter.new its)).Perm (tagInputs its 0) := by
  obtain ⟨h1, _, h3, h4, h5, h6⟩ := initItems_spec its 0 0 hs
  generalize hr : initItems its 0 0 = r at h1 h3 h4 h5 h6
  -- the queue after the optional heap.Init
  have hq : ∃ pq, (MIter.new its) = { its := r.1, pq := pq } ∧ IsHeapPQ pq ∧ (pq.map core).Perm (r.2.map core) := by
    by_cases hl : r.2.length > 0
    · refine ⟨heapInit pqIface r.2, ?_, (heapInit_pq r.2).1, (heapInit_pq r.2).2⟩
      simp only [MIter.new, hr, hl, if_true]
    · refine ⟨r.2, ?_, ?_, List.Perm.refl _⟩
      · simp only [MIter.new, hr, hl, if_false]
      · have : r.2 = [] := List.eq_nil_of_length_eq_zero (by omega)
        rw [this]; intro c hc0 hcn; simp at hcn
  obtain ⟨pq, hnew, hheap, hperm⟩ := hq
  rw [hnew]
  constructor
  · exact
    { heap := hheap
      nodup := ((hperm.map (·.1)).nodup_iff).mpr h3
      le_rest := fun c hc it hget e he => h4 c (hperm.subset hc) c.1 it (by omega) hget e he
      exhausted := fun s it hget hall =>
        h5 s it hget (fun c hc => by have := hall c (hperm.symm.subset hc); omega)
      sorted := h6 }
  · unfold pending
    exact (List.Perm.append_right _ hperm).trans h1

theorem filter_src_nil_of_lt (l : List Core) (lo s : Nat) (h : ∀ c ∈ l, lo ≤ c.1) (hs : s < lo) :
    l.filter (fun c => c.1 = s) = [] := by
  apply List.filter_eq_nil_iff.mpr
  intro c hc hcs
  simp only [decide_eq_true_eq] at hcs
  have := h c hc; omega

theorem initItems_srcView : ∀ (its : List Input) (src i : Nat), (∀ it ∈ its, SortedInput it) → ∀ s : Nat,
    (((initItems its src i).2.map core).filter (fun c => c.1 = src + s)).map (·.2) ++
      (match (initItems its src i).1[s]? with | some it => it | none => []) =
    (match its[s]? with | some it => it | none => []) := by
  intro its
  induction its with
  | nil => intro src i _ s; simp [initItems]
  | cons it rest ih =>
    intro src i hs s
    have hsr : ∀ it ∈ rest, SortedInput it := fun x hx => hs x (List.mem_cons_of_mem _ hx)
    cases it with
    | nil =>
      have h2 := (initItems_spec rest (src + 1) i hsr).2.1
      simp only [initItems]
      cases s with
      | zero =>
        rw [filter_src_nil_of_lt _ (src + 1) (src + 0) h2 (by omega)]
        simp
      | succ s =>
        have := ih (src + 1) i hsr s
        have e : src + 1 + s = src + (s + 1) := by omega
        rw [e] at this
        simpa using this
    | cons kv tl =>
      obtain ⟨k, v⟩ := kv
      have h2 := (initItems_spec rest (src + 1) (i + 1) hsr).2.1
      simp only [initItems]
      have hcore : core { src := src, key := k, value := v, index := (i : Int) } = (src, k, v) := rfl
      simp only [List.map_cons, hcore]
      cases s with
      | zero =>
        simp only [Nat.add_zero, List.filter_cons, decide_true, if_true]
        rw [filter_src_nil_of_lt _ (src + 1) src h2 (by omega)]
        simp
      | succ s =>
        have := ih (src + 1) (i + 1) hsr s
        have e : src + 1 + s = src + (s + 1) := by omega
        rw [e] at this
        have hne : ¬ (src = src + (s + 1)) := by omega
        simp only [List.filter_cons, hne, decide_false]
        simpa using this

theorem new_srcView (its : List Input) (hs : ∀ it ∈ its, SortedInput it) (s : Nat) :
    srcView (MIter.new its) s = (match its[s]? with | some it => it | none => []) := by
  obtain ⟨_, _, h3, _, _, _⟩ := initItems_spec its 0 0 hs
  have hv := initItems_srcView its 0 0 hs s
  generalize hr : initItems its 0 0 = r at h3 hv
  have hq : ∃ pq, (MIter.new its) = { its := r.1, pq := pq } ∧ (pq.map core).Perm (r.2.map core) := by
    by_cases hl : r.2.length > 0
    · refine ⟨heapInit pqIface r.2, ?_, (heapInit_pq r.2).2⟩
      simp only [MIter.new, hr, hl, if_true]
    · refine ⟨r.2, ?_, List.Perm.refl _⟩
      simp only [MIter.new, hr, hl, if_false]
  obtain ⟨pq, hnew, hperm⟩ := hq
  rw [hnew]
  unfold srcView
  simp only
  rw [filter_src_eq_of_perm hperm h3 s]
  rw [Nat.zero_add] at hv
  exact hv

theorem tagInputs_length : ∀ (its : List Input) (o : Nat), (tagInputs its o).length = totalLen its := by
  intro its
  induction its with
  | nil => intro o; rfl
  | cons it rest ih => intro o; simp [tagInputs, totalLen, ih]

theorem tagInputs_map_snd : ∀ (its : List Input) (o : Nat), (tagInputs its o).map (·.2) = its.flatten := by
  intro its
  induction its with
  | nil => intro o; rfl
  | cons it rest ih =>
    intro o
    simp only [tagInputs, List.map_append, List.map_map, ih, List.flatten_cons]
    congr 1
    have : ((fun x : Core => x.2) ∘ tag o) = id := by funext e; rfl
    rw [this]; simp

/-- everything about the merged iterator's full output, with input tags -/
theorem mergeAllTagged_spec (its : List Input) (hs : ∀ it ∈ its, SortedInput it) :
    (mergeAllTagged its).Perm (tagInputs its 0) ∧
    (mergeAllTagged its).Pairwise (fun a b => a.2.1 ≤ b.2.1) ∧
    (∀ s, ((mergeAllTagged its).filter (fun c => c.1 = s)).map (·.2) =
      (match its[s]? with | some it => it | none => [])) := by
  obtain ⟨hinv, hpend⟩ := new_spec its hs
  have hlen : (pending (MIter.new its)).length < totalLen its + 1 := by
    rw [hpend.length_eq, tagInputs_length]; omega
  obtain ⟨h1, h2, h3⟩ := drainTagged_spec (totalLen its + 1) (MIter.new its) hinv hlen
  refine ⟨h1.trans hpend, h2, ?_⟩
  intro s
  rw [← new_srcView its hs s]
  exact h3 s

theorem mergeAll_eq_map (its : List Input) : mergeAll its = (mergeAllTagged its).map (·.2) :=
  drain_eq_map _ _

end LinVerif.MergedIter
