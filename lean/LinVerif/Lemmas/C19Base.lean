/-
C19 helper lemmas, part 1: decomposition of one step, weighted sums over goroutines,
well-formed continuations.
-/
import LinVerif.Model.Pipeline

namespace LinVerif.Pipeline

/-! ### one step, decomposed -/

theorem stepAt_elim {cfg : Cfg} {s s' : State} {n : Nat} (h : stepAt cfg s n = some s') :
    ∃ pooled i rest, s.threads[n]? = some ⟨pooled, i :: rest⟩ ∧
      s' = ⟨(stepInstr cfg s.sh pooled i rest).sh,
            s.threads.set n ⟨pooled, (stepInstr cfg s.sh pooled i rest).code⟩
              ++ (stepInstr cfg s.sh pooled i rest).spawn⟩ := by
  unfold stepAt at h
  split at h
  · rename_i pooled i rest heq
    injection h with h
    exact ⟨pooled, i, rest, heq, h.symm⟩
  · cases h

/-- induction principle: a property that holds initially and is preserved by every step holds in every reachable state -/
theorem Reachable.invariant {cfg : Cfg} {s0 : State} {P : State → Prop} (h0 : P s0)
    (hstep : ∀ s s' n, P s → stepAt cfg s n = some s' → P s') :
    ∀ {s}, Reachable cfg s0 s → P s := by
  intro s hr
  induction hr with
  | refl => exact h0
  | step _ hs ih => exact hstep _ _ _ ih hs

/-! ### weighted sums -/

def csum (w : Instr → Nat) (c : List Instr) : Nat := (c.map w).sum

@[simp] theorem csum_nil (w) : csum w [] = 0 := rfl
@[simp] theorem csum_cons (w i c) : csum w (i :: c) = w i + csum w c := by simp [csum]
@[simp] theorem csum_append (w a b) : csum w (a ++ b) = csum w a + csum w b := by simp [csum]

theorem csum_map_start (w : Instr → Nat) (hw : ∀ s, w (.start s) = 0) (l : List Stage) :
    csum w (l.map Instr.start) = 0 := by
  induction l with
  | nil => rfl
  | cons a l ih => simp [hw, ih]

theorem csum_pos_of_mem {w : Instr → Nat} {c : List Instr} {i : Instr} (hi : i ∈ c) (hw : 0 < w i) :
    0 < csum w c := by
  induction c with
  | nil => cases hi
  | cons a c ih =>
    simp only [csum_cons]
    rcases List.mem_cons.mp hi with rfl | h
    · omega
    · have := ih h; omega

theorem csum_eq_zero_iff {w : Instr → Nat} {c : List Instr} : csum w c = 0 ↔ ∀ i ∈ c, w i = 0 := by
  induction c with
  | nil => simp
  | cons a c ih => simp [ih]

def tsum (w : Instr → Nat) (ts : List Thread) : Nat := (ts.map (fun t => csum w t.code)).sum

@[simp] theorem tsum_nil (w) : tsum w [] = 0 := rfl
@[simp] theorem tsum_cons (w t ts) : tsum w (t :: ts) = csum w t.code + tsum w ts := by simp [tsum]
@[simp] theorem tsum_append (w a b) : tsum w (a ++ b) = tsum w a + tsum w b := by simp [tsum]

theorem tsum_set {w : Instr → Nat} : ∀ {ts : List Thread} {n : Nat} {t0 t1 : Thread},
    ts[n]? = some t0 → tsum w (ts.set n t1) + csum w t0.code = tsum w ts + csum w t1.code
  | [], n, _, _, h => by simp at h
  | t :: ts, 0, t0, t1, h => by
    simp at h; subst h; simp; omega
  | t :: ts, n + 1, t0, t1, h => by
    simp at h
    have := tsum_set (w := w) (t1 := t1) h
    simp; omega

theorem csum_le_tsum {w : Instr → Nat} : ∀ {ts : List Thread} {n : Nat} {t0 : Thread},
    ts[n]? = some t0 → csum w t0.code ≤ tsum w ts
  | [], n, _, h => by simp at h
  | t :: ts, 0, t0, h => by simp at h; subst h; simp
  | t :: ts, n + 1, t0, h => by
    simp at h
    have := csum_le_tsum (w := w) h
    simp; omega

theorem csum_le_tsum_of_mem {w : Instr → Nat} {ts : List Thread} {t : Thread} (h : t ∈ ts) :
    csum w t.code ≤ tsum w ts := by
  obtain ⟨n, hn, rfl⟩ := List.getElem_of_mem h
  exact csum_le_tsum (List.getElem?_eq_getElem hn)

theorem tsum_eq_zero_iff {w : Instr → Nat} {ts : List Thread} :
    tsum w ts = 0 ↔ ∀ t ∈ ts, csum w t.code = 0 := by
  induction ts with
  | nil => simp
  | cons a c ih => simp [ih]

/-- the sum after a step: the stepping goroutine's old code is replaced, spawned goroutines are appended -/
theorem tsum_step {w : Instr → Nat} {ts : List Thread} {n : Nat} {t0 t1 : Thread} {sp : List Thread}
    (h : ts[n]? = some t0) :
    tsum w (ts.set n t1 ++ sp) + csum w t0.code = tsum w ts + csum w t1.code + tsum w sp := by
  have := tsum_set (w := w) (t1 := t1) h
  simp; omega

/-! ### membership after a step -/

theorem mem_step {ts : List Thread} {n : Nat} {t1 t : Thread} {sp : List Thread}
    (h : t ∈ ts.set n t1 ++ sp) : t ∈ ts ∨ t = t1 ∨ t ∈ sp := by
  rcases List.mem_append.mp h with h | h
  · rcases List.mem_or_eq_of_mem_set h with h | h
    · exact Or.inl h
    · exact Or.inr (Or.inl h)
  · exact Or.inr (Or.inr h)

theorem forall_step {P : Thread → Prop} {ts : List Thread} {n : Nat} {t1 : Thread} {sp : List Thread}
    (h : ∀ t ∈ ts, P t) (h1 : P t1) (hs : ∀ t ∈ sp, P t) : ∀ t ∈ ts.set n t1 ++ sp, P t := by
  intro t ht
  rcases mem_step ht with h' | rfl | h'
  · exact h _ h'
  · exact h1
  · exact hs _ h'

/-! ### instruction weights -/

/-- a registered stage that has not yet decremented `pending` is represented by exactly one
of these instructions in some goroutine's continuation -/
def Instr.owed : Instr → Nat
  | .launch _ | .exec _ | .track _ | .dec _ => 1
  | _ => 0

/-- a pending call of `sm.complete` -/
def Instr.fires : Instr → Nat
  | .load _ | .fire _ _ => 1
  | _ => 0

/-- a pending `completeStage(_, err)` with `err != nil` that has not yet entered its critical section -/
def Instr.trackT : Instr → Nat
  | .track true => 1
  | _ => 0

def Instr.startLike : Instr → Bool
  | .start _ | .register _ => true
  | _ => false

theorem Instr.trackT_le_owed (i : Instr) : i.trackT ≤ i.owed := by
  cases i <;> simp [Instr.trackT, Instr.owed]
  rename_i e; cases e <;> simp

theorem csum_trackT_le_owed (c : List Instr) : csum Instr.trackT c ≤ csum Instr.owed c := by
  induction c with
  | nil => simp
  | cons a c ih => have := Instr.trackT_le_owed a; simp; omega

theorem tsum_trackT_le_owed (ts : List Thread) : tsum Instr.trackT ts ≤ tsum Instr.owed ts := by
  induction ts with
  | nil => simp
  | cons a c ih => have := csum_trackT_le_owed a.code; simp; omega

@[simp] theorem owed_handler (s : Stage) : csum Instr.owed (handler s) = 1 := by
  simp [handler, csum_map_start Instr.owed (fun _ => rfl), Instr.owed]

@[simp] theorem fires_handler (s : Stage) : csum Instr.fires (handler s) = 0 := by
  simp [handler, csum_map_start Instr.fires (fun _ => rfl), Instr.fires]

@[simp] theorem trackT_handler (s : Stage) : csum Instr.trackT (handler s) = 0 := by
  simp [handler, csum_map_start Instr.trackT (fun _ => rfl), Instr.trackT]

/-! ### well-formed continuations: every `start`/`register` is followed by the parent's completion -/

def wfCode : List Instr → Prop
  | [] => True
  | i :: rest => (i.startLike = true → 0 < csum Instr.owed rest) ∧ wfCode rest

@[simp] theorem wfCode_nil : wfCode [] := trivial

theorem wfCode_cons {i rest} : wfCode (i :: rest) ↔ (i.startLike = true → 0 < csum Instr.owed rest) ∧ wfCode rest :=
  Iff.rfl

theorem wfCode_tail {i rest} (h : wfCode (i :: rest)) : wfCode rest := h.2

theorem wfCode_cons_of_not_startLike {i rest} (hi : i.startLike = false) (h : wfCode rest) : wfCode (i :: rest) :=
  ⟨fun h' => by simp [hi] at h', h⟩

theorem wfCode_starts_append (l : List Stage) {rest : List Instr} (hpos : 0 < csum Instr.owed rest)
    (h : wfCode rest) : wfCode (l.map Instr.start ++ rest) := by
  induction l with
  | nil => simpa using h
  | cons a l ih =>
    refine ⟨fun _ => ?_, ih⟩
    simp; omega

theorem wfCode_handler_append (s : Stage) {rest : List Instr} (h : wfCode rest) : wfCode (handler s ++ rest) := by
  unfold handler
  rw [List.append_assoc]
  apply wfCode_starts_append
  · simp [Instr.owed]; omega
  · exact wfCode_cons_of_not_startLike rfl h

/-- with no outstanding completion, a well-formed continuation contains no `start`/`register` -/
theorem wfCode_no_start {c : List Instr} (h : wfCode c) (h0 : csum Instr.owed c = 0) :
    ∀ i ∈ c, i.startLike = false := by
  induction c with
  | nil => intro i hi; cases hi
  | cons a c ih =>
    intro i hi
    simp only [csum_cons] at h0
    have hc : csum Instr.owed c = 0 := by omega
    rcases List.mem_cons.mp hi with rfl | hi
    · cases hs : i.startLike with
      | false => rfl
      | true => have := h.1 hs; omega
    · exact ih h.2 hc i hi

/-! ### the stage-tree predicates as quantifiers -/

theorem cleanL_iff {cfg : Cfg} {cs : List Stage} : cleanL cfg cs = true ↔ ∀ c ∈ cs, c.clean cfg = true := by
  induction cs with
  | nil => simp [cleanL]
  | cons a cs ih => simp [cleanL, ih]

theorem Stage.clean_iff (cfg : Cfg) (s : Stage) :
    s.clean cfg = true ↔
      ((s.planPanics = false ∧ s.out.panics = false) ∨ cfg.stageRecover = true) ∧
      (s.run ≠ .rejected ∨ cfg.rejectNotifies = true) ∧ ∀ c ∈ s.children, c.clean cfg = true := by
  cases s with
  | mk r pp o cs => simp [Stage.clean, cleanL_iff, and_assoc]

theorem noPanicL_iff {cs : List Stage} : noPanicL cs = true ↔ ∀ c ∈ cs, c.noPanic = true := by
  induction cs with
  | nil => simp [noPanicL]
  | cons a cs ih => simp [noPanicL, ih]

theorem Stage.noPanic_iff (s : Stage) :
    s.noPanic = true ↔ s.planPanics = false ∧ s.out.panics = false ∧ s.run ≠ .rejected ∧
      ∀ c ∈ s.children, c.noPanic = true := by
  cases s with
  | mk r pp o cs => simp [Stage.noPanic, noPanicL_iff, and_assoc]

mutual
theorem Stage.clean_of_noPanic (cfg : Cfg) : ∀ s : Stage, s.noPanic = true → s.clean cfg = true
  | .mk r pp o cs => by
    intro h
    simp only [Stage.noPanic, Bool.and_eq_true] at h
    simp only [Stage.clean, Bool.and_eq_true, Bool.or_eq_true]
    exact ⟨⟨Or.inl ⟨h.1.1.1, h.1.1.2⟩, Or.inl h.1.2⟩, cleanL_of_noPanicL cfg cs h.2⟩
theorem cleanL_of_noPanicL (cfg : Cfg) : ∀ cs : List Stage, noPanicL cs = true → cleanL cfg cs = true
  | [] => fun _ => rfl
  | c :: cs => by
    intro h
    simp only [noPanicL, Bool.and_eq_true] at h
    simp only [cleanL, Bool.and_eq_true]
    exact ⟨Stage.clean_of_noPanic cfg c h.1, cleanL_of_noPanicL cfg cs h.2⟩
end

mutual
theorem Stage.clean_of_repaired {cfg : Cfg} (h1 : cfg.stageRecover = true) (h2 : cfg.rejectNotifies = true) :
    ∀ s : Stage, s.clean cfg = true
  | .mk r pp o cs => by
    simp only [Stage.clean, Bool.and_eq_true, Bool.or_eq_true]
    exact ⟨⟨Or.inr h1, Or.inr h2⟩, cleanL_of_repaired h1 h2 cs⟩
theorem cleanL_of_repaired {cfg : Cfg} (h1 : cfg.stageRecover = true) (h2 : cfg.rejectNotifies = true) :
    ∀ cs : List Stage, cleanL cfg cs = true
  | [] => rfl
  | c :: cs => by
    simp only [cleanL, Bool.and_eq_true]
    exact ⟨Stage.clean_of_repaired h1 h2 c, cleanL_of_repaired h1 h2 cs⟩
end

mutual
theorem Stage.noReject_of_noPanic : ∀ s : Stage, s.noPanic = true → s.noReject = true
  | .mk r pp o cs => by
    intro h
    simp only [Stage.noPanic, Bool.and_eq_true] at h
    simp only [Stage.noReject, Bool.and_eq_true]
    exact ⟨h.1.2, noRejectL_of_noPanicL cs h.2⟩
theorem noRejectL_of_noPanicL : ∀ cs : List Stage, noPanicL cs = true → noRejectL cs = true
  | [] => fun _ => rfl
  | c :: cs => by
    intro h
    simp only [noPanicL, Bool.and_eq_true] at h
    simp only [noRejectL, Bool.and_eq_true]
    exact ⟨Stage.noReject_of_noPanic c h.1, noRejectL_of_noPanicL cs h.2⟩
end

mutual
theorem Stage.clean_of_noReject {cfg : Cfg} (h1 : cfg.stageRecover = true) :
    ∀ s : Stage, s.noReject = true → s.clean cfg = true
  | .mk r pp o cs => by
    intro h
    simp only [Stage.noReject, Bool.and_eq_true] at h
    simp only [Stage.clean, Bool.and_eq_true, Bool.or_eq_true]
    exact ⟨⟨Or.inr h1, Or.inl h.1⟩, cleanL_of_noRejectL h1 cs h.2⟩
theorem cleanL_of_noRejectL {cfg : Cfg} (h1 : cfg.stageRecover = true) :
    ∀ cs : List Stage, noRejectL cs = true → cleanL cfg cs = true
  | [] => fun _ => rfl
  | c :: cs => by
    intro h
    simp only [noRejectL, Bool.and_eq_true] at h
    simp only [cleanL, Bool.and_eq_true]
    exact ⟨Stage.clean_of_noReject h1 c h.1, cleanL_of_noRejectL h1 cs h.2⟩
end

mutual
theorem Stage.noReject_of_recoverable : ∀ (b : Bool) (s : Stage), s.recoverable b = true → s.noReject = true
  | b, .mk r pp o cs => by
    intro h
    simp only [Stage.recoverable, Bool.and_eq_true] at h
    simp only [Stage.noReject, Bool.and_eq_true]
    refine ⟨h.1.1, ?_⟩
    have h2 := h.2
    split at h2
    · simp only [Bool.and_eq_true] at h2
      exact noRejectL_of_recoverableL b cs h2.2
    · exact noRejectL_of_recoverableL false cs h2
theorem noRejectL_of_recoverableL : ∀ (b : Bool) (cs : List Stage), recoverableL b cs = true → noRejectL cs = true
  | _, [] => fun _ => rfl
  | b, c :: cs => by
    intro h
    simp only [recoverableL, Bool.and_eq_true] at h
    simp only [noRejectL, Bool.and_eq_true]
    exact ⟨Stage.noReject_of_recoverable b c h.1, noRejectL_of_recoverableL b cs h.2⟩
end

theorem recoverableL_iff {b : Bool} {cs : List Stage} :
    recoverableL b cs = true ↔ ∀ c ∈ cs, c.recoverable b = true := by
  induction cs with
  | nil => simp [recoverableL]
  | cons a cs ih => simp [recoverableL, ih]

/-- what `recoverable` says about a stage started from a goroutine of kind `b` -/
theorem Stage.recoverable_iff {b : Bool} (s : Stage) :
    s.recoverable b = true ↔
      s.run ≠ .rejected ∧ (s.planPanics = true → b = true) ∧
      (s.run = .inline → (s.out.panics = true → b = true) ∧ ∀ c ∈ s.children, c.recoverable b = true) ∧
      (s.run ≠ .inline → ∀ c ∈ s.children, c.recoverable false = true) := by
  cases s with
  | mk r pp o cs =>
    cases r <;> cases pp <;> cases b <;> simp [Stage.recoverable, recoverableL_iff]

end LinVerif.Pipeline

namespace LinVerif.Pipeline

/-- one step, decomposed, keeping the successor state opaque: its shared part and every weighted sum -/
theorem stepAt_elim' {cfg : Cfg} {s s' : State} {n : Nat} (h : stepAt cfg s n = some s') :
    ∃ pooled i rest, s.threads[n]? = some ⟨pooled, i :: rest⟩ ∧
      s'.sh = (stepInstr cfg s.sh pooled i rest).sh ∧
      ∀ w : Instr → Nat, tsum w s'.threads + csum w (i :: rest)
        = tsum w s.threads + csum w (stepInstr cfg s.sh pooled i rest).code
          + tsum w (stepInstr cfg s.sh pooled i rest).spawn := by
  obtain ⟨pooled, i, rest, hget, rfl⟩ := stepAt_elim h
  exact ⟨pooled, i, rest, hget, rfl, fun w => tsum_step (w := w) hget⟩

end LinVerif.Pipeline
