/-
C20 helper lemmas: well-formed trie trees (what `buildNodes` produces from sorted distinct keys)
and basic facts about iteration over them.
-/
import LinVerif.Lemmas.C20Key

set_option linter.unusedSimpArgs false
set_option linter.unusedVariables false

namespace LinVerif.Lemmas.C20
open LinVerif.TrieTree

/-- every label of the row satisfies `p` -/
def allLabels (p : Nat → Prop) : Entries → Prop
  | .nil => True
  | .leaf l _ _ r => p l ∧ allLabels p r
  | .child l _ r => p l ∧ allLabels p r

theorem allLabels_imp {p q : Nat → Prop} (h : ∀ x, p x → q x) : ∀ es, allLabels p es → allLabels q es
  | .nil, _ => trivial
  | .leaf _ _ _ r, ⟨h1, h2⟩ => ⟨h _ h1, allLabels_imp h r h2⟩
  | .child _ _ r, ⟨h1, h2⟩ => ⟨h _ h1, allLabels_imp h r h2⟩

mutual
  /-- a node as `buildNodes` makes it: either a terminator entry followed by at least one real
  entry, or real entries only -/
  def WFNode : Node → Prop
    | .mk _ es => WFRow es
  def WFRow : Entries → Prop
    | .nil => False
    | .leaf l suf _ r =>
      (l = 255 ∧ suf = [] ∧ r.isNil = false ∧ WFEntries r) ∨
      (l ≤ 255 ∧ allLabels (l < ·) r ∧ WFEntries r)
    | .child l n r => l ≤ 255 ∧ allLabels (l < ·) r ∧ WFNode n ∧ 2 ≤ n.entries.length ∧ WFEntries r
  /-- real entries: labels are bytes, strictly increasing; children are well formed and have at
  least two labels -/
  def WFEntries : Entries → Prop
    | .nil => True
    | .leaf l _ _ r => l ≤ 255 ∧ allLabels (l < ·) r ∧ WFEntries r
    | .child l n r => l ≤ 255 ∧ allLabels (l < ·) r ∧ WFNode n ∧ 2 ≤ n.entries.length ∧ WFEntries r
end

theorem isNil_false_of_allLabels_gt {r : Entries} (hle : allLabels (· ≤ 255) r) (h : allLabels (255 < ·) r) :
    r.isNil = true := by
  cases r with
  | nil => rfl
  | leaf l _ _ _ => exact absurd h.1 (by have := hle.1; omega)
  | child l _ _ => exact absurd h.1 (by have := hle.1; omega)

theorem WFEntries.labels_le : ∀ {es : Entries}, WFEntries es → allLabels (· ≤ 255) es
  | .nil, _ => trivial
  | .leaf _ _ _ r, h => by
    unfold WFEntries at h
    exact ⟨h.1, WFEntries.labels_le h.2.2⟩
  | .child _ _ r, h => by
    unfold WFEntries at h
    exact ⟨h.1, WFEntries.labels_le h.2.2.2.2⟩

/-- in a row of real entries a label 0xff is the last one -/
theorem WFEntries.ff_last {l : Nat} {r : Entries} (hr : WFEntries r) (habove : allLabels (l < ·) r) (hl : l = 255) :
    r.isNil = true := by
  subst hl
  exact isNil_false_of_allLabels_gt hr.labels_le habove

/-- iteration over real entries never takes the terminator branch -/
theorem iterEntries_leaf_real {l : Nat} {suf : List Nat} {v : Nat} {r : Entries}
    (h : WFEntries (.leaf l suf v r)) (base : Key) :
    iterEntries base (.leaf l suf v r) = (base ++ l :: suf, v) :: iterEntries base r := by
  unfold WFEntries at h
  simp only [iterEntries]
  by_cases hl : l = 255
  · have := WFEntries.ff_last h.2.2 h.2.1 hl
    simp [this]
  · simp [labelTerminator, hl]

/-- the one ambiguous row: a single label 0xff without child and without suffix (the trie of the
key set {"\xff"}), which `trie.Get` takes for a terminator -/
def NoSingleFF (es : Entries) : Prop := ∀ v, es ≠ .leaf 255 [] v .nil

theorem noSingleFF_of_length {es : Entries} (h : 2 ≤ es.length) : NoSingleFF es := by
  intro v e
  rw [e] at h
  simp [Entries.length] at h

/-! ### every key below a node starts with the path to it -/

mutual
  theorem iterNode_prefix : ∀ (n : Node) (path : Key), ∀ kv ∈ iterNode path n, ∃ r, kv.1 = path ++ r
    | .mk pfx es, path => by
      intro kv hkv
      simp only [iterNode] at hkv
      obtain ⟨r, hr⟩ := iterEntries_prefix es (path ++ pfx) kv hkv
      exact ⟨pfx ++ r, by rw [hr, List.append_assoc]⟩
  theorem iterEntries_prefix : ∀ (es : Entries) (base : Key), ∀ kv ∈ iterEntries base es, ∃ r, kv.1 = base ++ r
    | .nil, base => by simp [iterEntries]
    | .leaf l suf v r, base => by
      intro kv hkv
      simp only [iterEntries, List.mem_cons] at hkv
      rcases hkv with rfl | hkv
      · split
        · exact ⟨suf, rfl⟩
        · exact ⟨l :: suf, rfl⟩
      · exact iterEntries_prefix r base kv hkv
    | .child l n r, base => by
      intro kv hkv
      simp only [iterEntries, List.mem_append] at hkv
      rcases hkv with hkv | hkv
      · obtain ⟨q, hq⟩ := iterNode_prefix n (base ++ [l]) kv hkv
        exact ⟨l :: q, by rw [hq]; simp⟩
      · exact iterEntries_prefix r base kv hkv
end

/-- keys of real entries start with `base ++ [label]` for a label of the row -/
theorem iterEntries_label : ∀ (es : Entries) (base : Key) (p : Nat → Prop), WFEntries es → allLabels p es →
    ∀ kv ∈ iterEntries base es, ∃ l r, p l ∧ kv.1 = base ++ l :: r
  | .nil, base, p, _, _ => by simp [iterEntries]
  | .leaf l suf v r, base, p, hwf, hp => by
    intro kv hkv
    rw [iterEntries_leaf_real hwf] at hkv
    unfold WFEntries at hwf
    rcases List.mem_cons.1 hkv with rfl | hkv
    · exact ⟨l, suf, hp.1, rfl⟩
    · exact iterEntries_label r base p hwf.2.2 hp.2 kv hkv
  | .child l n r, base, p, hwf, hp => by
    intro kv hkv
    unfold WFEntries at hwf
    simp only [iterEntries, List.mem_append] at hkv
    rcases hkv with hkv | hkv
    · obtain ⟨q, hq⟩ := iterNode_prefix n (base ++ [l]) kv hkv
      exact ⟨l, q, hp.1, by rw [hq]; simp⟩
    · exact iterEntries_label r base p hwf.2.2.2.2 hp.2 kv hkv

end LinVerif.Lemmas.C20
