/-
C01, round 13: helper lemmas for Props/C01MultiOut.lean (runs of replicated open/finish pairs and of cleanups).
-/
import LinVerif.Model.C01MultiOut

namespace LinVerif.Lemmas.C01MultiOut
open LinVerif LinVerif.Kv.MO

def pairs (m : Nat) : List Ev := (List.replicate m [Ev.openOut, Ev.finishOut]).flatten

theorem run_append (cfg : Cfg) (s : St) (a b : List Ev) : run cfg s (a ++ b) = run cfg (run cfg s a) b := by
  simp [run, List.foldl_append]

theorem run_pairs (cfg : Cfg) (m : Nat) (s : St) (hc : s.cur = none) :
    (run cfg s (pairs m)).outputs = s.outputs ++ (List.range m).map (fun (i : Nat) => s.next + (i : Int)) ∧
    (run cfg s (pairs m)).next = s.next + m ∧ (run cfg s (pairs m)).cur = none ∧
    (run cfg s (pairs m)).version = s.version ∧ (run cfg s (pairs m)).inputs = s.inputs := by
  induction m generalizing s with
  | zero => simp [pairs, run, hc]
  | succ m ih =>
    have hp : pairs (m + 1) = [Ev.openOut, Ev.finishOut] ++ pairs m := by
      simp [pairs, List.replicate_succ]
    rw [hp, run_append]
    have h1 : run cfg s [Ev.openOut, Ev.finishOut] =
        { s with next := s.next + 1, disk := s.next :: s.disk, outputs := s.outputs ++ [s.next], cur := none,
                 pending := if cfg.releaseAtFinish then (s.next :: s.pending).filter (· ≠ s.next) else s.next :: s.pending } := by
      simp [run, step, hc]
    have h2 := ih (run cfg s [Ev.openOut, Ev.finishOut]) (by rw [h1])
    rw [h1] at h2 ⊢
    obtain ⟨a, b, c, d, e⟩ := h2
    refine ⟨?_, ?_, c, d, e⟩
    · rw [a]
      simp only [List.append_assoc, List.range_succ_eq_map, List.map_cons, List.map_map]
      congr 1
      simp only [List.singleton_append, List.cons.injEq]
      refine ⟨by simp, ?_⟩
      apply List.map_congr_left
      intro i _
      simp only [Function.comp]
      omega
    · rw [b]; simp only []; omega


theorem run_cleanups (cfg : Cfg) (c : Nat) (s : St) :
    (run cfg s (List.replicate c Ev.cleanup)).outputs = s.outputs ∧
    (run cfg s (List.replicate c Ev.cleanup)).next = s.next ∧ (run cfg s (List.replicate c Ev.cleanup)).cur = s.cur ∧
    (run cfg s (List.replicate c Ev.cleanup)).version = s.version ∧ (run cfg s (List.replicate c Ev.cleanup)).inputs = s.inputs := by
  induction c generalizing s with
  | zero => simp [run]
  | succ c ih =>
    have h := ih (step cfg s Ev.cleanup)
    simpa [List.replicate_succ, run, step] using h

theorem filter_not_self (l : List Int) : l.filter (fun f => !l.contains f) = [] := by
  apply List.filter_eq_nil_iff.mpr
  intro f hf
  simp [hf]

end LinVerif.Lemmas.C01MultiOut
