/-
C20 helper lemmas: `Iterator.Seek` on a well-formed tree lands on the lower bound of the probe
or on the key just before it.
-/
import LinVerif.Lemmas.C20WF

set_option linter.unusedSimpArgs false
set_option linter.unusedVariables false

namespace LinVerif.Lemmas.C20
open LinVerif.TrieTree

/-! ### comparisons with a probe `base ++ c :: rest` -/

theorem keyLt_label_lt {base : Key} {l c : Nat} (x rest : Key) (h : l < c) :
    keyLt (base ++ l :: x) (base ++ c :: rest) = true := by
  rw [keyLt_append_left, keyLt_cons_cons]; simp [h]

theorem keyLt_label_gt {base : Key} {l c : Nat} (x rest : Key) (h : c < l) :
    keyLt (base ++ l :: x) (base ++ c :: rest) = false := by
  rw [keyLt_append_left, keyLt_cons_cons]
  have h1 : ¬ l < c := by omega
  have h2 : ¬ l = c := by omega
  simp [h1, h2]

theorem keyLt_ext_base (base x : Key) : keyLt (base ++ x) base = false := by
  have := keyLt_append_left base x []
  simp only [List.append_nil] at this
  rw [this, keyLt_nil_right]

theorem entries_lt {es : Entries} {base : Key} {c : Nat} (rest : Key) (hwf : WFEntries es) (h : allLabels (· < c) es) :
    ∀ kv ∈ iterEntries base es, keyLt kv.1 (base ++ c :: rest) = true := by
  intro kv hkv
  obtain ⟨l, r, hl, hk⟩ := iterEntries_label es base _ hwf h kv hkv
  rw [hk]; exact keyLt_label_lt r rest hl

theorem entries_gt {es : Entries} {base : Key} {c : Nat} (rest : Key) (hwf : WFEntries es) (h : allLabels (c < ·) es) :
    ∀ kv ∈ iterEntries base es, keyLt kv.1 (base ++ c :: rest) = false := by
  intro kv hkv
  obtain ⟨l, r, hl, hk⟩ := iterEntries_label es base _ hwf h kv hkv
  rw [hk]; exact keyLt_label_gt r rest hl

theorem node_lt {n : Node} {base : Key} {l c : Nat} (rest : Key) (h : l < c) :
    ∀ kv ∈ iterNode (base ++ [l]) n, keyLt kv.1 (base ++ c :: rest) = true := by
  intro kv hkv
  obtain ⟨q, hq⟩ := iterNode_prefix n (base ++ [l]) kv hkv
  rw [hq, List.append_assoc]; exact keyLt_label_lt q rest h

theorem node_gt {n : Node} {base : Key} {l c : Nat} (rest : Key) (h : c < l) :
    ∀ kv ∈ iterNode (base ++ [l]) n, keyLt kv.1 (base ++ c :: rest) = false := by
  intro kv hkv
  obtain ⟨q, hq⟩ := iterNode_prefix n (base ++ [l]) kv hkv
  rw [hq, List.append_assoc]; exact keyLt_label_gt q rest h

/-! ### node prefix against the probe (`prefixCmp`) -/

theorem keyCmp_take_lt : ∀ (pfx key : Key), keyCmp pfx (key.take pfx.length) = .lt → ∀ x, keyLt (pfx ++ x) key = true
  | [], key, h => by simp [keyCmp] at h
  | a :: p, [], h => by simp [keyCmp] at h
  | a :: p, b :: k, h => by
    intro x
    simp only [List.length_cons, List.take_succ_cons, keyCmp] at h
    rw [List.cons_append, keyLt_cons_cons]
    by_cases h1 : a < b
    · simp [h1]
    · by_cases h2 : b < a
      · simp [h1, h2] at h
      · have : a = b := by omega
        subst this
        simp only [h1, if_false] at h
        simp [keyCmp_take_lt p k h x]

theorem keyCmp_take_gt : ∀ (pfx key : Key), keyCmp pfx (key.take pfx.length) = .gt → ∀ x, keyLt (pfx ++ x) key = false
  | [], key, h => by simp [keyCmp] at h
  | a :: p, [], h => by intro x; exact keyLt_nil_right _
  | a :: p, b :: k, h => by
    intro x
    simp only [List.length_cons, List.take_succ_cons, keyCmp] at h
    rw [List.cons_append, keyLt_cons_cons]
    by_cases h1 : a < b
    · simp [h1] at h
    · by_cases h2 : b < a
      · have : ¬ a = b := by omega
        simp [h1, this]
      · have : a = b := by omega
        subst this
        simp only [h1, if_false] at h
        simp [keyCmp_take_gt p k h x]

theorem keyCmp_take_eq (pfx key : Key) (h : keyCmp pfx (key.take pfx.length) = .eq) :
    key = pfx ++ key.drop pfx.length := by
  have := (keyCmp_eq_iff _ _).1 h
  conv => lhs; rw [← List.take_append_drop pfx.length key]
  rw [← this]

/-! ### iteration over a well-formed tree is not empty -/

mutual
  theorem iterNode_ne_nil : ∀ (n : Node) (path : Key), WFNode n → iterNode path n ≠ []
    | .mk pfx .nil, path, h => by simp [WFNode, WFRow] at h
    | .mk pfx (.leaf l suf v r), path, h => by simp [iterNode, iterEntries]
    | .mk pfx (.child l n r), path, h => by
      unfold WFNode WFRow at h
      simp only [iterNode, iterEntries]
      intro e
      exact iterNode_ne_nil n _ h.2.2.1 (List.append_eq_nil_iff.1 e).1
end

theorem iterEntries_ne_nil : ∀ (es : Entries) (base : Key), WFEntries es → es.isNil = false → iterEntries base es ≠ []
  | .nil, _, _, h => by simp [Entries.isNil] at h
  | .leaf l suf v r, base, _, _ => by simp [iterEntries]
  | .child l n r, base, h, _ => by
    unfold WFEntries at h
    simp only [iterEntries]
    intro e
    exact iterNode_ne_nil n _ h.2.2.1 (List.append_eq_nil_iff.1 e).1

/-! ### the landing specification -/

theorem no_prefix_of_lt {T y : Key} (h : keyLt y T = true) : hasPrefix T y = false := by
  cases hp : hasPrefix T y with
  | false => rfl
  | true =>
    obtain ⟨r, hr⟩ := (hasPrefix_iff T y).1 hp
    rw [hr, keyLt_ext_base] at h
    exact absurd h (by simp)

/-- `S` is a non-empty tail of `L`, everything before it is smaller than the probe `T`, and
everything after its first element is not smaller than `T`: the iterator stands on the lower
bound of `T` or on the key just before it — and in the latter case no key has the prefix `T`. -/
def SeekOK (T : Key) (L S : List KV) : Prop :=
  ∃ D, L = D ++ S ∧ (∀ d ∈ D, keyLt d.1 T = true) ∧ S ≠ [] ∧ (∀ y ∈ S.tail, keyLt y.1 T = false) ∧
    (∀ x, S.head? = some x → keyLt x.1 T = true → ∀ y ∈ L, hasPrefix T y.1 = false)

theorem SeekOK.all_ge {T : Key} {L : List KV} (hne : L ≠ []) (h : ∀ y ∈ L, keyLt y.1 T = false) : SeekOK T L L := by
  refine ⟨[], rfl, by simp, hne, fun y hy => h y (List.mem_of_mem_tail hy), ?_⟩
  intro x hx hlt
  have := h x (List.mem_of_mem_head? hx)
  rw [this] at hlt; exact absurd hlt (by simp)

theorem getLast?_split {α} : ∀ (L : List α), L ≠ [] → ∃ D x, L = D ++ [x] ∧ L.getLast? = some x
  | [], h => absurd rfl h
  | [a], _ => ⟨[], a, rfl, rfl⟩
  | a :: b :: t, _ => by
    obtain ⟨D, x, h1, h2⟩ := getLast?_split (b :: t) (by simp)
    refine ⟨a :: D, x, by rw [h1]; rfl, ?_⟩
    rw [List.getLast?_cons_cons]; exact h2

theorem SeekOK.last {T : Key} {L : List KV} (hne : L ≠ []) (h : ∀ y ∈ L, keyLt y.1 T = true) : SeekOK T L (lastKV L) := by
  obtain ⟨D, x, h1, h2⟩ := getLast?_split L hne
  unfold lastKV
  rw [h2]
  refine ⟨D, h1, ?_, by simp, by simp, ?_⟩
  · intro d hd
    exact h d (by rw [h1]; exact List.mem_append_left _ hd)
  · intro _ _ _ y hy
    exact no_prefix_of_lt (h y hy)

theorem SeekOK.prepend {T : Key} {A L S : List KV} (hA : ∀ d ∈ A, keyLt d.1 T = true) (h : SeekOK T L S) :
    SeekOK T (A ++ L) S := by
  obtain ⟨D, hL, hD, hne, ht, hp⟩ := h
  refine ⟨A ++ D, by rw [hL, List.append_assoc], ?_, hne, ht, ?_⟩
  · intro d hd
    rcases List.mem_append.1 hd with h | h
    · exact hA d h
    · exact hD d h
  · intro x hx hlt y hy
    rcases List.mem_append.1 hy with hy | hy
    · exact no_prefix_of_lt (hA y hy)
    · exact hp x hx hlt y hy

theorem SeekOK.append {T : Key} {L S B : List KV} (hB : ∀ y ∈ B, keyLt y.1 T = false)
    (hBp : ∀ y ∈ B, hasPrefix T y.1 = false) (h : SeekOK T L S) :
    SeekOK T (L ++ B) (S ++ B) := by
  obtain ⟨D, hL, hD, hne, ht, hp⟩ := h
  refine ⟨D, by rw [hL, List.append_assoc], hD, by simp [hne], ?_, ?_⟩
  · intro y hy
    cases S with
    | nil => exact absurd rfl hne
    | cons s ss =>
      simp only [List.cons_append, List.tail_cons, List.mem_append] at hy
      rcases hy with hy | hy
      · exact ht y (by simpa using hy)
      · exact hB y hy
  · intro x hx hlt y hy
    have hx' : S.head? = some x := by
      cases S with
      | nil => exact absurd rfl hne
      | cons s ss => simpa using hx
    rcases List.mem_append.1 hy with hy | hy
    · exact hp x hx' hlt y hy
    · exact hBp y hy

/-- keys below other labels do not have the probe as a prefix -/
theorem entries_no_prefix {es : Entries} {base : Key} {c : Nat} (rest : Key) (hwf : WFEntries es)
    (h : allLabels (· ≠ c) es) : ∀ kv ∈ iterEntries base es, hasPrefix (base ++ c :: rest) kv.1 = false := by
  intro kv hkv
  obtain ⟨l, r, hl, hk⟩ := iterEntries_label es base _ hwf h kv hkv
  cases hp : hasPrefix (base ++ c :: rest) kv.1 with
  | false => rfl
  | true =>
    obtain ⟨q, hq⟩ := (hasPrefix_iff _ _).1 hp
    rw [hk, List.append_assoc] at hq
    have := List.append_cancel_left hq
    simp at this
    exact absurd this.1 hl

/-! ### labels greater than the probe's label -/

theorem entriesGreater_spec : ∀ (es : Entries) (base : Key) (c : Nat) (rest : Key), WFEntries es → allLabels (· ≠ c) es →
    ∃ D, iterEntries base es = D ++ entriesGreater base c es ∧ (∀ d ∈ D, keyLt d.1 (base ++ c :: rest) = true) ∧
      (∀ y ∈ entriesGreater base c es, keyLt y.1 (base ++ c :: rest) = false)
  | .nil, base, c, rest, _, _ => ⟨[], by simp [iterEntries, entriesGreater], by simp, by simp [entriesGreater]⟩
  | .leaf l suf v r, base, c, rest, hwf, hne => by
    have hwf' := hwf
    unfold WFEntries at hwf'
    obtain ⟨hle, habove, hr⟩ := hwf'
    simp only [entriesGreater]
    by_cases hcl : c < l
    · simp only [hcl, if_true]
      refine ⟨[], by simp, by simp, ?_⟩
      exact entries_gt rest hwf ⟨hcl, allLabels_imp (fun x hx => by omega) r habove⟩
    · simp only [hcl, if_false]
      have hlc : l < c := by have := hne.1; omega
      obtain ⟨D, h1, h2, h3⟩ := entriesGreater_spec r base c rest hr hne.2
      rw [iterEntries_leaf_real hwf]
      refine ⟨(base ++ l :: suf, v) :: D, by rw [h1]; rfl, ?_, h3⟩
      intro d hd
      rcases List.mem_cons.1 hd with rfl | hd
      · exact keyLt_label_lt suf rest hlc
      · exact h2 d hd
  | .child l n r, base, c, rest, hwf, hne => by
    have hwf' := hwf
    unfold WFEntries at hwf'
    obtain ⟨hle, habove, hn, hlen, hr⟩ := hwf'
    simp only [entriesGreater]
    by_cases hcl : c < l
    · simp only [hcl, if_true]
      refine ⟨[], by simp, by simp, ?_⟩
      exact entries_gt rest hwf ⟨hcl, allLabels_imp (fun x hx => by omega) r habove⟩
    · simp only [hcl, if_false]
      have hlc : l < c := by have := hne.1; omega
      obtain ⟨D, h1, h2, h3⟩ := entriesGreater_spec r base c rest hr hne.2
      simp only [iterEntries]
      refine ⟨iterNode (base ++ [l]) n ++ D, by rw [h1, List.append_assoc], ?_, h3⟩
      intro d hd
      rcases List.mem_append.1 hd with hd | hd
      · exact node_lt rest hlc d hd
      · exact h2 d hd

/-- `greaterOrLast` on a row without the probe's label: `all` = `pre ++` the entries searched -/
theorem greaterOrLast_spec {sub : Entries} {base : Key} {c : Nat} {rest : Key} {pre allIter : List KV}
    (hwf : WFEntries sub) (hne : allLabels (· ≠ c) sub)
    (hall : allIter = pre ++ iterEntries base sub) (hpre : ∀ d ∈ pre, keyLt d.1 (base ++ c :: rest) = true)
    (hnonempty : allIter ≠ []) :
    SeekOK (base ++ c :: rest) allIter
      (match entriesGreater base c sub with
       | [] => lastKV allIter
       | l => l) := by
  obtain ⟨D, h1, h2, h3⟩ := entriesGreater_spec sub base c rest hwf hne
  cases hg : entriesGreater base c sub with
  | nil =>
    simp only
    apply SeekOK.last hnonempty
    intro y hy
    rw [hall, h1, hg, List.append_nil] at hy
    rcases List.mem_append.1 hy with hy | hy
    · exact hpre y hy
    · exact h2 y hy
  | cons g gs =>
    simp only
    rw [hall]
    apply SeekOK.prepend hpre
    rw [h1, hg]
    refine ⟨D, rfl, h2, by simp, ?_, ?_⟩
    · intro y hy
      exact h3 y (by rw [hg]; exact List.mem_cons_of_mem _ hy)
    · intro x hx hlt
      simp only [List.head?_cons, Option.some.injEq] at hx
      subst hx
      have := h3 g (by rw [hg]; exact List.mem_cons_self ..)
      rw [this] at hlt; exact absurd hlt (by simp)

/-! ### the label search of `seek` -/

theorem seekEntries_some_gt : ∀ (es : Entries) (base : Key) (c : Nat) (rest : Key) (lo : Nat) (x : Bool × List KV),
    allLabels (lo < ·) es → seekEntries base es c rest = some x → lo < c
  | .nil, _, _, _, _, _, _, h => by simp [seekEntries] at h
  | .leaf l suf v r, base, c, rest, lo, x, hlo, h => by
    rw [seekEntries] at h
    by_cases hlc : l = c
    · subst hlc; exact hlo.1
    · have : (l == c) = false := by simpa using hlc
      simp only [this] at h
      exact seekEntries_some_gt r base c rest lo x hlo.2 h
  | .child l n r, base, c, rest, lo, x, hlo, h => by
    rw [seekEntries] at h
    by_cases hlc : l = c
    · subst hlc; exact hlo.1
    · have : (l == c) = false := by simpa using hlc
      simp only [this] at h
      exact seekEntries_some_gt r base c rest lo x hlo.2 h

theorem seekEntries_none : ∀ (es : Entries) (base : Key) (c : Nat) (rest : Key),
    seekEntries base es c rest = none → allLabels (· ≠ c) es
  | .nil, _, _, _, _ => trivial
  | .leaf l suf v r, base, c, rest, h => by
    rw [seekEntries] at h
    by_cases hlc : l = c
    · simp [hlc] at h
    · have : (l == c) = false := by simpa using hlc
      simp only [this] at h
      exact ⟨hlc, seekEntries_none r base c rest h⟩
  | .child l n r, base, c, rest, h => by
    rw [seekEntries] at h
    by_cases hlc : l = c
    · simp [hlc] at h
    · have : (l == c) = false := by simpa using hlc
      simp only [this] at h
      exact ⟨hlc, seekEntries_none r base c rest h⟩

/-- the part of `seek` inside one node once the node prefix is consumed, on a row whose first
`pre` pairs (the terminator, if any) are skipped by `labelVector.Search` -/
theorem seek_row {sub all : Entries} {base : Key} {c : Nat} {rest : Key} {pre : List KV}
    (hwf : WFEntries sub) (hnil : sub.isNil = false)
    (hall : iterEntries base all = pre ++ iterEntries base sub)
    (hpre : ∀ d ∈ pre, keyLt d.1 (base ++ c :: rest) = true)
    (hE : ∀ x, seekEntries base sub c rest = some x → SeekOK (base ++ c :: rest) (iterEntries base sub) x.2) :
    SeekOK (base ++ c :: rest) (iterEntries base all)
      (match seekEntries base sub c rest with
       | some x => x
       | none => (false, greaterOrLast base c all sub)).2 := by
  cases hs : seekEntries base sub c rest with
  | some x =>
    simp only
    rw [hall]
    exact SeekOK.prepend hpre (hE x hs)
  | none =>
    simp only [greaterOrLast]
    apply greaterOrLast_spec hwf (seekEntries_none sub base c rest hs) hall hpre
    rw [hall]
    intro e
    exact iterEntries_ne_nil sub base hwf hnil (List.append_eq_nil_iff.1 e).2

mutual
  theorem seekNode_spec : ∀ (n : Node) (path key : Key), WFNode n →
      SeekOK (path ++ key) (iterNode path n) (seekNode path n key).2
    | .mk pfx es, path, key, hwf => by
      have hne : iterNode path (.mk pfx es) ≠ [] := iterNode_ne_nil _ path hwf
      unfold WFNode at hwf
      rw [seekNode]
      simp only [iterNode] at hne ⊢
      cases hcmp : keyCmp pfx (key.take pfx.length) with
      | lt =>
        simp only
        apply SeekOK.last hne
        intro y hy
        obtain ⟨q, hq⟩ := iterEntries_prefix es (path ++ pfx) y hy
        rw [hq, List.append_assoc, keyLt_append_left]
        exact keyCmp_take_lt pfx key hcmp q
      | gt =>
        simp only
        apply SeekOK.all_ge hne
        intro y hy
        obtain ⟨q, hq⟩ := iterEntries_prefix es (path ++ pfx) y hy
        rw [hq, List.append_assoc, keyLt_append_left]
        exact keyCmp_take_gt pfx key hcmp q
      | eq =>
        simp only
        have hkey := keyCmp_take_eq pfx key hcmp
        cases hrem : key.drop pfx.length with
        | nil =>
          simp only
          apply SeekOK.all_ge hne
          intro y hy
          obtain ⟨q, hq⟩ := iterEntries_prefix es (path ++ pfx) y hy
          rw [hkey, hrem, List.append_nil, hq]
          exact keyLt_ext_base _ _
        | cons c rest =>
          simp only
          have hT : path ++ key = (path ++ pfx) ++ c :: rest := by rw [hkey, hrem]; simp
          rw [hT]
          cases es with
          | nil => simp [WFRow] at hwf
          | leaf l suf v r =>
            unfold WFRow at hwf
            simp only
            rcases hwf with ⟨hl, hsuf, hnil, hr⟩ | ⟨hle, habove, hr⟩
            · subst hl hsuf
              simp only [labelTerminator, beq_self_eq_true, hnil, Bool.not_false, Bool.and_self, if_true]
              apply seek_row (pre := [(path ++ pfx, v)]) hr hnil
              · simp [iterEntries, hnil, labelTerminator]
              · intro d hd
                simp only [List.mem_singleton] at hd
                subst hd
                exact keyLt_append_nil _ _ _
              · intro x hx
                exact seekEntries_spec r (path ++ pfx) c rest x hr hx
            · have hwfe : WFEntries (.leaf l suf v r) := by unfold WFEntries; exact ⟨hle, habove, hr⟩
              have hcond : (l == labelTerminator && !r.isNil) = false := by
                by_cases h1 : l = 255
                · have := WFEntries.ff_last hr habove h1
                  simp [this]
                · simp [labelTerminator, h1]
              simp only [hcond, Bool.false_eq_true, if_false]
              apply seek_row (pre := []) hwfe (by simp [Entries.isNil]) (by simp) (by simp)
              intro x hx
              exact seekEntries_spec (.leaf l suf v r) (path ++ pfx) c rest x hwfe hx
          | child l n r =>
            unfold WFRow at hwf
            simp only
            have hwfe : WFEntries (.child l n r) := by unfold WFEntries; exact hwf
            have hcond : (l == labelTerminator && !r.isNil) = false := by
              by_cases h1 : l = 255
              · have := WFEntries.ff_last hwf.2.2.2.2 hwf.2.1 h1
                simp [this]
              · simp [labelTerminator, h1]
            simp only [hcond, Bool.false_eq_true, if_false]
            apply seek_row (pre := []) hwfe (by simp [Entries.isNil]) (by simp) (by simp)
            intro x hx
            exact seekEntries_spec (.child l n r) (path ++ pfx) c rest x hwfe hx
  theorem seekEntries_spec : ∀ (es : Entries) (base : Key) (c : Nat) (rest : Key) (x : Bool × List KV),
      WFEntries es → seekEntries base es c rest = some x → SeekOK (base ++ c :: rest) (iterEntries base es) x.2
    | .nil, _, _, _, _, _, h => by simp [seekEntries] at h
    | .leaf l suf v r, base, c, rest, x, hwf, h => by
      have hwf' := hwf
      unfold WFEntries at hwf'
      obtain ⟨hle, habove, hr⟩ := hwf'
      rw [seekEntries] at h
      by_cases hlc : l = c
      · subst hlc
        simp only [beq_self_eq_true, if_true, Option.some.injEq] at h
        subst h
        simp only
        rw [iterEntries_leaf_real hwf]
        refine ⟨[], rfl, by simp, by simp, ?_, ?_⟩
        · simp only [List.tail_cons]
          exact entries_gt rest hr habove
        · intro x hx hlt y hy
          simp only [List.head?_cons, Option.some.injEq] at hx
          subst hx
          rcases List.mem_cons.1 hy with rfl | hy
          · exact no_prefix_of_lt hlt
          · exact entries_no_prefix rest hr (allLabels_imp (fun z hz => by omega) r habove) y hy
      · have hne : (l == c) = false := by simpa using hlc
        simp only [hne] at h
        have hlt : l < c := seekEntries_some_gt r base c rest l x habove h
        have ih := seekEntries_spec r base c rest x hr h
        rw [iterEntries_leaf_real hwf]
        have := SeekOK.prepend (A := [(base ++ l :: suf, v)]) (T := base ++ c :: rest) (by
          intro d hd
          simp only [List.mem_singleton] at hd
          subst hd
          exact keyLt_label_lt suf rest hlt) ih
        simpa using this
    | .child l n r, base, c, rest, x, hwf, h => by
      have hwf' := hwf
      unfold WFEntries at hwf'
      obtain ⟨hle, habove, hn, hlen, hr⟩ := hwf'
      rw [seekEntries] at h
      by_cases hlc : l = c
      · subst hlc
        simp only [beq_self_eq_true, if_true, Option.some.injEq] at h
        subst h
        simp only [iterEntries]
        have ih := seekNode_spec n (base ++ [l]) rest hn
        have hT : (base ++ [l]) ++ rest = base ++ l :: rest := by simp
        rw [hT] at ih
        exact SeekOK.append (entries_gt rest hr habove)
          (entries_no_prefix rest hr (allLabels_imp (fun z hz => by omega) r habove)) ih
      · have hne : (l == c) = false := by simpa using hlc
        simp only [hne] at h
        have hlt : l < c := seekEntries_some_gt r base c rest l x habove h
        have ih := seekEntries_spec r base c rest x hr h
        simp only [iterEntries]
        exact SeekOK.prepend (node_lt rest hlt) ih
end

end LinVerif.Lemmas.C20
