/-
C10 helper lemmas (round 12): the series store and the written series carry the same
(metric, series id) pairs in every reachable state; `allSeries`; plan interpreter unfoldings.
Core Lean only.
-/
import LinVerif.Model.TagFilterPlan
import LinVerif.Lemmas.C10Run
import LinVerif.Lemmas.C10Heap

namespace LinVerif.TagFilter
open LinVerif

/-- the series store (tags hash → series id, what the metric → series postings are filled from) and
the ghost list of written series hold the same (metric, series id) pairs, in the same order -/
def SeriesProj (st : State) : Prop :=
  st.series.map (fun e => (e.1.1, e.2)) = st.written.map (fun e => (e.1, e.2.1))

theorem seriesProj_init : SeriesProj State.init := rfl

theorem addWritten_proj (w : List (Metric × SeriesId × Tags)) (m : Metric) (sid : SeriesId) (kv : Bytes × Bytes) :
    (addWritten w m sid kv).map (fun e => (e.1, e.2.1)) = w.map (fun e => (e.1, e.2.1)) := by
  unfold addWritten
  rw [List.map_map]
  apply List.map_congr_left
  intro e _
  simp only [Function.comp]
  split <;> rfl

theorem addTag_seriesProj {st : State} (h : SeriesProj st) (m : Metric) (sid : SeriesId) (kv : Bytes × Bytes) :
    SeriesProj (addTag st m sid kv) := by
  have fa := genTagValueID_frame (genTagKeyID st m kv.1).1 (genTagKeyID st m kv.1).2 kv.2
  have ga := genTagKeyID_frame st m kv.1
  unfold SeriesProj at *
  rw [addTag_eq]
  simp only [indexTag]
  rw [addWritten_proj, fa.2.2.2.2.1, fa.2.2.2.2.2, ga.2.2.2.1, ga.2.2.2.2.1]
  exact h

theorem foldl_addTag_seriesProj (m : Metric) (sid : SeriesId) (tags : Tags) {st : State} (h : SeriesProj st) :
    SeriesProj (tags.foldl (fun s kv => addTag s m sid kv) st) := by
  induction tags generalizing st with
  | nil => exact h
  | cons kv t ih => simp only [List.foldl_cons]; exact ih (addTag_seriesProj h m sid kv)

theorem write_seriesProj {st : State} (h : SeriesProj st) (m : Metric) (tags : Tags) :
    SeriesProj (write st m tags).1 := by
  unfold write
  cases Map.lookup st.series (m, tags) with
  | some sid => exact h
  | none =>
    apply foldl_addTag_seriesProj
    unfold SeriesProj at *
    simp only [List.map_append, List.map_cons, List.map_nil]
    rw [h]

theorem step_seriesProj (F : Flags) {st : State} (h : SeriesProj st) (s : Step) : SeriesProj (st.step F s) := by
  have hc := core_eq_iff.mp (step_core F st s)
  unfold SeriesProj at *
  rw [hc.2.2.1, hc.2.2.2]
  exact h

theorem run_seriesProj (F : Flags) (ops : List Op) {st : State} (h : SeriesProj st) : SeriesProj (run F ops st) := by
  induction ops generalizing st with
  | nil => exact h
  | cons op r ih =>
    cases op with
    | write m tags => simp only [run, List.foldl_cons, applyOp]; exact ih (write_seriesProj h m tags)
    | place s => simp only [run, List.foldl_cons, applyOp]; exact ih (step_seriesProj F h s)

theorem mem_allSeries {st : State} {m : Metric} {s : SeriesId} :
    s ∈ allSeries st m ↔ (m, s) ∈ st.series.map (fun e => (e.1.1, e.2)) := by
  unfold allSeries
  simp only [List.mem_map, List.mem_filter, beq_iff_eq, Prod.mk.injEq]
  constructor
  · rintro ⟨e, ⟨he, hm⟩, rfl⟩
    exact ⟨e, he, hm, rfl⟩
  · rintro ⟨e, he, hm, rfl⟩
    exact ⟨e, ⟨he, hm⟩, rfl⟩

/-- on a state with `SeriesProj`, `GetSeriesIDsForMetric` returns exactly the written series of the metric -/
theorem allSeries_iff_written {st : State} (h : SeriesProj st) (m : Metric) (s : SeriesId) :
    s ∈ allSeries st m ↔ ∃ t, (m, s, t) ∈ st.written := by
  rw [mem_allSeries, h]
  simp only [List.mem_map, Prod.mk.injEq]
  constructor
  · rintro ⟨e, he, h1, h2⟩
    exact ⟨e.2.2, by rw [← h1, ← h2]; exact he⟩
  · rintro ⟨t, ht⟩
    exact ⟨(m, s, t), ht, rfl, rfl⟩

/-- a known metric has series -/
theorem metricKnown_iff (st : State) (m : Metric) : metricKnown st m = true ↔ allSeries st m ≠ [] := by
  unfold metricKnown allSeries
  induction st.series with
  | nil => simp
  | cons e t ih =>
    by_cases he : e.1.1 = m
    · simp [List.filter, he]
    · have : (e.1.1 == m) = false := by simpa using he
      simp only [List.any_cons, this, Bool.false_or, List.filter_cons, Bool.false_eq_true, if_false]
      exact ih

/-! ### series ids of a metric are 0, 1, 2, … (`createSeriesID`) -/

/-- per metric the series store holds the ids 0 … n-1, in order of creation -/
def SeriesDense (st : State) : Prop := ∀ m, allSeries st m = List.range (nextSeriesId st m)

theorem seriesDense_init : SeriesDense State.init := fun _ => rfl

theorem seriesDense_of_series {a b : State} (h : a.series = b.series) (hd : SeriesDense b) : SeriesDense a := by
  intro m
  have := hd m
  unfold allSeries nextSeriesId at *
  rw [h]; exact this

theorem addTag_series (st : State) (m : Metric) (sid : SeriesId) (kv : Bytes × Bytes) :
    (addTag st m sid kv).series = st.series := by
  have fa := genTagValueID_frame (genTagKeyID st m kv.1).1 (genTagKeyID st m kv.1).2 kv.2
  have ga := genTagKeyID_frame st m kv.1
  rw [addTag_eq]
  simp only [indexTag]
  rw [fa.2.2.2.2.1, ga.2.2.2.1]

theorem foldl_addTag_series (m : Metric) (sid : SeriesId) (tags : Tags) (st : State) :
    (tags.foldl (fun s kv => addTag s m sid kv) st).series = st.series := by
  induction tags generalizing st with
  | nil => rfl
  | cons kv t ih => simp only [List.foldl_cons]; rw [ih, addTag_series]

theorem write_seriesDense {st : State} (h : SeriesDense st) (m : Metric) (tags : Tags) :
    SeriesDense (write st m tags).1 := by
  unfold write
  cases Map.lookup st.series (m, tags) with
  | some sid => exact h
  | none =>
    apply seriesDense_of_series (foldl_addTag_series m (nextSeriesId st m) tags _)
    intro m'
    have hm := h m'
    unfold allSeries nextSeriesId at *
    simp only [List.filter_append, List.map_append, List.length_append]
    by_cases he : m = m'
    · subst he
      simp only [List.filter_cons, beq_self_eq_true, if_true, List.filter_nil, List.map_cons, List.map_nil,
        List.length_cons, List.length_nil, Nat.zero_add]
      rw [List.range_succ, hm]
    · have : (m == m') = false := by simpa using he
      simp only [List.filter_cons, this, Bool.false_eq_true, if_false, List.filter_nil, List.map_nil,
        List.append_nil, List.length_nil, Nat.add_zero]
      exact hm

theorem step_seriesDense (F : Flags) {st : State} (h : SeriesDense st) (s : Step) : SeriesDense (st.step F s) :=
  seriesDense_of_series (core_eq_iff.mp (step_core F st s)).2.2.1 h

theorem run_seriesDense (F : Flags) (ops : List Op) {st : State} (h : SeriesDense st) : SeriesDense (run F ops st) := by
  induction ops generalizing st with
  | nil => exact h
  | cons op r ih =>
    cases op with
    | write m tags => simp only [run, List.foldl_cons, applyOp]; exact ih (write_seriesDense h m tags)
    | place s => simp only [run, List.foldl_cons, applyOp]; exact ih (step_seriesDense F h s)

/-- with dense ids, a known metric has the series id 0 (`series.IDWithoutTags`) -/
theorem zero_mem_allSeries {st : State} (hd : SeriesDense st) {m : Metric} (hk : metricKnown st m = true) :
    0 ∈ allSeries st m := by
  have hne := (metricKnown_iff st m).mp hk
  rw [hd m] at hne ⊢
  cases hn : nextSeriesId st m with
  | zero => rw [hn] at hne; exact absurd rfl hne
  | succ n => simp [List.mem_range]

end LinVerif.TagFilter
