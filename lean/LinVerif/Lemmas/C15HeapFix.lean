/-
C15 — `heap.Fix(h, i)` of Go's container/heap at ANY index (round 12).

Before, `heap.Fix` was proved only for the one use lindb makes of it (`heapFix_last_spec`: the slot
`Push` just appended, where `down` is a no-op).  Here the stdlib contract of `Fix` itself: if the
container was a heap before the key in slot i changed (every parent/child edge not touching i is in
order, and i's parent is not above i's children), then `if !down(h, i, n) { up(h, i) }` gives a heap
of the same cells.  Plus the exact condition under which replacing the top key needs no re-fix at
all: the new key must not exceed EITHER child (seeded changes c15-22 / c15-25 looked at slot 1 only).
-/
import LinVerif.Lemmas.C15Merge
set_option linter.unusedSimpArgs false
set_option linter.unusedVariables false
namespace LinVerif.MergedIter

variable {H C : Type} {I : HeapIface H}

/-- `down` from a slot that is not above any of its children does not move anything -/
theorem downLoop_noop (V : View I C) (fuel : Nat) (h : H) (i n : Nat)
    (hlen : n ≤ (V.view h).length) (hin : i < n)
    (hch : ∀ c, 0 < c → c < n → (c - 1) / 2 = i → V.kf h i ≤ V.kf h c) :
    downLoop I fuel h i n = (h, i) := by
  cases fuel with
  | zero => rfl
  | succ f =>
    by_cases hleaf : n ≤ 2 * i + 1
    · exact downLoop_leaf I _ h i n hleaf
    · generalize hjdef : (if (2 * i + 1 + 1 < n && I.less h (2 * i + 1 + 1) (2 * i + 1)) then 2 * i + 1 + 1 else 2 * i + 1) = j
      have hunf : downLoop I (f + 1) h i n =
          if !I.less h j i then (h, i) else downLoop I f (I.swap h i j) j n := by
        simp only [downLoop]
        rw [if_neg (by omega)]
        simp only [hjdef]
      have hjc : j = 2 * i + 1 ∨ j = 2 * i + 2 := by
        rw [← hjdef]; split <;> omega
      have hjn : j < n := by
        rw [← hjdef]; split
        · rename_i hc; simp at hc; omega
        · omega
      have hl := V.less_eq h j i (by omega) (by omega)
      have hle := hch j (by omega) hjn (by omega)
      have hf : I.less h j i = false := by
        rw [hl]; unfold View.kf at hle; simp; omega
      rw [hunf, hf]; rfl

/-- **`heap.Fix(h, i)` at any index.** Precondition = "h was a heap before the key of slot i
changed": every edge that does not touch slot i is in order (`ha`), and the parent of i is not above
the children of i (`hb`; by transitivity in the old heap).  Nothing is assumed about the new key. -/
theorem heapFix_spec (V : View I C) (h : H) (i n : Nat) (hn : n = (V.view h).length) (hin : i < n)
    (ha : ∀ c, 0 < c → c < n → c ≠ i → (c - 1) / 2 ≠ i → V.kf h ((c - 1) / 2) ≤ V.kf h c)
    (hb : i ≠ 0 → ∀ c, 0 < c → c < n → (c - 1) / 2 = i → V.kf h ((i - 1) / 2) ≤ V.kf h c) :
    HeapFrom (V.kf (heapFix I h i)) 0 n ∧ (V.view (heapFix I h i)).Perm (V.view h) := by
  have hlenI : I.len h = n := by rw [V.len_eq, hn]
  by_cases hch : ∀ c, 0 < c → c < n → (c - 1) / 2 = i → V.kf h i ≤ V.kf h c
  · -- `down` does nothing and returns false, `up` repairs
    have hno := downLoop_noop V n h i n (by omega) hin hch
    have hfix : heapFix I h i = up I (i + 1) h i := by
      unfold heapFix down
      rw [hlenI, hno]; simp
    rw [hfix]
    apply up_spec V (i + 1) h i n hn hin (by omega)
    · intro c hc0 hcn hne
      by_cases hp : (c - 1) / 2 = i
      · rw [hp]; exact hch c hc0 hcn hp
      · exact ha c hc0 hcn hne hp
    · intro c hc0 hcn hp
      by_cases hi0 : i = 0
      · subst hi0; exact hch c hc0 hcn hp
      · exact hb hi0 c hc0 hcn hp
  · -- some child is smaller than the new key, hence the new key is above i's parent: `down` repairs
    have hex : ∃ c, 0 < c ∧ c < n ∧ (c - 1) / 2 = i ∧ V.kf h c < V.kf h i := by
      apply Classical.byContradiction
      intro hcon; apply hch; intro c h1 h2 h3
      apply Classical.byContradiction
      intro h4; exact hcon ⟨c, h1, h2, h3, by omega⟩
    obtain ⟨c0, hc00, hc0n, hc0p, hc0lt⟩ := hex
    have hd := downLoop_spec V n h i n 0 (by omega) hin (by omega) (by omega)
      (by
        intro c hc0 hcn _ hp
        by_cases hci : c = i
        · subst hci
          have hi0 : c ≠ 0 := by omega
          have := hb hi0 c0 hc00 hc0n hc0p
          omega
        · exact ha c hc0 hcn hci hp)
      (by intro hi0 c hc0 hcn hp; exact hb hi0 c hc0 hcn hp)
    have hl' : (V.view (downLoop I n h i n).1).length = n := by rw [hd.2.1.length_eq, hn]
    unfold heapFix down
    rw [hlenI]
    by_cases hmoved : (downLoop I n h i n).2 > i
    · simp [hmoved]; exact ⟨hd.1, hd.2.1⟩
    · -- cannot happen (a swap moves the index), but `up` on a heap is harmless anyway
      simp [hmoved]
      have hu := up_spec V (i + 1) (downLoop I n h i n).1 i n hl'.symm hin (by omega)
        (by intro c hc0 hcn _; exact hd.1 c hc0 hcn (by omega))
        (by
          intro c hc0 hcn hp
          by_cases hi0 : i = 0
          · subst hi0
            have := hd.1 c hc0 hcn (by omega)
            rw [hp] at this; exact this
          · have h1 := hd.1 c hc0 hcn (by omega)
            have h2 := hd.1 i (by omega) hin (by omega)
            rw [hp] at h1; omega)
      exact ⟨hu.1, hu.2.trans hd.2.1⟩

/-! ## on lindb's priorityQueue -/

theorem pqView_kf_set_ne (pq : PQ) (i y : Nat) (x : Item) (hne : y ≠ i) :
    pqView.kf (pq.set i x) y = pqView.kf pq y := by
  rw [pqView_kf, pqView_kf, List.getElem?_set_ne (by omega)]

theorem pqView_kf_set_self (pq : PQ) (i : Nat) (x : Item) (hi : i < pq.length) :
    pqView.kf (pq.set i x) i = x.key := by
  rw [pqView_kf, List.getElem?_set_self hi]

/-- the key of the item in slot i of a heap is replaced by anything, then `heap.Fix(&pq, i)`
(= `priorityQueue.update` of an item whose `index` is i): a heap of the same items again -/
theorem heapFix_pq_spec (pq : PQ) (i : Nat) (x : Item) (hi : i < pq.length) (hh : IsHeapPQ pq) :
    IsHeapPQ (heapFix pqIface (pq.set i x) i) ∧
    ((heapFix pqIface (pq.set i x) i).map core).Perm ((pq.set i x).map core) ∧
    pqUpdate (pq.set i x) (i : Int) = some (heapFix pqIface (pq.set i x) i) := by
  have hlen : pq.length = (pqView.view (pq.set i x)).length := by simp [pqView]
  have hs := heapFix_spec pqView (pq.set i x) i pq.length hlen hi
    (by
      intro c hc0 hcn hci hpi
      rw [pqView_kf_set_ne pq i _ x hpi, pqView_kf_set_ne pq i _ x hci]
      exact hh c hc0 hcn (by omega))
    (by
      intro hi0 c hc0 hcn hp
      have hci : c ≠ i := by omega
      have hpi : (i - 1) / 2 ≠ i := by omega
      rw [pqView_kf_set_ne pq i _ x hpi, pqView_kf_set_ne pq i _ x hci]
      have h1 := hh c hc0 hcn (by omega)
      have h2 := hh i (by omega) hi (by omega)
      rw [hp] at h1; omega)
  have hl : (heapFix pqIface (pq.set i x) i).length = pq.length := by
    have := hs.2.length_eq
    simpa [pqView] using this
  refine ⟨?_, hs.2, ?_⟩
  · unfold IsHeapPQ; rw [hl]; exact hs.1
  · unfold pqUpdate; simp

/-- replacing the key of the ROOT of a heap leaves a heap exactly when the new key exceeds
neither child — slot 1 AND slot 2 -/
theorem top_replace_heap_iff (k : Nat → Nat) (n x : Nat) (hh : HeapFrom k 0 n) :
    HeapFrom (fun y => if y = 0 then x else k y) 0 n ↔ (1 < n → x ≤ k 1) ∧ (2 < n → x ≤ k 2) := by
  constructor
  · intro h
    refine ⟨fun h1 => ?_, fun h2 => ?_⟩
    · have := h 1 (by omega) h1 (by omega); simpa using this
    · have := h 2 (by omega) h2 (by omega); simpa using this
  · intro ⟨h1, h2⟩ c hc0 hcn _
    have hcne : c ≠ 0 := by omega
    by_cases hp : (c - 1) / 2 = 0
    · have hc : c = 1 ∨ c = 2 := by omega
      rcases hc with hc | hc
      · subst hc; simpa using h1 hcn
      · subst hc; simpa using h2 hcn
    · simp only [hp, hcne, if_false]
      exact hh c hc0 hcn (by omega)

theorem top_replace_pq_iff (pq : PQ) (x : Item) (h0 : 0 < pq.length) (hh : IsHeapPQ pq) :
    IsHeapPQ (pq.set 0 x) ↔
      (∀ b, pq[1]? = some b → x.key ≤ b.key) ∧ (∀ b, pq[2]? = some b → x.key ≤ b.key) := by
  have hfun : pqView.kf (pq.set 0 x) = fun y => if y = 0 then x.key else pqView.kf pq y := by
    funext y
    by_cases hy : y = 0
    · subst hy; simp [pqView_kf_set_self pq 0 x h0]
    · simp [hy, pqView_kf_set_ne pq 0 y x hy]
  unfold IsHeapPQ
  rw [List.length_set, hfun, top_replace_heap_iff _ _ _ hh]
  constructor
  · intro ⟨h1, h2⟩
    refine ⟨fun b hb => ?_, fun b hb => ?_⟩
    · have hl : 1 < pq.length := by
        rcases Nat.lt_or_ge 1 pq.length with h | h
        · exact h
        · rw [List.getElem?_eq_none h] at hb; cases hb
      have := h1 hl; rw [pqView_kf, hb] at this; exact this
    · have hl : 2 < pq.length := by
        rcases Nat.lt_or_ge 2 pq.length with h | h
        · exact h
        · rw [List.getElem?_eq_none h] at hb; cases hb
      have := h2 hl; rw [pqView_kf, hb] at this; exact this
  · intro ⟨h1, h2⟩
    refine ⟨fun hl => ?_, fun hl => ?_⟩
    · rw [pqView_kf, List.getElem?_eq_getElem hl]
      exact h1 _ (List.getElem?_eq_getElem hl)
    · rw [pqView_kf, List.getElem?_eq_getElem hl]
      exact h2 _ (List.getElem?_eq_getElem hl)

end LinVerif.MergedIter
