/-
C15 — `heap.Fix(h, i)` of Go's container/heap at ANY index (round 12).

Before, `heap.Fix` was proved only for the one use lindb makes of it (`heapFix_last_spec`: the slot
`Push` just appended, where `down` is a no-op).  Here the stdlib contract of `Fix` itself: if the
container was a heap before the key in slot i changed (every parent/child edge not touching i is in
order, and i's parent is not above i's children), then `if !down(h, i, n) { up(h, i) }` gives a heap
of the same cells.  Plus the exact condition under which replacing the top key needs no re-fix at
all: the new key must not exceed EITHER child (seeded changes c15-22 / c15-25 looked at slot 1 only).
-/
import LinVerif.Lemmas.C15Merge
set_option linter.unusedSimpArgs false
set_option linter.unusedVariables false
namespace LinVerif.MergedIter

variable {H C : Type} {I : HeapIface H}

/-- `down` from a slot that is not above any of its children does not move anything -/
theorem downLoop_noop (V : View I C) (fuel : Nat) (h : H) (i n : Nat)
    (hlen : n ≤ (V.view h).length) (hin : i < n)
    (hch : ∀ c, 0 < c → c < n → (c - 1) / 2 = i → V.kf h i ≤ V.kf h c) :
    downLoop I fuel h i n = (h, i) := by
  cases fuel with
  | zero => rfl
  | succ f =>
    by_cases hleaf : n ≤ 2 * i + 1
    · exact downLoop_leaf I _ h i n hleaf
    · generalize hjdef : (if (2 * i + 1 + 1 < n && I.less h (2 * i + 1 + 1) (2 * i + 1)) then 2 * i + 1 + 1 else 2 * i + 1) = j
      have hunf : downLoop I (f + 1) h i n =
          if !I.less h j i then (h, i) else downLoop I f (I.swap h i j) j n := by
        simp only [downLoop]
        rw [if_neg (by omega)]
        simp only [hjdef]
      have hjc : j = 2 * i + 1 ∨ j = 2 * i + 2 := by
        rw [← hjdef]; split <;> omega
      have hjn : j < n := by
        rw [← hjdef]; split
        · rename_i hc; simp at hc; omega
        · omega
      have hl := V.less_eq h j i (by omega) (by omega)
      have hle := hch j (by omega) hjn (by omega)
      have hf : I.less h j i = false := by
        rw [hl]; unfold View.kf at hle; simp; omega
      rw [hunf, hf]; rfl

/-- **`heap.Fix(h, i)` at any index.** Precondition = "h was a heap before the key of slot i
changed": every edge that does not touch slot i is in order (`ha`), and the parent of i is not above
the children of i (`hb`; by transitivity in the old heap).  Nothing is assumed about the new key. -/
theorem heapFix_spec (V : View I C) (h : H) (i n : Nat) (hn : n = (V.view h).length) (hin : i < n)
    (ha : ∀ c, 0 < c → c < n → c ≠ i → (c - 1) / 2 ≠ i → V.kf h ((c - 1) / 2) ≤ V.kf h c)
    (hb : i ≠ 0 → ∀ c, 0 < c → c < n → (c - 1) / 2 = i → V.kf h ((i - 1) / 2) ≤ V.kf h c) :
    HeapFrom (V.kf (heapFix I h i)) 0 n ∧ (V.view (heapFix I h i)).Perm (V.view h) := by
  have hlenI : I.len h = n := by rw [V.len_eq, hn]
  by_cases hch : ∀ c, 0 < c → c < n → (c - 1) / 2 = i → V.kf h i ≤ V.kf h c
  · -- `down` does nothing and returns false, `up` repairs
    have hno := downLoop_noop V n h i n (by omega) hin hch
    have hfix : heapFix I h i = up I (i + 1) h i := by
      unfold heapFix down
      rw [hlenI, hno]; simp
    rw [hfix]
    apply up_spec V (i + 1) h i n hn hin (by omega)
    · intro c hc0 hcn hne
      by_cases hp : (c - 1) / 2 = i
      · rw [hp]; exact hch c hc0 hcn hp
      · exact ha c hc0 hcn hne hp
    · intro c hc0 hcn hp
      by_cases hi0 : i = 0
      · subst hi0; exact hch c hc0 hcn hp
      · exact hb hi0 c hc0 hcn hp
  · -- some child is smaller than the new key, hence the new key is above i's parent: `down` repairs
    have hex : ∃ c, 0 < c ∧ c < n ∧ (c - 1) / 2 = i ∧ V.kf h c < V.kf h i := by
      apply Classical.byContradiction
      intro hcon; apply hch; intro c h1 h2 h3
      apply Classical.byContradiction
      intro h4; exact hcon ⟨c, h1, h2, h3, by omega⟩
    obtain ⟨c0, hc00, hc0n, hc0p, hc0lt⟩ := hex
    have hd := downLoop_spec V n h i n 0 (by omega) hin (by omega) (by omega)
      (by
        intro c hc0 hcn _ hp
        by_cases hci : c = i
        · subst hci
          have hi0 : c ≠ 0 := by omega
          have := hb hi0 c0 hc00 hc0n hc0p
          omega
        · exact ha c hc0 hcn hci hp)
      (by intro hi0 c hc0 hcn hp; exact hb hi0 c hc0 hcn hp)
    have hl' : (V.view (downLoop I n h i n).1).length = n := by rw [hd.2.1.length_eq, hn]
    unfold heapFix down
    rw [hlenI]
    by_cases hmoved : (downLoop I n h i n).2 > i
    · simp [hmoved]; exact ⟨hd.1, hd.2.1⟩
    · -- cannot happen (a swap moves the index), but `up` on a heap is harmless anyway
      simp [hmoved]
      have hu := up_spec V (i + 1) (downLoop I n h i n).1 i n hl'.symm hin (by omega)
        (by intro c hc0 hcn _; exact hd.1 c hc0 hcn (by omega))
        (by
          intro c hc0 hcn hp
          by_cases hi0 : i = 0
          · subst hi0
            have := hd.1 c hc0 hcn (by omega)
            rw [hp] at this; exact this
          · have h1 := hd.1 c hc0 hcn (by omega)
            have h2 := hd.1 i (by omega) hin (by omega)
            rw [hp] at h1; omega)
      exact ⟨hu.1, hu.2.trans hd.2.1⟩

/-! ## on lindb's priorityQueue -/

theorem pqView_kf_set_ne (pq : PQ) (i y : Nat) (x : Item) (hne : y ≠ i) :
    pqView.kf (pq.set i x) y = pqView.kf pq y := by
  rw [pqView_kf, pqView_kf, List.getElem?_set_ne (by omega)]

theorem pqView_kf_set_self (pq : PQ) (i : Nat) (x : Item) (hi : i < pq.length) :
    pqView.kf (pq.set i x) i = x.key := by
  rw [pqView_kf, List.getElem?_set_self hi]

/-- the key of the item in slot i of a heap is replaced by anything, then `heap.Fix(&pq, i)`
(= `priorityQueue.update` of an item whose `index` is i): a heap of the same items again -/
theorem heapFix_pq_spec (pq : PQ) (i : Nat) (x : Item) (hi : i < pq.length) (hh : IsHeapPQ pq) :
    IsHeapPQ (heapFix pqIface (pq.set i x) i) ∧
    ((heapFix pqIface (pq.set i x) i).map core).Perm ((pq.set i x).map core) ∧
    pqUpdate (pq.set i x) (i : Int) = some (heapFix pqIface (pq.set i x) i) := by
  have hlen : pq.length = (pqView.view (pq.set i x)).length := by simp [pqView]
  have hs := heapFix_spec pqView (pq.set i x) i pq.length hlen hi
    (by
      intro c hc0 hcn hci hpi
      rw [pqView_kf_set_ne pq i _ x hpi, pqView_kf_set_ne pq i _ x hci]
      exact hh c hc0 hcn (by omega))
    (by
      intro hi0 c hc0 hcn hp
      have hci : c ≠ i := by omega
      have hpi : (i - 1) / 2 ≠ i := by omega
      rw [pqView_kf_set_ne pq i _ x hpi, pqView_kf_set_ne pq i _ x hci]
      have h1 := hh c hc0 hcn (by omega)
      have h2 := hh i (by omega) hi (by omega)
      rw [hp] at h1; omega)
  have hl : (heapFix pqIface (pq.set i x) i).length = pq.length := by
    have := hs.2.length_eq
    simpa [pqView] using this
  refine ⟨?_, hs.2, ?_⟩
  · unfold IsHeapPQ; rw [hl]; exact hs.1
  · unfold pqUpdate; simp

/-- replacing the key of the ROOT of a heap leaves a heap exactly when the new key exceeds
neither child — slot 1 AND slot 2 -/
theorem top_replace_heap_iff (k : Nat → Nat) (n x : Nat) (hh : HeapFrom k 0 n) :
    HeapFrom (fun y => if y = 0 then x else k y) 0 n ↔ (1 < n → x ≤ k 1) ∧ (2 < n → x ≤ k 2) := by
  constructor
  · intro h
    refine ⟨fun h1 => ?_, fun h2 => ?_⟩
    · have := h 1 (by omega) h1 (by omega); simpa using this
    · have := h 2 (by omega) h2 (by omega); simpa using this
  · intro ⟨h1, h2⟩ c hc0 hcn _
    have hcne : c ≠ 0 := by omega
    by_cases hp : (c - 1) / 2 = 0
    · have hc : c = 1 ∨ c = 2 := by omega
      rcases hc with hc | hc
      · subst hc; simpa using h1 hcn
      · subst hc; simpa using h2 hcn
    · simp only [hp, hcne, if_false]
      exact hh c hc0 hcn (by omega)

theorem top_replace_pq_iff (pq : PQ) (x : Item) (h0 : 0 < pq.length) (hh : IsHeapPQ pq) :
    IsHeapPQ (pq.set 0 x) ↔
      (∀ b, pq[1]? = some b → x.key ≤ b.key) ∧ (∀ b, pq[2]? = some b → x.key ≤ b.key) := by
  have hfun : pqView.kf (pq.set 0 x) = fun y => if y = 0 then x.key else pqView.kf pq y := by
    funext y
    by_cases hy : y = 0
    · subst hy; simp [pqView_kf_set_self pq 0 x h0]
    · simp [hy, pqView_kf_set_ne pq 0 y x hy]
  unfold IsHeapPQ
  rw [List.length_set, hfun, top_replace_heap_iff _ _ _ hh]
  constructor
  · intro ⟨h1, h2⟩
    refine ⟨fun b hb => ?_, fun b hb => ?_⟩
    · have hl : 1 < pq.length := by
        rcases Nat.lt_or_ge 1 pq.length with h | h
        · exact h
        · rw [List.getElem?_eq_none h] at hb; cases hb
      have := h1 hl; rw [pqView_kf, hb] at this; exact this
    · have hl : 2 < pq.length := by
        rcases Nat.lt_or_ge 2 pq.length with h | h
        · exact h
        · rw [List.getElem?_eq_none h] at hb; cases hb
      have := h2 hl; rw [pqView_kf, hb] at this; exact this
  · intro ⟨h1, h2⟩
    refine ⟨fun hl => ?_, fun hl => ?_⟩
    · rw [pqView_kf, List.getElem?_eq_getElem hl]
      exact h1 _ (List.getElem?_eq_getElem hl)
    · rw [pqView_kf, List.getElem?_eq_getElem hl]
      exact h2 _ (List.getElem?_eq_getElem hl)

/-! ## popping a heap until it is empty -/

/-- `for pq.Len() > 0 { out = append(out, heap.Pop(&pq)) }` (fuel = number of pops allowed) -/
def popAll : Nat → PQ → List Item
  | 0, _ => []
  | f + 1, pq =>
    match pq with
    | [] => []
    | _ :: _ =>
      match heapPop pq with
      | some (pq', x) => x :: popAll f pq'
      | none => []

/-- popping a heap of any size until it is empty delivers every item once, in key order -/
theorem popAll_spec : ∀ (f : Nat) (pq : PQ), pq.length ≤ f → IsHeapPQ pq →
    ((popAll f pq).map core).Perm (pq.map core) ∧
    (popAll f pq).Pairwise (fun a b => a.key ≤ b.key) := by
  intro f
  induction f with
  | zero =>
    intro pq hl _
    have : pq = [] := List.eq_nil_of_length_eq_zero (by omega)
    subst this; simp [popAll]
  | succ f ih =>
    intro pq hl hh
    cases hpq : pq with
    | nil => simp [popAll]
    | cons a t =>
      have hne : pq ≠ [] := by rw [hpq]; simp
      obtain ⟨pq', x, hpop, hperm, hh', hmin, _⟩ := heapPop_spec pq hne hh
      have hlen' : pq'.length + 1 = pq.length := by
        have := hperm.length_eq; simpa using this
      have hrec := ih pq' (by omega) hh'
      have hunf : popAll (f + 1) (a :: t) = x :: popAll f pq' := by
        rw [← hpq]
        cases hq : pq with
        | nil => exact absurd hq hne
        | cons a' t' =>
          simp only [popAll]
          rw [← hq, hpop]
      rw [hunf]
      constructor
      · rw [← hpq]
        simp only [List.map_cons]
        exact (List.Perm.cons _ hrec.1).trans hperm
      · rw [List.pairwise_cons]
        refine ⟨?_, hrec.2⟩
        intro b hb
        have h1 : core b ∈ (popAll f pq').map core := List.mem_map_of_mem hb
        have h2 : core b ∈ pq'.map core := hrec.1.subset h1
        have h3 : core b ∈ pq.map core := hperm.subset (List.mem_cons_of_mem _ h2)
        exact hmin _ h3

/-! ## any sequence of queue calls -/

/-- one call on the queue as area `tableheap` issues them: the item in a slot replaced + `heap.Fix`
at that slot, `heap.Pop`, `Push; Fix(item.index)` -/
inductive QOp where
  | fix (slot : Nat) (x : Item)
  | pop
  | push (x : Item)

/-- `none` = the call panics in Go (slot out of range, Pop of an empty queue) -/
def QOp.run (pq : PQ) : QOp → Option PQ
  | .fix slot x => if slot < pq.length then some (heapFix pqIface (pq.set slot x) slot) else none
  | .pop => if pq.length > 0 then (heapPop pq).map (·.1) else none
  | .push x => pqUpdate (pqPush pq x) (pq.length : Int)

def QOp.runAll : PQ → List QOp → Option PQ
  | pq, [] => some pq
  | pq, op :: rest => (op.run pq).bind (fun pq1 => QOp.runAll pq1 rest)

theorem QOp.run_heap (pq pq' : PQ) (op : QOp) (hh : IsHeapPQ pq) (hr : op.run pq = some pq') :
    IsHeapPQ pq' := by
  cases op with
  | fix slot x =>
    simp only [QOp.run] at hr
    split at hr
    · rename_i hs
      cases hr
      exact (heapFix_pq_spec pq slot x hs hh).1
    · cases hr
  | pop =>
    simp only [QOp.run] at hr
    split at hr
    · rename_i hs
      have hne : pq ≠ [] := by intro h; subst h; simp at hs
      obtain ⟨pq2, x, hpop, _, hh2, _, _⟩ := heapPop_spec pq hne hh
      rw [hpop] at hr
      simp at hr
      subst hr; exact hh2
    · cases hr
  | push x =>
    simp only [QOp.run] at hr
    obtain ⟨pq3, h3, _, hh3⟩ := pushFix_spec pq x hh
    rw [h3] at hr
    cases hr; exact hh3

theorem QOp.runAll_heap : ∀ (ops : List QOp) (pq pq' : PQ), IsHeapPQ pq →
    QOp.runAll pq ops = some pq' → IsHeapPQ pq' := by
  intro ops
  induction ops with
  | nil => intro pq pq' hh hr; simp [QOp.runAll] at hr; subst hr; exact hh
  | cons op rest ih =>
    intro pq pq' hh hr
    simp only [QOp.runAll] at hr
    cases h1 : op.run pq with
    | none => rw [h1] at hr; simp at hr
    | some pq1 =>
      rw [h1] at hr
      simp only [Option.bind_some] at hr
      exact ih pq1 pq' (QOp.run_heap pq pq1 op hh h1) hr

end LinVerif.MergedIter
