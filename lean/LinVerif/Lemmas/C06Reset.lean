/-
C06 helper lemmas, part 6: index resets re-establish the invariants; a failed start-up followed by
a retry is a reopen.
-/
import LinVerif.Lemmas.C06WriteThrough
import LinVerif.Model.FanOutFault

set_option linter.unusedSimpArgs false
set_option linter.unusedVariables false

namespace LinVerif.FanOut
open LinVerif.Map

theorem WT.lite {s : State} (h : WT s) (lo : -1 ≤ s.q.ack) (le : s.q.ack ≤ s.q.appended) : Lite s :=
  ⟨h.qApp, h.qAck, lo, le, h.grp⟩

theorem Lite.wt {s : State} (h : Lite s) : WT s := ⟨h.mApp, h.mAck, h.grp⟩

/-- `Lite` is preserved by every operation outside a reset -/
theorem Lite.step {v : Variant} {s : State} {o : Op} (h : Lite s) (ok : o.okAt s) : Lite (FanOut.step v s o).1 := by
  have hw : WT (FanOut.step v s o).1 := h.wt.step o
  refine hw.lite ?_ ?_
  all_goals
    cases o with
    | append len =>
      simp only [FanOut.step]
      split
      · first | exact h.ackLo | exact h.ackLe
      · first
          | exact h.ackLo
          | (show s.q.ack ≤ s.q.appended + 1; have := h.ackLe; omega)
    | consume g =>
      simp only [FanOut.step, State.consume]
      split
      · first | exact h.ackLo | exact h.ackLe
      · split
        · first | exact h.ackLo | exact h.ackLe
        · split <;> first | exact h.ackLo | exact h.ackLe
    | ack g n =>
      simp only [FanOut.step, State.ackGroup]
      split
      · first | exact h.ackLo | exact h.ackLe
      · split <;> first | exact h.ackLo | exact h.ackLe
    | setConsumed g n =>
      simp only [FanOut.step]
      split <;> first | exact h.ackLo | exact h.ackLe
    | setSeq g n => exact absurd ok (by simp [Op.okAt])
    | setAppended n => exact absurd ok (by simp [Op.okAt])
    | sync =>
      show _ ≤ _
      simp only [FanOut.step, State.sync]
      split
      · first | exact h.ackLo | exact h.ackLe
      · split
        · simp only [setAck_ack, setAck_appended]
          have := h.ackLo; have := h.ackLe
          split <;> omega
        · first | exact h.ackLo | exact h.ackLe
    | gc =>
      show _ ≤ _
      simp only [FanOut.step, gc_ack, gc_appended]
      first | exact h.ackLo | exact h.ackLe
    | create g =>
      show _ ≤ _
      simp only [FanOut.step, State.create]
      split <;> first | exact h.ackLo | exact h.ackLe
    | stop g => first | exact h.ackLo | exact h.ackLe
    | pause g =>
      simp only [FanOut.step]
      split <;> first | exact h.ackLo | exact h.ackLe
    | reopen =>
      show _ ≤ _
      simp only [FanOut.step, State.reopen, h.reopenAck, h.reopenApp]
      first | exact h.ackLo | exact h.ackLe

/-- what `FanOutQueue.SetAppendedSeq n` leaves: queue and every live group at (n, n) -/
theorem setAppended_live (s : State) (n : Int) (g : Nat) (grp : Group)
    (hl : lookup (s.setAppended n).live g = some grp) : grp.consumed = n ∧ grp.ack = n := by
  have hl' := lookup_map_val (fun _ (x : Group) => ({ x with consumed := n, ack := n } : Group)) s.live g
  have hl2 : lookup (s.setAppended n).live g =
      (lookup s.live g).map (fun x => ({ x with consumed := n, ack := n } : Group)) := hl'
  rw [hl2] at hl
  cases hh : lookup s.live g with
  | none => rw [hh] at hl; cases hl
  | some g0 =>
    rw [hh] at hl
    simp only [Option.map_some, Option.some.injEq] at hl
    subst hl; exact ⟨rfl, rfl⟩

theorem setAppended_metas (s : State) (n : Int) (g : Nat) :
    lookup (s.setAppended n).metas g =
      (lookup s.metas g).map (fun m => match lookup s.live g with
        | some _ => ({ consumed := n, ack := n } : Meta)
        | none => m) := by
  rw [setAppended_metas_eq]
  exact lookup_map_val (fun k (m : Meta) => match lookup s.live k with
        | some _ => ({ consumed := n, ack := n } : Meta)
        | none => m) s.metas g

/-- an index reset (to n ≥ -1) in a write-through state in which every group directory belongs to a
live group re-establishes all three invariants, whatever the positions were before -/
theorem setAppended_establishes (s : State) (n : Int) (hw : WT s) (hn : -1 ≤ n)
    (hall : ∀ g m, lookup s.metas g = some m → ∃ grp, lookup s.live g = some grp) :
    Lite (s.setAppended n) ∧ Order (s.setAppended n) ∧ Above (s.setAppended n) := by
  have hw' : WT (s.setAppended n) := hw.step (v := Variant.current) (.setAppended n)
  refine ⟨hw'.lite hn (Int.le_refl _), ?_, ?_⟩
  · intro g m hm
    rw [setAppended_metas] at hm
    cases hmm : lookup s.metas g with
    | none => rw [hmm] at hm; cases hm
    | some m0 =>
      obtain ⟨grp, hg⟩ := hall g m0 hmm
      rw [hmm, hg] at hm
      simp only [Option.map_some, Option.some.injEq] at hm
      subst hm
      exact ⟨Int.le_refl _, Int.le_refl _⟩
  · intro g grp hl
    have := setAppended_live s n g grp hl
    show n ≤ grp.ack
    omega

/-! ### failed start-up + retry -/

theorem Meta.ext' (a b : Meta) (h1 : a.consumed = b.consumed) (h2 : a.ack = b.ack) : a = b := by
  cases a; cases b; simp_all

/-- `NewConsumerGroup` applied twice with the same queue ack = applied once (every variant) -/
theorem newGroup_some_idem (v : Variant) (qack : Int) (m : Meta) :
    newGroup v qack (some (newGroup v qack (some m))) = newGroup v qack (some m) := by
  have ha : (newGroup v qack (some (newGroup v qack (some m)))).ack = (newGroup v qack (some m)).ack := by
    rw [newGroup_some_ack]
    have := newGroup_some_ack_ge v qack m
    split <;> omega
  apply Meta.ext' _ _ _ ha
  rw [newGroup_some_consumed]
  have hge := newGroup_some_ack_ge v qack m
  have hA : (if (newGroup v qack (some m)).ack < qack then qack else (newGroup v qack (some m)).ack)
      = (newGroup v qack (some m)).ack := by split <;> omega
  rw [hA]
  by_cases hl : v.liftConsumed = true
  · have hc : (newGroup v qack (some m)).ack ≤ (newGroup v qack (some m)).consumed := by
      rw [newGroup_some_ack, newGroup_some_consumed]
      simp only [hl, true_and]
      split <;> split <;> omega
    have : ¬ (v.liftConsumed = true ∧ (newGroup v qack (some m)).consumed < (newGroup v qack (some m)).ack) := by
      intro h; omega
    simp only [this, if_false]
  · have : ¬ (v.liftConsumed = true ∧ (newGroup v qack (some m)).consumed < (newGroup v qack (some m)).ack) := by
      intro h; exact hl h.1
    simp only [this, if_false]

theorem reopen_reopen_ack (q : Queue) : q.reopen.reopen.ack = q.reopen.ack ∧ q.reopen.reopen.appended = q.reopen.appended := by
  have h1 := reopen_m q
  have h2 := reopen_m q.reopen
  exact ⟨by rw [h2.2.2.2, h1.2.1], by rw [h2.2.2.1, h1.1]⟩

/-- a failed start-up (fault on group `g`'s directory) followed by the retry restores exactly what
a plain reopen restores: the queue's positions and every group. -/
theorem reopenFault_eq_reopen (v : Variant) (s : State) (g : Nat) :
    (s.reopenFault v g).q.appended = (s.reopen v).q.appended ∧ (s.reopenFault v g).q.ack = (s.reopen v).q.ack ∧
    ∀ k, lookup (s.reopenFault v g).live k = lookup (s.reopen v).live k := by
  unfold State.reopenFault
  cases lookup s.metas g with
  | none => exact ⟨rfl, rfl, fun _ => rfl⟩
  | some _ =>
    have hq := reopen_reopen_ack s.q
    refine ⟨hq.2, hq.1, ?_⟩
    intro k
    rw [reopen_live_lookup, reopen_metas_lookup, reopen_live_lookup, reopen_metas_lookup]
    show Option.map _ (Option.map _ (lookup (s.reopenFailed v g).metas k)) = _
    have hm : lookup (s.reopenFailed v g).metas k =
        (lookup s.metas k).map (fun m => if k < g then newGroup v s.q.reopen.ack (some m) else m) :=
      lookup_map_val (fun k' (m : Meta) => if k' < g then newGroup v s.q.reopen.ack (some m) else m) s.metas k
    rw [hm]
    show Option.map _ (Option.map (fun m => newGroup v s.q.reopen.reopen.ack (some m)) _) = _
    rw [hq.1]
    cases lookup s.metas k with
    | none => rfl
    | some m =>
      simp only [Option.map_some]
      by_cases hk : k < g
      · simp only [hk, if_true, newGroup_some_idem]
      · simp only [hk, if_false]

end LinVerif.FanOut
