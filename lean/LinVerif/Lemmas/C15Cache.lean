/-
C15 — invariant of the table reader cache model (Model/TableLRU.lean) and what follows from it.
-/
import LinVerif.Model.TableLRU
set_option linter.unusedSimpArgs false
namespace LinVerif.TableLRU

theorem find_some {l : List Entry} {f : Nat} {e : Entry} (h : find l f = some e) : e ∈ l ∧ e.file = f := by
  unfold find at h
  refine ⟨List.mem_of_find?_eq_some h, ?_⟩
  have := List.find?_some h
  simpa using this

theorem find_none {l : List Entry} {f : Nat} (h : find l f = none) : ∀ b ∈ l, b.file ≠ f := by
  unfold find at h
  intro b hb
  have := List.find?_eq_none.mp h b hb
  simpa using this

theorem mem_without {l : List Entry} {f : Nat} {b : Entry} : b ∈ without l f ↔ b ∈ l ∧ b.file ≠ f := by
  simp [without, List.mem_filter]

theorem mem_addFam {fs : List (Nat × Nat)} {fam f : Nat} {p : Nat × Nat} :
    p ∈ addFam fs fam f ↔ p = (fam, f) ∨ p ∈ fs := by
  unfold addFam
  split
  · rename_i h
    constructor
    · intro hp; exact Or.inr hp
    · intro hp
      rcases hp with rfl | hp
      · simpa using h
      · exact hp
  · simp

theorem mem_delFam {fs : List (Nat × Nat)} {fam f : Nat} {p : Nat × Nat} :
    p ∈ delFam fs fam f ↔ p ∈ fs ∧ p ≠ (fam, f) := by
  simp [delFam, List.mem_filter]

/-- the invariant: at most one entry per file and per reader object; every cached reader reads the
file it is filed under, and is open; the family index knows every cached entry -/
structure Inv (c : Cache) : Prop where
  inj : ∀ a ∈ c.lru, ∀ b ∈ c.lru, (a.file = b.file ∨ a.rid = b.rid) → a = b
  reads : ∀ e ∈ c.lru, c.opened[e.rid]? = some e.file
  live : ∀ e ∈ c.lru, e.rid ∉ c.closed
  closedOld : ∀ r ∈ c.closed, r < c.opened.length
  fam : ∀ e ∈ c.lru, (e.family, e.file) ∈ c.families

theorem inv_empty : Inv {} := by
  constructor <;> simp

theorem rid_lt {c : Cache} (h : Inv c) {e : Entry} (he : e ∈ c.lru) : e.rid < c.opened.length := by
  have := h.reads e he
  obtain ⟨hlt, _⟩ := List.getElem?_eq_some_iff.mp this
  exact hlt

/-- `LRUCache.Get` + a change of the ref count: the entry moves to the front, nothing else changes -/
theorem inv_touch {c : Cache} (h : Inv c) {f : Nat} {e : Entry} (hf : find c.lru f = some e) (r : Int) :
    Inv { c with lru := { e with ref := r } :: without c.lru f } := by
  obtain ⟨hel, hef⟩ := find_some hf
  constructor
  · intro a ha b hb hab
    simp only [List.mem_cons, mem_without] at ha hb
    rcases ha with rfl | ⟨hal, haf⟩ <;> rcases hb with rfl | ⟨hbl, hbf⟩
    · rfl
    · exfalso
      have := h.inj e hel b hbl (by simpa using hab)
      subst this
      exact hbf hef
    · exfalso
      have := h.inj a hal e hel (by simpa using hab)
      subst this
      exact haf hef
    · exact h.inj a hal b hbl hab
  · intro a ha
    simp only [List.mem_cons, mem_without] at ha
    rcases ha with rfl | ⟨hal, _⟩
    · exact h.reads e hel
    · exact h.reads a hal
  · intro a ha
    simp only [List.mem_cons, mem_without] at ha
    rcases ha with rfl | ⟨hal, _⟩
    · exact h.live e hel
    · exact h.live a hal
  · exact h.closedOld
  · intro a ha
    simp only [List.mem_cons, mem_without] at ha
    rcases ha with rfl | ⟨hal, _⟩
    · exact h.fam e hel
    · exact h.fam a hal

/-- closing and forgetting one cached entry -/
theorem inv_dropEntry {c : Cache} (h : Inv c) {e : Entry} (hel : e ∈ c.lru) : Inv (c.dropEntry e) := by
  unfold Cache.dropEntry
  constructor
  · intro a ha b hb hab
    simp only [mem_without] at ha hb
    exact h.inj a ha.1 b hb.1 hab
  · intro a ha
    simp only [mem_without] at ha
    exact h.reads a ha.1
  · intro a ha
    simp only [mem_without] at ha
    simp only [List.mem_cons, not_or]
    refine ⟨?_, h.live a ha.1⟩
    intro hr
    have := h.inj a ha.1 e hel (Or.inr hr)
    subst this
    exact ha.2 rfl
  · intro r hr
    simp only [List.mem_cons] at hr
    rcases hr with rfl | hr
    · exact rid_lt h hel
    · exact h.closedOld r hr
  · intro a ha
    simp only [mem_without] at ha
    rw [mem_delFam]
    refine ⟨h.fam a ha.1, ?_⟩
    intro hp
    have : a.file = e.file := by
      have := congrArg Prod.snd hp
      simpa using this
    exact ha.2 this

theorem inv_getReader {c : Cache} (h : Inv c) (fam f : Nat) (ok : Bool) : Inv (c.getReader fam f ok).1 := by
  unfold Cache.getReader
  cases hf : find c.lru f with
  | some e => exact inv_touch h hf _
  | none =>
    cases ok with
    | false => simpa using h
    | true =>
      have hnf := find_none hf
      simp only [Bool.not_true, Bool.false_eq_true, if_false]
      constructor
      · intro a ha b hb hab
        simp only [List.mem_cons] at ha hb
        rcases ha with rfl | hal <;> rcases hb with rfl | hbl
        · rfl
        · exfalso
          rcases hab with hab | hab
          · exact hnf b hbl hab.symm
          · have := rid_lt h hbl
            simp at hab
            omega
        · exfalso
          rcases hab with hab | hab
          · exact hnf a hal hab
          · have := rid_lt h hal
            simp at hab
            omega
        · exact h.inj a hal b hbl hab
      · intro a ha
        simp only [List.mem_cons] at ha
        rcases ha with rfl | hal
        · simp
        · have hlt := rid_lt h hal
          rw [List.getElem?_append_left hlt]
          exact h.reads a hal
      · intro a ha
        simp only [List.mem_cons] at ha
        rcases ha with rfl | hal
        · intro hc
          have := h.closedOld _ hc
          simp at this
        · exact h.live a hal
      · intro r hr
        have := h.closedOld r hr
        simp only [List.length_append, List.length_cons, List.length_nil]
        omega
      · intro a ha
        simp only [List.mem_cons] at ha
        rw [mem_addFam]
        rcases ha with rfl | hal
        · exact Or.inl rfl
        · exact Or.inr (h.fam a hal)

theorem inv_release1 {c : Cache} (h : Inv c) (f : Nat) : Inv (c.release1 f) := by
  unfold Cache.release1
  cases hf : find c.lru f with
  | some e => exact inv_touch h hf _
  | none => exact h

theorem inv_release : ∀ (fs : List Nat) {c : Cache}, Inv c → Inv (c.release fs)
  | [], _, h => h
  | f :: fs, c, h => by
    unfold Cache.release
    simp only [List.foldl_cons]
    exact inv_release fs (inv_release1 h f)

theorem inv_evict {c : Cache} (h : Inv c) (f : Nat) : Inv (c.evict f) := by
  unfold Cache.evict
  cases hf : find c.lru f with
  | some e => exact inv_dropEntry h (find_some hf).1
  | none => exact h

theorem inv_walk (x : Bool) : ∀ (n : Nat) {c : Cache}, Inv c → Inv (walk x n c)
  | 0, _, h => h
  | n + 1, c, h => by
    unfold walk
    cases hl : c.lru.getLast? with
    | none => exact inv_walk x n h
    | some e =>
      simp only []
      split
      · exact inv_walk x n (inv_dropEntry h (List.mem_of_getLast? hl))
      · exact h

theorem inv_step {c : Cache} (h : Inv c) (op : Op) : Inv (c.step op) := by
  cases op with
  | get fam f ok => exact inv_getReader h fam f ok
  | release fs => exact inv_release fs h
  | evict f => exact inv_evict h f
  | cleanup x => exact inv_walk x _ h

theorem inv_run : ∀ (ops : List Op) {c : Cache}, Inv c → Inv (c.run ops)
  | [], _, h => h
  | op :: ops, c, h => by
    unfold Cache.run
    simp only [List.foldl_cons]
    exact inv_run ops (inv_step h op)

/-- what `GetReader` hands out -/
theorem getReader_spec {c : Cache} (h : Inv c) (fam f : Nat) (ok : Bool) :
    match (c.getReader fam f ok).2 with
    | some rid =>
      (c.getReader fam f ok).1.opened[rid]? = some f ∧ rid ∉ (c.getReader fam f ok).1.closed ∧
      ∃ e ∈ (c.getReader fam f ok).1.lru, e.rid = rid ∧ e.file = f
    | none => find c.lru f = none ∧ ok = false ∧ (c.getReader fam f ok).1 = c := by
  have hinv := inv_getReader h fam f ok
  unfold Cache.getReader at hinv ⊢
  cases hf : find c.lru f with
  | some e =>
    simp only [hf] at hinv ⊢
    obtain ⟨hel, hef⟩ := find_some hf
    refine ⟨?_, ?_, ⟨{ e with ref := e.ref + 1 }, by simp, rfl, hef⟩⟩
    · rw [← hef]; exact h.reads e hel
    · exact h.live e hel
  | none =>
    cases ok with
    | false => simp [hf]
    | true =>
      simp only [hf, Bool.not_true, Bool.false_eq_true, if_false] at hinv ⊢
      refine ⟨by simp, ?_, ⟨_, List.mem_cons_self, rfl, rfl⟩⟩
      intro hc
      have := h.closedOld _ hc
      simp at this

/-- `Walk` closes only entries whose ref count is 0, and keeps every entry whose count is not 0 -/
theorem walk_spec (x : Bool) : ∀ (n : Nat) {c : Cache}, Inv c →
    (∀ r ∈ (walk x n c).closed, r ∈ c.closed ∨ ∃ e ∈ c.lru, e.rid = r ∧ e.ref = 0) ∧
    (∀ e ∈ c.lru, e.ref ≠ 0 → e ∈ (walk x n c).lru) ∧
    (x = false → walk x n c = c)
  | 0, c, _ => ⟨fun r hr => Or.inl hr, fun e he _ => he, fun _ => rfl⟩
  | n + 1, c, h => by
    unfold walk
    cases hl : c.lru.getLast? with
    | none =>
      have hnil : c.lru = [] := List.getLast?_eq_none_iff.mp hl
      obtain ⟨h1, h2, h3⟩ := walk_spec x n h
      exact ⟨h1, h2, h3⟩
    | some d =>
      simp only []
      have hdl : d ∈ c.lru := List.mem_of_getLast? hl
      by_cases hcond : (d.ref == 0 && x) = true
      · rw [if_pos hcond]
        have hd0 : d.ref = 0 := by
          simp only [Bool.and_eq_true, beq_iff_eq] at hcond
          exact hcond.1
        obtain ⟨h1, h2, _⟩ := walk_spec x n (inv_dropEntry h hdl)
        refine ⟨?_, ?_, ?_⟩
        · intro r hr
          rcases h1 r hr with hc | ⟨e, he, her, he0⟩
          · simp only [Cache.dropEntry, List.mem_cons] at hc
            rcases hc with rfl | hc
            · exact Or.inr ⟨d, hdl, rfl, hd0⟩
            · exact Or.inl hc
          · simp only [Cache.dropEntry, mem_without] at he
            exact Or.inr ⟨e, he.1, her, he0⟩
        · intro e he hne
          apply h2 e _ hne
          simp only [Cache.dropEntry, mem_without]
          refine ⟨he, ?_⟩
          intro hfile
          have := h.inj e he d hdl (Or.inl hfile)
          subst this
          exact hne hd0
        · intro hx
          subst hx
          simp at hcond
      · rw [if_neg hcond]
        exact ⟨fun r hr => Or.inl hr, fun e he _ => he, fun _ => rfl⟩

end LinVerif.TableLRU
