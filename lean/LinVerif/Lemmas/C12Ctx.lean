/-
Helper lemmas for C12: the completion bookkeeping of `MetricContext.handleResponse`
(`expectResults`, `tolerantNotFounds`, `err`, `done`) and what the grouping aggregator is after
a list of responses.
-/
import LinVerif.Lemmas.C12Merge

namespace LinVerif.RootMerge

/-- the responses `handleResponse` does not ignore: decodable, no error, non-empty field specs -/
def goodPayloads (rs : List Resp) : List Payload :=
  rs.filterMap (fun r => match r with
    | .ok p => if p.specs.isEmpty then none else some p
    | _ => none)

def countNF (rs : List Resp) : Nat := rs.countP (fun r => r == .notFound)

def isFailure : Resp → Bool
  | .error => true | .bad => true | _ => false

/-- the aggregator after a list of non-ignored payloads (code variant: built from the first) -/
def aggAfter (v : Variant) : Option Agg → List Payload → Option Agg
  | o, [] => o
  | none, p :: ps => aggAfter v (some ((Agg.new p.specs p.cap).aggregateAll v p.series)) ps
  | some a, p :: ps => aggAfter v (some (a.aggregateAll v p.series)) ps

theorem absorb_expect (v : Variant) (c : Ctx) (r : Resp) : (Ctx.absorb v c r).expect = c.expect := by
  cases r with
  | ok p => simp only [Ctx.absorb]; split <;> rfl
  | notFound => simp only [Ctx.absorb]; split <;> rfl
  | error => rfl
  | bad => rfl

theorem handle_expect (v : Variant) (c : Ctx) (r : Resp) : (c.handle v r).expect = c.expect - 1 := by
  simp [Ctx.handle, absorb_expect]

theorem handleAll_expect (v : Variant) (c : Ctx) (rs : List Resp) :
    (c.handleAll v rs).expect = c.expect - rs.length := by
  induction rs generalizing c with
  | nil => simp [Ctx.handleAll]
  | cons r rs ih =>
    simp only [Ctx.handleAll, List.foldl_cons] at *
    rw [ih, handle_expect]; simp; omega

theorem handle_done (v : Variant) (c : Ctx) (r : Resp) (h : c.expect - 1 ≤ 0) :
    (c.handle v r).done = true := by
  simp [Ctx.handle, absorb_expect, h]

theorem handleAll_snoc (v : Variant) (c : Ctx) (rs : List Resp) (r : Resp) :
    c.handleAll v (rs ++ [r]) = (c.handleAll v rs).handle v r := by
  simp [Ctx.handleAll, List.foldl_append]

/-- once the last expected response has been handled the context is complete -/
theorem handleAll_done (v : Variant) (c : Ctx) (rs : List Resp) (hne : rs ≠ [])
    (h : c.expect - rs.length ≤ 0) : (c.handleAll v rs).done = true := by
  rcases List.eq_nil_or_concat rs with h0 | ⟨init, last, rfl⟩
  · exact absurd h0 hne
  · rw [List.concat_eq_append, handleAll_snoc]
    apply handle_done
    rw [handleAll_expect]
    simp at h; omega

theorem absorb_agg (v : Variant) (hv : v.mergeLaterSpecs = false) (c : Ctx) (r : Resp) :
    (Ctx.absorb v c r).agg = aggAfter v c.agg (goodPayloads [r]) := by
  cases r with
  | ok p =>
    simp only [Ctx.absorb, goodPayloads, List.filterMap_cons, List.filterMap_nil]
    by_cases hs : p.specs.isEmpty = true
    · simp [hs, aggAfter]
    · simp only [hs, hv]
      cases c.agg <;> simp [aggAfter]
  | notFound => simp only [Ctx.absorb, goodPayloads]; split <;> simp [aggAfter]
  | error => simp [Ctx.absorb, goodPayloads, aggAfter]
  | bad => simp [Ctx.absorb, goodPayloads, aggAfter]

theorem aggAfter_append (v : Variant) (o : Option Agg) (l1 l2 : List Payload) :
    aggAfter v o (l1 ++ l2) = aggAfter v (aggAfter v o l1) l2 := by
  induction l1 generalizing o with
  | nil => cases o <;> rfl
  | cons p ps ih => cases o <;> simp [aggAfter, ih]

theorem goodPayloads_append (l1 l2 : List Resp) :
    goodPayloads (l1 ++ l2) = goodPayloads l1 ++ goodPayloads l2 := by
  simp [goodPayloads, List.filterMap_append]

theorem goodPayloads_cons (r : Resp) (rs : List Resp) :
    goodPayloads (r :: rs) = goodPayloads [r] ++ goodPayloads rs := by
  rw [← goodPayloads_append]; rfl

theorem handleAll_agg (v : Variant) (hv : v.mergeLaterSpecs = false) (c : Ctx) (rs : List Resp) :
    (c.handleAll v rs).agg = aggAfter v c.agg (goodPayloads rs) := by
  induction rs generalizing c with
  | nil => cases h : c.agg <;> simp [Ctx.handleAll, goodPayloads, aggAfter, h]
  | cons r rs ih =>
    have h1 : (c.handle v r).agg = aggAfter v c.agg (goodPayloads [r]) := by
      simp only [Ctx.handle]
      exact absorb_agg v hv _ r
    have h2 : c.handleAll v (r :: rs) = (c.handle v r).handleAll v rs := rfl
    rw [h2, ih, h1, goodPayloads_cons r rs, aggAfter_append]

/-- from a fresh context: the aggregator is the first non-ignored response's specs fed with the
series of all non-ignored responses in arrival order -/
theorem aggAfter_none_cons (v : Variant) (p : Payload) (ps : List Payload) :
    aggAfter v none (p :: ps) =
      some ((Agg.new p.specs p.cap).aggregateAll v ((p :: ps).flatMap (·.series))) := by
  have key : ∀ (a : Agg) (qs : List Payload),
      aggAfter v (some a) qs = some (a.aggregateAll v (qs.flatMap (·.series))) := by
    intro a qs
    induction qs generalizing a with
    | nil => simp [aggAfter, Agg.aggregateAll]
    | cons q qs ih => simp [aggAfter, ih, List.flatMap_cons, aggregateAll_append]
  simp [aggAfter, key, List.flatMap_cons, aggregateAll_append]

/-! ### errors -/

theorem absorb_err_tolerant (v : Variant) (c : Ctx) (r : Resp) (hf : isFailure r = false) :
    (Ctx.absorb v c r).tolerant = c.tolerant - (if r = .notFound then 1 else 0) ∧
    ((Ctx.absorb v c r).err = if r = .notFound ∧ c.tolerant - 1 ≤ 0 then some .notFound else c.err) := by
  cases r with
  | ok p => simp only [Ctx.absorb]; split <;> simp
  | notFound =>
    simp only [Ctx.absorb]
    split
    · rename_i h; constructor
      · simp
      · rw [if_neg]; rintro ⟨-, h2⟩; omega
    · rename_i h; constructor
      · simp
      · rw [if_pos]; exact ⟨trivial, by omega⟩
  | error => simp [isFailure] at hf
  | bad => simp [isFailure] at hf

/-- no failing response, and not every target answered not-found: no error is recorded -/
theorem handleAll_err_none (v : Variant) (c : Ctx) (rs : List Resp)
    (hf : ∀ r ∈ rs, isFailure r = false) (he : c.err = none)
    (ht : c.tolerant - (countNF rs : Int) > 0) :
    (c.handleAll v rs).err = none ∧ (c.handleAll v rs).tolerant = c.tolerant - countNF rs := by
  induction rs generalizing c with
  | nil => simp [Ctx.handleAll, countNF, he]
  | cons r rs ih =>
    have hr := hf r List.mem_cons_self
    have hstep := absorb_err_tolerant v { c with expect := c.expect - 1 } r hr
    have hc : countNF (r :: rs) = countNF rs + (if r = .notFound then 1 else 0) := by
      simp only [countNF, List.countP_cons]
      by_cases h : r = .notFound <;> simp [h]
    simp only [Ctx.handleAll, List.foldl_cons] at *
    have ht1 : (c.handle v r).tolerant = c.tolerant - (if r = .notFound then 1 else 0) := by
      simp only [Ctx.handle]; exact hstep.1
    have he1 : (c.handle v r).err = none := by
      simp only [Ctx.handle]
      rw [hstep.2, if_neg]
      · exact he
      · rintro ⟨h1, h2⟩
        rw [hc] at ht; simp only [h1, if_true] at ht; push_cast at ht; omega
    have := ih (c.handle v r) (fun x hx => hf x (List.mem_cons_of_mem _ hx)) he1 (by
      rw [ht1]; rw [hc] at ht; push_cast at ht ⊢; split at ht <;> simp_all <;> omega)
    refine ⟨this.1, ?_⟩
    rw [this.2, ht1, hc]; push_cast; split <;> omega

end LinVerif.RootMerge

namespace LinVerif.RootMerge

/-! ### not-found responses do not touch the data part -/

/-- the part of the context that data responses build -/
def Ctx.data (c : Ctx) : Option Agg × Nat × List Spec := (c.agg, c.hdrCap, c.allSpecs)

theorem handle_data_notFound (v : Variant) (c : Ctx) : (c.handle v .notFound).data = c.data := by
  simp only [Ctx.handle, Ctx.absorb, Ctx.data]
  split <;> rfl

theorem handle_data_congr (v : Variant) (c c' : Ctx) (r : Resp) (h : c.data = c'.data) :
    (c.handle v r).data = (c'.handle v r).data := by
  simp only [Ctx.data, Prod.mk.injEq] at h
  obtain ⟨h1, h2, h3⟩ := h
  cases r with
  | ok p =>
    simp only [Ctx.handle, Ctx.absorb, Ctx.data]
    by_cases hs : p.specs.isEmpty = true
    · simp [hs, h1, h2, h3]
    · simp [hs, h1, h3]
  | notFound => rw [handle_data_notFound, handle_data_notFound]; simp [Ctx.data, h1, h2, h3]
  | error => simp [Ctx.handle, Ctx.absorb, Ctx.data, h1, h2, h3]
  | bad => simp [Ctx.handle, Ctx.absorb, Ctx.data, h1, h2, h3]

theorem handleAll_cons (v : Variant) (c : Ctx) (r : Resp) (rs : List Resp) :
    c.handleAll v (r :: rs) = (c.handle v r).handleAll v rs := rfl

/-- dropping the not-found responses does not change what the data responses build -/
theorem handleAll_data_filter (v : Variant) (c c' : Ctx) (rs : List Resp) (h : c.data = c'.data) :
    (c.handleAll v rs).data = (c'.handleAll v (rs.filter (fun r => r != .notFound))).data := by
  induction rs generalizing c c' with
  | nil => exact h
  | cons r rs ih =>
    by_cases hr : r = .notFound
    · subst hr
      rw [handleAll_cons]
      have : (Resp.notFound :: rs).filter (fun r => r != .notFound) = rs.filter (fun r => r != .notFound) := by
        simp
      rw [this]
      exact ih _ _ ((handle_data_notFound v c).trans h)
    · have : (r :: rs).filter (fun r => r != .notFound) = r :: rs.filter (fun r => r != .notFound) := by
        simp [hr]
      rw [this, handleAll_cons, handleAll_cons]
      exact ih _ _ (handle_data_congr v c c' r h)

theorem countNF_cons' (r : Resp) (rs : List Resp) :
    countNF (r :: rs) = countNF rs + (if r = .notFound then 1 else 0) := by
  simp only [countNF, List.countP_cons]
  by_cases h : r = .notFound <;> simp [h]

theorem countNF_filter_ne (rs : List Resp) : countNF (rs.filter (fun r => r != .notFound)) = 0 := by
  simp [countNF, List.countP_filter]

theorem countNF_lt_of_exists (rs : List Resp) (h : ∃ r ∈ rs, r ≠ .notFound) : countNF rs < rs.length := by
  induction rs with
  | nil => obtain ⟨r, hr, -⟩ := h; cases hr
  | cons x xs ih =>
    rw [countNF_cons', List.length_cons]
    by_cases hx : x = .notFound
    · rw [if_pos hx]
      obtain ⟨r, hr, hne⟩ := h
      rcases List.mem_cons.mp hr with rfl | hr
      · exact absurd hx hne
      · have := ih ⟨r, hr, hne⟩; omega
    · rw [if_neg hx]
      have : countNF xs ≤ xs.length := List.countP_le_length
      omega

/-- every target answers not-found: the last one turns into the error -/
theorem handleAll_allNotFound (v : Variant) (k : Nat) (c : Ctx) (he : c.err = none) (ht : c.tolerant = (k + 1 : Nat)) :
    (c.handleAll v (List.replicate (k + 1) .notFound)).err = some .notFound := by
  induction k generalizing c with
  | zero =>
    simp only [Ctx.handleAll, List.replicate, List.foldl, Ctx.handle, Ctx.absorb]
    rw [if_neg (by simp [ht])]
  | succ k ih =>
    rw [List.replicate_succ, handleAll_cons]
    apply ih
    · simp only [Ctx.handle, Ctx.absorb]
      rw [if_pos (by rw [ht]; push_cast; omega)]
      exact he
    · simp only [Ctx.handle, Ctx.absorb]
      rw [if_pos (by rw [ht]; push_cast; omega)]
      simp [ht]

theorem absorb_done (v : Variant) (c : Ctx) (r : Resp) : (Ctx.absorb v c r).done = c.done := by
  cases r with
  | ok p => simp only [Ctx.absorb]; split <;> rfl
  | notFound => simp only [Ctx.absorb]; split <;> rfl
  | error => rfl
  | bad => rfl

theorem handle_done_mono (v : Variant) (c : Ctx) (r : Resp) (h : c.done = true) :
    (c.handle v r).done = true := by
  simp [Ctx.handle, absorb_done, h]

/-- once an error is recorded it stays recorded (the kind may change) -/
theorem handle_err_isSome (v : Variant) (c : Ctx) (r : Resp) (h : c.err.isSome = true) :
    (c.handle v r).err.isSome = true := by
  cases r with
  | ok p => simp only [Ctx.handle, Ctx.absorb]; split <;> simpa using h
  | notFound => simp only [Ctx.handle, Ctx.absorb]; split <;> simp [h]
  | error => rfl
  | bad => rfl

end LinVerif.RootMerge
