/-
C15 — lemmas about opening an ARBITRARY byte string as a table (`newMMapStoreReader` + `initialize`):
the named-error form `openE` agrees with `open`; what a successful open has validated; what the
lookups of an opened reader can deliver; short truncations of a finished table are always refused.
-/
import LinVerif.Lemmas.C15Table
set_option linter.unusedSimpArgs false
namespace LinVerif.Table

variable {B : Type}

/-- forgetting which error it was -/
def okOf {α : Type} : Except OpenErr α → Option α
  | .ok a => some a
  | .error _ => none

/-- `Reader.open` is `Reader.openE` with the error kind forgotten -/
theorem open_eq_openE (K : KeySetOps B) (full : Bytes) :
    Reader.open K full = okOf (Reader.openE K full) := by
  unfold Reader.open Reader.openE footerPos
  by_cases h1 : full.length < sstFileFooterSize
  · rw [if_pos h1, if_pos h1]; rfl
  · rw [if_neg h1, if_neg h1]
    by_cases h2 : leVal ((full.drop (full.length - sstFileFooterSize + magicNumberAtFooter)).take 8) ≠
        magicNumberOffsetFile
    · simp only []
      rw [if_pos h2, if_pos h2]; rfl
    · simp only []
      rw [if_neg h2, if_neg h2]
      split
      · rfl
      · generalize FixedOffset.Dec.fresh.unmarshal _ = u
        obtain ⟨e, dec⟩ := u
        cases e with
        | error _ => rfl
        | ok _ =>
          simp only []
          generalize K.unmarshal _ = ku
          cases ku with
          | none => rfl
          | some keys =>
            simp only []
            split <;> rfl

/-- everything a successful open has checked: the file has a footer, the magic matches, the two
positions are ordered and end before the footer — so every slice expression of `initialize`
(`fullBlock[posOfOffset:posOfKeys]`, `fullBlock[posOfKeys:]`, `fullBlock[:posOfOffset]`) is in
bounds — the offsets section unmarshals, the key section unmarshals, and both have the same count. -/
theorem open_sound (K : KeySetOps B) (full : Bytes) (r : Reader B) (h : Reader.open K full = some r) :
    sstFileFooterSize ≤ full.length ∧
    leVal ((full.drop (full.length - sstFileFooterSize + magicNumberAtFooter)).take 8) = magicNumberOffsetFile ∧
    (footerPos full).1 ≤ (footerPos full).2 ∧ (footerPos full).2 ≤ full.length - sstFileFooterSize ∧
    r.entries = full.take (footerPos full).1 ∧
    (∃ left, FixedOffset.Dec.fresh.unmarshal ((full.take (footerPos full).2).drop (footerPos full).1) =
      (.ok left, r.offsets)) ∧
    K.unmarshal (full.drop (footerPos full).2) = some r.keys ∧
    r.offsets.sizeOf = (K.card r.keys : Int) := by
  unfold Reader.open at h
  by_cases h1 : full.length < sstFileFooterSize
  · simp [h1] at h
  · rw [if_neg h1] at h
    by_cases h2 : leVal ((full.drop (full.length - sstFileFooterSize + magicNumberAtFooter)).take 8) ≠
        magicNumberOffsetFile
    · simp only [] at h
      rw [if_pos h2] at h
      simp at h
    · simp only [] at h
      rw [if_neg h2] at h
      by_cases h3 : leVal ((full.drop (full.length - sstFileFooterSize)).take 4) ≤
            leVal ((full.drop (full.length - sstFileFooterSize + 4)).take 4) ∧
          leVal ((full.drop (full.length - sstFileFooterSize + 4)).take 4) ≤ full.length - sstFileFooterSize
      · rw [if_neg (not_not_intro h3)] at h
        generalize hu : FixedOffset.Dec.fresh.unmarshal _ = u at h
        obtain ⟨e, dec⟩ := u
        cases e with
        | error _ => simp at h
        | ok left =>
          simp only [] at h
          generalize hk : K.unmarshal _ = ku at h
          cases ku with
          | none => simp at h
          | some keys =>
            simp only [] at h
            by_cases hc : dec.sizeOf ≠ (K.card keys : Int)
            · rw [if_pos hc] at h
              simp at h
            · rw [if_neg hc] at h
              have hr := (Option.some.inj h).symm
              subst hr
              exact ⟨by omega, by simpa using h2, h3.1, h3.2, rfl, ⟨left, hu⟩, hk, by simpa using hc⟩
      · rw [if_pos h3] at h
        simp at h

/-- a block handed out by `GetBlock` is a contiguous piece of the data block it was given -/
theorem getBlock_infix (d : FixedOffset.Dec) (i : Int) (data v : Bytes)
    (h : d.getBlock i data = .ok v) : v <:+: data := by
  unfold FixedOffset.Dec.getBlock at h
  cases hg : d.get i with
  | none => simp [hg] at h
  | some s =>
    simp only [hg] at h
    split at h
    · simp at h
    · injection h with h
      subst h
      exact (List.drop_suffix _ _).isInfix.trans (List.take_prefix _ _).isInfix

/-- whatever `Get` delivers is a contiguous piece of the reader's entries block -/
theorem get_infix (K : KeySetOps B) (r : Reader B) (key : Nat) (v : Bytes)
    (h : r.get K key = .ok v) : v <:+: r.entries := by
  unfold Reader.get at h
  split at h
  · simp at h
  · cases hg : r.offsets.getBlock ((K.rank r.keys key : Int) - 1) r.entries with
    | error _ => simp [hg] at h
    | ok w =>
      simp only [hg] at h
      injection h with h
      subst h
      exact getBlock_infix _ _ _ _ hg

/-- whatever the iterator's `Value()` delivers is a contiguous piece of the entries block
(nil when `getBlock` fails: the error is dropped by `block, _ :=`) -/
theorem valueAt_infix (r : Reader B) (i : Nat) : r.valueAt i <:+: r.entries := by
  unfold Reader.valueAt
  cases hg : r.offsets.getBlock (i : Int) r.entries with
  | error _ => exact List.nil_infix
  | ok w => exact getBlock_infix _ _ _ _ hg

/-! ## short truncations -/

/-- the window `initialize` compares with the magic number when the last n bytes (1 ≤ n ≤ 8) of a
finished table are missing: it contains the footer's version byte (0) at a position where the
magic number has a non-zero byte -/
theorem footer_window_ne_magic (p1 p2 n : Nat) (h1 : 1 ≤ n) (h8 : n ≤ 8) :
    leVal ((((footer p1 p2).take (17 - n)).drop (9 - n)).take 8) ≠ magicNumberOffsetFile := by
  have hcases : n = 1 ∨ n = 2 ∨ n = 3 ∨ n = 4 ∨ n = 5 ∨ n = 6 ∨ n = 7 ∨ n = 8 := by omega
  rcases hcases with rfl | rfl | rfl | rfl | rfl | rfl | rfl | rfl <;>
    simp [footer, leBytes, leVal, magicNumberOffsetFile, version0] <;>
    omega

/-- **a finished table with its last 1..8 bytes missing is never opened.** Either it is now shorter
than a footer, or the eight bytes where the magic number is looked for are not the magic number. -/
theorem open_truncated_tail (K : KeySetOps B) (body : Bytes) (p1 p2 n : Nat) (h1 : 1 ≤ n) (h8 : n ≤ 8) :
    Reader.open K ((body ++ footer p1 p2).take ((body ++ footer p1 p2).length - n)) = none := by
  have hfl : (footer p1 p2).length = 17 := footer_length p1 p2
  by_cases hshort : body.length < n
  · unfold Reader.open
    have : ((body ++ footer p1 p2).take ((body ++ footer p1 p2).length - n)).length < sstFileFooterSize := by
      simp only [List.length_take, List.length_append, hfl, sstFileFooterSize]; omega
    rw [if_pos this]
  · apply open_refuses_bad_magic
    have hfull : (body ++ footer p1 p2).take ((body ++ footer p1 p2).length - n) =
        body ++ (footer p1 p2).take (17 - n) := by
      have : (body ++ footer p1 p2).length - n = body.length + (17 - n) := by
        rw [List.length_append, hfl]; omega
      rw [this, List.take_length_add_append]
    rw [hfull]
    have hidx : (body ++ (footer p1 p2).take (17 - n)).length - sstFileFooterSize + magicNumberAtFooter =
        body.length + (9 - n) := by
      simp only [List.length_append, List.length_take, hfl, sstFileFooterSize, magicNumberAtFooter]; omega
    rw [hidx, List.drop_length_add_append]
    exact footer_window_ne_magic p1 p2 n h1 h8

/-! ## several tables, each written by the builder -/

/-- reader `r` is the opened file of a table built from `items` -/
def BuiltAs (K : KeySetOps B) (items : List Put) (r : Reader B) : Prop :=
  ∃ b file, Builder.run K (Builder.init K) (items.flatMap Put.ops) = some b ∧
    b.close K = some file ∧ Reader.open K file = some r

/-- the builder's preconditions on one table's items (non-empty, uint32 keys, 32-bit footer positions) -/
def ItemsOK (items : List Put) : Prop :=
  items ≠ [] ∧ (∀ it ∈ items, it.entry.1 < 4294967296) ∧ SizeOK (accepted (items.map Put.entry))

theorem iterate_of_builtAs {K : KeySetOps B} (hK : K.Lawful) (items : List Put) (r : Reader B)
    (hok : ItemsOK items) (h : BuiltAs K items r) :
    r.iterate K = accepted (items.map Put.entry) ∧
    ((accepted (items.map Put.entry)).map (·.1)).Pairwise (· < ·) := by
  obtain ⟨b, file, h1, h2, h3⟩ := h
  obtain ⟨b', hrun, _, hrest⟩ := build_ok hK items
  obtain ⟨file', r', hclose, hopen, hrepr⟩ := hrest hok.1 hok.2.1 hok.2.2
  rw [h1] at hrun
  cases hrun
  rw [h2] at hclose
  cases hclose
  rw [h3] at hopen
  cases hopen
  exact ⟨iterate_eq hrepr, hrepr.asc⟩

/-- the i-th reader is the opened file of the i-th table, for all i (same number of both) -/
def AllBuiltAs (K : KeySetOps B) : List (List Put) → List (Reader B) → Prop
  | [], [] => True
  | t :: ts, r :: rs => BuiltAs K t r ∧ AllBuiltAs K ts rs
  | [], _ :: _ => False
  | _ :: _, [] => False

theorem iterate_map_of_built {K : KeySetOps B} (hK : K.Lawful) :
    ∀ (tables : List (List Put)) (readers : List (Reader B)),
      (∀ items ∈ tables, ItemsOK items) → AllBuiltAs K tables readers →
      readers.map (fun r => r.iterate K) = tables.map (fun items => accepted (items.map Put.entry))
  | [], [], _, _ => rfl
  | t :: ts, r :: rs, hok, hb => by
    obtain ⟨h1, h2⟩ := hb
    simp only [List.map_cons]
    rw [(iterate_of_builtAs hK t r (hok t (by simp)) h1).1,
      iterate_map_of_built hK ts rs (fun i hi => hok i (List.mem_cons_of_mem _ hi)) h2]
  | [], _ :: _, _, hb => by cases hb
  | _ :: _, [], _, hb => by cases hb

end LinVerif.Table
