/-
C10 helper lemmas, part 4: forward files (containers, the reader's lookup table), the placement
steps (PrepareFlush / Flush / compaction) keep every view, and the invariant of whole histories.
-/
import LinVerif.Lemmas.C10Write

set_option linter.unusedSimpArgs false
set_option linter.unusedVariables false

namespace LinVerif.TagFilter
open LinVerif

/-! ### containers -/

/-- high keys strictly ascending (roaring's container order) -/
def highsAsc (cs : List Container) : Prop := cs.Pairwise (fun a b => a.1 < b.1)

theorem mem_insLow {low : Nat} {v : ValId} {es : List (Nat × ValId)} {x : Nat × ValId} :
    x ∈ insLow low v es ↔ x = (low, v) ∨ x ∈ es := by
  induction es with
  | nil => simp [insLow]
  | cons e t ih =>
    obtain ⟨l, w⟩ := e
    by_cases h : low < l
    · simp [insLow, h]
    · simp only [insLow, h, ite_false, List.mem_cons, ih]
      constructor
      · rintro (h1 | h1 | h1)
        · exact Or.inr (Or.inl h1)
        · exact Or.inl h1
        · exact Or.inr (Or.inr h1)
      · rintro (h1 | h1 | h1)
        · exact Or.inr (Or.inl h1)
        · exact Or.inl h1
        · exact Or.inr (Or.inr h1)

theorem mem_containerEntries {c : Container} {sv : SeriesId × ValId} :
    sv ∈ containerEntries c ↔ ∃ lv ∈ c.2, sv = (c.1 * 65536 + lv.1, lv.2) := by
  unfold containerEntries
  simp only [List.mem_map]
  constructor
  · rintro ⟨lv, h, rfl⟩; exact ⟨lv, h, rfl⟩
  · rintro ⟨lv, h, rfl⟩; exact ⟨lv, h, rfl⟩

theorem mem_insContainer_entries {high low : Nat} {v : ValId} {cs : List Container} {sv : SeriesId × ValId} :
    sv ∈ (insContainer high low v cs).flatMap containerEntries ↔
      sv = (high * 65536 + low, v) ∨ sv ∈ cs.flatMap containerEntries := by
  induction cs with
  | nil => simp [insContainer, containerEntries]
  | cons c t ih =>
    obtain ⟨h, es⟩ := c
    by_cases h1 : high < h
    · simp [insContainer, h1, containerEntries]
    · by_cases h2 : high = h
      · subst h2
        simp only [insContainer, h1, ite_false, ite_true, List.flatMap_cons, List.mem_append, mem_containerEntries,
          mem_insLow]
        constructor
        · rintro (⟨lv, (rfl | hlv), rfl⟩ | hr)
          · exact Or.inl rfl
          · exact Or.inr (Or.inl ⟨lv, hlv, rfl⟩)
          · exact Or.inr (Or.inr hr)
        · rintro (rfl | ⟨lv, hlv, rfl⟩ | hr)
          · exact Or.inl ⟨(low, v), Or.inl rfl, rfl⟩
          · exact Or.inl ⟨lv, Or.inr hlv, rfl⟩
          · exact Or.inr hr
      · simp only [insContainer, h1, h2, ite_false, List.flatMap_cons, List.mem_append, ih]
        constructor
        · rintro (hl | rfl | hr)
          · exact Or.inr (Or.inl hl)
          · exact Or.inl rfl
          · exact Or.inr (Or.inr hr)
        · rintro (rfl | hl | hr)
          · exact Or.inr (Or.inl rfl)
          · exact Or.inl hl
          · exact Or.inr (Or.inr hr)

theorem insContainer_highs {high low : Nat} {v : ValId} {cs : List Container} :
    ∀ c ∈ insContainer high low v cs, c.1 = high ∨ ∃ c' ∈ cs, c'.1 = c.1 := by
  induction cs with
  | nil => intro c hc; simp [insContainer] at hc; subst hc; exact Or.inl rfl
  | cons c0 t ih =>
    obtain ⟨h, es⟩ := c0
    intro c hc
    by_cases h1 : high < h
    · simp only [insContainer, h1, ite_true, List.mem_cons] at hc
      rcases hc with rfl | rfl | hc
      · exact Or.inl rfl
      · exact Or.inr ⟨(h, es), List.mem_cons_self, rfl⟩
      · exact Or.inr ⟨c, List.mem_cons_of_mem _ hc, rfl⟩
    · by_cases h2 : high = h
      · subst h2
        simp only [insContainer, h1, ite_false, ite_true, List.mem_cons] at hc
        rcases hc with rfl | hc
        · exact Or.inl rfl
        · exact Or.inr ⟨c, List.mem_cons_of_mem _ hc, rfl⟩
      · simp only [insContainer, h1, h2, ite_false, List.mem_cons] at hc
        rcases hc with rfl | hc
        · exact Or.inr ⟨(h, es), List.mem_cons_self, rfl⟩
        · rcases ih c hc with h3 | ⟨c', hc', h3⟩
          · exact Or.inl h3
          · exact Or.inr ⟨c', List.mem_cons_of_mem _ hc', h3⟩

theorem insContainer_asc {high low : Nat} {v : ValId} {cs : List Container} (h : highsAsc cs) :
    highsAsc (insContainer high low v cs) := by
  induction cs with
  | nil => simp [insContainer, highsAsc]
  | cons c0 t ih =>
    obtain ⟨h0, es⟩ := c0
    unfold highsAsc at h ⊢
    rw [List.pairwise_cons] at h
    by_cases h1 : high < h0
    · simp only [insContainer, h1, ite_true]
      rw [List.pairwise_cons]
      refine ⟨?_, List.pairwise_cons.mpr h⟩
      intro c hc
      rcases List.mem_cons.mp hc with rfl | hc
      · exact h1
      · exact Nat.lt_trans h1 (h.1 c hc)
    · by_cases h2 : high = h0
      · subst h2
        simp only [insContainer, h1, ite_false, ite_true]
        rw [List.pairwise_cons]
        exact ⟨h.1, h.2⟩
      · simp only [insContainer, h1, h2, ite_false]
        rw [List.pairwise_cons]
        refine ⟨?_, ih h.2⟩
        intro c hc
        rcases insContainer_highs c hc with h3 | ⟨c', hc', h3⟩
        · rw [h3]; omega
        · rw [← h3]; exact h.1 c' hc'

/-- the entries of one key's containers as forward triples -/
def keyEntries (kc : KeyId × List Container) : FwdPart :=
  kc.2.flatMap (fun c => (containerEntries c).map (fun sv => (kc.1, sv.1, sv.2)))

theorem fileEntries_eq (f : FwdFile) : fileEntries f = f.flatMap keyEntries := rfl

theorem fileEntries_cons (kc : KeyId × List Container) (t : FwdFile) :
    fileEntries (kc :: t) = keyEntries kc ++ fileEntries t := by
  simp [fileEntries, keyEntries]

theorem flatMap_congr' {α β : Type} {l : List α} {f g : α → List β} (h : ∀ a ∈ l, f a = g a) :
    l.flatMap f = l.flatMap g := by
  induction l with
  | nil => rfl
  | cons a t ih =>
    simp only [List.flatMap_cons]
    rw [h a List.mem_cons_self, ih (fun b hb => h b (List.mem_cons_of_mem _ hb))]

theorem mem_keyEntries {kc : KeyId × List Container} {e : KeyId × SeriesId × ValId} :
    e ∈ keyEntries kc ↔ e.1 = kc.1 ∧ (e.2.1, e.2.2) ∈ kc.2.flatMap containerEntries := by
  unfold keyEntries
  simp only [List.mem_flatMap, List.mem_map]
  constructor
  · rintro ⟨c, hc, sv, hsv, rfl⟩; exact ⟨rfl, c, hc, hsv⟩
  · rintro ⟨h1, c, hc, hsv⟩
    obtain ⟨a, b, d⟩ := e
    simp at h1 hsv; subst h1
    exact ⟨c, hc, (b, d), hsv, rfl⟩

theorem mem_insKey {kid : KeyId} {s : SeriesId} {v : ValId} {f : FwdFile} {e : KeyId × SeriesId × ValId} :
    e ∈ fileEntries (insKey kid s v f) ↔ e = (kid, s, v) ∨ e ∈ fileEntries f := by
  have hs : s / 65536 * 65536 + s % 65536 = s := Nat.div_add_mod' s 65536
  induction f with
  | nil =>
    simp only [insKey, fileEntries_eq, List.flatMap_cons, List.flatMap_nil, List.append_nil, mem_keyEntries,
      mem_insContainer_entries, hs]
    obtain ⟨a, b, c⟩ := e
    simp
  | cons kc t ih =>
    obtain ⟨k, cs⟩ := kc
    by_cases hk : k = kid
    · subst hk
      simp only [insKey, ite_true, fileEntries_eq, List.flatMap_cons, List.mem_append, mem_keyEntries,
        mem_insContainer_entries, hs]
      obtain ⟨a, b, c⟩ := e
      simp only [Prod.mk.injEq]
      constructor
      · rintro (⟨h1, (⟨h2, h3⟩ | h2)⟩ | h2)
        · exact Or.inl ⟨h1, h2, h3⟩
        · exact Or.inr (Or.inl ⟨h1, h2⟩)
        · exact Or.inr (Or.inr h2)
      · rintro (⟨h1, h2, h3⟩ | ⟨h1, h2⟩ | h2)
        · exact Or.inl ⟨h1, Or.inl ⟨h2, h3⟩⟩
        · exact Or.inl ⟨h1, Or.inr h2⟩
        · exact Or.inr h2
    · simp only [insKey, hk, ite_false]
      rw [fileEntries_cons, fileEntries_cons, List.mem_append, List.mem_append]
      constructor
      · rintro (h1 | h1)
        · exact Or.inr (Or.inl h1)
        · rcases ih.mp h1 with h1 | h1
          · exact Or.inl h1
          · exact Or.inr (Or.inr h1)
      · rintro (h1 | h1 | h1)
        · exact Or.inr (ih.mpr (Or.inl h1))
        · exact Or.inl h1
        · exact Or.inr (ih.mpr (Or.inr h1))

theorem mem_foldl_insKey (p : FwdPart) (f : FwdFile) (e : KeyId × SeriesId × ValId) :
    e ∈ fileEntries (p.foldl (fun f x => insKey x.1 x.2.1 x.2.2 f) f) ↔ e ∈ p ∨ e ∈ fileEntries f := by
  induction p generalizing f with
  | nil => simp
  | cons x t ih =>
    simp only [List.foldl_cons, ih, mem_insKey, List.mem_cons]
    constructor
    · rintro (h | h | h)
      · exact Or.inl (Or.inr h)
      · exact Or.inl (Or.inl h)
      · exact Or.inr h
    · rintro ((h | h) | h)
      · exact Or.inr (Or.inl h)
      · exact Or.inl h
      · exact Or.inr (Or.inr h)

/-- a flushed / merged forward file stores exactly the entries it was built from -/
theorem mem_buildFwdFile {p : FwdPart} {e : KeyId × SeriesId × ValId} :
    e ∈ fileEntries (buildFwdFile p) ↔ e ∈ p := by
  unfold buildFwdFile
  rw [mem_foldl_insKey]
  simp [fileEntries]

/-- what the reader needs of one key's containers: ascending high keys, and — while the lookup table
is not cumulative — only high keys 0 and 1 -/
def ContainersOK (cum : Bool) (cs : List Container) : Prop :=
  highsAsc cs ∧ (cum = false → ∀ c ∈ cs, c.1 < 2) ∧ (∀ c ∈ cs, ∀ lv ∈ c.2, lv.1 < 65536)

theorem insContainer_lows {high low : Nat} {v : ValId} {cs : List Container} (hl : low < 65536)
    (h : ∀ c ∈ cs, ∀ lv ∈ c.2, lv.1 < 65536) : ∀ c ∈ insContainer high low v cs, ∀ lv ∈ c.2, lv.1 < 65536 := by
  induction cs with
  | nil =>
    intro c hc lv hlv
    simp [insContainer] at hc; subst hc
    simp at hlv; subst hlv; exact hl
  | cons c0 t ih =>
    obtain ⟨h0, es⟩ := c0
    have h0' := h (h0, es) List.mem_cons_self
    have ht : ∀ c ∈ t, ∀ lv ∈ c.2, lv.1 < 65536 := fun c hc => h c (List.mem_cons_of_mem _ hc)
    intro c hc lv hlv
    by_cases h1 : high < h0
    · simp only [insContainer, h1, ite_true, List.mem_cons] at hc
      rcases hc with rfl | rfl | hc
      · simp at hlv; subst hlv; exact hl
      · exact h0' lv hlv
      · exact ht c hc lv hlv
    · by_cases h2 : high = h0
      · subst h2
        simp only [insContainer, h1, ite_false, ite_true, List.mem_cons] at hc
        rcases hc with rfl | hc
        · rcases mem_insLow.mp hlv with rfl | hlv
          · exact hl
          · exact h0' lv hlv
        · exact ht c hc lv hlv
      · simp only [insContainer, h1, h2, ite_false, List.mem_cons] at hc
        rcases hc with rfl | hc
        · exact h0' lv hlv
        · exact ih ht c hc lv hlv

def FileOK (cum : Bool) (f : FwdFile) : Prop := ∀ kc ∈ f, ContainersOK cum kc.2

theorem insKey_ok {cum : Bool} {kid : KeyId} {s : SeriesId} {v : ValId} {f : FwdFile} (h : FileOK cum f)
    (hs : cum = false → (s : Nat) < 131072) : FileOK cum (insKey kid s v f) := by
  induction f with
  | nil =>
    intro kc hkc
    simp [insKey] at hkc
    subst hkc
    refine ⟨by simp [insContainer, highsAsc], ?_, insContainer_lows (Nat.mod_lt _ (by decide)) (fun c hc => by cases hc)⟩
    intro hc c hcm
    simp [insContainer] at hcm
    subst hcm
    have := hs hc
    show (s : Nat) / 65536 < 2
    try dsimp only [SeriesId] at *
    omega
  | cons kc0 t ih =>
    obtain ⟨k, cs⟩ := kc0
    have h0 := h (k, cs) List.mem_cons_self
    have ht : FileOK cum t := fun kc hkc => h kc (List.mem_cons_of_mem _ hkc)
    by_cases hk : k = kid
    · subst hk
      intro kc hkc
      simp only [insKey, ite_true, List.mem_cons] at hkc
      rcases hkc with rfl | hkc
      · refine ⟨insContainer_asc h0.1, ?_, insContainer_lows (Nat.mod_lt _ (by decide)) h0.2.2⟩
        intro hc c hcm
        rcases insContainer_highs c hcm with h3 | ⟨c', hc', h3⟩
        · rw [h3]; have := hs hc; try dsimp only [SeriesId] at *
          omega
        · rw [← h3]; exact h0.2.1 hc c' hc'
      · exact ht kc hkc
    · intro kc hkc
      simp only [insKey, hk, ite_false, List.mem_cons] at hkc
      rcases hkc with rfl | hkc
      · exact h0
      · exact ih ht kc hkc

theorem buildFwdFile_ok {cum : Bool} (p : FwdPart) (hs : cum = false → ∀ e ∈ p, (e.2.1 : Nat) < 131072) :
    FileOK cum (buildFwdFile p) := by
  unfold buildFwdFile
  have : ∀ (f : FwdFile), FileOK cum f → FileOK cum (p.foldl (fun f x => insKey x.1 x.2.1 x.2.2 f) f) := by
    induction p with
    | nil => intro f hf; simpa using hf
    | cons x t ih =>
      intro f hf
      simp only [List.foldl_cons]
      apply ih (fun hc e he => hs hc e (List.mem_cons_of_mem _ he))
      exact insKey_ok hf (fun hc => hs hc x List.mem_cons_self)
  exact this [] (fun kc hkc => by cases hkc)

/-! ### the reader -/

theorem zip_fst_snd {α β : Type} (l : List (α × β)) : (l.map (·.1)).zip (l.map (·.2)) = l := by
  induction l with
  | nil => rfl
  | cons x t ih => simp [ih]

theorem readFrom_cum (allVals done : List ValId) (cs : List Container) (hasc : highsAsc cs)
    (hall : allVals = done ++ cs.flatMap (fun c => c.2.map (·.2))) :
    (∀ c ∈ cs, readFrom true allVals c.1 done.length cs = some c.2) ∧
    (∀ h, (∀ c ∈ cs, c.1 ≠ h) → readFrom true allVals h done.length cs = none) := by
  induction cs generalizing done with
  | nil => exact ⟨fun c hc => (by cases hc), fun h _ => rfl⟩
  | cons c0 t ih =>
    unfold highsAsc at hasc
    rw [List.pairwise_cons] at hasc
    have hall' : allVals = (done ++ c0.2.map (·.2)) ++ t.flatMap (fun c => c.2.map (·.2)) := by
      rw [hall]; simp
    have hlen : (done ++ c0.2.map (·.2)).length = done.length + c0.2.length := by simp
    obtain ⟨ih1, ih2⟩ := ih (done ++ c0.2.map (·.2)) hasc.2 hall'
    rw [hlen] at ih1 ih2
    constructor
    · intro c hc
      rcases List.mem_cons.mp hc with rfl | hc
      · simp only [readFrom, beq_self_eq_true, ite_true]
        have : (allVals.drop done.length).take c.2.length = c.2.map (·.2) := by
          rw [hall, List.drop_left']
          · rw [List.flatMap_cons, List.take_left']
            simp
          · rfl
        rw [this, zip_fst_snd]
      · have hne : (c0.1 == c.1) = false := by
          have := hasc.1 c hc
          simp; omega
        simp only [readFrom, hne, ite_true]
        exact ih1 c hc
    · intro h hh
      have hne : (c0.1 == h) = false := by
        have := hh c0 List.mem_cons_self
        simpa using this
      simp only [readFrom, hne, ite_true]
      exact ih2 h (fun c hc => hh c (List.mem_cons_of_mem _ hc))

/-- within two containers the non-cumulative table agrees with the cumulative one -/
theorem readFrom_two (allVals : List ValId) (h : Nat) (cs : List Container) (hlen : cs.length ≤ 2) :
    readFrom false allVals h 0 cs = readFrom true allVals h 0 cs := by
  match cs with
  | [] => rfl
  | [a] => simp [readFrom]
  | [a, b] => simp [readFrom]
  | a :: b :: c :: t => simp at hlen

theorem asc_bounded_length {cs : List Container} (hasc : highsAsc cs) (hb : ∀ c ∈ cs, c.1 < 2) : cs.length ≤ 2 := by
  match cs with
  | [] => simp
  | [a] => simp
  | [a, b] => simp
  | a :: b :: c :: t =>
    exfalso
    unfold highsAsc at hasc
    rw [List.pairwise_cons] at hasc
    have h1 := hasc.1 b (by simp)
    have h2 := hasc.2
    rw [List.pairwise_cons] at h2
    have h3 := h2.1 c (by simp)
    have h4 := hb c (by simp)
    omega

/-- `GetSeriesAndTagValue(high)` returns the container's own (low key, value id) pairs -/
theorem readContainer_spec {cum : Bool} {cs : List Container} (hok : ContainersOK cum cs) :
    (∀ c ∈ cs, readContainer cum cs c.1 = some c.2) ∧
    (∀ h, (∀ c ∈ cs, c.1 ≠ h) → readContainer cum cs h = none) := by
  have hc := readFrom_cum (cs.flatMap (fun c => c.2.map (·.2))) [] cs hok.1 (by simp)
  simp only [List.length_nil] at hc
  cases cum with
  | true => exact hc
  | false =>
    have hlen := asc_bounded_length hok.1 (hok.2.1 rfl)
    unfold readContainer
    constructor
    · intro c hcm; rw [readFrom_two _ _ _ hlen]; exact hc.1 c hcm
    · intro h hh; rw [readFrom_two _ _ _ hlen]; exact hc.2 h hh

theorem readAllContainers_eq {cum : Bool} {cs : List Container} (hok : ContainersOK cum cs) :
    readAllContainers cum cs = cs.flatMap containerEntries := by
  unfold readAllContainers
  apply flatMap_congr'
  intro c hc
  rw [(readContainer_spec hok).1 c hc]
  rfl

theorem mem_mergeFwdFiles {cum : Bool} {fs : List FwdFile} (hok : ∀ f ∈ fs, FileOK cum f) {e : KeyId × SeriesId × ValId} :
    e ∈ fileEntries (mergeFwdFiles cum fs) ↔ ∃ f ∈ fs, e ∈ fileEntries f := by
  unfold mergeFwdFiles
  rw [mem_buildFwdFile]
  simp only [List.mem_flatMap, List.mem_map]
  constructor
  · rintro ⟨f, hf, kc, hkc, sv, hsv, rfl⟩
    rw [readAllContainers_eq (hok f hf kc hkc)] at hsv
    refine ⟨f, hf, ?_⟩
    rw [fileEntries_eq, List.mem_flatMap]
    exact ⟨kc, hkc, mem_keyEntries.mpr ⟨rfl, hsv⟩⟩
  · rintro ⟨f, hf, he⟩
    rw [fileEntries_eq, List.mem_flatMap] at he
    obtain ⟨kc, hkc, he⟩ := he
    obtain ⟨h1, h2⟩ := mem_keyEntries.mp he
    refine ⟨f, hf, kc, hkc, (e.2.1, e.2.2), ?_, ?_⟩
    · rw [readAllContainers_eq (hok f hf kc hkc)]; exact h2
    · obtain ⟨a, b, c⟩ := e; simp at h1; subst h1; rfl

/-! ### placement steps keep every view -/

theorem optList_some {α : Type} (l : List α) : optList (some l) = l := rfl
theorem optList_none {α : Type} : optList (none : Option (List α)) = [] := rfl

theorem dict_prepare_all (b : Bool) (d : Dict) (e : KeyId × Bytes × ValId) : e ∈ (d.prepare b).all ↔ e ∈ d.all := by
  unfold Dict.prepare
  cases h : d.imm with
  | some p =>
    cases p with
    | nil => cases b <;> simp [h, mem_dict_all, optList, Dict.files]
    | cons x t => simp [h]
  | none => simp [mem_dict_all, h, optList, Dict.files]

theorem dict_flush_all (d : Dict) (e : KeyId × Bytes × ValId) : e ∈ d.flush.all ↔ e ∈ d.all := by
  unfold Dict.flush
  cases h : d.imm with
  | none => simp [h]
  | some p =>
    cases p with
    | nil => simp [h]
    | cons x t =>
      simp only [mem_dict_all, h, optList, Dict.files, Option.getD_some, Option.getD_none, List.flatten_append,
        List.mem_append, List.flatten_cons, List.flatten_nil, List.append_nil, List.not_mem_nil, false_or]
      constructor
      · rintro (h1 | (h1 | h1) | h1)
        · exact Or.inl h1
        · exact Or.inr (Or.inr (Or.inl h1))
        · exact Or.inr (Or.inl h1)
        · exact Or.inr (Or.inr (Or.inr h1))
      · rintro (h1 | h1 | h1 | h1)
        · exact Or.inl h1
        · exact Or.inr (Or.inl (Or.inr h1))
        · exact Or.inr (Or.inl (Or.inl h1))
        · exact Or.inr (Or.inr h1)

theorem dict_compact_all (d : Dict) (e : KeyId × Bytes × ValId) : e ∈ d.compact.all ↔ e ∈ d.all := by
  unfold Dict.compact
  by_cases h : d.l0.length > 1
  · simp [h, mem_dict_all, Dict.files]
  · simp [h]

theorem inv_prepare_all (b : Bool) (d : Inv) (e : ValId × SeriesId) : e ∈ (d.prepare b).all ↔ e ∈ d.all := by
  unfold Inv.prepare
  cases h : d.imm with
  | some p =>
    cases p with
    | nil => cases b <;> simp [h, mem_inv_all, optList, Inv.files]
    | cons x t => simp [h]
  | none => simp [mem_inv_all, h, optList, Inv.files]

theorem inv_flushNow_all (d : Inv) (e : ValId × SeriesId) : e ∈ d.flushNow.all ↔ e ∈ d.all := by
  unfold Inv.flushNow
  cases h : d.imm with
  | none => simp [h]
  | some p =>
    cases p with
    | nil => simp [h]
    | cons x t =>
      simp only [mem_inv_all, h, optList, Inv.files, Option.getD_some, Option.getD_none, List.flatten_append,
        List.mem_append, List.flatten_cons, List.flatten_nil, List.append_nil, List.not_mem_nil, false_or]
      constructor
      · rintro (h1 | (h1 | h1) | h1)
        · exact Or.inl h1
        · exact Or.inr (Or.inr (Or.inl h1))
        · exact Or.inr (Or.inl h1)
        · exact Or.inr (Or.inr (Or.inr h1))
      · rintro (h1 | h1 | h1 | h1)
        · exact Or.inl h1
        · exact Or.inr (Or.inl (Or.inr h1))
        · exact Or.inr (Or.inl (Or.inl h1))
        · exact Or.inr (Or.inr h1)

theorem inv_compact_all (d : Inv) (e : ValId × SeriesId) : e ∈ d.compact.all ↔ e ∈ d.all := by
  unfold Inv.compact
  by_cases h : d.l0.length > 1
  · simp [h, mem_inv_all, Inv.files]
  · simp [h]

theorem fwd_prepare_all (b : Bool) (d : Fwd) (e : KeyId × SeriesId × ValId) : e ∈ (d.prepare b).all ↔ e ∈ d.all := by
  unfold Fwd.prepare
  cases h : d.imm with
  | some p =>
    cases p with
    | nil => cases b <;> simp [h, mem_fwd_all, optList, Fwd.files]
    | cons x t => simp [h]
  | none => simp [mem_fwd_all, h, optList, Fwd.files]

theorem fwd_flushNow_all (d : Fwd) (e : KeyId × SeriesId × ValId) : e ∈ d.flushNow.all ↔ e ∈ d.all := by
  unfold Fwd.flushNow
  cases h : d.imm with
  | none => simp [h]
  | some p =>
    cases p with
    | nil => simp [h]
    | cons x t =>
      simp only [mem_fwd_all, h, optList, Fwd.files, Option.getD_some, Option.getD_none, List.mem_append,
        List.mem_singleton, List.not_mem_nil, false_or]
      constructor
      · rintro (h1 | ⟨f, ((hf | hf) | hf), h1⟩)
        · exact Or.inl h1
        · exact Or.inr (Or.inr ⟨f, Or.inl hf, h1⟩)
        · subst hf; exact Or.inr (Or.inl (mem_buildFwdFile.mp h1))
        · exact Or.inr (Or.inr ⟨f, Or.inr hf, h1⟩)
      · rintro (h1 | h1 | ⟨f, (hf | hf), h1⟩)
        · exact Or.inl h1
        · exact Or.inr ⟨_, Or.inl (Or.inr rfl), mem_buildFwdFile.mpr h1⟩
        · exact Or.inr ⟨f, Or.inl (Or.inl hf), h1⟩
        · exact Or.inr ⟨f, Or.inr hf, h1⟩

theorem fwd_compact_all {cum : Bool} (d : Fwd) (hok : ∀ f ∈ d.files, FileOK cum f) (e : KeyId × SeriesId × ValId) :
    e ∈ (d.compact cum).all ↔ e ∈ d.all := by
  unfold Fwd.compact
  by_cases h : d.l0.length > 1
  · have hok' : ∀ f ∈ d.l0 ++ d.l1, FileOK cum f := hok
    simp only [h, ite_true, mem_fwd_all, Fwd.files, List.nil_append, List.mem_singleton, exists_eq_left]
    rw [mem_mergeFwdFiles hok']
  · simp [h]

/-- while the reader's table is not cumulative every forward entry must stay below two containers -/
structure LutSafe (F : Flags) (st : State) : Prop where
  files : ∀ f ∈ st.fwd.files, FileOK F.lutCumulative f
  small : F.lutCumulative = false → ∀ e ∈ st.fwd.all, (e.2.1 : Nat) < 131072

theorem good_of_views {st st' : State} (h : Good st)
    (hsch : st'.schema = st.schema) (hks : st'.keySeq = st.keySeq) (hvs : st'.valSeq = st.valSeq)
    (hser : st'.series = st.series) (hw : st'.written = st.written)
    (hd : ∀ e, e ∈ st'.dict.all ↔ e ∈ st.dict.all) (hi : ∀ e, e ∈ st'.inv.all ↔ e ∈ st.inv.all)
    (hf : ∀ e, e ∈ st'.fwd.all ↔ e ∈ st.fwd.all) : Good st' := by
  constructor
  · constructor
    · rw [hsch]; exact h.wf.schemaFun
    · rw [hsch]; exact h.wf.schemaInj
    · intro kid v id id' h1 h2
      exact h.wf.dictFun kid v id id' ((hd _).mp h1) ((hd _).mp h2)
    · intro kid kid' v v' id h1 h2
      exact h.wf.dictInj kid kid' v v' id ((hd _).mp h1) ((hd _).mp h2)
    · rw [hw]; exact h.wf.writtenFun
    · rw [hw]; exact h.wf.writtenNodup
    · intro id s h1
      obtain ⟨m, t, k, v, kid, a, b, c, d⟩ := h.wf.invSound id s ((hi _).mp h1)
      exact ⟨m, t, k, v, kid, by rw [hw]; exact a, b, by rw [hsch]; exact c, (hd _).mpr d⟩
    · intro kid s id h1
      obtain ⟨m, t, k, v, a, b, c, d⟩ := h.wf.fwdSound kid s id ((hf _).mp h1)
      exact ⟨m, t, k, v, by rw [hw]; exact a, b, by rw [hsch]; exact c, (hd _).mpr d⟩
    · intro m s t k v h1 hkv
      rw [hw] at h1
      obtain ⟨kid, id, a, b, c, d⟩ := h.wf.complete m s t k v h1 hkv
      exact ⟨kid, id, by rw [hsch]; exact a, (hd _).mpr b, (hi _).mpr c, (hf _).mpr d⟩
  · constructor
    · rw [hsch, hks]; exact h.fresh.schemaLt
    · intro kid v id h1; rw [hvs]; exact h.fresh.dictLt kid v id ((hd _).mp h1)
    · intro m s t h1
      rw [hw] at h1
      have := h.fresh.writtenLt m s t h1
      simpa [nextSeriesId, hser] using this

/-! ### the flush seen from inside -/

theorem inv_flush_all (d : Inv) (e : ValId × SeriesId) : e ∈ d.flush.all ↔ e ∈ d.all := by
  unfold Inv.flush
  split
  · exact Iff.rfl
  · exact inv_flushNow_all d e

theorem fwd_flush_all (d : Fwd) (e : KeyId × SeriesId × ValId) : e ∈ d.flush.all ↔ e ∈ d.all := by
  unfold Fwd.flush
  split
  · exact Iff.rfl
  · exact fwd_flushNow_all d e

theorem inv_flushWrite_all (d : Inv) (e : ValId × SeriesId) : e ∈ d.flushWrite.all ↔ e ∈ d.all := by
  unfold Inv.flushWrite
  split
  · exact Iff.rfl
  · split <;> exact Iff.rfl

theorem inv_flushFail_all (d : Inv) (e : ValId × SeriesId) : e ∈ d.flushFail.all ↔ e ∈ d.all := by
  unfold Inv.flushFail
  split <;> exact Iff.rfl

/-- after `flusher.Close()` the batch is both in the new level-0 file and in the immutable table -/
theorem inv_flushCommit_all (d : Inv) (e : ValId × SeriesId) : e ∈ d.flushCommit.all ↔ e ∈ d.all := by
  unfold Inv.flushCommit
  split
  · cases h : d.imm with
    | none => exact Iff.rfl
    | some p =>
      simp only [mem_inv_all, h, optList, Inv.files, Option.getD_some, List.flatten_append, List.mem_append,
        List.flatten_cons, List.flatten_nil, List.append_nil]
      constructor
      · rintro (h1 | h1 | (h1 | h1) | h1)
        · exact Or.inl h1
        · exact Or.inr (Or.inl h1)
        · exact Or.inr (Or.inr (Or.inl h1))
        · exact Or.inr (Or.inl h1)
        · exact Or.inr (Or.inr (Or.inr h1))
      · rintro (h1 | h1 | h1 | h1)
        · exact Or.inl h1
        · exact Or.inr (Or.inl h1)
        · exact Or.inr (Or.inr (Or.inl (Or.inl h1)))
        · exact Or.inr (Or.inr (Or.inr h1))
  · exact Iff.rfl

theorem fwd_flushWrite_all (d : Fwd) (e : KeyId × SeriesId × ValId) : e ∈ d.flushWrite.all ↔ e ∈ d.all := by
  unfold Fwd.flushWrite
  split
  · exact Iff.rfl
  · split <;> exact Iff.rfl

theorem fwd_flushFail_all (d : Fwd) (e : KeyId × SeriesId × ValId) : e ∈ d.flushFail.all ↔ e ∈ d.all := by
  unfold Fwd.flushFail
  split <;> exact Iff.rfl

theorem fwd_flushCommit_all (d : Fwd) (e : KeyId × SeriesId × ValId) : e ∈ d.flushCommit.all ↔ e ∈ d.all := by
  unfold Fwd.flushCommit
  split
  · cases h : d.imm with
    | none => exact Iff.rfl
    | some p =>
      simp only [mem_fwd_all, h, optList, Fwd.files, Option.getD_some, List.mem_append, List.mem_singleton]
      constructor
      · rintro (h1 | h1 | ⟨f, ((hf | hf) | hf), h1⟩)
        · exact Or.inl h1
        · exact Or.inr (Or.inl h1)
        · exact Or.inr (Or.inr ⟨f, Or.inl hf, h1⟩)
        · subst hf; exact Or.inr (Or.inl (mem_buildFwdFile.mp h1))
        · exact Or.inr (Or.inr ⟨f, Or.inr hf, h1⟩)
      · rintro (h1 | h1 | ⟨f, (hf | hf), h1⟩)
        · exact Or.inl h1
        · exact Or.inr (Or.inl h1)
        · exact Or.inr (Or.inr ⟨f, Or.inl (Or.inl hf), h1⟩)
        · exact Or.inr (Or.inr ⟨f, Or.inr hf, h1⟩)
  · exact Iff.rfl

/-- while a store's flush is under way its immutable table is set and non-empty; once the file is
committed every entry of the immutable table is also in a file (so dropping the table loses nothing) -/
structure PhaseOK (st : State) : Prop where
  inv : st.inv.phase ≠ .idle → ∃ p, st.inv.imm = some p ∧ p ≠ [] ∧
    (st.inv.phase = .committed → ∀ e ∈ p, e ∈ st.inv.files.flatten)
  fwd : st.fwd.phase ≠ .idle → ∃ p, st.fwd.imm = some p ∧ p ≠ [] ∧
    (st.fwd.phase = .committed → ∀ e ∈ p, ∃ f ∈ st.fwd.files, e ∈ fileEntries f)

theorem inv_flushDrop_all {d : Inv}
    (hp : d.phase ≠ .idle → ∃ p, d.imm = some p ∧ p ≠ [] ∧ (d.phase = .committed → ∀ e ∈ p, e ∈ d.files.flatten))
    (e : ValId × SeriesId) : e ∈ d.flushDrop.all ↔ e ∈ d.all := by
  unfold Inv.flushDrop
  split
  · rename_i hc
    obtain ⟨p, hp1, _, hp3⟩ := hp (by rw [hc]; decide)
    simp only [mem_inv_all, hp1, optList, Inv.files, Option.getD_some, Option.getD_none, List.not_mem_nil, false_or]
    constructor
    · rintro (h1 | h1)
      · exact Or.inl h1
      · exact Or.inr (Or.inr h1)
    · rintro (h1 | h1 | h1)
      · exact Or.inl h1
      · exact Or.inr (hp3 hc e h1)
      · exact Or.inr h1
  · exact Iff.rfl

theorem fwd_flushDrop_all {d : Fwd}
    (hp : d.phase ≠ .idle → ∃ p, d.imm = some p ∧ p ≠ [] ∧
      (d.phase = .committed → ∀ e ∈ p, ∃ f ∈ d.files, e ∈ fileEntries f))
    (e : KeyId × SeriesId × ValId) : e ∈ d.flushDrop.all ↔ e ∈ d.all := by
  unfold Fwd.flushDrop
  split
  · rename_i hc
    obtain ⟨p, hp1, _, hp3⟩ := hp (by rw [hc]; decide)
    simp only [mem_fwd_all, hp1, optList, Fwd.files, Option.getD_some, Option.getD_none, List.not_mem_nil, false_or]
    constructor
    · rintro (h1 | h1)
      · exact Or.inl h1
      · exact Or.inr (Or.inr h1)
    · rintro (h1 | h1 | h1)
      · exact Or.inl h1
      · exact Or.inr (hp3 hc e h1)
      · exact Or.inr h1
  · exact Iff.rfl

/-- every placement step — including every step inside an index flush — keeps the invariant -/
theorem step_good {F : Flags} {st : State} (h : Good st) (hl : LutSafe F st) (hp : PhaseOK st) (s : Step) :
    Good (st.step F s) := by
  cases s with
  | prepareMeta => exact good_of_views h rfl rfl rfl rfl rfl (dict_prepare_all _ _) (fun _ => Iff.rfl) (fun _ => Iff.rfl)
  | flushMeta => exact good_of_views h rfl rfl rfl rfl rfl (dict_flush_all _) (fun _ => Iff.rfl) (fun _ => Iff.rfl)
  | compactMeta => exact good_of_views h rfl rfl rfl rfl rfl (dict_compact_all _) (fun _ => Iff.rfl) (fun _ => Iff.rfl)
  | prepareIndex => exact good_of_views h rfl rfl rfl rfl rfl (fun _ => Iff.rfl) (inv_prepare_all _ _) (fwd_prepare_all _ _)
  | flushIndex => exact good_of_views h rfl rfl rfl rfl rfl (fun _ => Iff.rfl) (inv_flush_all _) (fwd_flush_all _)
  | compactIndex =>
    exact good_of_views h rfl rfl rfl rfl rfl (fun _ => Iff.rfl) (inv_compact_all _) (fwd_compact_all _ hl.files)
  | fwdWrite => exact good_of_views h rfl rfl rfl rfl rfl (fun _ => Iff.rfl) (fun _ => Iff.rfl) (fwd_flushWrite_all _)
  | fwdFail => exact good_of_views h rfl rfl rfl rfl rfl (fun _ => Iff.rfl) (fun _ => Iff.rfl) (fwd_flushFail_all _)
  | fwdCommit => exact good_of_views h rfl rfl rfl rfl rfl (fun _ => Iff.rfl) (fun _ => Iff.rfl) (fwd_flushCommit_all _)
  | fwdDrop => exact good_of_views h rfl rfl rfl rfl rfl (fun _ => Iff.rfl) (fun _ => Iff.rfl) (fwd_flushDrop_all hp.fwd)
  | invWrite => exact good_of_views h rfl rfl rfl rfl rfl (fun _ => Iff.rfl) (inv_flushWrite_all _) (fun _ => Iff.rfl)
  | invFail => exact good_of_views h rfl rfl rfl rfl rfl (fun _ => Iff.rfl) (inv_flushFail_all _) (fun _ => Iff.rfl)
  | invCommit => exact good_of_views h rfl rfl rfl rfl rfl (fun _ => Iff.rfl) (inv_flushCommit_all _) (fun _ => Iff.rfl)
  | invDrop => exact good_of_views h rfl rfl rfl rfl rfl (fun _ => Iff.rfl) (inv_flushDrop_all hp.inv) (fun _ => Iff.rfl)

/-- a forward store whose files are old files or the flushed immutable table, with the same entries -/
theorem lutSafe_fwd_update {F : Flags} {st : State} (hl : LutSafe F st) (d' : Fwd)
    (hfiles : ∀ f ∈ d'.files, f ∈ st.fwd.files ∨ ∃ p, st.fwd.imm = some p ∧ f = buildFwdFile p)
    (hall : ∀ e, e ∈ d'.all ↔ e ∈ st.fwd.all) (st' : State) (hst : st'.fwd = d') : LutSafe F st' := by
  constructor
  · intro f hf
    rw [hst] at hf
    rcases hfiles f hf with h1 | ⟨p, hp, rfl⟩
    · exact hl.files f h1
    · apply buildFwdFile_ok
      intro hc e he
      exact hl.small hc e (mem_fwd_all.mpr (Or.inr (Or.inl (by simpa [hp, optList] using he))))
  · intro hc e he
    rw [hst] at he
    exact hl.small hc e ((hall e).mp he)

theorem fwd_flushNow_files (d : Fwd) :
    ∀ f ∈ d.flushNow.files, f ∈ d.files ∨ ∃ p, d.imm = some p ∧ f = buildFwdFile p := by
  intro f hf
  unfold Fwd.flushNow at hf
  cases h : d.imm with
  | none => exact Or.inl (by simpa [h] using hf)
  | some p =>
    cases p with
    | nil => exact Or.inl (by simpa [h] using hf)
    | cons x t =>
      simp only [h, Fwd.files, List.mem_append, List.mem_singleton] at hf
      rcases hf with (hf | hf) | hf
      · exact Or.inl (by simp [Fwd.files, hf])
      · exact Or.inr ⟨_, rfl, hf⟩
      · exact Or.inl (by simp [Fwd.files, hf])

theorem fwd_flushCommit_files (d : Fwd) :
    ∀ f ∈ d.flushCommit.files, f ∈ d.files ∨ ∃ p, d.imm = some p ∧ f = buildFwdFile p := by
  intro f hf
  unfold Fwd.flushCommit at hf
  split at hf
  · cases h : d.imm with
    | none => exact Or.inl (by simpa [h] using hf)
    | some p =>
      simp only [h, Fwd.files, List.mem_append, List.mem_singleton] at hf
      rcases hf with (hf | hf) | hf
      · exact Or.inl (by simp [Fwd.files, hf])
      · exact Or.inr ⟨_, rfl, hf⟩
      · exact Or.inl (by simp [Fwd.files, hf])
  · exact Or.inl hf

theorem step_lutSafe {F : Flags} {st : State} (hl : LutSafe F st) (hp : PhaseOK st) (s : Step) :
    LutSafe F (st.step F s) := by
  cases s with
  | prepareMeta => exact ⟨hl.files, hl.small⟩
  | flushMeta => exact ⟨hl.files, hl.small⟩
  | compactMeta => exact ⟨hl.files, hl.small⟩
  | invWrite => exact ⟨hl.files, hl.small⟩
  | invFail => exact ⟨hl.files, hl.small⟩
  | invCommit => exact ⟨hl.files, hl.small⟩
  | invDrop => exact ⟨hl.files, hl.small⟩
  | prepareIndex =>
    refine lutSafe_fwd_update hl (st.fwd.prepare F.prepareOnEmpty) ?_ (fwd_prepare_all _ _) _ rfl
    intro f hf
    left
    simp only [Fwd.prepare] at hf
    cases h : st.fwd.imm with
    | some p =>
      cases p with
      | nil => cases hb : F.prepareOnEmpty <;> simpa [h, hb, Fwd.files] using hf
      | cons x t => simpa [h, Fwd.files] using hf
    | none => simpa [h, Fwd.files] using hf
  | flushIndex =>
    refine lutSafe_fwd_update hl st.fwd.flush ?_ (fwd_flush_all _) _ rfl
    intro f hf
    unfold Fwd.flush at hf
    split at hf
    · exact Or.inl hf
    · exact fwd_flushNow_files _ f hf
  | fwdWrite =>
    refine lutSafe_fwd_update hl st.fwd.flushWrite ?_ (fwd_flushWrite_all _) _ rfl
    intro f hf
    left
    unfold Fwd.flushWrite at hf
    split at hf
    · exact hf
    · split at hf <;> exact hf
  | fwdFail =>
    refine lutSafe_fwd_update hl st.fwd.flushFail ?_ (fwd_flushFail_all _) _ rfl
    intro f hf
    left
    unfold Fwd.flushFail at hf
    split at hf <;> exact hf
  | fwdCommit => exact lutSafe_fwd_update hl st.fwd.flushCommit (fwd_flushCommit_files _) (fwd_flushCommit_all _) _ rfl
  | fwdDrop =>
    refine lutSafe_fwd_update hl st.fwd.flushDrop ?_ (fwd_flushDrop_all hp.fwd) _ rfl
    intro f hf
    left
    unfold Fwd.flushDrop at hf
    split at hf <;> exact hf
  | compactIndex =>
    have hall := fwd_compact_all (cum := F.lutCumulative) st.fwd hl.files
    constructor
    · intro f hf
      simp only [State.step, Fwd.compact] at hf
      by_cases h : st.fwd.l0.length > 1
      · simp only [h, ite_true, Fwd.files, List.nil_append, List.mem_singleton] at hf
        subst hf
        unfold mergeFwdFiles
        apply buildFwdFile_ok
        intro hc e he
        have : e ∈ fileEntries (mergeFwdFiles F.lutCumulative (st.fwd.l0 ++ st.fwd.l1)) := by
          unfold mergeFwdFiles; exact mem_buildFwdFile.mpr he
        have hok' : ∀ f ∈ st.fwd.l0 ++ st.fwd.l1, FileOK F.lutCumulative f := hl.files
        rw [mem_mergeFwdFiles hok'] at this
        exact hl.small hc e (mem_fwd_all.mpr (Or.inr (Or.inr this)))
      · exact hl.files f (by simpa [h] using hf)
    · intro hc e he
      exact hl.small hc e ((hall e).mp he)

end LinVerif.TagFilter
