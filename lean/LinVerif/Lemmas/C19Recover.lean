/-
C19 helper lemmas, part 6: runs in which every panic happens where the code recovers *and*
completes it (a pooled stage's own task, or inline on the goroutine that called
`pipeline.Execute`). Inductive invariant behind `completion_under_panic_partial`.
-/
import LinVerif.Lemmas.C19NoPanic

namespace LinVerif.Pipeline

/-- the next stages of `st` are recoverable on a goroutine of kind `b` (`true` = caller of Execute) -/
def CR (b : Bool) (st : Stage) : Prop := ∀ c ∈ st.children, c.recoverable b = true

def SafeI (b : Bool) : Instr → Prop
  | .start st | .register st | .launch st => st.recoverable b = true
  | .exec st => CR b st
  | _ => True

def NoPanicI : Instr → Prop
  | .exec st => st.out.panics = false
  | _ => True

/-- the instruction panics when executed (execution, `NextStages()` or `Plan()`) -/
def PanicsI : Instr → Prop
  | .exec st => st.out.panics = true
  | .launch st => st.planPanics = true
  | _ => False

/-- a freshly submitted pooled task -/
def HeadTask (t : Thread) : Prop := t.pooled = true ∧ ∃ st, t.code = [.exec st] ∧ CR false st

def PooledOK (t : Thread) : Prop :=
  t.pooled = true ∧ (∀ j ∈ t.code, SafeI false j) ∧ ((∃ st, t.code = [.exec st]) ∨ ∀ j ∈ t.code, NoPanicI j)

theorem HeadTask.pooledOK {t : Thread} (h : HeadTask t) : PooledOK t := by
  obtain ⟨hp, st, hc, hcr⟩ := h
  refine ⟨hp, ?_, Or.inl ⟨st, hc⟩⟩
  rw [hc]; intro j hj; simp only [List.mem_singleton] at hj; subst hj; exact hcr

theorem stepInstr_safe (b : Bool) (cfg : Cfg) (sh : Shared) (pooled : Bool) (i : Instr) (rest : List Instr)
    (h : ∀ j ∈ i :: rest, SafeI b j) :
    (∀ j ∈ (stepInstr cfg sh pooled i rest).code, SafeI b j) ∧
      ∀ t ∈ (stepInstr cfg sh pooled i rest).spawn, HeadTask t := by
  have hi : SafeI b i := h i (by simp)
  have hr : ∀ j ∈ rest, SafeI b j := fun j hj => h j (by simp [hj])
  refine ⟨stepInstr_forall hr ?_, ?_⟩
  · intro j hc
    cases hc with
    | reg s _ => exact hi
    | launch s => exact hi
    | inl s _ hrun => exact (((Stage.recoverable_iff s).mp hi).2.2.1 hrun).2
    | child s c _ hcm => exact hi c hcm
    | _ => trivial
  · intro t ht
    obtain ⟨st, rfl, _, hrun, rfl⟩ := stepInstr_spawn ht
    refine ⟨rfl, st, rfl, ((Stage.recoverable_iff st).mp hi).2.2.2 ?_⟩
    rw [hrun]; intro hx; cases hx

/-- on a pooled goroutine no inline execution that is still to come panics -/
theorem stepInstr_np_pooled (cfg : Cfg) (sh : Shared) (pooled : Bool) (i : Instr) (rest : List Instr)
    (hi : SafeI false i) (hr : ∀ j ∈ rest, NoPanicI j) :
    ∀ j ∈ (stepInstr cfg sh pooled i rest).code, NoPanicI j := by
  refine stepInstr_forall hr ?_
  intro j hc
  cases hc with
  | inl s _ hrun =>
    simp only [NoPanicI]
    have := (((Stage.recoverable_iff s).mp hi).2.2.1 hrun).1
    cases hp : s.out.panics with
    | false => rfl
    | true => exact absurd (this hp) (by simp)
  | _ => trivial

/-- before any panic on the goroutine that called `pipeline.Execute` -/
structure MainA (s : State) : Prop where
  shape : ∃ m rest, s.threads = m :: rest ∧ m.pooled = false ∧ (∀ j ∈ m.code, SafeI true j) ∧ ∀ t ∈ rest, PooledOK t
  g0 : gap s = 0
  wf : WF s
  will : s.sh.pending = 0 → s.sh.completed = true ∨ 0 < tsum Instr.fires s.threads
  quiet : 0 < tsum Instr.fires s.threads → s.sh.pending = 0

/-- after it: `Execute`'s recover has called, or is about to call, `sm.complete(err)` -/
def MainB (s : State) : Prop :=
  ∃ m rest, s.threads = m :: rest ∧ m.pooled = false ∧
    (m.code = [.fire true true] ∨ (m.code = [] ∧ s.sh.completed = true))

theorem mainA_first {root : Stage} (hrec : root.recoverable true = true) {s : State}
    (hsh : s.sh = { (init root).sh with pending := 1, registered := 1 })
    (ht : s.threads = [⟨false, [.launch root]⟩]) : MainA s := by
  cases s with
  | mk sh threads =>
    simp only at hsh ht
    subst hsh ht
    refine ⟨⟨_, _, rfl, rfl, ?_, by simp⟩, ?_, ?_, ?_, ?_⟩ <;>
      simp [SafeI, hrec, gap, init, Instr.owed, WF, wfCode, Instr.startLike, Instr.fires]

theorem mainB_step {cfg : Cfg} {s s' : State} {n : Nat} (hinv : MainB s)
    (h : stepAt cfg s n = some s') : MainB s' := by
  obtain ⟨m, rest, hth, hmp, hm⟩ := hinv
  obtain ⟨pooled, i, rest0, hget, rfl⟩ := stepAt_elim h
  rw [hth] at hget ⊢
  cases n with
  | zero =>
    simp only [List.getElem?_cons_zero, Option.some.injEq] at hget
    subst hget
    rcases hm with hm | ⟨hm, _⟩
    · simp only [List.cons.injEq] at hm
      obtain ⟨rfl, rfl⟩ := hm
      refine ⟨⟨pooled, (stepInstr cfg s.sh pooled (.fire true true) []).code⟩,
        rest ++ (stepInstr cfg s.sh pooled (.fire true true) []).spawn,
        by simp only [List.set_cons_zero, List.cons_append], hmp, ?_⟩
      simp only [stepInstr]
      split
      · rename_i hc; exact Or.inr ⟨rfl, hc⟩
      · exact Or.inr ⟨rfl, rfl⟩
    · simp at hm
  | succ k =>
    refine ⟨m, rest.set k ⟨pooled, (stepInstr cfg s.sh pooled i rest0).code⟩ ++ (stepInstr cfg s.sh pooled i rest0).spawn,
      by simp only [List.set_cons_succ, List.cons_append], hmp, ?_⟩
    rcases hm with hm | ⟨hm, hc⟩
    · exact Or.inl hm
    · exact Or.inr ⟨hm, stepInstr_completed_mono cfg s.sh pooled i rest0 hc⟩

end LinVerif.Pipeline

namespace LinVerif.Pipeline

/-- the `will`/`quiet` part of the invariant, for a step that loses no completion -/
theorem fires_step {cfg : Cfg} {s : State} {n : Nat} {pooled : Bool} {i : Instr} {rest0 : List Instr}
    (hwf : WF s) (hg0 : gap s = 0)
    (hwill : s.sh.pending = 0 → s.sh.completed = true ∨ 0 < tsum Instr.fires s.threads)
    (hquiet : 0 < tsum Instr.fires s.threads → s.sh.pending = 0)
    (hget : s.threads[n]? = some ⟨pooled, i :: rest0⟩) (hsafe : i.safeExec cfg pooled rest0) :
    ((stepInstr cfg s.sh pooled i rest0).sh.pending = 0 → (stepInstr cfg s.sh pooled i rest0).sh.completed = true
      ∨ 0 < tsum Instr.fires (s.threads.set n ⟨pooled, (stepInstr cfg s.sh pooled i rest0).code⟩
              ++ (stepInstr cfg s.sh pooled i rest0).spawn)) ∧
    (0 < tsum Instr.fires (s.threads.set n ⟨pooled, (stepInstr cfg s.sh pooled i rest0).code⟩
              ++ (stepInstr cfg s.sh pooled i rest0).spawn) → (stepInstr cfg s.sh pooled i rest0).sh.pending = 0) := by
  have hF := tsum_step (w := Instr.fires) (t1 := ⟨pooled, (stepInstr cfg s.sh pooled i rest0).code⟩)
    (sp := (stepInstr cfg s.sh pooled i rest0).spawn) hget
  simp only at hF
  have hg := hg0
  simp only [gap] at hg
  by_cases hp : s.sh.pending = 0
  · rcases head_is_fire hwf (by rw [hg0]; exact Int.le_refl 0) hp hget with ⟨o, rfl⟩ | ⟨e0, o, rfl⟩
    · simp only [stepInstr] at hF ⊢
      simp only [csum_cons, tsum_nil, Instr.fires] at hF
      refine ⟨fun _ => ?_, fun _ => hp⟩
      rcases hwill hp with hc | hf
      · exact Or.inl hc
      · exact Or.inr (by omega)
    · have h1 : (stepInstr cfg s.sh pooled (.fire e0 o) rest0).sh.completed = true := by
        simp only [stepInstr]; split <;> simp_all
      have h2 : (stepInstr cfg s.sh pooled (.fire e0 o) rest0).sh.pending = s.sh.pending := by
        simp only [stepInstr]; split <;> rfl
      exact ⟨fun _ => Or.inl h1, fun _ => h2.trans hp⟩
  · have hF0 : tsum Instr.fires s.threads = 0 := by
      rcases Nat.eq_zero_or_pos (tsum Instr.fires s.threads) with h0 | hpos
      · exact h0
      · exact absurd (hquiet hpos) hp
    have hFc := csum_le_tsum (w := Instr.fires) hget
    simp only [csum_cons] at hFc hF
    obtain ⟨q3, q4, q5, _⟩ := stepInstr_fires cfg s.sh pooled i rest0 (by omega) (by omega) hsafe (by omega)
    generalize stepInstr cfg s.sh pooled i rest0 = e at *
    refine ⟨fun hx => Or.inr ?_, fun hx => ?_⟩
    · have := q4 hx hp
      omega
    · by_cases hz : e.sh.pending = 0
      · exact hz
      · have := q5 (Or.inl hz)
        omega

theorem gap_step_eq {cfg : Cfg} {s : State} {n : Nat} {pooled : Bool} {i : Instr} {rest0 : List Instr}
    (hget : s.threads[n]? = some ⟨pooled, i :: rest0⟩) (hsafe : i.safeExec cfg pooled rest0) :
    gap ⟨(stepInstr cfg s.sh pooled i rest0).sh,
         s.threads.set n ⟨pooled, (stepInstr cfg s.sh pooled i rest0).code⟩ ++ (stepInstr cfg s.sh pooled i rest0).spawn⟩
      = gap s := by
  have h1 := stepInstr_owed_eq' cfg s.sh pooled i rest0 hsafe
  have h2 := tsum_step (w := Instr.owed) (t1 := ⟨pooled, (stepInstr cfg s.sh pooled i rest0).code⟩)
    (sp := (stepInstr cfg s.sh pooled i rest0).spawn) hget
  simp only [gap]
  simp only at h2
  omega

theorem mainA_step {cfg : Cfg} (hsr : cfg.stageRecover = false) {s s' : State} {n : Nat} (hinv : MainA s)
    (h : stepAt cfg s n = some s') : MainA s' ∨ MainB s' := by
  have hwf' := step_wf hinv.wf h
  obtain ⟨m, rest, hth, hmp, hmain, hpool⟩ := hinv.shape
  obtain ⟨pooled, i, rest0, hget, rfl⟩ := stepAt_elim h
  cases n with
  | zero =>
    have hm : m = ⟨pooled, i :: rest0⟩ := by
      rw [hth] at hget
      simpa using hget
    subst hm
    simp only at hmp
    subst hmp
    have hi0 : SafeI true i := hmain i (by simp)
    by_cases hpan : PanicsI i
    · right
      refine ⟨⟨false, (stepInstr cfg s.sh false i rest0).code⟩,
        rest ++ (stepInstr cfg s.sh false i rest0).spawn, ?_, rfl, Or.inl ?_⟩
      · rw [hth]; simp only [List.set_cons_zero, List.cons_append]
      · cases i <;> simp only [PanicsI] at hpan
        · simp [stepInstr, panicEff, hpan, hsr]
        · rename_i st
          cases ho : st.out <;> simp [ho, Outcome.panics] at hpan <;> simp [stepInstr, panicEff, ho, hsr]
    · have hsafe : i.safeExec cfg false rest0 := by
        left
        cases i <;> simp only [Instr.noLoss, PanicsI] at hpan ⊢
        · rename_i st
          have := (Stage.recoverable_iff st).mp hi0
          exact ⟨fun hp => absurd hp hpan, fun _ hr => absurd hr this.1⟩
        · intro hp; exact absurd hp hpan
      have hfs := fires_step (cfg := cfg) hinv.wf hinv.g0 hinv.will hinv.quiet hget hsafe
      have hsf := stepInstr_safe true cfg s.sh false i rest0 hmain
      left
      refine ⟨⟨⟨false, (stepInstr cfg s.sh false i rest0).code⟩,
          rest ++ (stepInstr cfg s.sh false i rest0).spawn, ?_, by simp, hsf.1, ?_⟩,
        (gap_step_eq hget hsafe).trans hinv.g0, hwf', hfs.1, hfs.2⟩
      · rw [hth]; simp only [List.set_cons_zero, List.cons_append]
      · intro t ht
        rcases List.mem_append.mp ht with ht | ht
        · exact hpool t ht
        · exact (hsf.2 t ht).pooledOK
  | succ k =>
    have hget' : rest[k]? = some ⟨pooled, i :: rest0⟩ := by
      rw [hth] at hget
      simpa using hget
    have hpk := hpool _ (List.mem_of_getElem? hget')
    obtain ⟨hpl, hsafeAll, hform⟩ := hpk
    simp only at hpl
    subst hpl
    have hi : SafeI false i := hsafeAll i (by simp)
    have hsafe : i.safeExec cfg true rest0 := by
      rcases hform with ⟨st', hc⟩ | hnp
      · simp only [List.cons.injEq] at hc
        exact Or.inr ⟨st', hc.1, rfl, hc.2⟩
      · left
        have hnpi := hnp i (by simp)
        cases i <;> simp only [Instr.noLoss]
        · rename_i st
          have := (Stage.recoverable_iff st).mp hi
          refine ⟨fun hp => absurd (this.2.1 hp) (by simp), fun _ hr => absurd hr this.1⟩
        · rename_i st
          simp only [NoPanicI] at hnpi
          intro hp; rw [hnpi] at hp; cases hp
    have hrestnp : ∀ j ∈ rest0, NoPanicI j := by
      rcases hform with ⟨st', hc⟩ | hnp
      · simp only [List.cons.injEq] at hc
        rw [hc.2]; intro j hj; cases hj
      · exact fun j hj => hnp j (by simp [hj])
    have hfs := fires_step (cfg := cfg) hinv.wf hinv.g0 hinv.will hinv.quiet hget hsafe
    have hsf := stepInstr_safe false cfg s.sh true i rest0 hsafeAll
    have hnp' := stepInstr_np_pooled cfg s.sh true i rest0 hi hrestnp
    left
    refine ⟨⟨m, rest.set k ⟨true, (stepInstr cfg s.sh true i rest0).code⟩ ++ (stepInstr cfg s.sh true i rest0).spawn,
        ?_, hmp, hmain, ?_⟩,
      (gap_step_eq hget hsafe).trans hinv.g0, hwf', hfs.1, hfs.2⟩
    · rw [hth]; simp only [List.set_cons_succ, List.cons_append]
    · exact forall_step hpool (And.intro (by simp) ⟨hsf.1, Or.inr hnp'⟩) (fun t ht => (hsf.2 t ht).pooledOK)

theorem invRec_reachable {cfg : Cfg} (hsr : cfg.stageRecover = false) {root : Stage} {s : State}
    (hrec : root.recoverable true = true)
    (hr : Reachable cfg (init root) s) : InitPhase root s ∨ MainA s ∨ MainB s := by
  refine Reachable.invariant (P := fun s => InitPhase root s ∨ MainA s ∨ MainB s)
    (Or.inl (initPhase_init root)) ?_ hr
  intro s s' n hinv hs
  rcases hinv with hi | hm | hb
  · rcases initPhase_step hi hs with hi' | ⟨hsh, ht⟩
    · exact Or.inl hi'
    · exact Or.inr (Or.inl (mainA_first hrec hsh ht))
  · exact Or.inr (mainA_step hsr hm hs)
  · exact Or.inr (Or.inr (mainB_step hb hs))

/-- at the end of such a run the pipeline is completed -/
theorem rec_terminal_completed {s : State} (h : MainA s ∨ MainB s) (ht : Terminal s) :
    s.sh.completed = true := by
  rcases h with ha | ⟨m, rest, hth, _, hm⟩
  · have hO : tsum Instr.owed s.threads = 0 := tsum_eq_zero_iff.mpr (fun t h => by rw [ht t h]; rfl)
    have hF : tsum Instr.fires s.threads = 0 := tsum_eq_zero_iff.mpr (fun t h => by rw [ht t h]; rfl)
    have hg := ha.g0
    simp only [gap, hO] at hg
    rcases ha.will (by omega) with hc | hf
    · exact hc
    · omega
  · rcases hm with hm | ⟨_, hc⟩
    · have := ht m (by rw [hth]; simp)
      rw [hm] at this; cases this
    · exact hc

end LinVerif.Pipeline
