/-
C01 — lemmas for the concurrent-commit models (Model/KvSched.lean, Spec/C01Sched.lean).
-/
import LinVerif.Model.KvSched
import LinVerif.Spec.C01Sched

namespace LinVerif.KvSched
open LinVerif LinVerif.Kv

theorem afterLog_eq (n : Int) : afterLog n = n + 1 := rfl

theorem replayNext_append (i : Int) (l : List (List Int × Int)) (r : List Int × Int) :
    replayNext i (l ++ [r]) = afterLog r.2 := by
  simp [replayNext, List.foldl_append]

/-- the invariant of the allocator under concurrent committers (read under the lock) -/
structure Inv (n0 : Int) (s : S) : Prop where
  handed : ∀ h ∈ s.handed, h < s.next
  recRefs : ∀ r ∈ s.recs, ∀ x ∈ r.1, x ∈ s.handed
  building : ∀ i n, s.ths i = .building n → n ∈ s.handed
  entered : ∀ i refs cap, s.ths i = .entered refs cap → cap = none ∧ ∀ x ∈ refs, x ∈ s.handed
  fresh : ∀ r ∈ s.recs, ∀ x ∈ r.1, x < replayNext n0 s.recs
  below : replayNext n0 s.recs ≤ s.next ∨ s.recs = []

theorem inv_init (n0 : Int) : Inv n0 (S.init n0) := by
  refine ⟨?_, ?_, ?_, ?_, ?_, Or.inr rfl⟩ <;> simp [S.init]

theorem step_inv (n0 : Int) {s s' : S} {e : Ev} (h : Inv n0 s) (hs : step true s e = some s') : Inv n0 s' := by
  cases e with
  | alloc i =>
    cases hth : s.ths i <;> simp [step, hth] at hs
    subst hs
    refine ⟨?_, ?_, ?_, ?_, h.fresh, ?_⟩
    · intro x hx
      simp only [List.mem_cons] at hx
      rcases hx with rfl | hx
      · show s.next < s.next + 1; omega
      · have := h.handed x hx; show x < s.next + 1; omega
    · intro r hr x hx; exact List.mem_cons_of_mem _ (h.recRefs r hr x hx)
    · intro j n hj
      simp only [upd] at hj
      split at hj
      · cases hj; simp
      · exact List.mem_cons_of_mem _ (h.building j n hj)
    · intro j refs cap hj
      simp only [upd] at hj
      split at hj
      · cases hj
      · obtain ⟨h1, h2⟩ := h.entered j refs cap hj
        exact ⟨h1, fun x hx => List.mem_cons_of_mem _ (h2 x hx)⟩
    · rcases h.below with hb | hb
      · left; show replayNext n0 s.recs ≤ s.next + 1; omega
      · exact Or.inr hb
  | enter i =>
    cases hth : s.ths i with
    | idle =>
      simp [step, hth] at hs
      subst hs
      refine ⟨h.handed, h.recRefs, ?_, ?_, h.fresh, h.below⟩
      · intro j n hj
        simp only [upd] at hj
        split at hj
        · cases hj
        · exact h.building j n hj
      · intro j refs cap hj
        simp only [upd] at hj
        split at hj
        · cases hj; simp
        · exact h.entered j refs cap hj
    | building n =>
      simp [step, hth] at hs
      subst hs
      refine ⟨h.handed, h.recRefs, ?_, ?_, h.fresh, h.below⟩
      · intro j n' hj
        simp only [upd] at hj
        split at hj
        · cases hj
        · exact h.building j n' hj
      · intro j refs cap hj
        simp only [upd] at hj
        split at hj
        · cases hj
          refine ⟨rfl, ?_⟩
          intro x hx
          simp only [List.mem_singleton] at hx
          subst hx
          exact h.building i _ hth
        · exact h.entered j refs cap hj
    | entered refs cap => simp [step, hth] at hs
  | locked i =>
    cases hth : s.ths i with
    | idle => simp [step, hth] at hs
    | building n => simp [step, hth] at hs
    | entered refs cap =>
      simp [step, hth] at hs
      subst hs
      obtain ⟨hcap, hrefs⟩ := h.entered i refs cap hth
      subst hcap
      have hall : ∀ r ∈ s.recs ++ [(refs, s.next)], ∀ x ∈ r.1, x ∈ s.handed := by
        intro r hr x hx
        simp only [List.mem_append, List.mem_singleton] at hr
        rcases hr with hr | rfl
        · exact h.recRefs r hr x hx
        · exact hrefs x hx
      refine ⟨?_, hall, ?_, ?_, ?_, ?_⟩
      · intro x hx
        have := h.handed x hx
        simp only [Option.getD_none, afterLog_eq]; omega
      · intro j n hj
        simp only [upd] at hj
        split at hj
        · cases hj
        · exact h.building j n hj
      · intro j refs' cap' hj
        simp only [upd] at hj
        split at hj
        · cases hj
        · exact h.entered j refs' cap' hj
      · intro r hr x hx
        have := h.handed x (hall r hr x hx)
        simp only [Option.getD_none, replayNext_append, afterLog_eq]; omega
      · left
        simp only [Option.getD_none, replayNext_append, afterLog_eq]; omega

theorem run_inv (n0 : Int) : ∀ (evs : List Ev) (s s' : S), Inv n0 s → run true s evs = some s' → Inv n0 s' := by
  intro evs
  induction evs with
  | nil => intro s s' h hr; simp [run] at hr; subst hr; exact h
  | cons e t ih =>
    intro s s' h hr
    simp only [run] at hr
    cases hs : step true s e with
    | none => simp [hs] at hr
    | some s1 =>
      simp only [hs] at hr
      exact ih s1 s' (step_inv n0 h hs) hr

end LinVerif.KvSched

namespace LinVerif.Kv

theorem commitLocked_none (m : Mem) (fid : Int) (logs : List Log) :
    commitLocked m fid logs ⟨none, none⟩ = commitEditLog m fid logs := by
  simp [commitLocked, commitEditLog]

theorem commitRead_none (before : List String) (h1 : before.contains readNextStep = false)
    (h2 : before.contains readVersionStep = false) (m : Mem) (fid : Int) :
    commitRead before m fid = ⟨none, none⟩ := by
  unfold commitRead
  rw [h1, h2]
  rfl

def eraseFl (infl : List InFlight) : List (Nat × Nat × List Log) := infl.map (fun c => (c.t, c.name, c.logs))

/-- with neither read before the lock, an interleaving IS the sequential history in which every
commit runs at its critical section -/
theorem interleaved_refines (before : List String) (h1 : before.contains readNextStep = false)
    (h2 : before.contains readVersionStep = false) (cfg : Cfg) :
    ∀ (steps : List Step) (s : St) (infl : List InFlight) (s' : St) (infl' : List InFlight),
      (∀ c ∈ infl, c.pre = ⟨none, none⟩ ∧ c.logs.all Log.isBookkeeping = true) →
      runSteps before cfg s infl steps = some (s', infl') →
      execAll cfg s (project (eraseFl infl) steps) = some s' := by
  intro steps
  induction steps with
  | nil =>
    intro s infl s' infl' _ hr
    simp only [runSteps, Option.some.injEq, Prod.mk.injEq] at hr
    simp [project, execAll, hr.1]
  | cons e t ih =>
    intro s infl s' infl' hinv hr
    simp only [runSteps] at hr
    cases hs : runStep before cfg s infl e with
    | none => simp [hs] at hr
    | some r =>
      obtain ⟨s1, infl1⟩ := r
      simp only [hs] at hr
      cases e with
      | op o =>
        simp only [runStep, Option.map_eq_some_iff] at hs
        obtain ⟨r, hro, hre⟩ := hs
        simp only [Prod.mk.injEq] at hre
        obtain ⟨rfl, rfl⟩ := hre
        simp only [project, execAll, exec, hro, Option.map_some]
        exact ih _ _ _ _ hinv hr
      | enter th name logs =>
        simp only [runStep] at hs
        cases hm : s.mem with
        | none => simp [hm] at hs
        | some m =>
          simp only [hm] at hs
          cases hf : m.fam? name with
          | none => simp [hf] at hs
          | some f =>
            simp only [hf] at hs
            by_cases hb : logs.all Log.isBookkeeping = true
            · simp only [hb, if_true, Option.some.injEq, Prod.mk.injEq] at hs
              obtain ⟨rfl, rfl⟩ := hs
              have := ih s (⟨th, name, logs, commitRead before m f.opt.id⟩ :: infl) s' infl' (by
                intro c hc
                simp only [List.mem_cons] at hc
                rcases hc with rfl | hc
                · exact ⟨commitRead_none before h1 h2 m f.opt.id, hb⟩
                · exact hinv c hc) hr
              simpa [project, eraseFl] using this
            · simp [hb] at hs
      | locked th =>
        simp only [runStep] at hs
        cases hfind : infl.find? (fun c => c.t = th) with
        | none => simp [hfind] at hs
        | some c =>
          cases hm : s.mem with
          | none => simp [hfind, hm] at hs
          | some m =>
            simp only [hfind, hm] at hs
            cases hf : m.fam? c.name with
            | none => simp [hf] at hs
            | some f =>
              simp only [hf] at hs
              have hc := hinv c (List.mem_of_find?_eq_some hfind)
              rw [hc.1, commitLocked_none] at hs
              cases hce : commitEditLog m f.opt.id c.logs with
              | none => simp [hce] at hs
              | some r =>
                obtain ⟨m', ops⟩ := r
                simp only [hce, Option.some.injEq, Prod.mk.injEq] at hs
                obtain ⟨rfl, rfl⟩ := hs
                have hfe : (eraseFl infl).find? (fun c => c.1 = th) = some (c.t, c.name, c.logs) := by
                  simp only [eraseFl, List.find?_map, Function.comp_def, hfind, Option.map_some]
                have hfl : (eraseFl infl).filter (fun c => c.1 ≠ th) = eraseFl (infl.filter (fun c => c.t ≠ th)) := by
                  simp only [eraseFl, List.filter_map, Function.comp_def]
                have hrun : runOp cfg s (.edit c.name c.logs) = some (⟨some m', applyFsList s.disk ops⟩, ops) := by
                  simp [runOp, hm, editCommit, hf, hc.2, hce]
                simp only [project, hfe, execAll, exec, hrun, Option.map_some, hfl]
                exact ih _ _ _ _ (fun c hc => hinv c (List.mem_filter.mp hc).1) hr

end LinVerif.Kv
