/-
C01 helper lemmas: reading back the entries written by the bufio entry writer returns exactly those
entries, for every read-buffer size (wherever the buffer boundaries fall).
-/
import LinVerif.Model.Entries
import LinVerif.Lemmas.C01Codec

namespace LinVerif.Kv

theorem stream_fill (B : Nat) (s : RState) : (fill B s).stream = s.stream := by
  unfold fill RState.stream
  cases h : s.buf with
  | nil => simp [List.take_append_drop]
  | cons x u => simp [h]

theorem readByte_spec (B : Nat) (hB : 1 ≤ B) (s : RState) (b : Nat) (t : Bytes) (h : s.stream = b :: t) :
    ∃ s', readByte B s = some (b, s') ∧ s'.stream = t := by
  have hf := stream_fill B s
  rw [h] at hf
  unfold readByte
  cases hb : (fill B s).buf with
  | nil =>
    exfalso
    -- an empty buffer after fill means the file is exhausted
    unfold fill at hb
    cases hsb : s.buf with
    | nil =>
      simp only [hsb] at hb
      have hr : s.rest = b :: t := by simpa [RState.stream, hsb] using h
      rw [hr] at hb
      obtain ⟨B', rfl⟩ : ∃ B', B = B' + 1 := ⟨B - 1, by omega⟩
      simp at hb
    | cons x u => simp [hsb] at hb
  | cons x u =>
    simp only [RState.stream, hb, List.cons_append, List.cons.injEq] at hf
    obtain ⟨rfl, hu⟩ := hf
    exact ⟨_, rfl, hu⟩

theorem take_take_len {α : Type} (l : List α) (n : Nat) : l.take (l.take n).length = l.take n := by
  induction l generalizing n with
  | nil => simp
  | cons x t ih => cases n with
    | zero => simp
    | succ n => simp [ih]

theorem drop_take_len {α : Type} (l : List α) (n : Nat) : l.drop (l.take n).length = l.drop n := by
  induction l generalizing n with
  | nil => simp
  | cons x t ih => cases n with
    | zero => simp
    | succ n => simp [ih]

theorem drop_take_append_drop {α : Type} (l : List α) (n B : Nat) (h : n ≤ B) :
    (l.take B).drop n ++ l.drop B = l.drop n := by
  induction l generalizing n B with
  | nil => simp
  | cons x t ih =>
    cases B with
    | zero => have : n = 0 := by omega
              subst this; simp
    | succ B =>
      cases n with
      | zero => simp
      | succ n => simpa using ih n B (by omega)

theorem take_ne_nil {α : Type} (l : List α) (n : Nat) (hn : 0 < n) (hl : l ≠ []) : l.take n ≠ [] := by
  cases l with
  | nil => exact absurd rfl hl
  | cons x t =>
    obtain ⟨n', rfl⟩ : ∃ n', n = n' + 1 := ⟨n - 1, by omega⟩
    simp

theorem readSome_spec (B : Nat) (s : RState) (n : Nat) :
    (readSome B s n).1 = s.stream.take (readSome B s n).1.length ∧
    (readSome B s n).2.stream = s.stream.drop (readSome B s n).1.length ∧
    (readSome B s n).1.length ≤ n ∧
    (0 < n → s.stream ≠ [] → (readSome B s n).1 ≠ []) := by
  unfold readSome
  cases hsb : s.buf with
  | nil =>
    simp only
    by_cases hn : B ≤ n
    · simp only [hn, if_true, RState.stream, hsb, List.nil_append]
      exact ⟨(take_take_len _ _).symm, (drop_take_len _ _).symm, by simp only [List.length_take]; omega,
        fun h0 hne => take_ne_nil _ _ h0 hne⟩
    · simp only [hn, if_false]
      have hfb : (fill B s).buf = s.rest.take B := by simp [fill, hsb]
      have hfr : (fill B s).rest = s.rest.drop B := by simp [fill, hsb]
      have hnB : n ≤ B := by omega
      have htt : (s.rest.take B).take n = s.rest.take n := by
        rw [List.take_take]; congr 1; omega
      simp only [hfb, hfr, RState.stream, hsb, List.nil_append, htt]
      refine ⟨(take_take_len _ _).symm, ?_, by simp only [List.length_take]; omega,
        fun h0 hne => take_ne_nil _ _ h0 hne⟩
      rw [drop_take_append_drop _ _ _ hnB, drop_take_len]
  | cons x u =>
    simp only [RState.stream, hsb]
    have hl : ((x :: u).take n).length ≤ (x :: u).length := by simp only [List.length_take]; omega
    refine ⟨?_, ?_, by simp only [List.length_take]; omega, fun h0 _ => take_ne_nil _ _ h0 (by simp)⟩
    · rw [List.take_append_of_le_length hl, take_take_len]
    · rw [List.drop_append_of_le_length hl, drop_take_len]

/-- io.ReadFull returns exactly the next `n` bytes of the stream, however the buffer is laid out -/
theorem readFull_spec (B : Nat) : ∀ (fuel n : Nat) (s : RState) (a t : Bytes),
    s.stream = a ++ t → a.length = n → n ≤ fuel →
    (readFull B fuel s n).1 = a ∧ (readFull B fuel s n).2.stream = t := by
  intro fuel
  induction fuel with
  | zero =>
    intro n s a t hs ha hn
    have : n = 0 := by omega
    subst this
    have : a = [] := List.eq_nil_of_length_eq_zero ha
    subst this
    simpa [readFull] using hs
  | succ fuel ih =>
    intro n s a t hs ha hn
    unfold readFull
    by_cases h0 : n = 0
    · subst h0
      have : a = [] := List.eq_nil_of_length_eq_zero ha
      subst this
      simpa using hs
    · simp only [h0, if_false]
      obtain ⟨h1, h2, h3, h4⟩ := readSome_spec B s n
      have hne : s.stream ≠ [] := by
        rw [hs]; intro e
        have : a = [] := (List.append_eq_nil_iff.mp e).1
        rw [this] at ha; simp at ha; omega
      have hc := h4 (by omega) hne
      simp only [hc, if_false]
      -- the chunk is a prefix of `a`
      generalize hcdef : (readSome B s n).1 = c at h1 h2 h3 hc ⊢
      generalize hsdef : (readSome B s n).2 = s2 at h2 ⊢
      have hca : c = a.take c.length := by
        have h1' := h1
        rw [hs, List.take_append_of_le_length (by omega)] at h1'
        exact h1'
      have hrest : s2.stream = a.drop c.length ++ t := by
        have h2' := h2
        rw [hs, List.drop_append_of_le_length (by omega)] at h2'
        exact h2'
      have hpos : 0 < c.length := by
        cases hq : c with
        | nil => exact absurd hq hc
        | cons _ _ => simp
      have := ih (n - c.length) s2 (a.drop c.length) t hrest
        (by simp only [List.length_drop]; omega) (by omega)
      refine ⟨?_, this.2⟩
      rw [this.1]
      conv => rhs; rw [← List.take_append_drop c.length a]
      rw [← hca]

theorem readUvarintR_spec (B : Nat) (hB : 1 ≤ B) : ∀ (bytes : Bytes) (s : RState) (fuel : Nat) (v : Nat) (r : Bytes),
    s.stream = bytes → getUvarint bytes = some (v, r) → bytes.length ≤ fuel →
    ∃ s', readUvarintR B fuel s = some (v, s') ∧ s'.stream = r := by
  intro bytes
  induction bytes with
  | nil => intro s fuel v r _ h; simp [getUvarint] at h
  | cons b t ih =>
    intro s fuel v r hs hg hf
    obtain ⟨fuel', rfl⟩ : ∃ f, fuel = f + 1 := ⟨fuel - 1, by simp at hf; omega⟩
    obtain ⟨s1, hrb, hs1⟩ := readByte_spec B hB s b t hs
    simp only [readUvarintR, hrb]
    simp only [getUvarint] at hg
    by_cases hb : b < 128
    · simp only [hb, if_true, Option.some.injEq, Prod.mk.injEq] at hg ⊢
      obtain ⟨rfl, rfl⟩ := hg
      exact ⟨s1, ⟨rfl, rfl⟩, hs1⟩
    · simp only [hb, if_false] at hg ⊢
      cases hgt : getUvarint t with
      | none => simp [hgt] at hg
      | some p =>
        obtain ⟨v', r'⟩ := p
        simp only [hgt, Option.some.injEq, Prod.mk.injEq] at hg
        obtain ⟨rfl, rfl⟩ := hg
        obtain ⟨s2, h2, hs2⟩ := ih s1 fuel' v' r' hs1 hgt (by simp at hf; omega)
        exact ⟨s2, by simp [h2], hs2⟩

theorem putUvarint_ne_nil (n : Nat) : putUvarint n ≠ [] := by
  unfold putUvarint
  cases n with
  | zero => simp [putUvarintAux]
  | succ k => unfold putUvarintAux; split <;> simp

theorem length_writeEntries_cons (r : Bytes) (t : List Bytes) :
    (writeEntries t).length + 1 ≤ (writeEntries (r :: t)).length := by
  have := putUvarint_ne_nil r.length
  simp only [writeEntries, writeEntry, List.length_append]
  have : 0 < (putUvarint r.length).length := by
    cases h : putUvarint r.length with
    | nil => exact absurd h this
    | cons _ _ => simp
  omega

/-- reading back what the entry writer wrote returns exactly the entries, for every buffer size -/
theorem readEntriesF_spec (B : Nat) (hB : 1 ≤ B) : ∀ (recs : List Bytes) (s : RState) (fuel : Nat),
    s.stream = writeEntries recs → (writeEntries recs).length + 1 ≤ fuel →
    readEntriesF B fuel s = (recs, true) := by
  intro recs
  induction recs with
  | nil =>
    intro s fuel hs hf
    obtain ⟨fuel', rfl⟩ : ∃ f, fuel = f + 1 := ⟨fuel - 1, by omega⟩
    have : s.buf = [] ∧ s.rest = [] := by
      have : s.buf ++ s.rest = [] := by simpa [RState.stream, writeEntries] using hs
      exact List.append_eq_nil_iff.mp this
    simp [readEntriesF, this]
  | cons r t ih =>
    intro s fuel hs hf
    obtain ⟨fuel', rfl⟩ : ∃ f, fuel = f + 1 := ⟨fuel - 1, by omega⟩
    have hne : s.stream ≠ [] := by
      rw [hs]; simp only [writeEntries, writeEntry]
      intro e
      exact putUvarint_ne_nil r.length (List.append_eq_nil_iff.mp (List.append_eq_nil_iff.mp e).1).1
    have hg : getUvarint s.stream = some (r.length, r ++ writeEntries t) := by
      rw [hs]; simp only [writeEntries, writeEntry, List.append_assoc]
      exact getUvarint_put _ _
    have hlen : s.stream.length ≤ fuel' := by rw [hs]; omega
    obtain ⟨s1, h1, hs1⟩ := readUvarintR_spec B hB s.stream s fuel' r.length _ rfl hg hlen
    obtain ⟨h2, h3⟩ := readFull_spec B r.length r.length s1 r (writeEntries t) hs1 rfl (Nat.le_refl _)
    have hne' : ¬ (s.buf = [] ∧ s.rest = []) := by
      rintro ⟨hb, hr⟩; exact hne (by simp [RState.stream, hb, hr])
    simp only [readEntriesF, hne', if_false, h1, h2, Nat.lt_irrefl]
    have := ih (readFull B r.length s1 r.length).2 fuel' h3 (by have := length_writeEntries_cons r t; omega)
    simp [this]

end LinVerif.Kv
