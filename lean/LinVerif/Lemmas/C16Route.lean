/-
C16 — helper lemmas for the routing model (run grouping, family groups, eviction).
-/
import Mathlib.Data.List.Perm.Basic
import Mathlib.Data.List.TakeWhile
import LinVerif.Model.Route

namespace LinVerif.Lemmas.C16
open LinVerif.Row LinVerif.Route

/-! ### `runs` -/

theorem runs_flatten {α : Type} (p : α → α → Bool) (l : List α) :
    (runs p l).flatMap (fun g => g.1 :: g.2) = l := by
  induction l using runs.induct (p := p) with
  | case1 => simp [runs]
  | case2 a rest ih =>
    rw [runs]
    simp only [List.flatMap_cons, ih, List.cons_append, List.takeWhile_append_dropWhile]

theorem runs_related {α : Type} (p : α → α → Bool) (l : List α) :
    ∀ g ∈ runs p l, ∀ b ∈ g.2, p g.1 b = true := by
  induction l using runs.induct (p := p) with
  | case1 => simp [runs]
  | case2 a rest ih =>
    rw [runs]
    intro g hg b hb
    rcases List.mem_cons.1 hg with rfl | hg'
    · exact List.mem_takeWhile_imp hb
    · exact ih g hg' b hb

theorem runs_mem {α : Type} (p : α → α → Bool) (l : List α) :
    ∀ g ∈ runs p l, ∀ b ∈ g.1 :: g.2, b ∈ l := by
  intro g hg b hb
  rw [← runs_flatten p l]
  exact List.mem_flatMap.2 ⟨g, hg, hb⟩

/-- On a list ordered by `le`, if being `p`-related to an element is "convex" (whatever lies between
an element and something related to it is related too), the head of a later group is never related
to the head of an earlier group: the scan cannot split one class into two groups. -/
theorem runs_heads_unrelated {α : Type} (p : α → α → Bool) (le : α → α → Prop)
    (conv : ∀ a x b, le a x → le x b → p a b = true → p a x = true) (l : List α)
    (hl : l.Pairwise le) :
    (runs p l).Pairwise (fun g₁ g₂ => p g₁.1 g₂.1 = false) := by
  induction l using runs.induct (p := p) with
  | case1 => simp [runs]
  | case2 a rest ih =>
    rw [runs]
    have hl' := List.pairwise_cons.1 hl
    have hdw : (rest.dropWhile (p a)).Pairwise le := List.Pairwise.sublist (List.dropWhile_sublist (p a)) hl'.2
    refine List.pairwise_cons.2 ⟨?_, ih hdw⟩
    intro g hg
    have hmem : g.1 ∈ rest.dropWhile (p a) := runs_mem p _ g hg g.1 List.mem_cons_self
    cases hd : rest.dropWhile (p a) with
    | nil => rw [hd] at hmem; simp at hmem
    | cons x dw' =>
      have hx : p a x = false := by
        have := List.head_dropWhile_not (p a) (l := rest) (by rw [hd]; simp)
        simpa [hd] using this
      have hxin : x ∈ rest := (List.dropWhile_sublist (p a)).subset (by rw [hd]; exact List.mem_cons_self)
      have hax : le a x := hl'.1 x hxin
      rw [hd] at hmem hdw
      rcases List.mem_cons.1 hmem with he | hin
      · simpa [he] using hx
      · have hxg : le x g.1 := (List.pairwise_cons.1 hdw).1 g.1 hin
        by_contra hcon
        have hcon' : p a g.1 = true := by simpa using hcon
        have := conv a x g.1 hax hxg hcon'
        rw [hx] at this
        cases this

/-! ### contract of the calculator -/

/-- What routing needs of the interval calculator (C13 proves these for the real calculators;
here they are proved for the day calculator and the UTC month calculator):
a timestamp lies in its own family range, and a timestamp inside a family range has that same
range and family time. -/
structure CalcSpec (C : Calc) : Prop where
  self : ∀ t, contains (C.range t) t = true
  consistent : ∀ t t', contains (C.range t) t' = true → C.range t' = C.range t ∧ C.famTime t' = C.famTime t
  determined : ∀ t t', C.famTime t = C.famTime t' → C.range t = C.range t'

theorem contains_iff (r : Int × Int) (t : Int) : contains r t = true ↔ r.1 ≤ t ∧ t ≤ r.2 := by
  simp [contains]

theorem dayCalc_spec : CalcSpec dayCalc := by
  constructor
  · intro t
    rw [contains_iff]
    simp only [dayCalc, oneDay, oneHour]
    omega
  · intro t t' h
    rw [contains_iff] at h
    simp only [dayCalc, oneDay, oneHour] at h
    simp only [dayCalc, oneDay, oneHour, Prod.mk.injEq]
    omega
  · intro t t' h
    simp only [dayCalc, oneDay, oneHour] at h
    simp only [dayCalc, oneDay, oneHour, Prod.mk.injEq]
    omega

theorem monthCalc_spec : CalcSpec monthCalc := by
  constructor
  · intro t
    rw [contains_iff]
    simp only [monthCalc, oneDay]
    omega
  · intro t t' h
    rw [contains_iff] at h
    simp only [monthCalc, oneDay] at h
    simp only [monthCalc, oneDay, Prod.mk.injEq]
    omega
  · intro t t' h
    simp only [monthCalc, oneDay] at h
    simp only [monthCalc, oneDay, Prod.mk.injEq]
    omega

/-! ### family groups of one shard group -/

theorem familyGroups_perm (C : Calc) {sortTs : List BRow → List BRow}
    (hs : SortSpec lessTs sortTs) (l : List BRow) :
    ((familyGroups C sortTs l).flatMap (fun fg => fg.2)).Perm l := by
  cases l with
  | nil => simp [familyGroups]
  | cons a rest =>
    simp only [familyGroups]
    split
    · simp
    · rw [List.flatMap_map]
      simp only
      rw [runs_flatten]
      exact hs.perm _

/-- every family group is non-empty, its family time is the one of a member, and — with a
conforming calculator — every member lies in ITS OWN family's range and has the group's family time -/
theorem familyGroups_family (C : Calc) (hC : CalcSpec C) {sortTs : List BRow → List BRow}
    (l : List BRow) :
    ∀ fg ∈ familyGroups C sortTs l, fg.2 ≠ [] ∧
      ∀ r ∈ fg.2, C.famTime r.row.ts = fg.1 ∧ contains (C.range r.row.ts) r.row.ts = true := by
  cases l with
  | nil => simp [familyGroups]
  | cons a rest =>
    simp only [familyGroups]
    split
    · rename_i hall
      intro fg hfg
      simp only [List.mem_singleton] at hfg
      subst hfg
      refine ⟨by simp, ?_⟩
      intro r hr
      refine ⟨?_, hC.self _⟩
      rcases List.mem_cons.1 hr with rfl | hr'
      · rfl
      · exact (hC.consistent _ _ (List.all_eq_true.1 hall r hr')).2
    · intro fg hfg
      obtain ⟨g, hg, rfl⟩ := List.mem_map.1 hfg
      refine ⟨by simp, ?_⟩
      intro r hr
      refine ⟨?_, hC.self _⟩
      rcases List.mem_cons.1 hr with rfl | hr'
      · rfl
      · exact (hC.consistent _ _ (runs_related _ _ g hg r hr')).2

/-- the family groups of one shard group have pairwise different family times -/
theorem familyGroups_distinct (C : Calc) (hC : CalcSpec C) {sortTs : List BRow → List BRow}
    (hs : SortSpec lessTs sortTs) (l : List BRow) :
    (familyGroups C sortTs l).Pairwise (fun a b => a.1 ≠ b.1) := by
  cases l with
  | nil => simp [familyGroups]
  | cons a rest =>
    simp only [familyGroups]
    split
    · simp
    · rw [List.pairwise_map]
      have hsorted : (sortTs (a :: rest)).Pairwise (fun x y => x.row.ts ≤ y.row.ts) :=
        (hs.ordered _).imp (fun {x y} h => by simpa [lessTs] using h)
      have hun := runs_heads_unrelated (inFamilyOf C) (fun x y => x.row.ts ≤ y.row.ts) ?_ _ hsorted
      · refine hun.imp ?_
        intro g₁ g₂ h heq
        have hr := hC.determined _ _ heq
        have hself := hC.self g₂.1.row.ts
        rw [← hr] at hself
        simp only [inFamilyOf] at h
        rw [hself] at h
        cases h
      · intro x y z hxy hyz hp
        simp only [inFamilyOf, contains_iff] at hp ⊢
        have hself := (contains_iff _ _).1 (hC.self x.row.ts)
        omega

/-! ### fast path vs. slow path of the family iterator -/

theorem runs_all_related {α : Type} (p : α → α → Bool) (h : α) (t : List α) (hall : ∀ x ∈ t, p h x = true) :
    runs p (h :: t) = [(h, t)] := by
  rw [runs]
  have h1 : t.takeWhile (p h) = t := List.takeWhile_eq_self_iff.2 hall
  have h2 : t.dropWhile (p h) = [] := List.dropWhile_eq_nil_iff.2 hall
  rw [h1, h2]
  simp [runs]

theorem forall₂_refl_groups : ∀ (gs : List (Int × List BRow)),
    List.Forall₂ (fun g g' => g.1 = g'.1 ∧ g.2.Perm g'.2) gs gs
  | [] => List.Forall₂.nil
  | g :: rest => List.Forall₂.cons ⟨rfl, List.Perm.refl _⟩ (forall₂_refl_groups rest)

theorem familyGroups_fast_slow (C : Calc) (hC : CalcSpec C) {sortTs : List BRow → List BRow}
    (hst : SortSpec lessTs sortTs) (l : List BRow) :
    List.Forall₂ (fun g g' => g.1 = g'.1 ∧ g.2.Perm g'.2)
      (familyGroups C sortTs l) (familyGroupsSlow C sortTs l) := by
  cases l with
  | nil => simp [familyGroups, familyGroupsSlow]
  | cons a rest =>
    simp only [familyGroups, familyGroupsSlow]
    split
    · rename_i hall
      -- every row of the group lies in a's family range
      have hin : ∀ x ∈ a :: rest, contains (C.range a.row.ts) x.row.ts = true := by
        intro x hx
        rcases List.mem_cons.1 hx with rfl | hx'
        · exact hC.self _
        · exact List.all_eq_true.1 hall x hx'
      have hperm := hst.perm (a :: rest)
      cases hs : sortTs (a :: rest) with
      | nil =>
        rw [hs] at hperm
        exact absurd (List.perm_nil.1 hperm.symm) (by simp)
      | cons h t =>
        rw [hs] at hperm
        have hh : contains (C.range a.row.ts) h.row.ts = true := hin h (hperm.subset List.mem_cons_self)
        obtain ⟨hr, hf⟩ := hC.consistent _ _ hh
        have hall' : ∀ x ∈ t, inFamilyOf C h x = true := by
          intro x hx
          simp only [inFamilyOf]
          rw [hr]
          exact hin x (hperm.subset (List.mem_cons_of_mem _ hx))
        rw [runs_all_related (inFamilyOf C) h t hall']
        simp only [List.map_cons, List.map_nil]
        exact List.Forall₂.cons ⟨hf.symm, hperm.symm⟩ List.Forall₂.nil
    · exact forall₂_refl_groups _

/-! ### the pooled batch object -/

/-- what NewShardGroupIterator and everything after it reads of a row: all but the old shard index -/
def strip (r : BRow) : Nat × Stored × Bool := (r.id, r.row, r.oor)

theorem assignShards_of_strip (jump : Nat → Nat → Nat) (n : Nat) {l₁ l₂ : List BRow}
    (h : l₁.map strip = l₂.map strip) : assignShards jump n l₁ = assignShards jump n l₂ := by
  have key : ∀ l : List BRow, assignShards jump n l =
      (l.map strip).map (fun t => (⟨t.1, t.2.1, jump t.2.1.hash n, t.2.2⟩ : BRow)) := by
    intro l
    simp [assignShards, strip, List.map_map, Function.comp_def]
  rw [key l₁, key l₂, h]

/-- the rows a (possibly failing) sequence of appends produces -/
def accepted (rs : List (Except Err Stored)) : List Stored :=
  rs.filterMap (fun r => match r with | .ok s => some s | .error _ => none)

theorem appendMany_cur (rs : List (Except Err Stored)) : ∀ b : PBatch,
    (b.appendMany rs).cur.map strip =
      b.cur.map strip ++ (appendAll.go [] b.cur.length (accepted rs)).map strip := by
  induction rs with
  | nil => intro b; simp [PBatch.appendMany, accepted, appendAll.go]
  | cons r rest ih =>
    intro b
    have hstep : b.appendMany (r :: rest) = (b.tryAppend r).appendMany rest := rfl
    rw [hstep, ih]
    cases r with
    | ok s =>
      simp [PBatch.tryAppend, accepted, appendAll.go, strip]
    | error e =>
      simp [PBatch.tryAppend, accepted]

/-! ### eviction -/

theorem evict_oor (behind ahead now : Int) (rows : List BRow) :
    ∀ r' ∈ evict behind ahead now rows, ∃ r ∈ rows, r'.id = r.id ∧ r'.row = r.row ∧ r'.shard = r.shard ∧
      r'.oor = (r.oor || outside behind ahead now r.row.ts) := by
  intro r' hr'
  obtain ⟨r, hr, rfl⟩ := List.mem_map.1 hr'
  refine ⟨r, hr, ?_⟩
  by_cases h : outside behind ahead now r.row.ts = true
  · simp [h]
  · simp [h]

end LinVerif.Lemmas.C16
