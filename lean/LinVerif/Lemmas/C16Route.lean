/-
C16 — helper lemmas for the routing model (run grouping, family groups, eviction).
-/
import Mathlib.Data.List.Perm.Basic
import Mathlib.Data.List.TakeWhile
import LinVerif.Model.Route

namespace LinVerif.Lemmas.C16
open LinVerif.Row LinVerif.Route

/-! ### `runs` -/

theorem runs_flatten {α : Type} (p : α → α → Bool) (l : List α) :
    (runs p l).flatMap (fun g => g.1 :: g.2) = l := by
  induction l using runs.induct (p := p) with
  | case1 => simp [runs]
  | case2 a rest ih =>
    rw [runs]
    simp only [List.flatMap_cons, ih, List.cons_append, List.takeWhile_append_dropWhile]

theorem runs_related {α : Type} (p : α → α → Bool) (l : List α) :
    ∀ g ∈ runs p l, ∀ b ∈ g.2, p g.1 b = true := by
  induction l using runs.induct (p := p) with
  | case1 => simp [runs]
  | case2 a rest ih =>
    rw [runs]
    intro g hg b hb
    rcases List.mem_cons.1 hg with rfl | hg'
    · exact List.mem_takeWhile_imp hb
    · exact ih g hg' b hb

theorem runs_mem {α : Type} (p : α → α → Bool) (l : List α) :
    ∀ g ∈ runs p l, ∀ b ∈ g.1 :: g.2, b ∈ l := by
  intro g hg b hb
  rw [← runs_flatten p l]
  exact List.mem_flatMap.2 ⟨g, hg, hb⟩

/-! ### contract of the calculator -/

/-- What routing needs of the interval calculator (C13 proves these for the real calculators;
here they are proved for the day calculator and the UTC month calculator):
a timestamp lies in its own family range, and a timestamp inside a family range has that same
range and family time. -/
structure CalcSpec (C : Calc) : Prop where
  self : ∀ t, contains (C.range t) t = true
  consistent : ∀ t t', contains (C.range t) t' = true → C.range t' = C.range t ∧ C.famTime t' = C.famTime t

theorem contains_iff (r : Int × Int) (t : Int) : contains r t = true ↔ r.1 ≤ t ∧ t ≤ r.2 := by
  simp [contains]

theorem dayCalc_spec : CalcSpec dayCalc := by
  constructor
  · intro t
    rw [contains_iff]
    simp only [dayCalc, oneDay, oneHour]
    omega
  · intro t t' h
    rw [contains_iff] at h
    simp only [dayCalc, oneDay, oneHour] at h
    simp only [dayCalc, oneDay, oneHour, Prod.mk.injEq]
    omega

theorem monthCalc_spec : CalcSpec monthCalc := by
  constructor
  · intro t
    rw [contains_iff]
    simp only [monthCalc, oneDay]
    omega
  · intro t t' h
    rw [contains_iff] at h
    simp only [monthCalc, oneDay] at h
    simp only [monthCalc, oneDay, Prod.mk.injEq]
    omega

/-! ### family groups of one shard group -/

theorem familyGroups_perm (C : Calc) {sortTs : List BRow → List BRow}
    (hs : SortSpec lessTs sortTs) (l : List BRow) :
    ((familyGroups C sortTs l).flatMap (fun fg => fg.2)).Perm l := by
  cases l with
  | nil => simp [familyGroups]
  | cons a rest =>
    simp only [familyGroups]
    split
    · simp
    · rw [List.flatMap_map]
      simp only
      rw [runs_flatten]
      exact hs.perm _

/-- every family group is non-empty, its family time is the one of a member, and — with a
conforming calculator — every member lies in ITS OWN family's range and has the group's family time -/
theorem familyGroups_family (C : Calc) (hC : CalcSpec C) {sortTs : List BRow → List BRow}
    (l : List BRow) :
    ∀ fg ∈ familyGroups C sortTs l, fg.2 ≠ [] ∧
      ∀ r ∈ fg.2, C.famTime r.row.ts = fg.1 ∧ contains (C.range r.row.ts) r.row.ts = true := by
  cases l with
  | nil => simp [familyGroups]
  | cons a rest =>
    simp only [familyGroups]
    split
    · rename_i hall
      intro fg hfg
      simp only [List.mem_singleton] at hfg
      subst hfg
      refine ⟨by simp, ?_⟩
      intro r hr
      refine ⟨?_, hC.self _⟩
      rcases List.mem_cons.1 hr with rfl | hr'
      · rfl
      · exact (hC.consistent _ _ (List.all_eq_true.1 hall r hr')).2
    · intro fg hfg
      obtain ⟨g, hg, rfl⟩ := List.mem_map.1 hfg
      refine ⟨by simp, ?_⟩
      intro r hr
      refine ⟨?_, hC.self _⟩
      rcases List.mem_cons.1 hr with rfl | hr'
      · rfl
      · exact (hC.consistent _ _ (runs_related _ _ g hg r hr')).2

/-! ### eviction -/

theorem evict_oor (behind ahead now : Int) (rows : List BRow) :
    ∀ r' ∈ evict behind ahead now rows, ∃ r ∈ rows, r'.id = r.id ∧ r'.row = r.row ∧ r'.shard = r.shard ∧
      r'.oor = (r.oor || outside behind ahead now r.row.ts) := by
  intro r' hr'
  obtain ⟨r, hr, rfl⟩ := List.mem_map.1 hr'
  refine ⟨r, hr, ?_⟩
  by_cases h : outside behind ahead now r.row.ts = true
  · simp [h]
  · simp [h]

end LinVerif.Lemmas.C16
