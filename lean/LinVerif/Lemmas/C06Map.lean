/-
Association-list and arithmetic helper lemmas for the C06 proofs (additions to Util/Map.lean).
-/
import LinVerif.Model.FanOut

set_option linter.unusedSimpArgs false

namespace LinVerif.FanOut
open LinVerif.Map

variable {κ : Type} [DecidableEq κ] {ν ν' : Type}

theorem lookup_cons (k' : κ) (v : ν) (t : List (κ × ν)) (k : κ) :
    lookup ((k', v) :: t) k = if k' = k then some v else lookup t k := rfl

theorem lookup_map_val (f : κ → ν → ν') (l : List (κ × ν)) (k : κ) :
    lookup (l.map (fun p => (p.1, f p.1 p.2))) k = (lookup l k).map (f k) := by
  induction l with
  | nil => simp [lookup]
  | cons p t ih =>
    obtain ⟨k', v'⟩ := p
    by_cases h : k' = k
    · subst h; simp [lookup]
    · simp [lookup, h, ih]

theorem lookup_filter_key (p : κ → Bool) (l : List (κ × ν)) (k : κ) :
    lookup (l.filter (fun e => p e.1)) k = if p k then lookup l k else none := by
  induction l with
  | nil => simp [lookup]
  | cons e t ih =>
    obtain ⟨k', v'⟩ := e
    by_cases hp : p k' = true
    · by_cases h : k' = k
      · subst h; simp [List.filter_cons, hp, lookup]
      · simp [List.filter_cons, hp, lookup, h, ih]
    · by_cases h : k' = k
      · subst h; simp [List.filter_cons, hp, lookup, ih]
      · simp [List.filter_cons, hp, lookup, h, ih]

theorem mem_of_lookup {l : List (κ × ν)} {k : κ} {v : ν} (h : lookup l k = some v) : (k, v) ∈ l := by
  induction l with
  | nil => simp [lookup] at h
  | cons e t ih =>
    obtain ⟨k', v'⟩ := e
    by_cases h1 : k' = k
    · subst h1
      simp [lookup] at h
      subst h
      exact List.mem_cons_self
    · simp only [lookup, h1, ite_false] at h
      exact List.mem_cons_of_mem _ (ih h)

theorem lookup_isSome_of_mem {l : List (κ × ν)} {k : κ} {v : ν} (h : (k, v) ∈ l) : ∃ v', lookup l k = some v' := by
  induction l with
  | nil => cases h
  | cons e t ih =>
    obtain ⟨k', v'⟩ := e
    by_cases h1 : k' = k
    · exact ⟨v', by simp [lookup, h1]⟩
    · have : (k, v) ∈ t := by
        rcases List.mem_cons.mp h with h2 | h2
        · exact absurd (congrArg Prod.fst h2).symm h1
        · exact h2
      obtain ⟨w, hw⟩ := ih this
      exact ⟨w, by simp [lookup, h1, hw]⟩

/-- `minAck` is a lower bound of its start value and of every group's ack -/
theorem minAck_le_start (a : Int) (l : List (Nat × Group)) : minAck a l ≤ a := by
  induction l generalizing a with
  | nil => simp [minAck]
  | cons p t ih =>
    obtain ⟨k, g⟩ := p
    simp only [minAck]
    by_cases hlt : g.ack < a
    · simp only [hlt, if_true]; have := ih g.ack; omega
    · simp only [hlt, if_false]; have := ih a; omega

theorem minAck_le_mem (a : Int) (l : List (Nat × Group)) (k : Nat) (g : Group) (h : (k, g) ∈ l) :
    minAck a l ≤ g.ack := by
  induction l generalizing a with
  | nil => cases h
  | cons p t ih =>
    obtain ⟨k', g'⟩ := p
    simp only [minAck]
    rcases List.mem_cons.mp h with h1 | h1
    · have e : g = g' := congrArg Prod.snd h1
      subst e
      by_cases hlt : g.ack < a
      · simp only [hlt, if_true]; have := minAck_le_start g.ack t; omega
      · simp only [hlt, if_false]; have := minAck_le_start a t; omega
    · exact ih _ h1

theorem ipOf_mono {m m' : Int} (h : m ≤ m') : ipOf m ≤ ipOf m' := by
  unfold ipOf
  exact Nat.div_le_div_right (Int.toNat_le_toNat h)

theorem mem_acquire_self (ps : List Nat) (p : Nat) : p ∈ acquire ps p := by
  unfold acquire
  split
  · assumption
  · exact List.mem_cons_self

theorem mem_acquire_of_mem {ps : List Nat} {x : Nat} (p : Nat) (h : x ∈ ps) : x ∈ acquire ps p := by
  unfold acquire
  split
  · exact h
  · exact List.mem_cons_of_mem _ h

end LinVerif.FanOut
