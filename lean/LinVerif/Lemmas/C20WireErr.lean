/-
C20 helper lemmas: the failure modes of `UnmarshalBinary` (`TrieWire.parseR`).
* every reader only looks at a prefix of the buffer (`Ext`): appending bytes never changes an `ok` result;
* round trip on the branch-for-branch reader;
* hence a truncated image is never accepted;
* unmarshalling into an object that was used before leaves nothing of the previous use.
-/
import LinVerif.Lemmas.C20Wire

set_option linter.unusedSimpArgs false
set_option linter.unusedVariables false

namespace LinVerif.Lemmas.C20
open LinVerif.Louds LinVerif.TrieWire

/-- a reader looks only at the bytes it consumes -/
def Ext {α : Type} (p : Rd α) : Prop := ∀ b s x r, p b = .ok (x, r) → p (b ++ s) = .ok (x, r ++ s)

theorem ext_bind {α β : Type} {p : Rd α} {q : α → Rd β} (hp : Ext p) (hq : ∀ x, Ext (q x)) : Ext (p.bind q) := by
  intro b s y r h
  unfold Rd.bind at h ⊢
  cases hpb : p b with
  | ok xr =>
    obtain ⟨x, r1⟩ := xr
    rw [hpb] at h
    simp only at h
    rw [hp b s x r1 hpb]
    exact hq x r1 s y r h
  | err k => rw [hpb] at h; cases h
  | panic => rw [hpb] at h; cases h

theorem ext_pure {α : Type} (x : α) : Ext (Rd.pure x) := by
  intro b s y r h
  simp only [Rd.pure, Res.ok.injEq, Prod.mk.injEq] at h ⊢
  obtain ⟨rfl, rfl⟩ := h
  exact ⟨rfl, rfl⟩

theorem ext_need (n : Nat) (k : String) : Ext (need n k) := by
  intro b s y r h
  unfold need at h ⊢
  by_cases hl : b.length < n
  · simp [hl] at h
  · simp only [hl, if_false, Res.ok.injEq, Prod.mk.injEq] at h
    obtain ⟨_, rfl⟩ := h
    have : ¬ (b ++ s).length < n := by simp only [List.length_append]; omega
    simp only [this, if_false]

theorem ext_guardP (c : Bool) : Ext (guardP c) := by
  intro b s y r h
  unfold guardP at h ⊢
  cases c with
  | false => simp at h
  | true =>
    simp only [if_true, Res.ok.injEq, Prod.mk.injEq] at h ⊢
    obtain ⟨_, rfl⟩ := h
    exact ⟨trivial, rfl⟩

theorem readU32_ext (b s : List Nat) (x : Nat) (r : List Nat) (h : readU32 b = some (x, r)) :
    readU32 (b ++ s) = some (x, r ++ s) := by
  match b, h with
  | a :: b' :: c :: d :: t, h =>
    simp only [readU32, Option.some.injEq, Prod.mk.injEq] at h
    obtain ⟨rfl, rfl⟩ := h
    rfl

theorem readBytes_ext (n : Nat) (b s x r : List Nat) (h : readBytes n b = some (x, r)) :
    readBytes n (b ++ s) = some (x, r ++ s) := by
  unfold readBytes at h ⊢
  by_cases hl : b.length < n
  · simp [hl] at h
  · simp only [hl, if_false, Option.some.injEq, Prod.mk.injEq] at h
    obtain ⟨rfl, rfl⟩ := h
    have : ¬ (b ++ s).length < n := by simp only [List.length_append]; omega
    simp only [this, if_false]
    rw [List.take_append_of_le_length (by omega), List.drop_append_of_le_length (by omega)]

theorem ext_u32R : Ext u32R := by
  intro b s x r h
  unfold u32R at h ⊢
  cases hb : readU32 b with
  | none => rw [hb] at h; cases h
  | some xr =>
    obtain ⟨x', r'⟩ := xr
    rw [hb] at h
    simp only [Res.ok.injEq, Prod.mk.injEq] at h
    obtain ⟨rfl, rfl⟩ := h
    rw [readU32_ext b s _ _ hb]

theorem ext_bytesP (n : Nat) : Ext (bytesP n) := by
  intro b s x r h
  unfold bytesP at h ⊢
  cases hb : readBytes n b with
  | none => rw [hb] at h; cases h
  | some xr =>
    obtain ⟨x', r'⟩ := xr
    rw [hb] at h
    simp only [Res.ok.injEq, Prod.mk.injEq] at h
    obtain ⟨rfl, rfl⟩ := h
    rw [readBytes_ext n b s _ _ hb]

theorem ext_bytesE (n : Nat) (k : String) : Ext (bytesE n k) := by
  intro b s x r h
  unfold bytesE at h ⊢
  cases hb : readBytes n b with
  | none => rw [hb] at h; cases h
  | some xr =>
    obtain ⟨x', r'⟩ := xr
    rw [hb] at h
    simp only [Res.ok.injEq, Prod.mk.injEq] at h
    obtain ⟨rfl, rfl⟩ := h
    rw [readBytes_ext n b s _ _ hb]

theorem ext_labelsR : Ext labelsR :=
  ext_bind (ext_need _ _) fun _ => ext_bind ext_u32R fun _ => ext_bind (ext_guardP _) fun _ => ext_bytesP _

theorem ext_bitsR (n : Nat) : Ext (bitsR n) := ext_bind (ext_bytesE _ _) fun _ => ext_pure _

theorem ext_rankR : Ext rankR :=
  ext_bind (ext_need _ _) fun _ => ext_bind ext_u32R fun _ => ext_bind (ext_bitsR _) fun _ =>
    ext_bind ext_u32R fun _ => ext_bind (ext_guardP _) fun _ => ext_bind (ext_bytesE _ _) fun _ => ext_pure _

theorem ext_selR : Ext selR :=
  ext_bind (ext_need _ _) fun _ => ext_bind ext_u32R fun _ => ext_bind (ext_bitsR _) fun _ =>
    ext_bind ext_u32R fun _ => ext_bind (ext_bytesE _ _) fun _ => ext_pure _

theorem ext_pathR : Ext pathR :=
  ext_bind ext_rankR fun _ => ext_bind (ext_need _ _) fun _ => ext_bind ext_u32R fun _ => ext_bind ext_u32R fun _ =>
    ext_bind (ext_need _ _) fun _ => ext_bind (ext_bytesP _) fun _ => ext_bind (ext_bytesP _) fun _ => ext_pure _

theorem ext_valuesR (n : Nat) : Ext (valuesR n) := ext_bind (ext_bytesP _) fun _ => ext_pure _

/-- **`UnmarshalBinary` looks only at the bytes it consumes**: whatever follows an accepted image
is ignored (the kv store hands it exactly the value, but nothing depends on that) -/
theorem ext_parseR : Ext parseR :=
  ext_bind (ext_need _ _) fun _ => ext_bind ext_u32R fun _ => ext_bind ext_u32R fun _ =>
    ext_bind ext_labelsR fun _ => ext_bind ext_rankR fun _ => ext_bind ext_selR fun _ =>
      ext_bind ext_pathR fun _ => ext_bind ext_pathR fun _ => ext_bind (ext_valuesR _) fun _ => ext_pure _

/-! ### round trip on the branch-for-branch reader -/

theorem u32R_u32le (n : Nat) (h : U32 n) (r : List Nat) : u32R (u32le n ++ r) = .ok (n, r) := by
  unfold u32R; rw [readU32_u32le n h r]

theorem bytesP_append (l r : List Nat) : bytesP l.length (l ++ r) = .ok (l, r) := by
  unfold bytesP; rw [readBytes_append]

theorem bytesE_append (l r : List Nat) (k : String) : bytesE l.length k (l ++ r) = .ok (l, r) := by
  unfold bytesE; rw [readBytes_append]

theorem le32s_u32le (x : Nat) (h : U32 x) (r : List Nat) : le32s (u32le x ++ r) = x :: le32s r := by
  unfold U32 at h
  simp only [u32le, List.cons_append, List.nil_append, le32s, List.cons.injEq, and_true]
  omega

theorem le32s_u32s (xs : List Nat) (h : ∀ x ∈ xs, U32 x) : le32s (u32s xs) = xs := by
  induction xs with
  | nil => rfl
  | cons x t ih =>
    rw [u32s_cons, le32s_u32le x (h x (List.mem_cons_self ..)),
      ih (fun y hy => h y (List.mem_cons_of_mem _ hy))]

theorem bitsR_bitsToBytes (bs : List Bool) (r : List Nat) : bitsR bs.length (bitsToBytes bs ++ r) = .ok (bs, r) := by
  unfold bitsR Rd.bind
  rw [← bitsToBytes_length bs, bytesE_append]
  simp only [Rd.pure, bitsToBytes, unpack_pack _ _ (padded_length bs)]
  simp

theorem need_ok (n : Nat) (k : String) (b : List Nat) (h : n ≤ b.length) : need n k b = .ok ((), b) := by
  unfold need
  have : ¬ b.length < n := by omega
  simp [this]

/-- the lengths the reader recomputes in `uint32` do not wrap -/
structure RankFits (v : RankVec) : Prop where
  lut : U32 ((v.bits.length / v.blockSize + 1) * 4)

theorem rankR_writeRank (v : RankVec) (h : RankOK v) (hf : RankFits v) (r : List Nat) :
    rankR (writeRank v ++ r) = .ok (v, r) := by
  obtain ⟨vbits, vblock, vlut⟩ := v
  have hlut : ((vbits.length / vblock + 1) * 4) % two32 = (u32s vlut).length := by
    have h1 := hf.lut
    have h2 := h.lutLen
    simp only [U32] at h1
    simp only at h1 h2
    rw [u32s_length, h2, two32, Nat.mod_eq_of_lt h1]; omega
  have hb : (vblock != 0) = true := by have := h.blockPos; simpa using this
  unfold rankR writeRank Rd.bind
  simp only [List.append_assoc]
  rw [need_ok _ _ _ (by simp only [List.length_append, u32le_length]; omega)]
  simp only [u32R_u32le _ h.bits, bitsR_bitsToBytes, u32R_u32le _ h.block, guardP, hb, if_true, hlut,
    bytesE_append, Rd.pure, le32s_u32s _ h.lut]

theorem selR_writeSel (v : SelVec) (h : SelOK v) (r : List Nat) : selR (writeSel v ++ r) = .ok (v, r) := by
  obtain ⟨vbits, vones, vlut⟩ := v
  have hlut : ((vones / selectSampleInterval + 1) * 4) % two32 = (u32s vlut).length := by
    have h1 := h.ones
    have h2 := h.lutLen
    simp only [U32] at h1
    simp only at h1 h2
    have hS : selectSampleInterval = 64 := rfl
    rw [u32s_length, h2, two32, hS, Nat.mod_eq_of_lt (by omega)]; omega
  unfold selR writeSel Rd.bind
  simp only [List.append_assoc]
  rw [need_ok _ _ _ (by simp only [List.length_append, u32le_length]; omega)]
  simp only [u32R_u32le _ h.bits, bitsR_bitsToBytes, u32R_u32le _ h.ones, hlut,
    bytesE_append, Rd.pure, le32s_u32s _ h.lut]

theorem pathR_writePath (v : PathVec) (h : PathOK v) (hf : RankFits v.has) (r : List Nat) :
    pathR (writePath v ++ r) = .ok (v, r) := by
  obtain ⟨vhas, voffsets, vdata⟩ := v
  have hol : voffsets.length * 4 = (u32s voffsets).length := by rw [u32s_length]; omega
  unfold pathR writePath
  unfold Rd.bind
  simp only [List.append_assoc]
  rw [rankR_writeRank _ h.has hf]
  simp only []
  rw [need_ok _ _ _ (by simp only [List.length_append, u32le_length]; omega)]
  simp only [u32R_u32le _ h.offsetsLen, u32R_u32le _ h.dataLen]
  rw [need_ok _ _ _ (by
    simp only [List.length_append, u32s_length]
    have := Nat.mod_le (voffsets.length * 4 + vdata.length) two32
    omega)]
  simp only [hol, bytesP_append, Rd.pure, le32s_u32s _ h.offsets]

/-- the additional no-wrap conditions of the branch-for-branch reader -/
structure WireFits (w : Wire) : Prop where
  labels4 : U32 (4 + w.labels.length)
  hasChild : RankFits w.hasChild
  pfx : RankFits w.pfx.has
  sfx : RankFits w.sfx.has

theorem labelsR_write (l : List Nat) (h : U32 l.length) (h4 : U32 (4 + l.length)) (r : List Nat) :
    labelsR (u32le l.length ++ (l ++ r)) = .ok (l, r) := by
  unfold labelsR Rd.bind
  rw [need_ok _ _ _ (by simp only [List.length_append, u32le_length]; omega)]
  simp only [u32R_u32le _ h]
  have hm : (4 + l.length) % two32 = 4 + l.length := Nat.mod_eq_of_lt h4
  have hg : decide (4 ≤ (4 + l.length) % two32) = true := by rw [hm]; simp
  have hg' : decide (4 ≤ 4 + l.length) = true := by simp
  simp only [guardP, hg, hg', if_true, hm, Nat.add_sub_cancel_left, bytesP_append]

/-- round trip of the branch-for-branch reader, with anything appended -/
theorem parseR_marshal (w : Wire) (h : WireOK w) (hf : WireFits w) (s : List Nat) :
    parseR (marshal w ++ s) = .ok (w, s) := by
  obtain ⟨wk, wh, wl, whc, wlo, wp, ws, wv⟩ := w
  have hvl : wk * 4 = (u32s wv).length := by rw [u32s_length]; have := h.valuesLen; simp only at this; omega
  have hlen : 9 ≤ (marshal ⟨wk, wh, wl, whc, wlo, wp, ws, wv⟩ ++ s).length := by
    simp only [marshal, writeRank, List.length_append, u32le_length]; omega
  unfold parseR
  unfold Rd.bind
  rw [need_ok _ _ _ hlen]
  simp only [marshal, List.append_assoc]
  simp only [u32R_u32le _ h.keys, u32R_u32le _ h.height, labelsR_write _ h.labels hf.labels4,
    rankR_writeRank _ h.hasChild hf.hasChild, selR_writeSel _ h.louds, pathR_writePath _ h.pfx hf.pfx,
    pathR_writePath _ h.sfx hf.sfx, valuesR, Rd.bind, hvl, bytesP_append, Rd.pure, le32s_u32s _ h.values]

theorem unmarshalR_marshal_wire (w : Wire) (h : WireOK w) (hf : WireFits w) : unmarshalR (marshal w) = .ok w := by
  have := parseR_marshal w h hf []
  rw [List.append_nil] at this
  simp [unmarshalR, this]

/-- **a truncated image is never accepted**: every proper prefix of a serialised trie makes
`UnmarshalBinary` return an error or panic — it never yields a trie -/
theorem unmarshalR_truncated (w : Wire) (h : WireOK w) (hf : WireFits w) (m : Nat) (hm : m < (marshal w).length) :
    ∀ w', unmarshalR ((marshal w).take m) ≠ .ok w' := by
  intro w' hok
  unfold unmarshalR at hok
  cases hp : parseR ((marshal w).take m) with
  | err k => rw [hp] at hok; cases hok
  | panic => rw [hp] at hok; cases hok
  | ok xr =>
    obtain ⟨x, r⟩ := xr
    have he := ext_parseR _ ((marshal w).drop m) x r hp
    rw [List.take_append_drop] at he
    have hfull := parseR_marshal w h hf []
    rw [List.append_nil] at hfull
    rw [hfull] at he
    simp only [Res.ok.injEq, Prod.mk.injEq] at he
    have : ((marshal w).drop m).length = 0 := by
      have h2 := congrArg List.length he.2
      simp only [List.length_nil, List.length_append] at h2
      omega
    simp only [List.length_drop] at this
    omega

/-! ### unmarshalling into a used object -/

/-- the outcome of `UnmarshalBinary` does not depend on what the object held, and after a successful
call NOTHING of the previous use is left: the object is exactly the parsed image -/
theorem unmarshalInto_spec (prev : Wire) (b : List Nat) :
    (unmarshalInto prev b).2 = (match unmarshalR b with | .ok _ => .ok () | .err k => .err k | .panic => .panic) ∧
    (∀ w, unmarshalR b = .ok w → (unmarshalInto prev b).1 = w) := by
  unfold unmarshalInto unmarshalR parseR
  simp only [Rd.bind, andThen, Rd.pure]
  cases need 9 "eof" b with
  | err k => simp
  | panic => simp
  | ok x1 =>
    obtain ⟨_, b1⟩ := x1
    simp only []
    cases u32R b1 with
    | err k => simp
    | panic => simp
    | ok x2 =>
      obtain ⟨tk, b2⟩ := x2
      simp only []
      cases u32R b2 with
      | err k => simp
      | panic => simp
      | ok x3 =>
        obtain ⟨hh, b3⟩ := x3
        simp only []
        cases labelsR b3 with
        | err k => simp
        | panic => simp
        | ok x4 =>
          obtain ⟨l, b4⟩ := x4
          simp only []
          cases rankR b4 with
          | err k => simp
          | panic => simp
          | ok x5 =>
            obtain ⟨hc, b5⟩ := x5
            simp only []
            cases selR b5 with
            | err k => simp
            | panic => simp
            | ok x6 =>
              obtain ⟨lo, b6⟩ := x6
              simp only []
              cases pathR b6 with
              | err k => simp
              | panic => simp
              | ok x7 =>
                obtain ⟨pf, b7⟩ := x7
                simp only []
                cases pathR b7 with
                | err k => simp
                | panic => simp
                | ok x8 =>
                  obtain ⟨sf, b8⟩ := x8
                  simp only []
                  cases valuesR tk b8 with
                  | err k => simp
                  | panic => simp
                  | ok x9 =>
                    obtain ⟨vs, b9⟩ := x9
                    simp

end LinVerif.Lemmas.C20
