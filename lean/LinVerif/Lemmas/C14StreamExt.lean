/-
Lemmas about Model/StreamExt.lean: signed fixed-width round trips, any sequence of typed puts reads back,
SliceWriter overflow, SeekStart, DecodeTSDTime, ByteSlice2Uint32.
-/
import LinVerif.Lemmas.C14Stream
import LinVerif.Model.StreamExt

namespace LinVerif.Stream
open LinVerif.Varint

theorem toU16_lt (i : Int) : toU16 i < 65536 := by unfold toU16; omega
theorem toU32_lt (i : Int) : toU32 i < 4294967296 := by unfold toU32; simp only [two32]; omega
theorem toU64_lt (i : Int) : toU64 i < 18446744073709551616 := by unfold toU64; simp only [two64]; omega

theorem toI16_toU16 (i : Int) (h1 : -32768 ≤ i) (h2 : i < 32768) : toI16 (toU16 i : Nat) = i := by
  unfold toI16 toU16; omega

theorem toI32_toU32 (i : Int) (h1 : -(two31 : Int) ≤ i) (h2 : i < (two31 : Int)) : toI32 (toU32 i : Nat) = i := by
  unfold toI32 toU32; simp only [two31, two32] at *; omega

theorem toI64_toU64 (i : Int) (h1 : -(two63 : Int) ≤ i) (h2 : i < (two63 : Int)) : toI64 (toU64 i : Nat) = i := by
  unfold toI64 toU64; simp only [two63, two64] at *; omega

/-- one put, read back with the read of the same shape, whatever follows -/
theorem readLike_put (orig rest : List Nat) (p : Put) (h : p.ok) :
    (⟨orig, p.enc ++ rest, .none⟩ : Reader).readLike p = (p, ⟨orig, rest, .none⟩) := by
  cases p with
  | byte b => simp [Reader.readLike, Reader.readByte, Put.enc]
  | bytes bs => simp only [Reader.readLike, Put.enc, readSlice_append]
  | u16 v => simp only [Reader.readLike, Put.enc, readUint16_put orig rest v h]
  | u32 v => simp only [Reader.readLike, Put.enc, readUint32_put orig rest v (by simpa [Put.ok, two32] using h)]
  | u64 v => simp only [Reader.readLike, Put.enc, readUint64_put orig rest v (by simpa [Put.ok, two64] using h)]
  | i16 i =>
    simp only [Reader.readLike, Put.enc, Reader.readInt16, readUint16_put orig rest _ (toU16_lt i),
      toI16_toU16 i h.1 h.2]
  | i32 i =>
    simp only [Reader.readLike, Put.enc, Reader.readInt32, readUint32_put orig rest _ (toU32_lt i),
      toI32_toU32 i h.1 h.2]
  | i64 i =>
    simp only [Reader.readLike, Put.enc, Reader.readInt64, readUint64_put orig rest _ (toU64_lt i),
      toI64_toU64 i h.1 h.2]
  | uv v => simp only [Reader.readLike, Put.enc, readUvarint64_put orig rest v h]
  | sv i => simp only [Reader.readLike, Put.enc, readVarint64_put orig rest i h.1 h.2]

/-- any list of puts, read back shape by shape -/
theorem readAllLike_puts (orig : List Nat) : ∀ (ps : List Put) (rest : List Nat), (∀ p ∈ ps, p.ok) →
    (⟨orig, ps.flatMap Put.enc ++ rest, .none⟩ : Reader).readAllLike ps = (ps, ⟨orig, rest, .none⟩) := by
  intro ps
  induction ps with
  | nil => intro rest _; rfl
  | cons p t ih =>
    intro rest hok
    simp only [List.flatMap_cons, List.append_assoc, Reader.readAllLike]
    rw [readLike_put orig _ p (hok p (by simp))]
    simp only [ih rest (fun q hq => hok q (by simp [hq]))]

theorem put_buf (w : Writer) (p : Put) : (w.put p).buf = w.buf ++ p.enc := by
  cases p <;> rfl

theorem puts_buf (ps : List Put) : ∀ w : Writer, (ps.foldl Writer.put w).buf = w.buf ++ ps.flatMap Put.enc := by
  induction ps with
  | nil => intro w; simp
  | cons p t ih => intro w; simp [List.foldl_cons, ih, put_buf, List.append_assoc]

theorem seekStart_eq (r : Reader) : r.seekStart = ⟨r.orig, r.orig, .none⟩ := by
  simp [Reader.seekStart, Reader.readAt]

end LinVerif.Stream

namespace LinVerif.Tsd

theorem rd16_le16_0 (s : Nat) (t : List Nat) (h : s < 65536) : rd16 (le16 s ++ t) 0 = s := by
  simp [rd16, le16]; omega

theorem rd16_le16_2 (a s : Nat) (t : List Nat) (h : s < 65536) : rd16 (le16 a ++ (le16 s ++ t)) 2 = s := by
  simp [rd16, le16]; omega

end LinVerif.Tsd

namespace LinVerif.FixedOffset

theorem byteSlice2Uint32_leBytes (w v : Nat) (hw : 1 ≤ w ∧ w ≤ 4) (hv : v < 256 ^ w) :
    byteSlice2Uint32 (leBytes w v) = v := by
  obtain rfl | rfl | rfl | rfl : w = 1 ∨ w = 2 ∨ w = 3 ∨ w = 4 := by omega
  all_goals (simp [byteSlice2Uint32, leBytes] at *; omega)

theorem chunks_flatten (e : Enc) : e.chunks.flatten = e.marshal := by
  unfold Enc.chunks Enc.marshal
  by_cases h : e.values = []
  · simp [h]
  · simp [h, List.flatMap_def]

end LinVerif.FixedOffset
