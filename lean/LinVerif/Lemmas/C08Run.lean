/-
C08 helper lemmas, part 4: the invariant of the whole two-follower state (`Full`), the symmetry
`St.swap`, every event, and induction over event lists.
-/
import LinVerif.Lemmas.C08Step

namespace LinVerif.Replication

/-- every older image is a past state of every newer one (newest first) -/
def Chain : List Img → Prop
  | [] => True
  | i :: t => (∀ o, o ∈ t → Pre o.L i.L) ∧ Chain t

structure Full (s : St) : Prop where
  a : InvA s
  b : InvB s
  chain : Chain s.imgs
  bndA : s.chan = .ready → s.stream ≠ .none
  bndB : s.chan2 = .ready → s.stream2 ≠ .none
  stA : s.stopped = true → s.chan = .init
  stB : s.stopped2 = true → s.chan2 = .init
  ubA : s.born = false → s.stopped = true ∧ s.cons = -1 ∧ s.gack = -1
  ubB : s.born2 = false → s.stopped2 = true ∧ s.cons2 = -1 ∧ s.gack2 = -1

/-- histories without leader tail loss: per-follower extras -/
structure NLF (s : St) : Prop where
  a : NLA s
  b : NLB s

/-- histories without leader tail loss and without follower Put faults: the ghost flags are never raised -/
structure DZF (s : St) : Prop where
  dza : s.dz = false
  dzb : s.dz2 = false
  cla : s.closed = false
  clb : s.closed2 = false

/-! ### swap -/

theorem map_va_swap (l : List Img) : (l.map Img.swap).map Img.va = l.map Img.vb := by
  rw [List.map_map]; rfl

theorem map_vb_swap (l : List Img) : (l.map Img.swap).map Img.vb = l.map Img.va := by
  rw [List.map_map]; rfl

theorem img_swap_swap (i : Img) : i.swap.swap = i := rfl

theorem map_swap_swap (l : List Img) : (l.map Img.swap).map Img.swap = l := by
  rw [List.map_map]
  have : (Img.swap ∘ Img.swap) = id := by funext i; rfl
  rw [this, List.map_id]

theorem swap_swap (s : St) : s.swap.swap = s := by
  cases s
  simp only [St.swap, map_swap_swap]

theorem chain_swap : ∀ (l : List Img), Chain l → Chain (l.map Img.swap)
  | [], _ => trivial
  | i :: t, h => by
    refine ⟨?_, chain_swap t h.2⟩
    intro o ho
    rcases List.mem_map.mp ho with ⟨o', ho', rfl⟩
    exact h.1 o' ho'

theorem full_swap {s : St} (h : Full s) : Full s.swap :=
  ⟨invA_mk h.b rfl rfl rfl rfl rfl rfl rfl (map_va_swap _) rfl,
   invB_mk h.a rfl rfl rfl rfl rfl rfl rfl (map_vb_swap _) rfl,
   chain_swap _ h.chain, h.bndB, h.bndA, h.stB, h.stA, h.ubB, h.ubA⟩

theorem nlf_swap {s : St} (h : NLF s) : NLF s.swap := ⟨h.b, h.a⟩
theorem dzf_swap {s : St} (h : DZF s) : DZF s.swap := ⟨h.dzb, h.dza, h.clb, h.cla⟩

def Ev.putFault : Ev → Bool
  | .step _ .put => true
  | .online _ .put => true
  | .steponl _ .put => true
  | .steppre _ .put => true
  | .fclose _ => true
  | _ => false

/-! ### events of one follower (A) -/

theorem nlc_lift {L : Log} {c g : Int} {F : Log} (h : NLC L c g F) (hl : L.ack ≤ L.app) (hgc : g ≤ c) :
    NLC L (liftCons c (liftAck g L.ack)) (liftAck g L.ack) F := by
  unfold liftCons liftAck
  refine ⟨?_, h.f_app, ?_, h.g⟩
  · have := h.cons_app; split <;> split <;> omega
  · have := h.f_ack; split <;> omega


/-- what an event of follower A guarantees -/
structure PeerPost (s s' : St) (o : Out) (e : Ev) : Prop where
  inv : InvA s'
  bnd : s'.chan = .ready → s'.stream ≠ .none
  stp : s'.stopped = true → s'.chan = .init
  ub : s'.born = false → s'.stopped = true ∧ s'.cons = -1 ∧ s'.gack = -1
  label : o ≠ .ignored ∧ (s.dz = false → s.closed = false → e.putFault = false → o ≠ .mismatch)
  ackok : s.stopped = false → s'.gack ≠ s.gack → s'.gack ≤ s'.F.app
  joinok : s.stopped = true → s'.gack = s.gack ∨ s'.gack ≤ s'.L.ack
  gmono : s.gack ≤ s'.gack
  fack : s'.F.ack = s.F.ack ∨ s'.F.ack = s.gack ∨ s'.F.ack = -1
  cover : s.stopped = false → ∀ i, s.gack < i → i ≤ s'.gack → i ≤ s'.F.app
  nl : NLA s → NLA s'
  frame : Frame s s'
  dzkeep : s.dz = false → s.closed = false → e.putFault = false → s'.dz = false
  clkeep : s.closed = false → e.putFault = false → s'.closed = false

theorem peerpost_of_evpost {s s0 s' : St} {o : Out} {e : Ev} {f : Fault} (h : EvPost s0 s' o f) (hst : s0.stopped = false)
    (e1 : s0.gack = s.gack) (e2 : s0.F = s.F) (e3 : s0.dz = s.dz) (hn : NLA s → NLA s0) (hf : Plain s s0)
    (e4 : s0.stopped = s.stopped) (hb : s0.born = false → False) (hp : e.putFault = false → f ≠ .put)
    (e5 : s0.closed = s.closed) :
    PeerPost s s' o e := by
  refine ⟨h.inv, h.bnd, ?_, ?_, ⟨h.label.1, ?_⟩, fun _ => by rw [← e1]; exact h.ackok, ?_, by rw [← e1]; exact h.gmono, ?_,
    fun _ => by rw [← e1]; exact h.cover, fun n => h.nl (hn n), ?_,
    fun d c p => h.dzkeep (by rw [e3]; exact d) (by rw [e5]; exact c) (hp p), fun c _ => h.cl (by rw [e5]; exact c)⟩
  · intro x
    rw [h.own.1, hst] at x; cases x
  · intro x
    rw [h.own.2] at x; exact (hb x).elim
  · intro d c p
    rw [← e3] at d
    rw [← e5] at c
    by_cases hr : s0.chan = .ready
    · exact h.label.2.1 d c hr (hp p)
    · exact h.label.2.2 hr c (hp p)
  · intro x
    rw [← e4, hst] at x; cases x
  · rw [← e1, ← e2]
    rcases h.fack with x | x
    · exact Or.inl x
    · exact Or.inr (Or.inl x)
  · rcases h.frame with f | f
    · exact Or.inl (plain_trans hf f)
    · refine Or.inr ⟨same2_trans hf.1 f.1, ?_, ?_, ?_, ?_, ?_⟩
      · rw [← e2, ← hf.2.1]; exact f.2.1
      · rw [← e2, ← hf.2.1]; exact f.2.2.1
      · rw [← e2, ← hf.1.stopped2, ← hf.2.2.1]; exact f.2.2.2.1
      · rw [← e2, ← hf.1.stopped2, ← hf.2.2.2.1]; exact f.2.2.2.2.1
      · rw [← hf.1.chan2, ← hf.2.2.2.2]; exact f.2.2.2.2.2

local macro "plain_rfl" : term => `(⟨⟨rfl, rfl, rfl, rfl, rfl, rfl, rfl, rfl, rfl, rfl, rfl⟩, rfl, rfl, rfl, rfl⟩)

theorem peerpost_same {s s' : St} {o : Out} {e : Ev} (hi : InvA s') (hb : s'.chan = .ready → s'.stream ≠ .none)
    (hs : s'.stopped = true → s'.chan = .init)
    (hu : s'.born = false → s'.stopped = true ∧ s'.cons = -1 ∧ s'.gack = -1)
    (ho : o = .idle ∨ o = .noreplicator ∨ o = .suspended ∨ o = .gone ∨ o = .parked)
    (e1 : s'.gack = s.gack) (e2 : s'.F = s.F ∨ s'.F = Log.empty) (e3 : s'.dz = s.dz ∨ e.putFault = true) (e4 : s'.L = s.L) (e5 : s'.cons = s.cons)
    (hf : Plain s s') (e6 : s'.closed = s.closed ∨ e.putFault = true := by exact Or.inl rfl) : PeerPost s s' o e := by
  refine ⟨hi, hb, hs, hu, ⟨?_, ?_⟩, fun _ => by rw [e1]; simp, fun _ => Or.inl e1, by rw [e1]; exact Int.le_refl _, ?_,
    fun _ => by rw [e1]; intros; omega, ?_, Or.inl hf, ?_, ?_⟩
  · rcases ho with x | x | x | x | x <;> rw [x] <;> simp
  · intro _ _ _; rcases ho with x | x | x | x | x <;> rw [x] <;> simp
  · rcases e2 with x | x
    · rw [x]; exact Or.inl rfl
    · rw [x]; exact Or.inr (Or.inr rfl)
  · intro n
    unfold NLA
    rw [e4, e5, e1]
    rcases e2 with x | x
    · rw [x]; exact n
    · rw [x]
      exact nlc_flose n (by have := hi.lint.ack_ge; have := hi.lint.ack_app; rw [e4] at *; omega)
        (by have := hi.lint.gack_ge; rw [e1] at this; exact this)
  · intro d _ p
    rcases e3 with x | x
    · rw [x]; exact d
    · rw [p] at x; cases x
  · intro c p
    rcases e6 with x | x
    · rw [x]; exact c
    · rw [p] at x; cases x

theorem peerEv_spec (cfg : Cfg) (s : St) (e : Ev) (h : InvA s) (hb : s.chan = .ready → s.stream ≠ .none)
    (hs : s.stopped = true → s.chan = .init) (hu : s.born = false → s.stopped = true ∧ s.cons = -1 ∧ s.gack = -1) :
    PeerPost s (peerEv cfg s e).1 (peerEv cfg s e).2 e := by
  have hnb : s.stopped = false → s.born = false → False := fun a b => by rw [(hu b).1] at a; cases a
  have honl : ∀ (f : Fault), (e.putFault = false → f ≠ .put) → PeerPost s (onlineEv cfg s f).1 (onlineEv cfg s f).2 e := by
    intro f hpf
    unfold onlineEv
    dsimp only
    split
    · exact peerpost_same (invA_mk h rfl rfl rfl rfl rfl rfl rfl rfl) hb hs hu (Or.inr (Or.inl rfl)) rfl (Or.inl rfl) (Or.inl rfl) rfl rfl plain_rfl
    · rename_i hst
      have hst' : s.stopped = false := by simpa using hst
      split
      · exact peerpost_of_evpost (replicaStep_spec cfg _ f (invA_mk h rfl rfl rfl rfl rfl rfl rfl rfl) hst')
          hst' rfl rfl rfl id plain_rfl rfl (hnb hst') hpf rfl
      · exact peerpost_same (invA_mk h rfl rfl rfl rfl rfl rfl rfl rfl) hb hs hu (Or.inl rfl) rfl (Or.inl rfl) (Or.inl rfl) rfl rfl plain_rfl
  cases e with
  | step w f =>
    simp only [peerEv]
    split
    · exact peerpost_same h hb hs hu (Or.inr (Or.inl rfl)) rfl (Or.inl rfl) (Or.inl rfl) rfl rfl (plain_refl s)
    · rename_i hst
      have hst' : s.stopped = false := by simpa using hst
      split
      · exact peerpost_same h hb hs hu (Or.inr (Or.inr (Or.inl rfl))) rfl (Or.inl rfl) (Or.inl rfl) rfl rfl (plain_refl s)
      · refine peerpost_of_evpost (replicaStep_spec cfg s f h hst') hst' rfl rfl rfl id (plain_refl s) rfl (hnb hst') ?_ rfl
        intro x y; subst y; simp [Ev.putFault] at x
  | frestart w =>
    simp only [peerEv]
    refine peerpost_same (invA_mk (invc_stream (st' := brokenStream s.stream) (dz' := s.dz) h ?_) rfl rfl rfl rfl rfl rfl rfl rfl) ?_ hs hu
      (Or.inl rfl) rfl (Or.inl rfl) (Or.inl rfl) rfl rfl plain_rfl
    · intro hr _ hnb
      have := hb hr
      cases hst : s.stream <;> simp_all [brokenStream]
    · intro hr
      have := hb hr
      cases hst : s.stream <;> simp_all [brokenStream]
  | flose w =>
    simp only [peerEv]
    refine peerpost_same (invA_mk (invc_flose (st' := brokenStream s.stream) h ?_) rfl rfl rfl rfl rfl rfl rfl rfl) ?_ hs hu
      (Or.inl rfl) rfl (Or.inr rfl) (Or.inl rfl) rfl rfl plain_rfl
    · intro hr
      have := hb hr
      cases hst : s.stream <;> simp_all [brokenStream]
    · intro hr
      have := hb hr
      cases hst : s.stream <;> simp_all [brokenStream]
  | fclose w =>
    simp only [peerEv]
    exact peerpost_same (invA_mk (invc_fclose h) rfl rfl rfl rfl rfl rfl rfl rfl) hb hs hu
      (Or.inl rfl) rfl (Or.inr rfl) (Or.inr rfl) rfl rfl plain_rfl (Or.inr rfl)
  | offline w =>
    simp only [peerEv]
    refine peerpost_same (invA_mk (invc_stream (st' := brokenStream s.stream) (dz' := s.dz) h ?_) rfl rfl rfl rfl rfl rfl rfl rfl) ?_ hs hu
      (Or.inl rfl) rfl (Or.inl rfl) (Or.inl rfl) rfl rfl plain_rfl
    · intro hr _ hnb
      have := hb hr
      cases hst : s.stream <;> simp_all [brokenStream]
    · intro hr
      have := hb hr
      cases hst : s.stream <;> simp_all [brokenStream]
  | online w f =>
    simp only [peerEv]
    exact honl f (by intro x y; subst y; simp [Ev.putFault] at x)
  | steponl w f =>
    simp only [peerEv]
    split
    · rename_i hc
      have hst' : s.stopped = false := hc.1
      have hi0 : InvA { s with chan := .failure, susp := false, live := true } :=
        invA_mk (invc_notready (ch' := .failure) (st' := s.stream) (dz' := s.dz) h (fun x => by cases x)) rfl rfl rfl rfl rfl rfl rfl rfl
      cases hwk : (cfg.tok || cfg.wake) with
      | true =>
        simp only [if_true]
        refine peerpost_of_evpost (replicaStep_spec cfg _ f hi0 hst') hst' rfl rfl rfl id plain_rfl rfl (hnb hst') ?_ rfl
        intro x y; subst y; simp [Ev.putFault] at x
      | false =>
        simp only [Bool.false_eq_true, if_false]
        exact peerpost_same (invA_mk (invc_notready (ch' := .failure) (st' := s.stream) (dz' := s.dz) h (fun x => by cases x)) rfl rfl rfl rfl rfl rfl rfl rfl)
          (fun x => by cases x) (fun x => by rw [hst'] at x; cases x) hu
          (Or.inr (Or.inr (Or.inr (Or.inr rfl)))) rfl (Or.inl rfl) (Or.inl rfl) rfl rfl plain_rfl
    · exact honl f (by intro x y; subst y; simp [Ev.putFault] at x)
  | steppre w f =>
    simp only [peerEv]
    split
    · rename_i hc
      have hst' : s.stopped = false := hc.1
      have hi0 : InvA { s with chan := .failure, susp := false, live := true } :=
        invA_mk (invc_notready (ch' := .failure) (st' := s.stream) (dz' := s.dz) h (fun x => by cases x)) rfl rfl rfl rfl rfl rfl rfl rfl
      cases htk : cfg.tok with
      | true =>
        simp only [if_true]
        refine peerpost_of_evpost (replicaStep_spec cfg _ f hi0 hst') hst' rfl rfl rfl id plain_rfl rfl (hnb hst') ?_ rfl
        intro x y; subst y; simp [Ev.putFault] at x
      | false =>
      simp only [Bool.false_eq_true, if_false]
      exact peerpost_same (invA_mk (invc_notready (ch' := .failure) (st' := s.stream) (dz' := s.dz) h (fun x => by cases x)) rfl rfl rfl rfl rfl rfl rfl rfl)
        (fun x => by cases x) (fun x => by rw [hst'] at x; cases x) hu
        (Or.inr (Or.inr (Or.inr (Or.inr rfl)))) rfl (Or.inl rfl) (Or.inl rfl) rfl rfl plain_rfl
    · exact honl f (by intro x y; subst y; simp [Ev.putFault] at x)
  | join w =>
    simp only [peerEv]
    have hl := h.lint
    split
    · exact peerpost_same h hb hs hu (Or.inl rfl) rfl (Or.inl rfl) (Or.inl rfl) rfl rfl (plain_refl s)
    · rename_i hst
      have hst' : s.stopped = true := by simpa using hst
      split
      · -- the group directory exists: re-open lifts, new replicator
        have hq := lint_lift hl
        refine ⟨invA_mk (invc_restart (st' := .none) (dz' := false) h) rfl rfl rfl rfl rfl rfl rfl rfl, (fun x => by cases x),
          (fun x => by cases x), (fun x => by simp_all), ⟨by simp, by simp⟩, (fun x => by rw [hst'] at x; cases x),
          (fun _ => ?_), hq.2.2.1, Or.inl rfl, (fun x => by rw [hst'] at x; cases x),
          (fun n => nlc_lift n hl.ack_app hl.gack_cons), Or.inl plain_rfl, (fun _ _ _ => rfl), (fun c _ => c)⟩
        show liftAck s.gack s.L.ack = s.gack ∨ liftAck s.gack s.L.ack ≤ s.L.ack
        unfold liftAck
        split
        · exact Or.inr (Int.le_refl _)
        · exact Or.inl rfl
      · -- a brand-new group starts at the queue's acknowledged sequence
        rename_i hbn
        have hbn' : s.born = false := by simpa using hbn
        have hu' := hu hbn'
        refine ⟨invA_mk (invc_join_new h) rfl rfl rfl rfl rfl rfl rfl rfl, (fun x => by cases x),
          (fun x => by cases x), (fun x => by cases x), ⟨by simp, by simp⟩, (fun x => by rw [hst'] at x; cases x),
          (fun _ => Or.inr (Int.le_refl _)), (by rw [hu'.2.2]; exact hl.ack_ge), Or.inl rfl,
          (fun x => by rw [hst'] at x; cases x), (fun n => ?_), Or.inl plain_rfl, (fun _ _ _ => rfl), (fun c _ => c)⟩
        have := n.f_ack
        rw [hu'.2.2] at this
        exact ⟨hl.ack_app, n.f_app, by have := hl.ack_ge; show s.F.ack ≤ s.L.ack; omega, n.g⟩
  | append m => simp only [peerEv]; exact peerpost_same h hb hs hu (Or.inl rfl) rfl (Or.inl rfl) (Or.inl rfl) rfl rfl (plain_refl s)
  | lsnap => simp only [peerEv]; exact peerpost_same h hb hs hu (Or.inl rfl) rfl (Or.inl rfl) (Or.inl rfl) rfl rfl (plain_refl s)
  | lrestore k => simp only [peerEv]; exact peerpost_same h hb hs hu (Or.inl rfl) rfl (Or.inl rfl) (Or.inl rfl) rfl rfl (plain_refl s)
  | lrestart => simp only [peerEv]; exact peerpost_same h hb hs hu (Or.inl rfl) rfl (Or.inl rfl) (Or.inl rfl) rfl rfl (plain_refl s)
  | gc => simp only [peerEv]; exact peerpost_same h hb hs hu (Or.inl rfl) rfl (Or.inl rfl) (Or.inl rfl) rfl rfl (plain_refl s)
  | expire => simp only [peerEv]; exact peerpost_same h hb hs hu (Or.inl rfl) rfl (Or.inl rfl) (Or.inl rfl) rfl rfl (plain_refl s)

/-- a peer event keeps the whole-state invariant -/
theorem peerEv_full (cfg : Cfg) (s : St) (e : Ev) (h : Full s) : Full (peerEv cfg s e).1 := by
  have hp := peerEv_spec cfg s e h.a h.bndA h.stA h.ubA
  have hs := frameSame hp.frame
  have hcg : (peerEv cfg s e).1.stopped2 = true → ((peerEv cfg s e).1.cons2 = s.cons2 ∧ (peerEv cfg s e).1.gack2 = s.gack2) := by
    intro x
    rw [hs.stopped2] at x
    rcases hp.frame with f | f
    · exact ⟨f.2.2.1, f.2.2.2.1⟩
    · exact ⟨by rw [f.2.2.2.1, if_pos x], by rw [f.2.2.2.2.1, if_pos x]⟩
  refine ⟨hp.inv, frame_invB hp.frame h.b, by rw [hs.imgs]; exact h.chain, hp.bnd,
    by rw [hs.chan2, hs.stream2]; exact h.bndB, hp.stp, by rw [hs.stopped2, hs.chan2]; exact h.stB, hp.ub, ?_⟩
  intro x
  rw [hs.born2] at x
  have hb := h.ubB x
  have hc := hcg (by rw [hs.stopped2]; exact hb.1)
  exact ⟨by rw [hs.stopped2]; exact hb.1, by rw [hc.1]; exact hb.2.1, by rw [hc.2]; exact hb.2.2⟩

theorem peerEv_nlf (cfg : Cfg) (s : St) (e : Ev) (h : Full s) (n : NLF s) : NLF (peerEv cfg s e).1 := by
  have hp := peerEv_spec cfg s e h.a h.bndA h.stA h.ubA
  have hpl := frame_plain_of_nl hp.frame n.a
  exact ⟨hp.nl n.a, plain_nlB hpl n.b⟩

theorem peerEv_dzf (cfg : Cfg) (s : St) (e : Ev) (h : Full s) (n : NLF s) (d : DZF s) (hpf : e.putFault = false) :
    DZF (peerEv cfg s e).1 := by
  have hp := peerEv_spec cfg s e h.a h.bndA h.stA h.ubA
  have hpl := frame_plain_of_nl hp.frame n.a
  exact ⟨hp.dzkeep d.dza d.cla hpf, by rw [hpl.2.2.2.2]; exact d.dzb, hp.clkeep d.cla hpf, by rw [(frameSame hp.frame).closed2]; exact d.clb⟩

/-! ### leader-wide events -/

theorem chain_drop : ∀ (k : Nat) (l : List Img), Chain l → Chain (l.drop k)
  | 0, l, h => by simpa using h
  | _ + 1, [], _ => by simp [Chain]
  | k + 1, _ :: t, h => by simpa using chain_drop k t h.2

theorem mem_of_drop_eq {k : Nat} {l : List Img} {im : Img} {rest : List Img} (h : l.drop k = im :: rest) :
    ∀ x, x ∈ im :: rest → x ∈ l := by
  intro x hx
  exact List.mem_of_mem_drop (h ▸ hx)

def Ev.isRestart : Ev → Bool
  | .lrestore _ => true
  | .lrestart => true
  | _ => false

/-- what a leader-wide event guarantees -/
structure GlobPost (s s' : St) (e : Ev) : Prop where
  full : Full s'
  nl : (∀ k, e ≠ .lrestore k) → NLF s → NLF s'
  keep : e.isRestart = false → s'.gack = s.gack ∧ s'.gack2 = s.gack2
  fsame : s'.F = s.F ∧ s'.F2 = s.F2

/-- everything but the queue's ack is the same -/
structure SameButAck (s t : St) : Prop where
  app : t.L.app = s.L.app
  cons : t.cons = s.cons
  gack : t.gack = s.gack
  cons2 : t.cons2 = s.cons2
  gack2 : t.gack2 = s.gack2
  f : t.F = s.F
  f2 : t.F2 = s.F2
  stopped : t.stopped = s.stopped
  stopped2 : t.stopped2 = s.stopped2
  dz : t.dz = s.dz
  dz2 : t.dz2 = s.dz2

theorem sameButAck_refl (s : St) : SameButAck s s := ⟨rfl, rfl, rfl, rfl, rfl, rfl, rfl, rfl, rfl, rfl, rfl⟩

theorem setAckSt_spec (s : St) (h : Full s) (a : Int) (ha : s.stopped = false → a ≤ s.gack)
    (hb : s.stopped2 = false → a ≤ s.gack2) :
    Full (if 0 ≤ a then { s with L := s.L.setAck a } else s) ∧
    (NLF s → NLF (if 0 ≤ a then { s with L := s.L.setAck a } else s)) ∧
    SameButAck s (if 0 ≤ a then { s with L := s.L.setAck a } else s) := by
  split
  · exact ⟨⟨invA_mk (invc_gc h.a ha) rfl rfl rfl rfl rfl rfl rfl rfl, invB_mk (invc_gc h.b hb) rfl rfl rfl rfl rfl rfl rfl rfl,
      h.chain, h.bndA, h.bndB, h.stA, h.stB, h.ubA, h.ubB⟩, fun n => ⟨nlc_gc n.a, nlc_gc n.b⟩,
      ⟨by simp only [setAck_app], rfl, rfl, rfl, rfl, rfl, rfl, rfl, rfl, rfl, rfl⟩⟩
  · exact ⟨h, id, sameButAck_refl s⟩

theorem syncGC_spec (s : St) (h : Full s) :
    Full (syncGC s) ∧ (NLF s → NLF (syncGC s)) ∧ SameButAck s (syncGC s) := by
  unfold syncGC
  split
  · exact ⟨h, id, sameButAck_refl s⟩
  · dsimp only
    apply setAckSt_spec s h
    · intro e
      simp only [e, true_and]
      split <;> split <;> omega
    · intro e
      simp only [e, true_and]
      split <;> split <;> omega

theorem full_stopA {s : St} (h : Full s) : Full (stopA s) :=
  ⟨invA_mk (invc_stop h.a) rfl rfl rfl rfl rfl rfl rfl rfl, invB_mk h.b rfl rfl rfl rfl rfl rfl rfl rfl, h.chain,
   (fun e => by cases e), h.bndB, (fun _ => rfl), h.stB, (fun x => ⟨rfl, (h.ubA x).2⟩), h.ubB⟩

theorem full_stopB {s : St} (h : Full s) : Full (stopB s) :=
  ⟨invA_mk h.a rfl rfl rfl rfl rfl rfl rfl rfl, invB_mk (invc_stop h.b) rfl rfl rfl rfl rfl rfl rfl rfl, h.chain,
   h.bndA, (fun e => by cases e), h.stA, (fun _ => rfl), h.ubA, (fun x => ⟨rfl, (h.ubB x).2⟩)⟩

theorem full_gone {s : St} (h : Full s) : Full { s with gone := true } :=
  ⟨invA_mk h.a rfl rfl rfl rfl rfl rfl rfl rfl, invB_mk h.b rfl rfl rfl rfl rfl rfl rfl rfl, h.chain, h.bndA, h.bndB, h.stA, h.stB, h.ubA, h.ubB⟩

/-- the queue, both groups' positions, both followers' logs, the ghosts and the images are the same -/
structure SameCore (s t : St) : Prop where
  l : t.L = s.L
  cons : t.cons = s.cons
  gack : t.gack = s.gack
  cons2 : t.cons2 = s.cons2
  gack2 : t.gack2 = s.gack2
  f : t.F = s.F
  f2 : t.F2 = s.F2
  dz : t.dz = s.dz
  dz2 : t.dz2 = s.dz2

theorem sameCore_refl (s : St) : SameCore s s := ⟨rfl, rfl, rfl, rfl, rfl, rfl, rfl, rfl, rfl⟩

theorem sameCore_trans {s t u : St} (a : SameCore s t) (b : SameCore t u) : SameCore s u :=
  ⟨b.l.trans a.l, b.cons.trans a.cons, b.gack.trans a.gack, b.cons2.trans a.cons2, b.gack2.trans a.gack2,
   b.f.trans a.f, b.f2.trans a.f2, b.dz.trans a.dz, b.dz2.trans a.dz2⟩

theorem nlf_of_sameCore {s t : St} (c : SameCore s t) (n : NLF s) : NLF t := by
  refine ⟨?_, ?_⟩
  · unfold NLA; rw [c.l, c.cons, c.gack, c.f]; exact n.a
  · unfold NLB; rw [c.l, c.cons2, c.gack2, c.f2]; exact n.b

/-- what `expire` guarantees: a group is stopped (and the partition reported expired) only when it
has acknowledged everything the leader has appended -/
structure ExpPost (s s' : St) (o : Out) : Prop where
  full : Full s'
  nl : NLF s → NLF s'
  gack : s'.gack = s.gack
  gack2 : s'.gack2 = s.gack2
  f : s'.F = s.F
  f2 : s'.F2 = s.F2
  app : s'.L.app = s.L.app
  stopA_ok : s'.stopped = true → s.stopped = false → s.L.app ≤ s.gack
  stopB_ok : s'.stopped2 = true → s.stopped2 = false → s.L.app ≤ s.gack2
  exp_ok : o = .expired → (s.stopped = false → s.L.app ≤ s.gack) ∧ (s.stopped2 = false → s.L.app ≤ s.gack2)
  lbl : o = .idle ∨ o = .expired
  dz : s'.dz = s.dz ∧ s'.dz2 = s.dz2

theorem expire_spec (s : St) (h : Full s) : ExpPost s (expire s).1 (expire s).2 := by
  have hg := syncGC_spec s h
  unfold expire
  generalize syncGC s = t at hg
  obtain ⟨ht, hn, hq⟩ := hg
  dsimp only
  -- first stop
  have h1 : ∀ (c : Prop) [Decidable c], (c → t.stopped = false ∧ t.L.app ≤ t.gack) →
      Full (if c then stopA t else t) ∧ SameCore t (if c then stopA t else t) ∧
      (if c then stopA t else t).stopped2 = t.stopped2 ∧
      ((if c then stopA t else t).stopped = true → t.stopped = false → t.L.app ≤ t.gack) := by
    intro c _ hc
    split
    · rename_i x
      exact ⟨full_stopA ht, ⟨rfl, rfl, rfl, rfl, rfl, rfl, rfl, rfl, rfl⟩, rfl, fun _ _ => (hc x).2⟩
    · exact ⟨ht, sameCore_refl t, rfl, fun a b => by rw [b] at a; cases a⟩
  have h2 : ∀ (u : St), Full u → ∀ (c : Prop) [Decidable c], (c → t.stopped2 = false ∧ t.L.app ≤ t.gack2) → u.stopped2 = t.stopped2 →
      Full (if c then stopB u else u) ∧ SameCore u (if c then stopB u else u) ∧
      (if c then stopB u else u).stopped = u.stopped ∧
      ((if c then stopB u else u).stopped2 = true → t.stopped2 = false → t.L.app ≤ t.gack2) := by
    intro u hu c _ hc hst
    split
    · rename_i x
      exact ⟨full_stopB hu, ⟨rfl, rfl, rfl, rfl, rfl, rfl, rfl, rfl, rfl⟩, rfl, fun _ _ => (hc x).2⟩
    · exact ⟨hu, sameCore_refl u, rfl, fun a b => by rw [hst, b] at a; cases a⟩
  obtain ⟨f1, c1, s1, o1⟩ := h1 (t.stopped = false ∧ t.L.app ≤ t.gack) id
  generalize (if t.stopped = false ∧ t.L.app ≤ t.gack then stopA t else t) = u at f1 c1 s1 o1
  obtain ⟨f2, c2, s2, o2⟩ := h2 u f1 (t.stopped2 = false ∧ t.L.app ≤ t.gack2) id s1
  generalize (if t.stopped2 = false ∧ t.L.app ≤ t.gack2 then stopB u else u) = v at f2 c2 s2 o2
  have cc := sameCore_trans c1 c2
  have stA : v.stopped = true → s.stopped = false → s.L.app ≤ s.gack := by
    intro a b
    rw [s2] at a
    have := o1 a (by rw [hq.stopped]; exact b)
    rw [hq.app, hq.gack] at this; exact this
  have stB : v.stopped2 = true → s.stopped2 = false → s.L.app ≤ s.gack2 := by
    intro a b
    have := o2 a (by rw [hq.stopped2]; exact b)
    rw [hq.app, hq.gack2] at this; exact this
  split
  · exact ⟨f2, fun n => nlf_of_sameCore cc (hn n), by rw [cc.gack]; exact hq.gack, by rw [cc.gack2]; exact hq.gack2,
      by rw [cc.f]; exact hq.f, by rw [cc.f2]; exact hq.f2, by rw [cc.l]; exact hq.app, stA, stB,
      (fun e => by cases e), Or.inl rfl, ⟨by rw [cc.dz]; exact hq.dz, by rw [cc.dz2]; exact hq.dz2⟩⟩
  · rename_i hd
    refine ⟨full_gone f2, fun n => nlf_of_sameCore (sameCore_trans cc ⟨rfl, rfl, rfl, rfl, rfl, rfl, rfl, rfl, rfl⟩) (hn n),
      by dsimp only; rw [cc.gack]; exact hq.gack, by dsimp only; rw [cc.gack2]; exact hq.gack2,
      by dsimp only; rw [cc.f]; exact hq.f, by dsimp only; rw [cc.f2]; exact hq.f2, by dsimp only; rw [cc.l]; exact hq.app,
      stA, stB, fun _ => ⟨?_, ?_⟩, Or.inr rfl, ⟨by dsimp only; rw [cc.dz]; exact hq.dz, by dsimp only; rw [cc.dz2]; exact hq.dz2⟩⟩
    · intro b
      rw [← hq.stopped] at b
      rw [← hq.app, ← hq.gack]
      exact Classical.byContradiction (fun x => hd (Or.inl ⟨b, x⟩))
    · intro b
      rw [← hq.stopped2] at b
      rw [← hq.app, ← hq.gack2]
      exact Classical.byContradiction (fun x => hd (Or.inr ⟨b, x⟩))

theorem syncGC_closed (s : St) : (syncGC s).closed = s.closed ∧ (syncGC s).closed2 = s.closed2 := by
  have key : ∀ a : Int, (if 0 ≤ a then { s with L := s.L.setAck a } else s).closed = s.closed ∧
      (if 0 ≤ a then { s with L := s.L.setAck a } else s).closed2 = s.closed2 := by
    intro a; split <;> exact ⟨rfl, rfl⟩
  unfold syncGC
  split
  · exact ⟨rfl, rfl⟩
  · exact key _

theorem expire_closed (s : St) : (expire s).1.closed = s.closed ∧ (expire s).1.closed2 = s.closed2 := by
  have hg := syncGC_closed s
  unfold expire
  generalize syncGC s = t at hg
  dsimp only
  have h1 : ∀ (c : Prop) [Decidable c] (u : St), (if c then stopA u else u).closed = u.closed ∧ (if c then stopA u else u).closed2 = u.closed2 := by
    intro c _ u; split <;> exact ⟨rfl, rfl⟩
  have h2 : ∀ (c : Prop) [Decidable c] (u : St), (if c then stopB u else u).closed = u.closed ∧ (if c then stopB u else u).closed2 = u.closed2 := by
    intro c _ u; split <;> exact ⟨rfl, rfl⟩
  have a1 := h1 (t.stopped = false ∧ t.L.app ≤ t.gack) t
  generalize (if t.stopped = false ∧ t.L.app ≤ t.gack then stopA t else t) = u at a1
  have a2 := h2 (t.stopped2 = false ∧ t.L.app ≤ t.gack2) u
  generalize (if t.stopped2 = false ∧ t.L.app ≤ t.gack2 then stopB u else u) = v at a2
  split
  · exact ⟨a2.1.trans (a1.1.trans hg.1), a2.2.trans (a1.2.trans hg.2)⟩
  · exact ⟨a2.1.trans (a1.1.trans hg.1), a2.2.trans (a1.2.trans hg.2)⟩

/-! ### every event -/

structure NextPost (s s' : St) (o : Out) (e : Ev) : Prop where
  full : Full s'
  nl : (∀ k, e ≠ .lrestore k) → NLF s → NLF s'
  dzf : (∀ k, e ≠ .lrestore k) → e.putFault = false → NLF s → DZF s → DZF s'
  ignored : o ≠ .ignored
  pa : e.who = some .a → s.gone = false → PeerPost s s' o e
  pb : e.who = some .b → s.gone = false → PeerPost s.swap s'.swap o e
  glob : e.who = none → e.isRestart = false → s'.gack = s.gack ∧ s'.gack2 = s.gack2 ∧ s'.F = s.F ∧ s'.F2 = s.F2
  exp : e = .expire → s.gone = false → ExpPost s s' o
  goneKeep : s.gone = true → s' = s ∧ o = .gone

theorem next_peer_a (cfg : Cfg) (s : St) (e : Ev) (h : Full s) (hg : s.gone = false) (hw : e.who = some .a) :
    NextPost s (peerEv cfg s e).1 (peerEv cfg s e).2 e := by
  have hp := peerEv_spec cfg s e h.a h.bndA h.stA h.ubA
  exact ⟨peerEv_full cfg s e h, fun _ n => peerEv_nlf cfg s e h n, fun _ p n d => peerEv_dzf cfg s e h n d p, hp.label.1,
    fun _ _ => hp, (fun x => by rw [hw] at x; cases x), (fun x => by rw [hw] at x; cases x),
    (fun x => by rw [x] at hw; cases hw), (fun x => by rw [hg] at x; cases x)⟩

theorem next_peer_b (cfg : Cfg) (s : St) (e : Ev) (h : Full s) (hg : s.gone = false) (hw : e.who = some .b) :
    NextPost s (peerEv cfg s.swap e).1.swap (peerEv cfg s.swap e).2 e := by
  have hsw := full_swap h
  have hp := peerEv_spec cfg s.swap e hsw.a hsw.bndA hsw.stA hsw.ubA
  exact ⟨full_swap (peerEv_full cfg s.swap e hsw), fun _ n => nlf_swap (peerEv_nlf cfg s.swap e hsw (nlf_swap n)),
    fun _ p n d => dzf_swap (peerEv_dzf cfg s.swap e hsw (nlf_swap n) (dzf_swap d) p), hp.label.1,
    (fun x => by rw [hw] at x; cases x), fun _ _ => by rw [swap_swap]; exact hp,
    (fun x => by rw [hw] at x; cases x), (fun x => by rw [x] at hw; cases hw), (fun x => by rw [hg] at x; cases x)⟩

theorem va_mem {im : Img} {l : List Img} (h : im ∈ l) : im.va ∈ l.map Img.va := List.mem_map.mpr ⟨im, h, rfl⟩
theorem vb_mem {im : Img} {l : List Img} (h : im ∈ l) : im.vb ∈ l.map Img.vb := List.mem_map.mpr ⟨im, h, rfl⟩

/-- follower A's invariant after the leader re-opened on image `im`, keeping the images `keep` -/
theorem invA_reopen {s : St} (h : InvA s) {im : Img} {keep : List Img} (hi : im ∈ s.imgs)
    (hsub : ∀ x, x ∈ keep → x ∈ s.imgs) (hpre : ∀ x, x ∈ keep → Pre x.L im.L) :
    InvA { reopenLeader s im with imgs := keep } := by
  have hs : ∀ v, v ∈ keep.map Img.va → v ∈ s.imgs.map Img.va := by
    intro v hv; rcases List.mem_map.mp hv with ⟨x, hx, rfl⟩; exact va_mem (hsub x hx)
  have hp : ∀ v, v ∈ keep.map Img.va → Pre v.L im.va.L := by
    intro v hv; rcases List.mem_map.mp hv with ⟨x, hx, rfl⟩; exact hpre x hx
  cases hb : im.born with
  | true =>
    exact invA_mk (invc_restore (im := im.va) (iv' := keep.map Img.va) (st' := .none) (dz' := false) h (va_mem hi) hs hp)
      rfl (by simp [reopenLeader, hb, Img.va]) (by simp [reopenLeader, hb, Img.va]) rfl rfl rfl rfl rfl (by simp [reopenLeader, hb])
  | false =>
    exact invA_mk (invc_restore_unborn (im := im.va) (iv' := keep.map Img.va) h (va_mem hi) hs hp)
      rfl (by simp [reopenLeader, hb]) (by simp [reopenLeader, hb]) rfl rfl rfl rfl rfl (by simp [reopenLeader, hb])

theorem invB_reopen {s : St} (h : InvB s) {im : Img} {keep : List Img} (hi : im ∈ s.imgs)
    (hsub : ∀ x, x ∈ keep → x ∈ s.imgs) (hpre : ∀ x, x ∈ keep → Pre x.L im.L) :
    InvB { reopenLeader s im with imgs := keep } := by
  have hs : ∀ v, v ∈ keep.map Img.vb → v ∈ s.imgs.map Img.vb := by
    intro v hv; rcases List.mem_map.mp hv with ⟨x, hx, rfl⟩; exact vb_mem (hsub x hx)
  have hp : ∀ v, v ∈ keep.map Img.vb → Pre v.L im.vb.L := by
    intro v hv; rcases List.mem_map.mp hv with ⟨x, hx, rfl⟩; exact hpre x hx
  cases hb : im.born2 with
  | true =>
    exact invB_mk (invc_restore (im := im.vb) (iv' := keep.map Img.vb) (st' := .none) (dz' := false) h (vb_mem hi) hs hp)
      rfl (by simp [reopenLeader, hb, Img.vb]) (by simp [reopenLeader, hb, Img.vb]) rfl rfl rfl rfl rfl (by simp [reopenLeader, hb])
  | false =>
    exact invB_mk (invc_restore_unborn (im := im.vb) (iv' := keep.map Img.vb) h (vb_mem hi) hs hp)
      rfl (by simp [reopenLeader, hb]) (by simp [reopenLeader, hb]) rfl rfl rfl rfl rfl (by simp [reopenLeader, hb])

theorem reopen_ub (s : St) (im : Img) (keep : List Img) :
    (({ reopenLeader s im with imgs := keep } : St).born = false →
      ({ reopenLeader s im with imgs := keep } : St).stopped = true ∧ ({ reopenLeader s im with imgs := keep } : St).cons = -1 ∧
      ({ reopenLeader s im with imgs := keep } : St).gack = -1) ∧
    (({ reopenLeader s im with imgs := keep } : St).born2 = false →
      ({ reopenLeader s im with imgs := keep } : St).stopped2 = true ∧ ({ reopenLeader s im with imgs := keep } : St).cons2 = -1 ∧
      ({ reopenLeader s im with imgs := keep } : St).gack2 = -1) := by
  constructor <;> (intro x; simp only [reopenLeader] at x ⊢; simp [x])

theorem full_restore {s : St} (h : Full s) {im : Img} {rest : List Img} {k : Nat} (hd : s.imgs.drop k = im :: rest) :
    Full { reopenLeader s im with imgs := im :: rest } := by
  have hmem := mem_of_drop_eq hd
  have hch : Chain (im :: rest) := hd ▸ chain_drop k s.imgs h.chain
  have hpre : ∀ x, x ∈ im :: rest → Pre x.L im.L := by
    intro x hx
    rcases List.mem_cons.mp hx with rfl | hx
    · exact pre_refl _
    · exact hch.1 x hx
  have hub := reopen_ub s im (im :: rest)
  exact ⟨invA_reopen h.a (hmem im List.mem_cons_self) hmem hpre, invB_reopen h.b (hmem im List.mem_cons_self) hmem hpre,
    hch, (fun e => by cases e), (fun e => by cases e), (fun _ => rfl), (fun _ => rfl), hub.1, hub.2⟩

/-- the current state is (like) an image of itself -/
theorem invA_restart {s : St} (h : InvA s) : InvA (reopenLeader s s.image) := by
  cases hb : s.born with
  | true =>
    exact invA_mk (invc_restart (st' := .none) (dz' := false) h) rfl (by simp [reopenLeader, St.image, hb])
      (by simp [reopenLeader, St.image, hb]) rfl rfl rfl rfl rfl (by simp [reopenLeader, St.image, hb])
  | false =>
    exact invA_mk (invc_unborn h) rfl (by simp [reopenLeader, St.image, hb])
      (by simp [reopenLeader, St.image, hb]) rfl rfl rfl rfl rfl (by simp [reopenLeader, St.image, hb])

theorem invB_restart {s : St} (h : InvB s) : InvB (reopenLeader s s.image) := by
  cases hb : s.born2 with
  | true =>
    exact invB_mk (invc_restart (st' := .none) (dz' := false) h) rfl (by simp [reopenLeader, St.image, hb])
      (by simp [reopenLeader, St.image, hb]) rfl rfl rfl rfl rfl (by simp [reopenLeader, St.image, hb])
  | false =>
    exact invB_mk (invc_unborn h) rfl (by simp [reopenLeader, St.image, hb])
      (by simp [reopenLeader, St.image, hb]) rfl rfl rfl rfl rfl (by simp [reopenLeader, St.image, hb])

theorem full_restart {s : St} (h : Full s) : Full (reopenLeader s s.image) := by
  have hub := reopen_ub s s.image s.imgs
  exact ⟨invA_restart h.a, invB_restart h.b, h.chain, (fun e => by cases e), (fun e => by cases e), (fun _ => rfl), (fun _ => rfl),
    hub.1, hub.2⟩

theorem nlf_restart {s : St} (h : Full s) (n : NLF s) : NLF (reopenLeader s s.image) := by
  constructor
  · show NLC s.L (if s.born then liftCons s.cons (liftAck s.gack s.L.ack) else -1) (if s.born then liftAck s.gack s.L.ack else -1) s.F
    cases hb : s.born with
    | true => simp only [if_true]; exact nlc_lift n.a h.a.lint.ack_app h.a.lint.gack_cons
    | false =>
      simp only [Bool.false_eq_true, if_false]
      have hu := h.ubA hb
      have := n.a.f_ack; rw [hu.2.2] at this
      exact ⟨by have := h.a.lint.ack_ge; have := h.a.lint.ack_app; omega, n.a.f_app, this, n.a.g⟩
  · show NLC s.L (if s.born2 then liftCons s.cons2 (liftAck s.gack2 s.L.ack) else -1) (if s.born2 then liftAck s.gack2 s.L.ack else -1) s.F2
    cases hb : s.born2 with
    | true => simp only [if_true]; exact nlc_lift n.b h.b.lint.ack_app h.b.lint.gack_cons
    | false =>
      simp only [Bool.false_eq_true, if_false]
      have hu := h.ubB hb
      have := n.b.f_ack; rw [hu.2.2] at this
      exact ⟨by have := h.b.lint.ack_ge; have := h.b.lint.ack_app; omega, n.b.f_app, this, n.b.g⟩

theorem full_snap {s : St} (h : Full s) : Full { s with imgs := s.image :: s.imgs } := by
  refine ⟨invA_mk (invc_snap h.a) rfl rfl rfl rfl rfl rfl rfl rfl, invB_mk (invc_snap h.b) rfl rfl rfl rfl rfl rfl rfl rfl,
    ⟨?_, h.chain⟩, h.bndA, h.bndB, h.stA, h.stB, h.ubA, h.ubB⟩
  intro o ho
  exact (h.a.img o.va (va_mem ho)).pre

theorem full_append {s : St} (h : Full s) (m : Msg) : Full { s with L := s.L.put m } :=
  ⟨invA_mk (invc_append h.a) rfl rfl rfl rfl rfl rfl rfl rfl, invB_mk (invc_append h.b) rfl rfl rfl rfl rfl rfl rfl rfl,
   h.chain, h.bndA, h.bndB, h.stA, h.stB, h.ubA, h.ubB⟩

theorem next_spec (cfg : Cfg) (s : St) (e : Ev) (h : Full s) :
    NextPost s (next cfg s e).1 (next cfg s e).2 e := by
  unfold next
  by_cases hg : s.gone = true
  · rw [if_pos hg]
    exact ⟨h, fun _ n => n, fun _ _ _ d => d, by simp, (fun _ x => by rw [hg] at x; cases x), (fun _ x => by rw [hg] at x; cases x),
      fun _ _ => ⟨rfl, rfl, rfl, rfl⟩, (fun _ x => by rw [hg] at x; cases x), fun _ => ⟨rfl, rfl⟩⟩
  · rw [if_neg hg]
    have hg' : s.gone = false := by simpa using hg
    have hgk : ∀ (t : St) (o : Out), (s.gone = true → (t, o).1 = s ∧ (t, o).2 = Out.gone) := fun _ _ x => absurd x hg
    cases e with
    | step w f => cases w <;> simp only [Ev.who]
                  · exact next_peer_a cfg s _ h hg' rfl
                  · exact next_peer_b cfg s _ h hg' rfl
    | frestart w => cases w <;> simp only [Ev.who]
                    · exact next_peer_a cfg s _ h hg' rfl
                    · exact next_peer_b cfg s _ h hg' rfl
    | flose w => cases w <;> simp only [Ev.who]
                 · exact next_peer_a cfg s _ h hg' rfl
                 · exact next_peer_b cfg s _ h hg' rfl
    | offline w => cases w <;> simp only [Ev.who]
                   · exact next_peer_a cfg s _ h hg' rfl
                   · exact next_peer_b cfg s _ h hg' rfl
    | online w f => cases w <;> simp only [Ev.who]
                    · exact next_peer_a cfg s _ h hg' rfl
                    · exact next_peer_b cfg s _ h hg' rfl
    | join w => cases w <;> simp only [Ev.who]
                · exact next_peer_a cfg s _ h hg' rfl
                · exact next_peer_b cfg s _ h hg' rfl
    | fclose w => cases w <;> simp only [Ev.who]
                  · exact next_peer_a cfg s _ h hg' rfl
                  · exact next_peer_b cfg s _ h hg' rfl
    | steponl w f => cases w <;> simp only [Ev.who]
                     · exact next_peer_a cfg s _ h hg' rfl
                     · exact next_peer_b cfg s _ h hg' rfl
    | steppre w f => cases w <;> simp only [Ev.who]
                     · exact next_peer_a cfg s _ h hg' rfl
                     · exact next_peer_b cfg s _ h hg' rfl
    | append m =>
      simp only [Ev.who]
      refine ⟨?_, fun _ n => ?_, fun _ _ _ d => ?_, by simp, (fun x => by cases x), (fun x => by cases x), fun _ _ => ?_, (fun x => by cases x), hgk _ _⟩
      · split
        · exact h
        · exact full_append h m
      · split
        · exact n
        · exact ⟨nlc_append n.a, nlc_append n.b⟩
      · split <;> exact ⟨d.dza, d.dzb, d.cla, d.clb⟩
      · split <;> exact ⟨rfl, rfl, rfl, rfl⟩
    | lsnap =>
      simp only [Ev.who]
      exact ⟨full_snap h, fun _ n => ⟨n.a, n.b⟩, fun _ _ _ d => ⟨d.dza, d.dzb, d.cla, d.clb⟩, by simp, (fun x => by cases x), (fun x => by cases x),
        fun _ _ => ⟨rfl, rfl, rfl, rfl⟩, (fun x => by cases x), hgk _ _⟩
    | lrestore k =>
      simp only [Ev.who]
      cases hd : s.imgs.drop k with
      | nil =>
        simp only []
        exact ⟨h, fun x _ => absurd rfl (x k), fun x _ _ _ => absurd rfl (x k), by simp, (fun x => by cases x), (fun x => by cases x),
          fun _ _ => ⟨rfl, rfl, rfl, rfl⟩, (fun x => by cases x), hgk _ _⟩
      | cons im rest =>
        simp only []
        exact ⟨full_restore h hd, fun x _ => absurd rfl (x k), fun x _ _ _ => absurd rfl (x k), by simp, (fun x => by cases x), (fun x => by cases x),
          (fun _ x => by simp [Ev.isRestart] at x), (fun x => by cases x), hgk _ _⟩
    | lrestart =>
      simp only [Ev.who]
      exact ⟨full_restart h, fun _ n => nlf_restart h n, fun _ _ _ d => ⟨rfl, rfl, d.cla, d.clb⟩, by simp, (fun x => by cases x), (fun x => by cases x),
        (fun _ x => by simp [Ev.isRestart] at x), (fun x => by cases x), hgk _ _⟩
    | gc =>
      simp only [Ev.who]
      have hs := syncGC_spec s h
      exact ⟨hs.1, fun _ n => hs.2.1 n, fun _ _ _ d => ⟨by rw [hs.2.2.dz]; exact d.dza, by rw [hs.2.2.dz2]; exact d.dzb,
          by rw [(syncGC_closed s).1]; exact d.cla, by rw [(syncGC_closed s).2]; exact d.clb⟩, by simp,
        (fun x => by cases x), (fun x => by cases x),
        fun _ _ => ⟨hs.2.2.gack, hs.2.2.gack2, hs.2.2.f, hs.2.2.f2⟩, (fun x => by cases x), hgk _ _⟩
    | expire =>
      simp only [Ev.who]
      have hs := expire_spec s h
      refine ⟨hs.full, fun _ n => hs.nl n, fun _ _ _ d => ⟨by rw [hs.dz.1]; exact d.dza, by rw [hs.dz.2]; exact d.dzb,
          by rw [(expire_closed s).1]; exact d.cla, by rw [(expire_closed s).2]; exact d.clb⟩, ?_,
        (fun x => by cases x), (fun x => by cases x),
        fun _ _ => ⟨hs.gack, hs.gack2, hs.f, hs.f2⟩, fun _ _ => hs, fun x => absurd x hg⟩
      rcases hs.lbl with x | x <;> rw [x] <;> simp

/-! ### all event sequences -/

theorem full_init : Full St.init := by
  have hl : LInt Log.empty (-1) (-1) :=
    ⟨by simp [Log.empty], by simp [Log.empty], by simp, by simp, Or.inl (by simp [Log.empty]), by simp [Log.empty], noHoles_empty⟩
  have hf : FInt Log.empty := ⟨by simp [Log.empty], by simp [Log.empty], noHoles_empty⟩
  have hc : ∀ b : Bool, InvC Log.empty (-1) (-1) Log.empty .init .none false b [] := fun b =>
    ⟨hl, (fun _ => by simp [Log.empty]), hf, (fun e => by cases e), (fun e => by cases e),
     agr_follower_holds_nothing log_empty_get, (fun im e => by cases e)⟩
  exact ⟨hc false, hc true, trivial, (fun e => by cases e), (fun e => by cases e), (fun e => by cases e), (fun _ => rfl),
    (fun e => by cases e), (fun _ => ⟨rfl, rfl, rfl⟩)⟩

theorem nlf_init : NLF St.init := by
  have hn : NLC Log.empty (-1) (-1) Log.empty :=
    ⟨by simp [Log.empty], by simp [Log.empty], by simp [Log.empty], g_follower_holds_nothing log_empty_get⟩
  exact ⟨hn, hn⟩

theorem dzf_init : DZF St.init := ⟨rfl, rfl, rfl, rfl⟩

theorem full_foldl (cfg : Cfg) (evs : List Ev) : ∀ s, Full s →
    Full (evs.foldl (fun s e => (next cfg s e).1) s) := by
  induction evs with
  | nil => intro s h; exact h
  | cons e t ih => intro s h; exact ih _ (next_spec cfg s e h).full

theorem full_run (cfg : Cfg) (evs : List Ev) : Full (run cfg evs) :=
  full_foldl cfg evs _ full_init

/-- histories without leader tail loss -/
def NoLoss (evs : List Ev) : Prop := ∀ e ∈ evs, ∀ k, e ≠ Ev.lrestore k

/-- histories without a follower-side Put fault -/
def NoPutFault (evs : List Ev) : Prop := ∀ e ∈ evs, e.putFault = false

theorem nlf_foldl (cfg : Cfg) (evs : List Ev) (hn : NoLoss evs) : ∀ s, Full s → NLF s →
    NLF (evs.foldl (fun s e => (next cfg s e).1) s) := by
  induction evs with
  | nil => intro s _ n; exact n
  | cons e t ih =>
    intro s h n
    have hp := next_spec cfg s e h
    exact ih (fun x hx => hn x (List.mem_cons_of_mem _ hx)) _ hp.full (hp.nl (hn e List.mem_cons_self) n)

theorem nlf_run (cfg : Cfg) (evs : List Ev) (hn : NoLoss evs) : NLF (run cfg evs) :=
  nlf_foldl cfg evs hn _ full_init nlf_init

theorem dzf_foldl (cfg : Cfg) (evs : List Ev) (hn : NoLoss evs) (hp : NoPutFault evs) : ∀ s, Full s → NLF s → DZF s →
    DZF (evs.foldl (fun s e => (next cfg s e).1) s) := by
  induction evs with
  | nil => intro s _ _ d; exact d
  | cons e t ih =>
    intro s h n d
    have hq := next_spec cfg s e h
    exact ih (fun x hx => hn x (List.mem_cons_of_mem _ hx)) (fun x hx => hp x (List.mem_cons_of_mem _ hx)) _ hq.full
      (hq.nl (hn e List.mem_cons_self) n) (hq.dzf (hn e List.mem_cons_self) (hp e List.mem_cons_self) n d)

theorem dzf_run (cfg : Cfg) (evs : List Ev) (hn : NoLoss evs) (hp : NoPutFault evs) : DZF (run cfg evs) :=
  dzf_foldl cfg evs hn hp _ full_init nlf_init dzf_init

theorem run_snoc (cfg : Cfg) (evs : List Ev) (e : Ev) : run cfg (evs ++ [e]) = (next cfg (run cfg evs) e).1 := by
  unfold run; rw [List.foldl_append]; rfl

end LinVerif.Replication
