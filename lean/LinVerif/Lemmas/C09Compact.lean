/-
C09: compaction of a dictionary family (index_kv_merger.go) preserves the id map; and the memdb
double-checked creation of a metric's memory index under an exclusive lock gives every caller one object.
-/
import LinVerif.Model.IdAssign

namespace LinVerif.IdAssign

theorem readFiles_cons (f : Dict) (rest : KvFiles) (b n : Nat) :
    readFiles (f :: rest) b n = match f b n with
      | some i => some i
      | none => readFiles rest b n := rfl

theorem mergeBucket_cons (blk : Nat → Option Nat) (rest : List (Nat → Option Nat)) (n : Nat) :
    mergeBucket (blk :: rest) n = match blk n with
      | some i => some i
      | none => mergeBucket rest n := by
  rw [mergeBucket]
  cases blk n <;> rfl

theorem mergeBucket_nil (n : Nat) : mergeBucket [] n = none := by simp [mergeBucket]

theorem mergeBucket_read (fs : KvFiles) (b n : Nat) : mergeBucket (fs.map (fun f => f b)) n = readFiles fs b n := by
  induction fs with
  | nil => simp [mergeBucket_nil, readFiles, Dict.empty]
  | cons f rest ih =>
    rw [List.map_cons, mergeBucket_cons, readFiles_cons, ih]

/-- the compacted family answers every lookup as the family it was made from -/
theorem readFiles_compact (fs : KvFiles) (b n : Nat) : readFiles (compactFiles fs) b n = readFiles fs b n := by
  unfold compactFiles
  rw [readFiles_cons, mergeBucket_read]
  cases readFiles fs b n <;> simp [readFiles, Dict.empty]

/-! ### memdb -/

/-- exclusive lock: nobody is between the second check and the store, and every answer is the stored object -/
def MemOk (s : MemIdx) : Prop :=
  (∀ pc ∈ s.threads, pc ≠ .checked) ∧ (∀ pc ∈ s.threads, ∀ o, pc = .done o → s.slot = some o)

theorem mem_set_or {α : Type} {l : List α} {i : Nat} {a x : α} (h : x ∈ l.set i a) : x ∈ l ∨ x = a := by
  rcases List.mem_or_eq_of_mem_set h with h | h
  · exact Or.inl h
  · exact Or.inr h

theorem memOk_step {s : MemIdx} (h : MemOk s) (i : Nat) : MemOk (mstep true s i) := by
  unfold mstep
  cases hi : s.threads[i]? with
  | none => exact h
  | some pc =>
    simp only []
    cases pc with
    | start =>
      simp only []
      cases hs : s.slot with
      | some o =>
        simp only []
        refine ⟨?_, ?_⟩
        · intro x hx; rcases mem_set_or hx with hx | rfl
          · exact h.1 x hx
          · simp
        · intro x hx o' ho; rcases mem_set_or hx with hx | rfl
          · have := h.2 x hx o' ho; rw [hs] at this; exact this
          · simp at ho; subst ho; rfl
      | none =>
        simp only []
        refine ⟨?_, ?_⟩
        · intro x hx; rcases mem_set_or hx with hx | rfl
          · exact h.1 x hx
          · simp
        · intro x hx o' ho; rcases mem_set_or hx with hx | rfl
          · have := h.2 x hx o' ho; rw [hs] at this; exact this
          · simp at ho
    | locked =>
      simp only []
      cases hs : s.slot with
      | some o =>
        simp only []
        refine ⟨?_, ?_⟩
        · intro x hx; rcases mem_set_or hx with hx | rfl
          · exact h.1 x hx
          · simp
        · intro x hx o' ho; rcases mem_set_or hx with hx | rfl
          · have := h.2 x hx o' ho; rw [hs] at this; exact this
          · simp at ho; subst ho; rfl
      | none =>
        simp only [if_true]
        refine ⟨?_, ?_⟩
        · intro x hx; rcases mem_set_or hx with hx | rfl
          · exact h.1 x hx
          · simp
        · intro x hx o' ho; rcases mem_set_or hx with hx | rfl
          · have := h.2 x hx o' ho; rw [hs] at this; cases this
          · simp at ho; subst ho; rfl
    | checked => exact absurd rfl (h.1 .checked (List.mem_of_getElem? hi))
    | done o => exact h

theorem memOk_run (sched : List (Option Nat)) : ∀ s, MemOk s → MemOk (mrun true s sched) := by
  induction sched with
  | nil => intro s h; exact h
  | cons a rest ih =>
    intro s h
    cases a with
    | none =>
      simp only [mrun]
      apply ih
      refine ⟨?_, ?_⟩
      · intro x hx; rcases List.mem_append.1 hx with hx | hx
        · exact h.1 x hx
        · simp at hx; subst hx; simp
      · intro x hx o ho; rcases List.mem_append.1 hx with hx | hx
        · exact h.2 x hx o ho
        · simp at hx; subst hx; simp at ho
    | some i => simp only [mrun]; exact ih _ (memOk_step h i)

end LinVerif.IdAssign
