/-
C11 helper lemmas, part 3: the inductive invariant of the shard and its preservation by every
good operation (write / flush / compact / reopen).
-/
import LinVerif.Lemmas.C11Store

namespace LinVerif.Lemmas.C11
open LinVerif LinVerif.NaiveQuery LinVerif.MemDB

/-- every live memory database has its metric-level slot range, which covers everything its
pages hold; pages satisfy the page invariant. -/
def PagesOK (s : Shard) : Prop :=
  ∀ fam md, (s.family fam).mutable_ = some md →
    ∃ lo hi, Map.lookup s.ranges md.created = some (lo, hi) ∧
      ∀ k b, Map.lookup md.pages k = some b →
        BufInv s.window b ∧ ∀ t, memView (s.fieldAgg k.2) b t ≠ none → lo ≤ t ∧ t ≤ hi

/-- live memory databases have pairwise different created-times. -/
def Distinct (s : Shard) : Prop :=
  ∀ fam1 fam2 md1 md2, (s.family fam1).mutable_ = some md1 → (s.family fam2).mutable_ = some md2 →
    md1.created = md2.created → fam1 = fam2

/-- the refinement relation. -/
def Refines (s : Shard) (pts : List Point) : Prop :=
  ∀ fam ser fld t, storeView s fam ser fld t = refCell (s.fieldAgg fld) pts fam ser fld t

structure Inv (s : Shard) (pts : List Point) : Prop where
  cfgFixed : s.cfg = Cfg.fixed
  wpos : 0 < s.window
  pages : PagesOK s
  distinct : Distinct s
  fresh : ∀ k, s.nextTick ≤ k → Map.lookup s.ranges k = none
  refines : Refines s pts

/-! ### write -/

theorem write_window (s : Shard) (tick fam ser fld : Nat) (ft : FieldType) (slot : Nat) (v : Int) :
    (s.write tick fam ser fld ft slot v).window = s.window := rfl

theorem write_cfg (s : Shard) (tick fam ser fld : Nat) (ft : FieldType) (slot : Nat) (v : Int) :
    (s.write tick fam ser fld ft slot v).cfg = s.cfg := rfl

theorem write_nextTick (s : Shard) (tick fam ser fld : Nat) (ft : FieldType) (slot : Nat) (v : Int) :
    (s.write tick fam ser fld ft slot v).nextTick =
      (match (s.family fam).mutable_ with
        | some _ => s.nextTick
        | none => s.nextTick + 1) := rfl

theorem write_fieldTypes (s : Shard) (tick fam ser fld : Nat) (ft : FieldType) (slot : Nat) (v : Int)
    (h : Map.lookup s.fieldTypes fld = some ft) :
    (s.write tick fam ser fld ft slot v).fieldTypes = s.fieldTypes := by
  simp [Shard.write, h]

theorem write_fieldAgg (s : Shard) (tick fam ser fld : Nat) (ft : FieldType) (slot : Nat) (v : Int)
    (h : Map.lookup s.fieldTypes fld = some ft) (f : Nat) :
    (s.write tick fam ser fld ft slot v).fieldAgg f = s.fieldAgg f := by
  simp [Shard.fieldAgg, write_fieldTypes s tick fam ser fld ft slot v h]

theorem write_ranges (s : Shard) (tick fam ser fld : Nat) (ft : FieldType) (slot : Nat) (v : Int) :
    (s.write tick fam ser fld ft slot v).ranges = storeTimeRange s.ranges (curMem s tick fam).created slot := by
  simp only [Shard.write, curMem]
  cases (s.family fam).mutable_ <;> rfl

theorem write_family_self (s : Shard) (tick fam ser fld : Nat) (ft : FieldType) (slot : Nat) (v : Int) :
    (s.write tick fam ser fld ft slot v).family fam =
      ⟨some ⟨(curMem s tick fam).created, Map.upsert (curMem s tick fam).pages (ser, fld)
            (MemDB.writeV s.cfg s.window ft.aggType (curPage s tick fam ser fld) slot v)⟩,
        (s.family fam).files, (s.family fam).base⟩ := by
  simp only [Shard.write, curMem, curPage]
  cases (s.family fam).mutable_ <;> simp [Shard.family, Map.lookup_upsert_self]

theorem write_family_ne (s : Shard) (tick fam ser fld : Nat) (ft : FieldType) (slot : Nat) (v : Int)
    (fam2 : Nat) (h : fam ≠ fam2) :
    (s.write tick fam ser fld ft slot v).family fam2 = s.family fam2 := by
  simp only [Shard.write]
  cases (s.family fam).mutable_ <;> simp [Shard.family, Map.lookup_upsert_ne _ _ _ _ h]

theorem fieldAgg_of_lookup (s : Shard) (fld : Nat) (ft : FieldType) (h : Map.lookup s.fieldTypes fld = some ft) :
    s.fieldAgg fld = ft.aggType := by
  simp [Shard.fieldAgg, h]

/-- the page a write goes to satisfies the page invariant and is covered by the range, also when
it is a fresh page. -/
theorem curPage_ok (s : Shard) (pts : List Point) (hi : Inv s pts) (tick fam ser fld : Nat) :
    BufInv s.window (curPage s tick fam ser fld) := by
  unfold curPage curMem
  cases hm : (s.family fam).mutable_ with
  | none => simp [Map.lookup]; exact BufInv.fresh hi.wpos
  | some md =>
    simp only
    cases hp : Map.lookup md.pages (ser, fld) with
    | none => simp; exact BufInv.fresh hi.wpos
    | some b =>
      obtain ⟨lo, hiR, _, hb⟩ := hi.pages fam md hm
      simpa using (hb (ser, fld) b hp).1

theorem memView_fresh (A : AggType) (w t : Nat) : memView A (Buf.fresh w) t = none := by
  simp [memView, Buf.fresh, oldValue]

/-- pageView in terms of `curPage` (a missing memory database / page views as nothing). -/
theorem pageView_eq_curPage (s : Shard) (tick fam ser fld t : Nat) :
    pageView s fam ser fld t = memView (s.fieldAgg fld) (curPage s tick fam ser fld) t := by
  unfold pageView curPage curMem
  cases hm : (s.family fam).mutable_ with
  | none => simp [Map.lookup, memView_fresh]
  | some md =>
    simp only
    cases hp : Map.lookup md.pages (ser, fld) with
    | none => simp [memView_fresh]
    | some b => simp

theorem inv_write (s : Shard) (pts : List Point) (hi : Inv s pts)
    (tick fam ser fld : Nat) (ft : FieldType) (slot : Nat) (v : Int)
    (hg : goodOp s (.write tick fam ser fld ft slot v) = true) :
    Inv (s.write tick fam ser fld ft slot v) (pts ++ [⟨fam, ser, fld, slot, v⟩]) := by
  simp only [goodOp, beq_iff_eq] at hg
  have hft := hg
  have hwv : MemDB.writeV s.cfg = MemDB.write := by
    rw [hi.cfgFixed]; exact writeV_fixed Cfg.fixed rfl rfl
  have hA : s.fieldAgg fld = ft.aggType := fieldAgg_of_lookup s fld ft hft
  have hpage := curPage_ok s pts hi tick fam ser fld
  obtain ⟨hinv', hview'⟩ := write_step s.window ft.aggType (curPage s tick fam ser fld) hpage slot v
  -- a memory database created now gets a created time no range entry has
  have htick : (s.family fam).mutable_ = none → Map.lookup s.ranges (s.newCreated tick) = none := by
    intro _
    have : s.newCreated tick = s.nextTick := by simp [Shard.newCreated, hi.cfgFixed, Cfg.fixed]
    rw [this]; exact hi.fresh _ (Nat.le_refl _)
  -- the range entry after the write
  obtain ⟨lo', hi', hr', hlo', hhi', hgrow⟩ := storeTimeRange_self s.ranges (curMem s tick fam).created slot
  -- created-time of the target is different from every other live memory database's
  have hother : ∀ fam2 md2, fam ≠ fam2 → (s.family fam2).mutable_ = some md2 →
      (curMem s tick fam).created ≠ md2.created := by
    intro fam2 md2 hne hm2 heq
    unfold curMem at heq
    cases hm : (s.family fam).mutable_ with
    | some md =>
      rw [hm] at heq
      exact hne (hi.distinct fam fam2 md md2 hm hm2 heq)
    | none =>
      rw [hm] at heq
      simp only at heq
      obtain ⟨lo2, hi2, hr2, _⟩ := hi.pages fam2 md2 hm2
      rw [← heq, htick hm] at hr2
      cases hr2
  refine ⟨by rw [write_cfg]; exact hi.cfgFixed, hi.wpos, ?_, ?_, ?_, ?_⟩
  · -- PagesOK
    intro fam2 md2 hm2
    by_cases hf : fam = fam2
    · subst hf
      rw [write_family_self, hwv] at hm2
      simp only [Option.some.injEq] at hm2
      subst hm2
      refine ⟨lo', hi', by rw [write_ranges]; exact hr', ?_⟩
      intro k b hk
      simp only at hk
      rw [write_window]
      by_cases hkey : (ser, fld) = k
      · subst hkey
        rw [Map.lookup_upsert_self] at hk
        cases hk
        refine ⟨hinv', ?_⟩
        intro t hne
        rw [write_fieldAgg s tick fam ser fld ft slot v hft, hA, hview' t] at hne
        by_cases hst : slot = t
        · subst hst; exact ⟨hlo', hhi'⟩
        · simp only [hst, if_false] at hne
          -- an old slot of this page: covered by the old range (the page existed)
          unfold curPage at hne
          cases hm : (s.family fam).mutable_ with
          | none => simp [curMem, hm, Map.lookup, memView_fresh] at hne
          | some md =>
            cases hp : Map.lookup md.pages (ser, fld) with
            | none => simp [curMem, hm, hp, memView_fresh] at hne
            | some b0 =>
              simp only [curMem, hm, hp, Option.getD_some] at hne
              obtain ⟨lo0, hi0, hr0, hb0⟩ := hi.pages fam md hm
              have hc := (hb0 (ser, fld) b0 hp).2 t (by rw [hA]; exact hne)
              have hcm : (curMem s tick fam).created = md.created := by simp [curMem, hm]
              rw [hcm] at hgrow
              have := hgrow lo0 hi0 hr0
              omega
      · rw [Map.lookup_upsert_ne _ _ _ _ hkey] at hk
        -- another page of the same memory database (so it existed before)
        cases hm : (s.family fam).mutable_ with
        | none => simp [curMem, hm, Map.lookup] at hk
        | some md =>
          simp only [curMem, hm] at hk
          obtain ⟨lo0, hi0, hr0, hb0⟩ := hi.pages fam md hm
          obtain ⟨hbi, hbc⟩ := hb0 k b hk
          refine ⟨hbi, ?_⟩
          intro t hne
          rw [write_fieldAgg s tick fam ser fld ft slot v hft] at hne
          have := hbc t hne
          have hcm : (curMem s tick fam).created = md.created := by simp [curMem, hm]
          rw [hcm] at hgrow
          have := hgrow lo0 hi0 hr0
          omega
    · rw [write_family_ne s tick fam ser fld ft slot v fam2 hf] at hm2
      obtain ⟨lo0, hi0, hr0, hb0⟩ := hi.pages fam2 md2 hm2
      refine ⟨lo0, hi0, ?_, ?_⟩
      · rw [write_ranges, storeTimeRange_ne _ _ _ _ (hother fam2 md2 hf hm2)]; exact hr0
      · intro k b hk
        rw [write_window]
        obtain ⟨hbi, hbc⟩ := hb0 k b hk
        refine ⟨hbi, ?_⟩
        intro t hne
        rw [write_fieldAgg s tick fam ser fld ft slot v hft] at hne
        exact hbc t hne
  · -- Distinct
    intro fam1 fam2 md1 md2 hm1 hm2 heq
    by_cases h1 : fam = fam1
    · by_cases h2 : fam = fam2
      · rw [← h1, ← h2]
      · subst h1
        rw [write_family_self] at hm1
        rw [write_family_ne s tick fam ser fld ft slot v fam2 h2] at hm2
        simp only [Option.some.injEq] at hm1
        subst hm1
        exact absurd heq (hother fam2 md2 h2 hm2)
    · by_cases h2 : fam = fam2
      · subst h2
        rw [write_family_self] at hm2
        rw [write_family_ne s tick fam ser fld ft slot v fam1 h1] at hm1
        simp only [Option.some.injEq] at hm2
        subst hm2
        exact absurd heq.symm (hother fam1 md1 h1 hm1)
      · rw [write_family_ne s tick fam ser fld ft slot v fam1 h1] at hm1
        rw [write_family_ne s tick fam ser fld ft slot v fam2 h2] at hm2
        exact hi.distinct fam1 fam2 md1 md2 hm1 hm2 heq
  · -- fresh created times
    intro k hk
    rw [write_ranges, write_nextTick] at *
    have hne : (curMem s tick fam).created ≠ k := by
      intro e
      unfold curMem at e
      cases hm : (s.family fam).mutable_ with
      | some md =>
        rw [hm] at e hk
        simp only at e hk
        obtain ⟨lo0, hi0, hr0, _⟩ := hi.pages fam md hm
        have := hi.fresh k hk
        rw [← e, hr0] at this
        cases this
      | none =>
        rw [hm] at e hk
        simp only at e hk
        have : s.newCreated tick = s.nextTick := by simp [Shard.newCreated, hi.cfgFixed, Cfg.fixed]
        omega
    rw [storeTimeRange_ne _ _ _ _ hne]
    apply hi.fresh
    cases hm : (s.family fam).mutable_ with
    | some md => rw [hm] at hk; exact hk
    | none => rw [hm] at hk; simp only at hk; omega
  · -- Refines
    intro fam2 ser2 fld2 t
    rw [refCell_append]
    simp only [write_fieldAgg s tick fam ser fld ft slot v hft]
    unfold storeView
    simp only [write_fieldAgg s tick fam ser fld ft slot v hft]
    by_cases hf : fam = fam2
    · subst hf
      have hchron : ((s.write tick fam ser fld ft slot v).family fam).chron = (s.family fam).chron := by
        rw [write_family_self]; rfl
      rw [hchron]
      by_cases hkey : (ser, fld) = (ser2, fld2)
      · -- the written page
        obtain ⟨hs, hfl⟩ := Prod.mk.inj hkey
        subst hs; subst hfl
        have hpv : pageView (s.write tick fam ser fld ft slot v) fam ser fld t =
            memView ft.aggType (MemDB.write s.window ft.aggType (curPage s tick fam ser fld) slot v) t := by
          unfold pageView
          rw [write_family_self, hwv]
          simp [Map.lookup_upsert_self, write_fieldAgg s tick fam ser fld ft slot v hft, hA]
        rw [hpv, hview' t]
        have hold := hi.refines fam ser fld t
        unfold storeView at hold
        rw [pageView_eq_curPage s tick fam ser fld t, hA] at hold
        rw [hA]
        by_cases hst : slot = t
        · subst hst
          simp only [and_self, if_true]
          rw [← hold, ocomb_assoc]
        · simp only [hst, and_false, if_false]
          rw [← hold]
      · -- another page of the same family
        have hpv : pageView (s.write tick fam ser fld ft slot v) fam ser2 fld2 t = pageView s fam ser2 fld2 t := by
          unfold pageView
          rw [write_family_self]
          simp only [write_fieldAgg s tick fam ser fld ft slot v hft]
          rw [Map.lookup_upsert_ne _ _ _ _ hkey]
          unfold curMem
          cases hm : (s.family fam).mutable_ with
          | none => simp [Map.lookup]
          | some md => rfl
        rw [hpv]
        have hne : ¬(fam = fam ∧ ser = ser2 ∧ fld = fld2 ∧ slot = t) := by
          intro h; exact hkey (by rw [h.2.1, h.2.2.1])
        rw [if_neg hne]
        exact hi.refines fam ser2 fld2 t
    · have hne : ¬(fam = fam2 ∧ ser = ser2 ∧ fld = fld2 ∧ slot = t) := fun h => hf h.1
      simp only [hne, if_false]
      have := hi.refines fam2 ser2 fld2 t
      unfold storeView at this
      unfold pageView at this ⊢
      rw [write_family_ne s tick fam ser fld ft slot v fam2 hf]
      simp only [write_fieldAgg s tick fam ser fld ft slot v hft]
      exact this

/-! ### flush -/

theorem mem_of_lookup {κ : Type} [DecidableEq κ] {α : Type} (m : List (κ × α)) (k : κ) (v : α)
    (h : Map.lookup m k = some v) : (k, v) ∈ m := by
  induction m with
  | nil => simp [Map.lookup] at h
  | cons p t ih =>
    obtain ⟨k', v'⟩ := p
    by_cases h1 : k' = k
    · subst h1
      simp only [Map.lookup, if_true, Option.some.injEq] at h
      subst h; simp
    · simp only [Map.lookup, h1, if_false] at h
      simp [ih h]

theorem curValue_noData {w : Nat} {b : Buf} (hi : BufInv w b) (hd : b.hasData = false) (t : Nat) :
    curValue b t = none := by
  unfold curValue
  split
  · rfl
  · exact hi.empty hd _

theorem memView_eq_old_cur {w : Nat} {b : Buf} (A : AggType) (hi : BufInv w b) (t : Nat) :
    memView A b t = ocomb A (oldValue b.compress t) (curValue b t) := by
  unfold memView
  cases hd : b.hasData with
  | true => simp
  | false => simp [curValue_noData hi hd t]

/-- the cell a flush writes for a page equals what the memory query saw (every aggregate). -/
theorem flushCell_eq_memView {w : Nat} {b : Buf} (A : AggType) (hi : BufInv w b) (lo hiR t : Nat)
    (hcov : ∀ t, memView A b t ≠ none → lo ≤ t ∧ t ≤ hiR) :
    (if t < lo ∨ t > hiR then none else cellAt (flushCells A b lo hiR) (t - lo)) = memView A b t := by
  split
  · rename_i hout
    cases hv : memView A b t with
    | none => rfl
    | some x =>
      have := hcov t (by simp [hv])
      omega
  · rename_i hin
    unfold flushCells
    rw [cellAt_mergeRange A b lo hiR (t - lo) (by omega)]
    have : lo + (t - lo) = t := by omega
    rw [this, mergeCell_eq, memView_eq_old_cur A hi t]

theorem flush_none (s : Shard) (fam : Nat) (h : (s.family fam).mutable_ = none) : s.flush fam = s := by
  simp only [Shard.flush, h]

theorem flush_some (s : Shard) (fam : Nat) (md : MemDB) (h : (s.family fam).mutable_ = some md) :
    s.flush fam = Shard.mk s.cfg s.window
      (Map.upsert s.families fam ⟨none, (match flushMemDB s md with
          | some blk => (s.family fam).files ++ [blk]
          | none => (s.family fam).files), (s.family fam).base⟩)
      (Map.erase s.ranges md.created) s.fieldTypes s.known s.nextTick := by
  simp only [Shard.flush, h]
  rfl

theorem flush_some_family_self (s : Shard) (fam : Nat) (md : MemDB) (h : (s.family fam).mutable_ = some md) :
    ((s.flush fam).family fam) =
      ⟨none, (match flushMemDB s md with
          | some blk => (s.family fam).files ++ [blk]
          | none => (s.family fam).files), (s.family fam).base⟩ := by
  rw [flush_some s fam md h]
  exact family_upsert_self s fam _ _ _ _ _

theorem flush_some_family_ne (s : Shard) (fam fam2 : Nat) (md : MemDB) (h : (s.family fam).mutable_ = some md)
    (hne : fam ≠ fam2) : (s.flush fam).family fam2 = s.family fam2 := by
  rw [flush_some s fam md h]
  exact family_upsert_ne s fam fam2 _ _ _ _ _ hne

theorem flush_some_ranges (s : Shard) (fam : Nat) (md : MemDB) (h : (s.family fam).mutable_ = some md) :
    (s.flush fam).ranges = Map.erase s.ranges md.created := by
  rw [flush_some s fam md h]

theorem flush_fieldTypes (s : Shard) (fam : Nat) : (s.flush fam).fieldTypes = s.fieldTypes := by
  cases h : (s.family fam).mutable_ with
  | none => rw [flush_none s fam h]
  | some md => rw [flush_some s fam md h]

theorem flush_cfg (s : Shard) (fam : Nat) : (s.flush fam).cfg = s.cfg := by
  cases h : (s.family fam).mutable_ with
  | none => rw [flush_none s fam h]
  | some md => rw [flush_some s fam md h]

theorem flush_nextTick (s : Shard) (fam : Nat) : (s.flush fam).nextTick = s.nextTick := by
  cases h : (s.family fam).mutable_ with
  | none => rw [flush_none s fam h]
  | some md => rw [flush_some s fam md h]

theorem flush_window (s : Shard) (fam : Nat) : (s.flush fam).window = s.window := by
  cases h : (s.family fam).mutable_ with
  | none => rw [flush_none s fam h]
  | some md => rw [flush_some s fam md h]

theorem flush_fieldAgg (s : Shard) (fam f : Nat) : (s.flush fam).fieldAgg f = s.fieldAgg f := by
  simp [Shard.fieldAgg, flush_fieldTypes]

theorem chron_append (f : Family) (blk : Block) :
    (Family.mk none (f.files ++ [blk]) f.base).chron = f.chron ++ [blk] := by
  simp [Family.chron, List.append_assoc]

theorem inv_flush (s : Shard) (pts : List Point) (hi : Inv s pts) (fam : Nat) : Inv (s.flush fam) pts := by
  cases hm : (s.family fam).mutable_ with
  | none => rw [flush_none s fam hm]; exact hi
  | some md =>
    obtain ⟨lo, hiR, hr, hb⟩ := hi.pages fam md hm
    have hfc : flushCellsV s.cfg = flushCells := by
      rw [hi.cfgFixed]; exact flushCellsV_fixed Cfg.fixed rfl
    have hfm : flushMemDB s md = some ⟨lo, hiR, (md.pages.map (fun (p : PageKey × Buf) => p.1.2)).eraseDups, s.known,
        md.pages.map (fun (p : PageKey × Buf) => (p.1, flushCells (s.fieldAgg p.1.2) p.2 lo hiR))⟩ := by
      simp [flushMemDB, hr, hfc]
    refine ⟨by rw [flush_cfg]; exact hi.cfgFixed, by rw [flush_window]; exact hi.wpos, ?_, ?_, ?_, ?_⟩
    · intro fam2 md2 hm2
      by_cases hf : fam = fam2
      · subst hf
        rw [flush_some_family_self s fam md hm] at hm2
        simp at hm2
      · rw [flush_some_family_ne s fam fam2 md hm hf] at hm2
        obtain ⟨lo2, hi2, hr2, hb2⟩ := hi.pages fam2 md2 hm2
        have hne : md.created ≠ md2.created := fun e => hf (hi.distinct fam fam2 md md2 hm hm2 e)
        refine ⟨lo2, hi2, ?_, ?_⟩
        · rw [flush_some_ranges s fam md hm, Map.lookup_erase_ne _ _ _ hne]; exact hr2
        · intro k b hk
          rw [flush_window]
          obtain ⟨h1, h2⟩ := hb2 k b hk
          refine ⟨h1, ?_⟩
          intro t hne'
          rw [flush_fieldAgg] at hne'
          exact h2 t hne'
    · intro fam1 fam2 md1 md2 hm1 hm2 heq
      by_cases h1 : fam = fam1
      · subst h1
        rw [flush_some_family_self s fam md hm] at hm1
        simp at hm1
      · by_cases h2 : fam = fam2
        · subst h2
          rw [flush_some_family_self s fam md hm] at hm2
          simp at hm2
        · rw [flush_some_family_ne s fam fam1 md hm h1] at hm1
          rw [flush_some_family_ne s fam fam2 md hm h2] at hm2
          exact hi.distinct fam1 fam2 md1 md2 hm1 hm2 heq
    · intro k hk
      rw [flush_nextTick] at hk
      rw [flush_some_ranges s fam md hm]
      by_cases hkc : md.created = k
      · rw [hkc]; exact Map.lookup_erase_self _ _
      · rw [Map.lookup_erase_ne _ _ _ hkc]; exact hi.fresh k hk
    · intro fam2 ser fld t
      unfold storeView
      simp only [flush_fieldAgg]
      by_cases hf : fam = fam2
      · subst hf
        have hpv : pageView (s.flush fam) fam ser fld t = none := by
          unfold pageView
          rw [flush_some_family_self s fam md hm]
        rw [hpv, flush_some_family_self s fam md hm, hfm]
        simp only
        rw [chron_append, filesView_append]
        simp only [ocomb_none_right]
        have hold := hi.refines fam ser fld t
        unfold storeView at hold
        rw [← hold]
        congr 1
        -- the cell of the new block is what the memory query saw
        unfold pageView Block.cell
        simp only [hm]
        rw [lookup_map_val md.pages (fun k b => flushCells (s.fieldAgg k.2) b lo hiR) (ser, fld)]
        cases hp : Map.lookup md.pages (ser, fld) with
        | none => rfl
        | some b =>
          simp only [Option.map_some]
          obtain ⟨hbi, hbc⟩ := hb (ser, fld) b hp
          exact flushCell_eq_memView (s.fieldAgg fld) hbi lo hiR t hbc
      · have := hi.refines fam2 ser fld t
        unfold storeView at this
        unfold pageView at this ⊢
        rw [flush_some_family_ne s fam fam2 md hm hf]
        simp only [flush_fieldAgg]
        exact this

theorem inv_flushAll (pts : List Point) :
    ∀ (fams : List Nat) (s : Shard), Inv s pts → Inv (flushAll s fams) pts := by
  intro fams
  induction fams with
  | nil => intro s hi; exact hi
  | cons fam rest ih =>
    intro s hi
    exact ih (s.flush fam) (inv_flush s pts hi fam)

/-! ### compact -/

theorem inv_compact (s : Shard) (pts : List Point) (hi : Inv s pts) (fam : Nat) : Inv (s.compact fam) pts := by
  unfold Shard.compact
  simp only
  split
  · exact hi
  · cases hmb : mergeBlocks s.fieldAgg (s.family fam).chron with
    | none => exact hi
    | some blk =>
      simp only
      have hfs : ∀ fam2, fam ≠ fam2 →
          (Shard.mk s.cfg s.window (Map.upsert s.families fam
            { s.family fam with files := [], base := some blk }) s.ranges s.fieldTypes s.known s.nextTick).family fam2 = s.family fam2 :=
        fun fam2 h => family_upsert_ne s fam fam2 _ _ _ _ _ h
      have hff : (Shard.mk s.cfg s.window (Map.upsert s.families fam
            { s.family fam with files := [], base := some blk }) s.ranges s.fieldTypes s.known s.nextTick).family fam =
            { s.family fam with files := [], base := some blk } := family_upsert_self s fam _ _ _ _ _
      refine ⟨hi.cfgFixed, hi.wpos, ?_, ?_, hi.fresh, ?_⟩
      · intro fam2 md2 hm2
        by_cases hf : fam = fam2
        · subst hf
          rw [hff] at hm2
          exact hi.pages fam md2 hm2
        · rw [hfs fam2 hf] at hm2
          exact hi.pages fam2 md2 hm2
      · intro fam1 fam2 md1 md2 hm1 hm2 heq
        have e1 : (s.family fam1).mutable_ = some md1 := by
          by_cases h : fam = fam1
          · subst h; rw [hff] at hm1; exact hm1
          · rw [hfs fam1 h] at hm1; exact hm1
        have e2 : (s.family fam2).mutable_ = some md2 := by
          by_cases h : fam = fam2
          · subst h; rw [hff] at hm2; exact hm2
          · rw [hfs fam2 h] at hm2; exact hm2
        exact hi.distinct fam1 fam2 md1 md2 e1 e2 heq
      · intro fam2 ser fld t
        have hold := hi.refines fam2 ser fld t
        unfold storeView at hold ⊢
        unfold pageView at hold ⊢
        show ocomb (s.fieldAgg fld) _ _ = refCell (s.fieldAgg fld) pts fam2 ser fld t
        by_cases hf : fam = fam2
        · subst hf
          rw [hff]
          rw [← hold]
          congr 1
          have hch : ({ s.family fam with files := [], base := some blk } : Family).chron = [blk] := by
            simp [Family.chron]
          rw [hch]
          simp only [filesView, List.foldl_cons, List.foldl_nil, ocomb_none_left]
          exact mergeBlocks_cell s.fieldAgg _ blk hmb (ser, fld) t
        · rw [hfs fam2 hf]
          exact hold

/-! ### reopen and the induction over operation sequences -/

theorem inv_known (s : Shard) (pts : List Point) (kn : List Nat) (hi : Inv s pts) :
    Inv { s with known := kn } pts :=
  ⟨hi.cfgFixed, hi.wpos, hi.pages, hi.distinct, hi.fresh, hi.refines⟩

theorem inv_applyOp (s : Shard) (pts : List Point) (hi : Inv s pts) (op : Op) (hg : goodOp s op = true) :
    Inv (applyOp s op) (pts ++ pointOf op) := by
  cases op with
  | write tick fam ser fld ft slot v => exact inv_write s pts hi tick fam ser fld ft slot v hg
  | flush fam =>
    simp only [applyOp, pointOf, List.append_nil]
    exact inv_flush s pts hi fam
  | compact fam =>
    simp only [applyOp, pointOf, List.append_nil]
    exact inv_compact s pts hi fam
  | reopen =>
    simp only [applyOp, pointOf, List.append_nil, Shard.reopen]
    exact inv_known _ pts [] (inv_flushAll pts _ s hi)

theorem inv_runOps :
    ∀ (ops : List Op) (s : Shard) (pts : List Point), Inv s pts → goodOps s ops = true →
      Inv (runOps s ops) (pts ++ pointsOf ops) := by
  intro ops
  induction ops with
  | nil => intro s pts hi _; simpa [runOps, pointsOf] using hi
  | cons op rest ih =>
    intro s pts hi hg
    simp only [goodOps, Bool.and_eq_true] at hg
    have h1 := inv_applyOp s pts hi op hg.1
    have h2 := ih (applyOp s op) (pts ++ pointOf op) h1 hg.2
    simpa [runOps, pointsOf, List.append_assoc] using h2

/-! ### the schema is fixed by good operations -/

theorem flushAll_fieldTypes : ∀ (fams : List Nat) (s : Shard), (flushAll s fams).fieldTypes = s.fieldTypes := by
  intro fams
  induction fams with
  | nil => intro s; rfl
  | cons f rest ih => intro s; simp only [flushAll, List.foldl_cons] at ih ⊢; rw [ih, flush_fieldTypes]

theorem compact_fieldTypes (s : Shard) (fam : Nat) : (s.compact fam).fieldTypes = s.fieldTypes := by
  unfold Shard.compact
  simp only
  split
  · rfl
  · cases mergeBlocks s.fieldAgg (s.family fam).chron <;> rfl

theorem applyOp_fieldTypes (s : Shard) (op : Op) (hg : goodOp s op = true) :
    (applyOp s op).fieldTypes = s.fieldTypes := by
  cases op with
  | write tick fam ser fld ft slot v =>
    simp only [goodOp, beq_iff_eq] at hg
    exact write_fieldTypes s tick fam ser fld ft slot v hg
  | flush fam => exact flush_fieldTypes s fam
  | compact fam => exact compact_fieldTypes s fam
  | reopen => simp only [applyOp, Shard.reopen]; exact flushAll_fieldTypes _ s

theorem runOps_fieldTypes : ∀ (ops : List Op) (s : Shard), goodOps s ops = true →
    (runOps s ops).fieldTypes = s.fieldTypes := by
  intro ops
  induction ops with
  | nil => intro s _; rfl
  | cons op rest ih =>
    intro s hg
    simp only [goodOps, Bool.and_eq_true] at hg
    have := ih (applyOp s op) hg.2
    simp only [runOps, List.foldl_cons] at this ⊢
    rw [this, applyOp_fieldTypes s op hg.1]

theorem runOps_fieldAgg (s : Shard) (ops : List Op) (hg : goodOps s ops = true) (fld : Nat) :
    (runOps s ops).fieldAgg fld = s.fieldAgg fld := by
  simp [Shard.fieldAgg, runOps_fieldTypes ops s hg]

/-- the empty shard (repaired code) with a registered schema satisfies the invariant. -/
theorem inv_init (w : Nat) (hw : 0 < w) (sch : List (Nat × FieldType)) :
    Inv { Shard.init w with fieldTypes := sch } [] := by
  refine ⟨rfl, hw, ?_, ?_, ?_, ?_⟩
  · intro fam md hm; simp [Shard.family, Shard.init, Map.lookup, Family.empty] at hm
  · intro fam1 fam2 md1 md2 hm1; simp [Shard.family, Shard.init, Map.lookup, Family.empty] at hm1
  · intro k _; simp [Shard.init, Map.lookup]
  · intro fam ser fld t
    simp [storeView, pageView, Shard.family, Shard.init, Map.lookup, Family.empty, Family.chron, filesView,
      refCell, streamOf]

end LinVerif.Lemmas.C11
