/-
C09 — the store keeps no reference to the caller's bytes: lemmas about Model/IdAssignBuf.lean.
-/
import LinVerif.Model.IdAssignBuf

namespace LinVerif.IdAssign.Buf

/-! ### value-level dictionary -/

def vfinal : VStore → List Bytes → VStore
  | s, [] => s
  | s, n :: ns => vfinal (s.getOrCreate n).1 ns

/-- ids are below the counter; two names never share an id -/
structure VInv (s : VStore) : Prop where
  bound : ∀ n i, vfind n s.entries = some i → i < s.next
  inj : ∀ n m i, vfind n s.entries = some i → vfind m s.entries = some i → n = m

theorem vinv_empty : VInv {} := ⟨by intro n i h; simp [vfind] at h, by intro n m i h; simp [vfind] at h⟩

theorem vfind_cons (name : Bytes) (i : Nat) (es : List (Bytes × Nat)) (n : Bytes) :
    vfind n ((name, i) :: es) = if name = n then some i else vfind n es := rfl

theorem getOrCreate_hit {s : VStore} {n : Bytes} {i : Nat} (h : vfind n s.entries = some i) :
    s.getOrCreate n = (s, i) := by simp [VStore.getOrCreate, h]

theorem getOrCreate_miss {s : VStore} {n : Bytes} (h : vfind n s.entries = none) :
    s.getOrCreate n = ({ entries := (n, s.next) :: s.entries, next := s.next + 1 }, s.next) := by
  simp [VStore.getOrCreate, h]

/-- the answer is what the dictionary holds for the name afterwards -/
theorem getOrCreate_answer (s : VStore) (n : Bytes) :
    vfind n (s.getOrCreate n).1.entries = some (s.getOrCreate n).2 := by
  cases h : vfind n s.entries with
  | some i => rw [getOrCreate_hit h]; exact h
  | none => rw [getOrCreate_miss h]; simp [vfind_cons]

/-- an entry is never changed or removed -/
theorem getOrCreate_mono (s : VStore) (m n : Bytes) (i : Nat) (h : vfind n s.entries = some i) :
    vfind n (s.getOrCreate m).1.entries = some i := by
  cases hm : vfind m s.entries with
  | some j => rw [getOrCreate_hit hm]; exact h
  | none =>
    rw [getOrCreate_miss hm]
    simp only [vfind_cons]
    by_cases e : m = n
    · subst e; rw [hm] at h; cases h
    · simp [e, h]

theorem getOrCreate_inv (s : VStore) (m : Bytes) (hs : VInv s) : VInv (s.getOrCreate m).1 := by
  cases hm : vfind m s.entries with
  | some j => rw [getOrCreate_hit hm]; exact hs
  | none =>
    rw [getOrCreate_miss hm]
    constructor
    · intro n i h
      simp only [vfind_cons] at h
      by_cases e : m = n
      · simp [e] at h; subst h; exact Nat.lt_succ_self _
      · simp [e] at h; exact Nat.lt_succ_of_lt (hs.bound n i h)
    · intro n n' i h h'
      simp only [vfind_cons] at h h'
      by_cases e : m = n <;> by_cases e' : m = n'
      · exact e.symm.trans e'
      · simp [e] at h; simp [e'] at h'
        have := hs.bound n' i h'; subst h; exact absurd this (Nat.lt_irrefl _)
      · simp [e] at h; simp [e'] at h'
        have := hs.bound n i h; subst h'; exact absurd this (Nat.lt_irrefl _)
      · simp [e] at h; simp [e'] at h'; exact hs.inj n n' i h h'

theorem vfinal_mono (ns : List Bytes) : ∀ (s : VStore) (n : Bytes) (i : Nat),
    vfind n s.entries = some i → vfind n (vfinal s ns).entries = some i := by
  induction ns with
  | nil => intro s n i h; exact h
  | cons m ns ih => intro s n i h; exact ih _ n i (getOrCreate_mono s m n i h)

theorem vfinal_inv (ns : List Bytes) : ∀ (s : VStore), VInv s → VInv (vfinal s ns) := by
  induction ns with
  | nil => intro s h; exact h
  | cons m ns ih => intro s h; exact ih _ (getOrCreate_inv s m h)

/-- every observation of a history is an entry of the final dictionary -/
theorem vrun_in_final (ns : List Bytes) : ∀ (s : VStore) (n : Bytes) (i : Nat),
    (n, i) ∈ vrun s ns → vfind n (vfinal s ns).entries = some i := by
  induction ns with
  | nil => intro s n i h; simp [vrun] at h
  | cons m ns ih =>
    intro s n i h
    simp only [vrun, List.mem_cons] at h
    rcases h with h | h
    · cases h
      exact vfinal_mono ns _ _ _ (getOrCreate_answer s m)
    · exact ih _ n i h

theorem vrun_stable (ns : List Bytes) (s : VStore) (n : Bytes) (i j : Nat)
    (hi : (n, i) ∈ vrun s ns) (hj : (n, j) ∈ vrun s ns) : i = j := by
  have a := vrun_in_final ns s n i hi
  have b := vrun_in_final ns s n j hj
  rw [a] at b; exact Option.some.inj b

theorem vrun_injective (ns : List Bytes) (s : VStore) (hs : VInv s) (n m : Bytes) (i : Nat)
    (hn : (n, i) ∈ vrun s ns) (hm : (m, i) ∈ vrun s ns) : n = m :=
  (vfinal_inv ns s hs).inj n m i (vrun_in_final ns s n i hn) (vrun_in_final ns s m i hm)

/-! ### the copying store refines the value-level dictionary, whatever the buffer does -/

/-- every key is a copy -/
def AllOwn (es : List (Key × Nat)) : Prop := ∀ e ∈ es, ∃ bs, e.1 = Key.own bs

/-- the dictionary as values (only meaningful under `AllOwn`) -/
def toV (es : List (Key × Nat)) : List (Bytes × Nat) := es.map (fun e => (e.1.bytes [], e.2))

def toVS (s : Store) : VStore := { entries := toV s.entries, next := s.next }

theorem findIn_own (buf name : Bytes) : ∀ (es : List (Key × Nat)), AllOwn es →
    findIn buf name es = vfind name (toV es) := by
  intro es
  induction es with
  | nil => intro _; rfl
  | cons e es ih =>
    intro h
    obtain ⟨bs, hb⟩ := h e (List.mem_cons_self ..)
    have ht : AllOwn es := fun x hx => h x (List.mem_cons_of_mem _ hx)
    obtain ⟨k, i⟩ := e
    simp only at hb
    subst hb
    show (if bs = name then some i else findIn buf name es) = vfind name ((bs, i) :: toV es)
    rw [vfind_cons, ih ht]

/-- **No later write to the caller's buffer changes what a name resolves to** (copying store). -/
theorem find_indep (s : Store) (h : AllOwn s.entries) (buf buf' name : Bytes) :
    s.find buf name = s.find buf' name := by
  simp only [Store.find]; rw [findIn_own buf name _ h, findIn_own buf' name _ h]

theorem getOrCreate_copy (s : Store) (h : AllOwn s.entries) (buf : Bytes) (v : View) :
    AllOwn (s.getOrCreate false buf v).1.entries ∧
    toVS (s.getOrCreate false buf v).1 = ((toVS s).getOrCreate (peek buf v)).1 ∧
    (s.getOrCreate false buf v).2 = ((toVS s).getOrCreate (peek buf v)).2 := by
  have hf : s.find buf (peek buf v) = vfind (peek buf v) (toVS s).entries := findIn_own buf _ _ h
  cases hv : vfind (peek buf v) (toVS s).entries with
  | some i =>
    rw [hv] at hf
    simp [Store.getOrCreate, hf, getOrCreate_hit hv, h]
  | none =>
    rw [hv] at hf
    rw [getOrCreate_miss hv]
    simp only [Store.getOrCreate, hf]
    refine ⟨?_, ?_, rfl⟩
    · intro e he
      simp only [List.mem_cons] at he
      rcases he with he | he
      · exact ⟨peek buf v, by rw [he]; rfl⟩
      · exact h e he
    · simp [toVS, toV, Key.bytes]

/-- **Refinement.** For the copying store and EVERY history of calls and buffer writes the observations
are those of the value-level dictionary fed with the copies taken at call time: the buffer has disappeared. -/
theorem run_copy_eq_values (ops : List Op) : ∀ (s : Store) (buf : Bytes), AllOwn s.entries →
    run false s buf ops = vrun (toVS s) (materialize buf ops) := by
  induction ops with
  | nil => intro s buf _; rfl
  | cons op ops ih =>
    intro s buf h
    cases op with
    | call v =>
      obtain ⟨h1, h2, h3⟩ := getOrCreate_copy s h buf v
      simp only [run, materialize, vrun]
      rw [ih _ buf h1, h2, h3]
    | write off bs =>
      simp only [run, materialize]
      exact ih s _ h

/-- the dictionary a history leaves -/
def finalStore (alias : Bool) : Store → Bytes → List Op → Store
  | s, _, [] => s
  | s, buf, .call v :: ops => finalStore alias (s.getOrCreate alias buf v).1 buf ops
  | s, buf, .write off bs :: ops => finalStore alias s (write buf off bs) ops

theorem finalStore_allOwn (ops : List Op) : ∀ (s : Store) (buf : Bytes), AllOwn s.entries →
    AllOwn (finalStore false s buf ops).entries := by
  induction ops with
  | nil => intro s _ h; exact h
  | cons op ops ih =>
    intro s buf h
    cases op with
    | call v => exact ih _ buf (getOrCreate_copy s h buf v).1
    | write off bs => exact ih s _ h

theorem allOwn_empty : AllOwn ({} : Store).entries := by intro e he; simp at he

theorem toVS_empty : toVS {} = {} := rfl

end LinVerif.IdAssign.Buf
