/-
C02, content level: the value tokens a version shows for a key, the abstract merger contract, and
what an installed edit log does to them (pure list facts; the interleaving part is C02TokInv).
-/
import LinVerif.Lemmas.C02Defs
set_option linter.unusedSimpArgs false
set_option linter.unusedVariables false

namespace LinVerif.Lemmas.C02
open LinVerif.VersionSet LinVerif.TableCache

/-- value tokens table content `c` holds for key `k` -/
def tokensAt (c : Content) (k : Nat) : List Nat := (lookupKey c k).getD []

/-- all value tokens the tables `files` hold for key `k` (what a read of `k` returns, flattened) -/
def vTokens (files : List FileMeta) (content : Nat → Content) (k : Nat) : List Nat :=
  files.flatMap (fun m => tokensAt (content m.no) k)

/-- CONTRACT of the family's merger: for every key the merged table holds exactly the tokens of
its inputs (as a multiset) — nothing dropped, nothing invented. -/
def MergerOk (merge : List Content → Content) : Prop :=
  ∀ cs k, (tokensAt (merge cs) k).Perm (cs.flatMap (fun c => tokensAt c k))

theorem nodup_of_map_no {files : List FileMeta} (hnd : (files.map (·.no)).Nodup) : files.Nodup :=
  List.Pairwise.of_map (·.no) (fun a b h hab => h (congrArg _ hab)) hnd

theorem eq_of_no_eq {files : List FileMeta} (hnd : (files.map (·.no)).Nodup) {a b : FileMeta}
    (ha : a ∈ files) (hb : b ∈ files) (h : a.no = b.no) : a = b := by
  induction files with
  | nil => cases ha
  | cons x xs ih =>
    simp only [List.map_cons, List.nodup_cons, List.mem_map, not_exists, not_and] at hnd
    simp only [List.mem_cons] at ha hb
    rcases ha with rfl | ha <;> rcases hb with rfl | hb
    · rfl
    · exact absurd h.symm (hnd.1 b hb)
    · exact absurd h (hnd.1 a ha)
    · exact ih hnd.2 ha hb

theorem vTokens_perm {l₁ l₂ : List FileMeta} (h : l₁.Perm l₂) (content : Nat → Content) (k : Nat) :
    (vTokens l₁ content k).Perm (vTokens l₂ content k) :=
  List.Perm.flatMap_right _ h

theorem vTokens_append (l₁ l₂ : List FileMeta) (content : Nat → Content) (k : Nat) :
    vTokens (l₁ ++ l₂) content k = vTokens l₁ content k ++ vTokens l₂ content k := by
  simp [vTokens, List.flatMap_append]

/-- the tables an edit's delete records remove from `files` are exactly `inputs` -/
theorem filter_dels_perm {files inputs : List FileMeta} (hnd : (files.map (·.no)).Nodup)
    (hin : ∀ m ∈ inputs, m ∈ files) (hind : inputs.Nodup) :
    (files.filter (fun m => (inputs.map (fun m => (m.level, m.no))).contains (m.level, m.no))).Perm inputs := by
  have hfnd : files.Nodup := nodup_of_map_no hnd
  rw [List.perm_ext_iff_of_nodup (hfnd.filter _) hind]
  intro m
  simp only [List.mem_filter, List.contains_eq_mem, List.mem_map, Prod.mk.injEq, decide_eq_true_eq]
  constructor
  · rintro ⟨hm, m', hm', hl, hn⟩
    have := eq_of_no_eq hnd (hin m' hm') hm hn
    rw [← this]; exact hm'
  · intro hm
    exact ⟨hin m hm, m, hm, rfl, rfl⟩

theorem filter_not_eq (files : List FileMeta) (dels : List (Nat × Nat)) :
    (files.filter (fun m => dels.contains (m.level, m.no)) ++
      files.filter (fun m => !(dels.contains (m.level, m.no)))).Perm files :=
  List.filter_append_perm _ _

/-- a compaction's edit (delete the inputs, add the merged output) keeps every key's tokens -/
theorem compact_edit_tokens {merge : List Content → Content} (hm : MergerOk merge) (v : VData)
    (inputs : List FileMeta) (out : FileMeta) (content : Nat → Content)
    (hnd : v.nos.Nodup) (hin : ∀ m ∈ inputs, m ∈ v.files) (hind : inputs.Nodup)
    (hc : content out.no = merge (inputs.map (fun m => content m.no))) (k : Nat) :
    (vTokens (applyEdit v { dels := inputs.map (fun m => (m.level, m.no)), adds := [out] }).files content k).Perm
      (vTokens v.files content k) := by
  simp only [applyEdit, vTokens_append]
  have h1 : (vTokens [out] content k).Perm (vTokens inputs content k) := by
    simp only [vTokens, List.flatMap_cons, List.flatMap_nil, List.append_nil, hc]
    have := hm (inputs.map (fun m => content m.no)) k
    simpa [List.flatMap_map] using this
  have h2 := vTokens_perm (filter_dels_perm hnd hin hind) content k
  have h3 := vTokens_perm (filter_not_eq v.files (inputs.map (fun m => (m.level, m.no)))) content k
  rw [vTokens_append] at h3
  -- tokens(keep) ++ tokens(out) ~ tokens(keep) ++ tokens(inputs) ~ tokens(keep) ++ tokens(removed) ~ tokens(files)
  refine List.Perm.trans ?_ h3
  refine List.Perm.trans (List.Perm.append_left _ (h1.trans h2.symm)) ?_
  exact List.perm_append_comm

/-- a trivial move (same table, next level) keeps every key's tokens -/
theorem move_edit_tokens (v : VData) (m0 : FileMeta) (content : Nat → Content)
    (hnd : v.nos.Nodup) (hin : m0 ∈ v.files) (k : Nat) :
    (vTokens (applyEdit v { dels := [(m0.level, m0.no)], adds := [{ m0 with level := m0.level + 1 }] }).files content k).Perm
      (vTokens v.files content k) := by
  have h := filter_dels_perm (inputs := [m0]) hnd (by simpa using hin) (by simp)
  simp only [applyEdit, vTokens_append]
  have h1 : vTokens [{ m0 with level := m0.level + 1 }] content k = vTokens [m0] content k := by simp [vTokens]
  have h2 := vTokens_perm h content k
  have h3 := vTokens_perm (filter_not_eq v.files [(m0.level, m0.no)]) content k
  rw [vTokens_append] at h3
  simp only [List.map_cons, List.map_nil] at h2
  refine List.Perm.trans ?_ h3
  rw [h1]
  refine List.Perm.trans (List.Perm.append_left _ h2.symm) ?_
  exact List.perm_append_comm

/-- an edit without delete records keeps the tables and appends its additions -/
theorem nodel_edit_files (v : VData) (e : Edit) (h : e.dels = []) :
    (applyEdit v e).files = v.files ++ e.adds := by
  simp [applyEdit, h]


/-! #### the contract is satisfiable -/

/-- a merger that writes, for every key of its inputs, the concatenation of the inputs' tokens -/
def collectMerge (cs : List Content) : Content :=
  (cs.flatMap (fun c => c.map (·.1))).map (fun k => (k, cs.flatMap (fun c => tokensAt c k)))

theorem lookupKey_map_keys (keys : List Nat) (F : Nat → List Nat) (k : Nat) :
    lookupKey (keys.map (fun k' => (k', F k'))) k = if k ∈ keys then some (F k) else none := by
  induction keys with
  | nil => simp [lookupKey]
  | cons x xs ih =>
    simp only [lookupKey, List.map_cons, List.find?_cons] at ih ⊢
    by_cases hx : x = k
    · subst hx; simp
    · have hne : (x == k) = false := by simpa using hx
      simp only [hne]
      rw [ih]
      have : k ≠ x := fun h => hx h.symm
      simp [this]

theorem tokensAt_of_not_key {c : Content} {k : Nat} (h : k ∉ c.map (·.1)) : tokensAt c k = [] := by
  have : c.find? (fun kv => kv.1 == k) = none := by
    rw [List.find?_eq_none]
    intro kv hkv hk
    exact h (List.mem_map.mpr ⟨kv, hkv, by simpa using hk⟩)
  simp [tokensAt, lookupKey, this]

theorem collectMerge_ok : MergerOk collectMerge := by
  intro cs k
  simp only [collectMerge, tokensAt, lookupKey_map_keys]
  split
  · simp [tokensAt]
  · next hk =>
    have : cs.flatMap (fun c => tokensAt c k) = [] := by
      rw [List.flatMap_eq_nil_iff]
      intro c hc
      apply tokensAt_of_not_key
      intro hmem
      exact hk (List.mem_flatMap.mpr ⟨c, hc, hmem⟩)
    simp only [tokensAt] at this
    simp [this]


/-! #### the harness' own merger satisfies the contract -/

theorem perm_insTok (t : Nat) (l : List Nat) : (insTok t l).Perm (t :: l) := by
  induction l with
  | nil => simp [insTok]
  | cons x xs ih =>
    simp only [insTok]
    split
    · exact List.Perm.refl _
    · exact (List.Perm.cons x ih).trans (List.Perm.swap t x xs)

theorem perm_sortNat (l : List Nat) : (sortNat l).Perm l := by
  induction l with
  | nil => simp [sortNat]
  | cons x xs ih =>
    simp only [sortNat, List.foldr_cons] at ih ⊢
    exact (perm_insTok x _).trans (List.Perm.cons x ih)

theorem mem_dedupNat (l : List Nat) : ∀ x, x ∈ dedupNat l ↔ x ∈ l := by
  induction l with
  | nil => intro x; simp [dedupNat]
  | cons y ys ih =>
    intro x
    simp only [dedupNat, List.foldr_cons] at ih ⊢
    split
    · next hc =>
      have hy : y ∈ ys := (ih y).mp (by simpa using hc)
      rw [ih x]; simp only [List.mem_cons]
      constructor
      · exact Or.inr
      · rintro (rfl | h)
        · exact hy
        · exact h
    · simp only [List.mem_cons, ih x]

theorem mergeContent_ok : MergerOk mergeContent := by
  intro cs k
  simp only [mergeContent, tokensAt, lookupKey_map_keys]
  split
  · simpa [tokensAt] using perm_sortNat (cs.flatMap (fun c => (lookupKey c k).getD []))
  · next hk =>
    have hk' : k ∉ cs.flatMap (fun c => c.map (·.1)) := by
      intro hmem
      exact hk ((perm_sortNat _).mem_iff.mpr ((mem_dedupNat _ k).mpr hmem))
    have : cs.flatMap (fun c => tokensAt c k) = [] := by
      rw [List.flatMap_eq_nil_iff]
      intro c hc
      apply tokensAt_of_not_key
      intro hmem
      exact hk' (List.mem_flatMap.mpr ⟨c, hc, hmem⟩)
    simp only [tokensAt] at this
    simp [this]

end LinVerif.Lemmas.C02
