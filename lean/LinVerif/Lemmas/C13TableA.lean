import LinVerif.Lemmas.C13Table
/-! C13 era table, days `[0, 32768)` of the era. -/
namespace LinVerif.Lemmas.C13
theorem tableA : checkRange okN 15 0 = true := by decide +kernel
end LinVerif.Lemmas.C13
